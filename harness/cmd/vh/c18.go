package main

// C18 — access control: every operation is gated by the caller's database permission.
//
// The REAL server (pkg/server.ImmuServer, Initialize + Start with the production interceptor chain and all three
// registered services) runs in-process on a bufconn listener. The RPC list comes from the real grpc.ServiceDesc
// values, requests/responses are built through protoregistry, so an RPC added to the descriptors is exercised
// (with an empty request) without touching this file.
//
// For each cell (rpc × role × database selection × credential state) the harness
//   - issues the request and classifies the answer (ok | pass | deny-perm | deny-auth | deny-nodb | …),
//   - sends the same cell to the Lean model (`c18 gate …`) and compares verdicts,
//   - evaluates the model-independent oracle on the observed effects:
//       state digest of a database changed   ⇒ caller has RW/Admin/SysAdmin on that database (valid credentials),
//       canary data of a database returned    ⇒ caller has ≥R on that database,
//       systemdb changed                      ⇒ user/database administration RPC by an admin,
//       stale/absent credentials              ⇒ refused, nothing changed, nothing returned.

import (
	"context"
	"crypto/sha1"
	"encoding/json"
	"fmt"
	"io"
	"net"
	"os"
	"runtime/pprof"
	"sort"
	"strings"
	"time"

	"github.com/codenotary/immudb/embedded/logger"
	"github.com/codenotary/immudb/pkg/api/protomodel"
	"github.com/codenotary/immudb/pkg/api/schema"
	"github.com/codenotary/immudb/pkg/auth"
	"github.com/codenotary/immudb/pkg/server"
	"github.com/codenotary/immudb/pkg/server/sessions"
	"google.golang.org/grpc"
	"google.golang.org/grpc/codes"
	"google.golang.org/grpc/credentials/insecure"
	"google.golang.org/grpc/metadata"
	"google.golang.org/grpc/status"
	"google.golang.org/grpc/test/bufconn"
	"google.golang.org/protobuf/encoding/prototext"
	"google.golang.org/protobuf/proto"
	"google.golang.org/protobuf/reflect/protoreflect"
	"google.golang.org/protobuf/reflect/protoregistry"
	"google.golang.org/protobuf/types/known/emptypb"
	"google.golang.org/protobuf/types/known/structpb"

	"verif/harness/internal/hx"
)

func init() { runners["C18"] = runC18 }

const (
	c18DB1      = "c18db1" // target database of the roles
	c18DB2      = "c18db2" // other database
	c18Sys      = "systemdb"
	c18Def      = "defaultdb"
	c18Pw       = "C18-passw0rd!"
	c18Victim   = "c18victim"
	c18SysCan   = "c18canarysys"
	c18SessIdle = 12 * time.Second // session inactivity timeout of the test servers
)

func c18Canary(db string) string { return "C18CANARY-" + db + "-x" }

// ---------------------------------------------------------------- rpc table from the real descriptors

type c18Rpc struct {
	svcFull, svc, wire, handler string
	stream, cliStream           bool
	srvStream                   bool // server-streaming flag of the grpc.StreamDesc (c18streams.go)
	in, out                     protoreflect.MessageType
}

func (p c18Rpc) full() string { return "/" + p.svcFull + "/" + p.wire }

func c18Rpcs() ([]c18Rpc, error) {
	var out []c18Rpc
	for _, sd := range []*grpc.ServiceDesc{&schema.ImmuService_ServiceDesc, &protomodel.DocumentService_ServiceDesc, &protomodel.AuthorizationService_ServiceDesc} {
		d, err := protoregistry.GlobalFiles.FindDescriptorByName(protoreflect.FullName(sd.ServiceName))
		if err != nil {
			return nil, fmt.Errorf("%s: %w", sd.ServiceName, err)
		}
		svd, ok := d.(protoreflect.ServiceDescriptor)
		if !ok {
			return nil, fmt.Errorf("%s: not a service", sd.ServiceName)
		}
		short := sd.ServiceName[strings.LastIndex(sd.ServiceName, ".")+1:]
		add := func(wire string, stream, cli bool, srvS ...bool) error {
			md := svd.Methods().ByName(protoreflect.Name(wire))
			if md == nil {
				return fmt.Errorf("%s/%s: no method descriptor", sd.ServiceName, wire)
			}
			in, err := protoregistry.GlobalTypes.FindMessageByName(md.Input().FullName())
			if err != nil {
				return err
			}
			o, err := protoregistry.GlobalTypes.FindMessageByName(md.Output().FullName())
			if err != nil {
				return err
			}
			out = append(out, c18Rpc{svcFull: sd.ServiceName, svc: short, wire: wire, handler: strings.ToUpper(wire[:1]) + wire[1:], stream: stream, cliStream: cli, srvStream: len(srvS) > 0 && srvS[0], in: in, out: o})
			return nil
		}
		for _, m := range sd.Methods {
			if err := add(m.MethodName, false, false); err != nil {
				return nil, err
			}
		}
		for _, s := range sd.Streams {
			if err := add(s.StreamName, true, s.ClientStreams, s.ServerStreams); err != nil {
				return nil, err
			}
		}
	}
	return out, nil
}

// ---------------------------------------------------------------- bookkeeping (what the control channel granted)

type c18User struct {
	name     string
	pw       string
	sysadmin bool
	perms    map[string]uint32 // truth: what the control channel granted
	active   bool              // truth
	noSQL    bool              // holds no SQL privilege at all (the nameless maintenance operator)
	logins   int               // the server's login counter for this name (Login +1; Logout / permission, status or password change -1)
	view     map[string]uint32 // permissions held by the logged-in list = snapshot taken at the last Login
}

func c18CopyPerms(m map[string]uint32) map[string]uint32 {
	o := map[string]uint32{}
	for k, v := range m {
		o[k] = v
	}
	return o
}

func c18PermIn(sysadmin bool, m map[string]uint32, db string) uint32 {
	if sysadmin {
		return auth.PermissionSysAdmin
	}
	return m[db]
}

func c18AnyAdmin(m map[string]uint32) bool {
	for _, p := range m {
		if p == auth.PermissionAdmin {
			return true
		}
	}
	return false
}

type c18Cred struct {
	kind  string // none | token | session
	state string // sessions: valid | stale (tokens: additionally derived from the user's login counter)
	why   string // scenario label
	token string
	sess  string
	tx    string // transaction id (valid while the tx is ongoing)
	sel   string // selected database name, "" = none
	user  *c18User
	snap  map[string]uint32 // sessions: permissions copied into the session at OpenSession
}

// srvState / srvPerms: what the SERVER holds for this credential (not necessarily the truth any more).
func (c *c18Cred) srvState() string {
	switch c.kind {
	case "none":
		return "valid"
	case "token":
		if c.state == "stale" || c.user == nil || c.user.logins <= 0 {
			return "stale"
		}
		return "valid"
	}
	return c.state
}
func (c *c18Cred) srvPerms() map[string]uint32 {
	if c.user == nil {
		return nil
	}
	if c.kind == "session" {
		return c.snap
	}
	return c.user.view
}

func (c *c18Cred) ctx() (context.Context, context.CancelFunc) {
	ctx, cancel := context.WithTimeout(context.Background(), 20*time.Second)
	md := metadata.MD{}
	switch c.kind {
	case "token":
		md.Set("authorization", c.token)
	case "session":
		md.Set("sessionid", c.sess)
		if c.tx != "" {
			md.Set("transactionid", c.tx)
		}
	}
	return metadata.NewOutgoingContext(ctx, md), cancel
}

type c18Env struct {
	r       *hx.Result
	rng     *hx.Rng
	srv     *server.ImmuServer
	conn    *grpc.ClientConn
	cfg     string // auth, multidb, maintenance bits for the model
	rpcs    []c18Rpc
	users   map[string]*c18User // by role
	byName  map[string]*c18User
	sessOf  map[string][]*c18Cred
	curColl string
	curFld  string
	curVal  string
	ctlTok  map[string]string
	ctr     int
	last    map[string]string
	sampled map[string]bool
	dir     string
	db1     string // database named by requests that carry a database name
	dbAdm   string // database named by Load/Unload/Delete/Update/TruncateDatabase
	openCfg bool   // authentication disabled / maintenance mode: everything is open by configuration, only the model is compared
}

// ---------------------------------------------------------------- server

func c18Start(dir string, authOn, maint bool) (*server.ImmuServer, *grpc.ClientConn, error) {
	lis := bufconn.Listen(1 << 20)
	so := sessions.DefaultOptions().WithMaxSessions(1 << 20).WithSessionGuardCheckInterval(100 * time.Millisecond).
		WithTimeout(c18SessIdle).WithMaxSessionInactivityTime(c18SessIdle)
	opts := server.DefaultOptions().WithDir(dir).WithAuth(authOn).WithMaintenance(maint).WithListener(lis).
		WithMetricsServer(false).WithWebServer(false).WithPgsqlServer(false).WithPidfile("").WithLogfile("").
		WithAdminPassword(auth.SysAdminPassword).WithSynced(false).WithSessionOptions(so).WithDevMode(false)
	var lw io.Writer = io.Discard
	if lf := os.Getenv("C18_SRVLOG"); lf != "" {
		if f, ferr := os.OpenFile(lf, os.O_CREATE|os.O_APPEND|os.O_WRONLY, 0o644); ferr == nil {
			lw = f
		}
	}
	lvl := logger.LogError
	if lw != io.Discard {
		lvl = logger.LogInfo
	}
	lg := logger.NewSimpleLoggerWithLevel("immudb ", lw, lvl)
	srv := server.DefaultServer().WithOptions(opts).WithLogger(lg).(*server.ImmuServer)
	// Initialize prints the configuration banner to stdout
	so0 := os.Stdout
	if dn, derr := os.OpenFile(os.DevNull, os.O_WRONLY, 0); derr == nil {
		os.Stdout = dn
		defer func() { os.Stdout = so0; dn.Close() }()
	}
	if err := srv.Initialize(); err != nil {
		return nil, nil, fmt.Errorf("initialize: %w", err)
	}
	go func() { _ = srv.Start() }()
	conn, err := grpc.NewClient("passthrough:///bufconn",
		grpc.WithContextDialer(func(ctx context.Context, _ string) (net.Conn, error) { return lis.DialContext(ctx) }),
		grpc.WithTransportCredentials(insecure.NewCredentials()),
		grpc.WithDefaultCallOptions(grpc.MaxCallRecvMsgSize(64<<20)))
	if err != nil {
		return nil, nil, err
	}
	for i := 0; i < 200; i++ { // wait until the server answers
		ctx, cancel := context.WithTimeout(context.Background(), time.Second)
		err = conn.Invoke(ctx, "/immudb.schema.ImmuService/Health", &emptypb.Empty{}, &schema.HealthResponse{})
		cancel()
		if err == nil {
			break
		}
		time.Sleep(20 * time.Millisecond)
	}
	if err != nil {
		return nil, nil, fmt.Errorf("server not answering: %w", err)
	}
	return srv, conn, nil
}

func (e *c18Env) stop() {
	if e.conn != nil {
		e.conn.Close()
	}
	if e.srv != nil {
		done := make(chan struct{})
		go func() { defer close(done); defer func() { recover() }(); _ = e.srv.Stop() }()
		select {
		case <-done:
		case <-time.After(15 * time.Second):
		}
	}
}

// ---------------------------------------------------------------- answer classes

func c18Class(err error) (cls, msg string) {
	if err == nil {
		return "ok", ""
	}
	st, _ := status.FromError(err)
	msg = st.Message()
	low := strings.ToLower(msg)
	has := func(ss ...string) bool {
		for _, s := range ss {
			if strings.Contains(low, s) {
				return true
			}
		}
		return false
	}
	switch {
	case has("operation not allowed in maintenance mode"):
		return "deny-maint", msg
	case has("operation not supported"):
		return "deny-unsupported", msg
	case has("authentication must be on", "only with authentication on", "authentication disabled"):
		return "deny-authoff", msg
	case has("please select a database first", "please select database first"):
		return "deny-nodb", msg
	case st.Code() == codes.Unauthenticated,
		has("not logged in", "no session found", "session not found", "please login", "could not get loggedin user data",
			"no sessionid provided", "no session auth data provided", "no transaction auth data provided", "no transactionid provided",
			"invalid token", "token data not found"):
		return "deny-auth", msg
	case st.Code() == codes.PermissionDenied,
		has("permission denied", "does not have permission", "do not have permission", "not have admin permission",
			"does not have permissions for this operation", "user is not system admin nor admin", "access denied"):
		return "deny-perm", msg
	case st.Code() == codes.Unimplemented:
		return "deny-other", msg
	}
	return "pass", msg
}

func c18Verdict(cls string) string {
	if cls == "ok" || cls == "pass" {
		return "allow"
	}
	return cls
}

// ---------------------------------------------------------------- control channel (sysadmin)

var c18TDigest, c18TInvoke, c18TLogin time.Duration
var c18THandler = map[string]time.Duration{}

func (e *c18Env) call(ctx context.Context, full string, req, resp proto.Message) error {
	return e.conn.Invoke(ctx, full, req, resp)
}

func tokCtx(tok string) (context.Context, context.CancelFunc) {
	ctx, cancel := context.WithTimeout(context.Background(), 30*time.Second)
	return metadata.NewOutgoingContext(ctx, metadata.Pairs("authorization", tok)), cancel
}

func (e *c18Env) login(user, pw string) (string, error) {
	t0 := time.Now()
	defer func() { c18TLogin += time.Since(t0) }()
	ctx, cancel := context.WithTimeout(context.Background(), 30*time.Second)
	defer cancel()
	resp := &schema.LoginResponse{}
	if err := e.call(ctx, imm+"Login", &schema.LoginRequest{User: []byte(user), Password: []byte(pw)}, resp); err != nil {
		return "", err
	}
	if u := e.byName[user]; u != nil {
		u.logins++
		u.view = c18CopyPerms(u.perms)
	}
	return resp.Token, nil
}

func (e *c18Env) useDB(tok, db string) (string, error) {
	ctx, cancel := tokCtx(tok)
	defer cancel()
	resp := &schema.UseDatabaseReply{}
	if err := e.call(ctx, imm+"UseDatabase", &schema.Database{DatabaseName: db}, resp); err != nil {
		return "", err
	}
	return resp.Token, nil
}

func (e *c18Env) openSession(user, pw, db string) (string, error) {
	t0 := time.Now()
	defer func() { c18TLogin += time.Since(t0) }()
	ctx, cancel := context.WithTimeout(context.Background(), 30*time.Second)
	defer cancel()
	resp := &schema.OpenSessionResponse{}
	if err := e.call(ctx, imm+"OpenSession", &schema.OpenSessionRequest{Username: []byte(user), Password: []byte(pw), DatabaseName: db}, resp); err != nil {
		return "", err
	}
	return resp.SessionID, nil
}

// ctlLogin (re)creates the sysadmin control tokens.
func (e *c18Env) ctlLogin(dbs ...string) error {
	t, err := e.login(auth.SysAdminUsername, auth.SysAdminPassword)
	if err != nil {
		return fmt.Errorf("control login: %w", err)
	}
	if e.ctlTok == nil {
		e.ctlTok = map[string]string{}
	}
	e.ctlTok[""] = t
	for _, db := range dbs {
		dt, err := e.useDB(t, db)
		if err != nil {
			return fmt.Errorf("control use %s: %w", db, err)
		}
		e.ctlTok[db] = dt
	}
	return nil
}

var c18Relogins int

func (e *c18Env) ctlRelogin() error {
	c18Relogins++
	dbs := []string{}
	for k := range e.ctlTok {
		if k != "" {
			dbs = append(dbs, k)
		}
	}
	sort.Strings(dbs)
	return e.ctlLogin(dbs...)
}

// ctl runs one control request as sysadmin on db; re-logs in once if the control token was invalidated by a test cell.
func (e *c18Env) ctl(db, full string, req, resp proto.Message) error {
	for attempt := 0; ; attempt++ {
		tok, ok := e.ctlTok[db]
		if !ok {
			return fmt.Errorf("no control token for %q", db)
		}
		ctx, cancel := tokCtx(tok)
		err := e.call(ctx, full, req, resp)
		cancel()
		if err == nil {
			return nil
		}
		cls, _ := c18Class(err)
		if attempt == 0 && (cls == "deny-auth" || cls == "deny-nodb") {
			if lerr := e.ctlRelogin(); lerr != nil {
				return lerr
			}
			continue
		}
		return err
	}
}

const imm = "/immudb.schema.ImmuService/"
const docs = "/immudb.model.DocumentService/"

// userChanged mirrors what ChangePermission / SetActiveUser / ChangePassword do to the target's logins and sessions.
func (e *c18Env) userChanged(u *c18User) {
	if u == nil {
		return
	}
	if u.logins > 0 {
		u.logins--
	}
	for _, s := range e.sessOf[u.name] {
		if s.state == "valid" {
			s.state = "stale"
			if s.why == "" {
				s.why = "closed-by-user-change"
			}
		}
	}
	e.sessOf[u.name] = nil
}

func (e *c18Env) createUser(role, name string, perm uint32, db string) error {
	err := e.ctl(c18Def, imm+"CreateUser", &schema.CreateUserRequest{User: []byte(name), Password: []byte(c18Pw), Permission: perm, Database: db}, &emptypb.Empty{})
	if err != nil {
		return fmt.Errorf("create user %s: %w", name, err)
	}
	u := &c18User{name: name, pw: c18Pw, perms: map[string]uint32{db: perm}, active: true, view: map[string]uint32{}}
	e.byName[name] = u
	if role != "" {
		e.users[role] = u
	}
	return nil
}

func (e *c18Env) grant(u *c18User, db string, perm uint32) error {
	err := e.ctl(c18Def, imm+"ChangePermission", &schema.ChangePermissionRequest{Action: schema.PermissionAction_GRANT, Username: u.name, Database: db, Permission: perm}, &emptypb.Empty{})
	if err != nil {
		return fmt.Errorf("grant %s %s %d: %w", u.name, db, perm, err)
	}
	u.perms[db] = perm
	e.userChanged(u)
	return nil
}

func (e *c18Env) revoke(u *c18User, db string) error {
	err := e.ctl(c18Def, imm+"ChangePermission", &schema.ChangePermissionRequest{Action: schema.PermissionAction_REVOKE, Username: u.name, Database: db, Permission: auth.PermissionR}, &emptypb.Empty{})
	if err != nil {
		return fmt.Errorf("revoke %s %s: %w", u.name, db, err)
	}
	delete(u.perms, db)
	e.userChanged(u)
	return nil
}

func (e *c18Env) setActive(u *c18User, active bool) error {
	err := e.ctl(c18Def, imm+"SetActiveUser", &schema.SetActiveUserRequest{Active: active, Username: u.name}, &emptypb.Empty{})
	if err != nil {
		return fmt.Errorf("setactive %s %v: %w", u.name, active, err)
	}
	u.active = active
	e.userChanged(u)
	return nil
}

// drain brings the server's login counter of u to zero (every status change decrements it by one).
func (e *c18Env) drain(u *c18User) error {
	for i := 0; u.logins > 0 && i < 64; i++ {
		if err := e.setActive(u, true); err != nil {
			return err
		}
	}
	return nil
}

// regrant re-applies the real permissions of u: ChangePermission REPLACES the user's SQL privileges by the defaults of
// the one database it is called for, so after a temporary grant/revoke the privileges on the home database are gone.
func (e *c18Env) regrant(u *c18User) error {
	dbs := []string{}
	for db := range u.perms {
		dbs = append(dbs, db)
	}
	sort.Slice(dbs, func(i, j int) bool { // systemdb first, the SQL-capable home database last
		if (dbs[i] == c18Sys) != (dbs[j] == c18Sys) {
			return dbs[i] == c18Sys
		}
		return dbs[i] > dbs[j]
	})
	for _, db := range dbs {
		if err := e.grant(u, db, u.perms[db]); err != nil {
			return err
		}
	}
	return nil
}

func mustStruct(m map[string]interface{}) *structpb.Struct {
	s, err := structpb.NewStruct(m)
	if err != nil {
		panic(err)
	}
	return s
}

// fixture data: canary value reachable through every read RPC family
func (e *c18Env) seed(db string) error {
	can := []byte(c18Canary(db))
	steps := []struct {
		full string
		req  proto.Message
		resp proto.Message
	}{
		{imm + "Set", &schema.SetRequest{KVs: []*schema.KeyValue{{Key: []byte("canary"), Value: can}, {Key: []byte("other"), Value: []byte("v")}}}, &schema.TxHeader{}},
		{imm + "SetReference", &schema.ReferenceRequest{Key: []byte("refcanary"), ReferencedKey: []byte("canary")}, &schema.TxHeader{}},
		{imm + "ZAdd", &schema.ZAddRequest{Set: []byte("zset"), Score: 1, Key: []byte("canary")}, &schema.TxHeader{}},
		{imm + "SQLExec", &schema.SQLExecRequest{Sql: "CREATE TABLE t1(id INTEGER, v VARCHAR[64], PRIMARY KEY id); INSERT INTO t1(id, v) VALUES (1, '" + string(can) + "');"}, &schema.SQLExecResult{}},
		{docs + "CreateCollection", &protomodel.CreateCollectionRequest{Name: "col1", Fields: []*protomodel.Field{{Name: "f", Type: protomodel.FieldType_STRING}}}, &protomodel.CreateCollectionResponse{}},
		{docs + "InsertDocuments", &protomodel.InsertDocumentsRequest{CollectionName: "col1", Documents: []*structpb.Struct{mustStruct(map[string]interface{}{"f": string(can)})}}, &protomodel.InsertDocumentsResponse{}},
	}
	for _, s := range steps {
		if err := e.ctl(db, s.full, s.req, s.resp); err != nil {
			return fmt.Errorf("seed %s %s: %w", db, s.full, err)
		}
	}
	return nil
}

// stateOf: CurrentState of db through a direct (in-process) call of the real handler with the sysadmin control token.
func (e *c18Env) stateOf(db string) (string, error) {
	for attempt := 0; ; attempt++ {
		ctx := metadata.NewIncomingContext(context.Background(), metadata.Pairs("authorization", e.ctlTok[db]))
		st, err := e.srv.CurrentState(ctx, &emptypb.Empty{})
		if err == nil {
			return fmt.Sprintf("tx=%d hash=%x", st.TxId, st.TxHash), nil
		}
		cls, msg := c18Class(err)
		if attempt == 0 && (cls == "deny-auth" || cls == "deny-nodb") {
			if lerr := e.ctlRelogin(); lerr != nil {
				return "", lerr
			}
			continue
		}
		if strings.Contains(msg, "already closed") || strings.Contains(err.Error(), "already closed") {
			return "closed", nil
		}
		return "", fmt.Errorf("state of %s: %w", db, err)
	}
}

// direct runs a control read through a direct (in-process) call of the real handler with the sysadmin token of db.
func (e *c18Env) direct(db string, f func(ctx context.Context) error) error {
	for attempt := 0; ; attempt++ {
		err := f(metadata.NewIncomingContext(context.Background(), metadata.Pairs("authorization", e.ctlTok[db])))
		if err == nil {
			return nil
		}
		cls, _ := c18Class(err)
		if attempt == 0 && (cls == "deny-auth" || cls == "deny-nodb") {
			if lerr := e.ctlRelogin(); lerr != nil {
				return lerr
			}
			continue
		}
		return err
	}
}

// small per-database buffers: opening a database preallocates MaxConcurrency × MaxTxEntries × MaxKeyLen bytes
func c18SmallDB() *schema.DatabaseNullableSettings {
	u := func(v uint32) *schema.NullableUint32 { return &schema.NullableUint32{Value: v} }
	return &schema.DatabaseNullableSettings{FileSize: u(1 << 20), MaxKeyLen: u(256), MaxValueLen: u(1 << 14), MaxTxEntries: u(64),
		MaxConcurrency: u(4), MaxIOConcurrency: u(1), ReadTxPoolSize: u(4), MaxActiveTransactions: u(16),
		WriteBufferSize: u(1 << 16), TxLogCacheSize: u(16), VLogCacheSize: u(16),
		AhtSettings:   &schema.AHTNullableSettings{WriteBufferSize: u(1 << 16)},
		IndexSettings: &schema.IndexNullableSettings{FlushBufferSize: u(1 << 16), CacheSize: u(64)}}
}

var c18Extra = []string{"c18extra1", "c18extra2", "c18extra3"}

func c18SettingsHash(m *schema.DatabaseNullableSettings) string {
	b, _ := proto.MarshalOptions{Deterministic: true}.Marshal(m)
	return fmt.Sprintf("%x", sha1.Sum(b))
}

// digest: per database the committed state (tx id + hash; "closed" when unloaded). When the system database moved,
// additionally the settings of the fixture databases and the existence of the databases the create-RPCs name;
// with full set (start of every batch) the authoritative list of databases with their settings (DatabaseListV2).
func (e *c18Env) digest(full bool) (map[string]string, error) {
	t0 := time.Now()
	defer func() { c18TDigest += time.Since(t0) }()
	out := map[string]string{}
	for _, db := range []string{c18Def, c18DB1, c18DB2, c18Sys} {
		s, err := e.stateOf(db)
		if err != nil {
			return nil, err
		}
		out[db] = s
	}
	if full || e.last == nil {
		lst := &schema.DatabaseListResponseV2{}
		if err := e.ctl(c18Def, imm+"DatabaseListV2", &schema.DatabaseListRequestV2{}, lst); err != nil {
			return nil, fmt.Errorf("digest list: %w", err)
		}
		for _, d := range lst.Databases {
			out["settings:"+d.Name] = c18SettingsHash(d.Settings)
		}
		return out, nil
	}
	for k, v := range e.last {
		if strings.HasPrefix(k, "settings:") {
			out[k] = v
		}
	}
	if e.last[c18Sys] == out[c18Sys] {
		return out, nil
	}
	// database options live in the system database: re-read them only when it moved
	for _, db := range []string{c18Def, c18DB1, c18DB2} {
		var rs *schema.DatabaseSettingsResponse
		err := e.direct(db, func(ctx context.Context) (err error) {
			rs, err = e.srv.GetDatabaseSettingsV2(ctx, &schema.DatabaseSettingsRequest{})
			return err
		})
		if err != nil {
			return nil, fmt.Errorf("digest settings %s: %w", db, err)
		}
		out["settings:"+db] = c18SettingsHash(rs.Settings)
	}
	for _, db := range c18Extra {
		err := e.direct("", func(ctx context.Context) error {
			_, err := e.srv.UseDatabase(ctx, &schema.Database{DatabaseName: db})
			return err
		})
		_, had := out["settings:"+db]
		switch {
		case err == nil && !had:
			out["settings:"+db] = "created"
		case err != nil && strings.Contains(err.Error(), "does not exist"):
			delete(out, "settings:"+db)
		case err != nil:
			return nil, fmt.Errorf("digest existence %s: %w", db, err)
		}
	}
	return out, nil
}

// ---------------------------------------------------------------- requests

func (e *c18Env) next() int { e.ctr++; return e.ctr }

// request returns a valid request that reaches the permission checks, and the database it names ("" = none).
func (e *c18Env) request(p c18Rpc, cr *c18Cred) (proto.Message, string) {
	n := e.next()
	k := []byte(fmt.Sprintf("k%06d", n))
	v := fmt.Sprintf("v%06d", n)
	onSys := cr.sel == c18Sys
	selOr := func() string {
		if cr.sel != "" {
			return cr.sel
		}
		return e.db1
	}
	wcoll := func() string { // collection that write requests may change
		if e.curColl != "" {
			return e.curColl
		}
		return "col1"
	}
	fEq := func(val string) *protomodel.Query {
		return &protomodel.Query{CollectionName: wcoll(), Limit: 1, Expressions: []*protomodel.QueryExpression{{FieldComparisons: []*protomodel.FieldComparison{{Field: "f", Operator: protomodel.ComparisonOperator_EQ, Value: structpb.NewStringValue(val)}}}}}
	}
	curVal := func() string {
		if e.curColl != "" && e.curVal != "" {
			return e.curVal
		}
		return "nosuchvalue"
	}
	if p.svc == "AuthorizationService" {
		if p.wire == "OpenSession" {
			return &protomodel.OpenSessionRequest{Username: "c18nosuchuser", Password: "wrong-password", Database: c18DB2}, ""
		}
		return p.in.New().Interface(), ""
	}
	switch p.handler {
	// --- users
	case "CreateUser":
		return &schema.CreateUserRequest{User: []byte(fmt.Sprintf("c18u%06d", n)), Password: []byte(c18Pw), Permission: auth.PermissionR, Database: e.db1}, e.db1
	case "ChangePassword":
		return &schema.ChangePasswordRequest{User: []byte(c18Victim), OldPassword: []byte(c18Pw), NewPassword: []byte(c18Pw)}, ""
	case "ChangePermission":
		return &schema.ChangePermissionRequest{Action: schema.PermissionAction_GRANT, Username: c18Victim, Database: e.db1, Permission: auth.PermissionR}, e.db1
	case "ChangeSQLPrivileges":
		return &schema.ChangeSQLPrivilegesRequest{Action: schema.PermissionAction_GRANT, Username: c18Victim, Database: e.db1, Privileges: []string{"SELECT"}}, e.db1
	case "SetActiveUser":
		return &schema.SetActiveUserRequest{Active: true, Username: c18Victim}, ""
	case "Login":
		return &schema.LoginRequest{User: []byte("c18nosuchuser"), Password: []byte("wrong-password")}, ""
	case "OpenSession":
		return &schema.OpenSessionRequest{Username: []byte("c18nosuchuser"), Password: []byte("wrong-password"), DatabaseName: c18DB2}, ""
	case "NewTx":
		return &schema.NewTxRequest{Mode: schema.TxMode_ReadWrite}, ""
	case "TxSQLExec", "SQLExec":
		if onSys {
			return &schema.SQLExecRequest{Sql: fmt.Sprintf("CREATE TABLE c18t%06d(id INTEGER, PRIMARY KEY id)", n)}, ""
		}
		return &schema.SQLExecRequest{Sql: fmt.Sprintf("INSERT INTO t1(id, v) VALUES (%d, 'w')", 100000+n)}, ""
	case "TxSQLQuery", "UnarySQLQuery", "SQLQuery":
		return &schema.SQLQueryRequest{Sql: "SELECT id, v FROM t1 WHERE id = 1"}, ""
	// --- kv
	case "Set":
		return &schema.SetRequest{KVs: []*schema.KeyValue{{Key: k, Value: []byte(v)}}}, ""
	case "VerifiableSet":
		return &schema.VerifiableSetRequest{SetRequest: &schema.SetRequest{KVs: []*schema.KeyValue{{Key: k, Value: []byte(v)}}}}, ""
	case "Get", "StreamGet":
		return &schema.KeyRequest{Key: []byte("canary")}, ""
	case "VerifiableGet", "StreamVerifiableGet":
		return &schema.VerifiableGetRequest{KeyRequest: &schema.KeyRequest{Key: []byte("canary")}}, ""
	case "Delete":
		return &schema.DeleteKeysRequest{Keys: [][]byte{[]byte("other")}}, ""
	case "GetAll":
		return &schema.KeyListRequest{Keys: [][]byte{[]byte("canary")}}, ""
	case "ExecAll":
		return &schema.ExecAllRequest{Operations: []*schema.Op{{Operation: &schema.Op_Kv{Kv: &schema.KeyValue{Key: k, Value: []byte(v)}}}}}, ""
	case "Scan", "StreamScan":
		if onSys {
			return &schema.ScanRequest{Limit: 200}, "" // the user records live in the system database
		}
		return &schema.ScanRequest{Prefix: []byte("can"), Limit: 10}, ""
	case "Count":
		return &schema.KeyPrefix{Prefix: []byte("can")}, ""
	case "TxById":
		return &schema.TxRequest{Tx: 1}, ""
	case "VerifiableTxById":
		return &schema.VerifiableTxRequest{Tx: 1, ProveSinceTx: 1}, ""
	case "TxScan":
		return &schema.TxScanRequest{InitialTx: 1, Limit: 3}, ""
	case "History", "StreamHistory":
		return &schema.HistoryRequest{Key: []byte("canary"), Limit: 5}, ""
	case "SetReference":
		return &schema.ReferenceRequest{Key: k, ReferencedKey: []byte("canary")}, ""
	case "VerifiableSetReference":
		return &schema.VerifiableReferenceRequest{ReferenceRequest: &schema.ReferenceRequest{Key: k, ReferencedKey: []byte("canary")}}, ""
	case "ZAdd":
		return &schema.ZAddRequest{Set: []byte("zset"), Score: float64(n), Key: []byte("canary")}, ""
	case "VerifiableZAdd":
		return &schema.VerifiableZAddRequest{ZAddRequest: &schema.ZAddRequest{Set: []byte("zset"), Score: float64(n), Key: []byte("canary")}}, ""
	case "ZScan", "StreamZScan":
		return &schema.ZScanRequest{Set: []byte("zset"), Limit: 5}, ""
	// --- databases
	case "CreateDatabase":
		return &schema.Database{DatabaseName: "c18extra1"}, ""
	case "CreateDatabaseWith":
		return &schema.DatabaseSettings{DatabaseName: "c18extra2", FileSize: 1 << 20, MaxKeyLen: 256, MaxValueLen: 1 << 14, MaxTxEntries: 64}, ""
	case "CreateDatabaseV2":
		return &schema.CreateDatabaseRequest{Name: "c18extra3", IfNotExists: true, Settings: c18SmallDB()}, ""
	case "LoadDatabase":
		return &schema.LoadDatabaseRequest{Database: e.dbAdm}, e.dbAdm
	case "UnloadDatabase":
		return &schema.UnloadDatabaseRequest{Database: e.dbAdm}, e.dbAdm
	case "DeleteDatabase":
		return &schema.DeleteDatabaseRequest{Database: e.dbAdm}, e.dbAdm
	case "TruncateDatabase":
		return &schema.TruncateDatabaseRequest{Database: e.dbAdm, RetentionPeriod: -1}, e.dbAdm
	case "UseDatabase":
		return &schema.Database{DatabaseName: selOr()}, selOr()
	case "UpdateDatabase":
		return &schema.DatabaseSettings{DatabaseName: e.dbAdm}, e.dbAdm
	case "UpdateDatabaseV2":
		return &schema.UpdateDatabaseRequest{Database: e.dbAdm, Settings: &schema.DatabaseNullableSettings{}}, e.dbAdm
	case "FlushIndex":
		return &schema.FlushIndexRequest{CleanupPercentage: 0, Synced: false}, ""
	case "DescribeTable":
		return &schema.Table{TableName: "t1"}, ""
	case "VerifiableSQLGet":
		return &schema.VerifiableSQLGetRequest{SqlGetRequest: &schema.SQLGetRequest{Table: "t1", PkValues: []*schema.SQLValue{{Value: &schema.SQLValue_N{N: 1}}}}}, ""
	case "ExportTx", "StreamExportTx":
		return &schema.ExportTxRequest{Tx: 1}, ""
	// --- documents: reads look at the fixture collection, writes at the collection created earlier in the same batch
	case "CreateCollection":
		return &protomodel.CreateCollectionRequest{Name: fmt.Sprintf("c%06d", n), Fields: []*protomodel.Field{{Name: "f", Type: protomodel.FieldType_STRING}}}, ""
	case "GetCollection":
		return &protomodel.GetCollectionRequest{Name: "col1"}, ""
	case "UpdateCollection":
		if e.curColl != "" {
			return &protomodel.UpdateCollectionRequest{Name: e.curColl, DocumentIdFieldName: fmt.Sprintf("id%06d", n)}, ""
		}
		return &protomodel.UpdateCollectionRequest{Name: "col1"}, ""
	case "DeleteCollection":
		if e.curColl != "" {
			return &protomodel.DeleteCollectionRequest{Name: e.curColl}, ""
		}
		return &protomodel.DeleteCollectionRequest{Name: "nosuchcollection"}, ""
	case "AddField":
		return &protomodel.AddFieldRequest{CollectionName: wcoll(), Field: &protomodel.Field{Name: fmt.Sprintf("g%06d", n), Type: protomodel.FieldType_INTEGER}}, ""
	case "RemoveField":
		if e.curFld != "" {
			return &protomodel.RemoveFieldRequest{CollectionName: wcoll(), FieldName: e.curFld}, ""
		}
		return &protomodel.RemoveFieldRequest{CollectionName: wcoll(), FieldName: "nosuchfield"}, ""
	case "CreateIndex":
		if e.curColl != "" {
			return &protomodel.CreateIndexRequest{CollectionName: e.curColl, Fields: []string{"f"}}, ""
		}
		return &protomodel.CreateIndexRequest{CollectionName: "col1", Fields: []string{"nosuchfield"}}, ""
	case "DeleteIndex":
		if e.curColl != "" {
			return &protomodel.DeleteIndexRequest{CollectionName: e.curColl, Fields: []string{"f"}}, ""
		}
		return &protomodel.DeleteIndexRequest{CollectionName: "col1", Fields: []string{"nosuchfield"}}, ""
	case "InsertDocuments":
		return &protomodel.InsertDocumentsRequest{CollectionName: wcoll(), Documents: []*structpb.Struct{mustStruct(map[string]interface{}{"f": v})}}, ""
	case "ReplaceDocuments":
		return &protomodel.ReplaceDocumentsRequest{Query: fEq(curVal()), Document: mustStruct(map[string]interface{}{"f": v})}, ""
	case "DeleteDocuments":
		return &protomodel.DeleteDocumentsRequest{Query: fEq(curVal())}, ""
	case "SearchDocuments":
		return &protomodel.SearchDocumentsRequest{Query: &protomodel.Query{CollectionName: "col1", Limit: 10}, Page: 1, PageSize: 10}, ""
	case "CountDocuments":
		return &protomodel.CountDocumentsRequest{Query: &protomodel.Query{CollectionName: "col1"}}, ""
	case "AuditDocument":
		return &protomodel.AuditDocumentRequest{CollectionName: "col1", DocumentId: "000000000000000000000000", Page: 1, PageSize: 5}, ""
	case "ProofDocument":
		return &protomodel.ProofDocumentRequest{CollectionName: "col1", DocumentId: "000000000000000000000000"}, ""
	}
	// everything else (incl. RPCs added later): empty request
	return p.in.New().Interface(), ""
}

// ---------------------------------------------------------------- one cell

type c18Replay struct {
	Rpc      string `json:"rpc"`
	Role     string `json:"role"`
	Perms    string `json:"permissions_granted"`
	SrvPerms string `json:"permissions_cached_by_server,omitempty"`
	DbSel    string `json:"db_selected"`
	Cred     string `json:"credential"`
	Scenario string `json:"scenario"`
	Config   string `json:"config"`
	Request  string `json:"request"`
	Answer   string `json:"answer"`
	Before   string `json:"before,omitempty"`
	After    string `json:"after,omitempty"`
}

// RPCs whose job is to write user records / database options into the system database
var c18SysWriters = map[string]bool{
	"CreateUser": true, "ChangePassword": true, "ChangePermission": true, "ChangeSQLPrivileges": true, "SetActiveUser": true,
	"CreateDatabase": true, "CreateDatabaseWith": true, "CreateDatabaseV2": true, "UpdateDatabase": true, "UpdateDatabaseV2": true,
	"DeleteDatabase": true, "LoadDatabase": true, "UnloadDatabase": true, "TruncateDatabase": true,
}
var c18Open = map[string]bool{"Login": true, "OpenSession": true, "Health": true, "ServerInfo": true}


func (e *c18Env) invoke(p c18Rpc, cr *c18Cred, req proto.Message) (resp proto.Message, err error) {
	ctx, cancel := cr.ctx()
	defer cancel()
	defer func() {
		if x := recover(); x != nil {
			err = fmt.Errorf("PANIC: %v", x)
		}
	}()
	if !p.stream {
		resp = p.out.New().Interface()
		err = e.conn.Invoke(ctx, p.full(), req, resp)
		if err != nil {
			resp = nil
		}
		return
	}
	// streams: send the request (client-streaming RPCs get one message and a half-close), read until the end
	st, serr := e.conn.NewStream(ctx, &grpc.StreamDesc{StreamName: p.wire, ServerStreams: true, ClientStreams: true}, p.full())
	if serr != nil {
		return nil, serr
	}
	if serr = st.SendMsg(req); serr != nil && serr != io.EOF {
		return nil, serr
	}
	_ = st.CloseSend()
	var first proto.Message
	for i := 0; i < 64; i++ {
		m := p.out.New().Interface()
		rerr := st.RecvMsg(m)
		if rerr == io.EOF {
			break
		}
		if rerr != nil {
			return nil, rerr
		}
		if first == nil {
			first = m
		} else {
			proto.Merge(first, m)
		}
	}
	if first == nil {
		first = p.out.New().Interface()
	}
	return first, nil
}

func (e *c18Env) cell(p c18Rpc, cr *c18Cred, role, tag string) error {
	r := e.r
	req, named := e.request(p, cr)
	// server-side view of the credential BEFORE the call
	u := cr.user
	sState := cr.srvState()
	sPerms := cr.srvPerms()
	isSys := u != nil && u.sysadmin
	multi := u != nil && u.logins >= 2
	txOK := cr.kind == "session" && cr.tx != ""

	t0 := time.Now()
	resp, err := e.invoke(p, cr, req)
	c18TInvoke += time.Since(t0)
	c18THandler[p.handler] += time.Since(t0)
	cls, msg := c18Class(err)
	if err != nil && strings.HasPrefix(err.Error(), "PANIC") {
		r.Fail("C18:"+p.handler+":panic", err.Error(), c18Replay{Rpc: p.full(), Role: role})
	}
	var after, before map[string]string
	var derr error
	if !e.openCfg {
		if after, derr = e.digest(false); derr != nil {
			return derr
		}
		before = e.last
		e.last = after
	}

	// ---- the same cell for the model, described by what the server holds
	dbc := "user"
	switch {
	case cr.kind == "none" || cr.sel == "":
		dbc = "none"
	case cr.sel == c18Sys:
		dbc = "system"
	}
	if named == "" {
		named = e.db1
	}
	op := fmt.Sprintf("c18 gate %s %s %s %s %s %s %s %s %s %d %d %s %s %s %s", p.svc, p.wire, p.handler, b01(p.stream), e.cfg,
		cr.kind, sState, dbc, b01(isSys), c18PermIn(isSys, sPerms, cr.sel), c18PermIn(isSys, sPerms, named), b01(c18AnyAdmin(sPerms)), b01(txOK), b01(multi), b01(u == nil || !u.noSQL))
	r.Corr(op, c18Verdict(cls))

	if e.openCfg {
		r.Count("class." + cls)
		r.Count("scenario." + tag)
		r.Eval(p.svc+"/"+p.wire+"|"+e.cfg+"|"+cr.kind+"|"+dbc+"|"+tag, strings.HasPrefix(cls, "deny"))
		if os.Getenv("C18_TRACE") != "" {
			fmt.Fprintf(os.Stderr, "%-34s cfg=%s sel=%-9s %s/%s %-22s -> %-16s %q\n", p.svc[:4]+"/"+p.wire, e.cfg, cr.sel, cr.kind, sState, tag, cls, msg)
		}
		return nil
	}
	// ---- oracle: judged by the TRUTH (what was granted, whether the user is active), never by the model
	valid := cr.kind != "none" && sState == "valid" && u != nil && u.active
	truth := func(db string) uint32 {
		if u == nil {
			return 0
		}
		return c18PermIn(u.sysadmin, u.perms, db)
	}
	// the server still holds a login entry with outdated user data (several logins, then a status/permission change)
	outdated := ""
	if cr.kind == "token" && sState == "valid" && u != nil {
		if !u.active {
			outdated = "deactivated"
		} else if fmt.Sprint(u.view) != fmt.Sprint(u.perms) {
			outdated = "permission-changed"
		}
	}
	sig := func(s string) string {
		if outdated != "" {
			return "C18:removeUserFromLoginList:outdated-userdata-still-accepted:" + outdated
		}
		return s
	}
	text := ""
	if resp != nil {
		text = prototext.MarshalOptions{Multiline: false}.Format(resp)
	}
	reqText := prototext.MarshalOptions{Multiline: false}.Format(req)
	if len(reqText) > 300 {
		reqText = reqText[:300]
	}
	rp := func() c18Replay {
		var pj, vj []byte
		if u != nil {
			pj, _ = json.Marshal(u.perms)
			vj, _ = json.Marshal(sPerms)
		}
		return c18Replay{Rpc: p.full(), Role: role, Perms: string(pj), SrvPerms: string(vj), DbSel: cr.sel, Cred: cr.kind + "/" + sState, Scenario: tag + " " + cr.why, Config: e.cfg,
			Request: reqText, Answer: cls + " " + msg, Before: fmt.Sprint(before), After: fmt.Sprint(after)}
	}
	canWrite := func(db string) bool {
		pm := truth(db)
		return valid && (pm == auth.PermissionRW || pm == auth.PermissionAdmin || pm == auth.PermissionSysAdmin)
	}
	canRead := func(db string) bool { return valid && truth(db) != auth.PermissionNone }
	changed := []string{}
	for db, d := range after {
		if b, ok := before[db]; !ok || b != d {
			changed = append(changed, db)
		}
	}
	for db := range before {
		if _, ok := after[db]; !ok {
			changed = append(changed, db)
		}
	}
	sort.Strings(changed)
	for _, key := range changed {
		r.OracleChecks++
		db := strings.TrimPrefix(key, "settings:")
		if key == c18Sys {
			// administration RPCs that NAME a database (grant/revoke on it, create a user with a permission on it) need
			// sysadmin or Admin on THAT database; password / status changes need admin rights on some database
			namesDB := p.handler == "ChangePermission" || p.handler == "ChangeSQLPrivileges" || p.handler == "CreateUser"
			adminOnNamed := valid && (truth(named) == auth.PermissionAdmin || truth(named) == auth.PermissionSysAdmin)
			if c18SysWriters[p.handler] && valid && (u.sysadmin || (namesDB && adminOnNamed) || (!namesDB && c18AnyAdmin(u.perms))) {
				r.Count("effect.systemdb-changed-by-admin-rpc")
				continue
			}
			if c18SysWriters[p.handler] && valid && namesDB && !adminOnNamed {
				r.Fail(sig("C18:"+p.handler+":administers-database-without-admin-on-it"),
					fmt.Sprintf("%s on database %q changed the user records although the caller (role %s) is neither sysadmin nor Admin on %q", p.handler, named, role, named), rp())
				continue
			}
			s := "C18:" + p.handler + ":systemdb-changed"
			switch {
			case auth.IsMaintenanceMethod(p.handler):
				s = "C18:getDBFromCtx:systemdb-writable-via-maintenance-method:" + p.handler
			case p.handler == "Commit" || p.handler == "TxSQLExec":
				s = "C18:getDBFromCtx:systemdb-writable-via-maintenance-method:SQLQuery(session-transaction)"
			}
			r.Fail(sig(s), fmt.Sprintf("%s by %s (selected %q, %s) changed the system database: %s -> %s", p.full(), role, cr.sel, cr.kind, before[key], after[key]), rp())
			continue
		}
		_, existed := before[key]
		_, exists := after[key]
		if strings.HasPrefix(key, "settings:") && (!existed || !exists) {
			if valid && (u.sysadmin || (existed && truth(db) == auth.PermissionAdmin)) {
				r.Count("effect.database-set-changed-by-admin")
				continue
			}
			r.Fail(sig("C18:"+p.handler+":database-created-or-deleted-without-admin"), fmt.Sprintf("%s by %s: database %s appeared/disappeared", p.full(), role, db), rp())
			continue
		}
		if strings.HasPrefix(key, "settings:") {
			if valid && (u.sysadmin || truth(db) == auth.PermissionAdmin) {
				r.Count("effect.settings-changed-by-admin")
				continue
			}
			r.Fail(sig("C18:"+p.handler+":settings-changed-without-admin"), fmt.Sprintf("%s by %s (perm on %s = %d) changed the settings of %s", p.full(), role, db, truth(db), db), rp())
			continue
		}
		if canWrite(db) {
			r.Count("effect.db-changed-by-writer")
			continue
		}
		r.Fail(sig("C18:"+p.handler+":db-changed-without-write-permission"), fmt.Sprintf("%s by %s (granted perm on %s = %d, credential %s/%s, %s) changed %s: %s -> %s", p.full(), role, db, truth(db), cr.kind, sState, tag, db, before[key], after[key]), rp())
	}
	if len(changed) == 0 {
		r.OracleChecks++
	}
	sawCanary := false
	for _, db := range []string{c18DB1, c18DB2} {
		if text != "" && strings.Contains(text, c18Canary(db)) {
			r.OracleChecks++
			sawCanary = true
			if canRead(db) {
				r.Count("effect.canary-returned-to-reader")
			} else {
				r.Fail(sig("C18:"+p.handler+":data-returned-without-read-permission"), fmt.Sprintf("%s by %s (granted perm on %s = %d, credential %s/%s, %s) returned data of %s", p.full(), role, db, truth(db), cr.kind, sState, tag, db), rp())
			}
		}
	}
	if text != "" && strings.Contains(text, c18SysCan) {
		r.OracleChecks++
		sawCanary = true
		if valid && (u.sysadmin || truth(c18Sys) != 0 || truth(c18DB2) == auth.PermissionAdmin || u.name == c18SysCan) {
			r.Count("effect.syscanary-returned-to-admin")
		} else {
			r.Fail(sig("C18:"+p.handler+":system-data-returned-without-permission"), fmt.Sprintf("%s by %s (credential %s/%s) returned a user record of the system database", p.full(), role, cr.kind, sState), rp())
		}
	}
	if !valid && !c18Open[p.handler] {
		r.OracleChecks++
		if cls == "ok" || cls == "pass" {
			r.Fail(sig("C18:"+p.handler+":not-refused-without-valid-credentials"), fmt.Sprintf("%s with credential %s/%s (%s %s) answered %s %q", p.full(), cr.kind, sState, tag, cr.why, cls, msg), rp())
		}
	}

	// ---- statistics
	r.Count("class." + cls)
	r.Count("scenario." + tag)
	r.Count("cred." + cr.kind + "/" + sState)
	r.Count("role." + role)
	r.Count("dbsel." + dbc)
	key := p.svc + "/" + p.wire + "|" + role + "|" + dbc + "|" + cr.kind + "|" + sState + "|" + tag
	r.Eval(key, strings.HasPrefix(cls, "deny") || len(changed) > 0 || sawCanary)
	sk := cls + "|" + role
	if !e.sampled[sk] && (len(changed) > 0 || sawCanary || strings.HasPrefix(cls, "deny")) {
		e.sampled[sk] = true
		r.Sample(map[string]interface{}{"rpc": p.full(), "role": role, "selected": cr.sel, "credential": cr.kind + "/" + sState, "answer": cls, "message": msg, "changed": changed, "canary": sawCanary, "scenario": tag})
	}
	if os.Getenv("C18_TRACE") != "" {
		fmt.Fprintf(os.Stderr, "%-34s %-9s sel=%-9s %s/%s %-22s -> %-16s %q chg=%v can=%v\n", p.svc[:4]+"/"+p.wire, role, cr.sel, cr.kind, sState, tag, cls, msg, changed, sawCanary)
	}

	// ---- bookkeeping of state changes caused by the call itself
	if p.handler == "Logout" && cr.kind != "none" && sState == "valid" && u != nil && u.logins > 0 {
		u.logins-- // removeUserFromLoginList runs as soon as the caller is recognised
	}
	if err == nil {
		switch p.handler {
		case "CloseSession":
			if cr.kind == "session" {
				cr.state = "stale"
				if cr.why == "" {
					cr.why = "closed"
				}
			}
		case "UnloadDatabase":
			if lerr := e.ctl(c18Def, imm+"LoadDatabase", &schema.LoadDatabaseRequest{Database: c18DB1}, &schema.LoadDatabaseResponse{}); lerr != nil {
				return fmt.Errorf("restore %s: %w", c18DB1, lerr)
			}
			if e.last, derr = e.digest(true); derr != nil {
				return derr
			}
		case "NewTx":
			if nt, ok := resp.(*schema.NewTxResponse); ok && cr.kind == "session" {
				cr.tx = nt.TransactionID
			}
		case "Commit", "Rollback":
			cr.tx = ""
		case "CreateCollection":
			if rq, ok := req.(*protomodel.CreateCollectionRequest); ok {
				e.curColl, e.curFld, e.curVal = rq.Name, "", ""
			}
		case "DeleteCollection":
			e.curColl, e.curFld, e.curVal = "", "", ""
		case "AddField":
			if rq, ok := req.(*protomodel.AddFieldRequest); ok {
				e.curFld = rq.Field.Name
			}
		case "RemoveField":
			e.curFld = ""
		case "InsertDocuments":
			if rq, ok := req.(*protomodel.InsertDocumentsRequest); ok && rq.CollectionName == e.curColl {
				e.curVal = rq.Documents[0].Fields["f"].GetStringValue()
			}
		case "ReplaceDocuments":
			if rq, ok := req.(*protomodel.ReplaceDocumentsRequest); ok && e.curVal != "" {
				e.curVal = rq.Document.Fields["f"].GetStringValue()
			}
		case "ChangePermission", "ChangeSQLPrivileges", "SetActiveUser", "ChangePassword":
			if p.handler != "ChangeSQLPrivileges" {
				e.userChanged(e.byName[c18Victim])
			}
		}
	}
	return nil
}

// batch runs every selected RPC with one credential; session/login-destroying calls go last.
func (e *c18Env) batch(cr *c18Cred, role, tag string, streams bool) error {
	rank := map[string]int{"DeleteCollection": 1, "Logout": 8, "CloseSession": 9}
	var sel []c18Rpc
	for _, p := range e.rpcs {
		if p.stream && !streams {
			continue
		}
		sel = append(sel, p)
	}
	sort.SliceStable(sel, func(i, j int) bool { return rank[sel[i].handler] < rank[sel[j].handler] })
	e.curColl, e.curFld, e.curVal = "", "", ""
	var err error
	if !e.openCfg {
		if e.last, err = e.digest(true); err != nil { // the set-up of the credential may have used the control channel
			return err
		}
	}
	for _, p := range sel {
		if err := e.cell(p, cr, role, tag); err != nil {
			return err
		}
		// a session transaction: use it right away (TxSQLExec, [TxSQLQuery], Commit)
		if p.handler == "NewTx" && cr.tx != "" {
			for _, h := range []string{"TxSQLExec", "TxSQLQuery", "Commit"} {
				for _, q := range e.rpcs {
					if q.handler == h && q.svc == "ImmuService" && (!q.stream || streams) && cr.tx != "" {
						if err := e.cell(q, cr, role, tag+"+tx"); err != nil {
							return err
						}
					}
				}
			}
			cr.tx = ""
		}
	}
	return nil
}

// ---------------------------------------------------------------- credentials for (user, selection)

// tokenFor: token of u selecting sel ("" = none). If u has no permission on sel, the selection is made while a
// temporary permission is held, which is then revoked and the user logs in again (the old token stays signed-valid
// and is now judged by the user's current permissions).
func (e *c18Env) tokenFor(u *c18User, sel string) (*c18Cred, error) {
	if sel == "" || u.sysadmin || u.perms[sel] != 0 {
		t, err := e.login(u.name, u.pw)
		if err != nil {
			return nil, fmt.Errorf("login %s: %w", u.name, err)
		}
		cr := &c18Cred{kind: "token", state: "valid", token: t, user: u}
		if sel == "" {
			return cr, nil
		}
		dt, err := e.useDB(t, sel)
		if err != nil {
			return nil, fmt.Errorf("use %s as %s: %w", sel, u.name, err)
		}
		cr.token, cr.sel = dt, sel
		return cr, nil
	}
	if err := e.grant(u, sel, auth.PermissionR); err != nil {
		return nil, err
	}
	t, err := e.login(u.name, u.pw)
	if err != nil {
		return nil, err
	}
	dt, err := e.useDB(t, sel)
	if err != nil {
		return nil, fmt.Errorf("use %s as %s (temporary grant): %w", sel, u.name, err)
	}
	if err := e.revoke(u, sel); err != nil {
		return nil, err
	}
	if err := e.regrant(u); err != nil {
		return nil, err
	}
	if err := e.drain(u); err != nil {
		return nil, err
	}
	if _, err = e.login(u.name, u.pw); err != nil { // back in the logged-in list, with the current permissions
		return nil, err
	}
	return &c18Cred{kind: "token", state: "valid", token: dt, sel: sel, user: u, why: "selected-before-revoke"}, nil
}

func (e *c18Env) sessionFor(u *c18User, sel string) (*c18Cred, error) {
	id, err := e.openSession(u.name, u.pw, sel)
	if err != nil {
		return nil, fmt.Errorf("open session %s on %s: %w", u.name, sel, err)
	}
	cr := &c18Cred{kind: "session", state: "valid", sess: id, sel: sel, user: u, snap: c18CopyPerms(u.perms)}
	e.sessOf[u.name] = append(e.sessOf[u.name], cr)
	return cr, nil
}

// ---------------------------------------------------------------- the run

func runC18(r *hx.Result, rng *hx.Rng, thorough bool, replay string) error {
	if pf := os.Getenv("C18_CPUPROFILE"); pf != "" {
		if f, err := os.Create(pf); err == nil {
			_ = pprof.StartCPUProfile(f)
			defer func() { pprof.StopCPUProfile(); f.Close() }()
		}
	}
	if replay != "" {
		// the matrix is exhaustive and deterministic: a replay is the same run; the replay file names the failing cell
		r.Notes = append(r.Notes, "replay file "+replay+": the full deterministic matrix is re-run (cells are identified by rpc/role/scenario in the replay record)")
	}
	r.Rule = "cell = (rpc, role, selected database, credential scenario) on the real in-process server; nontrivial = refused, or changed a database, or returned canary data"
	rpcs, err := c18Rpcs()
	if err != nil {
		return err
	}
	// table-level tie: auth.HasPermissionForMethod / IsMaintenanceMethod against the regenerated Lean tables
	names := map[string]bool{}
	for _, p := range rpcs {
		names[p.handler] = true
		names[p.wire] = true
	}
	for _, extra := range []string{"TxByID", "VerifiableTxByID", "DatabaseSettings", "SetPermission", "DeactivateUser", "Dump", "IScan", "UseSnapshot", "NoSuchMethod"} {
		names[extra] = true
	}
	nl := []string{}
	for n := range names {
		if n != "" && !strings.ContainsAny(n, " \t") {
			nl = append(nl, n)
		}
	}
	sort.Strings(nl)
	for _, n := range nl {
		for _, pc := range []uint32{0, 1, 2, 3, 253, 254, 255, 256} {
			r.Corr(fmt.Sprintf("c18 perm %s %d", n, pc), b2s(auth.HasPermissionForMethod(pc, n)))
		}
		r.Corr("c18 maint "+n, b2s(auth.IsMaintenanceMethod(n)))
	}
	r.Count("table.method-names-compared")
	r.CountN("table.method-names-compared", len(nl)-1)
	if err := r.Flush(); err != nil {
		return err
	}
	if err := c18AuthOn(r, rng, rpcs, thorough); err != nil {
		return err
	}
	// authentication disabled (fresh server, no user database), and maintenance mode
	if err := c18OpenCfg(r, rng, rpcs, false, thorough); err != nil {
		return err
	}
	if err := c18OpenCfg(r, rng, rpcs, true, thorough); err != nil {
		return err
	}
	r.Extra["time_in_rpc_under_test_s"] = c18TInvoke.Seconds()
	r.Extra["time_in_state_digest_s"] = c18TDigest.Seconds()
	r.Extra["time_in_logins_s"] = c18TLogin.Seconds()
	r.Extra["time_in_open_stream_scenarios_s"] = c18TStreams.Seconds()
	r.Extra["rpcs_in_descriptors"] = len(rpcs)
	r.Extra["control_relogins"] = c18Relogins
	type hd struct {
		h string
		d time.Duration
	}
	var hs []hd
	for h, d := range c18THandler {
		hs = append(hs, hd{h, d})
	}
	sort.Slice(hs, func(i, j int) bool { return hs[i].d > hs[j].d })
	top := []string{}
	for i := 0; i < len(hs) && i < 8; i++ {
		top = append(top, fmt.Sprintf("%s=%.2fs", hs[i].h, hs[i].d.Seconds()))
	}
	r.Extra["slowest_rpcs"] = top
	return nil
}

func c18AuthOn(r *hx.Result, rng *hx.Rng, rpcs []c18Rpc, thorough bool) (rerr error) {
	dir := hx.TempDir("c18")
	defer os.RemoveAll(dir)
	srv, conn, err := c18Start(dir, true, false)
	if err != nil {
		return err
	}
	e := &c18Env{r: r, rng: rng, srv: srv, conn: conn, cfg: "110", rpcs: rpcs, users: map[string]*c18User{}, byName: map[string]*c18User{},
		sessOf: map[string][]*c18Cred{}, sampled: map[string]bool{}, dir: dir, db1: c18DB1, dbAdm: c18DB1}
	defer e.stop()
	defer func() {
		if x := recover(); x != nil {
			r.Fail("C18:harness:panic", fmt.Sprint(x), nil)
			rerr = fmt.Errorf("panic: %v", x)
		}
	}()

	// ---- fixture
	sa := &c18User{name: auth.SysAdminUsername, pw: auth.SysAdminPassword, sysadmin: true, perms: map[string]uint32{}, active: true, view: map[string]uint32{}}
	e.users["sysadmin"], e.byName[sa.name] = sa, sa
	if err := e.ctlLogin(c18Def, c18Sys); err != nil {
		return err
	}
	for _, db := range []string{c18DB1, c18DB2} {
		if err := e.ctl(c18Def, imm+"CreateDatabaseV2", &schema.CreateDatabaseRequest{Name: db, Settings: c18SmallDB()}, &schema.CreateDatabaseResponse{}); err != nil {
			return fmt.Errorf("create %s: %w", db, err)
		}
	}
	if err := e.ctlLogin(c18Def, c18Sys, c18DB1, c18DB2); err != nil {
		return err
	}
	for _, s := range []struct {
		role string
		perm uint32
		db   string
	}{{"none", auth.PermissionR, c18DB2}, {"r", auth.PermissionR, c18DB1}, {"rw", auth.PermissionRW, c18DB1}, {"admin", auth.PermissionAdmin, c18DB1},
		{"sysr", auth.PermissionR, c18DB2}, {"sysadm", auth.PermissionR, c18DB2}} {
		if err := e.createUser(s.role, "c18"+s.role, s.perm, s.db); err != nil {
			return err
		}
	}
	if err := e.createUser("", c18Victim, auth.PermissionR, c18DB2); err != nil {
		return err
	}
	if err := e.grant(e.byName[c18Victim], c18DB1, auth.PermissionR); err != nil {
		return err
	}
	if err := e.createUser("", c18SysCan, auth.PermissionR, c18DB2); err != nil {
		return err
	}
	if err := e.grant(e.users["sysr"], c18Sys, auth.PermissionR); err != nil {
		return err
	}
	if err := e.grant(e.users["sysadm"], c18Sys, auth.PermissionAdmin); err != nil {
		return err
	}
	for _, db := range []string{c18DB1, c18DB2} {
		if err := e.seed(db); err != nil {
			return err
		}
	}

	streams := thorough
	roles := []string{"none", "r", "rw", "admin", "sysadmin"}

	// sessions that stay idle from now on (their own user, so that no later status change closes them): used in the last phase
	if err := e.createUser("idle", "c18idle", auth.PermissionRW, c18DB1); err != nil {
		return err
	}
	var expiring []*c18Cred
	expRoles := []string{"idle", "sysadmin"}
	for _, role := range expRoles {
		ce, err := e.sessionFor(e.users[role], c18DB1)
		if err != nil {
			return err
		}
		expiring = append(expiring, ce)
	}
	// long-lived streams (c18streams.go): their own user (Admin on the target database); one session of that user opens
	// every streaming RPC now and is then left idle until the session timeout has passed
	if err := e.createUser(c18StrmRole, "c18strm", auth.PermissionAdmin, c18DB1); err != nil {
		return err
	}
	if err := e.createUser(c18StrmRole+"idle", "c18strmidle", auth.PermissionAdmin, c18DB1); err != nil {
		return err
	}
	expStrm, err := e.sessionFor(e.users[c18StrmRole+"idle"], c18DB1)
	if err != nil {
		return err
	}
	expOpen := e.openStreams(expStrm, 5*time.Second)
	idleSince := time.Now()

	// ---- 1. no credentials at all
	if err := e.batch(&c18Cred{kind: "none", state: "valid"}, "anonymous", "no-credentials", streams); err != nil {
		return err
	}

	// ---- 2. valid credentials: role × selection × {token, session}
	for _, role := range roles {
		u := e.users[role]
		for _, sel := range []string{c18DB1, c18DB2, c18Sys, ""} {
			cr, err := e.tokenFor(u, sel)
			if err != nil {
				return err
			}
			if err := e.batch(cr, role, "valid-token", streams); err != nil {
				return err
			}
			if sel != "" && (u.sysadmin || u.perms[sel] != 0) {
				cs, err := e.sessionFor(u, sel)
				if err != nil {
					return err
				}
				if err := e.batch(cs, role, "valid-session", streams); err != nil {
					return err
				}
			}
		}
	}
	// users holding a permission on the system database itself (granted by the sysadmin)
	for _, role := range []string{"sysr", "sysadm"} {
		u := e.users[role]
		cr, err := e.tokenFor(u, c18Sys)
		if err != nil {
			return err
		}
		if err := e.batch(cr, role, "valid-token", streams); err != nil {
			return err
		}
		cs, err := e.sessionFor(u, c18Sys)
		if err != nil {
			return err
		}
		if err := e.batch(cs, role, "valid-session", streams); err != nil {
			return err
		}
	}

	// ---- 3. credentials that were valid and no longer are
	staleRoles := []string{[]string{"rw", "admin"}[rng.Intn(2)]} // quick: one role per seed (a refused credential does not depend on the role)
	if thorough {
		staleRoles = []string{"r", "rw", "admin", "sysadmin"}
	}
	for _, role := range staleRoles {
		u := e.users[role]
		// closed session
		cs, err := e.sessionFor(u, c18DB1)
		if err != nil {
			return err
		}
		{
			ctx, cancel := cs.ctx()
			err = e.call(ctx, imm+"CloseSession", &emptypb.Empty{}, &emptypb.Empty{})
			cancel()
			if err != nil {
				return fmt.Errorf("close session: %w", err)
			}
		}
		cs.state, cs.why = "stale", "closed"
		if err := e.batch(cs, role, "closed-session", streams); err != nil {
			return err
		}
		// never issued session id
		if err := e.batch(&c18Cred{kind: "session", state: "stale", why: "unknown-id", sess: "c18-not-a-session-id", sel: c18DB1, user: u, snap: c18CopyPerms(u.perms)}, role, "unknown-session", streams); err != nil {
			return err
		}
		if u.sysadmin {
			continue // the sysadmin can neither be deactivated nor re-permissioned
		}
		home := u.perms[c18DB1]
		// user deactivated after ONE login
		if err := e.drain(u); err != nil {
			return err
		}
		ct, err := e.tokenFor(u, c18DB1)
		if err != nil {
			return err
		}
		cs2, err := e.sessionFor(u, c18DB1)
		if err != nil {
			return err
		}
		if err := e.setActive(u, false); err != nil {
			return err
		}
		if err := e.batch(ct, role, "deactivated", streams); err != nil {
			return err
		}
		if err := e.batch(cs2, role, "deactivated", streams); err != nil {
			return err
		}
		if err := e.setActive(u, true); err != nil {
			return err
		}
		// user deactivated while logged in TWICE (two clients)
		if err := e.drain(u); err != nil {
			return err
		}
		if ct, err = e.tokenFor(u, c18DB1); err != nil {
			return err
		}
		if _, err = e.login(u.name, u.pw); err != nil {
			return err
		}
		if err := e.setActive(u, false); err != nil {
			return err
		}
		if err := e.batch(ct, role, "deactivated-2-logins", streams); err != nil {
			return err
		}
		if err := e.setActive(u, true); err != nil {
			return err
		}
		// permission downgraded to R after ONE login: old token and session refused until the user logs in again …
		if err := e.drain(u); err != nil {
			return err
		}
		if ct, err = e.tokenFor(u, c18DB1); err != nil {
			return err
		}
		if cs2, err = e.sessionFor(u, c18DB1); err != nil {
			return err
		}
		if err := e.grant(u, c18DB1, auth.PermissionR); err != nil {
			return err
		}
		if err := e.batch(ct, role, "permission-changed", streams); err != nil {
			return err
		}
		if err := e.batch(cs2, role, "permission-changed", streams); err != nil {
			return err
		}
		// … and after a new login the OLD token is judged by the NEW permission
		if _, err := e.login(u.name, u.pw); err != nil {
			return err
		}
		if err := e.batch(ct, role+">r", "downgraded-relogin", streams); err != nil {
			return err
		}
		if err := e.grant(u, c18DB1, home); err != nil {
			return err
		}
		// permission downgraded while logged in TWICE
		if err := e.drain(u); err != nil {
			return err
		}
		if ct, err = e.tokenFor(u, c18DB1); err != nil {
			return err
		}
		if _, err = e.login(u.name, u.pw); err != nil {
			return err
		}
		if err := e.grant(u, c18DB1, auth.PermissionR); err != nil {
			return err
		}
		if err := e.batch(ct, role+">r", "permission-changed-2-logins", streams); err != nil {
			return err
		}
		if err := e.grant(u, c18DB1, home); err != nil {
			return err
		}
		if err := e.drain(u); err != nil {
			return err
		}
	}
	// long-lived streams that outlive a withdrawal of access (every streaming RPC, quick and thorough)
	if err := e.streamWithdrawals(thorough); err != nil {
		return err
	}
	// sessions left idle beyond the server's session timeout
	if rest := c18SessIdle + 800*time.Millisecond - time.Since(idleSince); rest > 0 {
		time.Sleep(rest)
	}
	expStrm.state, expStrm.why = "stale", "expired"
	e.continueStreams(expOpen, expStrm, "session-expired", []string{fmt.Sprintf("nothing is sent for %s: the session exceeds the server's MaxSessionInactivityTime (%s) and the session guard removes it", time.Since(idleSince).Round(time.Second), c18SessIdle)}, 5*time.Second)
	r.Count("stream.scenario.session-expired.session")
	if e.last, err = e.digest(true); err != nil {
		return err
	}
	for i, ce := range expiring {
		ce.state, ce.why = "stale", "expired"
		if err := e.batch(ce, expRoles[i], "expired-session", streams); err != nil {
			return err
		}
	}
	return r.Flush()
}

// c18OpenCfg: servers that are open by configuration (auth off; maintenance mode). Only the gate verdicts are compared
// with the model (the branches of getDBFromCtx and of the admin handlers that look at Options.auth / GetMaintenance()).
func c18OpenCfg(r *hx.Result, rng *hx.Rng, rpcs []c18Rpc, maint, streams bool) (rerr error) {
	dir := hx.TempDir("c18o")
	defer os.RemoveAll(dir)
	srv, conn, err := c18Start(dir, false, maint)
	if err != nil {
		return err
	}
	cfg := "000"
	if maint {
		cfg = "001"
	}
	e := &c18Env{r: r, rng: rng, srv: srv, conn: conn, cfg: cfg, rpcs: rpcs, users: map[string]*c18User{}, byName: map[string]*c18User{},
		sessOf: map[string][]*c18Cred{}, sampled: map[string]bool{}, dir: dir, openCfg: true, db1: c18Def, dbAdm: "c18nosuchdb"}
	defer e.stop()
	defer func() {
		if x := recover(); x != nil {
			r.Fail("C18:harness:panic", fmt.Sprint(x), nil)
			rerr = fmt.Errorf("panic: %v", x)
		}
	}()
	tag := "auth-disabled"
	if maint {
		tag = "maintenance"
	}
	if err := e.batch(&c18Cred{kind: "none", state: "valid"}, "anonymous", tag, streams); err != nil {
		return err
	}
	if !maint {
		return r.Flush()
	}
	// maintenance mode: UseDatabase hands out a token for a nameless sysadmin
	for _, sel := range []string{c18Def, c18Sys} {
		ctx, cancel := context.WithTimeout(context.Background(), 10*time.Second)
		rep := &schema.UseDatabaseReply{}
		err := e.call(ctx, imm+"UseDatabase", &schema.Database{DatabaseName: sel}, rep)
		cancel()
		if err != nil {
			return fmt.Errorf("maintenance UseDatabase(%s): %w", sel, err)
		}
		mu := &c18User{name: "", sysadmin: true, noSQL: true, perms: map[string]uint32{}, active: true, logins: 1, view: map[string]uint32{}}
		if err := e.batch(&c18Cred{kind: "token", state: "valid", token: rep.Token, sel: sel, user: mu}, "maintenance-operator", tag+"-token", streams); err != nil {
			return err
		}
	}
	return r.Flush()
}
