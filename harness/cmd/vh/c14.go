package main

// C14 — Value-log truncation keeps everything at or after the cut readable.
//
// Real store (embedded/store) with concurrent committers (values land in the value logs out of id
// order), MaxIOConcurrency 1..4, small FileSize (values span chunk files), empty values at any entry
// position, embedded values on/off; ascending cut points incl. 0, repeated cuts, last and last+1.
// After every TruncateUptoTx: model-independent ORACLE (every tx >= cut: ReadTx+ReadValue = recorded
// value, Get of latest keys, full ExportTx; every tx: tx log/header/Alh/DualProof unchanged; every
// ExportTx under a liveness bound, `_valBsMux` free afterwards; a later commit works), close/reopen,
// and the CORRESPONDENCE with the Lean model (lean/ImmuModel/Store/Truncate.lean through `c14 …`):
// the placement actually observed (vlog id, offset, length of every entry from the tx log) and the
// chunk files on disk are fed to the driver; tombstones (taken from the store's own log lines), the
// error class, the surviving chunk files, per-entry readability and the ExportTx outcome are compared.

import (
	"bytes"
	"context"
	"errors"
	"fmt"
	"os"
	"path/filepath"
	"reflect"
	"sort"
	"strconv"
	"strings"
	"sync"
	"sync/atomic"
	"time"
	"unsafe"

	"github.com/codenotary/immudb/embedded/appendable"
	"github.com/codenotary/immudb/embedded/appendable/multiapp"
	"github.com/codenotary/immudb/embedded/store"

	"verif/harness/internal/hx"
)

func init() { runners["C14"] = runC14 }

const (
	c14SigLeak     = "C14:ExportTx:mutex-not-released-on-partially-truncated-tx"
	c14SigInflight = "C14:TruncateUptoTx:inflight-writer-values-deleted"
	c14Liveness    = 20 * time.Second // generous: only a genuine block reaches it
)

// ---------- logger capturing the tombstones the store computes ----------

type c14Logger struct {
	mu    sync.Mutex
	tombs map[int]int64
}

func (l *c14Logger) Errorf(string, ...interface{})   {}
func (l *c14Logger) Warningf(string, ...interface{}) {}
func (l *c14Logger) Debugf(string, ...interface{})   {}
func (l *c14Logger) Close() error                    { return nil }
func (l *c14Logger) Infof(f string, a ...interface{}) {
	if f == "truncating vlog '%d' at offset '%d'" && len(a) == 2 {
		l.mu.Lock()
		defer l.mu.Unlock()
		if l.tombs == nil {
			l.tombs = map[int]int64{}
		}
		v, _ := a[0].(byte)
		o, _ := a[1].(int64)
		l.tombs[int(v)] = o
	}
}
func (l *c14Logger) take() map[int]int64 {
	l.mu.Lock()
	defer l.mu.Unlock()
	t := l.tombs
	l.tombs = nil
	return t
}

// ---------- helpers ----------

type c14Entry struct{ key, val []byte }
type c14Spec struct{ ents []c14Entry }
type c14Loc struct {
	vlog int
	off  int64
	ln   int
}

func c14Decode(vOff int64) (int, int64) { return int(byte(vOff >> 56)), vOff & ((1 << 55) - 1) }

// the unexported mutex ExportTx uses; TryLock tells exactly (no timing) whether an ExportTx left it held
func c14ValBsMux(st *store.ImmuStore) *sync.Mutex {
	f := reflect.ValueOf(st).Elem().FieldByName("_valBsMux")
	if !f.IsValid() {
		return nil
	}
	return (*sync.Mutex)(unsafe.Pointer(f.UnsafeAddr()))
}

func c14ErrClass(err error) string {
	if err == nil {
		return "ok"
	}
	var cl []string
	if errors.Is(err, store.ErrIllegalArguments) || errors.Is(err, multiapp.ErrIllegalArguments) {
		cl = append(cl, "illegal")
	}
	if errors.Is(err, store.ErrTxNotFound) {
		cl = append(cl, "txnotfound")
	}
	if errors.Is(err, store.ErrUnexpectedError) {
		cl = append(cl, "unexpected")
	}
	if len(cl) == 0 {
		return "err:other"
	}
	sort.Strings(cl)
	return "err:" + strings.Join(cl, "+")
}

type c14Case struct {
	r     *hx.Result
	label string
	dir   string
	F, io int
	emb   bool
	lg    *c14Logger
	st    *store.ImmuStore

	mu     sync.Mutex
	specs  map[uint64]*c14Spec
	locs   map[uint64][]c14Loc
	hdrs   map[uint64]*store.TxHeader
	alhs   map[uint64][32]byte
	ents   map[uint64]string // canonical tx-log content of the entries (key, hVal, vOff, vLen)
	duals  map[[2]uint64]*store.DualProof
	sent   uint64 // txs already sent to the model
	cut    uint64 // highest cut applied successfully
	leaks  int
	whole  bool
	cnt    *atomic.Int64
	broken bool
	mc     int // MaxConcurrency (0: the default of c14Options, 30)
	mat    int // MaxActiveTransactions (0: the store's default)
}

// whole=true: FileSize applies to every log of the store (tx log, commit log, index, aht: many tiny files, slow);
// whole=false: only the value logs get the small chunk size, through the store's own AppFactory option.
// value-log wrapper counting Append calls: tells (as a state, not by timing) when a ReplicateTx that is
// waiting for its predecessor has already put its values into a value log
type c14CountingApp struct {
	appendable.Appendable
	n   *atomic.Int64
	idx int       // vlog id (1-based)
	g   *c14Gates // optional: lets a probe hold a call inside the value log
}

// a gate, once armed, holds the next call of its kind on that vlog until released
type c14Gate struct {
	armed   atomic.Bool
	entered chan struct{}
	release chan struct{}
}

func newC14Gate() *c14Gate {
	return &c14Gate{entered: make(chan struct{}, 1), release: make(chan struct{})}
}
func (g *c14Gate) pass() {
	if g != nil && g.armed.CompareAndSwap(true, false) {
		g.entered <- struct{}{}
		<-g.release
	}
}

type c14Gates struct {
	readAt  map[int]*c14Gate
	discard map[int]*c14Gate
}

func (a *c14CountingApp) ReadAt(bs []byte, off int64) (int, error) {
	if a.g != nil {
		a.g.readAt[a.idx].pass()
	}
	return a.Appendable.ReadAt(bs, off)
}

func (a *c14CountingApp) DiscardUpto(off int64) error {
	if a.g != nil {
		a.g.discard[a.idx].pass()
	}
	return a.Appendable.DiscardUpto(off)
}

func (a *c14CountingApp) Append(bs []byte) (int64, int, error) {
	off, n, err := a.Appendable.Append(bs)
	a.n.Add(1)
	return off, n, err
}

func c14Options(F, io int, emb bool, lg *c14Logger, whole bool, cnt *atomic.Int64) *store.Options {
	return c14OptionsG(F, io, emb, lg, whole, cnt, nil)
}

func c14OptionsG(F, io int, emb bool, lg *c14Logger, whole bool, cnt *atomic.Int64, gates *c14Gates) *store.Options {
	o := store.DefaultOptions().WithSynced(false).WithMaxIOConcurrency(io).
		WithEmbeddedValues(emb).WithVLogCacheSize(0).WithMaxConcurrency(30).WithMaxValueLen(1 << 14).
		WithMaxTxEntries(16).WithMaxKeyLen(64).WithWriteBufferSize(1 << 15).
		WithAHTOptions(store.DefaultAHTOptions().WithWriteBufferSize(1 << 15))
	if whole {
		o = o.WithFileSize(F)
	} else {
		o = o.WithFileSize(1 << 20)
	}
	if !whole || cnt != nil {
		o = o.WithAppFactory(func(root, sub string, ao *multiapp.Options) (appendable.Appendable, error) {
			isVal := strings.HasPrefix(sub, "val_")
			if isVal {
				ao.WithFileSize(F)
			}
			a, err := multiapp.Open(filepath.Join(root, sub), ao)
			if err == nil && isVal && cnt != nil {
				idx, _ := strconv.Atoi(strings.TrimPrefix(sub, "val_"))
				return &c14CountingApp{Appendable: a, n: cnt, idx: idx + 1, g: gates}, nil
			}
			return a, err
		})
	}
	if lg != nil {
		o = o.WithLogger(lg)
	} else {
		o = o.WithLogger(quietLogger())
	}
	return o
}

func (c *c14Case) open() error {
	o := c14Options(c.F, c.io, c.emb, c.lg, c.whole, c.cnt)
	if c.mc > 0 {
		o = o.WithMaxConcurrency(c.mc)
	}
	if c.mat > 0 {
		o = o.WithMaxActiveTransactions(c.mat)
	}
	st, err := store.Open(c.dir, o)
	if err != nil {
		return err
	}
	c.st = st
	return nil
}

func c14CommitSpec(st *store.ImmuStore, sp *c14Spec) (id uint64, err error) {
	defer func() {
		if p := recover(); p != nil {
			err = fmt.Errorf("panic: %v", p)
		}
	}()
	tx, err := st.NewWriteOnlyTx(context.Background())
	if err != nil {
		return 0, err
	}
	for _, e := range sp.ents {
		if err := tx.Set(e.key, nil, e.val); err != nil {
			tx.Cancel()
			return 0, err
		}
	}
	h, err := tx.Commit(context.Background())
	if err != nil {
		return 0, err
	}
	return h.ID, nil
}

// commit the specs with `writers` concurrent committers; the content is deterministic, the schedule is not
func (c *c14Case) commitAll(specs []*c14Spec, writers int) error {
	ch := make(chan *c14Spec, len(specs))
	for _, s := range specs {
		ch <- s
	}
	close(ch)
	var wg sync.WaitGroup
	var firstErr error
	for w := 0; w < writers; w++ {
		wg.Add(1)
		go func() {
			defer wg.Done()
			for sp := range ch {
				id, err := c14CommitSpec(c.st, sp)
				c.mu.Lock()
				if err != nil {
					if firstErr == nil {
						firstErr = err
					}
				} else {
					c.specs[id] = sp
				}
				c.mu.Unlock()
			}
		}()
	}
	wg.Wait()
	return firstErr
}

func c14EntsCanon(tx *store.Tx) string {
	var b strings.Builder
	for _, e := range tx.Entries() {
		h := e.HVal()
		fmt.Fprintf(&b, "%x|%x|%d|%d;", e.Key(), h[:8], e.VOff(), e.VLen())
	}
	return b.String()
}

// read the tx log of the txs not yet seen: placement, headers; check the placement guarantee the
// model assumes (`Placed`); send the txs to the model
func (c *c14Case) observe() error {
	last := c.st.LastCommittedTxID()
	for id := c.sent + 1; id <= last; id++ {
		tx := store.NewTx(c.st.MaxTxEntries(), c.st.MaxKeyLen())
		if err := c.st.ReadTx(id, false, tx); err != nil {
			return fmt.Errorf("ReadTx(%d): %w", id, err)
		}
		var locs []c14Loc
		var toks []string
		for _, e := range tx.Entries() {
			v, o := c14Decode(e.VOff())
			locs = append(locs, c14Loc{v, o, e.VLen()})
			toks = append(toks, fmt.Sprintf("%d:%d:%d", v, o, e.VLen()))
		}
		c.locs[id] = locs
		h := *tx.Header()
		c.hdrs[id] = &h
		c.alhs[id] = h.Alh()
		c.ents[id] = c14EntsCanon(tx)
		if !c.emb {
			c.checkPlaced(id, locs)
		}
		line := "_"
		if len(toks) > 0 {
			line = strings.Join(toks, ",")
		}
		c.r.Corr("c14 tx "+line, strconv.FormatUint(id, 10))
	}
	c.sent = last
	return nil
}

// what ONE appendValuesIntoAnyVLog call guarantees: one vlog, non-empty values contiguous ascending, empty values at offset 0
func (c *c14Case) checkPlaced(id uint64, locs []c14Loc) {
	c.r.OracleChecks++
	next := int64(-1)
	for i, l := range locs {
		if l.vlog != locs[0].vlog || l.vlog < 1 || l.vlog > c.io {
			c.r.Fail("C14:appendValues:placement-assumption-violated", fmt.Sprintf("tx %d entry %d in vlog %d (first entry vlog %d, io=%d)", id, i, l.vlog, locs[0].vlog, c.io), c.label)
			return
		}
		if l.ln == 0 {
			if l.off != 0 {
				c.r.Fail("C14:appendValues:placement-assumption-violated", fmt.Sprintf("tx %d entry %d empty with offset %d", id, i, l.off), c.label)
			}
			continue
		}
		if next >= 0 && l.off != next {
			c.r.Fail("C14:appendValues:placement-assumption-violated", fmt.Sprintf("tx %d entry %d at %d, expected %d", id, i, l.off, next), c.label)
		}
		next = l.off + int64(l.ln)
	}
}

func (c *c14Case) chunkFiles(v int) []int {
	var ids []int
	es, _ := os.ReadDir(filepath.Join(c.dir, fmt.Sprintf("val_%d", v-1)))
	for _, e := range es {
		n := e.Name()
		if strings.HasSuffix(n, ".val") {
			if k, err := strconv.Atoi(strings.TrimSuffix(n, ".val")); err == nil {
				ids = append(ids, k)
			}
		}
	}
	sort.Ints(ids)
	return ids
}

func c14Ints(xs []int) string {
	if len(xs) == 0 {
		return "_"
	}
	s := make([]string, len(xs))
	for i, x := range xs {
		s[i] = strconv.Itoa(x)
	}
	return strings.Join(s, ",")
}

// tell the model the geometry of the value logs as it is on disk now (chunk files; active chunk =
// highest file; logical end = end of the last placed value)
func (c *c14Case) syncVLogs() {
	if c.emb {
		return
	}
	for v := 1; v <= c.io; v++ {
		files := c.chunkFiles(v)
		cur := 0
		if len(files) > 0 {
			cur = files[len(files)-1]
		}
		var end int64
		for _, ls := range c.locs {
			for _, l := range ls {
				if l.vlog == v && l.off+int64(l.ln) > end {
					end = l.off + int64(l.ln)
				}
			}
		}
		c.r.Corr(fmt.Sprintf("c14 vlog %d %d %d %s", v, cur, end, c14Ints(files)), "ok")
	}
}

// TruncateUptoTx(n) on the store and on the model; returns the number of chunk files removed
func (c *c14Case) truncate(n uint64) (removed int, class string) {
	before := map[int][]int{}
	if !c.emb {
		for v := 1; v <= c.io; v++ {
			before[v] = c.chunkFiles(v)
		}
	}
	c.lg.take()
	var err error
	func() {
		defer func() {
			if p := recover(); p != nil {
				err = nil
				class = "panic"
				c.r.Fail("C14:TruncateUptoTx:panic", fmt.Sprintf("TruncateUptoTx(%d): %v", n, p), c.label)
			}
		}()
		err = c.st.TruncateUptoTx(n)
	}()
	if class == "" {
		class = c14ErrClass(err)
	}
	tombs := c.lg.take()
	// tombstones: model computes them on the pre-state
	var tombTok string
	switch {
	case c.emb:
		tombTok = "-"
	case len(tombs) == 0 && class != "ok":
		tombTok = class
	case len(tombs) == 0:
		tombTok = "_"
	default:
		var vs []int
		for v := range tombs {
			vs = append(vs, v)
		}
		sort.Ints(vs)
		var ts []string
		for _, v := range vs {
			ts = append(ts, fmt.Sprintf("%d:%d", v, tombs[v]))
		}
		tombTok = strings.Join(ts, ",")
	}
	c.r.Corr(fmt.Sprintf("c14 tomb %d", n), tombTok)
	c.r.Corr(fmt.Sprintf("c14 trunc %d", n), class)
	if !c.emb {
		for v := 1; v <= c.io; v++ {
			after := c.chunkFiles(v)
			removed += len(before[v]) - len(after)
			c.r.Corr(fmt.Sprintf("c14 chunks %d", v), c14Ints(after))
			// oracle: the active chunk is never removed, nothing but a prefix disappears
			c.r.OracleChecks++
			if len(before[v]) > 0 && (len(after) == 0 || after[len(after)-1] != before[v][len(before[v])-1]) {
				c.r.Fail("C14:DiscardUpto:active-chunk-removed", fmt.Sprintf("vlog %d before %v after %v", v, before[v], after), c.label)
			}
		}
	} else {
		c.r.OracleChecks++
		if class != "ok" {
			c.r.Fail("C14:TruncateUptoTx:embedded-not-noop", "class "+class, c.label)
		}
	}
	c.r.Count("trunc.class." + class)
	if class == "ok" && n > c.cut && !c.emb {
		c.cut = n
	}
	return removed, class
}

type c14ExpRes struct {
	bs  []byte
	err error
	pan interface{}
}

// ExportTx under the liveness bound; returns the class or "blocked"
func (c *c14Case) export(id uint64, bound time.Duration) (string, chan c14ExpRes) {
	ch := make(chan c14ExpRes, 1)
	st := c.st
	go func() {
		var res c14ExpRes
		defer func() {
			if p := recover(); p != nil {
				res.pan = p
			}
			ch <- res
		}()
		tx := store.NewTx(st.MaxTxEntries(), st.MaxKeyLen())
		res.bs, res.err = st.ExportTx(id, false, false, tx)
	}()
	select {
	case res := <-ch:
		return c14ExportClass(res), nil
	case <-time.After(bound):
		return "blocked", ch
	}
}

func c14ExportClass(res c14ExpRes) string {
	switch {
	case res.pan != nil:
		return "panic"
	case res.err == nil:
		if len(res.bs) > 0 && res.bs[len(res.bs)-1] == 1 {
			return "digests"
		}
		return "values"
	case errors.Is(res.err, store.ErrCorruptedData) && strings.Contains(res.err.Error(), "partially truncated"):
		return "err:partial"
	case errors.Is(res.err, store.ErrTxNotFound):
		return "err:tx"
	default:
		return "err:read"
	}
}

// full oracle + correspondence over all txs
func (c *c14Case) checkAll(phase string) {
	r := c.r
	last := c.st.LastCommittedTxID()
	mux := c14ValBsMux(c.st)
	for id := uint64(1); id <= last; id++ {
		sp := c.specs[id]
		// (1) the tx log is untouched: ReadTx works for EVERY tx, same entries, same header, same Alh
		tx := store.NewTx(c.st.MaxTxEntries(), c.st.MaxKeyLen())
		r.OracleChecks++
		if err := c.st.ReadTx(id, false, tx); err != nil {
			r.Fail("C14:ReadTx:fails-after-truncation", fmt.Sprintf("%s: ReadTx(%d): %v", phase, id, err), c.label)
			continue
		}
		if c14EntsCanon(tx) != c.ents[id] || tx.Header().Alh() != c.alhs[id] || !reflect.DeepEqual(tx.Header(), c.hdrs[id]) {
			r.Fail("C14:ReadTx:tx-log-changed", fmt.Sprintf("%s: tx %d header/entries differ after truncation", phase, id), c.label)
		}
		// (2) values
		var bits strings.Builder
		for i, e := range tx.Entries() {
			v, err := c.st.ReadValue(e)
			ok := err == nil
			if ok {
				bits.WriteByte('1')
			} else {
				bits.WriteByte('0')
			}
			if id >= c.cut || c.emb {
				r.OracleChecks++
				if err != nil {
					r.Fail("C14:ReadValue:unreadable-at-or-after-cut", fmt.Sprintf("%s: cut %d tx %d entry %d loc %+v: %v", phase, c.cut, id, i, c.locs[id][i], err), c.label)
				} else if sp != nil && !bytes.Equal(v, sp.ents[i].val) {
					r.Fail("C14:ReadValue:different-value-at-or-after-cut", fmt.Sprintf("%s: cut %d tx %d entry %d", phase, c.cut, id, i), c.label)
				}
			} else if ok && sp != nil && !bytes.Equal(v, sp.ents[i].val) {
				r.OracleChecks++
				r.Fail("C14:ReadValue:different-value-before-cut", fmt.Sprintf("%s: cut %d tx %d entry %d", phase, c.cut, id, i), c.label)
			}
		}
		if !c.emb {
			b := bits.String()
			if b == "" {
				b = "_"
			}
			r.Corr(fmt.Sprintf("c14 readable %d", id), b)
		}
		// (3) ExportTx under the liveness bound
		cls, pend := c.export(id, c14Liveness)
		r.OracleChecks++
		r.Count("export." + cls)
		if cls == "blocked" {
			r.Fail("C14:ExportTx:blocks-after-"+phase, fmt.Sprintf("ExportTx(%d) did not return within %v (no leaked lock seen before)", id, c14Liveness), c.label)
			c.broken = true
			_ = pend
			return
		}
		if cls == "panic" {
			r.Fail("C14:ExportTx:panic", fmt.Sprintf("%s: ExportTx(%d)", phase, id), c.label)
		}
		if (id >= c.cut || c.emb) && cls != "values" {
			r.Fail("C14:ExportTx:not-full-at-or-after-cut", fmt.Sprintf("%s: cut %d ExportTx(%d) = %s", phase, c.cut, id, cls), c.label)
		}
		locked := false
		if mux != nil {
			if mux.TryLock() {
				mux.Unlock()
			} else {
				locked = true
			}
		}
		if !c.emb {
			lk := " locked=0"
			if locked {
				lk = " locked=1"
			}
			r.Corr(fmt.Sprintf("c14 export %d", id), cls+lk)
		}
		if locked {
			c.leaks++
			desc := fmt.Sprintf("%s: cut %d: ExportTx(%d) returned %q with _valBsMux still locked (TryLock fails while no ExportTx is running); entries %+v", phase, c.cut, id, cls, c.locs[id])
			// behavioural confirmation on the first occurrences: the next ExportTx of a tx >= cut blocks
			if c.r.Distribution["export.block-confirmed"] < 2 {
				cls2, pend2 := c.export(last, 1500*time.Millisecond)
				if !c.emb {
					r.Corr(fmt.Sprintf("c14 export %d", last), cls2+" locked=1")
				}
				if cls2 == "blocked" {
					r.Count("export.block-confirmed")
					desc += fmt.Sprintf("; then ExportTx(%d) (a tx >= cut) did not return", last)
				}
				mux.Unlock() // heal: hand the lock back so the blocked call (and the case) can go on
				if pend2 != nil {
					select {
					case <-pend2:
					case <-time.After(c14Liveness):
						r.Fail("C14:ExportTx:blocks-after-heal", "blocked ExportTx did not finish after the leaked lock was released", c.label)
						c.broken = true
						return
					}
				}
			} else {
				mux.Unlock()
			}
			if !c.emb {
				r.Corr("c14 unlock", "ok")
			}
			r.Fail(c14SigLeak, desc, map[string]interface{}{"case": c.label, "cut": c.cut, "tx": id, "locs": fmt.Sprint(c.locs[id])})
		}
	}
	// (4) DualProofs unchanged
	for k, p0 := range c.duals {
		r.OracleChecks++
		p, err := c.st.DualProof(c.hdrs[k[0]], c.hdrs[k[1]])
		if err != nil || !reflect.DeepEqual(p, p0) {
			r.Fail("C14:DualProof:changed-after-truncation", fmt.Sprintf("%s: DualProof(%d,%d): %v", phase, k[0], k[1], err), c.label)
		}
	}
	// (5) Get of the latest value of every key whose latest tx is at or after the cut
	if err := c.st.WaitForIndexingUpto(context.Background(), last); err == nil {
		latest := map[string]uint64{}
		vals := map[string][]byte{}
		for id := uint64(1); id <= last; id++ {
			if sp := c.specs[id]; sp != nil {
				for _, e := range sp.ents {
					latest[string(e.key)] = id
					vals[string(e.key)] = e.val
				}
			}
		}
		n := 0
		for k, id := range latest {
			if id < c.cut && !c.emb {
				continue
			}
			if n++; n > 40 {
				break
			}
			r.OracleChecks++
			ref, err := c.st.Get(context.Background(), []byte(k))
			if err != nil {
				r.Fail("C14:Get:fails-at-or-after-cut", fmt.Sprintf("%s: Get(%q) latest tx %d cut %d: %v", phase, k, id, c.cut, err), c.label)
				continue
			}
			v, err := ref.Resolve()
			if err != nil || !bytes.Equal(v, vals[k]) || ref.Tx() != id {
				r.Fail("C14:Get:wrong-at-or-after-cut", fmt.Sprintf("%s: Get(%q) tx %d (want %d) err %v", phase, k, ref.Tx(), id, err), c.label)
			}
		}
	}
}

func (c *c14Case) snapshotDuals(rng *hx.Rng) {
	last := c.sent
	if last < 2 {
		return
	}
	for k := 0; k < 8; k++ {
		i := uint64(1 + rng.Intn(int(last)))
		j := uint64(1 + rng.Intn(int(last)))
		if i > j {
			i, j = j, i
		}
		p, err := c.st.DualProof(c.hdrs[i], c.hdrs[j])
		if err == nil {
			c.duals[[2]uint64{i, j}] = p
		}
	}
}

func c14GenSpecs(rng *hx.Rng, n int, F int, tag string, r *hx.Result) []*c14Spec {
	var specs []*c14Spec
	for t := 0; t < n; t++ {
		ne := 1 + rng.Intn(4)
		if rng.Chance(8) {
			ne = 5 + rng.Intn(6)
		}
		sp := &c14Spec{}
		for j := 0; j < ne; j++ {
			var key []byte
			if rng.Chance(25) {
				key = []byte(fmt.Sprintf("shared-%d", rng.Intn(6)))
			} else {
				key = []byte(fmt.Sprintf("%s-%d-%d", tag, t, j))
			}
			dup := false
			for _, e := range sp.ents {
				if bytes.Equal(e.key, key) {
					dup = true
				}
			}
			if dup {
				key = []byte(fmt.Sprintf("%s-%d-%d-u", tag, t, j))
			}
			var ln int
			switch x := rng.Intn(10); {
			case x < 2:
				ln = 0
			case x < 4:
				ln = 1 + rng.Intn(8)
			case x < 6:
				ln = F - 2 + rng.Intn(5) // around one chunk
				if ln < 1 {
					ln = 1
				}
			case x < 7:
				ln = F + 1 + rng.Intn(2*F) // spans 2-3 chunks
			default:
				ln = 1 + rng.Intn(F)
			}
			if ln > 4000 {
				ln = 4000
			}
			val := rng.Bytes(ln)
			sp.ents = append(sp.ents, c14Entry{key, val})
			switch {
			case ln == 0 && j == 0:
				r.Count("entry.empty.first")
			case ln == 0 && j == ne-1:
				r.Count("entry.empty.last")
			case ln == 0:
				r.Count("entry.empty.middle")
			case ln > F:
				r.Count("entry.spans-chunks")
			default:
				r.Count("entry.nonempty")
			}
		}
		specs = append(specs, sp)
	}
	return specs
}

func (c *c14Case) countOrder() {
	// values out of id order inside one vlog?
	inv := 0
	for v := 1; v <= c.io; v++ {
		var prev int64 = -1
		for id := uint64(1); id <= c.sent; id++ {
			for _, l := range c.locs[id] {
				if l.vlog == v && l.ln > 0 {
					if l.off < prev {
						inv++
					}
					prev = l.off
					break
				}
			}
		}
	}
	if inv > 0 {
		c.r.Count("placement.out-of-id-order")
		c.r.CountN("placement.inversions", inv)
	} else {
		c.r.Count("placement.in-id-order")
	}
}

func c14StoreCase(r *hx.Result, rng *hx.Rng, thorough bool, caseNo int) error {
	r.NextCase()
	Fs := []int{48, 64, 100, 128, 256, 512, 1000}
	F := Fs[rng.Intn(len(Fs))]
	io := 1 + rng.Intn(4)
	emb := rng.Chance(12)
	if emb {
		io = 1
	}
	writers := 1 + rng.Intn(6)
	if rng.Chance(20) {
		writers = 1
	}
	whole := emb || rng.Chance(15)
	// replica mode: the history is written through ReplicateTx with the calls of each window started in a
	// shuffled order, each one after the previous has put its values into a value log: values land far out of id order
	replica := !emb && rng.Chance(45)
	nTx := 6 + rng.Intn(20)
	if thorough {
		nTx = 8 + rng.Intn(50)
	}
	// MaxConcurrency: the default of these cases (30) or the smallest value the schedule of the case needs (+0..2): the
	// distance in tx ids between two txs whose values are adjacent in a value log is then no longer small relative to it
	mc := 0
	if rng.Chance(50) {
		mc = writers
		if replica && mc < 5 {
			mc = 5 // a shuffled replication window holds up to 5 pooled txs
		}
		if mc < 2 {
			mc = 2 // commits between cuts use up to 2 committers
		}
		mc += rng.Intn(3)
	}
	dir := hx.TempDir("c14")
	defer os.RemoveAll(dir)
	c := &c14Case{r: r, label: fmt.Sprintf("store-case#%d F=%d io=%d emb=%v writers=%d replica=%v txs=%d mc=%d seed=%d", caseNo, F, io, emb, writers, replica, nTx, mc, r.Seed),
		dir: filepath.Join(dir, "st"), F: F, io: io, emb: emb, lg: &c14Logger{}, whole: whole, mc: mc,
		specs: map[uint64]*c14Spec{}, locs: map[uint64][]c14Loc{}, hdrs: map[uint64]*store.TxHeader{}, alhs: map[uint64][32]byte{},
		ents: map[uint64]string{}, duals: map[[2]uint64]*store.DualProof{}}
	r.Count(fmt.Sprintf("config.F=%d", F))
	r.Count(fmt.Sprintf("config.io=%d", io))
	r.Count(fmt.Sprintf("config.embedded=%v", emb))
	r.Count(fmt.Sprintf("config.writers=%d", writers))
	r.Count(fmt.Sprintf("config.store-case.MaxConcurrency=%d", mc))
	r.Count(fmt.Sprintf("config.filesize-applies-to-whole-store=%v", whole))
	r.Count(fmt.Sprintf("config.written-through-ReplicateTx-shuffled=%v", replica))
	if replica {
		c.cnt = &atomic.Int64{}
	}
	if err := c.open(); err != nil {
		return err
	}
	defer func() {
		if c.st != nil {
			c.st.Close()
		}
	}()
	embTok := "0"
	if emb {
		embTok = "1"
	}
	r.Corr(fmt.Sprintf("c14 new %d %d %s", F, io, embTok), "ok")
	specs := c14GenSpecs(rng, nTx, F, "k", r)
	if replica {
		if err := c.replicateShuffled(rng, specs, filepath.Join(dir, "primary")); err != nil {
			return fmt.Errorf("%s: replicate: %w", c.label, err)
		}
	} else if err := c.commitAll(specs, writers); err != nil {
		return fmt.Errorf("%s: commit: %w", c.label, err)
	}
	if err := c.observe(); err != nil {
		return err
	}
	c.countOrder()
	c.snapshotDuals(rng)
	c.syncVLogs()
	last := c.sent
	// ascending cut points: 0 (error), a random first cut, a few more, repeated, last, last+1 (error)
	var cuts []uint64
	if rng.Chance(30) {
		cuts = append(cuts, 0)
	}
	if thorough && rng.Chance(30) {
		for n := uint64(1); n <= last; n++ {
			cuts = append(cuts, n)
		}
	} else {
		n := uint64(1 + rng.Intn(int(last)))
		for k := 0; k < 4 && n <= last; k++ {
			cuts = append(cuts, n)
			if rng.Chance(25) {
				cuts = append(cuts, n) // repeated truncation
			}
			n += uint64(1 + rng.Intn(6))
		}
		if rng.Chance(50) {
			cuts = append(cuts, last)
		}
	}
	if rng.Chance(30) {
		cuts = append(cuts, last+1+uint64(rng.Intn(3)))
	}
	if rng.Chance(20) && len(cuts) > 1 {
		cuts = append(cuts, cuts[0]) // an older cut after a newer one
	}
	reopened := false
	for ci, n := range cuts {
		removed, class := c.truncate(n)
		r.Eval(fmt.Sprintf("%s cut=%d#%d", c.label, n, ci), removed > 0)
		if removed > 0 {
			r.Count("trunc.removed-chunks")
		} else {
			r.Count("trunc.removed-nothing")
		}
		c.checkAll(fmt.Sprintf("after-truncate-%d", n))
		if c.broken {
			return nil
		}
		_ = class
		// a later commit must still work (liveness bound) and lands in the model
		if rng.Chance(50) {
			done := make(chan error, 1)
			go func() { done <- c.commitAll(c14GenSpecs(rng.Fork(), 1+rng.Intn(3), F, fmt.Sprintf("p%d", ci), r), 1+rng.Intn(2)) }()
			select {
			case err := <-done:
				r.OracleChecks++
				if err != nil {
					r.Fail("C14:Commit:fails-after-truncation", fmt.Sprintf("after cut %d: %v", n, err), c.label)
				}
			case <-time.After(c14Liveness):
				r.Fail("C14:Commit:blocks-after-truncation", fmt.Sprintf("after cut %d", n), c.label)
				return nil
			}
			if err := c.observe(); err != nil {
				return err
			}
			c.syncVLogs()
		}
		// close / reopen, then everything again
		if !reopened && rng.Chance(35) {
			reopened = true
			if err := c.st.Close(); err != nil {
				r.Fail("C14:Close:fails-after-truncation", err.Error(), c.label)
			}
			c.st = nil
			if err := c.open(); err != nil {
				r.Fail("C14:Open:fails-after-truncation", err.Error(), c.label)
				return nil
			}
			r.Count("reopen")
			if !c.emb {
				for v := 1; v <= c.io; v++ {
					c.r.Corr(fmt.Sprintf("c14 chunks %d", v), c14Ints(c.chunkFiles(v)))
				}
			}
			c.checkAll(fmt.Sprintf("after-reopen-cut-%d", c.cut))
			if c.broken {
				return nil
			}
			c.syncVLogs()
		}
	}
	if caseNo < 3 {
		r.Sample(map[string]interface{}{"kind": "store-case", "label": c.label, "cuts": fmt.Sprint(cuts), "last": c.sent, "tx1": fmt.Sprint(c.locs[1])})
	}
	return nil
}

// write the history on a primary (sequential), export it, and replicate it into c.st window by window, the
// ReplicateTx calls of a window started in a shuffled order (each after the previous one staged its values)
func (c *c14Case) replicateShuffled(rng *hx.Rng, specs []*c14Spec, pdir string) error {
	prim, err := store.Open(pdir, c14Options(1<<16, 1, false, nil, true, nil))
	if err != nil {
		return err
	}
	exp := map[uint64][]byte{}
	for i, sp := range specs {
		id, err := c14CommitSpec(prim, sp)
		if err != nil || id != uint64(i+1) {
			prim.Close()
			return fmt.Errorf("primary commit %d: id %d err %v", i+1, id, err)
		}
		tx := store.NewTx(prim.MaxTxEntries(), prim.MaxKeyLen())
		bs, err := prim.ExportTx(id, false, false, tx)
		if err != nil {
			prim.Close()
			return err
		}
		exp[id] = bs
		c.specs[id] = sp
	}
	prim.Close()
	ctx := context.Background()
	n := uint64(len(specs))
	for a := uint64(1); a <= n; {
		w := uint64(1 + rng.Intn(5))
		if a+w-1 > n {
			w = n - a + 1
		}
		ids := make([]uint64, w)
		for i := range ids {
			ids[i] = a + uint64(i)
		}
		for i := len(ids) - 1; i > 0; i-- {
			j := rng.Intn(i + 1)
			ids[i], ids[j] = ids[j], ids[i]
		}
		errs := make(chan error, len(ids))
		for _, id := range ids {
			nonEmpty := int64(0)
			for _, e := range specs[id-1].ents {
				if len(e.val) > 0 {
					nonEmpty++
				}
			}
			before := c.cnt.Load()
			go func(id uint64) { _, err := c.st.ReplicateTx(ctx, exp[id], false, false); errs <- err }(id)
			for k := 0; k < 2000 && c.cnt.Load() < before+nonEmpty; k++ {
				time.Sleep(time.Millisecond)
			}
		}
		for range ids {
			select {
			case err := <-errs:
				if err != nil {
					return err
				}
			case <-time.After(c14Liveness):
				return fmt.Errorf("ReplicateTx window %d.. did not finish", a)
			}
		}
		a += w
	}
	return nil
}
