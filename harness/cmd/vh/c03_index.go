package main

// C03, index part: crash images of the three logs of every index (nodes, history, commit), lives of a directory with several
// crashes, index-flush-heavy workloads, and the post-recovery oracle "every index = comprehension of the recovered tx log".
//
// An index (embedded/tbtree) persists INCREMENTAL snapshots: flushTree appends the mutated nodes to the nodes log, the older
// versions of updated keys to the history log, and one 100-byte entry {synced flag, [initialN,finalN), root size, checksum of
// the nodes range, [initialH,finalH), checksum of the history range} to the index commit log.  Only every SyncThld-th
// insertion fsyncs; in between the three logs are merely flushed, so a power loss removes an arbitrary suffix of the
// un-fsynced writes of EACH log independently.  OpenWith walks the commit log backwards to the newest fsynced entry,
// validating the checksums of every snapshot on the way; a newer snapshot references the node / history ranges of the older
// ones, so an invalid snapshot invalidates every newer one.  SetOffset never truncates: the bytes past a rewound logical end
// stay in the file and are there again after the next crash.
//
// What this file adds to the enumeration of c03.go (general, nothing here knows about a particular defect):
//   - survival choices per index LOG (c03IndexChoices): one log loses everything / keeps everything alone / keeps a proper
//     prefix, independent random prefixes, with the principal logs complete or cut;
//   - workloads in which many un-fsynced snapshots pile up between two fsyncs, some appending history (updates of written
//     keys) and some not (fresh keys only), optionally on a store with two secondary indexes (c03Cfg.IdxHeavy/MultiIdx);
//   - lives (c03IndexLives): workload, crash, workload on the crash image itself, crash, ... so that the logs carry stale
//     bytes past rewound offsets when the next crash happens;
//   - the oracle (c03IndexOracle): Get, History (both directions, tx ids, revisions, values resolved) of every key and a
//     full history scan of every index against the comprehension of the recovered tx log (the reference of C04);
//   - measurement (c03IndexMeasure): what the images do to the index logs, and the tie of the commit-log walk with the Lean
//     model (`c03 idxwalk`, ImmuModel/Store/IndexRecover.lean).

import (
	"bytes"
	"context"
	"crypto/sha256"
	"encoding/binary"
	"fmt"
	"os"
	"sort"
	"strings"
	"time"

	"github.com/codenotary/immudb/embedded/store"

	"verif/harness/internal/crashfs"
	"verif/harness/internal/hx"
)

const c03IdxCLogEntry = 8 + 8 + 4 + 32 + 8 + 8 + 32 // tbtree.cLogEntrySize

// c03IdxDefs: the indexes of a store of this configuration, in the vocabulary of the C04 reference
func c03IdxDefs(cfg c03Cfg) []c04IdxDef {
	if !cfg.MultiIdx {
		return []c04IdxDef{{Src: nil, Tgt: nil, SMap: "none", TMap: "none"}}
	}
	return []c04IdxDef{
		{Src: []byte("key-0"), Tgt: []byte("key-0"), SMap: "none", TMap: "none"},
		{Src: []byte("key-1"), Tgt: []byte("key-1"), SMap: "none", TMap: "none"},
	}
}

// c03IdxDirs: the directories (logical crashfs names) of the indexes
func c03IdxDirs(cfg c03Cfg) []string {
	var out []string
	for _, d := range c03IdxDefs(cfg) {
		if len(d.Tgt) == 0 {
			out = append(out, "index")
		} else {
			out = append(out, "index_"+hx.Hex(d.Tgt))
		}
	}
	return out
}

// c03IdxLogOf: "nodes" | "history" | "commit" | "" for a crashfs file name
func c03IdxLogOf(name string) string {
	if fileClass(name) != "index" {
		return ""
	}
	i := strings.LastIndex(name, "/")
	if i < 0 {
		return ""
	}
	for _, l := range []string{"nodes", "history", "commit"} {
		if strings.HasPrefix(name[i+1:], l) {
			return l
		}
	}
	return ""
}

// c03IsIndexFlushPoint: a crash point right after this op sees an index snapshot in the making (nodes written) or complete
// (commit entry written / fsynced)
func c03IsIndexFlushPoint(op *crashfs.Op) bool {
	if op.Kind != crashfs.KFlush && op.Kind != crashfs.KSync {
		return false
	}
	l := c03IdxLogOf(op.File)
	return l == "commit" || l == "nodes"
}

// c03IndexLostChunkTail: the image lacks the never-fsynced tail of an EARLIER chunk file of an index log (a hole): the
// cause of known finding 4 (index logs are opened with non-retryable sync)
func c03IndexLostChunkTail(img *crashfs.Image) bool {
	for n, f := range img.Files {
		if fileClass(n) != "index" {
			continue
		}
		if img.LostTail[n] {
			return true // (where older fsynced bytes lie underneath the lost range reads as those, not as a hole)
		}
		for _, x := range f.Mask {
			if x == 0 {
				return true
			}
		}
	}
	return false
}

// c03RecoveryFollowsSpec: for every index whose commit log can be parsed, the real recovery kept exactly what the documented
// walk keeps on the harness's own validation of the entries (unknown = true)
func c03RecoveryFollowsSpec(cfg c03Cfg, img *crashfs.Image, recLog []crashfs.Op) bool {
	for _, dir := range c03IdxDirs(cfg) {
		snaps, _, ok := c03ParseIdxCommit(img, dir)
		if !ok {
			continue
		}
		if sel, _, selOK := c03RealSelected(recLog, dir); selOK && sel != c03SpecWalk(snaps) {
			return false
		}
	}
	return true
}

// c03SpecWalk: the number of snapshots the walk of OpenWith is meant to keep, computed by the harness from its own validation of
// the entries: everything up to the newest valid fsynced entry, then the longest run of valid entries above it.
func c03SpecWalk(snaps []c03IdxSnap) int {
	k := 0
	for i := len(snaps) - 1; i >= 0; i-- {
		if snaps[i].valid() && snaps[i].Synced {
			k = i
			break
		}
	}
	for k < len(snaps) && snaps[k].valid() {
		k++
	}
	return k
}

// c03IndexEntryCause: cause witnesses of known findings 5 and 6, read off the image, the image the life started from and the
// storage ops of the life.  Among the index commit entries the real recovery KEPT (position <= the number of snapshots it
// selected; when that number cannot be read off the recovery's ops: entries that validate on the image):
//
//   - an entry that is neither the entry the previous image held at that offset nor an entry appended at that offset in this
//     life was never written as a whole: it is the head of a new entry TORN over the stale entry that occupied the slot (5);
//
//   - an entry the previous image held at that offset, at or past the logical end the recovery of that image set, and not
//     re-written in this life, is a STALE entry of an earlier life that validates again (6).
//
//   - (7) see below: the TIMESTAMP file.
//
// Returns the signature suffix and a description; "" = none of them.
func c03IndexEntryCause(run *c03Run, img *crashfs.Image, k int, recLog []crashfs.Op) (sig, why string) {
	for _, dir := range c03IdxDirs(run.Cfg) {
		cf := img.Files[dir+"/commit"]
		if cf == nil {
			continue
		}
		var bf *crashfs.ImgFile
		if run.Base != nil {
			bf = run.Base.Files[dir+"/commit"]
		}
		// the logical end the recovery of the base image set (the life's own log starts with that recovery)
		baseSel, _, baseOK := c03RealSelected(run.Log, dir)
		written := map[int64][][]byte{}
		for i := 0; i < k && i < len(run.Log); i++ {
			op := &run.Log[i]
			if op.Kind == crashfs.KAppend && op.File == dir+"/commit" && op.Len == c03IdxCLogEntry {
				written[op.Off] = append(written[op.Off], op.Data)
			}
		}
		snaps, _, ok := c03ParseIdxCommit(img, dir)
		if !ok {
			continue
		}
		sel, _, selOK := c03RealSelected(recLog, dir)
		if selOK && sel != c03SpecWalk(snaps) {
			// the recovery did not keep what the documented walk keeps (the longest valid prefix above the newest valid fsynced
			// entry): whatever is wrong with this image is not explained by an entry that validates although it should not
			continue
		}
		for i := range snaps {
			if !((selOK && i < sel) || (!selOK && snaps[i].valid())) {
				continue
			}
			o := int64(i * c03IdxCLogEntry)
			e := cf.Content[o : o+c03IdxCLogEntry]
			inBase := bf != nil && int64(len(bf.Content)) >= o+c03IdxCLogEntry && bytes.Equal(bf.Content[o:o+c03IdxCLogEntry], e)
			rewritten := false
			for _, w := range written[o] {
				rewritten = rewritten || bytes.Equal(w, e)
			}
			desc := fmt.Sprintf("entry #%d of %s/commit (N[%d,%d) H[%d,%d), validates=%v, recovery kept %d snapshots)", i+1, dir, snaps[i].IniN, snaps[i].FinN, snaps[i].IniH, snaps[i].FinH, snaps[i].valid(), sel)
			switch {
			case !inBase && !rewritten:
				return "torn-commit-entry-spliced-with-stale-entry", desc + " was never written as a whole: it is the head of a new entry torn over the stale entry that occupied the slot"
			case inBase && !rewritten && baseOK && i >= baseSel:
				return "stale-commit-entry-revalidated", desc + fmt.Sprintf(" was written in an earlier life and discarded by the previous recovery (which kept %d snapshots and rewound the log without truncating it); it was not written again in this life and validates again", baseSel)
			}
		}
		// known finding 7: the TIMESTAMP file of the index was (re)written in this life and no snapshot written after it was kept
		if selOK {
			count, atTs, tsOp := 0, -1, -1
			for i := 0; i < k && i < len(run.Log); i++ {
				op := &run.Log[i]
				switch {
				case op.File == dir+"/commit" && op.Kind == crashfs.KSetOffset:
					count = int(op.Off / c03IdxCLogEntry)
				case op.File == dir+"/commit" && op.Kind == crashfs.KAppend && op.Len == c03IdxCLogEntry:
					count++
				case op.Kind == crashfs.KSide && op.Data != nil && strings.HasPrefix(op.File, dir+"/TIMESTAMP"):
					atTs, tsOp = count, i
				}
			}
			if tsOp >= 0 && sel <= atTs && len(op8(run.Log[tsOp].Data)) > 0 {
				return "ts-file-ahead-of-snapshot", fmt.Sprintf("%s was written at op #%d with ts %s when the commit log held %d snapshots; the recovery kept %d: no snapshot written after the file is among them, OpenWith raises the ts of the older root to the value of the file",
					run.Log[tsOp].File, tsOp, op8(run.Log[tsOp].Data), atTs, sel)
			}
		}
	}
	return "", ""
}

// op8: the big-endian uint64 a TIMESTAMP file holds, as text ("" when malformed)
func op8(b []byte) string {
	if len(b) != 8 {
		return ""
	}
	return fmt.Sprint(binary.BigEndian.Uint64(b))
}

// ---------------------------------------------------------------------------------------------
// survival choices per index log

func c03IndexChoices(rng *hx.Rng, pend map[string][]int, names []string, pct int) []c03Choice {
	var idx []string
	for _, n := range names {
		if c03IdxLogOf(n) != "" {
			idx = append(idx, n)
		}
	}
	if len(idx) == 0 || pct <= 0 {
		return nil
	}
	full := func(n string) crashfs.Surv { return crashfs.Surv{Segs: len(pend[n])} }
	// the principal logs (tx, commit, values, hash tree): complete, or nothing un-fsynced
	start := func(core bool) map[string]crashfs.Surv {
		s := map[string]crashfs.Surv{}
		if core {
			for _, n := range names {
				if c03IdxLogOf(n) == "" {
					s[n] = full(n)
				}
			}
		}
		return s
	}
	var out []c03Choice
	add := func(name string, s map[string]crashfs.Surv) {
		if pct >= 100 || rng.Chance(pct) {
			out = append(out, c03Choice{Name: name, Surv: s})
		}
	}
	for _, f := range idx {
		l := c03IdxLogOf(f)
		// this log loses every un-fsynced write, the other index logs keep theirs
		s := start(rng.Chance(75))
		for _, g := range idx {
			if g != f {
				s[g] = full(g)
			}
		}
		add("idx-lose-"+l, s)
		// this log alone keeps its un-fsynced writes
		s = start(rng.Chance(75))
		s[f] = full(f)
		add("idx-only-"+l, s)
		// this log keeps a proper prefix (append granularity, sometimes torn), the others everything
		if n := len(pend[f]); n > 1 {
			s = start(rng.Chance(75))
			for _, g := range idx {
				s[g] = full(g)
			}
			k := rng.Intn(n)
			sv := crashfs.Surv{Segs: k}
			if pend[f][k] > 1 && rng.Chance(30) {
				sv.Torn = 1 + rng.Intn(pend[f][k]-1)
			}
			s[f] = sv
			add("idx-cut-"+l, s)
		}
	}
	// every index log keeps an independent prefix
	for i := 0; i < 2; i++ {
		s := start(rng.Chance(75))
		for _, f := range idx {
			k := rng.Intn(len(pend[f]) + 1)
			sv := crashfs.Surv{Segs: k}
			if k < len(pend[f]) && pend[f][k] > 1 && rng.Chance(20) {
				sv.Torn = 1 + rng.Intn(pend[f][k]-1)
			}
			s[f] = sv
		}
		add("idx-random", s)
	}
	return out
}

// ---------------------------------------------------------------------------------------------
// oracle: every index = comprehension of the recovered committed history

// c03IndexOracle compares the reopened store's indexes with the comprehension of recTxs (the committed history as read back
// from the recovered tx log and value logs): for every key of the key space Get and History in both directions (tx ids,
// revisions, value length and hash, values resolved through the value logs), and for every index a full scan with history.
// readErrSig: the signature for "the index cannot read its own data" (attributed by cause by the caller).
func c03IndexOracle(r *hx.Result, st *store.ImmuStore, cfg c03Cfg, recTxs []c04Tx, upto uint64, ackedMax uint64, readErrSig string, fail func(sig, desc string)) {
	defs := c03IdxDefs(cfg)
	ref := newC04Ref(defs)
	vals := map[uint64]map[string][]byte{}
	for _, t := range recTxs {
		ref.apply(t)
		m := map[string][]byte{}
		for _, e := range t.Ents {
			m[string(e.Key)] = e.Val
		}
		vals[t.ID] = m
	}
	now := c04Now()
	nFail := 0
	report := func(sig, desc string) {
		if nFail < 3 {
			fail(sig, desc)
		}
		nFail++
	}
	isReadErr := func(s string) bool { return strings.HasPrefix(s, "err:other") }
	r.Count("index-oracle.images")
	for k := 0; k < cfg.KeySpace; k++ {
		key := c03Key(k)
		var content c04Content
		for i, d := range defs {
			if c04HasPrefix(key, d.Tgt) {
				content = ref.idx[i]
				break
			}
		}
		expGet, expAsc, expDesc := "err:notfound", "err:notfound", "err:notfound"
		if content != nil {
			expGet = c04Get(content, now, key)
			expAsc = c04History(content, key, 0, false, 1000)
			expDesc = c04History(content, key, 0, true, 1000)
		}
		r.Count("index-oracle.keys")
		if n := len(content[string(key)]); n > 1 {
			r.Count("index-oracle.keys-with-history")
		}
		// Get
		vr, gerr := st.Get(context.Background(), key)
		got := c04Err(gerr)
		if gerr == nil {
			got = c04RefOf(vr)
		}
		switch {
		case got != expGet && isReadErr(got):
			report(readErrSig, fmt.Sprintf("Get(%s): %s, the recovered log says %s (acked max %d): the recovered index cannot read its own data", key, got, expGet, ackedMax))
		case got != expGet:
			report("C03:recovery:index-inconsistent", fmt.Sprintf("Get(%s) = %s, the recovered log says %s (tx:revision:len:hash:md)", key, got, expGet))
		case gerr == nil:
			v, rerr := vr.Resolve()
			if rerr != nil || !bytes.Equal(v, vals[vr.Tx()][string(key)]) {
				report("C03:recovery:index-inconsistent", fmt.Sprintf("Get(%s) = tx %d resolves to a different value than the one tx %d wrote (resolve err %v)", key, vr.Tx(), vr.Tx(), rerr))
			}
		}
		// History, both directions
		for _, desc := range []bool{false, true} {
			exp := expAsc
			if desc {
				exp = expDesc
			}
			vs, hc, herr := st.History(key, 0, desc, 1000)
			gotH := fmtHist(vs, hc, herr)
			switch {
			case gotH != exp && isReadErr(gotH):
				report(readErrSig, fmt.Sprintf("History(%s, desc=%v): %s, the recovered log says %s: the recovered index cannot read its own data", key, desc, gotH, exp))
			case gotH != exp:
				report("C03:recovery:index-inconsistent:history-differs-from-log", fmt.Sprintf("History(%s, desc=%v) = [%s], the recovered log says [%s] (count then tx:revision:len:hash:md per version)", key, desc, gotH, exp))
			case herr == nil:
				for _, v := range vs {
					b, rerr := v.Resolve()
					if rerr != nil || !bytes.Equal(b, vals[v.Tx()][string(key)]) {
						report("C03:recovery:index-inconsistent:history-differs-from-log", fmt.Sprintf("History(%s): revision %d (tx %d) resolves to a different value than the one that tx wrote (resolve err %v)", key, v.HC(), v.Tx(), rerr))
						break
					}
				}
			}
		}
	}
	// full scan with history of every index
	for i, d := range defs {
		real, err := realDump(st, d.Tgt, upto, 100000)
		switch {
		case err != nil:
			report(readErrSig, fmt.Sprintf("history scan of index %q: %v: the recovered index cannot read its own data", d.Tgt, err))
		case !c04ContentEq(real, ref.idx[i]):
			report("C03:recovery:index-inconsistent:scan-differs-from-log", fmt.Sprintf("history scan of index %q: %d keys / %d versions, the recovered log gives %d keys / %d versions (or different versions)",
				d.Tgt, len(real), c03NVersions(real), len(ref.idx[i]), c03NVersions(ref.idx[i])))
		}
		r.Count("index-oracle.scans")
	}
	if nFail == 0 {
		r.Count("index-oracle.images-consistent")
	}
}

func c03NVersions(c c04Content) int {
	n := 0
	for _, v := range c {
		n += len(v)
	}
	return n
}

// ---------------------------------------------------------------------------------------------
// measurement + tie of the commit-log walk

type c03IdxSnap struct {
	Synced     bool
	IniN, FinN int64
	RootSize   int
	IniH, FinH int64
	FieldsOK   bool // cLogEntry.isValid()
	NOK, HOK   bool // the range is completely in the file and has the recorded checksum
}

func (s c03IdxSnap) valid() bool { return s.FieldsOK && s.NOK && s.HOK }

// rangeSum mirrors appendable.Checksum on the image: ok=false when the range is not completely readable
func c03RangeSum(f *crashfs.ImgFile, off, n int64) (sum [32]byte, ok bool) {
	if n == 0 {
		return sha256.Sum256(nil), true
	}
	if f == nil || off < 0 || n < 0 || off+n > int64(len(f.Content)) {
		return sum, false
	}
	for i := off; i < off+n && i < int64(len(f.Mask)); i++ {
		if f.Mask[i] == 0 {
			return sum, false
		}
	}
	return sha256.Sum256(f.Content[off : off+n]), true
}

// c03ParseIdxCommit: the snapshots recorded in the index commit log of an image (oldest first), validated by the harness
// itself against the nodes / history logs of the same image
func c03ParseIdxCommit(img *crashfs.Image, dir string) (snaps []c03IdxSnap, partial bool, ok bool) {
	cf := img.Files[dir+"/commit"]
	if cf == nil {
		return nil, false, false
	}
	for _, x := range cf.Mask {
		if x == 0 {
			return nil, false, false // holes in the commit log itself: not modelled
		}
	}
	nf, hf := img.Files[dir+"/nodes"], img.Files[dir+"/history"]
	c := cf.Content
	partial = len(c)%c03IdxCLogEntry != 0
	for o := 0; o+c03IdxCLogEntry <= len(c); o += c03IdxCLogEntry {
		b := append([]byte{}, c[o:o+c03IdxCLogEntry]...)
		var s c03IdxSnap
		s.Synced = b[0]&0x80 == 0
		b[0] &= 0x7f
		s.IniN = int64(binary.BigEndian.Uint64(b[0:]))
		s.FinN = int64(binary.BigEndian.Uint64(b[8:]))
		s.RootSize = int(binary.BigEndian.Uint32(b[16:]))
		var nSum, hSum [32]byte
		copy(nSum[:], b[20:52])
		s.IniH = int64(binary.BigEndian.Uint64(b[52:]))
		s.FinH = int64(binary.BigEndian.Uint64(b[60:]))
		copy(hSum[:], b[68:100])
		s.FieldsOK = s.IniN <= s.FinN && s.RootSize > 0 && int64(s.RootSize) <= s.FinN && s.IniH <= s.FinH
		if s.FieldsOK {
			if sum, ok := c03RangeSum(nf, s.IniN, s.FinN-s.IniN); ok && sum == nSum {
				s.NOK = true
			}
			if sum, ok := c03RangeSum(hf, s.IniH, s.FinH-s.IniH); ok && sum == hSum {
				s.HOK = true
			}
		}
		snaps = append(snaps, s)
	}
	return snaps, partial, true
}

// c03RealSelected: the number of snapshots the real OpenWith kept for the index in dir, read off the storage ops of the
// recovery: OpenWith ends with hLog.SetOffset(committedHLogSize) directly followed by cLog.SetOffset(committedLogSize).
// ok=false: OpenWith failed on this index (the folders were discarded and the index is rebuilt) or the pattern is absent.
func c03RealSelected(recLog []crashfs.Op, dir string) (k int, hOff int64, ok bool) {
	var prev *crashfs.Op
	for i := range recLog {
		op := &recLog[i]
		if op.Kind == crashfs.KMark && op.Note == "opened" {
			break
		}
		if !strings.HasPrefix(op.File, dir+"/") {
			continue
		}
		if op.Kind == crashfs.KRemove {
			return 0, 0, false
		}
		if op.Kind == crashfs.KSetOffset && op.File == dir+"/commit" && prev != nil && prev.Kind == crashfs.KSetOffset && prev.File == dir+"/history" {
			return int(op.Off / c03IdxCLogEntry), prev.Off, true
		}
		prev = op
	}
	return 0, 0, false
}

func c03Depth(lineage string) int { return strings.Count(lineage, "-> crash@") + 1 }

// c03IndexMeasure: counters about what the crash image did to the index logs, and the correspondence line of the walk.
// Returns the number of bytes of the index logs that lie past the logical ends the real recovery set (they stay in the files
// as stale bytes during the next life).
func c03IndexMeasure(r *hx.Result, run *c03Run, state *crashfs.State, img *crashfs.Image, ch c03Choice, obs *c03Obs) (staleTail [3]int) {
	pend := state.Pending()
	for _, dir := range c03IdxDirs(run.Cfg) {
		// how the un-fsynced writes of the three logs fared
		fate := map[string]string{}
		anyPending := false
		for _, l := range []string{"nodes", "history", "commit"} {
			p := pend[dir+"/"+l]
			if len(p) == 0 {
				continue
			}
			anyPending = true
			sv, has := ch.Surv[dir+"/"+l]
			switch {
			case ch.All || (has && sv.Segs >= len(p)):
				fate[l] = "all"
			case !has || (sv.Segs == 0 && sv.Torn == 0):
				fate[l] = "none"
			default:
				fate[l] = "part"
			}
		}
		if !anyPending {
			r.Count("index.images.no-unsynced-index-writes")
			continue
		}
		r.Count("index.images.with-unsynced-index-writes")
		r.Count(fmt.Sprintf("index.images.life=%d", c03Depth(run.Lineage)))
		distinct := map[string]bool{}
		for _, f := range fate {
			distinct[f] = true
		}
		if len(distinct) > 1 || distinct["part"] {
			r.Count("index.images.torn-across-index-logs")
		}
		if (fate["history"] == "none" || fate["history"] == "part") && fate["nodes"] == "all" && fate["commit"] == "all" {
			r.Count("index.images.history-writes-lost.nodes-and-commit-kept")
		}
		if fate["commit"] == "none" && (fate["history"] == "all" || fate["nodes"] == "all") {
			r.Count("index.images.commit-entries-lost.data-kept(stale-tail-after-recovery)")
		}
		if n := len(pend[dir+"/commit"]); n > 0 {
			if n > 4 {
				n = 4
			}
			r.Count(fmt.Sprintf("index.unsynced-snapshots-at-crash=%d%s", n, map[bool]string{true: "+", false: ""}[n == 4]))
		}
		snaps, partial, ok := c03ParseIdxCommit(img, dir)
		if !ok {
			r.Count("index.walk.not-evaluated(commit-log-absent-or-with-holes)")
			continue
		}
		// the window of the walk: from the newest entry down to the newest valid fsynced one
		lo := 0
		for i := len(snaps) - 1; i >= 0; i-- {
			if snaps[i].valid() && snaps[i].Synced {
				lo = i
				break
			}
		}
		nUnsynced, withHist, noHist, invalid, validAboveInvalid := 0, 0, 0, 0, false
		seenInvalid := false
		for i := lo; i < len(snaps); i++ {
			s := snaps[i]
			if !s.Synced {
				nUnsynced++
			}
			if s.FieldsOK && s.FinH > s.IniH {
				withHist++
			} else if s.FieldsOK {
				noHist++
			}
			if !s.valid() {
				invalid++
				seenInvalid = true
			} else if seenInvalid {
				validAboveInvalid = true
			}
		}
		if withHist > 0 && noHist > 0 {
			r.Count("index.walk.window-has-snapshots-with-and-without-history-append")
		}
		if invalid > 0 {
			r.Count("index.walk.window-has-invalid-snapshot")
		}
		if validAboveInvalid {
			r.Count("index.walk.valid-snapshot-above-an-invalid-one")
		}
		// stale / unreferenced bytes past the end of the newest snapshot on disk
		if len(snaps) > 0 {
			last := snaps[len(snaps)-1]
			if f := img.Files[dir+"/history"]; f != nil && last.FieldsOK && int64(len(f.Content)) > last.FinH {
				r.Count("index.images.history-log-longer-than-newest-snapshot-says")
			}
		}
		if run.Base != nil {
			if f := run.Base.Files[dir+"/history"]; f != nil {
				if bs, _, ok := c03ParseIdxCommit(run.Base, dir); ok {
					// the life started from an image whose history log was longer than what its recovered snapshot covered
					sel := int64(0)
					for i := range bs {
						if bs[i].valid() {
							sel = bs[i].FinH
						} else {
							break
						}
					}
					if int64(len(f.Content)) > sel {
						r.Count("index.images.life-started-with-stale-history-tail")
					}
				}
			}
		}
		if obs == nil || obs.OpenErr != "" {
			continue
		}
		k, hOff, got := c03RealSelected(obs.RecLog, dir)
		if !got {
			r.Count("index.walk.real-recovery-rebuilt-the-index-or-pattern-absent")
			continue
		}
		if f := img.Files[dir+"/history"]; f != nil && int64(len(f.Content)) > hOff {
			staleTail[0] += len(f.Content) - int(hOff)
		}
		if f := img.Files[dir+"/commit"]; f != nil && len(f.Content) > k*c03IdxCLogEntry {
			staleTail[2] += len(f.Content) - k*c03IdxCLogEntry
		}
		if f := img.Files[dir+"/nodes"]; f != nil && k > 0 && k <= len(snaps) && int64(len(f.Content)) > snaps[k-1].FinN {
			staleTail[1] += len(f.Content) - int(snaps[k-1].FinN)
		}
		// tie: the model's walk over (synced, valid) per entry must select the same number of snapshots
		toks := make([]string, len(snaps))
		for i, s := range snaps {
			toks[i] = b01(s.Synced) + b01(s.valid())
		}
		line := "c03 idxwalk"
		if len(toks) > 0 {
			line += " " + strings.Join(toks, " ")
		}
		r.Corr(line, fmt.Sprint(k))
		r.Count("index.walk.predictions")
		_ = partial
		if k < len(snaps) {
			r.Count("index.walk.recovery-discarded-snapshots")
		}
		for i := 0; i < k && i < len(snaps); i++ {
			if i >= lo && !snaps[i].valid() {
				r.Count("index.walk.selected-snapshot-above-a-non-intact-one")
				if os.Getenv("VERIF_C03_DEBUG") == "walk" {
					fmt.Fprintf(os.Stderr, "DEBUG selected-above-non-intact: failed=%v choice=%s\n", obs.Failed, ch.Name)
					c03IndexDebug(run, img, obs)
				}
				break
			}
		}
	}
	for i, l := range []string{"history", "nodes", "commit"} {
		if staleTail[i] > 0 {
			r.Count("index.images.recovery-leaves-stale-bytes-past-the-logical-end." + l)
		}
	}
	return staleTail
}

// ---------------------------------------------------------------------------------------------
// lives of a directory: workload, crash, workload on the crash image, crash, ...

func c03IdxLifeConfigs(rng *hx.Rng, thorough bool) []c03Cfg {
	base := c03Cfg{FileSize: 1 << 20, WriteBuf: 4096, MaxActive: 8, AhtSyncThld: 1000, AhtWriteBuf: 4096, IdxFlush: 1, IdxSync: 1 << 30, IOConc: 1,
		Committers: 1, NTx: 6, HdrVersion: 1, KeySpace: 24, MaxVal: 24, IdxHeavy: true, FreshPct: 40, IdxBulk: 1, IdxPoints: true}
	mk := func(name string, f func(c *c03Cfg)) c03Cfg {
		c := base
		c.Name = name
		f(&c)
		return c
	}
	cfgs := []c03Cfg{
		mk("idx-lives-flush-every-tx", func(c *c03Cfg) {}),
		mk("idx-lives-flush-on-demand", func(c *c03Cfg) { c.IdxFlush = 1 << 20 }),
		mk("idx-lives-multi-index", func(c *c03Cfg) { c.MultiIdx = true; c.KeySpace = 30; c.FreshPct = 35; c.CleanClose = true }),
		mk("idx-lives-embedded-bulk", func(c *c03Cfg) { c.Embedded = true; c.HdrVersion = 0; c.IdxBulk = 3; c.IdxFlush = 2 }),
		mk("idx-lives-few-keys", func(c *c03Cfg) { c.KeySpace = 8; c.FreshPct = 30; c.IdxFlush = 1 << 20 }),
		mk("idx-lives-sync-now-and-then", func(c *c03Cfg) { c.IdxSync = 7; c.IdxFlush = 1 }),
	}
	if thorough {
		cfgs = append(cfgs,
			mk("idx-lives-updates-mostly", func(c *c03Cfg) { c.FreshPct = 20; c.KeySpace = 16; c.IdxFlush = 2 }),
			mk("idx-lives-multi-index-on-demand", func(c *c03Cfg) { c.MultiIdx = true; c.KeySpace = 30; c.IdxFlush = 1 << 20; c.FreshPct = 45 }),
			mk("idx-lives-fresh-mostly", func(c *c03Cfg) { c.FreshPct = 60; c.IdxFlush = 1 << 20; c.NTx = 7 }))
	}
	if thorough {
		for i := 0; i < 12; i++ {
			cfgs = append(cfgs, mk(fmt.Sprintf("idx-lives-random-%d", i), func(c *c03Cfg) {
				c.Embedded = rng.Chance(30)
				if c.Embedded {
					c.HdrVersion = 0
				}
				c.MultiIdx = rng.Chance(35)
				c.KeySpace = []int{8, 16, 24, 30}[rng.Intn(4)]
				if c.MultiIdx {
					c.KeySpace = 30
				}
				c.FreshPct = 20 + rng.Intn(50)
				c.IdxFlush = []int{1, 2, 3, 1 << 20}[rng.Intn(4)]
				c.IdxSync = []int{5, 9, 1 << 30, 1 << 30}[rng.Intn(4)]
				c.IdxBulk = 1 + rng.Intn(4)
				c.NTx = 5 + rng.Intn(6)
				c.FileSize = []int{2048, 1 << 20, 1 << 20}[rng.Intn(3)]
				if c.IdxFlush > c.IdxSync {
					c.IdxFlush = c.IdxSync // tbtree: FlushThld must be lower or equal to SyncThld
				}
			}))
		}
	}
	return cfgs
}

// c03IndexLives runs, for every configuration, a chain of lives on one directory.
func c03IndexLives(r *hx.Result, rng *hx.Rng, thorough bool, deadline time.Time) c03Stats {
	var tot c03Stats
	cfgs := c03IdxLifeConfigs(rng.Fork(), thorough)
	depth, branch := 3, 2
	if thorough {
		depth = 4
	}
	start := time.Now()
	type node struct {
		base     *crashfs.Image
		inherit  map[uint64]*c03Tx
		universe map[[32]byte]bool
		lineage  string
		life     int
	}
	for ci, cfg0 := range cfgs {
		if time.Now().After(deadline) {
			r.Count("idx-lives.trees-skipped-by-time-budget")
			continue
		}
		// every tree of lives gets its share of what is left; lives are run breadth first so that a short budget cuts the
		// deepest level first
		dl := time.Now().Add(time.Until(deadline) / time.Duration(len(cfgs)-ci))
		crg := rng.Fork()
		queue := []node{{lineage: cfg0.Name, life: 1}}
		planned := 0
		for l, n := 1, 1; l <= depth; l, n = l+1, n*branch {
			planned += n
		}
		done := 0
		for len(queue) > 0 {
			nd := queue[0]
			queue = queue[1:]
			if nd.life > 1 && time.Now().After(dl) {
				r.Count("idx-lives.lives-skipped-by-time-budget")
				continue
			}
			cfg := cfg0
			if nd.life > 1 {
				// options that are not persisted may differ from life to life
				cfg.NTx = 3 + crg.Intn(3)
				if crg.Chance(50) {
					cfg.IdxFlush = []int{1, 2, 1 << 20}[crg.Intn(3)]
				}
				if crg.Chance(30) {
					cfg.IdxBulk = 1 + crg.Intn(3)
				}
				if cfg.IdxFlush > cfg.IdxSync {
					cfg.IdxFlush = cfg.IdxSync // tbtree: FlushThld must be lower or equal to SyncThld
				}
			}
			r.NextCase()
			r.Count("workload.idx-lives")
			r.Count(fmt.Sprintf("idx-lives.life=%d", nd.life))
			run, err := c03Workload(r, crg.Fork(), cfg, nd.base, nd.inherit, nd.universe, nd.lineage)
			if err != nil {
				r.Fail("C03:recovery:open-fails", err.Error(), map[string]interface{}{"lineage": nd.lineage, "cfg": cfg.String()})
				continue
			}
			if len(run.Notes) > 0 {
				r.Notes = append(r.Notes, cfg.Name+": "+strings.Join(run.Notes, "; "))
			}
			r.CountN("workload.storage-ops", len(run.Log))
			c03CountIdxFlushes(r, run)
			var lives []c03Picked
			ldl := time.Now().Add(time.Until(dl) / time.Duration(planned-done))
			done++
			s := c03EnumerateL(r, crg.Fork(), run, false, 1, 1, 0, ldl, nil, nil, &lives)
			r.CountN("idx-lives.images-opened", s.Opened)
			tot.Points += s.Points
			tot.Images += s.Images
			tot.Opened += s.Opened
			tot.Dups += s.Dups
			if nd.life >= depth {
				continue
			}
			if len(lives) == 0 {
				r.Count("idx-lives.branch-ends.no-image-to-continue-from")
				continue
			}
			// the next lives start from crash images of this one: mostly from one of those in which the recovery left the most
			// bytes of one of the three index logs (chosen at random) past the logical end it set (they are stale bytes under
			// the writes of the next life), otherwise from any
			for b := 0; b < branch; b++ {
				pool := lives
				if crg.Chance(75) {
					w := crg.Intn(3)
					sort.SliceStable(lives, func(i, j int) bool { return lives[i].StaleTail[w] > lives[j].StaleTail[w] })
					n := (len(lives) + 5) / 6
					if lives[n-1].StaleTail[w] > 0 {
						pool = lives[:n]
						r.Count("idx-lives.next-life-from-an-image-with-a-long-stale-tail." + []string{"history", "nodes", "commit"}[w])
					}
				}
				p := pool[crg.Intn(len(pool))]
				queue = append(queue, node{base: p.Img, inherit: p.Acked, universe: p.Universe, lineage: p.Lineage + " -> workload", life: nd.life + 1})
			}
		}
	}
	r.Extra["idx_lives_trees"] = len(cfgs)
	r.Extra["idx_lives_seconds"] = time.Since(start).Seconds()
	return tot
}

// c03IndexPattern: what the recovery of the indexes will see on this image, as far as the harness can tell without opening it:
// per index the (synced, valid) sequence of the commit entries, whether the last entry is partial, and for every entry whether
// the nodes / history files are long enough to hold its ranges (valid or not).  Two images of the same crash point with the
// same pattern and the same fate of the principal logs differ only in bytes no snapshot covers.
func c03IndexPattern(cfg c03Cfg, img *crashfs.Image) string {
	var sb strings.Builder
	for _, dir := range c03IdxDirs(cfg) {
		snaps, partial, ok := c03ParseIdxCommit(img, dir)
		fmt.Fprintf(&sb, "%s:%v:%v:", dir, ok, partial)
		var nl, hl int64
		if f := img.Files[dir+"/nodes"]; f != nil {
			nl = int64(len(f.Content))
		}
		if f := img.Files[dir+"/history"]; f != nil {
			hl = int64(len(f.Content))
		}
		for _, sn := range snaps {
			sb.WriteString(b01(sn.Synced) + b01(sn.valid()) + b01(sn.FieldsOK && sn.FinN <= nl) + b01(sn.FieldsOK && sn.FinH <= hl) + ".")
		}
		sb.WriteString(";")
	}
	return sb.String()
}

// c03CountIdxFlushes: index snapshots written by the workload, by kind
func c03CountIdxFlushes(r *hx.Result, run *c03Run) {
	hist := map[string]bool{} // index dir -> history appended since the last commit entry
	for i := range run.Log {
		op := &run.Log[i]
		if op.Kind != crashfs.KAppend && op.Kind != crashfs.KSync {
			continue
		}
		l := c03IdxLogOf(op.File)
		dir := strings.TrimSuffix(op.File, "/"+l)
		switch {
		case l == "history" && op.Kind == crashfs.KAppend:
			hist[dir] = true
		case l == "commit" && op.Kind == crashfs.KAppend && op.Len == c03IdxCLogEntry:
			if hist[dir] {
				r.Count("idx-flushes.snapshots-with-history-append")
			} else {
				r.Count("idx-flushes.snapshots-without-history-append")
			}
			hist[dir] = false
		case l == "commit" && op.Kind == crashfs.KSync:
			r.Count("idx-flushes.fsynced")
		}
	}
}

// c03IndexDebug (VERIF_C03_DEBUG): the index commit logs of the failing image and of the image the life started from
func c03IndexDebug(run *c03Run, img *crashfs.Image, obs *c03Obs) {
	dump := func(tag string, im *crashfs.Image) {
		if im == nil {
			return
		}
		for _, dir := range c03IdxDirs(run.Cfg) {
			snaps, partial, ok := c03ParseIdxCommit(im, dir)
			fmt.Fprintf(os.Stderr, "DEBUG %s %s: ok=%v partial=%v sizes nodes=%d history=%d commit=%d\n", tag, dir, ok, partial,
				len(im.Files[dir+"/nodes"].Content), len(im.Files[dir+"/history"].Content), len(im.Files[dir+"/commit"].Content))
			for i, s := range snaps {
				fmt.Fprintf(os.Stderr, "DEBUG   #%d synced=%v N[%d,%d) root=%d H[%d,%d) fields=%v nOK=%v hOK=%v\n", i+1, s.Synced, s.IniN, s.FinN, s.RootSize, s.IniH, s.FinH, s.FieldsOK, s.NOK, s.HOK)
			}
		}
	}
	fmt.Fprintf(os.Stderr, "DEBUG ---- %s\n", run.Lineage)
	dump("base", run.Base)
	dump("image", img)
	for _, dir := range c03IdxDirs(run.Cfg) {
		k, h, ok := c03RealSelected(obs.RecLog, dir)
		fmt.Fprintf(os.Stderr, "DEBUG real recovery of %s: selected=%d hOff=%d ok=%v\n", dir, k, h, ok)
	}
	for _, op := range obs.RecLog {
		if fileClass(op.File) == "index" {
			fmt.Fprintf(os.Stderr, "DEBUG   rec %s\n", op.String())
		}
	}
	for _, op := range run.Log {
		if fileClass(op.File) == "index" || op.Kind == crashfs.KMark {
			fmt.Fprintf(os.Stderr, "DEBUG   life %s", op.String())
			if op.Kind == crashfs.KAppend && c03IdxLogOf(op.File) == "history" {
				fmt.Fprintf(os.Stderr, " %x", op.Data)
			}
			fmt.Fprintln(os.Stderr)
		}
	}
	for _, dir := range c03IdxDirs(run.Cfg) {
		fmt.Fprintf(os.Stderr, "DEBUG image history of %s: %x\n", dir, img.Files[dir+"/history"].Content)
	}
}
