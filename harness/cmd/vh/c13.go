package main

// C13 — SQL transactions are atomic and isolated, incl. rollback and savepoints.
//
// Transaction programs (BEGIN TRANSACTION … COMMIT / ROLLBACK, statement failures mid-transaction,
// SAVEPOINT / ROLLBACK TO SAVEPOINT / RELEASE SAVEPOINT, abandoned sessions) run on the real engine
// through Engine.Exec with an explicit *SQLTx and through Engine.ExecPreparedStmts, 1..4
// deterministically interleaved sessions incl. read-only ones.
// ORACLE: a Go reference interpreter with textbook semantics (savepoint = copy of the pending
// write set; ROLLBACK TO restores it and keeps the savepoint): after COMMIT the table equals the
// reference; after ROLLBACK / failed statement / failed COMMIT / closed session nothing is
// visible; inside a tx every statement sees the tx's own earlier changes on top of one fixed
// snapshot (checked through the primary and through every secondary index); no session ever
// sees uncommitted changes of another; affected-row counts and generated keys match.
//
// Two further parts run after these cases (added for seeded change c13-a): c13_ddl.go — DDL schedules
// (sessions with open empty / query-only / writing transactions while others commit DDL; a fresh session's
// view of catalog and rows after every commit vs a reference database) and c13_cache.go — catalog-cache
// schedules tied to the Lean model Sql/CatalogCache.lean.

import (
	"context"
	"fmt"
	"os"
	"strconv"
	"strings"

	"github.com/codenotary/immudb/embedded/sql"

	"verif/harness/internal/hx"
)

func init() { runners["C13"] = runC13 }

type c13SP struct {
	name    string
	pend    *refTable
	updated int
	lastPK  int64
	hasLast bool
}

type c13Session struct {
	id       int
	readOnly bool
	tx       *sql.SQLTx
	inTx     bool
	snap     *refTable // nil until the first statement touches the table
	pend     *refTable
	sps      []c13SP
	updated  int
	lastPK   int64
	hasLast  bool
	begunAt  int // commit counter when the snapshot was taken
	wrote    bool
	// known-finding taints of the open tx
	k1       bool // ROLLBACK TO SAVEPOINT executed after writes that followed the savepoint
	spGone   bool // a savepoint was rolled back to (the engine forgets it: second ROLLBACK TO fails)
	idxTaint bool
	autoT    bool
	dupSP    bool // a savepoint name was established twice in this tx
	relKeep  bool // RELEASE SAVEPOINT of a savepoint that had later ones (the engine keeps the later ones: ReleaseSavepoint deletes one map entry)
	delT     bool // a DELETE of this tx removed rows (Get still finds their keys: store RYOW defect)
	unknown  bool // reference no longer tracks the engine for this tx (after a classified finding)
	prog     []string
	engUpd   int // UpdatedRows() of the open tx after the last statement
}

func (s *c13Session) updatedEngine() int { return s.engUpd }

type c13Case struct {
	r       *hx.Result
	rng     *hx.Rng
	env     *sqlEnv
	sc      *sqlSchema
	ref     *refTable
	script  []string
	idxLive []sqlIdx
	commits int
	corr    bool
}

func (c *c13Case) log(s string) { c.script = append(c.script, s) }

func (c *c13Case) replay(detail string) c11Replay {
	sc := c.script
	if len(sc) > 160 {
		sc = append(append([]string{}, sc[:20]...), append([]string{fmt.Sprintf("… (%d lines omitted; rerun with the seed)", len(sc)-120)}, sc[len(sc)-100:]...)...)
	}
	return c11Replay{Script: append([]string{}, sc...), Detail: detail}
}

func (c *c13Case) fail(sig, desc string) { c.r.Fail(sig, desc, c.replay(desc)) }

// execute through Exec(text) or ParseSQL + ExecPreparedStmts
func (c *c13Case) exec(s *c13Session, q sqlText, prepared bool) sqlXRes {
	var res sqlXRes
	if prepared {
		res = c13ExecPrepared(c.env.eng, s.tx, q)
	} else {
		res = sqlExec(c.env.eng, s.tx, q)
	}
	st := "ok"
	if res.Err != "" {
		st = "ERR " + res.Err
	}
	api := ""
	if prepared {
		api = " (ExecPreparedStmts)"
	}
	c.log(fmt.Sprintf("[s%d] %s%s   => %s", s.id, q.String(), api, st))
	return res
}

func c13ExecPrepared(e *sql.Engine, tx *sql.SQLTx, q sqlText) (res sqlXRes) {
	defer func() {
		if p := recover(); p != nil {
			res = sqlXRes{Err: fmt.Sprintf("panic:%v", p)}
		}
	}()
	stmts, err := sql.ParseSQL(strings.NewReader(q.SQL))
	if err != nil {
		return sqlXRes{Err: "parse"}
	}
	ntx, ctxs, err := e.ExecPreparedStmts(context.Background(), tx, stmts, q.Params)
	res.Err = sqlErrClass(err)
	res.Tx = ntx
	res.Committed = len(ctxs)
	for _, cx := range ctxs {
		res.Updated += cx.UpdatedRows()
		res.LastPK = cx.LastInsertedPKs()
		res.FirstPK = cx.FirstInsertedPKs()
	}
	if ntx != nil {
		res.OpenUpd = ntx.UpdatedRows()
	}
	return res
}

func (s *c13Session) cause() string {
	switch {
	case s.k1:
		return ":rollback-to-savepoint-keeps-writes"
	case s.delT:
		return ":row-deleted-earlier-in-same-tx"
	case s.autoT:
		return ":explicit-autoincrement-key-in-same-tx"
	case s.idxTaint:
		return ":secondary-index-view-in-tx"
	}
	return ""
}

func (s *c13Session) reset() {
	s.tx, s.inTx, s.snap, s.pend, s.sps = nil, false, nil, nil, nil
	s.updated, s.lastPK, s.hasLast, s.wrote = 0, 0, false, false
	s.k1, s.spGone, s.idxTaint, s.autoT, s.unknown, s.delT = false, false, false, false, false, false
	s.prog, s.engUpd, s.dupSP, s.relKeep = nil, 0, false, false
}

func (c *c13Case) touch(s *c13Session) {
	if s.snap == nil {
		s.snap = c.ref.clone()
		s.pend = c.ref.clone()
		s.begunAt = c.commits
	}
}

// what the session must see inside its tx
func (c *c13Case) checkView(s *c13Session, where string) {
	if s.unknown || s.pend == nil {
		return
	}
	r := c.r
	want := sqlQRes{Rows: s.pend.sorted()}
	idxs := append([]sqlIdx{{Cols: c.sc.PK}}, c.idxLive...)
	for k, ix := range idxs {
		got := sqlScan(c.env.eng, s.tx, c.sc, "t", ix.Cols)
		r.OracleChecks++
		r.Count("view.in-tx")
		if got.bag() != want.bag() {
			sig := "C13:intx:view-differs-from-own-writes-on-snapshot"
			cz := s.cause()
			if cz == "" && k > 0 {
				if c.commits > s.begunAt {
					cz = ":snapshot-not-fixed-across-indexes"
				} else if s.wrote {
					cz = ":secondary-index-view-in-tx"
				}
			}
			if cz == "" && c.commits > s.begunAt && len(c.idxLive) > 0 {
				cz = ":snapshot-not-fixed-across-indexes"
			}
			c.fail(sig+cz, fmt.Sprintf("%s: session %d inside its transaction scans t through (%s) and sees %s %s; its snapshot plus its own writes is %s", where, s.id, c.sc.colNames(ix.Cols), got.Err, sqlRowsShow(got.Rows, 10), sqlRowsShow(want.Rows, 10)))
			if cz != "" {
				s.unknown = true
			}
			return
		}
	}
}

// committed state as seen by an autocommit reader
func (c *c13Case) checkCommitted(where, sig string, cz string) bool {
	got := sqlScan(c.env.eng, nil, c.sc, "t", c.sc.PK)
	want := sqlQRes{Rows: c.ref.sorted()}
	c.r.OracleChecks++
	c.r.Eval(where+"|"+strconv.Itoa(len(got.Rows))+"|"+strconv.Itoa(c.r.Case())+"|"+strconv.Itoa(c.commits), len(got.Rows) > 0)
	if got.bag() != want.bag() {
		c.fail(sig+cz, fmt.Sprintf("%s: committed table = %s %s, reference = %s", where, got.Err, sqlRowsShow(got.Rows, 10), sqlRowsShow(want.Rows, 10)))
		c.resync()
		return false
	}
	for _, ix := range c.idxLive {
		s := sqlScan(c.env.eng, nil, c.sc, "t", ix.Cols)
		if s.bag() != got.bag() {
			c.fail("C13:commit:index-scan-differs-from-pk-scan", fmt.Sprintf("%s: through (%s): %s, through the primary key: %s", where, c.sc.colNames(ix.Cols), sqlRowsShow(s.Rows, 10), sqlRowsShow(got.Rows, 10)))
		}
	}
	return true
}

// the reference lost track (a finding was reported, or the outcome is C12's business): adopt the engine's state
func (c *c13Case) resync() {
	c.ref.rows = sqlScan(c.env.eng, nil, c.sc, "t", c.sc.PK).Rows
	if c.sc.autoInc() {
		if mx, ok := sqlEngineMaxPK(c.env.eng, "t"); ok {
			c.ref.maxPK = mx
		}
	}
}

// merge the session's writes into the committed reference
func (c *c13Case) mergeCommit(s *c13Session) {
	newRef := c.ref.clone()
	for _, row := range s.pend.rows {
		pk := s.pend.pkOf(row)
		at := s.snap.find(pk)
		if at < 0 || sqlRowTok(s.snap.rows[at]) != sqlRowTok(row) {
			if i := newRef.find(pk); i >= 0 {
				newRef.rows[i] = row
			} else {
				newRef.rows = append(newRef.rows, row)
			}
		}
	}
	for _, row := range s.snap.rows {
		pk := s.snap.pkOf(row)
		if s.pend.find(pk) < 0 {
			if i := newRef.find(pk); i >= 0 {
				newRef.rows = append(newRef.rows[:i], newRef.rows[i+1:]...)
			}
		}
	}
	if s.pend.maxPK > newRef.maxPK {
		newRef.maxPK = s.pend.maxPK
	}
	c.ref = newRef
}

func (c *c13Case) step(s *c13Session) {
	r, rng, sc := c.r, c.rng, c.sc
	prepared := rng.Intn(3) == 0
	do := dmlOpts{G: sqlGenOpts{BadValues: rng.Intn(4) == 0}, P: pexpOpts{Depth: 1}}
	corr := func(op, ans string) {
		if c.corr {
			c.r.Corr("c13 "+op, ans)
		}
	}
	ansOf := func(res sqlXRes, upd int) string {
		if res.Err != "" {
			return "err:" + res.Err
		}
		return "ok " + strconv.Itoa(upd)
	}
	if !s.inTx {
		// outside a transaction: autocommit statement, dirty-read probe, or BEGIN
		switch k := rng.Intn(10); {
		case k < 5:
			res := c.exec(s, sqlPlain("BEGIN TRANSACTION"), prepared)
			corr("begin", ansOf(res, 0))
			if res.Err == "" && res.Tx != nil {
				s.tx, s.inTx = res.Tx, true
				r.Count("op.begin")
				if sc.autoInc() {
					c.touch(s) // NewTx reads the primary index (auto-increment high-water mark)
				}
			}
		case k < 7 && !s.readOnly:
			d := sqlGenDML(rng, sc, do)
			txt := d.text(sc, "t", rng.U64())
			before := c.ref.clone()
			res := c.exec(s, txt, prepared)
			r.Count("op.autocommit")
			tmp := c.ref.clone()
			o := tmp.exec(d)
			corr("auto "+strings.Join(c12StmtToks(d), " "), ansOf(res, res.Updated))
			switch {
			case o.OrderDep:
				c.commits++
				c.resync()
			case res.Err != "":
				c.checkCommitted("after a failed autocommit statement", "C13:failed-stmt:left-trace", "")
			case o.Err == "":
				c.ref = tmp
				c.commits++
				c.checkCommitted("after an autocommit statement", "C13:commit:state-differs-from-reference", c13MultiRowCause(c, d))
			default:
				// accepted although the reference rejects (C12's business): resync
				c.commits++
				c.resync()
				_ = before
			}
		default:
			// an autocommit reader must see exactly the committed state (no dirty reads)
			c.checkCommitted(fmt.Sprintf("session %d reads outside a transaction", s.id), "C13:isolation:dirty-or-lost-read", "")
		}
		return
	}
	// inside a transaction
	k := rng.Intn(100)
	switch {
	case k < 45 && !s.readOnly: // DML
		d := sqlGenDML(rng, sc, do)
		txt := d.text(sc, "t", rng.U64())
		c.touch(s)
		res := c.exec(s, txt, prepared)
		r.Count("op.dml." + d.K)
		s.prog = append(s.prog, txt.SQL)
		delta := res.OpenUpd - s.updatedEngine()
		corr("stmt "+strings.Join(c12StmtToks(d), " "), ansOf(res, delta))
		if res.Err != "" {
			// statement failure aborts the whole transaction: nothing visible
			r.Count("op.dml.err." + res.Err)
			pred := s.pend.clone().exec(d)
			if pred.Err == "" && !pred.OrderDep && !s.unknown {
				cz := s.cause()
				if cz == "" && len(c.idxLive) > 0 && (s.wrote || c13WritesVacatedTuple(c, s, d)) {
					cz = ":secondary-index-view-in-tx"
				}
				if strings.Contains(res.Err, "non-transient key to transient") {
					res.Err, cz = "transient-key-clash", ""
				}
				c.fail("C13:stmt:spurious-failure:"+res.Err+cz, fmt.Sprintf("session %d: the statement is valid on the transaction's view but failed with %s: %s", s.id, res.Err, txt.String()))
			}
			s.reset()
			c.checkCommitted("after a statement failure aborted the transaction", "C13:rollback:left-trace", "")
			return
		}
		s.tx = res.Tx
		if !s.unknown {
			tmp := s.pend.clone()
			o := tmp.exec(d)
			if sc.autoInc() {
				for kk, ci := range d.Cols {
					if sc.Cols[ci].AutoInc {
						for _, row := range d.Rows {
							if !row[kk].null && row[kk].i > s.snap.maxPK {
								s.autoT = true
							}
						}
					}
				}
			}
			if len(c.idxLive) > 0 && (s.wrote || len(d.Rows) > 1 || d.K == "update" || d.K == "delete") {
				s.idxTaint = true
			}
			switch {
			case o.OrderDep || o.Err != "":
				s.unknown = true // accepted what the reference rejects: C12's business
			default:
				if d.K == "delete" && o.Updated > 0 {
					s.delT = true
				}
				s.pend = tmp
				s.updated += o.Updated
				if o.HasLast {
					s.lastPK, s.hasLast = o.LastPK, true
				}
				r.OracleChecks++
				if delta != o.Updated {
					c.fail("C13:counts:affected-rows-differ"+s.cause(), fmt.Sprintf("session %d: engine counts %d rows for the statement, reference %d: %s", s.id, delta, o.Updated, txt.String()))
				}
			}
		}
		s.wrote = true
		s.engUpd = res.OpenUpd
		if rng.Intn(2) == 0 {
			c.checkView(s, "after "+d.K)
		}
	case k < 60: // read
		c.touch(s)
		c.checkView(s, "read")
		r.Count("op.read")
	case k < 70 && !s.readOnly: // SAVEPOINT
		name := []string{"a", "b", "c"}[rng.Intn(3)]
		res := c.exec(s, sqlPlain("SAVEPOINT "+name), prepared)
		corr("savepoint "+name, ansOf(res, 0))
		r.Count("op.savepoint")
		if res.Err != "" {
			s.reset()
			return
		}
		s.tx = res.Tx
		for _, sp := range s.sps {
			if sp.name == name {
				s.dupSP = true
			}
		}
		var saved *refTable // nil: the transaction had not touched the table yet (no snapshot taken)
		if s.pend != nil {
			saved = s.pend.clone()
		}
		s.sps = append(s.sps, c13SP{name: name, pend: saved, updated: s.updated, lastPK: s.lastPK, hasLast: s.hasLast})
	case k < 80 && !s.readOnly: // ROLLBACK TO SAVEPOINT
		name := []string{"a", "b", "c"}[rng.Intn(3)]
		at := -1
		for i := len(s.sps) - 1; i >= 0; i-- {
			if s.sps[i].name == name {
				at = i
				break
			}
		}
		res := c.exec(s, sqlPlain("ROLLBACK TO SAVEPOINT "+name), prepared)
		corr("rollbackto "+name, ansOf(res, 0))
		r.Count("op.rollback-to")
		r.OracleChecks++
		if res.Err != "" {
			if at >= 0 && !s.unknown {
				cz := ""
				if s.spGone {
					cz = ":savepoint-destroyed-by-first-rollback-to"
				} else if s.dupSP {
					cz = ":duplicate-savepoint-name"
				}
				c.fail("C13:savepoint:rollback-to-existing-savepoint-fails"+cz, fmt.Sprintf("session %d: ROLLBACK TO SAVEPOINT %s fails with %s although the savepoint exists (and the failure aborts the transaction)", s.id, name, res.Err))
			}
			s.reset()
			c.checkCommitted("after a failed ROLLBACK TO SAVEPOINT aborted the transaction", "C13:rollback:left-trace", "")
			return
		}
		s.tx = res.Tx
		s.engUpd = res.OpenUpd // the engine restored its counters, whatever the reference thinks of the savepoint (the next statement's delta is relative to them)
		if at < 0 {
			if !s.unknown {
				cz := ""
				if s.spGone {
					cz = ":later-savepoints-survive-rollback-to"
				} else if s.relKeep {
					cz = ":later-savepoints-survive-release"
				}
				c.fail("C13:savepoint:rollback-to-unknown-savepoint-accepted"+cz, fmt.Sprintf("session %d: ROLLBACK TO SAVEPOINT %s succeeded but the reference has no such savepoint (an earlier ROLLBACK TO / RELEASE of an older savepoint must have destroyed it)", s.id, name))
			}
			s.unknown = true
			return
		}
		sp := s.sps[at]
		if sp.pend == nil && s.snap != nil {
			sp.pend = s.snap // the savepoint predates the snapshot: its state is the bare snapshot
		}
		if sp.pend != nil {
			if sqlQRes.bag(sqlQRes{Rows: sp.pend.rows}) != sqlQRes.bag(sqlQRes{Rows: s.pend.rows}) {
				s.k1 = true // writes after the savepoint exist: the engine keeps them (K1)
			}
			s.pend = sp.pend.clone()
		}
		s.updated, s.lastPK, s.hasLast = sp.updated, sp.lastPK, sp.hasLast
		s.sps = s.sps[:at+1] // textbook: later savepoints are destroyed, the named one stays
		s.spGone = true
		s.engUpd = res.OpenUpd
		c.checkView(s, "after ROLLBACK TO SAVEPOINT "+name)
	case k < 85 && !s.readOnly: // RELEASE
		name := []string{"a", "b", "c"}[rng.Intn(3)]
		at := -1
		for i := len(s.sps) - 1; i >= 0; i-- {
			if s.sps[i].name == name {
				at = i
				break
			}
		}
		res := c.exec(s, sqlPlain("RELEASE SAVEPOINT "+name), prepared)
		corr("release "+name, ansOf(res, 0))
		r.Count("op.release")
		if res.Err != "" {
			if at >= 0 && !s.spGone && !s.unknown {
				cz := ""
				if s.dupSP {
					cz = ":duplicate-savepoint-name"
				}
				c.fail("C13:savepoint:release-of-existing-savepoint-fails"+cz, fmt.Sprintf("session %d: RELEASE SAVEPOINT %s fails with %s although a savepoint of that name is still established (savepoints are kept in a map by name: a second SAVEPOINT with the same name replaces the first)", s.id, name, res.Err))
			}
			s.reset()
			c.checkCommitted("after a failed RELEASE SAVEPOINT aborted the transaction", "C13:rollback:left-trace", "")
			return
		}
		s.tx = res.Tx
		if at >= 0 {
			if at < len(s.sps)-1 {
				s.relKeep = true // textbook: the later savepoints are released with it; the engine keeps them
			}
			s.sps = s.sps[:at]
		} else {
			s.unknown = s.unknown || false
		}
	case k < 93: // COMMIT
		res := c.exec(s, sqlPlain("COMMIT"), prepared)
		r.Count("op.commit")
		if res.Err != "" {
			corr("commit", "err:"+res.Err)
			r.Count("op.commit.err." + res.Err)
			s.reset()
			c.checkCommitted("after a failed COMMIT", "C13:rollback:left-trace", "")
			return
		}
		corr("commit", "ok "+strconv.Itoa(res.Updated))
		cz := s.cause()
		unknown := s.unknown
		if s.snap != nil && !unknown {
			c.mergeCommit(s)
		}
		if s.wrote {
			c.commits++
		}
		if unknown {
			c.resync()
		} else {
			sig := "C13:commit:state-differs-from-reference"
			if s.k1 {
				sig = "C13:savepoint:rollback-to-keeps-writes"
			}
			ok := c.checkCommitted(fmt.Sprintf("after COMMIT of session %d", s.id), sig, c13K1Sig(cz))
			r.OracleChecks++
			if ok && res.Updated != s.updated {
				c.fail("C13:counts:affected-rows-differ"+cz, fmt.Sprintf("session %d: the committed transaction reports %d affected rows, the reference applied %d: %s", s.id, res.Updated, s.updated, strings.Join(s.prog, "; ")))
			}
			if ok && s.hasLast && sc.autoInc() {
				if got, has := res.LastPK["t"]; !has || got != s.lastPK {
					c.fail("C13:counts:last-inserted-pk-differs"+cz, fmt.Sprintf("session %d: the committed transaction reports last inserted pk %v, the reference %d", s.id, res.LastPK, s.lastPK))
				}
			}
		}
		s.reset()
	case k < 97: // ROLLBACK
		res := c.exec(s, sqlPlain("ROLLBACK"), prepared)
		corr("rollback", ansOf(res, 0))
		r.Count("op.rollback")
		s.reset()
		c.checkCommitted("after ROLLBACK", "C13:rollback:left-trace", "")
	default: // the session goes away
		if s.tx != nil {
			s.tx.Cancel()
		}
		c.log(fmt.Sprintf("[s%d] -- session closed (tx.Cancel)", s.id))
		corr("rollback", "ok 0")
		r.Count("op.session-closed")
		s.reset()
		c.checkCommitted("after a session was closed with an open transaction", "C13:rollback:left-trace", "")
	}
}

// R1 inside ONE statement (or across statements of the transaction): the statement writes, under key k, a tuple of a UNIQUE
// index that a row with another key held at the transaction's snapshot and that the transaction (this very statement
// included: a multi-row INSERT/UPSERT) has since changed or deleted. The old index entry is deprecated under a key without
// the primary key (deprecateIndexEntries), so the uniqueness lookup still finds it: spurious `key already exists`.
func c13WritesVacatedTuple(c *c13Case, s *c13Session, d *dml) bool {
	if s.snap == nil || s.pend == nil || len(d.Rows) == 0 {
		return false
	}
	after := s.pend.clone()
	if o := after.exec(d); o.Err != "" {
		return false
	}
	for _, ix := range c.idxLive {
		if !ix.Unique {
			continue
		}
		for _, row := range after.rows {
			pk := after.pkOf(row)
			if at := s.pend.find(pk); at >= 0 && sqlRowTok(s.pend.rows[at]) == sqlRowTok(row) {
				continue // not written by this statement
			}
			for _, old := range s.snap.rows {
				if sqlCmpTuple(s.snap.pkOf(old), pk) == 0 {
					continue
				}
				same := true
				for _, col := range ix.Cols {
					if sqlCmpVal(old[col], row[col]) != 0 {
						same = false
						break
					}
				}
				if same {
					return true // valid on the view ⇒ the old holder no longer has the tuple there: vacated inside this transaction
				}
			}
		}
	}
	return false
}

func c13K1Sig(cz string) string {
	if cz == ":rollback-to-savepoint-keeps-writes" {
		return "" // reported under its own signature below
	}
	return cz
}

func c13MultiRowCause(c *c13Case, d *dml) string {
	if len(c.idxLive) > 0 && (len(d.Rows) > 1 || d.K == "update" || d.K == "delete") {
		return ":secondary-index-view-in-tx"
	}
	return ""
}

func (c *c13Case) run(thorough bool) {
	r, rng := c.r, c.rng
	r.NextCase()
	env, err := sqlOpenEnv("c13")
	if err != nil {
		r.Inconclusive = append(r.Inconclusive, "cannot open store: "+err.Error())
		return
	}
	c.env = env
	defer env.close()
	o := sqlGenOpts{UniqueProb: 30, MaxIdx: 2}
	c.sc = sqlGenSchema(rng, "t", o)
	if rng.Intn(100) < 60 {
		c.sc.Idx = nil // atomicity, isolation and savepoints do not need secondary indexes
	}
	c.ref = &refTable{sc: c.sc}
	if res := sqlExec(env.eng, nil, sqlPlain(c.sc.createTable("t"))); res.Err != "" {
		r.Count("setup.err." + res.Err)
		return
	}
	c.log(c.sc.createTable("t"))
	for _, ix := range c.sc.Idx {
		if res := sqlExec(env.eng, nil, sqlPlain(c.sc.createIndex("t", ix))); res.Err == "" {
			c.idxLive = append(c.idxLive, ix)
			c.log(c.sc.createIndex("t", ix))
		}
	}
	nSess := 1 + rng.Intn(4)
	if rng.Intn(3) == 0 {
		nSess = 1
	}
	// Lean correspondence: single session, no secondary index (the in-tx index view is outside the model)
	c.corr = nSess == 1 && len(c.idxLive) == 0
	if c.corr {
		c.r.Corr("c13 tbl "+c12SchemaToks(c.sc, c.idxLive), "ok")
		r.Count("case.corr")
	}
	r.Count(fmt.Sprintf("case.sessions%d.idx=%v.autoinc=%v", nSess, len(c.idxLive) > 0, c.sc.autoInc()))
	sess := make([]*c13Session, nSess)
	for i := range sess {
		sess[i] = &c13Session{id: i, readOnly: nSess > 1 && i == nSess-1 && rng.Intn(2) == 0}
	}
	steps := 50 + rng.Intn(70)
	if thorough {
		steps *= 2
	}
	for st := 0; st < steps; st++ {
		c.step(sess[rng.Intn(nSess)])
	}
	for _, s := range sess {
		if s.tx != nil {
			s.tx.Cancel()
		}
	}
	c.checkCommitted("after all sessions were closed", "C13:rollback:left-trace", "")
	if len(r.Samples) < 3 {
		r.Sample(map[string]interface{}{"case": r.Case(), "script_head": c.script[:min(len(c.script), 14)], "lines": len(c.script)})
	}
}

// K1 probe: the program of DESIGN §9 K1, verbatim
func c13ProbeK1(r *hx.Result) {
	r.NextCase()
	env, err := sqlOpenEnv("c13k")
	if err != nil {
		return
	}
	defer env.close()
	prog := []string{
		"CREATE TABLE t (id INTEGER, PRIMARY KEY id)",
		"BEGIN TRANSACTION", "INSERT INTO t(id) VALUES (1)", "SAVEPOINT s", "INSERT INTO t(id) VALUES (2)", "ROLLBACK TO SAVEPOINT s", "COMMIT",
	}
	var tx *sql.SQLTx
	var script []string
	upd := -1
	for _, p := range prog {
		res := sqlExec(env.eng, tx, sqlPlain(p))
		tx = res.Tx
		script = append(script, p+" => "+map[bool]string{true: "ok", false: res.Err}[res.Err == ""])
		if p == "COMMIT" {
			upd = res.Updated
		}
	}
	q := sqlQuery(env.eng, nil, sqlPlain("SELECT id FROM t"))
	r.OracleChecks++
	r.Count("probe.k1")
	if q.Err == "" && len(q.Rows) == 2 {
		r.Fail("C13:savepoint:rollback-to-keeps-writes", fmt.Sprintf("BEGIN; INSERT 1; SAVEPOINT s; INSERT 2; ROLLBACK TO SAVEPOINT s; COMMIT => table holds %s (row 2 was written after the savepoint); the committed tx reports %d affected row(s)", sqlRowsShow(q.Rows, 4), upd), c11Replay{Script: script, Query: "SELECT id FROM t"})
	}
	// second ROLLBACK TO the same savepoint
	prog2 := []string{"BEGIN TRANSACTION", "SAVEPOINT s", "ROLLBACK TO SAVEPOINT s", "ROLLBACK TO SAVEPOINT s"}
	tx = nil
	last := ""
	for _, p := range prog2 {
		res := sqlExec(env.eng, tx, sqlPlain(p))
		tx = res.Tx
		last = res.Err
		script = append(script, p+" => "+map[bool]string{true: "ok", false: res.Err}[res.Err == ""])
	}
	r.OracleChecks++
	if last != "" {
		r.Fail("C13:savepoint:rollback-to-existing-savepoint-fails:savepoint-destroyed-by-first-rollback-to", "BEGIN; SAVEPOINT s; ROLLBACK TO SAVEPOINT s; ROLLBACK TO SAVEPOINT s => the second one fails with "+last+" and aborts the transaction (RollbackToSavepoint deletes the named savepoint)", c11Replay{Script: script})
	}
	if tx != nil {
		tx.Cancel()
	}
}

func runC13(r *hx.Result, rng *hx.Rng, thorough bool, replay string) error {
	if replay != "" {
		r.Rule = "replay of a recorded failure: the recorded SQL script executed again on a fresh store"
		return sqlReplay(r, replay)
	}
	rng = rng.Fork() // hx.NewRng(seed+1) is hx.NewRng(seed) shifted by one draw: fork once so that seeds give unrelated streams
	r.Rule = "evaluation = one committed/rolled back/aborted transaction (or autocommit statement) after which the committed table was compared with the reference interpreter; nontrivial = the table was non-empty"
	c13ProbeK1(r)
	cases := 40
	if thorough {
		cases = 400
	}
	part := os.Getenv("VERIF_C13_PART") // development aid: "ddl" runs only the DDL schedules, "cache" only the catalog-cache schedules, "ser" only the serial-order schedules
	if part != "" {
		cases = 0
	}
	for i := 0; i < cases; i++ {
		c := &c13Case{r: r, rng: rng.Fork()}
		c.run(thorough)
		if i%8 == 7 {
			if err := r.Flush(); err != nil {
				return err
			}
		}
	}
	// DDL schedules (c13_ddl.go): sessions with open (empty / read-only-so-far / writing) transactions while others commit DDL
	ddlRng, cacheRng := rng.Fork(), rng.Fork()
	serRng := rng.Fork()
	if part == "" || part == "ddl" {
		if err := runC13DDL(r, ddlRng, thorough); err != nil {
			return err
		}
	}
	// catalog-cache schedules tied to the Lean model Sql/CatalogCache.lean (c13_cache.go)
	if part == "" || part == "cache" {
		if err := runC13Cache(r, cacheRng, thorough); err != nil {
			return err
		}
	}
	// serial-order schedules over DML histories (c13_ser.go): the acknowledged transactions replayed in commit order
	if part == "" || part == "ser" {
		if err := runC13Ser(r, serRng, thorough); err != nil {
			return err
		}
	}
	for _, k := range []string{"op.begin", "op.commit", "op.rollback", "op.savepoint", "op.rollback-to", "op.release", "op.session-closed", "op.read", "view.in-tx", "case.corr"} {
		if r.Distribution[k] == 0 && part == "" {
			r.Inconclusive = append(r.Inconclusive, "generator never produced class "+k)
		}
	}
	r.Notes = append(r.Notes,
		"pkg/server/sessions/internal/transactions is a Go internal package: not importable from the harness module; the engine API (Exec with an explicit *SQLTx, ExecPreparedStmts) is what it wraps",
		"snapshot of a session = committed state at its first statement (at BEGIN for auto-increment tables: NewTx reads the primary index)")
	return nil
}
