package main

// C10 operations. Every operation is a text line (the same line the Lean driver receives, plus — for
// flush — two tokens the driver ignores); generators produce lines, `exec` parses a line, calls the real
// tbtree, queues the line for the model and evaluates the reference-map oracle. Replays re-`exec` the
// recorded lines of one case.

import (
	"bytes"
	"encoding/hex"
	"encoding/json"
	"errors"
	"fmt"
	"os"
	"strconv"
	"strings"
	"sync"
	"time"

	"github.com/codenotary/immudb/embedded/cache"
	"github.com/codenotary/immudb/embedded/tbtree"
	"github.com/prometheus/client_golang/prometheus"

	"verif/harness/internal/hx"
)

var _ = bytes.Compare

func unhex(s string) []byte {
	if s == "-" || s == "" {
		return nil
	}
	b, err := hex.DecodeString(s)
	if err != nil {
		return nil
	}
	return b
}

func atou(s string) uint64 { v, _ := strconv.ParseUint(s, 10, 64); return v }
func atoi(s string) int    { v, _ := strconv.Atoi(s); return v }

func kvtsTok(kvts []c10KVT) string {
	if len(kvts) == 0 {
		return "_"
	}
	ss := make([]string, len(kvts))
	for i, kv := range kvts {
		ss[i] = fmt.Sprintf("%s:%s:%d", hx.Hex(kv.K), hx.Hex(kv.V), kv.T)
	}
	return strings.Join(ss, ",")
}

func parseKvts(tok string) []c10KVT {
	if tok == "_" {
		return nil
	}
	var out []c10KVT
	for _, t := range strings.Split(tok, ",") {
		p := strings.Split(t, ":")
		if len(p) != 3 {
			continue
		}
		out = append(out, c10KVT{K: unhex(p[0]), V: unhex(p[1]), T: atou(p[2])})
	}
	return out
}

func (e *c10Env) open() error {
	t, err := tbtree.Open(e.dir, e.opts())
	if err != nil {
		return err
	}
	e.t = t
	return nil
}

func (e *c10Env) snapByName(tok string) *c10Snap {
	for _, s := range e.snaps {
		if fmt.Sprint(s.name) == tok {
			return s
		}
	}
	return nil
}

// liveDump reads the whole live tree through Get/History over the key universe.
func (e *c10Env) liveDump() string {
	var sb strings.Builder
	fmt.Fprintf(&sb, "ts=%d", e.t.Ts())
	for _, k := range e.uniSorted() {
		_, _, hc, err := e.t.Get(k)
		if err != nil {
			continue
		}
		tvs, _, err := e.t.History(k, 0, true, int(hc))
		if err != nil {
			sb.WriteString(";" + hx.Hex(k) + "=!" + c10Err(err))
			continue
		}
		sb.WriteString(";" + hx.Hex(k) + "=")
		for j, tv := range tvs {
			if j > 0 {
				sb.WriteByte('|')
			}
			fmt.Fprintf(&sb, "%s:%d", hx.Hex(tv.Value), tv.Ts)
		}
	}
	return sb.String()
}

// validBulk: is the bulk acceptable for the reference map at time `cur`? Returns the resolved entries.
func (e *c10Env) validBulk(kvts []c10KVT, cur uint64) ([]c10KVT, bool) {
	resolved := make([]c10KVT, len(kvts))
	valid := len(kvts) > 0
	for i, kv := range kvts {
		resolved[i] = kv
		if kv.T == 0 {
			resolved[i].T = cur + 1
		} else if kv.T <= cur {
			valid = false
		}
		if len(kv.K) == 0 || len(kv.V) == 0 || len(kv.K) > e.cfg.MaxKey || len(kv.V) > e.cfg.MaxVal {
			valid = false
		}
	}
	return resolved, valid
}

func (e *c10Env) execInsert(op string, kvts []c10KVT) {
	r := e.r
	cur := e.ref.Ts
	in := make([]*tbtree.KVT, len(kvts))
	for i, kv := range kvts {
		in[i] = &tbtree.KVT{K: kv.K, V: kv.V, T: kv.T}
		if len(kv.K) <= e.cfg.MaxKey {
			e.addUni(kv.K)
		}
	}
	err := e.t.BulkInsert(in)
	if c10Err(err) == "err:other" {
		r.Count("ins.err-other: " + trunc200(err.Error()))
	}
	implAns := c10Err(err)
	if err == nil {
		// tbtree publishes the depth of the tree after every bulk insert: compared with the B+tree model
		d := c10Depth(e.dir)
		e.maxDepth = max(e.maxDepth, d)
		e.curDepth = d
		implAns = fmt.Sprintf("ok %d", d)
	}
	e.corr(op, implAns)
	r.Count("ins.result." + e.lastKind + "." + c10Err(err))
	r.Eval("ins."+sizeBucket(len(kvts))+"."+c10Err(err), true)
	r.OracleChecks++
	resolved, valid := e.validBulk(kvts, cur)

	if err == nil {
		nref := e.ref.clone()
		if !valid || !nref.apply(resolved) {
			e.fail("C10:tbtree.BulkInsert:accepted-invalid-bulk", "BulkInsert returned nil for a bulk the reference map rejects: "+trunc200(op))
			e.tainted = true
			return
		}
		e.noteInsert(e.ref, resolved)
		e.ref = nref
		e.remember()
		if got := e.t.Ts(); got != e.ref.Ts {
			e.fail("C10:tbtree.BulkInsert:ts-differs-from-map", fmt.Sprintf("Ts()=%d after insert, reference %d", got, e.ref.Ts))
		}
		for i, kv := range resolved {
			if i > 8 {
				break
			}
			v, ts, hc, gerr := e.t.Get(kv.K)
			e.check("C10:tbtree.Get:differs-from-map-after-insert", "Get "+hx.Hex(kv.K), c10Fmt3(v, ts, hc, gerr), e.ref.get(kv.K))
		}
		return
	}
	if valid && e.ref.clone().apply(resolved) {
		sig := "C10:tbtree.BulkInsert:rejected-valid-bulk"
		if errors.Is(err, cache.ErrKeyNotFound) && !errors.Is(err, tbtree.ErrKeyNotFound) {
			sig = "C10:tbtree.BulkInsert:spurious-cache-key-not-found-from-multiapp"
		}
		e.fail(sig, "BulkInsert returned \""+err.Error()+"\" for a bulk the reference map accepts: "+trunc200(op))
	}
	// failed insert: the tree must be in a state it has been in before (unchanged, or rolled back to the
	// last flushed root — tbtree's documented behaviour)
	d := e.liveDump()
	if d == e.ref.dump() {
		r.Count("ins.failed.state-unchanged")
		return
	}
	if m, ok := e.past[d]; ok {
		r.Count("ins.failed.rolled-back-to-earlier-state(acknowledged inserts lost)")
		e.ref = m.clone()
		e.clean, e.armed = true, false // the root is the last flushed root again
		return
	}
	if d == "ts=0" && len(e.atOpen.Es) > 0 {
		e.fail("C10:tbtree.BulkInsert:failed-insert-after-reopen-empties-tree",
			fmt.Sprintf("a rejected BulkInsert (%s) left the tree EMPTY (Ts()=0) although %d keys were loaded at Open and no flush happened since (lastSnapRoot==nil ⇒ rollback to a fresh root)", c10Err(err), len(e.atOpen.Es)))
		e.ref = &c10Map{}
		e.tainted = true
		return
	}
	e.fail("C10:tbtree.BulkInsert:failed-insert-left-unknown-state", "after a rejected BulkInsert the tree equals none of its earlier states: "+trunc200(d))
	e.tainted = true
}

func (e *c10Env) execIncTs(op string, ts uint64) {
	cur := e.ref.Ts
	err := e.t.IncreaseTs(ts)
	e.corr(op, c10Err(err))
	e.r.Count("incts." + c10Err(err))
	e.r.Eval("incts."+c10Err(err), err == nil)
	e.r.OracleChecks++
	if (err == nil) != (ts > cur) {
		e.fail("C10:tbtree.IncreaseTs:wrong-verdict", fmt.Sprintf("IncreaseTs(%d) at ts %d returned %v", ts, cur, err))
	}
	if err == nil {
		e.ref = e.ref.clone()
		e.ref.Ts = ts
		e.remember()
		e.noteIncTs()
	}
	if got := e.t.Ts(); got != e.ref.Ts {
		e.fail("C10:tbtree.IncreaseTs:ts-differs-from-map", fmt.Sprintf("Ts()=%d, reference %d", got, e.ref.Ts))
	}
}

// Repaired defect (kept as a probe: the signature is reported again if it ever returns): leafValue.lastUpdateBetween
// bounded its loop over history-log BLOCKS by the number of VERSIONS; with a block of >1 versions and no own version
// in range it followed prevOff=0 into the block at offset 0 of the history log and returned another key's version
// (counter hCount-skipped, possibly 0 or wrapped).
const c10OverrunSig = "C10:tbtree.lastUpdateBetween:history-chain-overrun-returns-foreign-version"

// Known finding: Ts() is not preserved by close/reopen after a rollback to the loaded root (see DESIGN "C10 — as built").
const c10StaleTsSig = "C10:reopen:ts-restored-from-stale-timestamp-file-after-rollback"

func (m *c10Map) hasVersion(k, v []byte, ts uint64) bool {
	i, ok := m.idx(k)
	if !ok {
		return false
	}
	for _, tv := range m.Es[i].Vs {
		if tv.Ts == ts && bytes.Equal(tv.V, v) {
			return true
		}
	}
	return false
}

// onlyForeignRowsAdded: the implementation's rows are the wanted rows plus rows whose (value, ts) is not a
// version of their key at all
func (m *c10Map) onlyForeignRowsAdded(rows []string, want string) bool {
	wanted := map[string]bool{}
	if want != "_" {
		for _, w := range strings.Split(want, ",") {
			wanted[w] = true
		}
	}
	seen := 0
	for _, row := range rows {
		if wanted[row] {
			seen++
			continue
		}
		p := strings.Split(row, ":")
		if len(p) != 4 {
			return false
		}
		if m.hasVersion(unhex(p[0]), unhex(p[1]), atou(p[2])) {
			return false
		}
	}
	return seen == len(wanted)
}

type c10Getter interface {
	Get(key []byte) ([]byte, uint64, uint64, error)
	GetBetween(key []byte, initialTs, finalTs uint64) ([]byte, uint64, uint64, error)
	History(key []byte, offset uint64, descOrder bool, limit int) ([]tbtree.TimedValue, uint64, error)
	GetWithPrefix(prefix []byte, neq []byte) ([]byte, []byte, uint64, uint64, error)
}

func (e *c10Env) target(tok string) (c10Getter, *c10Map, string) {
	if tok == "t" {
		return e.t, e.ref, "tree"
	}
	if s := e.snapByName(tok); s != nil {
		return s.s, s.ref, "snapshot"
	}
	return nil, nil, ""
}

func c10HistStr(tvs []tbtree.TimedValue, n uint64, err error) string {
	if err != nil {
		return c10Err(err)
	}
	vs := make([]c10TV, len(tvs))
	for i, tv := range tvs {
		vs[i] = c10TV{V: tv.Value, Ts: tv.Ts}
	}
	return fmt.Sprintf("%s %d", c10FmtTvs(vs), n)
}

func errClassOf(impl string) string {
	if strings.HasPrefix(impl, "err:") {
		return impl
	}
	return "ok"
}

func (e *c10Env) execPoint(op string, f []string) {
	g, ref, where := e.target(f[1])
	if g == nil {
		return
	}
	switch f[0] {
	case "get":
		k := unhex(f[2])
		v, ts, hc, err := g.Get(k)
		impl := c10Fmt3(v, ts, hc, err)
		e.corr(op, impl)
		e.check("C10:tbtree.Get:differs-from-map", "Get("+where+") "+f[2], impl, ref.get(k))
		e.r.Eval("get."+where+"."+errClassOf(impl), err == nil)
	case "getbetween":
		k := unhex(f[2])
		t1, t2 := atou(f[3]), atou(f[4])
		v, ts, hc, err := g.GetBetween(k, t1, t2)
		impl := c10Fmt3(v, ts, hc, err)
		e.corr(op, impl)
		sig := "C10:tbtree.GetBetween:differs-from-map"
		if want := ref.getBetween(k, t1, t2); impl != want && want == "err:notfound" && err == nil && !ref.hasVersion(k, v, ts) {
			sig = c10OverrunSig
			e.r.Count("getbetween.history-chain-overrun")
		}
		e.check(sig, fmt.Sprintf("GetBetween(%s) %s %d %d", where, f[2], t1, t2), impl, ref.getBetween(k, t1, t2))
		e.r.Eval("getbetween."+where+"."+errClassOf(impl), err == nil)
	case "hist":
		k := unhex(f[2])
		off, desc, limit := atou(f[3]), f[4] == "1", atoi(f[5])
		tvs, n, err := g.History(k, off, desc, limit)
		impl := c10HistStr(tvs, n, err)
		e.corr(op, impl)
		e.check("C10:tbtree.History:differs-from-map", fmt.Sprintf("History(%s) %s off=%d desc=%v limit=%d", where, f[2], off, desc, limit), impl, ref.history(k, off, desc, limit))
		e.r.Eval(fmt.Sprintf("hist.%s.%s.rows%d", where, errClassOf(impl), min(len(tvs), 5)), err == nil)
	case "gwp":
		pfx, neq := unhex(f[2]), unhex(f[3])
		k, v, ts, hc, err := g.GetWithPrefix(pfx, neq)
		impl := c10Err(err)
		if err == nil {
			impl = fmt.Sprintf("%s %s %d %d", hx.Hex(k), hx.Hex(v), ts, hc)
		}
		e.corr(op, impl)
		e.check("C10:tbtree.GetWithPrefix:differs-from-map", fmt.Sprintf("GetWithPrefix(%s) %s neq=%s", where, f[2], f[3]), impl, ref.getWithPrefix(pfx, neq))
		e.r.Eval("gwp."+where+"."+errClassOf(impl), err == nil)
	}
}

// readAll drains a reader; rows until ErrNoMoreEntries ("!err:x" on any other error)
func c10ReadAll(rd *tbtree.Reader, between bool, t1, t2 uint64, capRows int) ([]string, string) {
	var rows []string
	for i := 0; ; i++ {
		var k, v []byte
		var ts, hc uint64
		var err error
		if between {
			k, v, ts, hc, err = rd.ReadBetween(t1, t2)
		} else {
			k, v, ts, hc, err = rd.Read()
		}
		if errors.Is(err, tbtree.ErrNoMoreEntries) {
			return rows, ""
		}
		if err != nil {
			return rows, "!" + c10Err(err)
		}
		rows = append(rows, c10Row(k, v, ts, hc))
		if i > capRows {
			return rows, "!endless"
		}
	}
}

// scan <snap> seek end pfx iseek iend hist desc off     |   scanb <snap> seek end pfx iseek iend desc off t1 t2
func (e *c10Env) execScan(op string, f []string) {
	sn := e.snapByName(f[1])
	if sn == nil {
		return
	}
	r := e.r
	between := f[0] == "scanb"
	s := c10Spec{Seek: unhex(f[2]), End: unhex(f[3]), Prefix: unhex(f[4]), ISeek: f[5] == "1", IEnd: f[6] == "1"}
	var t1, t2 uint64
	if between {
		s.Desc, s.Off = f[7] == "1", atou(f[8])
		t1, t2 = atou(f[9]), atou(f[10])
	} else {
		s.Hist, s.Desc, s.Off = f[7] == "1", f[8] == "1", atou(f[9])
	}
	rd, err := sn.s.NewReader(tbtree.ReaderSpec{SeekKey: s.Seek, EndKey: s.End, Prefix: s.Prefix, InclusiveSeek: s.ISeek,
		InclusiveEnd: s.IEnd, IncludeHistory: s.Hist, DescOrder: s.Desc, Offset: s.Off})
	var impl string
	var rows []string
	if err != nil {
		impl = c10Err(err)
	} else {
		var tail string
		rows, tail = c10ReadAll(rd, between, t1, t2, 200000)
		impl = c10Rows(rows)
		if tail != "" {
			impl += "," + tail
		}
	}
	e.corr(op, impl)
	var want string
	if between {
		want = sn.ref.scanBetween(s, e.cfg.MaxKey, t1, t2)
	} else {
		want = sn.ref.scan(s, e.cfg.MaxKey)
	}
	sig := "C10:tbtree.Reader:scan-differs-from-map"
	if between && impl != want && sn.ref.onlyForeignRowsAdded(rows, want) {
		sig = c10OverrunSig
		e.r.Count("scanb.history-chain-overrun")
	}
	e.check(sig, "reader "+op, impl, want)
	key := fmt.Sprintf("scan.desc%s.hist%s.pfx%s.seek%s.end%s.off%s.btw%v", c10b(s.Desc), c10b(s.Hist), c10b(len(s.Prefix) > 0), c10b(len(s.Seek) > 0), c10b(len(s.End) > 0), c10b(s.Off > 0), between)
	r.Count(key)
	r.Eval(key+"."+sizeBucket(len(rows)), len(rows) > 0)
	if err != nil {
		return
	}
	// Reset: a non-history reader restarted from its seek position must yield the same rows again
	if !between && !s.Hist {
		if rerr := rd.Reset(); rerr == nil {
			again, tail := c10ReadAll(rd, false, 0, 0, 200000)
			e.r.OracleChecks++
			if tail != "" || c10Rows(again) != c10Rows(rows) {
				e.fail("C10:tbtree.Reader:reset-differs", fmt.Sprintf("reader %s after Reset returned %d rows, before %d", op, len(again), len(rows)))
			}
			r.Count("scan.reset")
		}
	}
	if cerr := rd.Close(); cerr != nil {
		e.fail("C10:tbtree.Reader:close-error", cerr.Error())
	}
}

// snapDump reads everything a snapshot can return: full forward and backward scans, History of every key,
// Get of every key of `keys`. Returns the canonical dump and an inconsistency description.
func (e *c10Env) snapDump(s *tbtree.Snapshot, keys [][]byte) (string, string) {
	full := func(desc bool) ([]string, string) {
		rd, err := s.NewReader(tbtree.ReaderSpec{DescOrder: desc})
		if err != nil {
			return nil, "NewReader: " + err.Error()
		}
		defer rd.Close()
		rows, tail := c10ReadAll(rd, false, 0, 0, 200000)
		return rows, tail
	}
	fw, t1 := full(false)
	bw, t2 := full(true)
	if t1 != "" || t2 != "" {
		return "", "reader error " + t1 + t2
	}
	if len(fw) != len(bw) {
		return "", fmt.Sprintf("forward scan has %d rows, backward %d", len(fw), len(bw))
	}
	for i := range fw {
		if fw[i] != bw[len(bw)-1-i] {
			return "", "backward scan is not the reverse of the forward scan at row " + fw[i]
		}
	}
	var sb strings.Builder
	fmt.Fprintf(&sb, "ts=%d", s.Ts())
	inScan := map[string]string{}
	for _, row := range fw {
		p := strings.SplitN(row, ":", 2)
		inScan[p[0]] = p[1]
	}
	for _, k := range keys {
		v, ts, hc, err := s.Get(k)
		row, present := inScan[hx.Hex(k)]
		if err != nil {
			if present {
				return "", "key " + hx.Hex(k) + " is in the scan but Get says " + c10Err(err)
			}
			continue
		}
		if !present || row != fmt.Sprintf("%s:%d:%d", hx.Hex(v), ts, hc) {
			return "", "Get " + hx.Hex(k) + " disagrees with the scan row " + row
		}
		tvs, _, err := s.History(k, 0, true, int(hc))
		if err != nil || uint64(len(tvs)) != hc {
			return "", "History " + hx.Hex(k) + " failed or short: " + c10Err(err)
		}
		sb.WriteString(";" + hx.Hex(k) + "=")
		for j, tv := range tvs {
			if j > 0 {
				sb.WriteByte('|')
			}
			fmt.Fprintf(&sb, "%s:%d", hx.Hex(tv.Value), tv.Ts)
		}
		delete(inScan, hx.Hex(k))
	}
	if len(inScan) > 0 {
		return "", fmt.Sprintf("scan returned %d keys that were never inserted", len(inScan))
	}
	return sb.String(), ""
}

func (e *c10Env) execSnap(op string, name int, ts uint64) *c10Snap {
	cur := e.ref.Ts
	var s *tbtree.Snapshot
	var err error
	if ts == 0 {
		s, err = e.t.Snapshot()
	} else {
		s, err = e.t.SnapshotMustIncludeTs(ts)
	}
	impl := c10Err(err)
	if err == nil {
		impl = fmt.Sprintf("ok %d", s.Ts())
	}
	e.corr(op, impl)
	e.r.Count("snap." + errClassOf(impl))
	e.r.OracleChecks++
	if err != nil {
		want := ""
		switch {
		case ts > cur:
			want = "err:illegal"
		case len(e.snaps) >= e.cfg.MaxActive:
			want = "err:toomanysnaps"
		}
		if want != c10Err(err) {
			e.fail("C10:tbtree.Snapshot:unexpected-error", fmt.Sprintf("SnapshotMustIncludeTs(%d) at ts %d with %d open snapshots: %v", ts, cur, len(e.snaps), err))
		}
		e.r.Eval("snap."+c10Err(err), false)
		return nil
	}
	if name >= e.nextSnap {
		e.nextSnap = name + 1
	}
	d, bad := e.snapDump(s, e.uniSorted())
	if bad != "" {
		e.fail("C10:Snapshot:inconsistent-reads", bad)
		s.Close()
		e.tainted = true
		return nil
	}
	m, ok := e.past[d]
	if !ok {
		e.fail("C10:Snapshot:not-a-state-of-the-tree", "a new snapshot returns content that the tree never had: "+trunc200(d))
		s.Close()
		e.tainted = true
		return nil
	}
	if m.Ts < ts || m.Ts > cur {
		e.fail("C10:Snapshot:older-than-requested-ts", fmt.Sprintf("snapshot asked to include ts %d reflects ts %d (tree at %d)", ts, m.Ts, cur))
	}
	if m.Ts < cur {
		e.r.Count("snap.stale(reused lastSnapRoot)")
	} else {
		e.r.Count("snap.current")
	}
	if m.Ts == cur {
		e.clean = true // the root is on disk (it was, or the snapshot flushed it)
	}
	sn := &c10Snap{name: name, s: s, ref: m, dump: d, reqTs: ts}
	e.snaps = append(e.snaps, sn)
	e.r.Eval(fmt.Sprintf("snap.keys%s.stale%v", sizeBucket(len(m.Es)), m.Ts < cur), len(m.Es) > 0)
	return sn
}

// recheck: an open snapshot must still return exactly its creation dump
func (e *c10Env) recheck(sn *c10Snap, when string) {
	e.ops = append(e.ops, fmt.Sprintf("recheck %d", sn.name))
	e.r.OracleChecks++
	e.r.Count("snap.reread." + when)
	d, bad := e.snapDump(sn.s, e.uniSorted())
	if bad != "" {
		e.fail("C10:Snapshot:changed-after-later-insert", "snapshot became inconsistent ("+when+"): "+bad)
		return
	}
	if d != sn.dump {
		e.fail("C10:Snapshot:changed-after-later-insert", fmt.Sprintf("snapshot %d (%s) no longer returns its creation content: was %s now %s", sn.name, when, trunc200(sn.dump), trunc200(d)))
	}
	e.r.Extra["snapshots_reread"] = asInt(e.r.Extra["snapshots_reread"]) + 1
}

func asInt(v interface{}) int {
	if i, ok := v.(int); ok {
		return i
	}
	return 0
}

func (e *c10Env) execSclose(op string, tok string) {
	for i, sn := range e.snaps {
		if fmt.Sprint(sn.name) == tok {
			e.recheck(sn, "before-close")
			err := sn.s.Close()
			e.corr(op, c10Err(err))
			e.snaps = append(e.snaps[:i], e.snaps[i+1:]...)
			return
		}
	}
}

// verifyLiveSample: Get a few keys on the live tree against the reference
func (e *c10Env) verifyLiveSample(sig, when string) {
	n := 0
	for _, k := range e.uni {
		v, ts, hc, err := e.t.Get(k)
		e.check(sig, "Get "+hx.Hex(k)+" "+when, c10Fmt3(v, ts, hc, err), e.ref.get(k))
		if n++; n >= 4 {
			break
		}
	}
}

// flush <valid> <nonzero> <pct|default> <synced>
func (e *c10Env) execFlush(op string, f []string) {
	var err error
	if f[3] == "default" {
		_, _, err = e.t.Flush()
	} else {
		p, _ := strconv.ParseFloat(f[3], 32)
		_, _, err = e.t.FlushWith(float32(p), f[4] == "1")
	}
	e.corr(op, c10Err(err))
	e.r.Count(fmt.Sprintf("flush.pct%s.synced%s.%s", f[3], f[4], c10Err(err)))
	e.r.Eval("flush."+f[3]+"."+c10Err(err), err == nil)
	if err == nil {
		e.clean = true
	}
	e.verifyLiveSample("C10:flush:content-changed", "after-flush")
}

func (e *c10Env) execCompact(op string) {
	ts, err := e.t.Compact()
	impl := c10Err(err)
	if err == nil {
		impl = fmt.Sprintf("ok %d", ts)
	} else if impl == "err:other" {
		e.r.Count("compact.err-other: " + trunc200(strings.ReplaceAll(err.Error(), e.dir, "<dir>")))
	}
	e.corr(op, impl)
	e.r.Count("compact." + errClassOf(impl))
	e.r.Eval("compact."+errClassOf(impl), err == nil)
	e.r.OracleChecks++
	if err == nil {
		if ts != e.ref.Ts {
			e.fail("C10:Compact:content-differs", fmt.Sprintf("Compact reports ts %d, tree is at %d", ts, e.ref.Ts))
		}
		e.dumps = append(e.dumps, e.ref.clone())
	}
	e.verifyLiveSample("C10:Compact:content-differs", "after-compact")
}

func (e *c10Env) execClose(op string) error {
	err := e.t.Close()
	e.corr(op, c10Err(err))
	e.r.OracleChecks++
	if len(e.snaps) > 0 {
		if !errors.Is(err, tbtree.ErrSnapshotsNotClosed) {
			e.fail("C10:tbtree.Close:closed-with-open-snapshots", fmt.Sprintf("Close with %d open snapshots returned %v", len(e.snaps), err))
		}
		e.r.Count("close.refused-open-snapshots")
		return nil
	}
	if err != nil {
		e.fail("C10:tbtree.Close:error", err.Error())
		return err
	}
	e.isClosed = true
	return nil
}

// reopen (after a clean close). Expected content: the newest compaction dump written since the last open
// (if its id is above the loaded tree's id), else the content at Close.
func (e *c10Env) execReopen(op string) error {
	if !e.isClosed {
		return nil
	}
	if err := e.open(); err != nil {
		e.fail("C10:reopen:open-failed", err.Error())
		return err
	}
	e.isClosed = false
	want := e.ref
	sig := "C10:reopen:content-changed"
	what := "content at Close"
	var best *c10Map
	for _, d := range e.dumps {
		if d.Ts > e.loadedID && (best == nil || d.Ts > best.Ts) {
			best = d
		}
	}
	if best != nil {
		want = best
		sig = "C10:Compact:content-differs"
		what = fmt.Sprintf("content at Compact()=%d", best.Ts)
		e.loadedID = best.Ts
		e.r.Count("reopen.loads-compacted")
	} else {
		e.r.Count("reopen.loads-flushed")
	}
	e.dumps = nil
	e.corr(op, fmt.Sprintf("ok %d", e.t.Ts()))
	e.r.OracleChecks++
	d := e.liveDump()
	if stale := (&c10Map{Es: want.Es, Ts: e.atOpen.Ts}); d != want.dump() && best == nil && e.atOpen.Ts > want.Ts && d == stale.dump() {
		// Same keys and versions, but Ts() is the one the tree had right after the PREVIOUS Open: a rejected insert
		// rolled the tree back to the loaded root (ts = content ts, below the TIMESTAMP-file value applied at that
		// Open); Close does not rewrite the TIMESTAMP file for an un-mutated root, so the old value is applied again.
		desc := fmt.Sprintf("Ts() was %d at Close (after a rejected insert rolled the tree back to the loaded root) and is %d after reopen: the TIMESTAMP file written by the earlier Close is applied again; content unchanged", want.Ts, e.atOpen.Ts)
		e.r.Fail(c10StaleTsSig, desc, e.replay(desc)) // not e.fail: the case goes on with the observed ts
		e.r.Count("reopen.ts-restored-from-stale-timestamp-file")
		want = stale
	} else if d != want.dump() {
		e.fail(sig, fmt.Sprintf("after close/reopen the tree does not equal the %s: got %s want %s", what, trunc200(d), trunc200(want.dump())))
		e.tainted = true
	}
	e.ref = want.clone()
	e.atOpen = e.ref.clone()
	e.clean, e.armed = want.contentTs() == want.Ts, false // a TIMESTAMP file ahead of the stored root: Open applies setTs to the loaded root
	if !e.clean {
		e.r.Count("cow.reopen.ts-file-ahead-of-root(setTs at Open)." + c10DepthTag(e.curDepth))
		e.armed = true
	}
	e.past = map[string]*c10Map{}
	e.remember()
	// The root as it is stored on disk is lastSnapRoot after Open: a rejected insert rolls back to it and a
	// snapshot may re-use it. Its ts is recomputed from its content; a larger value in the TIMESTAMP file
	// (IncreaseTs after the last insert) is applied to the live root only. That stored state is a past state of
	// the tree (the one right after its last accepted insert).
	if ld := e.ref.clone(); ld.contentTs() < ld.Ts {
		ld.Ts = ld.contentTs()
		e.past[ld.dump()] = ld
	}
	e.r.Eval(fmt.Sprintf("reopen.keys%s.compacted%v", sizeBucket(len(e.ref.Es)), best != nil), len(e.ref.Es) > 0)
	return nil
}

// exec runs one operation line. A returned error aborts the case (tree unusable).
func (e *c10Env) exec(op string) error {
	f := strings.Fields(op)
	if len(f) == 0 {
		return nil
	}
	if e.isClosed && f[0] != "reopen" {
		return nil
	}
	switch {
	case f[0] == "ins" && len(f) == 2:
		e.execInsert(op, parseKvts(f[1]))
	case f[0] == "incts" && len(f) == 2:
		e.execIncTs(op, atou(f[1]))
	case (f[0] == "get" && len(f) == 3) || (f[0] == "getbetween" && len(f) == 5) || (f[0] == "hist" && len(f) == 6) || (f[0] == "gwp" && len(f) == 4):
		e.execPoint(op, f)
	case (f[0] == "scan" && len(f) == 10) || (f[0] == "scanb" && len(f) == 11):
		e.execScan(op, f)
	case f[0] == "snap" && len(f) == 3:
		e.execSnap(op, atoi(f[1]), atou(f[2]))
	case f[0] == "sclose" && len(f) == 2:
		e.execSclose(op, f[1])
	case f[0] == "recheck" && len(f) == 2:
		if sn := e.snapByName(f[1]); sn != nil {
			e.recheck(sn, "mid-run")
		}
	case f[0] == "flush" && len(f) == 5:
		e.execFlush(op, f)
	case f[0] == "sync":
		err := e.t.Sync()
		e.corr(op, c10Err(err))
		if err == nil {
			e.clean = true
		}
		e.r.Count("sync")
		e.verifyLiveSample("C10:flush:content-changed", "after-sync")
	case f[0] == "compact":
		e.execCompact(op)
	case f[0] == "close":
		return e.execClose(op)
	case f[0] == "reopen":
		return e.execReopen(op)
	}
	return nil
}

// ---------------------------------------------------------------------------------------------
// generators of operation lines
// ---------------------------------------------------------------------------------------------

func sizeBucket(n int) string {
	switch {
	case n == 0:
		return "0"
	case n == 1:
		return "1"
	case n <= 4:
		return "2-4"
	case n <= 16:
		return "5-16"
	}
	return "17+"
}

func (e *c10Env) genInsert() string {
	rng := e.rng
	r := e.r
	n := 1 + rng.Intn(6)
	if rng.Chance(15) {
		n = 1 + rng.Intn(40)
	}
	cur := e.ref.Ts
	kind := "valid"
	p := rng.Intn(100)
	switch {
	case p < 5:
		kind = "invalid-arg"
	case p < 9:
		kind = "decreasing-ts-same-key"
	case p < 12:
		kind = "stale-ts"
	}
	explicitTs := rng.Chance(50)
	var kvts []c10KVT
	next := cur + 1
	for i := 0; i < n; i++ {
		k := append([]byte(nil), e.poolKey()...)
		if len(kvts) > 0 && rng.Chance(15) {
			k = kvts[rng.Intn(len(kvts))].K // repeated key within one bulk
		}
		kv := c10KVT{K: k, V: e.value(true)}
		if explicitTs {
			switch rng.Intn(6) {
			case 0: // same ts as the previous entry
				if next > cur+1 {
					next--
				}
			case 1:
				next += uint64(rng.Intn(4))
			}
			kv.T = next
			next++
		}
		kvts = append(kvts, kv)
	}
	switch kind {
	case "invalid-arg":
		i := rng.Intn(len(kvts))
		switch rng.Intn(4) {
		case 0:
			kvts[i].K = nil
		case 1:
			kvts[i].K = c10RandBytes(rng, e.cfg.MaxKey+1+rng.Intn(2))
		default:
			kvts[i].V = e.value(false)
		}
		if rng.Chance(10) {
			kvts = nil
			kind = "invalid-empty-bulk"
		}
	case "decreasing-ts-same-key":
		// same key twice with an explicit, decreasing ts: accepted by the validation, rejected in the leaf
		k := append([]byte(nil), e.poolKey()...)
		hi := next + 1 + uint64(rng.Intn(3))
		a := c10KVT{K: k, V: e.value(true), T: hi}
		b := c10KVT{K: k, V: e.value(true), T: hi - 1}
		pos := rng.Intn(len(kvts) + 1)
		kvts = append(kvts[:pos], append([]c10KVT{a}, kvts[pos:]...)...)
		kvts = append(kvts, b)
	case "stale-ts":
		i := rng.Intn(len(kvts))
		if cur == 0 {
			kind = "valid"
		} else {
			kvts[i].T = 1 + uint64(rng.Intn(int(cur)))
		}
	}
	r.Count("ins." + kind)
	r.Count(fmt.Sprintf("ins.size.%s", sizeBucket(len(kvts))))
	e.lastKind = kind
	return "ins " + kvtsTok(kvts)
}

func (e *c10Env) genIncTs() string {
	cur := e.ref.Ts
	ts := cur + 1 + uint64(e.rng.Intn(3))
	if e.rng.Chance(20) {
		ts = uint64(e.rng.Intn(int(cur) + 1))
	}
	return fmt.Sprintf("incts %d", ts)
}

func (e *c10Env) pickTarget() (*c10Map, string) {
	if len(e.snaps) > 0 && e.rng.Chance(50) {
		s := e.snaps[e.rng.Intn(len(e.snaps))]
		return s.ref, fmt.Sprint(s.name)
	}
	return e.ref, "t"
}

func (e *c10Env) probeKey() []byte {
	k := e.argKey(false)
	if len(k) == 0 {
		k = e.poolKey()
	}
	return k
}

func (e *c10Env) someTs(m *c10Map) uint64 { return uint64(e.rng.Intn(int(m.Ts) + 3)) }

func (e *c10Env) genPointRead() string {
	rng := e.rng
	ref, tg := e.pickTarget()
	switch rng.Intn(4) {
	case 0:
		return fmt.Sprintf("get %s %s", tg, hx.Hex(e.probeKey()))
	case 1:
		k := e.probeKey()
		if rng.Chance(60) && len(ref.Es) > 0 {
			k = ref.Es[rng.Intn(len(ref.Es))].K
		}
		t1, t2 := e.someTs(ref), e.someTs(ref)
		if rng.Chance(70) && t1 > t2 {
			t1, t2 = t2, t1
		}
		if rng.Chance(10) {
			t2 = 0
		}
		if i, ok := ref.idx(k); ok && rng.Chance(50) {
			// boundaries: exactly a version's ts, one below, one above
			vs := ref.Es[i].Vs
			t2 = vs[rng.Intn(len(vs))].Ts + uint64(rng.Intn(3)) - 1
			if rng.Bool() {
				t1 = vs[rng.Intn(len(vs))].Ts + uint64(rng.Intn(3)) - 1
			}
		}
		return fmt.Sprintf("getbetween %s %s %d %d", tg, hx.Hex(k), t1, t2)
	case 2:
		k := e.probeKey()
		if rng.Chance(60) && len(ref.Es) > 0 {
			k = ref.Es[rng.Intn(len(ref.Es))].K
		}
		hcnt := 0
		if i, ok := ref.idx(k); ok {
			hcnt = len(ref.Es[i].Vs)
		}
		off := rng.Intn(hcnt + 2)
		limit := 1 + rng.Intn(hcnt+2)
		if rng.Chance(8) {
			limit = -rng.Intn(2)
		}
		return fmt.Sprintf("hist %s %s %d %s %d", tg, hx.Hex(k), off, c10b(rng.Bool()), limit)
	default:
		pfx := e.argKey(false)
		var neq []byte
		if rng.Chance(60) {
			neq = e.argKey(false)
		}
		return fmt.Sprintf("gwp %s %s %s", tg, hx.Hex(pfx), hx.Hex(neq))
	}
}

func (e *c10Env) genSpec() c10Spec {
	rng := e.rng
	s := c10Spec{ISeek: rng.Bool(), IEnd: rng.Bool(), Desc: rng.Bool(), Hist: rng.Chance(30)}
	if rng.Chance(70) {
		s.Seek = e.argKey(true)
	}
	if rng.Chance(60) {
		s.End = e.argKey(true)
	}
	if rng.Chance(50) {
		s.Prefix = e.argKey(true)
		if rng.Chance(50) && len(s.Prefix) > 0 && len(s.Prefix) <= e.cfg.MaxKey {
			// seek inside the prefix range
			s.Seek = append(append([]byte(nil), s.Prefix...), c10RandBytes(rng, rng.Intn(2))...)
		}
	}
	if rng.Chance(30) {
		s.Off = uint64(rng.Intn(6))
	}
	if rng.Chance(3) {
		s.Off = 1000
	}
	return s
}

func (e *c10Env) genScan(sn *c10Snap) string {
	s := e.genSpec()
	if e.rng.Chance(25) {
		t1, t2 := e.someTs(sn.ref), e.someTs(sn.ref)
		if e.rng.Chance(75) && t1 > t2 {
			t1, t2 = t2, t1
		}
		return fmt.Sprintf("scanb %d %s %s %s %s %s %s %d %d %d", sn.name, hx.Hex(s.Seek), hx.Hex(s.End), hx.Hex(s.Prefix), c10b(s.ISeek), c10b(s.IEnd), c10b(s.Desc), s.Off, t1, t2)
	}
	return fmt.Sprintf("scan %d %s", sn.name, s.tok())
}

func (e *c10Env) genSnap() string {
	rng := e.rng
	cur := e.ref.Ts
	var ts uint64
	switch rng.Intn(4) {
	case 0:
		ts = 0
	case 1:
		ts = cur
	case 2:
		ts = uint64(rng.Intn(int(cur) + 1))
	default:
		ts = cur + uint64(rng.Intn(2))
	}
	return fmt.Sprintf("snap %d %d", e.nextSnap, ts)
}

func (e *c10Env) genFlush() string {
	rng := e.rng
	switch rng.Intn(5) {
	case 0:
		return "sync"
	case 1:
		return fmt.Sprintf("flush 1 %s default 0", c10b(e.cfg.Cleanup != 0))
	}
	pcts := []float32{0, 0, 0.5, 10, 50, 99.9, 100, -1, 100.5}
	p := pcts[rng.Intn(len(pcts))]
	return fmt.Sprintf("flush %s %s %v %s", c10b(p >= 0 && p <= 100), c10b(p != 0), p, c10b(rng.Chance(40)))
}

func (e *c10Env) closeAllSnaps() {
	for len(e.snaps) > 0 {
		e.exec(fmt.Sprintf("sclose %d", e.snaps[len(e.snaps)-1].name))
	}
}

func (e *c10Env) doReopen() error {
	if len(e.snaps) > 0 && e.rng.Chance(30) {
		e.exec("close") // refused: snapshots open
	}
	e.closeAllSnaps()
	if err := e.exec("close"); err != nil {
		return err
	}
	return e.exec("reopen")
}

// concurrent readers on open snapshots while the writer proceeds (oracle only, thorough tier)
func (e *c10Env) opConcurrent() {
	if len(e.snaps) == 0 {
		return
	}
	stop := make(chan struct{})
	keys := e.uniSorted() // frozen: the writer below extends e.uni
	var wg sync.WaitGroup
	var mu sync.Mutex
	var problems []string
	rounds := 0
	for _, sn := range e.snaps {
		wg.Add(1)
		go func(sn *c10Snap) {
			defer wg.Done()
			defer func() {
				if p := recover(); p != nil {
					mu.Lock()
					problems = append(problems, fmt.Sprint("panic: ", p))
					mu.Unlock()
				}
			}()
			for {
				select {
				case <-stop:
					return
				default:
				}
				d, bad := e.snapDump(sn.s, keys)
				mu.Lock()
				rounds++
				if bad != "" || d != sn.dump {
					problems = append(problems, fmt.Sprintf("snapshot %d: %s %s", sn.name, bad, trunc200(d)))
					mu.Unlock()
					return
				}
				mu.Unlock()
			}
		}(sn)
	}
	for i := 0; i < 6 && !e.tainted; i++ {
		e.exec(e.genInsert())
		if i == 3 {
			e.exec("flush 1 1 100 1")
		}
	}
	close(stop)
	wg.Wait()
	e.r.OracleChecks++
	e.r.Count("concurrent.bursts")
	e.r.CountN("concurrent.snapshot-dumps-while-writing", rounds)
	for _, p := range problems {
		e.fail("C10:Snapshot:changed-under-concurrent-writer", p)
	}
}

func c10Depth(path string) int {
	mfs, err := prometheus.DefaultGatherer.Gather()
	if err != nil {
		return 0
	}
	for _, mf := range mfs {
		if mf.GetName() != "immudb_btree_depth" {
			continue
		}
		for _, m := range mf.GetMetric() {
			for _, l := range m.GetLabel() {
				if l.GetName() == "id" && l.GetValue() == path {
					return int(m.GetGauge().GetValue())
				}
			}
		}
	}
	return 0
}

// ---------------------------------------------------------------------------------------------
// one case
// ---------------------------------------------------------------------------------------------

func c10GenCfg(rng *hx.Rng, thorough bool) c10Cfg {
	c := c10Cfg{}
	c.MaxKey = []int{4, 8, 12, 16, 24, 32}[rng.Intn(6)]
	c.MaxVal = []int{1, 4, 8, 16, 40}[rng.Intn(5)]
	req := max(2*(29+c.MaxKey), 31+c.MaxKey+c.MaxVal)
	c.MaxNode = req + []int{0, 0, 1, 7, 30, 100}[rng.Intn(6)]
	c.Cache = []int{1, c.MaxNode, 3 * c.MaxNode, 20 * c.MaxNode, 1 << 20}[rng.Intn(5)]
	c.FlushThld = []int{1, 2, 5, 20, 100, 100000}[rng.Intn(6)]
	c.SyncThld = c.FlushThld * []int{1, 3, 10, 100}[rng.Intn(4)]
	c.MaxBuf = []int{1, 40, 300, 1 << 22}[rng.Intn(4)]
	c.MaxActive = 1 + rng.Intn(4)
	c.CompThld = 1 + rng.Intn(3)
	c.FileSize = []int{2048, 16384, 1 << 20}[rng.Intn(3)]
	c.FlushBuf = 4096
	// The nodes log is read by concurrent goroutines (innerNode.updateOnInsert inserts into children in
	// parallel; in thorough runs snapshot readers read the history log in parallel): with fewer cached chunk
	// files than chunks in use, multiapp.appendableFor used to return cache.ErrKeyNotFound (repaired; see
	// c10MultiappProbe). Small opened-files limits are part of the correspondence runs.
	c.HOpen = []int{1, 2, 4000}[rng.Intn(3)]
	c.NOpen = []int{1, 2, 4000}[rng.Intn(3)]
	c.Cleanup = []float32{0, 0, 10, 50, 100}[rng.Intn(5)]
	return c
}

func c10NewEnv(r *hx.Result, rng *hx.Rng, thorough bool, cfg c10Cfg) *c10Env {
	e := &c10Env{r: r, rng: rng, thorough: thorough, uni: map[string][]byte{}, past: map[string]*c10Map{}}
	e.cfg = cfg
	e.dir = hx.TempDir("c10")
	e.ref = &c10Map{}
	e.atOpen = &c10Map{}
	e.remember()
	return e
}

func (e *c10Env) start() error {
	c := e.cfg
	if err := e.open(); err != nil {
		return err
	}
	e.corr(fmt.Sprintf("open %d %d %s %d %d %d %d %d", c.FlushThld, c.MaxBuf, c10b(c.Cleanup != 0), c.MaxActive, c.MaxKey, c.MaxVal, c.CompThld, c.MaxNode), "ok")
	return nil
}

func (e *c10Env) finish() {
	for _, sn := range e.snaps {
		sn.s.Close()
	}
	if e.t != nil && !e.isClosed {
		e.t.Close()
	}
	os.RemoveAll(e.dir)
}

func c10Case(r *hx.Result, rng *hx.Rng, thorough bool, nops int) (err error) {
	r.NextCase()
	e := c10NewEnv(r, rng, thorough, c10GenCfg(rng, thorough))
	defer e.finish()
	defer func() {
		if p := recover(); p != nil {
			e.fail("C10:tbtree:panic", fmt.Sprint(p))
			err = nil
		}
	}()
	npool := []int{6, 30, 120, 400}[rng.Intn(4)]
	e.pool = c10Pool(rng, e.cfg.MaxKey, npool)
	for _, k := range e.pool {
		e.addUni(k)
	}
	c := e.cfg
	r.Count(fmt.Sprintf("cfg.nodeSlack%d", c.MaxNode-max(2*(29+c.MaxKey), 31+c.MaxKey+c.MaxVal)))
	r.Count(fmt.Sprintf("cfg.flushThld%d", c.FlushThld))
	r.Count(fmt.Sprintf("cfg.cache%s", map[bool]string{true: "none", false: "some"}[c.Cache == 1]))
	r.Count(fmt.Sprintf("cfg.cleanup%v", c.Cleanup))
	if err := e.start(); err != nil {
		return err
	}
	r.Sample(map[string]interface{}{"cfg": c, "pool": len(e.pool)})

	for i := 0; i < nops && !e.tainted; i++ {
		p := rng.Intn(1000)
		switch {
		case p < 400:
			e.exec(e.genInsert())
		case p < 430:
			e.exec(e.genIncTs())
		case p < 680:
			e.exec(e.genPointRead())
		case p < 730:
			if len(e.snaps) < e.cfg.MaxActive || rng.Chance(10) {
				e.exec(e.genSnap())
			}
		case p < 760:
			if len(e.snaps) > 0 {
				e.exec(fmt.Sprintf("sclose %d", e.snaps[rng.Intn(len(e.snaps))].name))
			}
		case p < 880:
			var sn *c10Snap
			temp := false
			if len(e.snaps) > 0 && (rng.Chance(70) || len(e.snaps) >= e.cfg.MaxActive) {
				sn = e.snaps[rng.Intn(len(e.snaps))]
			} else {
				name := e.nextSnap
				e.exec(e.genSnap())
				sn = e.snapByName(fmt.Sprint(name))
				temp = true
			}
			if sn != nil {
				for j, n := 0, 1+rng.Intn(3); j < n; j++ {
					e.exec(e.genScan(sn))
				}
				if temp && rng.Chance(50) {
					e.exec(fmt.Sprintf("sclose %d", sn.name))
				}
			}
		case p < 930:
			e.exec(e.genFlush())
		case p < 945:
			e.exec("compact")
		case p < 965:
			if len(e.snaps) > 0 {
				e.exec(fmt.Sprintf("recheck %d", e.snaps[rng.Intn(len(e.snaps))].name))
			}
		case p < 985:
			if err := e.doReopen(); err != nil {
				return nil
			}
		default:
			if thorough {
				e.opConcurrent()
			}
		}
	}
	return e.endOfCase()
}

// endOfCase: every open snapshot re-read, then restart and compare everything
func (e *c10Env) endOfCase() error {
	r := e.r
	r.Extra["max_depth"] = max(asInt(r.Extra["max_depth"]), e.maxDepth)
	r.Extra["max_keys"] = max(asInt(r.Extra["max_keys"]), len(e.ref.Es))
	r.Count(fmt.Sprintf("depth.%d", e.maxDepth))
	if e.tainted {
		r.Count("case.ended-early-after-oracle-failure")
		return nil
	}
	// end of case: every open snapshot re-read, then restart and compare everything
	for _, sn := range e.snaps {
		e.recheck(sn, "end-of-case")
	}
	if err := e.doReopen(); err != nil {
		return nil
	}
	// full comparison of the reloaded tree through a snapshot (readers) as well
	name := e.nextSnap
	e.exec(fmt.Sprintf("snap %d %d", name, e.ref.Ts))
	if e.snapByName(fmt.Sprint(name)) != nil {
		e.exec(fmt.Sprintf("scan %d - - - 0 0 0 0 0", name))
		e.exec(fmt.Sprintf("scan %d - - - 0 0 1 1 0", name))
	}
	e.closeAllSnaps()
	e.exec("close")
	return nil
}

// ---------------------------------------------------------------------------------------------
// probes for the known findings, replay
// ---------------------------------------------------------------------------------------------

// c10ReopenProbe: the input of the (repaired) rollback-to-empty defect: a rejected BulkInsert after Open must roll
// back to the loaded root, never to an empty tree (signature failed-insert-after-reopen-empties-tree otherwise).
// c10OverrunProbe: the input of the (repaired) history-chain overrun of lastUpdateBetween.
func c10ReopenProbe(r *hx.Result, rng *hx.Rng) {
	r.NextCase()
	cfg := c10Cfg{MaxKey: 1024, MaxVal: 512, MaxNode: 4096, Cache: 1 << 20, FlushThld: 100000, SyncThld: 1000000, MaxBuf: 1 << 22,
		MaxActive: 100, CompThld: 2, FileSize: 1 << 26, FlushBuf: 4096, NOpen: 10, HOpen: 1}
	e := c10NewEnv(r, rng, false, cfg)
	defer e.finish()
	defer func() {
		if p := recover(); p != nil {
			e.fail("C10:tbtree:panic", fmt.Sprint(p))
		}
	}()
	if e.start() != nil {
		return
	}
	for _, op := range []string{
		"ins 6b31:7631:0,6b32:7632:0",
		"close", "reopen",
		"ins 6b33:7633:0",
		// same key twice, decreasing explicit ts: passes the up-front validation, fails in the leaf
		"ins 6b34:7634:9,6b34:7635:8",
		"get t 6b31",
	} {
		e.exec(op)
	}
	r.Eval("probe.reopen-rollback", true)
}

func c10OverrunProbe(r *hx.Result, rng *hx.Rng) {
	r.NextCase()
	cfg := c10Cfg{MaxKey: 1024, MaxVal: 512, MaxNode: 4096, Cache: 1 << 20, FlushThld: 100000, SyncThld: 1000000, MaxBuf: 1 << 22,
		MaxActive: 100, CompThld: 2, FileSize: 1 << 26, FlushBuf: 4096, NOpen: 10, HOpen: 1}
	e := c10NewEnv(r, rng, false, cfg)
	defer e.finish()
	defer func() {
		if p := recover(); p != nil {
			e.fail("C10:tbtree:panic", fmt.Sprint(p))
		}
	}()
	if e.start() != nil {
		return
	}
	for _, op := range []string{
		"ins 61:7631:1,61:7632:2",
		"flush 1 0 default 0",
		// three versions of b move into ONE history-log block; a's block sits at offset 0 of the history log
		"ins 62:7633:3,62:7634:4,62:7635:5",
		"flush 1 0 default 0",
		"getbetween t 62 1 2", // b has no version in [1,2]
		"getbetween t 62 1 3",
		"getbetween t 62 1 4",
		"getbetween t 62 1 5",
		"getbetween t 61 1 1",
		"snap 0 0",
		"scanb 0 - - - 1 1 0 0 1 2", // ReadBetween: only a qualifies
		"sclose 0",
	} {
		e.exec(op)
	}
	r.Eval("probe.history-chain-overrun", true)
}

// c10MultiappProbe: nodes log spread over more chunk files than NodesLogMaxOpenedFiles; a bulk insert
// touching many leaves reads them from concurrent goroutines. Racy: reproduced in most runs, not all.
func c10MultiappProbe(r *hx.Result, rng *hx.Rng, rounds int) {
	r.NextCase()
	cfg := c10Cfg{MaxKey: 8, MaxVal: 4, MaxNode: 74, Cache: 1, FlushThld: 100000, SyncThld: 1000000, MaxBuf: 1 << 22,
		MaxActive: 2, CompThld: 2, FileSize: 512, FlushBuf: 4096, NOpen: 2, HOpen: 1}
	dir := hx.TempDir("c10m")
	defer os.RemoveAll(dir)
	e := &c10Env{cfg: cfg, dir: dir}
	t, err := tbtree.Open(dir, e.opts())
	if err != nil {
		return
	}
	defer func() {
		if p := recover(); p != nil {
			r.Fail("C10:tbtree:panic", fmt.Sprint(p), nil)
		}
	}()
	key := func(i int) []byte { return []byte(fmt.Sprintf("k%06d", i)) }
	for i := 0; i < 300; i++ {
		if err := t.BulkInsert([]*tbtree.KVT{{K: key(i), V: []byte("v")}}); err != nil {
			break
		}
		if i%20 == 19 {
			t.FlushWith(0, false)
		}
	}
	t.FlushWith(0, false)
	hits, other := 0, 0
	var first string
	for round := 0; round < rounds && hits == 0; round++ {
		var kvts []*tbtree.KVT
		for i := 0; i < 300; i += 3 {
			kvts = append(kvts, &tbtree.KVT{K: key(i), V: []byte{byte(round), 1}})
		}
		err := t.BulkInsert(kvts)
		if err == nil {
			t.FlushWith(0, false)
			continue
		}
		if errors.Is(err, cache.ErrKeyNotFound) && !errors.Is(err, tbtree.ErrKeyNotFound) {
			hits++
			first = fmt.Sprintf("round %d: %v", round, err)
		} else {
			other++
			first = err.Error()
		}
	}
	r.OracleChecks++
	r.Eval("probe.multiapp-opened-files", hits > 0)
	r.Count(fmt.Sprintf("probe.multiapp.hit%v", hits > 0))
	if hits > 0 {
		r.Fail("C10:tbtree.BulkInsert:spurious-cache-key-not-found-from-multiapp",
			"a VALID BulkInsert of 100 existing keys failed with \"key not found\" (cache.ErrKeyNotFound leaking out of multiapp.appendableFor: the chunk file opened by the singleflight was evicted from the opened-files LRU by a concurrent reader before the final Get) — "+first,
			c10Replay{Kind: "c10-multiapp-probe", Cfg: cfg, Detail: "300 single-key inserts flushed every 20 (FileSize 512, NodesLogMaxOpenedFiles 2, cache off); then BulkInsert of every 3rd key, repeated"})
	} else if other > 0 {
		r.Fail("C10:tbtree.BulkInsert:rejected-valid-bulk", first, c10Replay{Kind: "c10-multiapp-probe", Cfg: cfg})
	}
	t.Close()
}

type c10ReplayFile struct {
	Replay struct {
		Kind string   `json:"kind"`
		Cfg  c10Cfg   `json:"cfg"`
		Pool []string `json:"pool"`
		Ops  []string `json:"ops"`
	} `json:"replay"`
}

func c10RunReplay(r *hx.Result, rng *hx.Rng, path string) error {
	b, err := os.ReadFile(path)
	if err != nil {
		return err
	}
	var rf c10ReplayFile
	if err := json.Unmarshal(b, &rf); err != nil {
		return err
	}
	switch rf.Replay.Kind {
	case "c10-reopen-probe":
		c10ReopenProbe(r, rng)
		return nil
	case "c10-multiapp-probe":
		c10MultiappProbe(r, rng, 400)
		return nil
	case "c10-overrun-probe":
		c10OverrunProbe(r, rng)
		return nil
	}
	r.NextCase()
	e := c10NewEnv(r, rng, false, rf.Replay.Cfg)
	defer e.finish()
	defer func() {
		if p := recover(); p != nil {
			e.fail("C10:tbtree:panic", fmt.Sprint(p))
		}
	}()
	for _, k := range rf.Replay.Pool {
		e.pool = append(e.pool, unhex(k))
		e.addUni(unhex(k))
	}
	for i, line := range rf.Replay.Ops {
		op := strings.SplitN(line, " => ", 2)[0]
		if i == 0 && strings.HasPrefix(op, "open ") {
			if err := e.start(); err != nil {
				return err
			}
			continue
		}
		if e.tainted {
			break
		}
		if err := e.exec(op); err != nil {
			break
		}
	}
	r.Notes = append(r.Notes, fmt.Sprintf("replayed %d ops from %s", len(rf.Replay.Ops), path))
	return nil
}

func runC10(r *hx.Result, rng *hx.Rng, thorough bool, replay string) error {
	r.Rule = "evaluation = one tbtree API call compared with the Lean model AND the Go reference map; non-trivial = the call succeeded / returned rows (distinct by op kind, flags, size bucket)"
	if replay != "" {
		return c10RunReplay(r, rng, replay)
	}
	rng = rng.Fork() // hx seeds consecutive VERIF_SEEDs with overlapping splitmix streams; decorrelate
	c10ReopenProbe(r, rng.Fork())
	c10OverrunProbe(r, rng.Fork())
	c10StaleTsProbe(r, hx.NewRng(1))
	c10MultiappProbe(r, rng.Fork(), map[bool]int{false: 60, true: 400}[thorough])
	if err := r.Flush(); err != nil {
		return err
	}
	cases, nops := 10, 240
	if thorough {
		cases, nops = 50, 450
	}
	if v := os.Getenv("VERIF_C10_CASES"); v != "" {
		cases = atoi(v)
	}
	for i := 0; i < cases; i++ {
		n := nops
		if i%5 == 4 {
			n = nops * 3 // long cases: deep trees
		}
		crng := rng.Fork()
		if only := os.Getenv("VERIF_C10_ONLY"); only != "" && only != fmt.Sprint(i) {
			continue
		}
		t0 := time.Now()
		if err := c10Case(r, crng, thorough, n); err != nil {
			return err
		}
		if os.Getenv("VERIF_C10_TIMES") != "" {
			fmt.Fprintf(os.Stderr, "case %d: %d ops %.1fs\n", i, n, time.Since(t0).Seconds())
		}
		if err := r.Flush(); err != nil {
			return err
		}
	}
	r.Extra["cases"] = cases
	t0 := time.Now()
	if err := c10CowCases(r, rng.Fork(), thorough); err != nil {
		return err
	}
	if os.Getenv("VERIF_C10_TIMES") != "" {
		fmt.Fprintf(os.Stderr, "cow cases: %.1fs\n", time.Since(t0).Seconds())
	}
	r.Notes = append(r.Notes,
		"copy-on-write cases (c10_cow.go): small trees (1..8 keys with the default and the minimum node size = root leaf / inner root over a few leaves; 9..40 keys over tiny nodes), op mix flush / snapshot kept open / IncreaseTs / rejected insert / reopen with the ts file ahead / updates of existing keys one by one, EVERY open snapshot fully re-read after EVERY mutating op; counters cow.* give the ingredient distribution of all cases",
		"RenewSnapRootAfter=0 (wall-clock snapshot renewal not exercised); Snapshot.Set, SyncSnapshot and HistoryReader not exercised; Reader.Reset only on non-history readers",
		"NodesLogMaxOpenedFiles / HistoryLogMaxOpenedFiles ∈ {1,2,4000}: chunk files are evicted and re-opened under concurrent readers (repaired finding spurious-cache-key-not-found-from-multiapp; a dedicated probe keeps hammering it)",
		"a rejected BulkInsert rolling the tree back to the last flushed root — after Open: the loaded root — is modelled (DESIGN 9) and counted under ins.failed.rolled-back-…; rolling back to an EMPTY tree after Open (repaired finding) is reported under its old signature")
	return nil
}
