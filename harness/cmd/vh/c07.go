package main

// C07 — Replication reproduces exactly the primary's history, nothing else.
//
// Store level: a real primary store (random options/history), real replica stores fed through
// ExportTx -> ReplicateTx under delivery schedules (in order, out of order within the
// MaxActiveTransactions window, duplicates, retries, close/reopen, DiscardPrecommittedTxsSince,
// external commit allowance, Synced) and an alteration stream over every byte class of the export.
// Every call is replayed on the Lean model (`c07 …`) and compared; the ORACLE (model-independent)
// compares replica and primary tx by tx and checks that rejected deliveries change nothing.
// Database level (c07db.go): primary DB + replica DBs, the ack protocol of synchronous replication.

import (
	"bytes"
	"context"
	"crypto/sha256"
	"encoding/binary"
	"errors"
	"fmt"
	"os"
	"path/filepath"
	"sort"
	"strings"
	"sync"
	"time"

	"github.com/codenotary/immudb/embedded/ahtree"
	"github.com/codenotary/immudb/embedded/store"

	"verif/harness/internal/hx"
)

func init() { runners["C07"] = runC07 }

// ------------------------------------------------------------------ error classes

func c07Class(err error) string {
	switch {
	case err == nil:
		return "ok"
	case errors.Is(err, store.ErrTxAlreadyCommitted):
		return "err:already-committed"
	case errors.Is(err, store.ErrMaxActiveTransactionsLimitExceeded):
		return "err:max-active"
	case errors.Is(err, store.ErrMaxConcurrencyLimitExceeded), c07IsMaxWaitees(err):
		return "err:max-concurrency" // transient, see c07Retry: never sent to the model, never an oracle verdict
	case errors.Is(err, store.ErrIllegalTruncationArgument):
		return "err:illegal-truncation"
	case errors.Is(err, store.ErrNewerVersionOrCorruptedData):
		return "err:newer-version"
	case errors.Is(err, store.ErrCorruptedData):
		return "err:corrupted"
	case errors.Is(err, store.ErrNullKey):
		return "err:null-key"
	case errors.Is(err, store.ErrMaxKeyLenExceeded):
		return "err:max-key-len"
	case errors.Is(err, store.ErrMaxValueLenExceeded):
		return "err:max-value-len"
	case errors.Is(err, store.ErrMaxTxEntriesLimitExceeded):
		return "err:max-tx-entries"
	case errors.Is(err, store.ErrNoEntriesProvided):
		return "err:no-entries"
	case errors.Is(err, store.ErrMetadataUnsupported):
		return "err:md-unsupported"
	case errors.Is(err, store.ErrUnexpectedError):
		return "err:wrong-order"
	case errors.Is(err, ahtree.ErrUnexistentData):
		return "err:aht-range"
	case errors.Is(err, store.ErrBufferIsFull):
		return "err:buffer-full"
	case errors.Is(err, store.ErrBufferFullyConsumed):
		return "err:buffer-consumed"
	case errors.Is(err, store.ErrIllegalState):
		return "err:illegal-state"
	case errors.Is(err, store.ErrIllegalArguments):
		return "err:illegal"
	case errors.Is(err, context.DeadlineExceeded):
		return "err:blocked"
	case errors.Is(err, store.ErrTxNotFound):
		return "err:not-found"
	}
	return "err:other(" + err.Error() + ")"
}

// ------------------------------------------------------------------ transient back-pressure

// store.ErrMaxConcurrencyLimitExceeded = "no free Tx holder in the pool of MaxConcurrency entries right now" (precommit
// takes one and keeps it while it waits for tx ID-1; readers and proofs take one too). It says nothing about the
// delivery - the caller has to repeat the call, as immudb's replicator does - and it depends on goroutine timing only
// (seen under machine load), so it is neither an answer the model can predict nor a rejection: the harness repeats such
// a call (bounded, short sleep) and only COUNTS the repetitions.
const (
	c07RetryMax   = 400
	c07RetrySleep = 5 * time.Millisecond
)

// back-pressure answers: too many concurrent committers, or too many waiters on a watcher hub (MaxWaitees) — found as an
// unattributed `genuine-export-rejected` in one thorough run under load; the delivery is simply repeated
func c07Transient(err error) bool {
	return errors.Is(err, store.ErrMaxConcurrencyLimitExceeded) || c07IsMaxWaitees(err)
}

func c07IsMaxWaitees(err error) bool {
	return err != nil && strings.Contains(err.Error(), "watchers: max waiting limit exceeded")
}

// c07Retry runs call until its error is not transient (at most c07RetryMax repetitions); it returns the last outcome
// and the number of repetitions. Safe to use from several goroutines (touches nothing shared).
func c07Retry[T any](call func() (T, error)) (res T, err error, retries int) {
	for {
		res, err = call()
		if !c07Transient(err) || retries >= c07RetryMax {
			return res, err, retries
		}
		retries++
		time.Sleep(c07RetrySleep)
	}
}

// c07CountRetries records repetitions caused by transient back-pressure (distribution counters only).
func c07CountRetries(r *hx.Result, where string, retries int) {
	if retries > 0 {
		r.Count("transient.max-concurrency.deliveries-repeated." + where)
		r.CountN("transient.max-concurrency.repetitions."+where, retries)
	}
}

// c07GenuineRejected raises `genuine-export-rejected` for the answer to a delivery the replica had to accept. A transient
// back-pressure answer is not a rejection (it has been reported by c07StillTransient if it never cleared).
func c07GenuineRejected(r *hx.Result, ans, desc string, replay map[string]interface{}) {
	if ans == "err:max-concurrency" {
		r.Count("transient.max-concurrency.unresolved")
		return
	}
	r.Fail("C07:replica:genuine-export-rejected", desc, replay)
}

// c07StillTransient: the back-pressure did not clear although the call was repeated for c07RetryMax*c07RetrySleep.
// That is not a verdict on the export (so never `genuine-export-rejected`); with nothing else in flight it would mean
// that Tx holders leaked from the pool, which is reported under its own signature.
func c07StillTransient(r *hx.Result, ans, where string, replay map[string]interface{}) bool {
	if ans != "err:max-concurrency" {
		return false
	}
	r.Fail("C07:replica:back-pressure-never-clears", fmt.Sprintf("%s: ReplicateTx kept answering ErrMaxConcurrencyLimitExceeded for %v (%d repetitions)", where, time.Duration(c07RetryMax)*c07RetrySleep, c07RetryMax), replay)
	return true
}

// ------------------------------------------------------------------ primary

type c07Prim struct {
	st     *c07Store // every call under the liveness bound (c07live.go)
	dir    string
	n      uint64
	ver    int
	exp    [][]byte          // exp[id]: ExportTx(id) bytes (index 0 unused)
	hdrs   []*store.TxHeader // hdrs[id]
	alhs   [][32]byte        // alhs[id]; alhs[0] = sha256("")
	trunc  []bool            // exported by digest (values truncated on the primary)
	keys   map[string]bool
	label  string
	maxVal int
	maxKey int
	maxEnt int
	clock  int64 // the primary's clock after the last tx
	poison bool // ExportTx hit the "partially truncated" exit (leaves _valBsMux locked: do not export again)
}

type c07PrimSpec struct {
	small     bool  // small store limits (value/key length, entries per tx)
	clock0    int64 // first value of the primary's clock (a forked history starts after its base's)
	n         int
	ver       int
	embedded  bool
	truncate  bool // small files + TruncateUptoTx: early txs are exported by digest
	manyEvery int  // every k-th tx carries many entries (0 = never)
}

func c07Ts(k *int64) store.TimeFunc {
	return func() time.Time { *k++; return time.Unix(1_700_000_000+*k, 0) }
}

func c07BuildPrimary(r *hx.Result, rng *hx.Rng, sp c07PrimSpec) (*c07Prim, error) {
	return c07BuildLineage(r, rng, sp, nil, 0)
}

// c07BuildLineage builds a primary history. With base != nil the history FORKS from base: transactions 1..fork are
// base's (replicated from its exports, so ids, headers and Alhs are identical), fork+1..sp.n are new ones — what a
// promoted replica writes after a primary change. The whole build runs under one watchdog (its counters are merged
// afterwards: the builder goroutine never touches the Result).
func c07BuildLineage(r *hx.Result, rng *hx.Rng, sp c07PrimSpec, base *c07Prim, fork uint64) (*c07Prim, error) {
	type res struct {
		p   *c07Prim
		err error
	}
	var counts []string
	c07T("build primary history n=%d fork=%d", sp.n, fork)
	ch := make(chan res, 1)
	go func() {
		p, err := c07BuildLineageInner(func(k string) { counts = append(counts, k) }, rng, sp, base, fork)
		ch <- res{p, err}
	}()
	select {
	case v := <-ch:
		for _, k := range counts {
			r.Count(k)
		}
		if v.p != nil && v.p.st != nil {
			v.p.st.r = r
		}
		return v.p, v.err
	case <-time.After(4 * c07Bound()):
		c07ReportHang(r, "primary-build", "")
		panic(c07Hang{"primary-build"})
	}
}

func c07BuildLineageInner(count func(string), rng *hx.Rng, sp c07PrimSpec, base *c07Prim, fork uint64) (*c07Prim, error) {
	dir := hx.TempDir("c07p")
	p := &c07Prim{dir: dir, ver: sp.ver, keys: map[string]bool{}, maxVal: 4096, maxKey: 256, maxEnt: 512}
	if sp.small {
		// small limits: stores with these options open fast (the tx pool is pre-allocated from them)
		p.maxVal, p.maxKey, p.maxEnt = 256, 48, 8
	}
	clock := sp.clock0
	opts := store.DefaultOptions().WithSynced(false).WithMaxConcurrency(2).WithWriteTxHeaderVersion(sp.ver).
		WithLogger(quietLogger()).WithTimeFunc(c07Ts(&clock)).WithMaxValueLen(p.maxVal).WithMaxKeyLen(p.maxKey).WithMaxTxEntries(p.maxEnt)
	if sp.truncate {
		opts = opts.WithEmbeddedValues(false).WithFileSize(512).WithMaxIOConcurrency(1)
	} else {
		opts = opts.WithEmbeddedValues(sp.embedded).WithFileSize(1 << (12 + rng.Intn(6)))
	}
	st, err := store.Open(filepath.Join(dir, "p"), opts)
	if err != nil {
		os.RemoveAll(dir)
		return nil, err
	}
	p.st = c07Wrap(nil, st) // the Result is attached by c07BuildLineage once the build is over
	p.label = fmt.Sprintf("v%d", sp.ver)
	if sp.embedded && !sp.truncate {
		p.label += "-embedded"
	}
	if sp.truncate {
		p.label += "-truncated"
	}
	ctx := context.Background()
	if base != nil {
		for id := uint64(1); id <= fork; id++ {
			if _, err := st.ReplicateTx(ctx, base.exp[id], false, false); err != nil {
				return p, fmt.Errorf("fork: ReplicateTx(%d) of the base history: %w", id, err)
			}
		}
		for k := range base.keys {
			p.keys[k] = true
		}
		p.label += fmt.Sprintf("-fork@%d", fork)
	}
	pool := [][]byte{[]byte("a"), []byte("key-b"), []byte("kc"), bytes.Repeat([]byte("K"), p.maxKey), []byte{0}, []byte{0xff, 0x00}}
	for k := int(fork) + 1; k <= sp.n; k++ {
		tx, err := st.NewWriteOnlyTx(ctx)
		if err != nil {
			return p, err
		}
		ne := 1 + rng.Intn(4)
		if sp.manyEvery > 0 && k%sp.manyEvery == 0 {
			ne = 20 + rng.Size(p.maxEnt-20)
			count("primary.tx.many-entries")
		}
		if sp.truncate {
			ne = 1 + rng.Intn(2)
		}
		used := map[string]bool{}
		for e := 0; e < ne; e++ {
			var key []byte
			if rng.Chance(45) && ne < len(pool) {
				key = pool[rng.Intn(len(pool))]
			} else {
				key = append([]byte(fmt.Sprintf("k%d.%d.", k, e)), rng.Bytes(rng.Intn(6))...)
			}
			if used[string(key)] {
				continue
			}
			used[string(key)] = true
			var md *store.KVMetadata
			if sp.ver == 1 && rng.Chance(25) {
				md = store.NewKVMetadata()
				switch rng.Intn(4) {
				case 0:
					md.AsDeleted(true)
				case 1:
					md.ExpiresAt(time.Unix(int64(1_600_000_000+rng.Intn(400_000_000)), 0))
				case 2:
					md.AsNonIndexable(true)
				default:
					md.AsDeleted(true)
					md.ExpiresAt(time.Unix(int64(1_900_000_000+rng.Intn(1000)), 0))
					md.AsNonIndexable(rng.Bool())
				}
				count("primary.entry.kvmd")
			}
			var val []byte
			switch {
			case sp.truncate:
				val = rng.Bytes(150 + rng.Intn(500))
			case rng.Chance(15):
				val = nil
				count("primary.entry.empty-value")
			default:
				val = rng.Bytes(rng.Size(120))
				if len(val) == 0 {
					count("primary.entry.empty-value")
				}
			}
			if err := tx.Set(key, md, val); err != nil {
				return p, fmt.Errorf("primary Set: %w", err)
			}
			p.keys[string(key)] = true
		}
		if sp.ver == 1 && rng.Chance(30) {
			md := store.NewTxMetadata()
			if rng.Chance(70) {
				md.WithExtra(rng.Bytes(1 + rng.Size(60)))
			}
			if rng.Chance(40) {
				md.WithTruncatedTxID(uint64(1 + rng.Intn(k)))
			}
			tx.WithMetadata(md)
			count("primary.tx.metadata")
		}
		if _, err := tx.Commit(ctx); err != nil {
			return p, fmt.Errorf("primary Commit: %w", err)
		}
	}
	p.n = uint64(sp.n)
	if sp.truncate && sp.n >= 4 {
		upto := uint64(2 + rng.Intn(sp.n-2))
		if err := st.TruncateUptoTx(upto); err != nil {
			return p, fmt.Errorf("TruncateUptoTx(%d): %w", upto, err)
		}
		count("primary.truncated-upto")
	}
	p.exp = make([][]byte, sp.n+1)
	p.hdrs = make([]*store.TxHeader, sp.n+1)
	p.alhs = make([][32]byte, sp.n+1)
	p.trunc = make([]bool, sp.n+1)
	p.alhs[0] = sha256.Sum256(nil)
	holder := store.NewTx(p.maxEnt, p.maxKey)
	for id := uint64(1); id <= p.n; id++ {
		leave := c07ExportEnter(st)
		b, err := st.ExportTx(id, false, false, holder)
		leave()
		if err != nil {
			if strings.Contains(err.Error(), "partially truncated") {
				p.poison = true
				count("primary.export.partially-truncated")
				p.n = id - 1
				break
			}
			return p, fmt.Errorf("ExportTx(%d): %w", id, err)
		}
		p.exp[id] = b
		h, err := st.ReadTxHeader(id, false, false)
		if err != nil {
			return p, err
		}
		p.hdrs[id] = h
		p.alhs[id] = h.Alh()
		p.trunc[id] = len(b) > 0 && b[len(b)-1] == 1
		if p.trunc[id] {
			count("primary.export.by-digest")
		} else {
			count("primary.export.with-values")
		}
	}
	count("primary.history." + p.label)
	p.clock = clock
	return p, nil
}

func (p *c07Prim) close() {
	if p.st != nil {
		p.st.Close()
	}
	os.RemoveAll(p.dir)
}

// ------------------------------------------------------------------ replica

type c07Rep struct {
	r         *hx.Result
	name      string
	dir       string
	st        *c07Store // every call under the liveness bound (c07live.go)
	synced    bool
	ext       bool
	maxActive int
	maxKey    int
	maxVal    int
	maxEnt    int
	seq       int
	tainted   bool // an altered export has been precommitted at some point (it may come back after a reopen)
	stripped  map[uint64]bool // ids for which a values-stripped (digest form) export was precommitted and discarded
	maxConc   int             // MaxConcurrency (= size of the Tx holder pool) when > 8, see c07Concurrent
}

var c07NameSeq int

// MaxConcurrency of the next replica opened by c07OpenReplica (0 = the default of 8)
var c07NextMaxConc int

func (rp *c07Rep) options() *store.Options {
	maxConc := 8
	if rp.maxConc > maxConc {
		maxConc = rp.maxConc
	}
	o := store.DefaultOptions().WithSynced(rp.synced).WithMaxConcurrency(maxConc).WithLogger(quietLogger()).
		WithMaxActiveTransactions(rp.maxActive).WithMaxKeyLen(rp.maxKey).WithMaxValueLen(rp.maxVal).WithMaxTxEntries(rp.maxEnt).
		WithExternalCommitAllowance(rp.ext).WithMaxWaitees(64)
	if rp.synced {
		// the syncer goroutine only runs after this long: durability is driven explicitly through Sync()
		o = o.WithSyncFrequency(4 * time.Hour)
	}
	return o
}

func c07OpenReplica(r *hx.Result, p *c07Prim, synced, ext bool, maxActive int) (*c07Rep, error) {
	c07NameSeq++
	rp := &c07Rep{r: r, name: fmt.Sprintf("r%d", c07NameSeq), dir: hx.TempDir("c07r"), synced: synced, ext: ext, maxActive: maxActive,
		maxKey: p.maxKey, maxVal: p.maxVal, maxEnt: p.maxEnt, stripped: map[uint64]bool{}, maxConc: c07NextMaxConc}
	st, err := c07OpenStore(r, filepath.Join(rp.dir, "r"), rp.options())
	if err != nil {
		os.RemoveAll(rp.dir)
		return nil, err
	}
	rp.st = st
	r.Corr(fmt.Sprintf("c07 new %s %d %d %d %d %s %s", rp.name, rp.maxActive, rp.maxKey, rp.maxVal, rp.maxEnt, b01(synced), b01(ext)), "ok")
	return rp, nil
}

func (rp *c07Rep) close() {
	if rp.st != nil {
		rp.st.Close()
	}
	os.RemoveAll(rp.dir)
}

// state digest of the replica: committed (id, alh), durably precommitted (id, alh), in-memory precommitted (id, alh).
func (rp *c07Rep) state() string {
	cid, calh := rp.st.CommittedAlh()
	did, dalh := rp.st.PrecommittedAlh()
	pid := rp.st.LastPrecommittedTxID()
	palh := sha256.Sum256(nil)
	if pid > 0 {
		h, err := rp.st.ReadTxHeader(pid, true, false)
		if err != nil {
			return "state-error:" + err.Error()
		}
		palh = h.Alh()
	}
	return fmt.Sprintf("%d %s %d %s %d %s", cid, hx.Hex(calh[:]), did, hx.Hex(dalh[:]), pid, hx.Hex(palh[:]))
}

func (rp *c07Rep) corrState() string {
	s := rp.state()
	rp.r.Corr("c07 state "+rp.name, s)
	return s
}

type c07Out struct {
	ans     string
	hdr     *store.TxHeader
	retries int // repetitions after a transient back-pressure answer (c07Retry)
}

// replicateRaw calls the real ReplicateTx (panic-safe). For a Synced store the call returns only after a
// sync: the harness triggers Sync() once the in-memory precommit is visible (model: `rep` then `sync`).
func (rp *c07Rep) replicateRaw(b []byte, skip bool, timeout time.Duration) (out c07Out, syncedNow string) {
	ctx, cancel := context.WithTimeout(context.Background(), timeout)
	defer cancel()
	done := make(chan c07Out, 1)
	pre0 := rp.st.LastPrecommittedTxID()
	go func() {
		defer func() {
			if x := recover(); x != nil {
				done <- c07Out{ans: "panic"}
			}
		}()
		raw := rp.st.raw // not the watchdog wrapper: this is not the goroutine that owns the Result
		h, err, n := c07Retry(func() (*store.TxHeader, error) { return raw.ReplicateTx(ctx, b, skip, false) })
		if err != nil {
			done <- c07Out{ans: c07Class(err), retries: n}
			return
		}
		a := h.Alh()
		done <- c07Out{ans: fmt.Sprintf("ok %d %s", h.ID, hx.Hex(a[:])), hdr: h, retries: n}
	}()
	c07T("ReplicateTx(tx=%d %s skip=%v timeout=%v)", c07HdrID(b), c07Short(hx.Hex(b)), skip, timeout)
	// liveness: the call ends with its context at the latest; it must be back one bound after that
	deadline := time.Now().Add(timeout + c07Bound())
	hang := func() {
		c07ReportHang(rp.r, "ReplicateTx", fmt.Sprintf(" (its context of %v ended long ago; synced=%v, Sync() called: %q)", timeout, rp.synced, syncedNow))
		panic(c07Hang{"ReplicateTx"})
	}
	if !rp.synced {
		select {
		case o := <-done:
			return o, ""
		case <-time.After(time.Until(deadline)):
			hang()
		}
	}
	for {
		select {
		case o := <-done:
			return o, syncedNow
		default:
		}
		if syncedNow == "" && rp.st.LastPrecommittedTxID() > pre0 {
			syncedNow = c07Class(rp.st.Sync())
		}
		if time.Now().After(deadline) {
			hang()
		}
		time.Sleep(200 * time.Microsecond)
	}
}

// hdrID reads the tx id out of (possibly altered) export bytes, 0 if there is none.
func c07HdrID(b []byte) uint64 {
	if len(b) < 12 {
		return 0
	}
	return binary.BigEndian.Uint64(b[4:])
}

// deliver = ReplicateTx + the same line on the model. Returns the implementation's answer.
func (rp *c07Rep) deliver(b []byte, skip bool) c07Out {
	pre := rp.st.LastPrecommittedTxID()
	id := c07HdrID(b)
	timeout := c07Bound()
	mayWait := id > pre+1 && id <= pre+uint64(rp.maxActive)
	if mayWait {
		timeout = 25 * time.Millisecond // the call may wait for tx id-1, which nobody delivers
	}
	out, syncedNow := rp.replicateRaw(b, skip, timeout)
	if out.ans == "err:blocked" && !mayWait {
		// nothing this delivery could legitimately wait for (its predecessor is there, the harness has called Sync()):
		// it sat in a watermark wait until its context ended
		c07ReportHang(rp.r, "ReplicateTx", fmt.Sprintf(" (tx %d on top of precommitted %d waited until its context of %v ended; Sync() called: %q)", id, pre, timeout, syncedNow))
		panic(c07Hang{"ReplicateTx"})
	}
	c07CountRetries(rp.r, "sequential", out.retries)
	if c07StillTransient(rp.r, out.ans, "sequential delivery", map[string]interface{}{"export": hx.Hex(b), "skip": skip}) {
		return out // the call was never examined by the store: nothing to compare with the model
	}
	rp.r.Corr(fmt.Sprintf("c07 rep %s %s %s", rp.name, hx.Hex(b), b01(skip)), out.ans)
	if syncedNow != "" {
		rp.r.Corr("c07 sync "+rp.name, syncedNow)
	}
	if out.ans == "panic" {
		rp.r.Fail("C07:ReplicateTx:panic-on-malformed-export", "ReplicateTx panicked", map[string]interface{}{"export": hx.Hex(b), "skip": skip})
	}
	return out
}

func (rp *c07Rep) sync() {
	err := rp.st.Sync()
	rp.r.Corr("c07 sync "+rp.name, c07Class(err))
}

func (rp *c07Rep) discard(id uint64) (int, error) {
	n, err := rp.st.DiscardPrecommittedTxsSince(id)
	ans := c07Class(err)
	if err == nil {
		ans = fmt.Sprintf("ok %d", n)
	}
	rp.r.Corr(fmt.Sprintf("c07 discard %s %d", rp.name, id), ans)
	return n, err
}

func (rp *c07Rep) allow(id uint64) error {
	err := rp.st.AllowCommitUpto(id)
	rp.r.Corr(fmt.Sprintf("c07 allow %s %d", rp.name, id), c07Class(err))
	return err
}

func (rp *c07Rep) restart() error {
	if err := rp.st.Close(); err != nil {
		return fmt.Errorf("replica close: %w", err)
	}
	st, err := c07OpenStore(rp.r, filepath.Join(rp.dir, "r"), rp.options())
	if err != nil {
		rp.st = nil
		return fmt.Errorf("replica reopen: %w", err)
	}
	rp.st = st
	rp.r.Corr("c07 restart "+rp.name, "ok")
	return nil
}

// export on the replica (precommitted allowed) + model line
func (rp *c07Rep) export(id uint64, skip bool) ([]byte, error) {
	holder := store.NewTx(rp.maxEnt, rp.maxKey)
	b, err := rp.st.ExportTx(id, true, skip, holder)
	ans := c07Class(err)
	if err == nil {
		ans = hx.Hex(b)
	}
	rp.r.Corr(fmt.Sprintf("c07 export %s %d %s", rp.name, id, b01(skip)), ans)
	return b, err
}

// ------------------------------------------------------------------ oracle

func c07HdrEq(a, b *store.TxHeader) bool {
	var ma, mb []byte
	if a.Metadata != nil {
		ma = a.Metadata.Bytes()
	}
	if b.Metadata != nil {
		mb = b.Metadata.Bytes()
	}
	return a.ID == b.ID && a.Ts == b.Ts && a.BlTxID == b.BlTxID && a.BlRoot == b.BlRoot && a.PrevAlh == b.PrevAlh &&
		a.Version == b.Version && a.NEntries == b.NEntries && a.Eh == b.Eh && bytes.Equal(ma, mb)
}

// checkTx: the replica holds tx id exactly as the primary does (header, Alh, export bytes / entries).
func (rp *c07Rep) checkTx(p *c07Prim, id uint64, ctxDesc string) bool {
	r := rp.r
	r.OracleChecks++
	h, err := rp.st.ReadTxHeader(id, true, false)
	if err != nil {
		r.Fail("C07:replica:history-differs", fmt.Sprintf("%s: replica cannot read header of tx %d: %v", ctxDesc, id, err), map[string]interface{}{"primary": p.label, "tx": id})
		return false
	}
	if h.Alh() != p.alhs[id] || !c07HdrEq(h, p.hdrs[id]) {
		r.Fail("C07:replica:history-differs", fmt.Sprintf("%s: header/Alh of tx %d differs from the primary's", ctxDesc, id),
			map[string]interface{}{"primary": p.label, "tx": id, "replica": hdrTok(h), "primaryHdr": hdrTok(p.hdrs[id])})
		return false
	}
	b, err := rp.export(id, false)
	if p.trunc[id] {
		// the primary exported digests only: the replica holds vLen=0 and the value hashes
		if err == nil {
			r.Count("oracle.truncated-tx.reexport-ok")
		} else {
			r.Count("oracle.truncated-tx.reexport-" + c07Class(err))
			r.Fail("C07:replica:truncated-tx-not-reexportable", fmt.Sprintf("%s: tx %d was replicated by digest; ExportTx on the replica fails with %v", ctxDesc, id, err),
				map[string]interface{}{"primary": p.label, "tx": id})
		}
		return true
	}
	if err != nil || !bytes.Equal(b, p.exp[id]) {
		r.Fail("C07:replica:history-differs", fmt.Sprintf("%s: ExportTx(%d) of the replica differs from the primary's (err=%v)", ctxDesc, id, err),
			map[string]interface{}{"primary": p.label, "tx": id, "replica": hx.Hex(b), "primaryExport": hx.Hex(p.exp[id])})
		return false
	}
	return true
}

// checkCommitted: after indexing, reads, values and queries agree; dual proofs of the replica verify against the primary's states.
func (rp *c07Rep) checkCommitted(p *c07Prim, rng *hx.Rng, upto uint64) {
	r := rp.r
	ctx, cancel := context.WithTimeout(context.Background(), 60*time.Second)
	defer cancel()
	cid, calh := rp.st.CommittedAlh()
	if cid < upto {
		upto = cid
	}
	if upto == 0 {
		return
	}
	r.OracleChecks++
	if calh != p.alhs[cid] {
		r.Fail("C07:replica:history-differs", fmt.Sprintf("committed Alh at %d differs from the primary's", cid), map[string]interface{}{"primary": p.label})
		return
	}
	pt := store.NewTx(p.maxEnt, p.maxKey)
	rt := store.NewTx(rp.maxEnt, rp.maxKey)
	for id := uint64(1); id <= upto; id++ {
		if err := p.st.ReadTx(id, false, pt); err != nil {
			continue
		}
		if err := rp.st.ReadTx(id, false, rt); err != nil {
			r.Fail("C07:replica:history-differs", fmt.Sprintf("ReadTx(%d) on the replica: %v", id, err), map[string]interface{}{"primary": p.label})
			continue
		}
		r.OracleChecks++
		pe, re := pt.Entries(), rt.Entries()
		if len(pe) != len(re) || pt.Header().Alh() != rt.Header().Alh() {
			r.Fail("C07:replica:history-differs", fmt.Sprintf("ReadTx(%d): entries/Alh differ", id), map[string]interface{}{"primary": p.label})
			continue
		}
		for i := range pe {
			var pm, rm []byte
			if pe[i].Metadata() != nil {
				pm = pe[i].Metadata().Bytes()
			}
			if re[i].Metadata() != nil {
				rm = re[i].Metadata().Bytes()
			}
			if !bytes.Equal(pe[i].Key(), re[i].Key()) || !bytes.Equal(pm, rm) || pe[i].HVal() != re[i].HVal() {
				r.Fail("C07:replica:history-differs", fmt.Sprintf("ReadTx(%d) entry %d differs", id, i), map[string]interface{}{"primary": p.label})
				continue
			}
			pv, perr := p.st.ReadValue(pe[i])
			rv, rerr := rp.st.ReadValue(re[i])
			if p.trunc[id] {
				// the primary no longer has the value
				if perr != nil && rerr == nil && pe[i].VLen() > 0 {
					r.Count("oracle.truncated-value.replica-answers-empty")
					r.Fail("C07:replica:truncated-value-read-as-empty", fmt.Sprintf("tx %d entry %d: the primary answers %v for the truncated value, the replica answers an EMPTY value without error (vLen %d on the primary, %d on the replica)", id, i, perr, pe[i].VLen(), re[i].VLen()),
						map[string]interface{}{"primary": p.label, "tx": id})
				}
				continue
			}
			if (perr == nil) != (rerr == nil) || !bytes.Equal(pv, rv) || pe[i].VLen() != re[i].VLen() {
				r.Fail("C07:replica:history-differs", fmt.Sprintf("value of tx %d entry %d differs (primary err=%v, replica err=%v)", id, i, perr, rerr), map[string]interface{}{"primary": p.label})
			}
		}
	}
	// queries
	if err := rp.st.WaitForIndexingUpto(ctx, upto); err != nil {
		r.Notes = append(r.Notes, "replica indexing wait: "+err.Error())
		return
	}
	if upto == p.n && !p.poison { // (a poisoned primary holds more txs than could be exported: its index is ahead)
		if err := p.st.WaitForIndexingUpto(ctx, p.n); err == nil {
			keys := make([]string, 0, len(p.keys))
			for k := range p.keys {
				keys = append(keys, k)
			}
			sort.Strings(keys)
			for _, k := range keys {
				r.OracleChecks++
				pa := c07Get(p.st, []byte(k), p, true)
				ra := c07Get(rp.st, []byte(k), p, false)
				if pa != ra {
					time.Sleep(300 * time.Millisecond)
					ra2 := c07Get(rp.st, []byte(k), p, false)
					r.Fail("C07:replica:query-differs", fmt.Sprintf("Get(%x): primary %s, replica %s (replica %s, synced=%v ext=%v, upto=%d n=%d; 300 ms later: %s)", k, pa, ra, rp.name, rp.synced, rp.ext, upto, p.n, ra2), map[string]interface{}{"primary": p.label, "key": hx.Hex([]byte(k))})
				}
			}
			r.Count("oracle.queries-compared")
		}
	}
	// dual proofs generated by the replica verify against the states of the primary
	probes := 6
	for i := 0; i < probes; i++ {
		t := uint64(1 + rng.Intn(int(upto)))
		s := uint64(1 + rng.Intn(int(t)))
		sh, err1 := rp.st.ReadTxHeader(s, false, false)
		th, err2 := rp.st.ReadTxHeader(t, false, false)
		if err1 != nil || err2 != nil {
			r.Fail("C07:replica:history-differs", "replica cannot read committed headers", nil)
			return
		}
		dp, err := rp.st.DualProof(sh, th)
		r.OracleChecks++
		if err != nil || !store.VerifyDualProof(dp, s, t, p.alhs[s], p.alhs[t]) {
			r.Fail("C07:replica:proof-does-not-verify", fmt.Sprintf("DualProof(%d,%d) of the replica does not verify against the primary's states (err=%v)", s, t, err), map[string]interface{}{"primary": p.label})
		}
		r.Count("oracle.dualproof-verified")
	}
}

func c07Get(st *c07Store, key []byte, p *c07Prim, isPrimary bool) string {
	ref, err := st.Get(context.Background(), key)
	if err != nil {
		switch {
		case errors.Is(err, store.ErrExpiredEntry):
			return "expired"
		case errors.Is(err, store.ErrKeyNotFound):
			return "not-found"
		}
		return "err:" + err.Error()
	}
	var md []byte
	if ref.KVMetadata() != nil {
		md = ref.KVMetadata().Bytes()
	}
	hv := ref.HVal()
	s := fmt.Sprintf("tx=%d hc=%d md=%s hval=%s", ref.Tx(), ref.HC(), hx.Hex(md), hx.Hex(hv[:8]))
	if !p.trunc[ref.Tx()] {
		v, verr := ref.Resolve()
		s += fmt.Sprintf(" len=%d v=%s verr=%v", ref.Len(), hx.Hex(v), verr != nil)
	}
	return s
}

// ------------------------------------------------------------------ layout of a genuine export, alterations

type c07Ent struct{ kLenOff, keyOff, kLen, mdLenOff, mdOff, mdLen, vLenOff, vOff, vLen, end int }

type c07Lay struct {
	hdrLen  int
	f       map[string][2]int // header field -> [off, len) absolute
	ents    []c07Ent
	trailer int
	ver     int
}

func c07Layout(b []byte) *c07Lay {
	l := &c07Lay{f: map[string][2]int{}}
	l.hdrLen = int(binary.BigEndian.Uint32(b))
	o := 4
	put := func(n string, w int) { l.f[n] = [2]int{o, w}; o += w }
	l.f["hdrlen"] = [2]int{0, 4}
	put("id", 8)
	put("prevalh", 32)
	put("ts", 8)
	l.ver = int(binary.BigEndian.Uint16(b[o:]))
	put("version", 2)
	ne := 0
	if l.ver == 0 {
		ne = int(binary.BigEndian.Uint16(b[o:]))
		put("nentries", 2)
	} else {
		ml := int(binary.BigEndian.Uint16(b[o:]))
		put("txmdlen", 2)
		if ml > 0 {
			put("txmd", ml)
		}
		ne = int(binary.BigEndian.Uint32(b[o:]))
		put("nentries", 4)
	}
	put("eh", 32)
	put("bltxid", 8)
	put("blroot", 32)
	o = 4 + l.hdrLen
	for e := 0; e < ne; e++ {
		var en c07Ent
		en.kLenOff = o
		en.kLen = int(binary.BigEndian.Uint16(b[o:]))
		o += 2
		en.keyOff = o
		o += en.kLen
		en.mdLenOff = o
		en.mdLen = int(binary.BigEndian.Uint16(b[o:]))
		o += 2
		en.mdOff = o
		o += en.mdLen
		en.vLenOff = o
		en.vLen = int(binary.BigEndian.Uint32(b[o:]))
		o += 4
		en.vOff = o
		o += en.vLen
		en.end = o
		l.ents = append(l.ents, en)
	}
	l.trailer = o
	return l
}

type c07Alt struct {
	class string
	b     []byte
}

func splice(b []byte, off, n int, repl []byte) []byte {
	o := make([]byte, 0, len(b)-n+len(repl))
	o = append(o, b[:off]...)
	o = append(o, repl...)
	o = append(o, b[off+n:]...)
	return o
}

func c07ReHdr(b []byte, l *c07Lay, f func(h *store.TxHeader) bool) []byte {
	h := &store.TxHeader{}
	if err := h.ReadFrom(b[4 : 4+l.hdrLen]); err != nil {
		return nil
	}
	if !f(h) {
		return nil
	}
	hb, err := h.Bytes()
	if err != nil {
		return nil
	}
	var lb [4]byte
	binary.BigEndian.PutUint32(lb[:], uint32(len(hb)))
	return append(append(lb[:], hb...), b[4+l.hdrLen:]...)
}

// c07Alterations: the alteration stream for the genuine export of tx id of primary p.
// Classes name the byte class touched; "coh" = several fields changed coherently so that the framing stays valid.
func c07Alterations(rng *hx.Rng, p *c07Prim, id uint64, k int) []c07Alt {
	b := p.exp[id]
	l := c07Layout(b)
	var all []c07Alt
	add := func(c string, x []byte) {
		if x != nil && !bytes.Equal(x, b) {
			all = append(all, c07Alt{c, x})
		}
	}
	flip := func(c string, off, n int) {
		if n <= 0 {
			return
		}
		x := append([]byte(nil), b...)
		x[off+rng.Intn(n)] ^= 1 << uint(rng.Intn(8))
		add(c+".flip", x)
	}
	for _, name := range []string{"hdrlen", "id", "prevalh", "ts", "version", "txmdlen", "txmd", "nentries", "eh", "bltxid", "blroot"} {
		if fr, ok := l.f[name]; ok {
			flip("hdr."+name, fr[0], fr[1])
		}
	}
	// numeric fields: +1 / -1 / 0 / max, not re-framed
	for _, name := range []string{"hdrlen", "id", "nentries", "bltxid", "txmdlen", "version"} {
		fr, ok := l.f[name]
		if !ok {
			continue
		}
		cur := uint64(0)
		for _, c := range b[fr[0] : fr[0]+fr[1]] {
			cur = cur<<8 | uint64(c)
		}
		for _, v := range []uint64{cur + 1, cur - 1, 0, ^uint64(0)} {
			add("hdr."+name+".set", splice(b, fr[0], fr[1], be(fr[1], v)))
		}
	}
	// coherent header alterations (header re-encoded with the repo's own codec)
	add("coh.hdr.ts", c07ReHdr(b, l, func(h *store.TxHeader) bool { h.Ts += int64(1 + rng.Intn(1000)); return true }))
	add("coh.hdr.ts", c07ReHdr(b, l, func(h *store.TxHeader) bool { h.Ts = -h.Ts; return true }))
	add("coh.hdr.txmd", c07ReHdr(b, l, func(h *store.TxHeader) bool {
		if h.Version != 1 {
			return false
		}
		md := store.NewTxMetadata()
		md.WithExtra(rng.Bytes(1 + rng.Intn(20)))
		if rng.Bool() {
			md.WithTruncatedTxID(uint64(rng.Intn(5)))
		}
		h.Metadata = md
		return true
	}))
	add("coh.hdr.txmd", c07ReHdr(b, l, func(h *store.TxHeader) bool {
		if h.Version != 1 || h.Metadata == nil {
			return false
		}
		h.Metadata = nil
		return true
	}))
	add("coh.hdr.version", c07ReHdr(b, l, func(h *store.TxHeader) bool {
		if h.Version == 1 {
			if h.Metadata != nil || h.NEntries > 65535 {
				return false
			}
			h.Version = 0
		} else {
			h.Version = 1
		}
		return true
	}))
	if p.hdrs[id].BlTxID > 1 {
		add("coh.hdr.bl-lag", c07ReHdr(b, l, func(h *store.TxHeader) bool {
			nb := 1 + uint64(rng.Intn(int(h.BlTxID-1)))
			leaves := make([][32]byte, nb)
			for i := range leaves {
				leaves[i] = refLeaf(p.alhs[i+1][:])
			}
			h.BlTxID = nb
			h.BlRoot = refMth(leaves)
			return true
		}))
	}
	add("coh.hdr.nentries", c07ReHdr(b, l, func(h *store.TxHeader) bool { h.NEntries++; return true }))
	add("coh.hdr.eh", c07ReHdr(b, l, func(h *store.TxHeader) bool { h.Eh[rng.Intn(32)] ^= 0x40; return true }))
	add("coh.hdr.garbage-after-header", func() []byte { // hdrLen enlarged over inserted bytes: ReadFrom ignores what follows BlRoot
		g := rng.Bytes(1 + rng.Intn(6))
		x := splice(b, 4+l.hdrLen, 0, g)
		binary.BigEndian.PutUint32(x, uint32(l.hdrLen+len(g)))
		return x
	}())
	// entries
	if len(l.ents) > 0 {
		e := l.ents[rng.Intn(len(l.ents))]
		flip("entry.klen", e.kLenOff, 2)
		flip("entry.key", e.keyOff, e.kLen)
		flip("entry.kvmdlen", e.mdLenOff, 2)
		flip("entry.kvmd", e.mdOff, e.mdLen)
		flip("entry.vlen", e.vLenOff, 4)
		flip("entry.value", e.vOff, e.vLen)
		for _, d := range []int{1, -1} {
			add("entry.klen.set", splice(b, e.kLenOff, 2, be(2, uint64(e.kLen+d))))
			add("entry.kvmdlen.set", splice(b, e.mdLenOff, 2, be(2, uint64(e.mdLen+d))))
			add("entry.vlen.set", splice(b, e.vLenOff, 4, be(4, uint64(e.vLen+d))))
		}
		add("entry.vlen.set", splice(b, e.vLenOff, 4, be(4, 0xffffffff)))
		add("entry.kvmdlen.set", splice(b, e.mdLenOff, 2, be(2, uint64(len(b)-e.mdOff)))) // metadata length reaching exactly the end of the buffer
		// coherent: value grown / shrunk / emptied with its length
		add("coh.entry.value-grown", splice(splice(b, e.vOff+e.vLen, 0, []byte{0}), e.vLenOff, 4, be(4, uint64(e.vLen+1))))
		if e.vLen > 0 {
			add("coh.entry.value-shrunk", splice(splice(b, e.vOff+e.vLen-1, 1, nil), e.vLenOff, 4, be(4, uint64(e.vLen-1))))
			add("coh.entry.value-emptied", splice(splice(b, e.vOff, e.vLen, nil), e.vLenOff, 4, be(4, 0)))
		}
		// coherent: kv-metadata added / removed
		if l.ver == 1 {
			if e.mdLen == 0 {
				add("coh.entry.kvmd-added", splice(splice(b, e.mdOff, 0, []byte{0}), e.mdLenOff, 2, be(2, 1)))
			} else {
				add("coh.entry.kvmd-removed", splice(splice(b, e.mdOff, e.mdLen, nil), e.mdLenOff, 2, be(2, 0)))
			}
		} else {
			add("coh.entry.kvmd-added", splice(splice(b, e.mdOff, 0, []byte{0}), e.mdLenOff, 2, be(2, 1)))
		}
		// coherent: key grown
		add("coh.entry.key-grown", splice(splice(b, e.keyOff+e.kLen, 0, []byte{'x'}), e.kLenOff, 2, be(2, uint64(e.kLen+1))))
		add("coh.entry.key-emptied", splice(splice(b, e.keyOff, e.kLen, nil), e.kLenOff, 2, be(2, 0)))
		// entry dropped / duplicated (framing only; NEntries untouched) and with NEntries adjusted
		add("entry.dropped", splice(b, e.kLenOff, e.end-e.kLenOff, nil))
		add("entry.duplicated", splice(b, e.end, 0, b[e.kLenOff:e.end]))
		add("coh.entry.duplicated", c07ReHdr(splice(b, e.end, 0, b[e.kLenOff:e.end]), l, func(h *store.TxHeader) bool { h.NEntries++; return true }))
		if len(l.ents) > 1 {
			add("coh.entry.dropped", c07ReHdr(splice(b, e.kLenOff, e.end-e.kLenOff, nil), l, func(h *store.TxHeader) bool { h.NEntries--; return true }))
			// two entries swapped
			a, c := l.ents[0], l.ents[1]
			sw := append([]byte(nil), b[:a.kLenOff]...)
			sw = append(sw, b[c.kLenOff:c.end]...)
			sw = append(sw, b[a.kLenOff:a.end]...)
			sw = append(sw, b[c.end:]...)
			add("coh.entry.swapped", sw)
		}
	}
	// trailer
	t := l.trailer
	add("trailer.dropped", b[:t])
	add("trailer.tlen0", append(append([]byte(nil), b[:t]...), 0, 0))
	add("trailer.tlen2", append(append([]byte(nil), b[:t]...), 0, 2, b[t+2], byte(rng.Intn(256))))
	add("trailer.flag2", append(append([]byte(nil), b[:t]...), 0, 1, byte(2+rng.Intn(254))))
	add("trailer.flag-flipped", append(append([]byte(nil), b[:t]...), 0, 1, b[t+2]^1))
	add("trailer.one-byte", append(append([]byte(nil), b[:t]...), 0))
	add("trailer.garbage-appended", append(append([]byte(nil), b...), rng.Bytes(1+rng.Intn(5))...))
	if b[t+2] == 0 {
		// the other legitimate form: every value replaced by its digest, flag = 1
		x := append([]byte(nil), b[:4+l.hdrLen]...)
		for _, e := range l.ents {
			x = append(x, b[e.kLenOff:e.vLenOff]...)
			x = append(x, 0, 0, 0, 32)
			d := sha256.Sum256(b[e.vOff : e.vOff+e.vLen])
			x = append(x, d[:]...)
		}
		x = append(x, 0, 1, 1)
		add("coh.as-digests", x)
		// digests of the wrong length (digest() pads / cuts to 32 bytes)
		y := append([]byte(nil), b[:4+l.hdrLen]...)
		for _, e := range l.ents {
			y = append(y, b[e.kLenOff:e.vLenOff]...)
			y = append(y, 0, 0, 0, 33)
			d := sha256.Sum256(b[e.vOff : e.vOff+e.vLen])
			y = append(y, d[:]...)
			y = append(y, 0x77)
		}
		y = append(y, 0, 1, 1)
		add("coh.as-digests-33-bytes", y)
	}
	// buffer cut at class boundaries and at random places
	cuts := []int{0, 1, 3, 4, 4 + l.hdrLen - 1, 4 + l.hdrLen, t - 1, t + 1, t + 2, rng.Intn(len(b))}
	for _, e := range l.ents {
		cuts = append(cuts, e.kLenOff+1, e.keyOff, e.mdLenOff, e.mdLenOff+1, e.mdOff, e.vLenOff, e.vLenOff+2, e.vOff)
		if len(cuts) > 40 {
			break
		}
	}
	for _, c := range cuts {
		if c >= 0 && c < len(b) {
			add("buffer.cut", b[:c])
		}
	}
	// sample k of them, one of each class first
	rng2 := rng.Fork()
	for i := len(all) - 1; i > 0; i-- {
		j := rng2.Intn(i + 1)
		all[i], all[j] = all[j], all[i]
	}
	if k >= len(all) {
		return all
	}
	var out []c07Alt
	seen := map[string]bool{}
	for _, a := range all {
		if !seen[a.class] && len(out) < k {
			seen[a.class] = true
			out = append(out, a)
		}
	}
	for _, a := range all {
		if len(out) >= k {
			break
		}
		out = append(out, a)
	}
	return out
}

// classes whose acceptance is the known K3 behaviour: header fields no local check covers
func c07IsK3(class string) bool {
	switch class {
	case "coh.hdr.ts", "coh.hdr.txmd", "coh.hdr.bl-zero", "coh.hdr.bl-lag", "hdr.ts.flip", "hdr.txmd.flip", "hdr.version.flip", "coh.hdr.version":
		return true
	}
	return false
}

// deliverAltered: an altered export of the NEXT tx is delivered to a replica with external commit allowance
// (so an accepted one stays precommitted and can be discarded again).
func (rp *c07Rep) deliverAltered(p *c07Prim, id uint64, a c07Alt, skip bool) {
	r := rp.r
	before := rp.state()
	out := rp.deliver(a.b, skip)
	r.Count("alter." + a.class)
	sk := ""
	if skip {
		sk = ".skip"
	}
	r.Eval("alt:"+a.class+sk+":"+strings.SplitN(out.ans, " ", 2)[0], true)
	if !strings.HasPrefix(out.ans, "ok ") {
		r.Count("alter.outcome." + out.ans + sk)
		if out.ans == "panic" {
			r.Count("alter.panic." + a.class)
		}
		r.OracleChecks++
		if after := rp.state(); after != before {
			r.Fail("C07:replica:rejected-delivery-changed-state", fmt.Sprintf("altered export (%s) answered %s but the replica's state changed: %s -> %s", a.class, out.ans, before, after),
				map[string]interface{}{"primary": p.label, "tx": id, "class": a.class, "export": hx.Hex(a.b), "skip": skip})
		}
		return
	}
	// accepted: what does the replica hold now?
	r.OracleChecks++
	rp.tainted = true
	aid := out.hdr.ID
	h, err := rp.st.ReadTxHeader(aid, true, false)
	same := err == nil && aid == id && h.Alh() == p.alhs[id] && c07HdrEq(h, p.hdrs[id])
	valuesDiffer := false
	if same && !p.trunc[id] {
		b, xerr := rp.export(aid, false)
		valuesDiffer = xerr != nil || !bytes.Equal(b, p.exp[id])
	}
	switch {
	case same && valuesDiffer && strings.HasPrefix(a.class, "coh.as-digests"):
		// every value replaced by its digest + truncation flag: the form a primary uses after TruncateUptoTx. The replica cannot
		// tell the two apart: same Alh, but it now holds the tx WITHOUT values although the primary still has them.
		r.Count("alter.accepted-values-stripped." + a.class + sk)
		rp.stripped[id] = true
		r.Fail("C07:ReplicateTx:values-stripped-export-accepted", fmt.Sprintf("export of tx %d with every value replaced by its digest and the truncation flag set was precommitted with the primary's Alh; the replica holds the tx without values (the primary still has them)", id),
			map[string]interface{}{"primary": p.label, "tx": id, "class": a.class, "export": hx.Hex(a.b), "genuine": hx.Hex(p.exp[id]), "skip": skip})
	case same && valuesDiffer:
		r.Fail("C07:replica:accepted-altered-export:"+a.class, fmt.Sprintf("altered export of tx %d (%s) accepted with the primary's Alh but the replica's ExportTx differs", id, a.class),
			map[string]interface{}{"primary": p.label, "tx": id, "class": a.class, "export": hx.Hex(a.b), "genuine": hx.Hex(p.exp[id]), "skip": skip})
	case same:
		r.Count("alter.accepted-benign." + a.class + sk) // other framing, same transaction
	case c07IsK3(a.class):
		r.Count("alter.accepted-K3." + a.class + sk)
		if err == nil && h.Alh() == p.alhs[id] {
			r.Fail("C07:replica:accepted-altered-export:"+a.class, "altered header accepted AND the Alh still equals the primary's", map[string]interface{}{"export": hx.Hex(a.b)})
		}
		r.Fail("C07:ReplicateTx:altered-header-precommitted-locally", fmt.Sprintf("export of tx %d with altered %s was precommitted by the replica (Alh differs from the primary's)", id, a.class),
			map[string]interface{}{"primary": p.label, "tx": id, "class": a.class, "export": hx.Hex(a.b), "genuine": hx.Hex(p.exp[id]), "skip": skip})
		if a.class == "coh.hdr.bl-zero" && err == nil && h.BlRoot != ([32]byte{}) {
			r.Fail("C07:ReplicateTx:stale-blroot-stored-when-bltxid-zero", fmt.Sprintf("supplied header has BlTxID=0 and a zero BlRoot; the stored header of tx %d has BlTxID=0 and BlRoot=%x (left over in the pooled Tx)", id, h.BlRoot[:8]),
				map[string]interface{}{"primary": p.label, "tx": id, "export": hx.Hex(a.b)})
		}
	case skip:
		// skipIntegrityCheck disables the Eh comparison: altered entries are precommitted (with the Eh recomputed)
		r.Count("alter.accepted-skip-integrity." + a.class)
		r.Fail("C07:ReplicateTx:altered-entries-precommitted-with-skipIntegrityCheck", fmt.Sprintf("export of tx %d with altered %s was precommitted because skipIntegrityCheck disables the Eh comparison (Alh differs from the primary's)", id, a.class),
			map[string]interface{}{"primary": p.label, "tx": id, "class": a.class, "export": hx.Hex(a.b), "genuine": hx.Hex(p.exp[id])})
	default:
		r.Fail("C07:replica:accepted-altered-export:"+a.class, fmt.Sprintf("altered export of tx %d (%s) accepted; replica header %s, primary %s", id, a.class, hdrTok(h), hdrTok(p.hdrs[id])),
			map[string]interface{}{"primary": p.label, "tx": id, "class": a.class, "export": hx.Hex(a.b), "genuine": hx.Hex(p.exp[id]), "skip": skip})
	}
	rp.corrState()
	if _, err := rp.discard(aid); err != nil {
		r.Notes = append(r.Notes, fmt.Sprintf("discard after accepted altered delivery failed: %v", err))
	}
	rp.corrState()
}

// ------------------------------------------------------------------ scenarios

// in-order replication, everything compared at the end
func c07InOrder(r *hx.Result, rng *hx.Rng, p *c07Prim, synced, ext, skip bool) error {
	r.NextCase()
	rp, err := c07OpenReplica(r, p, synced, ext, 1000)
	if err != nil {
		return err
	}
	defer rp.close()
	for id := uint64(1); id <= p.n; id++ {
		out := rp.deliver(p.exp[id], skip)
		r.Eval(fmt.Sprintf("inorder:%s:%v:%v:%v:%d", p.label, synced, ext, skip, id), true)
		if !strings.HasPrefix(out.ans, "ok ") {
			c07GenuineRejected(r, out.ans, fmt.Sprintf("in-order delivery of tx %d answered %s", id, out.ans), map[string]interface{}{"primary": p.label, "tx": id, "export": hx.Hex(p.exp[id])})
			return nil
		}
		rp.checkTx(p, id, "in-order")
		if ext && (rng.Chance(40) || id == p.n) {
			rp.allow(id)
			if synced {
				rp.sync()
			}
		}
		if rng.Chance(20) {
			rp.corrState()
		}
	}
	rp.corrState()
	rp.checkCommitted(p, rng, p.n)
	r.Count(fmt.Sprintf("schedule.in-order.synced=%v.ext=%v.skip=%v", synced, ext, skip))
	return nil
}

// random walk over one replica with external commit allowance: genuine / duplicate / future / altered deliveries,
// discards, allowances, restarts
func c07Walk(r *hx.Result, rng *hx.Rng, p *c07Prim, synced bool, alterPerTx int, skipMode int) error {
	r.NextCase()
	maxActive := 2 + rng.Intn(5)
	rp, err := c07OpenReplica(r, p, synced, true, maxActive)
	if err != nil {
		return err
	}
	defer rp.close()
	steps := 0
	for rp.st.LastPrecommittedTxID() < p.n && steps < int(p.n)*12 {
		steps++
		pre := rp.st.LastPrecommittedTxID()
		cid, _ := rp.st.CommittedAlh()
		next := pre + 1
		skip := skipMode == 1 || (skipMode == 2 && rng.Bool())
		switch c := rng.Intn(100); {
		case c < 30: // the alteration stream on the next tx, then the genuine one
			for _, a := range c07Alterations(rng, p, next, alterPerTx) {
				rp.deliverAltered(p, next, a, skip)
			}
			fallthrough
		case c < 55:
			before := rp.state()
			out := rp.deliver(p.exp[next], skip)
			r.Eval(fmt.Sprintf("walk:next:%s:%d", p.label, next), true)
			if (out.ans == "err:buffer-full" || out.ans == "err:max-active") && pre-cid >= uint64(maxActive) {
				// back-pressure: MaxActiveTransactions precommitted transactions are waiting for their allowance
				r.Count("walk.back-pressure." + out.ans)
				r.OracleChecks++
				if rp.state() != before {
					r.Fail("C07:replica:rejected-delivery-changed-state", "back-pressure answer changed the state", map[string]interface{}{"primary": p.label, "tx": next})
				}
				rp.allow(pre)
				if synced {
					rp.sync()
				}
				continue
			}
			if !strings.HasPrefix(out.ans, "ok ") {
				c07GenuineRejected(r, out.ans, fmt.Sprintf("delivery of the next tx %d answered %s (state %s)", next, out.ans, before), map[string]interface{}{"primary": p.label, "tx": next})
				return nil
			}
			rp.checkTx(p, next, "walk")
			r.Count("walk.deliver-next")
		case c < 65: // duplicate / old
			if pre == 0 {
				continue
			}
			id := uint64(1 + rng.Intn(int(pre)))
			before := rp.state()
			out := rp.deliver(p.exp[id], skip)
			r.Eval("walk:dup:"+out.ans, true)
			r.OracleChecks++
			if strings.HasPrefix(out.ans, "ok ") || rp.state() != before {
				r.Fail("C07:replica:rejected-delivery-changed-state", fmt.Sprintf("re-delivery of tx %d (precommitted %d) answered %s", id, pre, out.ans), map[string]interface{}{"primary": p.label, "tx": id})
			}
			r.Count("walk.deliver-duplicate." + out.ans)
		case c < 73: // a later tx: within the window the call waits (ends with the context), beyond it is refused
			if next+1 > p.n {
				continue
			}
			id := next + 1 + uint64(rng.Intn(int(p.n-next)))
			if id > pre+uint64(maxActive)+2 {
				id = pre + uint64(maxActive) + uint64(rng.Intn(3))
				if id > p.n {
					continue
				}
			}
			before := rp.state()
			out := rp.deliver(p.exp[id], skip)
			r.Eval("walk:future:"+out.ans, true)
			r.OracleChecks++
			if strings.HasPrefix(out.ans, "ok ") || rp.state() != before {
				r.Fail("C07:replica:rejected-delivery-changed-state", fmt.Sprintf("delivery of future tx %d (precommitted %d) answered %s", id, pre, out.ans), map[string]interface{}{"primary": p.label, "tx": id})
			}
			r.Count("walk.deliver-future." + out.ans)
		case c < 80: // discard
			if pre == 0 {
				continue
			}
			// (tx 1 included: since the repair of performPrecommit a re-replicated tx 1, BlTxID = 0, gets the zero BlRoot)
			id := cid + uint64(rng.Intn(int(pre-cid)+2))
			rp.discard(id)
			r.Count("walk.discard")
			rp.corrState()
		case c < 90: // allowance
			id := cid + uint64(rng.Intn(int(pre-cid)+2))
			rp.allow(id)
			if synced && rng.Chance(70) {
				rp.sync()
			}
			r.Count("walk.allow")
			rp.corrState()
		case c < 95: // close / reopen
			if err := rp.restart(); err != nil {
				return err
			}
			r.Count("walk.restart")
			rp.corrState()
			// every tx the replica holds after the restart is still the primary's — except that a DISCARDED precommitted tx
			// is re-loaded from the tx log ("Discarding may need to be redone after re-opening the store"): when the
			// discarded one was an altered export that had been precommitted (K3 / skipIntegrityCheck), it is back.
			for id := uint64(1); id <= rp.st.LastPrecommittedTxID(); id++ {
				h, err := rp.st.ReadTxHeader(id, true, false)
				if err == nil && h.Alh() != p.alhs[id] && id > cid && rp.tainted {
					r.Count("walk.restart.discarded-altered-tx-reloaded")
					rp.discard(id)
					break
				}
				if err == nil && id > cid && rp.stripped[id] && !p.trunc[id] {
					holder := store.NewTx(rp.maxEnt, rp.maxKey)
					if _, xerr := rp.st.ExportTx(id, true, false, holder); xerr != nil {
						r.Count("walk.restart.discarded-stripped-tx-reloaded")
						rp.discard(id)
						break
					}
				}
				rp.checkTx(p, id, "after-restart")
			}
		default:
			if synced {
				rp.sync()
			}
			rp.corrState()
		}
	}
	pre := rp.st.LastPrecommittedTxID()
	rp.allow(pre)
	if synced {
		rp.sync()
	}
	rp.corrState()
	for id := uint64(1); id <= pre; id++ {
		rp.checkTx(p, id, "walk-end")
	}
	rp.checkCommitted(p, rng, pre)
	r.Count(fmt.Sprintf("schedule.walk.synced=%v", synced))
	return nil
}

// concurrent out-of-order delivery within the window, with duplicates
func c07Concurrent(r *hx.Result, rng *hx.Rng, p *c07Prim, ext bool) error {
	r.NextCase()
	maxActive := 3 + rng.Intn(6)
	// A batch is up to 2*maxActive+1 simultaneous ReplicateTx calls, and every call that waits for its predecessor keeps a
	// Tx holder of the pool (MaxConcurrency entries) while it waits: with the pool of 8 the other replicas use, the
	// delivery everybody waits for can find the pool empty (ErrMaxConcurrencyLimitExceeded) and the waiting ones then sit
	// there until their context ends. The pool of this replica holds a whole batch; what still is answered with the
	// transient class (timing) is repeated, see c07Retry.
	c07NextMaxConc = 2*maxActive + 2
	rp, err := c07OpenReplica(r, p, false, ext, maxActive)
	c07NextMaxConc = 0
	if err != nil {
		return err
	}
	defer rp.close()
	for rp.st.LastPrecommittedTxID() < p.n {
		pre := rp.st.LastPrecommittedTxID()
		cid, _ := rp.st.CommittedAlh()
		free := maxActive - int(pre-cid) // slots of the precommit buffer
		if free <= 0 {
			rp.allow(pre)
			continue
		}
		w := 1 + rng.Intn(free)
		if pre+uint64(w) > p.n {
			w = int(p.n - pre)
		}
		var ids []uint64
		for i := 1; i <= w; i++ {
			ids = append(ids, pre+uint64(i))
			if rng.Chance(30) {
				ids = append(ids, pre+uint64(i)) // duplicate
			}
		}
		if pre > 0 && rng.Chance(40) {
			ids = append(ids, uint64(1+rng.Intn(int(pre)))) // an old one
		}
		for i := len(ids) - 1; i > 0; i-- {
			j := rng.Intn(i + 1)
			ids[i], ids[j] = ids[j], ids[i]
		}
		type res struct {
			id      uint64
			ans     string
			retries int
		}
		results := make([]res, len(ids))
		one := func(i int, id uint64) {
			defer func() {
				if x := recover(); x != nil {
					results[i] = res{id, "panic", 0}
				}
			}()
			ctx, cancel := context.WithTimeout(context.Background(), c07Bound())
			defer cancel()
			raw := rp.st.raw // goroutines other than the Result's owner use the store directly, with a context that ends
			h, err, n := c07Retry(func() (*store.TxHeader, error) { return raw.ReplicateTx(ctx, p.exp[id], false, false) })
			if err != nil {
				results[i] = res{id, c07Class(err), results[i].retries + n}
				return
			}
			a := h.Alh()
			results[i] = res{id, fmt.Sprintf("ok %d %s", h.ID, hx.Hex(a[:])), results[i].retries + n}
		}
		var wg sync.WaitGroup
		for i, id := range ids {
			wg.Add(1)
			go func(i int, id uint64) {
				defer wg.Done()
				one(i, id)
			}(i, id)
		}
		c07T("ReplicateTx x%d concurrently: txs %v", len(ids), ids)
		if !c07Quiet(2*c07Bound()+c07RetryMax*c07RetrySleep, wg.Wait) {
			c07ReportHang(r, "ReplicateTx", " (concurrent batch: the calls did not return although their contexts ended)")
			panic(c07Hang{"ReplicateTx"})
		}
		// a delivery that was only ever answered with the transient back-pressure class has not been examined by the
		// store yet: it is made again now that nothing else is in flight (ascending ids: each finds its predecessor)
		var again []int
		for i := range results {
			if results[i].ans == "err:max-concurrency" {
				again = append(again, i)
			}
		}
		sort.SliceStable(again, func(a, b int) bool { return results[again[a]].id < results[again[b]].id })
		for _, i := range again {
			r.Count("transient.max-concurrency.redelivered-after-batch")
			one(i, results[i].id)
		}
		for _, x := range results {
			c07CountRetries(r, "concurrent", x.retries)
		}
		// linearisation: the accepted deliveries in id order, then every other one (they all found the tx already there)
		sort.SliceStable(results, func(a, b int) bool {
			oa, ob := strings.HasPrefix(results[a].ans, "ok "), strings.HasPrefix(results[b].ans, "ok ")
			if oa != ob {
				return oa
			}
			return results[a].id < results[b].id
		})
		accepted := map[uint64]int{}
		unresolved := false
		for _, x := range results {
			if c07StillTransient(r, x.ans, "concurrent batch, repeated alone afterwards", map[string]interface{}{"primary": p.label, "tx": x.id}) {
				unresolved = true // never examined by the store: nothing to compare with the model
				continue
			}
			r.Corr(fmt.Sprintf("c07 rep %s %s 0", rp.name, hx.Hex(p.exp[x.id])), x.ans)
			if strings.HasPrefix(x.ans, "ok ") {
				accepted[x.id]++
			} else if x.ans != "err:already-committed" {
				c07GenuineRejected(r, x.ans, fmt.Sprintf("concurrent delivery of tx %d answered %s", x.id, x.ans), map[string]interface{}{"primary": p.label, "tx": x.id})
			}
			r.Count("concurrent.answer." + strings.SplitN(x.ans, " ", 2)[0])
		}
		if unresolved {
			return nil // reported above; the scenario cannot go on
		}
		r.OracleChecks++
		for i := 1; i <= w; i++ {
			if accepted[pre+uint64(i)] != 1 {
				r.Fail("C07:replica:history-differs", fmt.Sprintf("concurrent batch: tx %d accepted %d times", pre+uint64(i), accepted[pre+uint64(i)]), map[string]interface{}{"primary": p.label})
			}
		}
		r.Eval(fmt.Sprintf("concurrent:%s:%d:%d", p.label, pre, len(ids)), true)
		rp.corrState()
		if ext && rng.Chance(60) {
			rp.allow(rp.st.LastPrecommittedTxID() - uint64(rng.Intn(2)))
		}
	}
	if ext {
		rp.allow(p.n)
	}
	rp.corrState()
	for id := uint64(1); id <= p.n; id++ {
		rp.checkTx(p, id, "concurrent")
	}
	rp.checkCommitted(p, rng, p.n)
	r.Count(fmt.Sprintf("schedule.concurrent.ext=%v", ext))
	return nil
}

// a replica whose limits are smaller than the primary's: the limit errors, state unchanged
func c07Limits(r *hx.Result, rng *hx.Rng, p *c07Prim) error {
	r.NextCase()
	c07NameSeq++
	rp := &c07Rep{r: r, name: fmt.Sprintf("r%d", c07NameSeq), dir: hx.TempDir("c07r"), ext: true, maxActive: 4,
		maxKey: 8 + rng.Intn(8), maxVal: 20 + rng.Intn(60), maxEnt: 2 + rng.Intn(3), stripped: map[uint64]bool{}}
	st, err := c07OpenStore(r, filepath.Join(rp.dir, "r"), rp.options())
	if err != nil {
		os.RemoveAll(rp.dir)
		return err
	}
	rp.st = st
	defer rp.close()
	r.Corr(fmt.Sprintf("c07 new %s %d %d %d %d 0 1", rp.name, rp.maxActive, rp.maxKey, rp.maxVal, rp.maxEnt), "ok")
	for id := uint64(1); id <= p.n; id++ {
		before := rp.state()
		out := rp.deliver(p.exp[id], false)
		r.Eval("limits:"+out.ans, true)
		r.Count("limits.answer." + strings.SplitN(out.ans, " ", 2)[0])
		if !strings.HasPrefix(out.ans, "ok ") {
			r.OracleChecks++
			if rp.state() != before {
				r.Fail("C07:replica:rejected-delivery-changed-state", "limit error changed the state: "+out.ans, map[string]interface{}{"primary": p.label, "tx": id})
			}
			break
		}
	}
	return nil
}

// durability of what a Synced replica reports: a copy of its directory taken right after the report re-opens with
// at least the reported precommitted state
func c07Durable(r *hx.Result, rng *hx.Rng, p *c07Prim) error {
	r.NextCase()
	rp, err := c07OpenReplica(r, p, true, true, 16)
	if err != nil {
		return err
	}
	defer rp.close()
	for id := uint64(1); id <= p.n && id <= 8; id++ {
		out := rp.deliver(p.exp[id], false)
		if !strings.HasPrefix(out.ans, "ok ") {
			c07GenuineRejected(r, out.ans, "synced replica: "+out.ans, map[string]interface{}{"primary": p.label, "tx": id})
			return nil
		}
		did, dalh := rp.st.PrecommittedAlh()
		if rng.Chance(50) || id == p.n {
			cp := hx.TempDir("c07c")
			if err := copyDir(filepath.Join(rp.dir, "r"), filepath.Join(cp, "r")); err == nil {
				st2, err := c07OpenStore(r, filepath.Join(cp, "r"), rp.options())
				r.OracleChecks++
				if err != nil {
					r.Fail("C07:sync:reported-precommit-not-durable", fmt.Sprintf("copy of the replica directory taken after it reported precommitted=%d does not open: %v", did, err), map[string]interface{}{"primary": p.label})
				} else {
					pid2 := st2.LastPrecommittedTxID()
					ok := pid2 >= did
					if ok && did > 0 {
						h, err := st2.ReadTxHeader(did, true, false)
						ok = err == nil && h.Alh() == dalh
					}
					if !ok {
						r.Fail("C07:sync:reported-precommit-not-durable", fmt.Sprintf("replica reported durable precommit %d; the on-disk copy re-opens with precommitted %d", did, pid2), map[string]interface{}{"primary": p.label})
					}
					st2.Close()
					r.Count("oracle.durable-copy-reopened")
				}
			}
			os.RemoveAll(cp)
		}
	}
	return nil
}

// ------------------------------------------------------------------ runner

var c07T0 = time.Now()

func c07Lap(tag string) {
	if os.Getenv("C07_TIMING") != "" {
		fmt.Fprintf(os.Stderr, "[%7.2fs] %s\n", time.Since(c07T0).Seconds(), tag)
	}
}

func runC07(r *hx.Result, rng *hx.Rng, thorough bool, replay string) error {
	r.Rule = "one evaluation = one delivery (genuine, duplicate, out of order, altered) or schedule step checked by the oracle; non-trivial = distinct (schedule kind, alteration class, outcome class)"
	nPrim, walks, alter := 5, 1, 10
	if thorough {
		nPrim, walks, alter = 16, 3, 30
	}
	specs := []c07PrimSpec{
		{n: 9, ver: 1, embedded: false, manyEvery: 0},
		{n: 8, ver: 0, embedded: true, manyEvery: 0},
		{n: 12, ver: 1, truncate: true},
		{n: 7, ver: 1, embedded: true, manyEvery: 3},
		{n: 10, ver: 0, embedded: false, manyEvery: 0},
	}
	for i := 0; i < nPrim; i++ {
		sp := specs[i%len(specs)]
		if i >= len(specs) {
			sp.n = 4 + rng.Intn(30)
			sp.ver = rng.Intn(2)
			sp.embedded = rng.Bool()
			if rng.Chance(25) {
				sp.manyEvery = 2 + rng.Intn(5)
			}
		}
		if only := os.Getenv("C07_ONLY"); (only == "truncate" && !sp.truncate) || only == "acks" || only == "exporters" {
			rng.Fork()
			continue
		}
		var p *c07Prim
		err, hung := c07Run(r, "build-primary", func() (err error) { p, err = c07BuildPrimary(r, rng.Fork(), sp); return err })
		if err != nil || hung {
			if p != nil {
				p.close()
			}
			if hung {
				continue
			}
			return fmt.Errorf("primary: %w", err)
		}
		// one scenario = one replica of its own: a call that does not return (liveness bound, c07live.go) is an oracle
		// failure that abandons the scenario; the next one starts from a fresh replica
		scn := func(name string, f func() error) error {
			if c07TooManyHangs() {
				return nil
			}
			err, _ := c07Run(r, name+" primary="+p.label, f)
			return err
		}
		err = func() error {
			defer p.close()
			if p.n == 0 {
				return nil
			}
			r.Sample(map[string]interface{}{"primary": p.label, "txs": p.n, "first_export": hx.Hex(p.exp[1])[:min(200, 2*len(p.exp[1]))]})
			c07Lap("primary built " + p.label)
			small := sp.manyEvery == 0 // the alteration stream re-sends the export many times: keep those histories small
			if err := scn("in-order", func() error { return c07InOrder(r, rng.Fork(), p, false, false, i%2 == 1) }); err != nil {
				return err
			}
			c07Lap("inorder1")
			if err := scn("in-order", func() error { return c07InOrder(r, rng.Fork(), p, i%2 == 0, true, false) }); err != nil {
				return err
			}
			c07Lap("inorder2")
			if small {
				for w := 0; w < walks; w++ {
					if err := scn("walk", func() error { return c07Walk(r, rng.Fork(), p, (i+w)%3 == 0, alter, (i+w)%3) }); err != nil {
						return err
					}
				}
			}
			c07Lap("walks")
			if err := scn("concurrent", func() error { return c07Concurrent(r, rng.Fork(), p, i%2 == 0) }); err != nil {
				return err
			}
			c07Lap("concurrent")
			if i%2 == 0 {
				if err := scn("limits", func() error { return c07Limits(r, rng.Fork(), p) }); err != nil {
					return err
				}
			}
			if i%3 == 0 {
				if err := scn("durable-copy", func() error { return c07Durable(r, rng.Fork(), p) }); err != nil {
					return err
				}
			}
			c07Lap("limits+durable")
			err := r.Flush()
			c07Lap("flush")
			return err
		}()
		if err != nil {
			return err
		}
	}
	// several exporters on one primary while committers keep writing (c07cx.go); its own random stream, a function of
	// the seed only: `C07_ONLY=exporters` re-runs this part alone
	if only := os.Getenv("C07_ONLY"); !c07TooManyHangs() && (only == "" || only == "exporters") {
		if err := c07ExportersPart(r, hx.NewRng(r.Seed*0x9E3779B97F4A7C15+0xC07E4B), thorough); err != nil {
			return err
		}
		c07Lap("exporters")
		if only == "exporters" {
			mx, calls, over := c07ExportMeasure()
			r.Extra["export_max_in_flight_per_store"] = mx
			r.Extra["export_calls"] = calls
			r.Extra["export_calls_overlapping_another"] = over
			return nil
		}
	}
	// acknowledgements only cover durable state: forked histories, a Synced replica on a crash-simulating file system,
	// precommit / sync / allow / discard / re-replicate / restart / crash in any order (c07ack.go)
	if !c07TooManyHangs() {
		// (its own random stream, a function of the seed only: `C07_ONLY=acks` re-runs this part alone)
		if err := c07Acks(r, hx.NewRng(r.Seed*0x9E3779B97F4A7C15+0xC07AC5), thorough); err != nil {
			return err
		}
		c07Lap("acks")
		if err := r.Flush(); err != nil {
			return err
		}
	}
	if os.Getenv("C07_ONLY") == "acks" {
		return nil
	}
	if !c07TooManyHangs() {
		err, _ := c07Run(r, "probes", func() error { return c07Probes(r, rng.Fork()) })
		if err != nil {
			return err
		}
	}
	c07Lap("probes")
	if err := r.Flush(); err != nil {
		return err
	}
	if !c07TooManyHangs() {
		err := c07DB(r, rng.Fork(), thorough)
		c07Lap("db")
		if err != nil {
			return err
		}
	}
	{
		mx, calls, over := c07ExportMeasure()
		r.Extra["export_max_in_flight_per_store"] = mx
		r.Extra["export_calls"] = calls
		r.Extra["export_calls_overlapping_another"] = over
	}
	r.Extra["liveness_bound"] = c07Bound().String()
	r.Extra["hangs"] = c07Hangs
	if c07Hangs > 0 {
		// a scenario was abandoned: the distribution below is incomplete, which is not what the failure is about
		return nil
	}
	// a generator whose distribution collapses must not pass silently
	need := []string{"walk.deliver-next", "walk.discard", "walk.restart", "walk.allow", "concurrent.answer.ok", "concurrent.answer.err:already-committed",
		"alter.outcome.err:illegal", "primary.export.by-digest", "primary.tx.metadata", "primary.entry.kvmd", "primary.entry.empty-value",
		"db.set-returned", "db.fetch.ok", "oracle.dualproof-verified", "oracle.queries-compared", "schedule.in-order.synced=true.ext=true.skip=false",
		"acks.step.rep", "acks.step.sync", "acks.step.discard", "acks.step.allow", "acks.step.crash", "acks.step.restart", "acks.oracle.crash-image-reopened",
		"acks.oracle.ack-survives-crash", "acks.replicate-returned",
		"cx.export.calls", "cx.export.calls-while-another-in-flight", "cx.replica.reproduced-whole-history", "cx.value.beyond-scratch-size", "cx.value.below-scratch-size",
		"cx.reference.with-values", "cx.reference.by-digest", "cx.tie.tx", "cx.primary.txs-committed-while-exporting"}
	for _, k := range need {
		if r.Distribution[k] == 0 {
			r.Inconclusive = append(r.Inconclusive, "generator never produced "+k)
		}
	}
	accepted, rejected := 0, 0
	for k, v := range r.Distribution {
		if strings.HasPrefix(k, "alter.accepted-") {
			accepted += v
		}
		if strings.HasPrefix(k, "alter.outcome.") {
			rejected += v
		}
	}
	if accepted == 0 || rejected == 0 {
		r.Inconclusive = append(r.Inconclusive, fmt.Sprintf("alteration stream collapsed: %d accepted, %d rejected", accepted, rejected))
	}
	r.Extra["alterations_accepted"] = accepted
	r.Extra["alterations_rejected"] = rejected
	return nil
}
