package main

// C15 — Codecs round-trip, and key encodings preserve SQL order.
//
// The real codecs of /repo (embedded/sql: EncodeRawValueAsKey, DecodeValueFromKey, EncodeValue,
// EncodeNullableValue, DecodeValue, DecodeNullableValue, the Compare methods; embedded/store:
// TxMetadata, KVMetadata, TxHeader Bytes/ReadFrom) are called directly on boundary-biased values.
// Every call is mirrored by one line for the Lean driver (byte-exact answers), and a
// model-independent oracle checks: decode(encode(v)) == v, Compare(a,b) == bytes.Compare(key(a),key(b)),
// equal values => identical keys, composite keys order like rows.

import (
	"bytes"
	"context"
	"encoding/binary"
	"encoding/hex"
	"errors"
	"fmt"
	"math"
	"os"
	"reflect"
	"strings"
	"time"
	"unsafe"

	"github.com/codenotary/immudb/embedded/logger"
	"github.com/codenotary/immudb/embedded/sql"
	"github.com/codenotary/immudb/embedded/store"
	"github.com/google/uuid"

	"verif/harness/internal/hx"
)

func init() { runners["C15"] = runC15 }

// KVMetadata.unsafeReadFrom is unexported and only reachable through a store; it is a pure
// function of its argument, so it is linked directly (no hook in /repo needed).
//
//go:linkname c15KvmdUnsafeReadFrom github.com/codenotary/immudb/embedded/store.(*KVMetadata).unsafeReadFrom
func c15KvmdUnsafeReadFrom(md *store.KVMetadata, b []byte) error

// ---------------------------------------------------------------- value plumbing

type c15Val struct {
	null bool
	ty   sql.SQLValueType
	s    string    // varchar
	i    int64     // integer
	b    bool      // boolean
	x    []byte    // blob
	u    uuid.UUID // uuid
	t    time.Time // timestamp
	f    uint64    // float64 bits
}

func hexs(b []byte) string { return hex.EncodeToString(b) }

func c15TyName(t sql.SQLValueType) string {
	switch t {
	case sql.VarcharType:
		return "varchar"
	case sql.IntegerType:
		return "integer"
	case sql.BooleanType:
		return "boolean"
	case sql.BLOBType:
		return "blob"
	case sql.UUIDType:
		return "uuid"
	case sql.TimestampType:
		return "timestamp"
	case sql.Float64Type:
		return "float64"
	case sql.JSONType:
		return "json"
	}
	return "other"
}

// a *sql.Timestamp cannot be constructed from outside the package (unexported field, no
// constructor): set the single time.Time field through reflection.
func c15NewTimestamp(t time.Time) sql.TypedValue {
	ts := &sql.Timestamp{}
	rv := reflect.ValueOf(ts).Elem()
	if rv.NumField() != 1 || rv.Field(0).Type() != reflect.TypeOf(time.Time{}) {
		panic("sql.Timestamp layout changed")
	}
	f := rv.Field(0)
	reflect.NewAt(f.Type(), unsafe.Pointer(f.UnsafeAddr())).Elem().Set(reflect.ValueOf(t))
	return ts
}

func (v c15Val) raw() interface{} {
	if v.null {
		return nil
	}
	switch v.ty {
	case sql.VarcharType:
		return v.s
	case sql.IntegerType:
		return v.i
	case sql.BooleanType:
		return v.b
	case sql.BLOBType:
		return v.x
	case sql.UUIDType:
		return v.u
	case sql.TimestampType:
		return v.t
	case sql.Float64Type:
		return math.Float64frombits(v.f)
	}
	return nil
}

func (v c15Val) typed() sql.TypedValue {
	if v.null {
		return sql.NewNull(v.ty)
	}
	switch v.ty {
	case sql.VarcharType:
		return sql.NewVarchar(v.s)
	case sql.IntegerType:
		return sql.NewInteger(v.i)
	case sql.BooleanType:
		return sql.NewBool(v.b)
	case sql.BLOBType:
		return sql.NewBlob(v.x)
	case sql.UUIDType:
		return sql.NewUUID(v.u)
	case sql.TimestampType:
		return c15NewTimestamp(v.t)
	case sql.Float64Type:
		return sql.NewFloat64(math.Float64frombits(v.f))
	}
	return sql.NewNull(v.ty)
}

// canonical token of a raw Go value (same syntax the Lean driver parses/prints)
func c15Tok(raw interface{}) string {
	switch x := raw.(type) {
	case nil:
		return "N"
	case string:
		return "s:" + hexs([]byte(x))
	case int64:
		return fmt.Sprintf("i:%d", x)
	case bool:
		if x {
			return "b:1"
		}
		return "b:0"
	case []byte:
		return "x:" + hexs(x)
	case uuid.UUID:
		return "u:" + hexs(x[:])
	case time.Time:
		return fmt.Sprintf("t:%d:%d", x.Unix(), x.Nanosecond())
	case float64:
		return fmt.Sprintf("f:%016x", math.Float64bits(x))
	}
	return fmt.Sprintf("?%T", raw)
}

func (v c15Val) tok() string { return c15Tok(v.raw()) }

func c15SqlErr(err error) string {
	switch {
	case err == nil:
		return "ok"
	case errors.Is(err, sql.ErrMaxKeyLengthExceeded):
		return "err:maxkeylen"
	case errors.Is(err, sql.ErrMaxLengthExceeded):
		return "err:maxlen"
	case errors.Is(err, sql.ErrCorruptedData):
		return "err:corrupted"
	case errors.Is(err, sql.ErrNotComparableValues):
		return "err:notcomparable"
	case errors.Is(err, sql.ErrInvalidValue):
		return "err:invalid"
	}
	return "err:other:" + err.Error()
}

func c15StoreErr(err error) string {
	switch {
	case err == nil:
		return "ok"
	case errors.Is(err, store.ErrNewerVersionOrCorruptedData):
		return "err:newer"
	case errors.Is(err, store.ErrCorruptedData):
		return "err:corrupted"
	case errors.Is(err, store.ErrIllegalArguments):
		return "err:illegal"
	case errors.Is(err, store.ErrMetadataUnsupported):
		return "err:mdunsupported"
	case errors.Is(err, store.ErrUnsupportedTxHeaderVersion):
		return "err:version"
	}
	return "err:other:" + err.Error()
}

type c15Replay struct {
	Kind   string   `json:"kind"`
	Ops    []string `json:"ops,omitempty"`
	Detail string   `json:"detail,omitempty"`
}

// ---------------------------------------------------------------- generators (boundary biased)

func c15Ints(rng *hx.Rng, n int) []int64 {
	out := []int64{math.MinInt64, math.MinInt64 + 1, -1, 0, 1, math.MaxInt64, math.MaxInt64 - 1, -256, 255, 256, -255, 1 << 56, -(1 << 56), (1 << 56) - 1}
	for len(out) < n {
		switch rng.Intn(4) {
		case 0:
			k := uint(rng.Intn(63))
			v := int64(1) << k
			v += int64(rng.Intn(3)) - 1
			if rng.Bool() {
				v = -v
			}
			out = append(out, v)
		case 1:
			out = append(out, int64(rng.Intn(1000))-500)
		default:
			out = append(out, int64(rng.U64()))
		}
	}
	return out
}

func c15FloatBits(rng *hx.Rng, n int) []uint64 {
	const sign = uint64(1) << 63
	out := []uint64{
		0, sign, // +0 -0
		0x7FF0000000000000, 0xFFF0000000000000, // +inf -inf
		1, sign | 1, // smallest subnormals
		0x000FFFFFFFFFFFFF, sign | 0x000FFFFFFFFFFFFF, // largest subnormals
		0x0010000000000000, sign | 0x0010000000000000, // smallest normals
		0x7FEFFFFFFFFFFFFF, 0xFFEFFFFFFFFFFFFF, // max finite
		0x3FF0000000000000, 0xBFF0000000000000, // +-1
		0x7FF8000000000000, 0xFFF8000000000000, // quiet NaNs
		0x7FF0000000000001, 0xFFF0000000000001, // signalling NaNs
		0x7FFFFFFFFFFFFFFF, 0xFFFFFFFFFFFFFFFF, // all-ones NaNs
		0x3FF0000000000001, 0x3FEFFFFFFFFFFFFF, // neighbours of 1
	}
	for len(out) < n {
		switch rng.Intn(5) {
		case 0:
			b := out[rng.Intn(len(out))]
			out = append(out, b+uint64(rng.Intn(3))-1)
		case 1:
			out = append(out, math.Float64bits(float64(int64(rng.Intn(2000))-1000)/8))
		case 2:
			out = append(out, uint64(rng.Intn(0x800))<<52|(rng.U64()&0x000FFFFFFFFFFFFF)) // positive, any exponent
		default:
			out = append(out, rng.U64())
		}
	}
	return out
}

func c15IsNaN(b uint64) bool  { return b&0x7FFFFFFFFFFFFFFF > 0x7FF0000000000000 }
func c15IsZero(b uint64) bool { return b&0x7FFFFFFFFFFFFFFF == 0 }

func c15Strings(rng *hx.Rng, maxLen, n int, over bool) [][]byte {
	full := func(c byte) []byte { return bytes.Repeat([]byte{c}, maxLen) }
	out := [][]byte{{}, {0}, {'a'}, {'a', 0}, {'a', 0, 0}, {0, 0}, {'a', 'b'}, {'b'}, {0xff}, {1}, full(0), full(0xff), full('a')}
	if maxLen > 1 {
		out = append(out, full(0)[:maxLen-1], append(full(0xff)[:maxLen-1], 0), append(full(0)[:maxLen-1], 1))
	}
	for len(out) < n {
		l := rng.Size(maxLen)
		b := rng.Bytes(l)
		switch rng.Intn(4) {
		case 0: // sprinkle NULs
			for i := range b {
				if rng.Intn(3) == 0 {
					b[i] = 0
				}
			}
		case 1: // extension of an existing string
			p := out[rng.Intn(len(out))]
			b = append(append([]byte{}, p...), rng.Bytes(rng.Intn(3))...)
		case 2: // small alphabet => many common prefixes
			for i := range b {
				b[i] = byte(rng.Intn(3))
			}
		}
		out = append(out, b)
	}
	var res [][]byte
	for _, b := range out {
		if len(b) <= maxLen {
			res = append(res, b)
		}
	}
	if over {
		res = append(res, bytes.Repeat([]byte{'x'}, maxLen+1), rng.Bytes(maxLen+2))
	}
	return res
}

const (
	c15MaxNanoSec  = int64(9223372036)
	c15MaxNanoNsec = int64(854775807)
)

func c15InNano(t time.Time) bool {
	s, n := t.Unix(), int64(t.Nanosecond())
	if s > c15MaxNanoSec || (s == c15MaxNanoSec && n > c15MaxNanoNsec) {
		return false
	}
	// min = -2^63 ns = (-9223372037 s, 145224192 ns)
	if s < -9223372037 || (s == -9223372037 && n < 145224192) {
		return false
	}
	return true
}

func c15InMicro(t time.Time) bool {
	s := t.Unix()
	return s > -9223372036854 && s < 9223372036854
}

func c15Times(rng *hx.Rng, n int) []time.Time {
	mk := func(s, ns int64) time.Time { return time.Unix(s, ns).UTC() }
	out := []time.Time{
		mk(0, 0), mk(0, 1), mk(-1, 999999999), mk(-1, 999999000), mk(1, 0), mk(0, 999), mk(0, 1000),
		mk(c15MaxNanoSec, c15MaxNanoNsec), mk(c15MaxNanoSec, c15MaxNanoNsec+1), mk(c15MaxNanoSec, c15MaxNanoNsec-1),
		mk(-9223372037, 145224192), mk(-9223372037, 145224191), mk(-9223372037, 145224193),
		mk(-11676096000, 0), mk(10413792000, 500), mk(-62135596800, 0), mk(253402300799, 999999999),
		mk(-86400*365*100, 123456000), mk(1<<40, 5), mk(-(1 << 40), 7),
		time.Date(1969, 12, 31, 23, 59, 59, 999999000, time.UTC),
		time.Date(2024, 2, 29, 12, 0, 0, 1000, time.FixedZone("x", 3600*5)),
	}
	for len(out) < n {
		switch rng.Intn(5) {
		case 0: // µs precision around the epoch, both signs
			out = append(out, mk(int64(rng.Intn(1<<30))-(1<<29), int64(rng.Intn(1000000))*1000))
		case 1: // ns precision
			out = append(out, mk(int64(rng.U64()>>31)-(1<<32), int64(rng.Intn(1000000000))))
		case 2: // neighbours (1ns / 1µs apart)
			b := out[rng.Intn(len(out))]
			d := time.Duration(rng.Intn(3)-1) * time.Nanosecond
			if rng.Bool() {
				d *= 1000
			}
			out = append(out, b.Add(d))
		case 3: // anywhere in year 1..9999
			out = append(out, mk(int64(rng.U64()%315537897599)-62135596800, int64(rng.Intn(1000000000))))
		default:
			out = append(out, mk(int64(rng.Intn(4e9)), int64(rng.Intn(1000))*1000000))
		}
	}
	return out
}

func c15UUIDs(rng *hx.Rng, n int) []uuid.UUID {
	var z, f uuid.UUID
	for i := range f {
		f[i] = 0xff
	}
	out := []uuid.UUID{z, f}
	for len(out) < n {
		var u uuid.UUID
		copy(u[:], rng.Bytes(16))
		if rng.Intn(3) == 0 { // neighbour: differ only in the last byte / share a prefix
			u = out[rng.Intn(len(out))]
			u[15-rng.Intn(3)] ^= byte(1 + rng.Intn(255))
		}
		out = append(out, u)
	}
	return out
}

// pool of values of one column (ty, maxLen), NULL included
func c15Pool(rng *hx.Rng, ty sql.SQLValueType, maxLen, n int) []c15Val {
	var out []c15Val
	out = append(out, c15Val{null: true, ty: ty})
	switch ty {
	case sql.IntegerType:
		for _, i := range c15Ints(rng, n) {
			out = append(out, c15Val{ty: ty, i: i})
		}
	case sql.Float64Type:
		for _, f := range c15FloatBits(rng, n) {
			out = append(out, c15Val{ty: ty, f: f})
		}
	case sql.BooleanType:
		out = append(out, c15Val{ty: ty, b: false}, c15Val{ty: ty, b: true})
	case sql.VarcharType:
		for _, s := range c15Strings(rng, maxLen, n, false) {
			out = append(out, c15Val{ty: ty, s: string(s)})
		}
	case sql.BLOBType:
		for _, s := range c15Strings(rng, maxLen, n, false) {
			out = append(out, c15Val{ty: ty, x: s})
		}
	case sql.UUIDType:
		for _, u := range c15UUIDs(rng, n) {
			out = append(out, c15Val{ty: ty, u: u})
		}
	case sql.TimestampType:
		for _, t := range c15Times(rng, n) {
			out = append(out, c15Val{ty: ty, t: t})
		}
	}
	return out
}

func c15FixedLen(ty sql.SQLValueType) int {
	switch ty {
	case sql.IntegerType, sql.TimestampType, sql.Float64Type:
		return 8
	case sql.BooleanType:
		return 1
	case sql.UUIDType:
		return 16
	}
	return 0
}

// ---------------------------------------------------------------- calls into the real code (panic-safe)

func c15Kenc(v c15Val, ty sql.SQLValueType, maxLen int) (enc []byte, n int, cls string) {
	defer func() {
		if e := recover(); e != nil {
			cls = "panic"
		}
	}()
	enc, n, err := sql.EncodeRawValueAsKey(v.raw(), ty, maxLen)
	return enc, n, c15SqlErr(err)
}

func c15Kdec(buf []byte, ty sql.SQLValueType, maxLen int) (tv sql.TypedValue, n int, cls string) {
	defer func() {
		if e := recover(); e != nil {
			cls = "panic"
		}
	}()
	tv, n, err := sql.DecodeValueFromKey(buf, ty, maxLen)
	return tv, n, c15SqlErr(err)
}

func c15Cmp(a, b sql.TypedValue) (c int, cls string) {
	defer func() {
		if e := recover(); e != nil {
			cls = "panic"
		}
	}()
	c, err := a.Compare(b)
	return c, c15SqlErr(err)
}

func c15Venc(v c15Val, ty sql.SQLValueType, maxLen int, nullable bool) (enc []byte, cls string) {
	defer func() {
		if e := recover(); e != nil {
			cls = "panic"
		}
	}()
	var err error
	if nullable {
		enc, err = sql.EncodeNullableValue(v.typed(), ty, maxLen)
	} else {
		enc, err = sql.EncodeValue(v.typed(), ty, maxLen)
	}
	return enc, c15SqlErr(err)
}

func c15Vdec(buf []byte, ty sql.SQLValueType, nullable bool) (tv sql.TypedValue, n int, cls string) {
	defer func() {
		if e := recover(); e != nil {
			cls = "panic"
		}
	}()
	var err error
	if nullable {
		tv, n, err = sql.DecodeNullableValue(buf, ty)
	} else {
		tv, n, err = sql.DecodeValue(buf, ty)
	}
	return tv, n, c15SqlErr(err)
}

func c15KencAns(enc []byte, n int, cls string) string {
	if cls != "ok" {
		return cls
	}
	return fmt.Sprintf("ok %s %d", hx.Hex(enc), n)
}

func c15DecAns(tv sql.TypedValue, n int, cls string) string {
	if cls != "ok" {
		return cls
	}
	return fmt.Sprintf("ok %s %d", c15Tok(tv.RawValue()), n)
}

func c15SameRaw(a, b interface{}) bool {
	switch x := a.(type) {
	case nil:
		return b == nil
	case float64:
		y, ok := b.(float64)
		return ok && math.Float64bits(x) == math.Float64bits(y)
	case time.Time:
		y, ok := b.(time.Time)
		return ok && x.Equal(y)
	case []byte:
		y, ok := b.([]byte)
		return ok && bytes.Equal(x, y)
	}
	return reflect.DeepEqual(a, b)
}

func sgn(c int) int {
	if c < 0 {
		return -1
	}
	if c > 0 {
		return 1
	}
	return 0
}

// class of a pair for the order oracle: which exclusion (if any) of the Lean theorem it falls in
func c15PairClass(a, b c15Val) string {
	if a.null || b.null {
		return "ok"
	}
	switch a.ty {
	case sql.Float64Type:
		if c15IsNaN(a.f) || c15IsNaN(b.f) {
			return "nan"
		}
		if c15IsZero(a.f) && c15IsZero(b.f) && a.f != b.f {
			return "negzero"
		}
	case sql.TimestampType:
		if !c15InNano(a.t) || !c15InNano(b.t) {
			return "ts-out-of-nano-range"
		}
	}
	return "ok"
}

// ---------------------------------------------------------------- part 1: index keys

func c15KeyPart(r *hx.Result, rng *hx.Rng, thorough bool) {
	type colSpec struct {
		ty     sql.SQLValueType
		maxLen int
		n      int
	}
	np := 90
	if thorough {
		np = 220
	}
	cols := []colSpec{
		{sql.IntegerType, 8, np}, {sql.Float64Type, 8, np + 20}, {sql.BooleanType, 1, 2}, {sql.UUIDType, 16, np / 2},
		{sql.TimestampType, 8, np},
		{sql.VarcharType, 1, 12}, {sql.VarcharType, 2, 30}, {sql.VarcharType, 3, 40}, {sql.VarcharType, 16, np}, {sql.VarcharType, 256, np / 2},
		{sql.VarcharType, sql.MaxKeyLen, 24},
		{sql.BLOBType, 1, 12}, {sql.BLOBType, 4, 40}, {sql.BLOBType, 255, np / 2}, {sql.BLOBType, sql.MaxKeyLen, 20},
	}
	for _, c := range cols {
		r.NextCase()
		pool := c15Pool(rng, c.ty, c.maxLen, c.n)
		tyN := c15TyName(c.ty)
		encs := make([][]byte, len(pool))
		typed := make([]sql.TypedValue, len(pool))
		for i, v := range pool {
			typed[i] = v.typed()
			enc, n, cls := c15Kenc(v, c.ty, c.maxLen)
			op := fmt.Sprintf("c15 kenc %s %d %s", tyN, c.maxLen, v.tok())
			r.Corr(op, c15KencAns(enc, n, cls))
			r.Count("kenc." + tyN + "." + cls)
			if cls == "panic" {
				r.Fail("C15:EncodeRawValueAsKey:panic", "panic on "+op, c15Replay{Kind: "kenc", Ops: []string{op}})
			}
			if cls != "ok" {
				r.Fail("C15:EncodeRawValueAsKey:rejects-valid-value", "valid value rejected: "+op+" => "+cls, c15Replay{Kind: "kenc", Ops: []string{op}})
				continue
			}
			encs[i] = enc
			// fixed width
			if !v.null {
				want := 1 + c.maxLen
				if c.ty == sql.VarcharType || c.ty == sql.BLOBType {
					want += sql.EncLenLen
				}
				r.OracleChecks++
				if len(enc) != want {
					r.Fail("C15:EncodeRawValueAsKey:width-not-fixed", fmt.Sprintf("%s: len %d, want %d", op, len(enc), want), c15Replay{Kind: "kenc", Ops: []string{op}})
				}
			}
			// round trip, with a random tail as inside a composite key
			tail := rng.Bytes(rng.Intn(4))
			buf := append(append([]byte{}, enc...), tail...)
			tv, dn, dcls := c15Kdec(buf, c.ty, c.maxLen)
			dop := fmt.Sprintf("c15 kdec %s %d %s", tyN, c.maxLen, hx.Hex(buf))
			r.Corr(dop, c15DecAns(tv, dn, dcls))
			r.Count("kdec." + tyN + "." + dcls)
			r.OracleChecks++
			r.Eval(dop, !v.null)
			if dcls == "panic" {
				r.Fail("C15:DecodeValueFromKey:panic", "panic on "+dop, c15Replay{Kind: "kdec", Ops: []string{op, dop}})
			} else if dcls != "ok" || dn != len(enc) || !c15SameRaw(tv.RawValue(), v.raw()) {
				sig := "C15:DecodeValueFromKey:roundtrip-" + tyN
				if c.ty == sql.TimestampType && !v.null && !c15InNano(v.t) {
					sig = "C15:DecodeValueFromKey:roundtrip-timestamp-out-of-nano-range"
				}
				got := dcls
				if dcls == "ok" {
					got = c15Tok(tv.RawValue())
				}
				r.Fail(sig, fmt.Sprintf("decode(encode(%s)) = %s (consumed %d of %d)", v.tok(), got, dn, len(enc)), c15Replay{Kind: "kdec", Ops: []string{op, dop}})
			}
		}
		// pairs: Go Compare vs bytes.Compare of the Go keys vs Lean
		for i := range pool {
			for j := range pool {
				if encs[i] == nil || encs[j] == nil {
					continue
				}
				if len(pool) > 80 && !(i == j || rng.Intn(len(pool)) < 60) {
					continue
				}
				a, b := pool[i], pool[j]
				cgo, ccls := c15Cmp(typed[i], typed[j])
				cb := bytes.Compare(encs[i], encs[j])
				op := fmt.Sprintf("c15 cmp %s %s", a.tok(), b.tok())
				ans := ccls
				if ccls == "ok" {
					ans = fmt.Sprintf("%d", cgo)
				}
				r.Corr(op, ans)
				cl := c15PairClass(a, b)
				r.Count("pair." + tyN + "." + cl)
				r.OracleChecks++
				r.Eval(op, i != j)
				if ccls != "ok" {
					r.Fail("C15:Compare:error-same-type", op+" => "+ccls, c15Replay{Kind: "cmp", Ops: []string{op}})
					continue
				}
				if sgn(cgo) != cb {
					sig := "C15:EncodeRawValueAsKey:order-mismatch-" + tyN
					switch cl {
					case "negzero":
						sig = "C15:EncodeRawValueAsKey:negzero-encodes-differently"
					case "nan":
						sig = "C15:EncodeRawValueAsKey:order-mismatch-float64-nan"
					case "ts-out-of-nano-range":
						sig = "C15:EncodeRawValueAsKey:order-mismatch-timestamp-out-of-nano-range"
					}
					r.Fail(sig, fmt.Sprintf("Compare(%s,%s)=%d but bytes.Compare(key,key)=%d (keys %x / %x)", a.tok(), b.tok(), cgo, cb, encs[i], encs[j]),
						c15Replay{Kind: "pair", Ops: []string{fmt.Sprintf("c15 kenc %s %d %s", tyN, c.maxLen, a.tok()), fmt.Sprintf("c15 kenc %s %d %s", tyN, c.maxLen, b.tok()), op}})
				}
			}
		}
		if len(pool) > 3 {
			r.Sample(map[string]interface{}{"kind": "key", "type": tyN, "maxLen": c.maxLen, "value": pool[2].tok(), "key": hexs(encs[2])})
		}
		if err := r.Flush(); err != nil {
			r.Inconclusive = append(r.Inconclusive, err.Error())
			return
		}
	}

	// bytes.Compare itself vs the model's lexicographic order
	r.NextCase()
	for k := 0; k < 400; k++ {
		a := rng.Bytes(rng.Intn(6))
		b := rng.Bytes(rng.Intn(6))
		if rng.Bool() && len(a) > 0 {
			b = append(append([]byte{}, a[:rng.Intn(len(a)+1)]...), b...)
		}
		r.Corr(fmt.Sprintf("c15 bcmp %s %s", hx.Hex(a), hx.Hex(b)), fmt.Sprintf("%d", bytes.Compare(a, b)))
	}

	// guard / error stream: bad maxLen, over-length values
	r.NextCase()
	for _, ty := range []sql.SQLValueType{sql.IntegerType, sql.Float64Type, sql.BooleanType, sql.UUIDType, sql.TimestampType, sql.VarcharType, sql.BLOBType} {
		tyN := c15TyName(ty)
		pool := c15Pool(rng, ty, 4, 6)
		for _, ml := range []int{-1, 0, 1, 2, 7, 8, 9, 16, 17, sql.MaxKeyLen, sql.MaxKeyLen + 1, 1 << 20} {
			if len(pool) > 5 {
				pool = pool[:5]
			}
			for _, v := range pool {
				enc, n, cls := c15Kenc(v, ty, ml)
				op := fmt.Sprintf("c15 kenc %s %d %s", tyN, ml, v.tok())
				r.Corr(op, c15KencAns(enc, n, cls))
				r.Count("kenc-guard." + cls)
				if cls == "panic" {
					r.Fail("C15:EncodeRawValueAsKey:panic", "panic on "+op, c15Replay{Kind: "kenc", Ops: []string{op}})
				}
				if cls == "ok" && ml <= sql.MaxKeyLen {
					tv, dn, dcls := c15Kdec(enc, ty, ml)
					dop := fmt.Sprintf("c15 kdec %s %d %s", tyN, ml, hx.Hex(enc))
					r.Corr(dop, c15DecAns(tv, dn, dcls))
					r.Count("kdec-guard." + dcls)
				}
			}
		}
	}
	for _, ml := range []int{1, 3, 16} {
		for _, s := range c15Strings(rng, ml, 4, true) {
			for _, ty := range []sql.SQLValueType{sql.VarcharType, sql.BLOBType} {
				v := c15Val{ty: ty, s: string(s), x: s}
				enc, n, cls := c15Kenc(v, ty, ml)
				r.Corr(fmt.Sprintf("c15 kenc %s %d %s", c15TyName(ty), ml, v.tok()), c15KencAns(enc, n, cls))
				r.Count("kenc-guard." + cls)
			}
		}
	}

	// malformed stream for the key decoder: mutated valid keys + random bytes
	r.NextCase()
	nm := 1500
	if thorough {
		nm = 12000
	}
	for k := 0; k < nm; k++ {
		c := cols[rng.Intn(len(cols))]
		if c.maxLen > 256 {
			continue
		}
		pool := c15Pool(rng, c.ty, c.maxLen, 3)
		v := pool[rng.Intn(len(pool))]
		enc, _, cls := c15Kenc(v, c.ty, c.maxLen)
		if cls != "ok" {
			continue
		}
		buf := append([]byte{}, enc...)
		kind := rng.Intn(7)
		switch kind {
		case 0: // truncate
			buf = buf[:rng.Intn(len(buf)+1)]
		case 1: // tag
			buf[0] = []byte{0x20, 0x80, 0xff, 0x00, 0x7f, 0x81, byte(rng.U64())}[rng.Intn(7)]
		case 2: // length suffix
			if len(buf) >= 4 {
				binary.BigEndian.PutUint32(buf[len(buf)-4:], []uint32{0, 1, uint32(c.maxLen), uint32(c.maxLen) + 1, 0xffffffff, 0x80000000, uint32(rng.Intn(c.maxLen + 2))}[rng.Intn(7)])
			}
		case 3: // flip one byte
			buf[rng.Intn(len(buf))] ^= byte(1 + rng.Intn(255))
		case 4: // extend
			buf = append(buf, rng.Bytes(1+rng.Intn(5))...)
		case 5: // random bytes
			buf = rng.Bytes(rng.Intn(2 * len(buf)))
			if len(buf) > 0 && rng.Bool() {
				buf[0] = 0x80
			}
		case 6: // decode under another type / maxLen
			c = cols[rng.Intn(len(cols))]
			if c.maxLen > 256 {
				c.maxLen = 16
			}
		}
		tv, dn, dcls := c15Kdec(buf, c.ty, c.maxLen)
		dop := fmt.Sprintf("c15 kdec %s %d %s", c15TyName(c.ty), c.maxLen, hx.Hex(buf))
		r.Corr(dop, c15DecAns(tv, dn, dcls))
		cl := dcls
		if strings.HasPrefix(cl, "ok") {
			cl = "ok"
		}
		r.Count(fmt.Sprintf("kdec-mutated.%d.%s", kind, cl))
		r.Eval(dop, true)
		if dcls == "panic" {
			r.Fail("C15:DecodeValueFromKey:panic", "panic on "+dop, c15Replay{Kind: "kdec", Ops: []string{dop}})
		}
	}
}

// ---------------------------------------------------------------- part 2: composite keys

func c15CompositePart(r *hx.Result, rng *hx.Rng, thorough bool) {
	r.NextCase()
	tys := []sql.SQLValueType{sql.IntegerType, sql.Float64Type, sql.BooleanType, sql.UUIDType, sql.TimestampType, sql.VarcharType, sql.BLOBType}
	nsch := 80
	if thorough {
		nsch = 600
	}
	for s := 0; s < nsch; s++ {
		k := 1 + rng.Intn(4)
		type col struct {
			ty     sql.SQLValueType
			maxLen int
			pool   []c15Val
		}
		cols := make([]col, k)
		for i := range cols {
			ty := tys[rng.Intn(len(tys))]
			ml := c15FixedLen(ty)
			if ml == 0 {
				ml = []int{1, 2, 3, 8}[rng.Intn(4)]
			}
			pool := c15Pool(rng, ty, ml, 5)
			// keep only order-safe values so the oracle is exact; few distinct values => many ties on a prefix
			var ok []c15Val
			for _, v := range pool {
				if v.null || (ty == sql.Float64Type && (c15IsNaN(v.f) || v.f == 1<<63)) || (ty == sql.TimestampType && !c15InNano(v.t)) {
					if !v.null {
						continue
					}
				}
				ok = append(ok, v)
			}
			if len(ok) > 4 {
				ok = ok[:4]
			}
			cols[i] = col{ty, ml, ok}
		}
		rows := make([][]c15Val, 8)
		for i := range rows {
			rows[i] = make([]c15Val, k)
			for j := range cols {
				rows[i][j] = cols[j].pool[rng.Intn(len(cols[j].pool))]
			}
			if i > 0 && rng.Intn(3) == 0 { // share a prefix with the previous row
				copy(rows[i][:rng.Intn(k+1)], rows[i-1])
			}
		}
		keys := make([][]byte, len(rows))
		spec := ""
		for _, c := range cols {
			spec += fmt.Sprintf(" %s %d", c15TyName(c.ty), c.maxLen)
		}
		for i, row := range rows {
			var encs [][]byte
			op := fmt.Sprintf("c15 tenc %d", k)
			for j, v := range row {
				e, _, cls := c15Kenc(v, cols[j].ty, cols[j].maxLen)
				if cls != "ok" {
					r.Fail("C15:EncodeRawValueAsKey:rejects-valid-value", cls, nil)
				}
				encs = append(encs, e)
				op += fmt.Sprintf(" %s %d %s", c15TyName(cols[j].ty), cols[j].maxLen, v.tok())
			}
			keys[i] = sql.MapKey(nil, "", encs...)
			r.Corr(op, "ok "+hx.Hex(keys[i]))
			// decode column by column (row_reader.go style), with a tail
			buf := append(append([]byte{}, keys[i]...), rng.Bytes(rng.Intn(3))...)
			off := 0
			var toks []string
			good := true
			for j := range row {
				tv, n, cls := c15Kdec(buf[off:], cols[j].ty, cols[j].maxLen)
				if cls != "ok" {
					good = false
					break
				}
				off += n
				toks = append(toks, c15Tok(tv.RawValue()))
				if !c15SameRaw(tv.RawValue(), row[j].raw()) {
					good = false
				}
			}
			r.OracleChecks++
			if !good || off != len(keys[i]) {
				r.Fail("C15:DecodeValueFromKey:composite-roundtrip", "composite key does not decode back: "+op, c15Replay{Kind: "tdec", Ops: []string{op}})
			} else {
				r.Corr(fmt.Sprintf("c15 tdec %d%s %s", k, spec, hx.Hex(buf)), "ok "+strings.Join(toks, ","))
			}
		}
		for i := range rows {
			for j := range rows {
				// row order: first differing column decides
				c := 0
				for x := 0; x < k && c == 0; x++ {
					cc, cls := c15Cmp(rows[i][x].typed(), rows[j][x].typed())
					if cls != "ok" {
						r.Fail("C15:Compare:error-same-type", cls, nil)
					}
					c = sgn(cc)
				}
				cb := bytes.Compare(keys[i], keys[j])
				op := fmt.Sprintf("c15 tcmp %d", k)
				for _, v := range rows[i] {
					op += " " + v.tok()
				}
				for _, v := range rows[j] {
					op += " " + v.tok()
				}
				r.Corr(op, fmt.Sprintf("%d", c))
				r.OracleChecks++
				r.Count(fmt.Sprintf("composite.cols%d.cmp%d", k, c))
				r.Eval(op, i != j)
				if c != cb {
					r.Fail("C15:MapKey:composite-order-mismatch", fmt.Sprintf("row order %d but key order %d: %s", c, cb, op), c15Replay{Kind: "tcmp", Ops: []string{op}})
				}
			}
		}
	}
}

// ---------------------------------------------------------------- part 3: row values

func c15ValuePart(r *hx.Result, rng *hx.Rng, thorough bool) {
	r.NextCase()
	np := 40
	if thorough {
		np = 200
	}
	type colSpec struct {
		ty     sql.SQLValueType
		maxLen int
	}
	cols := []colSpec{{sql.IntegerType, 8}, {sql.Float64Type, 8}, {sql.BooleanType, 1}, {sql.UUIDType, 16}, {sql.TimestampType, 8},
		{sql.VarcharType, 0}, {sql.VarcharType, 3}, {sql.VarcharType, 300}, {sql.BLOBType, 0}, {sql.BLOBType, 2}, {sql.BLOBType, 1000}, {sql.VarcharType, -1}}
	for _, c := range cols {
		tyN := c15TyName(c.ty)
		gl := c.maxLen
		if gl <= 0 {
			gl = 40
		}
		pool := c15Pool(rng, c.ty, gl, np)
		if c.ty == sql.VarcharType || c.ty == sql.BLOBType {
			for _, s := range [][]byte{bytes.Repeat([]byte{'x'}, gl+1), rng.Bytes(gl + 2)} { // over the declared length
				pool = append(pool, c15Val{ty: c.ty, s: string(s), x: s})
			}
			big := rng.Bytes(5000)
			pool = append(pool, c15Val{ty: c.ty, s: string(big), x: big})
		}
		for _, v := range pool {
			for _, nullable := range []bool{false, true} {
				nl := "0"
				if nullable {
					nl = "1"
				}
				enc, cls := c15Venc(v, c.ty, c.maxLen, nullable)
				op := fmt.Sprintf("c15 venc %s %d %s %s", tyN, c.maxLen, nl, v.tok())
				ans := cls
				if cls == "ok" {
					ans = "ok " + hx.Hex(enc)
				}
				r.Corr(op, ans)
				r.Count("venc." + tyN + "." + cls)
				if cls == "panic" {
					r.Fail("C15:EncodeRawValue:panic", "panic on "+op, c15Replay{Kind: "venc", Ops: []string{op}})
				}
				if cls != "ok" {
					continue
				}
				buf := append(append([]byte{}, enc...), rng.Bytes(rng.Intn(3))...)
				tv, n, dcls := c15Vdec(buf, c.ty, nullable)
				dop := fmt.Sprintf("c15 vdec %s %s %s", tyN, nl, hx.Hex(buf))
				r.Corr(dop, c15DecAns(tv, n, dcls))
				r.Count("vdec." + tyN + "." + dcls)
				r.OracleChecks++
				r.Eval(dop, !v.null)
				if dcls == "panic" {
					r.Fail("C15:decodeValue:panic", "panic on "+dop, c15Replay{Kind: "vdec", Ops: []string{op, dop}})
					continue
				}
				want := v.raw()
				if c.ty == sql.TimestampType && !v.null {
					want = v.t.Truncate(time.Microsecond) // stored precision
				}
				if dcls != "ok" || n != len(enc) || !c15SameRaw(tv.RawValue(), want) {
					sig := "C15:decodeValue:roundtrip-" + tyN
					if nullable && !v.null && (c.ty == sql.VarcharType && v.s == "" || c.ty == sql.BLOBType && len(v.x) == 0) {
						sig = "C15:EncodeNullableValue:empty-" + tyN + "-decodes-as-null"
					}
					if c.ty == sql.TimestampType && !v.null && !c15InMicro(v.t) {
						sig = "C15:decodeValue:roundtrip-timestamp-out-of-micro-range"
					}
					got := dcls
					if dcls == "ok" {
						got = c15Tok(tv.RawValue())
					}
					r.Fail(sig, fmt.Sprintf("nullable=%v decode(encode(%s)) = %s (consumed %d of %d)", nullable, v.tok(), got, n, len(enc)), c15Replay{Kind: "vdec", Ops: []string{op, dop}})
				}
			}
		}
		if len(pool) > 2 {
			e, _ := c15Venc(pool[2], c.ty, c.maxLen, false)
			r.Sample(map[string]interface{}{"kind": "rowvalue", "type": tyN, "value": pool[2].tok(), "enc": hexs(e)})
		}
	}
	// malformed stream
	r.NextCase()
	nm := 1500
	if thorough {
		nm = 12000
	}
	for k := 0; k < nm; k++ {
		c := cols[rng.Intn(len(cols))]
		gl := c.maxLen
		if gl <= 0 {
			gl = 8
		}
		if gl > 40 {
			gl = 40
		}
		pool := c15Pool(rng, c.ty, gl, 3)
		v := pool[rng.Intn(len(pool))]
		nullable := rng.Bool()
		enc, cls := c15Venc(v, c.ty, 0, nullable)
		if cls != "ok" {
			continue
		}
		buf := append([]byte{}, enc...)
		kind := rng.Intn(6)
		switch kind {
		case 0:
			buf = buf[:rng.Intn(len(buf)+1)]
		case 1:
			binary.BigEndian.PutUint32(buf, []uint32{0, 1, 7, 8, 9, 15, 16, 17, uint32(len(buf)), uint32(len(buf)) - 4, uint32(len(buf)) - 3, 0xffffffff, 0x80000000}[rng.Intn(13)])
		case 2:
			buf[rng.Intn(len(buf))] ^= byte(1 + rng.Intn(255))
		case 3:
			buf = append(buf, rng.Bytes(1+rng.Intn(20))...)
		case 4:
			buf = rng.Bytes(rng.Intn(24))
			if len(buf) >= 4 && rng.Bool() {
				buf[0], buf[1], buf[2] = 0, 0, 0
			}
		case 5:
			c = cols[rng.Intn(len(cols))]
		}
		tv, n, dcls := c15Vdec(buf, c.ty, nullable)
		nl := "0"
		if nullable {
			nl = "1"
		}
		dop := fmt.Sprintf("c15 vdec %s %s %s", c15TyName(c.ty), nl, hx.Hex(buf))
		r.Corr(dop, c15DecAns(tv, n, dcls))
		cl := dcls
		if strings.HasPrefix(cl, "ok") {
			cl = "ok"
		}
		r.Count(fmt.Sprintf("vdec-mutated.%d.%s", kind, cl))
		r.Eval(dop, true)
		if dcls == "panic" {
			r.Fail("C15:decodeValue:panic", "panic on "+dop, c15Replay{Kind: "vdec", Ops: []string{dop}})
		}
	}
}

// ---------------------------------------------------------------- part 4: tx metadata, kv metadata, tx header

type c15Md struct {
	nilMd    bool
	hasTrunc bool
	trunc    uint64
	extra    []byte // nil = absent
}

func (m c15Md) build() *store.TxMetadata {
	if m.nilMd {
		return nil
	}
	md := store.NewTxMetadata()
	if m.hasTrunc {
		md.WithTruncatedTxID(m.trunc)
	}
	if m.extra != nil {
		md.WithExtra(m.extra)
	}
	return md
}

func c15MdTok(md *store.TxMetadata) string {
	t := "-"
	if md.HasTruncatedTxID() {
		id, _ := md.GetTruncatedTxID()
		t = fmt.Sprintf("%d", id)
	}
	e := "none"
	if x := md.Extra(); x != nil {
		e = hx.Hex(x)
	}
	return t + " " + e
}

func c15GenMd(rng *hx.Rng) c15Md {
	m := c15Md{}
	switch rng.Intn(6) {
	case 0:
		m.nilMd = true
		return m
	case 1:
		return m // empty, non-nil
	}
	if rng.Bool() {
		m.hasTrunc = true
		m.trunc = []uint64{0, 1, math.MaxUint64, 1 << 63, rng.U64()}[rng.Intn(5)]
	}
	if rng.Intn(3) > 0 {
		l := []int{1, 2, 255, 256, 1 + rng.Intn(256)}[rng.Intn(5)]
		m.extra = rng.Bytes(l)
	}
	return m
}

func c15TxmdBytes(md *store.TxMetadata) (b []byte, cls string) {
	defer func() {
		if e := recover(); e != nil {
			cls = "panic"
		}
	}()
	return md.Bytes(), "ok"
}

func c15TxmdRead(b []byte) (md *store.TxMetadata, cls string) {
	defer func() {
		if e := recover(); e != nil {
			cls = "panic"
		}
	}()
	md = store.NewTxMetadata()
	err := md.ReadFrom(b)
	return md, c15StoreErr(err)
}

func c15TxmdDecAns(md *store.TxMetadata, cls string) string {
	if cls != "ok" {
		return cls
	}
	return "ok " + c15MdTok(md)
}

func c15HdrBytes(h *store.TxHeader) (b []byte, cls string) {
	defer func() {
		if e := recover(); e != nil {
			cls = "panic"
		}
	}()
	b, err := h.Bytes()
	return b, c15StoreErr(err)
}

func c15HdrRead(b []byte) (h *store.TxHeader, cls string) {
	defer func() {
		if e := recover(); e != nil {
			cls = "panic"
		}
	}()
	h = &store.TxHeader{}
	err := h.ReadFrom(b)
	return h, c15StoreErr(err)
}

func c15HdrTok(h *store.TxHeader) string {
	md := "nil"
	if h.Metadata != nil {
		md = "md " + c15MdTok(h.Metadata)
	}
	return fmt.Sprintf("%d %d %d %s %s %d %s %d %s", h.ID, h.Ts, h.BlTxID, hx.Hex(h.BlRoot[:]), hx.Hex(h.PrevAlh[:]), h.Version, md, h.NEntries, hx.Hex(h.Eh[:]))
}

func c15StorePart(r *hx.Result, rng *hx.Rng, thorough bool) {
	scale := 2
	if thorough {
		scale = 12
	}
	// --- TxMetadata
	r.NextCase()
	for k := 0; k < 300*scale; k++ {
		m := c15GenMd(rng)
		if m.nilMd {
			continue
		}
		md := m.build()
		bs, cls := c15TxmdBytes(md)
		op := "c15 txmd.enc " + c15MdTok(md)
		ans := cls
		if cls == "ok" {
			ans = "ok " + hx.Hex(bs)
		}
		r.Corr(op, ans)
		r.Count("txmd.enc." + cls)
		if cls != "ok" {
			r.Fail("C15:TxMetadata.Bytes:panic", "panic on "+op, c15Replay{Kind: "txmd", Ops: []string{op}})
			continue
		}
		back, dcls := c15TxmdRead(bs)
		dop := "c15 txmd.dec " + hx.Hex(bs)
		r.Corr(dop, c15TxmdDecAns(back, dcls))
		r.OracleChecks++
		r.Eval(dop, len(bs) > 0)
		if dcls != "ok" || c15MdTok(back) != c15MdTok(md) || len(bs) > 268 {
			r.Fail("C15:TxMetadata.ReadFrom:roundtrip", fmt.Sprintf("ReadFrom(Bytes(%s)) = %s", c15MdTok(md), c15TxmdDecAns(back, dcls)), c15Replay{Kind: "txmd", Ops: []string{op, dop}})
		}
		// malformed: mutate
		for q := 0; q < 3; q++ {
			mb := append([]byte{}, bs...)
			kind := rng.Intn(7)
			switch kind {
			case 0:
				mb = mb[:rng.Intn(len(mb)+1)]
			case 1:
				if len(mb) > 0 {
					mb[rng.Intn(len(mb))] ^= byte(1 + rng.Intn(255))
				}
			case 2:
				mb = append(mb, rng.Bytes(1+rng.Intn(12))...)
			case 3: // extra attribute with a chosen declared length and body
				l := []int{0, 1, 2, 255, 256, 257, 258, 265, 266, 300, 65535}[rng.Intn(11)]
				body := rng.Intn(268)
				mb = append([]byte{1, byte(l >> 8), byte(l)}, rng.Bytes(body)...)
				if rng.Bool() {
					mb = append([]byte{0, 0, 0, 0, 0, 0, 0, 0, 9}, mb...)
				}
			case 4: // non canonical order / duplicates
				mb = append(append([]byte{}, mb...), bs...)
			case 5:
				mb = rng.Bytes(rng.Intn(20))
			case 6: // exact-fit extra of length l (possibly > maxExtraLen)
				l := []int{0, 1, 256, 257, 260, 265}[rng.Intn(6)]
				mb = append([]byte{1, byte(l >> 8), byte(l)}, rng.Bytes(l)...)
			}
			back, dcls := c15TxmdRead(mb)
			dop := "c15 txmd.dec " + hx.Hex(mb)
			r.Corr(dop, c15TxmdDecAns(back, dcls))
			r.Count(fmt.Sprintf("txmd.dec-mutated.%d.%s", kind, dcls))
			r.Eval(dop, true)
			if dcls == "panic" {
				r.Fail("C15:TxMetadata.ReadFrom:panic-extra-length-beyond-buffer", "panic on "+dop, c15Replay{Kind: "txmd", Ops: []string{dop}})
			}
			if dcls == "ok" { // re-encode what was accepted
				bs2, ecls := c15TxmdBytes(back)
				eop := "c15 txmd.enc " + c15MdTok(back)
				ans := ecls
				if ecls == "ok" {
					ans = "ok " + hx.Hex(bs2)
				}
				r.Corr(eop, ans)
				if ecls == "panic" {
					r.Fail("C15:TxMetadata.Bytes:panic-after-readfrom-long-extra", fmt.Sprintf("ReadFrom accepted %s, Bytes() panics", hx.Hex(mb)), c15Replay{Kind: "txmd", Ops: []string{dop, eop}})
				}
			}
		}
	}
	if err := r.Flush(); err != nil {
		r.Inconclusive = append(r.Inconclusive, err.Error())
		return
	}

	// --- KVMetadata
	r.NextCase()
	kvRead := func(b []byte) (md *store.KVMetadata, cls string) {
		defer func() {
			if e := recover(); e != nil {
				cls = "panic"
			}
		}()
		md = store.NewKVMetadata()
		err := c15KvmdUnsafeReadFrom(md, b)
		return md, c15StoreErr(err)
	}
	kvTok := func(md *store.KVMetadata) string {
		x := "-"
		if md.IsExpirable() {
			t, _ := md.ExpirationTime()
			x = fmt.Sprintf("%d", t.Unix())
		}
		d, ni := "0", "0"
		if md.Deleted() {
			d = "1"
		}
		if md.NonIndexable() {
			ni = "1"
		}
		return d + " " + x + " " + ni
	}
	for k := 0; k < 200*scale; k++ {
		md := store.NewKVMetadata()
		md.AsDeleted(rng.Bool())
		md.AsNonIndexable(rng.Bool())
		var exp *time.Time
		if rng.Intn(3) > 0 {
			s := []int64{0, 1, -1, math.MaxInt64 >> 10, -(1 << 40), int64(rng.U64() >> 20), -int64(rng.U64() >> 30)}[rng.Intn(7)]
			t := time.Unix(s, 0) // whole seconds: the serialised precision
			exp = &t
			md.ExpiresAt(t)
		}
		bs := md.Bytes()
		op := "c15 kvmd.enc " + kvTok(md)
		r.Corr(op, "ok "+hx.Hex(bs))
		back, dcls := kvRead(bs)
		dop := "c15 kvmd.dec " + hx.Hex(bs)
		ans := dcls
		if dcls == "ok" {
			ans = "ok " + kvTok(back)
		}
		r.Corr(dop, ans)
		r.OracleChecks++
		r.Eval(dop, len(bs) > 0)
		r.Count("kvmd.dec." + dcls)
		okb := dcls == "ok" && back.Deleted() == md.Deleted() && back.NonIndexable() == md.NonIndexable() && back.IsExpirable() == (exp != nil)
		if okb && exp != nil {
			t, _ := back.ExpirationTime()
			okb = t.Equal(*exp)
		}
		if !okb || len(bs) > 11 {
			r.Fail("C15:KVMetadata.unsafeReadFrom:roundtrip", fmt.Sprintf("unsafeReadFrom(Bytes(%s)) = %s", kvTok(md), ans), c15Replay{Kind: "kvmd", Ops: []string{op, dop}})
		}
		for q := 0; q < 2; q++ {
			mb := append([]byte{}, bs...)
			kind := rng.Intn(5)
			switch kind {
			case 0:
				mb = mb[:rng.Intn(len(mb)+1)]
			case 1:
				if len(mb) > 0 {
					mb[rng.Intn(len(mb))] ^= byte(1 + rng.Intn(255))
				}
			case 2:
				mb = append(mb, rng.Bytes(1+rng.Intn(4))...)
			case 3:
				mb = rng.Bytes(rng.Intn(13))
			case 4: // permutations / duplicates of valid attributes
				mb = nil
				for x := rng.Intn(5); x > 0; x-- {
					switch rng.Intn(3) {
					case 0:
						mb = append(mb, 0)
					case 1:
						mb = append(mb, 2)
					default:
						mb = append(append(mb, 1), rng.Bytes(8)...)
					}
				}
			}
			back, dcls := kvRead(mb)
			dop := "c15 kvmd.dec " + hx.Hex(mb)
			ans := dcls
			if dcls == "ok" {
				ans = "ok " + kvTok(back)
			}
			r.Corr(dop, ans)
			r.Count(fmt.Sprintf("kvmd.dec-mutated.%d.%s", kind, dcls))
			r.Eval(dop, true)
			if dcls == "panic" {
				r.Fail("C15:KVMetadata.unsafeReadFrom:panic", "panic on "+dop, c15Replay{Kind: "kvmd", Ops: []string{dop}})
			}
		}
	}

	// --- TxHeader
	r.NextCase()
	for k := 0; k < 300*scale; k++ {
		m := c15GenMd(rng)
		h := &store.TxHeader{}
		h.ID = []uint64{1, 2, math.MaxUint64, rng.U64() | 1, uint64(1 + rng.Intn(1000)), 0}[rng.Intn(6)]
		switch rng.Intn(8) {
		case 0:
			h.BlTxID = h.ID
		case 1:
			h.BlTxID = h.ID + 1
		default:
			if h.ID > 0 {
				h.BlTxID = rng.U64() % h.ID
			}
		}
		h.Ts = []int64{0, -1, math.MinInt64, math.MaxInt64, int64(rng.U64()), 1700000000}[rng.Intn(6)]
		h.Version = []int{0, 0, 0, 1, 1, 1, 1, 1, 1, 1, 1, 1, 2, -1, 65536, 65537}[rng.Intn(16)]
		h.NEntries = []int{1, 1, 2, 65535, 65536, 70000, 1<<32 - 1, 1 << 32, 0, -1, 1 + rng.Intn(5000)}[rng.Intn(11)]
		copy(h.BlRoot[:], rng.Bytes(32))
		copy(h.PrevAlh[:], rng.Bytes(32))
		copy(h.Eh[:], rng.Bytes(32))
		if h.Version == 0 && rng.Intn(4) > 0 && !m.nilMd {
			m = c15Md{} // v0 cannot carry metadata; mostly keep it empty
		}
		h.Metadata = m.build()
		bs, cls := c15HdrBytes(h)
		mdArg := "nil - none"
		if h.Metadata != nil {
			mdArg = "md " + c15MdTok(h.Metadata)
		}
		op := fmt.Sprintf("c15 hdr.enc %d %d %d %s %s %d %s %d %s", h.ID, h.Ts, h.BlTxID, hx.Hex(h.BlRoot[:]), hx.Hex(h.PrevAlh[:]), h.Version, mdArg, h.NEntries, hx.Hex(h.Eh[:]))
		ans := cls
		if cls == "ok" {
			ans = "ok " + hx.Hex(bs)
		}
		r.Corr(op, ans)
		r.Count("hdr.enc." + cls)
		if cls == "panic" {
			r.Fail("C15:TxHeader.Bytes:panic", "panic on "+op, c15Replay{Kind: "hdr", Ops: []string{op}})
		}
		if cls != "ok" {
			continue
		}
		back, dcls := c15HdrRead(bs)
		dop := "c15 hdr.dec " + hx.Hex(bs)
		dans := dcls
		if dcls == "ok" {
			dans = "ok " + c15HdrTok(back)
		}
		r.Corr(dop, dans)
		r.Count("hdr.dec." + dcls)
		// oracle: well-formed headers come back field by field (nil metadata == empty metadata)
		maxN := 1<<32 - 1
		if h.Version == 0 {
			maxN = 65535
		}
		wf := h.ID >= 1 && h.BlTxID < h.ID && h.NEntries >= 1 && h.NEntries <= maxN && (h.Version == 0 || h.Version == 1)
		r.OracleChecks++
		r.Eval(dop, wf)
		if wf {
			mdEq := func(a, b *store.TxMetadata) bool {
				ae, be := a == nil || a.IsEmpty(), b == nil || b.IsEmpty()
				if ae || be {
					return ae == be
				}
				return c15MdTok(a) == c15MdTok(b)
			}
			if dcls != "ok" || back.ID != h.ID || back.Ts != h.Ts || back.BlTxID != h.BlTxID || back.BlRoot != h.BlRoot || back.PrevAlh != h.PrevAlh ||
				back.Version != h.Version || back.NEntries != h.NEntries || back.Eh != h.Eh || !mdEq(back.Metadata, h.Metadata) {
				r.Fail("C15:TxHeader.ReadFrom:roundtrip", fmt.Sprintf("ReadFrom(Bytes(h)) != h: %s => %s", op, dans), c15Replay{Kind: "hdr", Ops: []string{op, dop}})
			}
		}
		if k < 2 {
			r.Sample(map[string]interface{}{"kind": "txheader", "op": op, "bytes": hexs(bs)})
		}
		// malformed stream
		for q := 0; q < 4; q++ {
			mb := append([]byte{}, bs...)
			kind := rng.Intn(8)
			switch kind {
			case 0: // truncation around the interesting lengths
				cut := []int{0, 1, 52, 56, 100, 123, 124, 125, 127, 128, len(mb) - 1, len(mb) - 32, len(mb) - 40, len(mb) - 41, len(mb) - 72, len(mb) - 73, rng.Intn(len(mb) + 1)}[rng.Intn(17)]
				if cut < 0 {
					cut = 0
				}
				if cut > len(mb) {
					cut = len(mb)
				}
				mb = mb[:cut]
			case 1: // version field
				binary.BigEndian.PutUint16(mb[48:], []uint16{0, 1, 2, 0xffff}[rng.Intn(4)])
			case 2: // mdLen / nentries(v0) field
				binary.BigEndian.PutUint16(mb[50:], []uint16{0, 1, 3, 9, 12, 60, 72, 76, 268, 269, 300, 0xffff, uint16(rng.Intn(80))}[rng.Intn(13)])
			case 3: // ID / BlTxID
				if rng.Bool() {
					binary.BigEndian.PutUint64(mb[0:], []uint64{0, 1, math.MaxUint64}[rng.Intn(3)])
				} else {
					binary.BigEndian.PutUint64(mb[len(mb)-40:], []uint64{0, h.ID, h.ID + 1, math.MaxUint64}[rng.Intn(4)])
				}
			case 4:
				mb[rng.Intn(len(mb))] ^= byte(1 + rng.Intn(255))
			case 5:
				mb = append(mb, rng.Bytes(1+rng.Intn(40))...)
			case 6: // v1 header whose metadata holds an extra attribute with a lying length
				if len(mb) > 60 {
					binary.BigEndian.PutUint16(mb[48:], 1)
					l := 3 + rng.Intn(20)
					binary.BigEndian.PutUint16(mb[50:], uint16(l))
					mb[52] = 1
					binary.BigEndian.PutUint16(mb[53:], uint16([]int{l - 3, l - 2, l + 5, 0, 65535}[rng.Intn(5)]))
				}
			case 7:
				mb = rng.Bytes(100 + rng.Intn(80))
				binary.BigEndian.PutUint16(mb[48:], uint16(rng.Intn(2)))
				mb[0] |= 0x80
				if rng.Bool() {
					binary.BigEndian.PutUint16(mb[50:], uint16(rng.Intn(40)))
				}
			}
			back, dcls := c15HdrRead(mb)
			dop := "c15 hdr.dec " + hx.Hex(mb)
			dans := dcls
			if dcls == "ok" {
				dans = "ok " + c15HdrTok(back)
			}
			r.Corr(dop, dans)
			r.Count(fmt.Sprintf("hdr.dec-mutated.%d.%s", kind, dcls))
			r.Eval(dop, true)
			if dcls == "panic" {
				r.Fail("C15:TxHeader.ReadFrom:panic-on-malformed-input", "panic on "+dop, c15Replay{Kind: "hdr", Ops: []string{dop}})
			}
		}
	}
}

// ---------------------------------------------------------------- part 5: end-to-end reachability probes

// The codec-level findings are re-observed through the SQL engine on a scratch store: a UNIQUE
// index on a FLOAT column and an ORDER BY that spills to the file sorter.
func c15EngineProbe(r *hx.Result) {
	r.NextCase()
	dir := hx.TempDir("c15")
	defer os.RemoveAll(dir)
	st, err := store.Open(dir, store.DefaultOptions().WithMultiIndexing(true).WithLogger(logger.NewMemoryLogger()))
	if err != nil {
		r.Notes = append(r.Notes, "engine probe skipped: "+err.Error())
		return
	}
	defer st.Close()
	e, err := sql.NewEngine(st, sql.DefaultOptions().WithPrefix([]byte("sql")).WithSortBufferSize(2))
	if err != nil {
		r.Notes = append(r.Notes, "engine probe skipped: "+err.Error())
		return
	}
	ctx := context.Background()
	exec := func(q string, p map[string]interface{}) error {
		_, _, err := e.Exec(ctx, nil, q, p)
		return err
	}
	if err := exec("CREATE TABLE t (id INTEGER AUTO_INCREMENT, f FLOAT, s VARCHAR[10], PRIMARY KEY id)", nil); err != nil {
		r.Notes = append(r.Notes, "engine probe skipped: "+err.Error())
		return
	}
	if err := exec("CREATE UNIQUE INDEX ON t(f)", nil); err != nil {
		r.Notes = append(r.Notes, "engine probe skipped: "+err.Error())
		return
	}
	ins := "INSERT INTO t (f, s) VALUES (@f, @s)"
	e1 := exec(ins, map[string]interface{}{"f": 0.0, "s": ""})
	e2 := exec(ins, map[string]interface{}{"f": math.Copysign(0, -1), "s": "x"})
	e3 := exec(ins, map[string]interface{}{"f": 1.5, "s": ""})
	e4 := exec(ins, map[string]interface{}{"f": 1.5, "s": "dup"})
	r.OracleChecks++
	r.Count("e2e.unique-float-index")
	if e1 == nil && e3 == nil && e4 != nil && e2 == nil {
		r.Fail("C15:sql.Engine:unique-float-index-admits-both-zeros",
			"UNIQUE INDEX ON t(f): INSERT f=+0.0 ok, INSERT f=-0.0 ok (equal under SQL comparison), INSERT f=1.5 twice => second rejected",
			c15Replay{Kind: "sql", Ops: []string{"CREATE TABLE t (id INTEGER AUTO_INCREMENT, f FLOAT, s VARCHAR[10], PRIMARY KEY id)", "CREATE UNIQUE INDEX ON t(f)", ins + " f=+0.0", ins + " f=-0.0"}})
	}
	rd, err := e.Query(ctx, nil, "SELECT id, s FROM t ORDER BY s", nil)
	if err != nil {
		r.Notes = append(r.Notes, "engine probe (order by) skipped: "+err.Error())
		return
	}
	defer rd.Close()
	nulls, rows := 0, 0
	for {
		row, err := rd.Read(ctx)
		if err != nil {
			break
		}
		rows++
		if row.ValuesByPosition[1].IsNull() {
			nulls++
		}
	}
	r.OracleChecks++
	r.Count("e2e.file-sort")
	if nulls > 0 {
		r.Fail("C15:sql.Engine:file-sort-returns-empty-string-as-null",
			fmt.Sprintf("SELECT id, s FROM t ORDER BY s with a sort buffer of 2 rows: %d of %d rows have s = NULL although no NULL was inserted (the rows with s = '')", nulls, rows),
			c15Replay{Kind: "sql", Ops: []string{"sql.DefaultOptions().WithSortBufferSize(2)", "3 rows, two with s=''", "SELECT id, s FROM t ORDER BY s"}})
	}
}

func runC15(r *hx.Result, rng *hx.Rng, thorough bool, replay string) error {
	r.Rule = "evaluation = one codec call pair (encode+decode, or one compared pair of values/rows, or one decode of a mutated encoding, or one ExportTx of a committed transaction of a real store) checked against the Lean model byte for byte; nontrivial = distinct operands / non-NULL value / mutated input"
	rounds := 2
	if thorough {
		rounds = 8
	}
	for round := 0; round < rounds; round++ {
		c15KeyPart(r, rng.Fork(), thorough)
		if err := r.Flush(); err != nil {
			return err
		}
		c15CompositePart(r, rng.Fork(), thorough)
		if err := r.Flush(); err != nil {
			return err
		}
		c15ValuePart(r, rng.Fork(), thorough)
		if err := r.Flush(); err != nil {
			return err
		}
		c15StorePart(r, rng.Fork(), thorough)
		if err := r.Flush(); err != nil {
			return err
		}
		c15ExportPart(r, rng.Fork(), thorough, round) // c15export.go: ExportTx / ReplicateTx framing on real stores
		if err := r.Flush(); err != nil {
			return err
		}
	}
	c15EngineProbe(r)
	// distribution sanity: a collapsed generator is inconclusive, not a pass
	for _, k := range []string{"pair.float64.negzero", "pair.float64.nan", "pair.timestamp.ts-out-of-nano-range", "pair.varchar.ok", "pair.integer.ok", "hdr.dec.ok", "txmd.enc.ok", "kvmd.dec.ok",
		"xp.tx.order.metadata-then-none", "xp.tx.order.none-then-metadata", "xp.tx.order.metadata-then-different-metadata", "xp.tx.mdmix.3+kinds",
		"xp.export.with-values", "xp.export.by-digest", "xp.replicate.ok", "xp.store.v0.embedded", "xp.store.v1.vlog"} {
		if r.Distribution[k] == 0 {
			r.Inconclusive = append(r.Inconclusive, "generator never produced class "+k)
		}
	}
	r.Notes = append(r.Notes,
		"KVMetadata.unsafeReadFrom reached through go:linkname (pure function, no /repo hook)",
		"sql.Timestamp values built through reflection (no exported constructor)",
		"JSON values and implicit conversions (raw Go type != column type) are outside the model and not generated",
		"export part (c15export.go): stores opened with 64 KB write buffers; truncation of a tx is observed through ReadValue (io.EOF), expired entries through the stored value hash")
	return nil
}
