package main

import (
	"context"
	"crypto/sha256"
	"fmt"
	"os"
	"path/filepath"
	"strings"
	"time"

	"github.com/codenotary/immudb/embedded/ahtree"
	"github.com/codenotary/immudb/embedded/htree"
	"github.com/codenotary/immudb/embedded/store"

	"verif/harness/internal/hx"
)

func init() { runners["C01"] = runC01 }

// ---------- serialisation of proofs for the model driver ----------

func hdrTok(h *store.TxHeader) string {
	if h == nil {
		return "nil"
	}
	var md []byte
	if h.Metadata != nil {
		md = h.Metadata.Bytes()
	}
	return fmt.Sprintf("%d:%d:%d:%s:%s:%d:%s:%d:%s", h.ID, uint64(h.Ts), h.BlTxID, hx.Hex(h.BlRoot[:]), hx.Hex(h.PrevAlh[:]),
		h.Version, hx.Hex(md), h.NEntries, hx.Hex(h.Eh[:]))
}

func lpTok(p *store.LinearProof) string {
	if p == nil {
		return "nil"
	}
	return fmt.Sprintf("%d:%d:%s", p.SourceTxID, p.TargetTxID, hx.Csv32(p.Terms))
}

func lapTok(p *store.LinearAdvanceProof) string {
	if p == nil {
		return "nil"
	}
	ips := "."
	if len(p.InclusionProofs) > 0 {
		ss := make([]string, len(p.InclusionProofs))
		for i, ip := range p.InclusionProofs {
			ss[i] = hx.Csv32(ip)
		}
		ips = strings.Join(ss, ";")
	}
	return hx.Csv32(p.LinearProofTerms) + ":" + ips
}

func dualTok(p *store.DualProof, s, t uint64, sa, ta [32]byte) string {
	return fmt.Sprintf("c01 vdual %s %s %s %s %s %s %s %s %d %d %s %s", hdrTok(p.SourceTxHeader), hdrTok(p.TargetTxHeader),
		hx.Csv32(p.InclusionProof), hx.Csv32(p.ConsistencyProof), hx.Hex(p.TargetBlTxAlh[:]), hx.Csv32(p.LastInclusionProof),
		lpTok(p.LinearProof), lapTok(p.LinearAdvanceProof), s, t, hx.Hex(sa[:]), hx.Hex(ta[:]))
}

func cloneHdr(h *store.TxHeader) *store.TxHeader {
	if h == nil {
		return nil
	}
	c := *h
	return &c
}

func clone32(x [][32]byte) [][32]byte { return append([][32]byte{}, x...) }

func cloneDual(p *store.DualProof) *store.DualProof {
	c := *p
	c.SourceTxHeader = cloneHdr(p.SourceTxHeader)
	c.TargetTxHeader = cloneHdr(p.TargetTxHeader)
	c.InclusionProof = clone32(p.InclusionProof)
	c.ConsistencyProof = clone32(p.ConsistencyProof)
	c.LastInclusionProof = clone32(p.LastInclusionProof)
	if p.LinearProof != nil {
		lp := *p.LinearProof
		lp.Terms = clone32(p.LinearProof.Terms)
		c.LinearProof = &lp
	}
	if p.LinearAdvanceProof != nil {
		lap := store.LinearAdvanceProof{LinearProofTerms: clone32(p.LinearAdvanceProof.LinearProofTerms)}
		for _, ip := range p.LinearAdvanceProof.InclusionProofs {
			lap.InclusionProofs = append(lap.InclusionProofs, clone32(ip))
		}
		c.LinearAdvanceProof = &lap
	}
	return &c
}

func safeAlh(h *store.TxHeader) (a [32]byte, panicked bool) {
	defer func() {
		if e := recover(); e != nil {
			panicked = true
		}
	}()
	return h.Alh(), false
}

// ---------- ground truth ----------

type c01Hist struct {
	st   *store.ImmuStore
	hdrs []*store.TxHeader // 1-based
	alhs [][32]byte
	n    uint64
}

// probe one VerifyDualProof call: Go verdict -> model, and -> oracle (ground truth = the history)
func (hi *c01Hist) probeDual(r *hx.Result, p *store.DualProof, s, t uint64, sa, ta [32]byte, kind string) bool {
	verdict, outcome := false, ""
	func() {
		defer func() {
			if e := recover(); e != nil {
				outcome = "panic"
			}
		}()
		verdict = store.VerifyDualProof(p, s, t, sa, ta)
		outcome = b2s(verdict)
	}()
	op := dualTok(p, s, t, sa, ta)
	r.Corr(op, outcome)
	r.Count("vdual." + kind + "." + outcome)
	r.Eval(op, kind != "honest" || verdict)
	r.OracleChecks++
	sReal := s >= 1 && s <= hi.n && hi.alhs[s] == sa
	tReal := t >= 1 && t <= hi.n && hi.alhs[t] == ta
	if outcome == "panic" && kind != "bad-version" {
		r.Fail("C01:VerifyDualProof:panic", "VerifyDualProof panicked ("+kind+")", map[string]interface{}{"op": op})
	}
	// A forged TARGET that only differs from the history in fields the trusted state does not commit to
	// (timestamp, entries digest, metadata, version of a tx NEWER than the trusted one) is a different
	// future, not a contradiction of the trusted state: no verifier can reject it (only the state
	// signature can). Same id with a different hash, an altered tree commitment / chain link, or any
	// forged SOURCE under a genuine target are contradictions.
	benign := sReal && !tReal && s != t && benignFuture[kind]
	if verdict && benign {
		r.Count("vdual.accepted-different-future." + kind)
	}
	if verdict && sReal != tReal && !benign {
		which := "target"
		if tReal {
			which = "source"
		}
		r.Fail("C01:VerifyDualProof:accepts-forged-"+which+":"+kind,
			fmt.Sprintf("VerifyDualProof accepted s=%d t=%d where one side is the genuine state of the history and the %s state is NOT in the history (mutation %s)", s, t, which, kind),
			map[string]interface{}{"op": op})
	}
	if kind == "honest" && !verdict {
		r.Fail("C01:VerifyDualProof:rejects-honest", fmt.Sprintf("honest dual proof rejected s=%d t=%d", s, t), map[string]interface{}{"op": op})
	}
	return verdict
}

var benignFuture = map[string]bool{"t.ts": true, "t.nentries": true, "t.eh": true, "t.version": true, "t.metadata": true}

func flip32(rng *hx.Rng, d [32]byte) [32]byte {
	d[rng.Intn(32)] ^= 1 << uint(rng.Intn(8))
	return d
}

func mutList(rng *hx.Rng, l [][32]byte, pool [][32]byte) [][32]byte {
	q, _ := mutTerms(rng, l, pool)
	return q
}

func (hi *c01Hist) mutateDual(r *hx.Result, rng *hx.Rng, p0 *store.DualProof, s, t uint64) {
	sa, ta := hi.alhs[s], hi.alhs[t]
	pool := hi.alhs[1:]
	p := cloneDual(p0)
	kind := ""
	recomputeT, recomputeS := false, false
	switch rng.Intn(22) {
	case 0:
		p.TargetTxHeader.Ts += int64(rng.Intn(3) + 1)
		kind, recomputeT = "t.ts", true
	case 1:
		p.TargetTxHeader.NEntries += 1
		kind, recomputeT = "t.nentries", true
	case 2:
		p.TargetTxHeader.Eh = flip32(rng, p.TargetTxHeader.Eh)
		kind, recomputeT = "t.eh", true
	case 3:
		p.TargetTxHeader.BlRoot = flip32(rng, p.TargetTxHeader.BlRoot)
		kind, recomputeT = "t.blroot", true
	case 4:
		p.TargetTxHeader.PrevAlh = flip32(rng, p.TargetTxHeader.PrevAlh)
		kind, recomputeT = "t.prevalh", true
	case 5:
		if p.TargetTxHeader.BlTxID > 0 {
			p.TargetTxHeader.BlTxID += uint64(rng.Intn(3)) - 1
		}
		kind, recomputeT = "t.bltxid", true
	case 6:
		p.TargetTxHeader.Version = 1 - p.TargetTxHeader.Version
		kind, recomputeT = "t.version", true
	case 7:
		md := store.NewTxMetadata()
		md.WithExtra(rng.Bytes(1 + rng.Intn(8)))
		p.TargetTxHeader.Metadata = md
		kind, recomputeT = "t.metadata", true
	case 8:
		p.SourceTxHeader.Eh = flip32(rng, p.SourceTxHeader.Eh)
		kind, recomputeS = "s.eh", true
	case 9:
		p.SourceTxHeader.BlRoot = flip32(rng, p.SourceTxHeader.BlRoot)
		kind, recomputeS = "s.blroot", true
	case 10:
		p.InclusionProof = mutList(rng, p.InclusionProof, pool)
		kind = "inclusion-terms"
	case 11:
		p.ConsistencyProof = mutList(rng, p.ConsistencyProof, pool)
		kind = "consistency-terms"
	case 12:
		p.LastInclusionProof = mutList(rng, p.LastInclusionProof, pool)
		kind = "lastinclusion-terms"
	case 13:
		p.TargetBlTxAlh = pool[rng.Intn(len(pool))]
		kind = "targetblalh"
	case 14:
		if p.LinearProof != nil {
			p.LinearProof.Terms = mutList(rng, p.LinearProof.Terms, pool)
		}
		kind = "linear-terms"
	case 15:
		if p.LinearAdvanceProof != nil {
			if rng.Bool() {
				p.LinearAdvanceProof.LinearProofTerms = mutList(rng, p.LinearAdvanceProof.LinearProofTerms, pool)
			} else if len(p.LinearAdvanceProof.InclusionProofs) > 0 {
				k := rng.Intn(len(p.LinearAdvanceProof.InclusionProofs))
				p.LinearAdvanceProof.InclusionProofs[k] = mutList(rng, p.LinearAdvanceProof.InclusionProofs[k], pool)
			}
		}
		kind = "linearadvance"
	case 16:
		switch rng.Intn(3) {
		case 0:
			p.LinearProof = nil
		case 1:
			p.LinearAdvanceProof = nil
		case 2:
			p.SourceTxHeader = nil
		}
		kind = "nil-part"
	case 17: // claim other ids with the same alhs
		s2 := s + uint64(rng.Intn(3)) - 1
		t2 := t + uint64(rng.Intn(3)) - 1
		hi.probeDual(r, p, s2, t2, sa, ta, "shift-ids")
		return
	case 18: // genuine proof of another pair presented for (s,t)
		s2 := 1 + uint64(rng.Intn(int(t)))
		t2 := s2 + uint64(rng.Intn(int(hi.n-s2+1)))
		q, err := hi.st.DualProof(hi.hdrs[s2], hi.hdrs[t2])
		if err == nil {
			hi.probeDual(r, q, s, t, sa, ta, "foreign-proof")
			hi.probeDual(r, q, s2, t2, sa, hi.alhs[t2], "foreign-proof-wrong-source")
		}
		return
	case 19: // swapped
		hi.probeDual(r, p, t, s, ta, sa, "swapped")
		return
	case 20: // forged target alh with untouched header
		hi.probeDual(r, p, s, t, sa, flip32(rng, ta), "t.alh-only")
		hi.probeDual(r, p, s, t, flip32(rng, sa), ta, "s.alh-only")
		return
	case 21: // header id changed
		p.TargetTxHeader.ID += 1
		kind, recomputeT = "t.id", true
	}
	if recomputeT && p.TargetTxHeader != nil {
		a, pk := safeAlh(p.TargetTxHeader)
		if pk {
			return
		}
		ta = a
		// keep the linear proof's last term coherent with the forged header where the attacker can
		hi.probeDual(r, p, s, p.TargetTxHeader.ID, sa, ta, kind)
		return
	}
	if recomputeS && p.SourceTxHeader != nil {
		a, pk := safeAlh(p.SourceTxHeader)
		if pk {
			return
		}
		hi.probeDual(r, p, s, t, a, ta, kind)
		return
	}
	hi.probeDual(r, p, s, t, sa, ta, kind)
}

// flipConsumed: flip one bit of one term in a part of the proof that the verification of (s,t) MUST consume.
// A verifier that still accepts does not check that term ("every proof term" alterations never verify).
func (hi *c01Hist) flipConsumed(r *hx.Result, rng *hx.Rng, p0 *store.DualProof, s, t uint64) {
	sh, th := p0.SourceTxHeader, p0.TargetTxHeader
	type part struct {
		name string
		mut  func(p *store.DualProof) bool
	}
	flipIn := func(l [][32]byte) bool {
		if len(l) == 0 {
			return false
		}
		i := rng.Intn(len(l))
		l[i] = flip32(rng, l[i])
		return true
	}
	var parts []part
	if s < th.BlTxID {
		parts = append(parts, part{"inclusion", func(p *store.DualProof) bool { return flipIn(p.InclusionProof) }})
	}
	if sh.BlTxID > 0 && sh.BlTxID != th.BlTxID {
		parts = append(parts, part{"consistency", func(p *store.DualProof) bool { return flipIn(p.ConsistencyProof) }})
	}
	if th.BlTxID > 0 {
		parts = append(parts, part{"lastinclusion", func(p *store.DualProof) bool { return flipIn(p.LastInclusionProof) }})
		parts = append(parts, part{"targetblalh", func(p *store.DualProof) bool { p.TargetBlTxAlh = flip32(rng, p.TargetBlTxAlh); return true }})
	}
	parts = append(parts, part{"linear", func(p *store.DualProof) bool { return p.LinearProof != nil && flipIn(p.LinearProof.Terms) }})
	end := s
	if th.BlTxID < end {
		end = th.BlTxID
	}
	if end > sh.BlTxID+1 && p0.LinearAdvanceProof != nil {
		parts = append(parts, part{"linearadvance-terms", func(p *store.DualProof) bool { return flipIn(p.LinearAdvanceProof.LinearProofTerms) }})
		for k := range p0.LinearAdvanceProof.InclusionProofs {
			k := k
			parts = append(parts, part{fmt.Sprintf("linearadvance-inclusion[%d/%d]", k, len(p0.LinearAdvanceProof.InclusionProofs)), func(p *store.DualProof) bool {
				return flipIn(p.LinearAdvanceProof.InclusionProofs[k])
			}})
		}
	}
	pt := parts[rng.Intn(len(parts))]
	p := cloneDual(p0)
	if !pt.mut(p) {
		return
	}
	if hi.probeDual(r, p, s, t, hi.alhs[s], hi.alhs[t], "flip-consumed-"+pt.name) {
		r.Fail("C01:VerifyDualProof:ignores-altered-term:"+strings.SplitN(pt.name, "[", 2)[0],
			fmt.Sprintf("VerifyDualProof(s=%d,t=%d) still accepts after one bit of a term of the %s part was flipped: that term is not verified", s, t, pt.name),
			map[string]interface{}{"op": dualTok(p, s, t, hi.alhs[s], hi.alhs[t])})
	}
}

// attack template "forged last leaf": the target tree holds X != alh(s) at position s while the
// target header (id s+1 .. s+k) chains linearly from the genuine alh(s).  Every sub-proof is generated
// by a real scratch ahtree over the forged leaves, so each individual check passes; only a check that ties
// the tree leaf at position s to the trusted alh(s) can reject it.
func (hi *c01Hist) forgedLastLeaf(r *hx.Result, rng *hx.Rng, s uint64) error {
	if s < 2 || s > hi.n {
		return nil
	}
	dir := hx.TempDir("c01f")
	defer os.RemoveAll(dir)
	t, err := ahtree.Open(filepath.Join(dir, "aht"), ahtree.DefaultOptions())
	if err != nil {
		return err
	}
	defer t.Close()
	for k := uint64(1); k < s; k++ {
		a := hi.alhs[k]
		t.Append(a[:])
	}
	var x [32]byte
	copy(x[:], rng.Bytes(32))
	_, forgedRoot, _ := t.Append(x[:])
	src := hi.hdrs[s]
	if src.BlTxID != s-1 {
		return nil // template written for lag-1 sources
	}
	tgt := &store.TxHeader{ID: s + 1, Ts: src.Ts + 1, BlTxID: s, BlRoot: forgedRoot, PrevAlh: hi.alhs[s], Version: src.Version,
		NEntries: 1, Eh: sha256.Sum256([]byte("forged"))}
	ta := tgt.Alh()
	cp, err := t.ConsistencyProof(s-1, s)
	if err != nil {
		return err
	}
	lip, err := t.InclusionProof(s, s)
	if err != nil {
		return err
	}
	inner := innerOf(tgt)
	p := &store.DualProof{SourceTxHeader: src, TargetTxHeader: tgt, ConsistencyProof: cp, TargetBlTxAlh: x, LastInclusionProof: lip,
		LinearProof: &store.LinearProof{SourceTxID: s, TargetTxID: s + 1, Terms: [][32]byte{hi.alhs[s], inner}}}
	hi.probeDual(r, p, s, s+1, hi.alhs[s], ta, "attack-forged-last-leaf")
	return nil
}

// attack template K5 ("lagging gap"): the trusted source s has a binary-linking lag > 1
// (source.BlTxID < s-1). The forged target t = s+1 declares BlTxID = b with source.BlTxID < b < s and a tree whose
// leaves source.BlTxID+1 .. b are a FORGED chain. VerifyDualProof checks that those leaves form some linear chain
// included in the target tree (LinearAdvanceProof) ending in TargetBlTxAlh, but never connects them to the trusted
// accumulated hash of s (which commits to the genuine alh of every earlier tx through PrevAlh).
func (hi *c01Hist) laggingGapAttack(r *hx.Result, rng *hx.Rng, s uint64) error {
	if s < 3 || s > hi.n {
		return nil
	}
	src := hi.hdrs[s]
	start := src.BlTxID
	if start+1 >= s || start == 0 {
		return nil // needs a lagging trusted source with a non-empty tree
	}
	b := start + 1 + uint64(rng.Intn(int(s-start-1))) // start < b < s
	dir := hx.TempDir("c01k")
	defer os.RemoveAll(dir)
	t, err := ahtree.Open(filepath.Join(dir, "aht"), ahtree.DefaultOptions())
	if err != nil {
		return err
	}
	defer t.Close()
	for k := uint64(1); k <= start; k++ {
		a := hi.alhs[k]
		t.Append(a[:])
	}
	// forged chain X_{start+1} .. X_b
	xs := map[uint64][32]byte{}
	inners := map[uint64][32]byte{}
	var x [32]byte
	copy(x[:], rng.Bytes(32))
	xs[start+1] = x
	for k := start + 2; k <= b; k++ {
		var in [32]byte
		copy(in[:], rng.Bytes(32))
		inners[k] = in
		bs := make([]byte, 8+64)
		for i := 0; i < 8; i++ {
			bs[i] = byte(k >> uint(56-8*i))
		}
		prev := xs[k-1]
		copy(bs[8:], prev[:])
		copy(bs[40:], in[:])
		xs[k] = sha256.Sum256(bs)
	}
	var forgedRoot [32]byte
	for k := start + 1; k <= b; k++ {
		a := xs[k]
		_, forgedRoot, _ = t.Append(a[:])
	}
	tgt := &store.TxHeader{ID: s + 1, Ts: src.Ts + 1, BlTxID: b, BlRoot: forgedRoot, PrevAlh: hi.alhs[s], Version: src.Version,
		NEntries: 1, Eh: sha256.Sum256([]byte("forged"))}
	ta := tgt.Alh()
	cp, err := t.ConsistencyProof(start, b)
	if err != nil {
		return err
	}
	lip, err := t.InclusionProof(b, b)
	if err != nil {
		return err
	}
	p := &store.DualProof{SourceTxHeader: src, TargetTxHeader: tgt, ConsistencyProof: cp, TargetBlTxAlh: xs[b], LastInclusionProof: lip,
		LinearProof: &store.LinearProof{SourceTxID: s, TargetTxID: s + 1, Terms: [][32]byte{hi.alhs[s], innerOf(tgt)}}}
	if b > start+1 {
		lap := &store.LinearAdvanceProof{LinearProofTerms: [][32]byte{xs[start+1]}}
		for k := start + 1; k < b; k++ {
			ip, err := t.InclusionProof(k, b)
			if err != nil {
				return err
			}
			lap.InclusionProofs = append(lap.InclusionProofs, ip)
			lap.LinearProofTerms = append(lap.LinearProofTerms, inners[k+1])
		}
		p.LinearAdvanceProof = lap
	}
	hi.probeDual(r, p, s, s+1, hi.alhs[s], ta, "attack-k5-lagging-gap")
	return nil
}

// innerHash is unexported: recompute it from Alh's definition is impossible, so derive it via the layout
// (ts, version, [mdlen, md], nentries, eh, blTxID, blRoot) – same bytes as tx.go innerHash.
func innerOf(h *store.TxHeader) [32]byte {
	var b []byte
	u64 := func(v uint64) {
		b = append(b, byte(v>>56), byte(v>>48), byte(v>>40), byte(v>>32), byte(v>>24), byte(v>>16), byte(v>>8), byte(v))
	}
	u64(uint64(h.Ts))
	b = append(b, byte(h.Version>>8), byte(h.Version))
	if h.Version == 0 {
		b = append(b, byte(h.NEntries>>8), byte(h.NEntries))
	} else {
		var md []byte
		if h.Metadata != nil {
			md = h.Metadata.Bytes()
		}
		b = append(b, byte(len(md)>>8), byte(len(md)))
		b = append(b, md...)
		b = append(b, byte(h.NEntries>>24), byte(h.NEntries>>16), byte(h.NEntries>>8), byte(h.NEntries))
	}
	b = append(b, h.Eh[:]...)
	u64(h.BlTxID)
	b = append(b, h.BlRoot[:]...)
	return sha256.Sum256(b)
}

// c01LegacyCase: the repository's own legacy dataset whose binary linking lags the linear chain
// (txs 11..20 have BlTxID = 10): the only way to reach VerifyLinearAdvanceProof's loop and lag > 1.
func c01LegacyCase(r *hx.Result, rng *hx.Rng, allPairs bool, probes int) error {
	src := filepath.Join(repoDir(), "test", "data_long_linear_proof")
	if _, err := os.Stat(src); err != nil {
		r.Notes = append(r.Notes, "legacy dataset not found: "+err.Error())
		return nil
	}
	r.NextCase()
	dir := hx.TempDir("c01l")
	defer os.RemoveAll(dir)
	dst := filepath.Join(dir, "st")
	if err := copyDir(src, dst); err != nil {
		return err
	}
	st, err := store.Open(dst, store.DefaultOptions().WithSynced(false).WithMaxConcurrency(1).WithLogger(quietLogger()))
	if err != nil {
		return err
	}
	defer st.Close()
	return c01Probe(r, rng, st, int(st.TxCount()), allPairs, probes, "legacy-lagging")
}

// c01LaggingCase: a REAL store whose binary linking lags the linear chain by an arbitrary (non-decreasing)
// pattern, including lag from genesis (BlTxID = 0 for several txs). Such histories are written by
// replicas: ReplicateTx takes BlTxID/BlRoot from the supplied header. Headers are crafted here with the
// BlRoot computed by the harness's own reference Merkle tree.
func c01LaggingCase(r *hx.Result, rng *hx.Rng, n int, allPairs bool, probes int) error {
	r.NextCase()
	dir := hx.TempDir("c01g")
	defer os.RemoveAll(dir)
	st, err := store.Open(filepath.Join(dir, "st"), store.DefaultOptions().WithSynced(false).WithMaxConcurrency(1).WithLogger(quietLogger()))
	if err != nil {
		return err
	}
	defer st.Close()
	prevAlh := sha256.Sum256(nil)
	var leaves [][32]byte // leafFor(alh_k)
	bl := uint64(0)
	genesisLag := uint64(0)
	if rng.Chance(50) {
		genesisLag = 2 + uint64(rng.Intn(4))
	}
	for k := uint64(1); k <= uint64(n); k++ {
		switch {
		case k == 1:
			bl = 0
		case k <= genesisLag:
			bl = 0
		case rng.Chance(45): // keep lagging
		case rng.Chance(50):
			bl = k - 1
		default:
			bl = bl + uint64(rng.Intn(int(k-bl)))
		}
		key := []byte(fmt.Sprintf("key%d", k))
		value := rng.Bytes(1 + rng.Intn(12))
		entry := store.NewTxEntry(key, nil, len(value), sha256.Sum256(value), 0)
		dg, err := store.TxEntryDigest_v1_2(entry)
		if err != nil {
			return err
		}
		ht, _ := htree.New(1)
		ht.BuildWith([][32]byte{dg})
		hdr := &store.TxHeader{ID: k, Ts: int64(1_700_000_000 + k), BlTxID: bl, PrevAlh: prevAlh, Version: 1, NEntries: 1, Eh: ht.Root()}
		if bl > 0 {
			hdr.BlRoot = refMth(leaves[:bl])
		}
		hb, err := hdr.Bytes()
		if err != nil {
			return err
		}
		var buf []byte
		put32 := func(v int) { buf = append(buf, byte(v>>24), byte(v>>16), byte(v>>8), byte(v)) }
		put16 := func(v int) { buf = append(buf, byte(v>>8), byte(v)) }
		put32(len(hb))
		buf = append(buf, hb...)
		put16(len(key))
		buf = append(buf, key...)
		put16(0)
		put32(len(value))
		buf = append(buf, value...)
		put16(1)
		buf = append(buf, 0)
		ch, err := st.ReplicateTx(context.Background(), buf, false, false)
		if err != nil {
			return fmt.Errorf("ReplicateTx(id=%d, bl=%d): %w", k, bl, err)
		}
		prevAlh = ch.Alh()
		leaves = append(leaves, refLeaf(prevAlh[:]))
	}
	return c01Probe(r, rng, st, n, allPairs, probes, "replicated-lagging")
}

func c01StoreCase(r *hx.Result, rng *hx.Rng, n int, allPairs bool, probes int) error {
	r.NextCase()
	dir := hx.TempDir("c01")
	defer os.RemoveAll(dir)
	ver := 1
	if rng.Chance(30) {
		ver = 0
	}
	opts := store.DefaultOptions().WithSynced(false).WithWriteTxHeaderVersion(ver).WithMaxConcurrency(4).
		WithFileSize(1 << (12 + rng.Intn(6))).WithEmbeddedValues(rng.Bool()).WithLogger(quietLogger())
	st, err := store.Open(filepath.Join(dir, "st"), opts)
	if err != nil {
		return err
	}
	defer st.Close()
	ctx := context.Background()
	for k := 1; k <= n; k++ {
		tx, err := st.NewWriteOnlyTx(ctx)
		if err != nil {
			return err
		}
		ne := 1 + rng.Intn(4)
		for e := 0; e < ne; e++ {
			var md *store.KVMetadata
			if ver == 1 && rng.Chance(20) {
				md = store.NewKVMetadata()
				if rng.Bool() {
					md.AsDeleted(true)
				} else {
					md.ExpiresAt(time.Unix(int64(1700000000+rng.Intn(1000)), 0))
				}
			}
			if err := tx.Set([]byte(fmt.Sprintf("k%d-%d", e, rng.Intn(6))), md, rng.Bytes(rng.Size(40))); err != nil {
				return err
			}
		}
		if ver == 1 && rng.Chance(15) {
			md := store.NewTxMetadata()
			md.WithExtra(rng.Bytes(1 + rng.Intn(12)))
			tx.WithMetadata(md)
		}
		if _, err := tx.AsyncCommit(ctx); err != nil {
			return err
		}
	}
	return c01Probe(r, rng, st, n, allPairs, probes, fmt.Sprintf("fresh-v%d", ver))
}

func c01Probe(r *hx.Result, rng *hx.Rng, st *store.ImmuStore, n int, allPairs bool, probes int, label string) error {
	hi := &c01Hist{st: st, hdrs: make([]*store.TxHeader, n+1), alhs: make([][32]byte, n+1), n: uint64(n)}
	r.Corr("c01 hist.new", "ok")
	for k := 1; k <= n; k++ {
		h, err := st.ReadTxHeader(uint64(k), false, false)
		if err != nil {
			return err
		}
		hi.hdrs[k] = h
		hi.alhs[k] = h.Alh()
		r.Corr("c01 hist.add "+hdrTok(h), hx.Hex(hi.alhs[k][:]))
		r.Corr("c01 alh "+hdrTok(h), hx.Hex(hi.alhs[k][:]))
		in := innerOf(h)
		r.Corr("c01 inner "+hdrTok(h), hx.Hex(in[:]))
	}
	cid, calh := st.CommittedAlh()
	if cid != uint64(n) || calh != hi.alhs[n] {
		r.Fail("C01:CommittedAlh:not-last-tx", "CommittedAlh differs from the last header's Alh", nil)
	}
	type pair struct{ s, t uint64 }
	var pairs []pair
	if allPairs {
		for t := 1; t <= n; t++ {
			for s := 1; s <= t; s++ {
				pairs = append(pairs, pair{uint64(s), uint64(t)})
			}
		}
	} else {
		for k := 0; k < probes; k++ {
			t := 1 + rng.Intn(n)
			s := 1 + rng.Intn(t)
			if rng.Chance(25) {
				s = t - rng.Intn(minI(3, t))
			}
			pairs = append(pairs, pair{uint64(s), uint64(t)})
		}
	}
	for _, pr := range pairs {
		p, err := st.DualProof(hi.hdrs[pr.s], hi.hdrs[pr.t])
		if err != nil {
			return fmt.Errorf("DualProof(%d,%d): %w", pr.s, pr.t, err)
		}
		// prover-side correspondence: the model's DualProof must be identical, field by field
		r.Corr(fmt.Sprintf("c01 dproof %d %d", pr.s, pr.t), fmt.Sprintf("%s %s %s %s %s %s %s %s", hdrTok(p.SourceTxHeader), hdrTok(p.TargetTxHeader),
			hx.Csv32(p.InclusionProof), hx.Csv32(p.ConsistencyProof), hx.Hex(p.TargetBlTxAlh[:]), hx.Csv32(p.LastInclusionProof),
			lpTok(p.LinearProof), lapTok(p.LinearAdvanceProof)))
		hi.probeDual(r, p, pr.s, pr.t, hi.alhs[pr.s], hi.alhs[pr.t], "honest")
		nm := 3
		if !allPairs {
			nm = 10
		}
		for m := 0; m < nm; m++ {
			hi.mutateDual(r, rng, p, pr.s, pr.t)
		}
		for m := 0; m < nm; m++ {
			hi.flipConsumed(r, rng, p, pr.s, pr.t)
		}
		if rng.Chance(35) {
			if err := hi.forgedLastLeaf(r, rng, pr.s); err != nil {
				return err
			}
			if err := hi.laggingGapAttack(r, rng, pr.s); err != nil {
				return err
			}
		}
		// V2
		p2, err := st.DualProofV2(hi.hdrs[pr.s], hi.hdrs[pr.t])
		if err == nil {
			hi.probeV2(r, rng, p2, pr.s, pr.t)
		}
		// linear proof alone
		if pr.t-pr.s < 40 {
			lp, err := st.LinearProof(pr.s, pr.t)
			if err == nil {
				v := store.VerifyLinearProof(lp, pr.s, pr.t, hi.alhs[pr.s], hi.alhs[pr.t])
				r.Corr(fmt.Sprintf("c01 vlin %s %d %d %s %s", lpTok(lp), pr.s, pr.t, hx.Hex(hi.alhs[pr.s][:]), hx.Hex(hi.alhs[pr.t][:])), b2s(v))
				if !v {
					r.Fail("C01:VerifyLinearProof:rejects-honest", fmt.Sprintf("s=%d t=%d", pr.s, pr.t), nil)
				}
				q := *lp
				q.Terms = mutList(rng, lp.Terms, hi.alhs[1:])
				v2 := store.VerifyLinearProof(&q, pr.s, pr.t, hi.alhs[pr.s], hi.alhs[pr.t])
				r.Corr(fmt.Sprintf("c01 vlin %s %d %d %s %s", lpTok(&q), pr.s, pr.t, hx.Hex(hi.alhs[pr.s][:]), hx.Hex(hi.alhs[pr.t][:])), b2s(v2))
			}
		}
	}
	// entry inclusion proofs of a few txs
	tx := store.NewTx(st.MaxTxEntries(), st.MaxKeyLen())
	for k := 1; k <= n; k++ {
		if !allPairs && !rng.Chance(30) {
			continue
		}
		if err := st.ReadTx(uint64(k), false, tx); err != nil {
			return err
		}
		c01Entries(r, rng, st, tx)
	}
	lagMax := uint64(0)
	for k := 1; k <= n; k++ {
		if l := uint64(k) - hi.hdrs[k].BlTxID; l > lagMax {
			lagMax = l
		}
	}
	r.Count(fmt.Sprintf("history.%s.maxlag=%d", label, lagMax))
	r.Sample(map[string]interface{}{"kind": "store-history", "txs": n, "label": label, "max_lag": lagMax, "pairs": len(pairs)})
	return nil
}

func minI(a, b int) int {
	if a < b {
		return a
	}
	return b
}

func (hi *c01Hist) probeV2(r *hx.Result, rng *hx.Rng, p0 *store.DualProofV2, s, t uint64) {
	probe := func(p *store.DualProofV2, s, t uint64, sa, ta [32]byte, kind string) {
		var err error
		outcome := ""
		func() {
			defer func() {
				if e := recover(); e != nil {
					outcome = "panic"
				}
			}()
			err = store.VerifyDualProofV2(p, s, t, sa, ta)
		}()
		if outcome == "" {
			switch {
			case err == nil:
				outcome = "ok"
			case err == store.ErrIllegalArguments:
				outcome = "err:illegal"
			case err == store.ErrSourceTxNewerThanTargetTx:
				outcome = "err:source-newer"
			case err == store.ErrUnexpectedLinkingError:
				outcome = "err:linking"
			case strings.Contains(err.Error(), "inclusion proof"):
				outcome = "err:inclusion"
			case strings.Contains(err.Error(), "consistency proof"):
				outcome = "err:consistency"
			default:
				outcome = "err:other"
			}
		}
		op := fmt.Sprintf("c01 vdual2 %s %s %s %s %d %d %s %s", hdrTok(p.SourceTxHeader), hdrTok(p.TargetTxHeader),
			hx.Csv32(p.InclusionProof), hx.Csv32(p.ConsistencyProof), s, t, hx.Hex(sa[:]), hx.Hex(ta[:]))
		r.Corr(op, outcome)
		r.Count("vdual2." + kind + "." + outcome)
		r.Eval(op, kind != "honest" || outcome == "ok")
		r.OracleChecks++
		sReal := s >= 1 && s <= hi.n && hi.alhs[s] == sa
		tReal := t >= 1 && t <= hi.n && hi.alhs[t] == ta
		benign := sReal && !tReal && s != t && benignFuture[kind]
		if outcome == "ok" && benign {
			r.Count("vdual2.accepted-different-future." + kind)
		}
		if outcome == "ok" && sReal != tReal && !benign {
			if s == t {
				kind = "same-id-different-alh"
			}
			r.Fail("C01:VerifyDualProofV2:accepts-forged:"+kind, fmt.Sprintf("s=%d t=%d mutation %s", s, t, kind), map[string]interface{}{"op": op})
		}
		if kind == "honest" && outcome != "ok" {
			r.Fail("C01:VerifyDualProofV2:rejects-honest", fmt.Sprintf("s=%d t=%d: %s", s, t, outcome), map[string]interface{}{"op": op})
		}
	}
	sa, ta := hi.alhs[s], hi.alhs[t]
	probe(p0, s, t, sa, ta, "honest")
	for m := 0; m < 4; m++ {
		p := &store.DualProofV2{SourceTxHeader: cloneHdr(p0.SourceTxHeader), TargetTxHeader: cloneHdr(p0.TargetTxHeader),
			InclusionProof: clone32(p0.InclusionProof), ConsistencyProof: clone32(p0.ConsistencyProof)}
		switch rng.Intn(6) {
		case 0:
			p.TargetTxHeader.BlRoot = flip32(rng, p.TargetTxHeader.BlRoot)
			probe(p, s, t, sa, p.TargetTxHeader.Alh(), "t.blroot")
		case 1:
			p.TargetTxHeader.Eh = flip32(rng, p.TargetTxHeader.Eh)
			probe(p, s, t, sa, p.TargetTxHeader.Alh(), "t.eh")
		case 2:
			p.InclusionProof = mutList(rng, p.InclusionProof, hi.alhs[1:])
			probe(p, s, t, sa, ta, "inclusion-terms")
		case 3:
			p.ConsistencyProof = mutList(rng, p.ConsistencyProof, hi.alhs[1:])
			probe(p, s, t, sa, ta, "consistency-terms")
		case 4:
			p.SourceTxHeader.Eh = flip32(rng, p.SourceTxHeader.Eh)
			probe(p, s, t, p.SourceTxHeader.Alh(), ta, "s.eh")
		case 5:
			probe(p, s+uint64(rng.Intn(3))-1, t+uint64(rng.Intn(3))-1, sa, ta, "shift-ids")
		}
	}
}

// entries: digest functions vs model; inclusion proofs vs ground truth
func c01Entries(r *hx.Result, rng *hx.Rng, st *store.ImmuStore, tx *store.Tx) {
	hdr := tx.Header()
	entries := tx.Entries()
	digests := make(map[[32]byte]bool)
	for _, e := range entries {
		var md []byte
		if e.Metadata() != nil {
			md = e.Metadata().Bytes()
		}
		hv := e.HVal()
		spec := &store.EntrySpec{Key: e.Key(), Metadata: e.Metadata(), HashValue: hv, IsValueTruncated: true}
		var d [32]byte
		if hdr.Version == 0 {
			// v0 hashes the value itself: use the real value
			v, err := st.ReadValue(e)
			if err != nil {
				continue
			}
			spec = &store.EntrySpec{Key: e.Key(), Value: v}
			d = store.EntrySpecDigest_v0(spec)
			r.Corr(fmt.Sprintf("c01 ed0 %s %s", hx.Hex(e.Key()), hx.Hex(hv[:])), hx.Hex(d[:]))
		} else {
			d = store.EntrySpecDigest_v1(spec)
			r.Corr(fmt.Sprintf("c01 ed1 %s %s %s", hx.Hex(md), hx.Hex(e.Key()), hx.Hex(hv[:])), hx.Hex(d[:]))
		}
		digests[d] = true
	}
	for _, e := range entries {
		proof, err := tx.Proof(e.Key())
		if err != nil {
			continue
		}
		var d [32]byte
		if hdr.Version == 0 {
			v, err := st.ReadValue(e)
			if err != nil {
				continue
			}
			d = store.EntrySpecDigest_v0(&store.EntrySpec{Key: e.Key(), Value: v})
		} else {
			d = store.EntrySpecDigest_v1(&store.EntrySpec{Key: e.Key(), Metadata: e.Metadata(), HashValue: e.HVal(), IsValueTruncated: true})
		}
		r.OracleChecks++
		if !store.VerifyInclusion(proof, d, hdr.Eh) {
			r.Fail("C01:store.VerifyInclusion:rejects-honest-entry", fmt.Sprintf("tx %d", hdr.ID), nil)
		}
		// altered entry: value/key/metadata changed => digest not among the tx's digests => must be rejected
		alt := &store.EntrySpec{Key: append(append([]byte{}, e.Key()...), byte('x')), Metadata: e.Metadata(), HashValue: e.HVal(), IsValueTruncated: true}
		ad := store.EntrySpecDigest_v1(alt)
		for m := 0; m < 3; m++ {
			q := &htree.InclusionProof{Leaf: proof.Leaf, Width: proof.Width, Terms: clone32(proof.Terms)}
			switch m {
			case 1:
				q.Leaf = rng.Intn(proof.Width + 1)
			case 2:
				q.Terms = mutList(rng, q.Terms, [][32]byte{d, ad})
			}
			got := store.VerifyInclusion(q, ad, hdr.Eh)
			r.OracleChecks++
			r.Count("entry.altered." + b2s(got))
			if got && !digests[ad] {
				r.Fail("C01:store.VerifyInclusion:accepts-altered-entry", fmt.Sprintf("tx %d", hdr.ID), nil)
			}
		}
	}
}

func c01PureHeaders(r *hx.Result, rng *hx.Rng, n int) {
	for k := 0; k < n; k++ {
		h := &store.TxHeader{ID: rng.U64() >> uint(rng.Intn(64)), Ts: int64(rng.U64() >> uint(rng.Intn(64))), BlTxID: rng.U64() >> uint(rng.Intn(64)),
			Version: rng.Intn(2), NEntries: int(rng.U64()>>uint(32+rng.Intn(32))) & 0x7fffffff}
		if rng.Chance(10) {
			h.Ts = -h.Ts
		}
		if rng.Chance(5) {
			h.Version = 2 + rng.Intn(3)
		}
		copy(h.BlRoot[:], rng.Bytes(32))
		copy(h.PrevAlh[:], rng.Bytes(32))
		copy(h.Eh[:], rng.Bytes(32))
		if rng.Chance(40) {
			md := store.NewTxMetadata()
			if rng.Bool() {
				md.WithTruncatedTxID(1 + rng.U64()>>uint(rng.Intn(64)))
			}
			if rng.Bool() {
				md.WithExtra(rng.Bytes(1 + rng.Size(200)))
			}
			h.Metadata = md
		}
		a, pk := safeAlh(h)
		out := hx.Hex(a[:])
		if pk {
			out = "panic"
		}
		r.Corr("c01 alh "+hdrTok(h), out)
		r.Count("pure.alh.version=" + fmt.Sprint(h.Version))
		r.Eval("alh "+hdrTok(h), true)
	}
}

func runC01(r *hx.Result, rng *hx.Rng, thorough bool, replay string) error {
	r.Rule = "cases: (a) random TxHeaders (all field widths, metadata, versions incl. unsupported) -> Alh bytes; (b) real stores (header v0/v1, metadata, embedded values) with 1..N txs: DualProof/DualProofV2/LinearProof for all or sampled (s,t), verified by the real verifiers and by the model, followed by a mutation stream (header fields with recomputed Alh, every sub-proof, ids, nil parts, foreign proofs, swapped sides) and the forged-last-leaf attack template built from a scratch ahtree; (c) entry digests + entry inclusion proofs incl. altered entries; (d) the real pkg/client over bufconn with a man-in-the-middle interceptor (key-value verified calls); (e) pkg/client VerifyRow on generated tables of every column type (NULL / non-NULL, composite keys, rewritten rows, added/dropped columns, header version 0 and 1 databases) with tampered rows and tampered VerifiableSQLEntry responses, plus the remaining exported Verified* calls. Non-trivial = mutated or accepted call; distinct by call text."
	c01PureHeaders(r, rng.Fork(), 400)
	exN, lives, lifeN, probes := 14, 6, 120, 25
	if thorough {
		exN, lives, lifeN, probes = 40, 30, 400, 80
	}
	if err := c01LegacyCase(r, rng.Fork(), true, 0); err != nil {
		return fmt.Errorf("legacy dataset: %w", err)
	}
	if err := r.Flush(); err != nil {
		return err
	}
	lagRuns := 6
	if thorough {
		lagRuns = 40
	}
	for k := 0; k < lagRuns; k++ {
		if err := c01LaggingCase(r, rng.Fork(), 4+rng.Intn(14), true, 0); err != nil {
			return fmt.Errorf("lagging store: %w", err)
		}
		if err := r.Flush(); err != nil {
			return err
		}
	}
	for n := 1; n <= exN; n++ {
		if err := c01StoreCase(r, rng.Fork(), n, true, 0); err != nil {
			return err
		}
		if err := r.Flush(); err != nil {
			return err
		}
	}
	for k := 0; k < lives; k++ {
		if err := c01StoreCase(r, rng.Fork(), 2+rng.Size(lifeN), false, probes); err != nil {
			return err
		}
		if err := r.Flush(); err != nil {
			return err
		}
	}
	svcRuns, svcOps := 2, 120
	if thorough {
		svcRuns, svcOps = 10, 400
	}
	for k := 0; k < svcRuns; k++ {
		if err := c01Service(r, rng.Fork(), svcOps, k%2 == 0); err != nil {
			return fmt.Errorf("service-level: %w", err)
		}
	}
	// SQL side of the verified client API (pkg/client VerifyRow) against the real server (c01sql.go)
	sqlRuns, sqlOps := 3, 150
	if thorough {
		sqlRuns, sqlOps = 12, 500
	}
	for k := 0; k < sqlRuns; k++ {
		if err := c01SQLService(r, rng.Fork(), sqlOps, k%2 == 0, k%3 == 2); err != nil {
			return fmt.Errorf("service-level sql: %w", err)
		}
		if err := r.Flush(); err != nil {
			return err
		}
	}
	return nil
}
