// Package faultapp: fault injection around REAL appendables.
//
// App wraps an appendable.Appendable (normally a file backed multiapp) and makes ONE call of one method
// (Sync, Flush, Append, SetOffset, ReadAt, Size) on one named log fail, at a point chosen by the caller:
// "the (Skip+1)-th call of <Log>.<Method> after arming".  Two failure modes:
//
//	pre  – the call is not forwarded, ErrInjected is returned (the device refused);
//	post – the call IS forwarded to the real appendable and ErrInjected is returned afterwards (the effect
//	       reached the file / the buffer but the caller is told it failed: short write, late EIO of an fsync).
//
// A Plan is shared by all logs of one component (e.g. the payload, digest and commit log of one ahtree), so
// the call counter runs over the component's own call sequence and nothing below the wrapper is changed.
package faultapp

import (
	"errors"
	"fmt"
	"sync"

	"github.com/codenotary/immudb/embedded/appendable"
)

var ErrInjected = errors.New("faultapp: injected failure")

// Methods that can be made to fail.
var Methods = []string{"Sync", "Flush", "Append", "SetOffset", "ReadAt", "Size"}

type Fault struct {
	Log    string // name given to Wrap ("data", "tree", "commit", ...)
	Method string
	Skip   int  // matching calls let through before the failing one
	Post   bool // forward the call, then fail
}

func (f Fault) String() string {
	m := "pre"
	if f.Post {
		m = "post"
	}
	return fmt.Sprintf("%s.%s#%d/%s", f.Log, f.Method, f.Skip, m)
}

// Point: the fault without its mode/ordinal – what a finding signature names.
func (f Fault) Point() string { return f.Log + "." + f.Method }

type Plan struct {
	mu    sync.Mutex
	armed bool
	f     Fault
	left  int
	fired bool
	trace []string // calls seen while armed (all logs), for replay descriptions
}

func NewPlan() *Plan { return &Plan{} }

// Arm: the next matching call (after Skip more) fails, once.
func (p *Plan) Arm(f Fault) {
	p.mu.Lock()
	defer p.mu.Unlock()
	p.armed, p.f, p.left, p.fired, p.trace = true, f, f.Skip, false, p.trace[:0]
}

// Disarm returns whether the fault fired since Arm and the calls seen in between.
func (p *Plan) Disarm() (fired bool, trace []string) {
	p.mu.Lock()
	defer p.mu.Unlock()
	fired = p.fired
	trace = append([]string{}, p.trace...)
	p.armed, p.fired = false, false
	return
}

func (p *Plan) Fired() bool {
	p.mu.Lock()
	defer p.mu.Unlock()
	return p.fired
}

// hit reports whether this call must fail and in which mode.
func (p *Plan) hit(log, method string) (fail, post bool) {
	if p == nil {
		return false, false
	}
	p.mu.Lock()
	defer p.mu.Unlock()
	if !p.armed {
		return false, false
	}
	if len(p.trace) < 64 {
		p.trace = append(p.trace, log+"."+method)
	}
	if p.fired || p.f.Log != log || p.f.Method != method {
		return false, false
	}
	if p.left > 0 {
		p.left--
		return false, false
	}
	p.fired = true
	p.trace[len(p.trace)-1] += "!"
	return true, p.f.Post
}

type App struct {
	appendable.Appendable
	name string
	plan *Plan
}

func Wrap(app appendable.Appendable, name string, plan *Plan) *App {
	return &App{Appendable: app, name: name, plan: plan}
}

func (a *App) Sync() error {
	fail, post := a.plan.hit(a.name, "Sync")
	if fail && !post {
		return ErrInjected
	}
	err := a.Appendable.Sync()
	if fail && err == nil {
		err = ErrInjected
	}
	return err
}

func (a *App) Flush() error {
	fail, post := a.plan.hit(a.name, "Flush")
	if fail && !post {
		return ErrInjected
	}
	err := a.Appendable.Flush()
	if fail && err == nil {
		err = ErrInjected
	}
	return err
}

func (a *App) Append(bs []byte) (int64, int, error) {
	fail, post := a.plan.hit(a.name, "Append")
	if fail && !post {
		return 0, 0, ErrInjected
	}
	off, n, err := a.Appendable.Append(bs)
	if fail && err == nil {
		err = ErrInjected
	}
	return off, n, err
}

func (a *App) SetOffset(off int64) error {
	fail, post := a.plan.hit(a.name, "SetOffset")
	if fail && !post {
		return ErrInjected
	}
	err := a.Appendable.SetOffset(off)
	if fail && err == nil {
		err = ErrInjected
	}
	return err
}

func (a *App) ReadAt(bs []byte, off int64) (int, error) {
	fail, post := a.plan.hit(a.name, "ReadAt")
	if fail && !post {
		return 0, ErrInjected
	}
	n, err := a.Appendable.ReadAt(bs, off)
	if fail && err == nil {
		err = ErrInjected
	}
	return n, err
}

func (a *App) Size() (int64, error) {
	fail, post := a.plan.hit(a.name, "Size")
	if fail && !post {
		return 0, ErrInjected
	}
	n, err := a.Appendable.Size()
	if fail && err == nil {
		err = ErrInjected
	}
	return n, err
}
