// Package crashfs: an in-memory, recording, crash-simulating implementation of
// appendable.Appendable used by the C03 check.
//
// Every logical multiapp path ("tx", "commit", "val_0", "aht/data", "index/nodes", ...)
// is ONE logical file with three levels of content:
//
//	buffered  (Append not yet flushed: lost by any crash)
//	written   (flushed to the OS, not fsynced: an arbitrary prefix survives a power loss)
//	durable   (fsynced)
//
// The per-file state machine mirrors singleapp.AppendableFile + multiapp.MultiFileAppendable:
// shared write buffer of WriteBufferSize, buffer-full => flush (or fsync when retryableSync+autoSync),
// chunk rotation at multiples of FileSize (flush, + fsync when retryableSync; Sync() only reaches the
// current chunk), SetOffset never truncates the physical file (stale tail, finding F2/C17) and ReadAt
// below the flushed offset reads the physical bytes.
//
// All state-changing operations are recorded in a global, totally ordered log.  The log is
// sufficient to REPLAY the storage state up to any point (State.Apply), and a replayed state can be
// turned into CRASH IMAGES (State.Image) for a per-file survival choice.
package crashfs

import (
	"crypto/sha256"
	"encoding/binary"
	"errors"
	"fmt"
	"io"
	"os"
	"path/filepath"
	"reflect"
	"sort"
	"strings"
	"sync"

	"github.com/codenotary/immudb/embedded/appendable"
	"github.com/codenotary/immudb/embedded/appendable/multiapp"
	"github.com/codenotary/immudb/embedded/appendable/singleapp"
)

type Kind uint8

const (
	KOpen Kind = iota
	KAppend
	KFlush
	KSync
	KSetOffset
	KDiscard
	KSwitchRO
	KClose
	KRemove
	KMark // harness marker (ack, phase, ...): no storage effect
	KSide // side file (plain file on the real fs, e.g. tbtree "ts" file) changed: Data=nil => removed
)

func (k Kind) String() string {
	return [...]string{"open", "append", "flush", "sync", "setoffset", "discard", "switchro", "close", "remove", "mark", "side"}[k]
}

// Cfg: the multiapp options a file was opened with.
type Cfg struct {
	WriteBuf  int
	Retryable bool
	AutoSync  bool
	ReadOnly  bool
	FileSize  int
	Meta      []byte
}

// Op: one recorded operation.
type Op struct {
	Seq  int
	File string
	Kind Kind
	Off  int64  // SetOffset/Discard: argument; Append: returned offset
	Len  int    // Append: len(Data)
	Data []byte // Append payload / side-file content
	Cfg  *Cfg   // Open
	Note string // Mark label
	Arg  uint64 // Mark argument
	Auto string // informative: "flush"/"sync"/"rotate" performed implicitly inside the op
}

func (o Op) String() string {
	switch o.Kind {
	case KMark:
		return fmt.Sprintf("#%d mark %s %d", o.Seq, o.Note, o.Arg)
	case KAppend:
		return fmt.Sprintf("#%d %s append off=%d len=%d %s", o.Seq, o.File, o.Off, o.Len, o.Auto)
	case KSetOffset, KDiscard:
		return fmt.Sprintf("#%d %s %s %d", o.Seq, o.File, o.Kind, o.Off)
	default:
		return fmt.Sprintf("#%d %s %s %s", o.Seq, o.File, o.Kind, o.Auto)
	}
}

// ---------------------------------------------------------------------------------------------
// per-file physical model

type seg struct {
	off  int64
	data []byte
}

type fileState struct {
	cfg        Cfg
	meta       []byte
	durable    []byte // fsynced content
	durMask    []byte // validity of durable (0 = hole: an earlier chunk whose tail was never fsynced)
	phys       []byte // what the OS holds (durable + all pending writes applied)
	physMask   []byte
	pending    []seg  // written, not fsynced; issue order; one element per append fragment
	fileOffset int64  // logical offset up to which data has been handed to the OS
	buf        []byte // write buffer occupancy [0:len) ; [0:flushed) already written (retryable sync keeps it)
	flushed    int
	cuts       []int // append boundaries inside buf (absolute positions in buf)
	currAppID  int64
	readOnly   bool
	closed     bool
}

func (f *fileState) size() int64 { return f.fileOffset + int64(len(f.buf)-f.flushed) }

func (f *fileState) fsz() int64 {
	if f.cfg.FileSize <= 0 {
		return 1 << 40
	}
	return int64(f.cfg.FileSize)
}

func overlay(dst []byte, off int64, data []byte) []byte {
	end := off + int64(len(data))
	if int64(len(dst)) < end {
		dst = append(dst, make([]byte, end-int64(len(dst)))...)
	}
	copy(dst[off:], data)
	return dst
}

// overlayM: overlay with a validity mask (1 = the byte was written).  A gap between the old end and off is a HOLE:
// with chunked files it is the never-written tail of an earlier chunk file (reads there return EOF).
func overlayM(dst, mask []byte, off int64, data []byte) ([]byte, []byte) {
	for int64(len(mask)) < int64(len(dst)) {
		mask = append(mask, 1)
	}
	dst = overlay(dst, off, data)
	if int64(len(mask)) < int64(len(dst)) {
		mask = append(mask, make([]byte, int64(len(dst))-int64(len(mask)))...)
	}
	for i := off; i < off+int64(len(data)); i++ {
		mask[i] = 1
	}
	return dst, mask
}

func fullMask(n int) []byte {
	m := make([]byte, n)
	for i := range m {
		m[i] = 1
	}
	return m
}

func (f *fileState) flush() {
	n := len(f.buf) - f.flushed
	if n == 0 {
		return
	}
	// one pwrite of buf[flushed:], recorded at append-fragment granularity
	start := f.flushed
	for _, c := range f.cuts {
		if c <= start {
			continue
		}
		d := append([]byte{}, f.buf[start:c]...)
		f.pending = append(f.pending, seg{off: f.fileOffset + int64(start-f.flushed), data: d})
		start = c
	}
	if start < len(f.buf) {
		d := append([]byte{}, f.buf[start:]...)
		f.pending = append(f.pending, seg{off: f.fileOffset + int64(start-f.flushed), data: d})
	}
	f.phys, f.physMask = overlayM(f.phys, f.physMask, f.fileOffset, f.buf[f.flushed:])
	f.fileOffset += int64(n)
	f.flushed += n
	if !f.cfg.Retryable {
		f.buf, f.flushed, f.cuts = nil, 0, nil
	}
}

// fsync of the CURRENT chunk only (multiapp.sync): pending writes of earlier chunks stay pending.
func (f *fileState) sync() {
	f.flush()
	chunkStart := f.currAppID * f.fsz()
	var rest []seg
	for _, s := range f.pending {
		if s.off >= chunkStart {
			f.durable, f.durMask = overlayM(f.durable, f.durMask, s.off, s.data)
		} else {
			rest = append(rest, s)
		}
	}
	f.pending = rest
	if f.cfg.Retryable {
		f.buf, f.flushed, f.cuts = nil, 0, nil
	}
}

func (f *fileState) switchRO() {
	f.flush()
	if f.cfg.Retryable {
		f.sync()
	}
}

var ErrBufferFull = singleapp.ErrBufferFull

// write mirrors singleapp.write on the shared buffer
func (f *fileState) write(bs []byte, auto *string) error {
	n := 0
	for n < len(bs) {
		available := f.cfg.WriteBuf - len(f.buf)
		if available <= 0 {
			if f.cfg.Retryable {
				if !f.cfg.AutoSync {
					return ErrBufferFull
				}
				f.sync()
				*auto += "autosync "
			} else {
				f.flush()
				*auto += "autoflush "
			}
			available = f.cfg.WriteBuf
		}
		c := len(bs) - n
		if c > available {
			c = available
		}
		f.buf = append(f.buf, bs[n:n+c]...)
		n += c
	}
	f.cuts = append(f.cuts, len(f.buf))
	return nil
}

func (f *fileState) append(bs []byte, auto *string) (off int64, n int, err error) {
	if f.closed {
		return 0, 0, multiapp.ErrAlreadyClosed
	}
	if f.readOnly {
		return 0, 0, multiapp.ErrReadOnly
	}
	if len(bs) == 0 {
		return 0, 0, multiapp.ErrIllegalArguments
	}
	for n < len(bs) {
		available := f.fsz() - (f.size() - f.currAppID*f.fsz())
		if available <= 0 {
			// chunk rotation: SwitchToReadOnlyMode of the full chunk, new chunk opened with the shared buffer
			f.switchRO()
			f.buf, f.flushed, f.cuts = nil, 0, nil
			f.currAppID++
			*auto += "rotate "
			available = f.fsz()
		}
		d := int64(len(bs) - n)
		if d > available {
			d = available
		}
		o := f.size()
		if err = f.write(bs[n:n+int(d)], auto); err != nil {
			return off, n, err
		}
		if n == 0 {
			off = o
		}
		n += int(d)
	}
	return off, n, nil
}

func (f *fileState) setOffset(off int64, keepStale bool) error {
	if f.closed {
		return multiapp.ErrAlreadyClosed
	}
	if f.readOnly {
		return multiapp.ErrReadOnly
	}
	cur := f.size()
	if off > cur {
		return fmt.Errorf("%w: provided offset %d is bigger than current one %d", multiapp.ErrIllegalArguments, off, cur)
	}
	if off == cur {
		return nil
	}
	if off < 0 {
		return singleapp.ErrNegativeOffset
	}
	appID := off / f.fsz()
	if appID != f.currAppID {
		// current chunk is closed (flush, no fsync) and the earlier (full) chunk reopened
		f.flush()
		f.buf, f.flushed, f.cuts = nil, 0, nil
		f.currAppID = appID
		f.fileOffset = (appID + 1) * f.fsz()
	}
	if off >= f.fileOffset {
		// in-memory change
		drop := int(f.size() - off)
		f.buf = f.buf[:len(f.buf)-drop]
		for len(f.cuts) > 0 && f.cuts[len(f.cuts)-1] > len(f.buf) {
			f.cuts = f.cuts[:len(f.cuts)-1]
		}
		if len(f.buf) > f.flushed && (len(f.cuts) == 0 || f.cuts[len(f.cuts)-1] != len(f.buf)) {
			f.cuts = append(f.cuts, len(f.buf))
		}
		return nil
	}
	f.fileOffset = off
	f.buf, f.flushed, f.cuts = nil, 0, nil
	if !keepStale {
		// idealised file system: the rewind truncates, durably
		if int64(len(f.phys)) > off {
			f.phys = f.phys[:off]
		}
		if int64(len(f.physMask)) > off {
			f.physMask = f.physMask[:off]
		}
		if int64(len(f.durable)) > off {
			f.durable = f.durable[:off]
		}
		if int64(len(f.durMask)) > off {
			f.durMask = f.durMask[:off]
		}
		var rest []seg
		for _, s := range f.pending {
			if s.off+int64(len(s.data)) <= off {
				rest = append(rest, s)
			} else if s.off < off {
				rest = append(rest, seg{off: s.off, data: s.data[:off-s.off]})
			}
		}
		f.pending = rest
	}
	return nil
}

func (f *fileState) readAt(bs []byte, off int64) (int, error) {
	if f.closed {
		return 0, multiapp.ErrAlreadyClosed
	}
	if len(bs) == 0 {
		return 0, multiapp.ErrIllegalArguments
	}
	if off < 0 {
		return 0, singleapp.ErrNegativeOffset
	}
	if off > f.size() {
		return 0, io.EOF
	}
	n := 0
	boff := 0
	if off < f.fileOffset {
		if off < int64(len(f.phys)) {
			n = copy(bs, f.phys[off:]) // may return stale bytes past fileOffset (as the real file does)
			// a hole (never written tail of an earlier chunk file) ends the read with EOF
			for i := 0; i < n; i++ {
				if p := off + int64(i); p < int64(len(f.physMask)) && f.physMask[p] == 0 {
					return i, io.EOF
				}
			}
		}
	} else {
		boff = int(off - f.fileOffset)
	}
	pending := len(bs) - n
	if pending > 0 {
		available := (len(f.buf) - f.flushed) - boff
		c := pending
		if available < c {
			c = available
		}
		if c > 0 {
			copy(bs[n:], f.buf[f.flushed+boff:f.flushed+boff+c])
			n += c
		} else {
			c = 0
		}
		if c == pending {
			return n, nil
		}
		return n, io.EOF
	}
	return n, nil
}

// ---------------------------------------------------------------------------------------------
// replayable state of the whole file system

type State struct {
	files     map[string]*fileState
	side      map[string][]byte
	lostTail  map[string]bool
	KeepStale bool
	// ZeroFillHoles: materialise the never-fsynced tail of an earlier chunk as zero bytes (file size updated, data blocks
	// not written) instead of a short chunk file.  Outside the "per-file prefix" fault model; thorough tier only.
	ZeroFillHoles bool
	// BreakSync: harness self-test only. Sync() of the named file degrades to Flush() (a "missing fsync" mutant of the code
	// under test, simulated at the storage layer): the oracle must notice.
	BreakSync map[string]bool
}

type ImgFile struct {
	Content []byte
	Mask    []byte // nil: every byte valid; else 0 = hole (reads return EOF there)
	Meta    []byte
}

// Image: what is on disk after a crash (or what a fresh FS starts from).
type Image struct {
	Files map[string]*ImgFile
	Side  map[string][]byte
	// LostTail: files of which this crash (or an earlier one in the life of the directory) removed written, never-fsynced bytes
	// of an EARLIER chunk file than the one Sync() reached (multiapp.Sync fsyncs the current chunk only; with non-retryable
	// sync a full chunk is only flushed at rotation).  Where a later chunk exists the range reads as a hole, unless older
	// fsynced bytes (a stale tail) lie underneath: then it reads as those.  Informative (cause attribution), not hashed.
	LostTail map[string]bool
}

func (im *Image) Hash() [32]byte {
	h := sha256.New()
	names := make([]string, 0, len(im.Files))
	for n := range im.Files {
		names = append(names, n)
	}
	sort.Strings(names)
	var l [8]byte
	for _, n := range names {
		h.Write([]byte(n))
		binary.BigEndian.PutUint64(l[:], uint64(len(im.Files[n].Content)))
		h.Write(l[:])
		h.Write(im.Files[n].Content)
		h.Write(im.Files[n].Mask)
	}
	sn := make([]string, 0, len(im.Side))
	for n := range im.Side {
		sn = append(sn, n)
	}
	sort.Strings(sn)
	for _, n := range sn {
		h.Write([]byte("side:" + n))
		h.Write(im.Side[n])
	}
	var o [32]byte
	copy(o[:], h.Sum(nil))
	return o
}

func (im *Image) Sizes() map[string]int {
	m := map[string]int{}
	for n, f := range im.Files {
		m[n] = len(f.Content)
	}
	return m
}

func NewState(base *Image, keepStale bool) *State {
	s := &State{files: map[string]*fileState{}, side: map[string][]byte{}, lostTail: map[string]bool{}, KeepStale: keepStale}
	if base != nil {
		for n := range base.LostTail {
			s.lostTail[n] = true
		}
		for n, f := range base.Files {
			c := append([]byte{}, f.Content...)
			m := append([]byte{}, f.Mask...)
			if len(m) == 0 {
				m = fullMask(len(c))
			}
			s.files[n] = &fileState{meta: append([]byte{}, f.Meta...), durable: c, durMask: m, phys: append([]byte{}, c...), physMask: append([]byte{}, m...),
				fileOffset: int64(len(c)), closed: true}
		}
		for n, b := range base.Side {
			s.side[n] = append([]byte{}, b...)
		}
	}
	return s
}

// Apply executes one logged op on the state (used both live and for replay).
func (s *State) Apply(op *Op) (off int64, n int, err error) {
	if op.Kind == KMark {
		return 0, 0, nil
	}
	if op.Kind == KSide {
		if op.Data == nil {
			delete(s.side, op.File)
		} else {
			s.side[op.File] = op.Data
		}
		return 0, 0, nil
	}
	f := s.files[op.File]
	switch op.Kind {
	case KOpen:
		if f == nil {
			f = &fileState{cfg: *op.Cfg, meta: append([]byte{}, op.Cfg.Meta...)}
			s.files[op.File] = f
			return 0, 0, nil
		}
		// reopen: logical size = physical size (a stale tail reappears), buffer gone
		if !f.closed {
			f.flush()
		}
		meta := f.meta
		*f = fileState{cfg: *op.Cfg, meta: meta, durable: f.durable, durMask: f.durMask, phys: f.phys, physMask: f.physMask, pending: f.pending}
		f.fileOffset = int64(len(f.phys))
		if len(f.phys) > 0 {
			f.currAppID = (int64(len(f.phys)) - 1) / f.fsz()
		}
		f.readOnly = op.Cfg.ReadOnly
		return 0, 0, nil
	case KRemove:
		for name := range s.files {
			if name == op.File || strings.HasPrefix(name, op.File+"/") {
				delete(s.files, name)
			}
		}
		for name := range s.lostTail {
			if name == op.File || strings.HasPrefix(name, op.File+"/") {
				delete(s.lostTail, name)
			}
		}
		return 0, 0, nil
	}
	if f == nil {
		return 0, 0, fmt.Errorf("crashfs: no such file %s", op.File)
	}
	switch op.Kind {
	case KAppend:
		off, n, err = f.append(op.Data, &op.Auto)
		op.Off = off
		return
	case KFlush:
		if f.closed {
			return 0, 0, multiapp.ErrAlreadyClosed
		}
		if f.readOnly {
			return 0, 0, multiapp.ErrReadOnly
		}
		f.flush()
	case KSync:
		if f.closed {
			return 0, 0, multiapp.ErrAlreadyClosed
		}
		if f.readOnly {
			return 0, 0, multiapp.ErrReadOnly
		}
		if s.BreakSync[op.File] {
			f.flush()
			if f.cfg.Retryable {
				f.buf, f.flushed, f.cuts = nil, 0, nil
			}
		} else {
			f.sync()
		}
	case KSetOffset:
		return 0, 0, f.setOffset(op.Off, s.KeepStale)
	case KDiscard:
		if f.closed {
			return 0, 0, multiapp.ErrAlreadyClosed
		}
		if f.size() < op.Off {
			return 0, 0, fmt.Errorf("%w: discard beyond existent data boundaries", multiapp.ErrIllegalArguments)
		}
	case KSwitchRO:
		if f.closed {
			return 0, 0, multiapp.ErrAlreadyClosed
		}
		if f.readOnly {
			return 0, 0, multiapp.ErrReadOnly
		}
		f.switchRO()
		f.readOnly = true
	case KClose:
		if f.closed {
			return 0, 0, multiapp.ErrAlreadyClosed
		}
		if !f.readOnly {
			f.flush()
		}
		f.closed = true
	}
	return 0, 0, nil
}

// Surv: which not-yet-durable writes of one file reached the disk: the first Segs pending
// append-fragments completely, plus the first Torn bytes of the next one.
type Surv struct {
	Segs int
	Torn int
}

// Pending returns, per file, the sizes of the written-but-not-fsynced append fragments (issue order).
func (s *State) Pending() map[string][]int {
	m := map[string][]int{}
	for n, f := range s.files {
		if len(f.pending) > 0 {
			l := make([]int, len(f.pending))
			for i, p := range f.pending {
				l[i] = len(p.data)
			}
			m[n] = l
		}
	}
	return m
}

// Buffered returns the number of bytes per file that are only in the write buffer.
func (s *State) Buffered() map[string]int {
	m := map[string]int{}
	for n, f := range s.files {
		if b := len(f.buf) - f.flushed; b > 0 {
			m[n] = b
		}
	}
	return m
}

func (s *State) FileNames() []string {
	var l []string
	for n := range s.files {
		l = append(l, n)
	}
	sort.Strings(l)
	return l
}

// LogicalSize: what Size() would answer now (-1: no such file).
func (s *State) LogicalSize(file string) int64 {
	if f := s.files[file]; f != nil {
		return f.size()
	}
	return -1
}

// DurableRange: the fsynced content of [off, off+n) of a file; ok=false when any byte of the range has not been fsynced
// (beyond the durable length, or in a never-fsynced hole of an earlier chunk).  The bytes may be STALE ones (fsynced before
// a rewind and not yet overwritten durably): callers compare them with what they expect.
func (s *State) DurableRange(file string, off int64, n int) ([]byte, bool) {
	f := s.files[file]
	if f == nil || off < 0 || n < 0 {
		return nil, false
	}
	end := off + int64(n)
	if end > int64(len(f.durable)) {
		return nil, false
	}
	for i := off; i < end; i++ {
		if i < int64(len(f.durMask)) && f.durMask[i] == 0 {
			return nil, false
		}
	}
	return f.durable[off:end], true
}

// Image materialises the crash image for a survival choice; files not mentioned lose every un-fsynced write.
// all=true: every written byte survives (process kill without power loss).
func (s *State) Image(surv map[string]Surv, all bool) *Image {
	im := &Image{Files: map[string]*ImgFile{}, Side: map[string][]byte{}, LostTail: map[string]bool{}}
	for n := range s.lostTail {
		im.LostTail[n] = true
	}
	for n, f := range s.files {
		c := append([]byte{}, f.durable...)
		m := append([]byte{}, f.durMask...)
		k, torn := 0, 0
		if all {
			k = len(f.pending)
		} else if sv, ok := surv[n]; ok {
			k, torn = sv.Segs, sv.Torn
		}
		if k > len(f.pending) {
			k = len(f.pending)
		}
		for i := k; i < len(f.pending); i++ {
			if f.pending[i].off < f.currAppID*f.fsz() {
				im.LostTail[n] = true
			}
		}
		for i := 0; i < k; i++ {
			c, m = overlayM(c, m, f.pending[i].off, f.pending[i].data)
		}
		if k < len(f.pending) && torn > 0 {
			d := f.pending[k].data
			if torn < len(d) {
				d = d[:torn]
			}
			c, m = overlayM(c, m, f.pending[k].off, d)
		}
		holes := false
		for _, x := range m {
			if x == 0 {
				holes = true
				break
			}
		}
		if !holes || s.ZeroFillHoles {
			m = nil
		}
		im.Files[n] = &ImgFile{Content: c, Mask: m, Meta: append([]byte{}, f.meta...)}
	}
	for n, b := range s.side {
		im.Side[n] = append([]byte{}, b...)
	}
	return im
}

// ---------------------------------------------------------------------------------------------
// live file system

type FS struct {
	mu       sync.Mutex
	Root     string
	st       *State
	log      []Op
	PollSide bool
	lastSide map[string]string
	Reads    int
	hook     HookFn
}

// HookFn: a scheduling point at the storage layer.  It is called on the goroutine that performs the storage op, OUTSIDE the
// lock of the file system, once before the op is applied (pre=true) and once after it (pre=false).  While the hook runs the
// caller is "inside" its Flush/Sync/Append: the harness can let other goroutines of the code under test run (start a whole
// commit, wait until it reaches a given storage op or blocks) and thereby controls interleavings deterministically without
// any hook in the code under test.  Other goroutines may use the file system freely while a hook runs.
type HookFn func(pre bool, file string, kind Kind)

// SetHook installs (or, with nil, removes) the scheduling hook.  Only Append, Flush and Sync are scheduling points.
func (fs *FS) SetHook(h HookFn) {
	fs.mu.Lock()
	fs.hook = h
	fs.mu.Unlock()
}

func (fs *FS) doHooked(op Op) (int64, int, error) {
	fs.mu.Lock()
	h := fs.hook
	fs.mu.Unlock()
	if h == nil {
		return fs.do(op)
	}
	h(true, op.File, op.Kind)
	off, n, err := fs.do(op)
	h(false, op.File, op.Kind)
	return off, n, err
}

// LogLen: number of ops recorded so far.
func (fs *FS) LogLen() int {
	fs.mu.Lock()
	defer fs.mu.Unlock()
	return len(fs.log)
}

// OpsSince returns a copy of the ops recorded at positions >= from (payloads shared: do not modify).
func (fs *FS) OpsSince(from int) []Op {
	fs.mu.Lock()
	defer fs.mu.Unlock()
	if from < 0 {
		from = 0
	}
	if from >= len(fs.log) {
		return nil
	}
	return append([]Op(nil), fs.log[from:]...)
}

// New creates a recording file system rooted at the real directory root (which must exist), holding base.
// The directories of the base files and its side files are created under root.
func New(root string, base *Image, keepStale bool) (*FS, error) {
	fs := &FS{Root: root, st: NewState(base, keepStale), lastSide: map[string]string{}}
	if base != nil {
		for n := range base.Files {
			if err := os.MkdirAll(filepath.Join(root, n), 0o755); err != nil {
				return nil, err
			}
		}
		for n, b := range base.Side {
			if err := os.MkdirAll(filepath.Dir(filepath.Join(root, n)), 0o755); err != nil {
				return nil, err
			}
			if err := os.WriteFile(filepath.Join(root, n), b, 0o644); err != nil {
				return nil, err
			}
			fs.lastSide[n] = string(b)
		}
	}
	return fs, nil
}

func (fs *FS) rel(rootPath, subPath string) string {
	p := filepath.Join(rootPath, subPath)
	r, err := filepath.Rel(fs.Root, p)
	if err != nil {
		return p
	}
	return filepath.ToSlash(r)
}

func optBool(v reflect.Value, name string) bool { return v.FieldByName(name).Bool() }
func optInt(v reflect.Value, name string) int   { return int(v.FieldByName(name).Int()) }

// CfgOf reads the (unexported) multiapp options.
func CfgOf(opts *multiapp.Options) *Cfg {
	v := reflect.ValueOf(opts).Elem()
	return &Cfg{
		WriteBuf:  opts.GetWriteBufferSize(),
		Retryable: optBool(v, "retryableSync"),
		AutoSync:  optBool(v, "autoSync"),
		ReadOnly:  optBool(v, "readOnly"),
		FileSize:  optInt(v, "fileSize"),
		Meta:      append([]byte{}, v.FieldByName("metadata").Bytes()...),
	}
}

// pollSide must be called with fs.mu held
func (fs *FS) pollSide() {
	if !fs.PollSide {
		return
	}
	cur := map[string]string{}
	// side files are the tbtree timestamp files "<index dir>/TIMESTAMP*" (tbtree.timestampFile; plain files on the real fs,
	// written to a temp file, fsynced and renamed: durable as soon as they are visible)
	ents, _ := os.ReadDir(fs.Root)
	for _, e := range ents {
		if !e.IsDir() || !strings.HasPrefix(e.Name(), "index") {
			continue
		}
		sub, _ := os.ReadDir(filepath.Join(fs.Root, e.Name()))
		for _, f := range sub {
			if f.IsDir() || !(strings.HasPrefix(f.Name(), "TIMESTAMP") || strings.HasPrefix(f.Name(), "ts")) {
				continue
			}
			b, err := os.ReadFile(filepath.Join(fs.Root, e.Name(), f.Name()))
			if err == nil {
				cur[e.Name()+"/"+f.Name()] = string(b)
			}
		}
	}
	for n, c := range cur {
		if old, ok := fs.lastSide[n]; !ok || old != c {
			op := Op{Seq: len(fs.log), File: n, Kind: KSide, Data: []byte(c)}
			fs.st.Apply(&op)
			fs.log = append(fs.log, op)
		}
	}
	for n := range fs.lastSide {
		if _, ok := cur[n]; !ok {
			op := Op{Seq: len(fs.log), File: n, Kind: KSide}
			fs.st.Apply(&op)
			fs.log = append(fs.log, op)
		}
	}
	fs.lastSide = cur
}

func (fs *FS) do(op Op) (int64, int, error) {
	fs.mu.Lock()
	defer fs.mu.Unlock()
	if op.Kind != KAppend && op.Kind != KMark && op.Kind != KSetOffset {
		fs.pollSide()
	}
	op.Seq = len(fs.log)
	off, n, err := fs.st.Apply(&op)
	fs.log = append(fs.log, op)
	return off, n, err
}

// Mark records a harness event in the global order (e.g. "ack" id).
func (fs *FS) Mark(note string, arg uint64) int {
	fs.mu.Lock()
	defer fs.mu.Unlock()
	op := Op{Seq: len(fs.log), Kind: KMark, Note: note, Arg: arg}
	fs.log = append(fs.log, op)
	return op.Seq
}

// Log returns the operations recorded so far (shared backing array: do not modify).
func (fs *FS) Log() []Op {
	fs.mu.Lock()
	defer fs.mu.Unlock()
	fs.pollSide()
	return fs.log[:len(fs.log):len(fs.log)]
}

// Factory is pluggable into store.Options.WithAppFactory (and, through the store, ahtree and tbtree).
func (fs *FS) Factory() func(rootPath, subPath string, opts *multiapp.Options) (appendable.Appendable, error) {
	return func(rootPath, subPath string, opts *multiapp.Options) (appendable.Appendable, error) {
		if err := opts.Validate(); err != nil {
			return nil, err
		}
		name := fs.rel(rootPath, subPath)
		cfg := CfgOf(opts)
		if opts.GetPrealloc() {
			return nil, errors.New("crashfs: preallocated files are not modelled")
		}
		// multiapp.Open creates the directory: tbtree.recoverFullSnapshots looks for it
		if err := os.MkdirAll(filepath.Join(rootPath, subPath), 0o755); err != nil {
			return nil, err
		}
		if _, _, err := fs.do(Op{File: name, Kind: KOpen, Cfg: cfg}); err != nil {
			return nil, err
		}
		return &File{fs: fs, name: name}, nil
	}
}

// Remove is pluggable into store.Options.WithAppRemoveFunc.
func (fs *FS) Remove() func(rootPath, subPath string) error {
	return func(rootPath, subPath string) error {
		name := fs.rel(rootPath, subPath)
		fs.do(Op{File: name, Kind: KRemove})
		return os.RemoveAll(filepath.Join(rootPath, subPath))
	}
}

// Snapshot of the current state as an image in which every written byte survived.
func (fs *FS) ImageAllWritten() *Image {
	fs.mu.Lock()
	defer fs.mu.Unlock()
	fs.pollSide()
	return fs.st.Image(nil, true)
}

// SetBreakSync: see State.BreakSync (self-test).
func (fs *FS) SetBreakSync(file string) {
	fs.mu.Lock()
	defer fs.mu.Unlock()
	if fs.st.BreakSync == nil {
		fs.st.BreakSync = map[string]bool{}
	}
	fs.st.BreakSync[file] = true
}

// ImageDurableOnly: the current state after a power loss in which no un-fsynced write survived.
func (fs *FS) ImageDurableOnly() *Image {
	fs.mu.Lock()
	defer fs.mu.Unlock()
	fs.pollSide()
	return fs.st.Image(nil, false)
}

// File implements appendable.Appendable.
type File struct {
	fs   *FS
	name string
}

var _ appendable.Appendable = (*File)(nil)

func (f *File) st() *fileState { return f.fs.st.files[f.name] }

func (f *File) Metadata() []byte {
	f.fs.mu.Lock()
	defer f.fs.mu.Unlock()
	if s := f.st(); s != nil {
		return s.meta
	}
	return nil
}

func (f *File) Size() (int64, error) {
	f.fs.mu.Lock()
	defer f.fs.mu.Unlock()
	s := f.st()
	if s == nil || s.closed {
		return 0, multiapp.ErrAlreadyClosed
	}
	return s.size(), nil
}

func (f *File) Offset() int64 {
	f.fs.mu.Lock()
	defer f.fs.mu.Unlock()
	s := f.st()
	if s == nil {
		return 0
	}
	return s.size()
}

func (f *File) SetOffset(off int64) error {
	_, _, err := f.fs.do(Op{File: f.name, Kind: KSetOffset, Off: off})
	return err
}

func (f *File) DiscardUpto(off int64) error {
	_, _, err := f.fs.do(Op{File: f.name, Kind: KDiscard, Off: off})
	return err
}

func (f *File) Append(bs []byte) (int64, int, error) {
	return f.fs.doHooked(Op{File: f.name, Kind: KAppend, Len: len(bs), Data: append([]byte{}, bs...)})
}

func (f *File) Flush() error {
	_, _, err := f.fs.doHooked(Op{File: f.name, Kind: KFlush})
	return err
}

func (f *File) Sync() error {
	_, _, err := f.fs.doHooked(Op{File: f.name, Kind: KSync})
	return err
}

func (f *File) SwitchToReadOnlyMode() error {
	_, _, err := f.fs.do(Op{File: f.name, Kind: KSwitchRO})
	return err
}

func (f *File) ReadAt(bs []byte, off int64) (int, error) {
	f.fs.mu.Lock()
	defer f.fs.mu.Unlock()
	f.fs.Reads++
	s := f.st()
	if s == nil {
		return 0, multiapp.ErrAlreadyClosed
	}
	return s.readAt(bs, off)
}

func (f *File) Close() error {
	_, _, err := f.fs.do(Op{File: f.name, Kind: KClose})
	return err
}

func (f *File) Copy(dstPath string) error { return errors.New("crashfs: copy not supported") }
func (f *File) CompressionFormat() int    { return appendable.NoCompression }
func (f *File) CompressionLevel() int     { return appendable.DefaultCompressionLevel }
