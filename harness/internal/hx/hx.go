// Package hx: shared harness plumbing (PRNG, Lean driver pipe, result record).
package hx

import (
	"bufio"
	"bytes"
	"encoding/hex"
	"encoding/json"
	"fmt"
	"os"
	"os/exec"
	"sort"
	"strings"
	"time"
)

// ---------- PRNG (splitmix64): every random choice derives from VERIF_SEED ----------

type Rng struct{ s uint64 }

// NewRng: the seed is first scrambled with the splitmix64 finaliser, so that consecutive VERIF_SEED values give
// unrelated streams (with the plain affine initial state, seed+1 would be the stream of seed shifted by one step).
func NewRng(seed uint64) *Rng {
	z := seed + 0x1234567
	z = (z ^ (z >> 30)) * 0xBF58476D1CE4E5B9
	z = (z ^ (z >> 27)) * 0x94D049BB133111EB
	z ^= z >> 31
	return &Rng{s: z*0x9E3779B97F4A7C15 + 0x632BE59BD9B4E019}
}

func (r *Rng) U64() uint64 {
	r.s += 0x9E3779B97F4A7C15
	z := r.s
	z = (z ^ (z >> 30)) * 0xBF58476D1CE4E5B9
	z = (z ^ (z >> 27)) * 0x94D049BB133111EB
	return z ^ (z >> 31)
}
func (r *Rng) Intn(n int) int {
	if n <= 0 {
		return 0
	}
	return int(r.U64() % uint64(n))
}
func (r *Rng) Bool() bool       { return r.U64()&1 == 1 }
func (r *Rng) Chance(p int) bool { return r.Intn(100) < p }
func (r *Rng) Bytes(n int) []byte {
	b := make([]byte, n)
	for i := range b {
		b[i] = byte(r.U64())
	}
	return b
}
func (r *Rng) Fork() *Rng { return NewRng(r.U64()) }

// Boundary-biased size in [0,max].
func (r *Rng) Size(max int) int {
	if max <= 0 {
		return 0
	}
	switch r.Intn(6) {
	case 0:
		return r.Intn(3)
	case 1:
		k := 1 << uint(r.Intn(12))
		v := k + r.Intn(3) - 1
		if v < 0 {
			v = 0
		}
		if v > max {
			v = max
		}
		return v
	case 2:
		return max - r.Intn(2)
	default:
		return r.Intn(max + 1)
	}
}

// ---------- hex tokens ----------

func Hex(b []byte) string {
	if len(b) == 0 {
		return "-"
	}
	return hex.EncodeToString(b)
}

func Csv(xs [][]byte) string {
	if len(xs) == 0 {
		return "_"
	}
	ss := make([]string, len(xs))
	for i, x := range xs {
		ss[i] = Hex(x)
	}
	return strings.Join(ss, ",")
}

func Csv32(xs [][32]byte) string {
	ys := make([][]byte, len(xs))
	for i := range xs {
		ys[i] = xs[i][:]
	}
	return Csv(ys)
}

// ---------- correspondence batch ----------

type Line struct {
	Op   string // line sent to the model driver
	Impl string // what the implementation answered (canonicalised)
	Case int
}

type Mismatch struct {
	Case  int    `json:"case"`
	Op    string `json:"op"`
	Impl  string `json:"impl"`
	Model string `json:"model"`
	Index int    `json:"index"`
	// Context: the operations of the same case that precede the first mismatch (replayable through the driver)
	Context []string `json:"context,omitempty"`
}

type OracleFailure struct {
	Signature string      `json:"signature"` // stable class id, matched against known_findings.json
	Desc      string      `json:"desc"`
	Replay    interface{} `json:"replay"`
}

type Result struct {
	Property      string                 `json:"property"`
	Tier          string                 `json:"tier"`
	Seed          uint64                 `json:"seed"`
	Evaluations   int                    `json:"evaluations"`
	Nontrivial    int                    `json:"distinct_nontrivial"`
	Rule          string                 `json:"rule"`
	Samples       []interface{}          `json:"samples"`
	Distribution  map[string]int         `json:"distribution"`
	CorrLines     int                    `json:"corr_lines"`
	Mismatches    []Mismatch             `json:"mismatches"`
	Oracle        []OracleFailure        `json:"oracle_failures"`
	OracleChecks  int                    `json:"oracle_checks"`
	Notes         []string               `json:"notes"`
	Extra         map[string]interface{} `json:"extra"`
	WallS         float64                `json:"wall_s"`
	Inconclusive  []string               `json:"inconclusive"`
	lines         []Line
	seen          map[string]struct{}
	start         time.Time
	DriverPath    string `json:"-"`
	curCase       int
}

func NewResult(prop, tier string, seed uint64, driver string) *Result {
	return &Result{Property: prop, Tier: tier, Seed: seed, Distribution: map[string]int{},
		seen: map[string]struct{}{}, start: time.Now(), DriverPath: driver, Extra: map[string]interface{}{}}
}

func (r *Result) Count(k string)          { r.Distribution[k]++ }
func (r *Result) CountN(k string, n int)  { r.Distribution[k] += n }
func (r *Result) NextCase() int           { r.curCase++; return r.curCase }
func (r *Result) Case() int               { return r.curCase }

// Eval records one evaluated case; key identifies distinctness; nontrivial by caller's rule.
func (r *Result) Eval(key string, nontrivial bool) {
	r.Evaluations++
	if nontrivial {
		if _, ok := r.seen[key]; !ok {
			r.seen[key] = struct{}{}
			r.Nontrivial++
		}
	}
}

func (r *Result) Sample(v interface{}) {
	if len(r.Samples) < 6 {
		r.Samples = append(r.Samples, v)
	}
}

// Corr queues one line for the model and the implementation's canonical answer.
func (r *Result) Corr(op, impl string) {
	r.lines = append(r.lines, Line{Op: op, Impl: impl, Case: r.curCase})
}

func (r *Result) Fail(sig, desc string, replay interface{}) {
	r.Distribution["oraclefail."+sig]++
	if r.Distribution["oraclefail."+sig] <= 3 && len(r.Oracle) < 200 {
		r.Oracle = append(r.Oracle, OracleFailure{Signature: sig, Desc: desc, Replay: replay})
	}
}

// Flush runs the queued lines through the Lean driver and records mismatches.
func (r *Result) Flush() error {
	if len(r.lines) == 0 {
		return nil
	}
	var in bytes.Buffer
	for _, l := range r.lines {
		in.WriteString(l.Op)
		in.WriteByte('\n')
	}
	cmd := exec.Command(r.DriverPath)
	cmd.Stdin = &in
	var out bytes.Buffer
	cmd.Stdout = &out
	cmd.Stderr = os.Stderr
	if err := cmd.Run(); err != nil {
		return fmt.Errorf("driver: %w", err)
	}
	ctxDone := map[int]bool{}
	sc := bufio.NewScanner(&out)
	sc.Buffer(make([]byte, 1<<20), 1<<28)
	i := 0
	for sc.Scan() {
		if i >= len(r.lines) {
			break
		}
		got := sc.Text()
		if got != r.lines[i].Impl && len(r.Mismatches) < 40 {
			mm := Mismatch{Case: r.lines[i].Case, Op: trunc(r.lines[i].Op), Impl: trunc(r.lines[i].Impl), Model: trunc(got), Index: i}
			if !ctxDone[mm.Case] {
				ctxDone[mm.Case] = true
				for k := 0; k < i; k++ {
					if r.lines[k].Case == mm.Case && len(mm.Context) < 400 {
						mm.Context = append(mm.Context, trunc(r.lines[k].Op)+" => "+trunc(r.lines[k].Impl))
					}
				}
			}
			r.Mismatches = append(r.Mismatches, mm)
		}
		i++
	}
	if i != len(r.lines) {
		return fmt.Errorf("driver answered %d of %d lines", i, len(r.lines))
	}
	r.CorrLines += len(r.lines)
	r.lines = r.lines[:0]
	return nil
}

// PendingLines returns the queued ops (for replay files).
func (r *Result) PendingOps(caseID int) []string {
	var o []string
	for _, l := range r.lines {
		if l.Case == caseID {
			o = append(o, l.Op)
		}
	}
	return o
}

func trunc(s string) string {
	if len(s) > 600 {
		return s[:600] + "…"
	}
	return s
}

func (r *Result) Write(path string) error {
	r.WallS = time.Since(r.start).Seconds()
	if r.Mismatches == nil {
		r.Mismatches = []Mismatch{}
	}
	if r.Oracle == nil {
		r.Oracle = []OracleFailure{}
	}
	if r.Samples == nil {
		r.Samples = []interface{}{}
	}
	b, err := json.MarshalIndent(r, "", " ")
	if err != nil {
		return err
	}
	return os.WriteFile(path, b, 0o644)
}

func SortedKeys(m map[string]int) []string {
	ks := make([]string, 0, len(m))
	for k := range m {
		ks = append(ks, k)
	}
	sort.Strings(ks)
	return ks
}

// TempDir creates a scratch dir outside /repo and /verif.
func TempDir(tag string) string {
	base := os.Getenv("VERIF_SCRATCH")
	if base == "" {
		base = os.TempDir()
	}
	d, err := os.MkdirTemp(base, "vh-"+tag+"-")
	if err != nil {
		panic(err)
	}
	return d
}
