#!/usr/bin/env python3
"""tools_automerge.py <agent-verif-dir> <base-commit> <P1,P2,…> : finds every source file the agent changed relative to <base-commit>
(the /verif commit its copy was taken from) and merges it with tools_merge.py (3-way where /verif changed too)."""
import sys, os, subprocess
A=sys.argv[1].rstrip('/'); base=sys.argv[2]; props=sys.argv[3]
skip=('.build/','lean/.lake/','replays/','evidence/','.git/','harness/go.mod','harness/go.sum','MANIFEST.json','DESIGN.md','known_findings.json','mkmanifest.py','lean/ImmuModel/Gen/')
changed=[]
for root,dirs,files in os.walk(A):
    rel=os.path.relpath(root,A)
    for f in files:
        p=os.path.normpath(os.path.join(rel,f))
        if any(p.startswith(s) or p==s for s in skip): continue
        if p.endswith(('.lock','.olean','.log')): continue
        r=subprocess.run(['git','-C','/verif','show',base+':'+p],capture_output=True)
        cur=open(os.path.join(A,p),'rb').read()
        if r.returncode!=0 or r.stdout!=cur:
            changed.append(p)
print('changed by agent:',changed)
env=dict(os.environ,MERGE_BASE=base)
subprocess.run(['python3','/verif/tools_merge.py',A,props]+changed,env=env)
