#!/bin/sh
# usage: tools_applyfix.sh <agent-repo-worktree> <commit>...   (applies non-test hunks of each commit to /repo, one commit each)
R=$1; shift
for c in "$@"; do
  files=$(git -C "$R" show --name-only --format= "$c" | grep -v '_test\.go$')
  git -C "$R" show --format= "$c" -- $files > /tmp/applyfix.diff
  git -C /repo apply --index /tmp/applyfix.diff || { echo "APPLY FAILED $c"; exit 1; }
  git -C "$R" log -1 --format=%B "$c" > /tmp/applyfix.msg
  git -C /repo commit -q -F /tmp/applyfix.msg
  echo "applied $c as $(git -C /repo log -1 --format=%h): $(head -1 /tmp/applyfix.msg)"
done
