// C18 generator for long-lived streams: WHERE in a streaming handler the permission gate is evaluated.
//
//	Gen/Streams.lean – one row per streaming RPC of the served descriptors:
//	  clientStreams / serverStreams   – the flags of the grpc.StreamDesc literal
//	  recvLoop     – the handler (with the same-receiver helpers it calls) has a `for` loop that receives from the stream
//	  replyInLoop  – such a loop also sends on the stream (one answer per received request)
//	  loopGates    – literals passed to getDBFromCtx on the UNCONDITIONAL path of every iteration of that loop, after the
//	                 receive and before the first send (a gate under an `if`, in a `switch` case, in a nested loop, in a
//	                 closure or after a send is not listed)
//	  entryGates   – literals passed to getDBFromCtx unconditionally before the first receive / send / loop
//
// The walk is an in-order trace of the events recv | send | gate | loop{ | }loop of the handler body; same-receiver helpers
// are inlined (depth <= 4) with the stream parameter (and receivers / senders / method values derived from it) tracked by
// name. Nothing here is specific to one handler.
package main

import (
	"fmt"
	"go/ast"
	"go/parser"
	"go/token"
	"path/filepath"
	"strconv"
	"strings"
)

func init() {
	generators = append(generators, genStreams)
}

// streamFlags: StreamName -> (clientStreams, serverStreams) of every `grpc.StreamDesc` literal of a *_grpc.pb.go file,
// keyed by "<Service>/<wire>".
func streamFlags(path string) (map[string][2]bool, error) {
	fset := token.NewFileSet()
	f, err := parser.ParseFile(fset, path, nil, 0)
	if err != nil {
		return nil, err
	}
	out := map[string][2]bool{}
	for _, d := range f.Decls {
		gd, ok := d.(*ast.GenDecl)
		if !ok || gd.Tok != token.VAR {
			continue
		}
		for _, s := range gd.Specs {
			vs := s.(*ast.ValueSpec)
			if len(vs.Names) != 1 || !strings.HasSuffix(vs.Names[0].Name, "_ServiceDesc") || len(vs.Values) != 1 {
				continue
			}
			svc := strings.TrimSuffix(vs.Names[0].Name, "_ServiceDesc")
			ast.Inspect(vs.Values[0], func(n ast.Node) bool {
				cl, ok := n.(*ast.CompositeLit)
				if !ok {
					return true
				}
				name := ""
				var fl [2]bool
				isStream := false
				for _, e := range cl.Elts {
					kv, ok := e.(*ast.KeyValueExpr)
					if !ok {
						continue
					}
					k, _ := kv.Key.(*ast.Ident)
					if k == nil {
						continue
					}
					switch k.Name {
					case "StreamName":
						if bl, ok := kv.Value.(*ast.BasicLit); ok {
							name, _ = strconv.Unquote(bl.Value)
							isStream = true
						}
					case "ClientStreams":
						if id, ok := kv.Value.(*ast.Ident); ok && id.Name == "true" {
							fl[0] = true
						}
					case "ServerStreams":
						if id, ok := kv.Value.(*ast.Ident); ok && id.Name == "true" {
							fl[1] = true
						}
					}
				}
				if isStream && name != "" {
					out[svc+"/"+name] = fl
				}
				return true
			})
		}
	}
	return out, nil
}

type sgMeth struct {
	decl *ast.FuncDecl
	recv string
}

func immuServerMethods(repo string) (map[string]sgMeth, error) {
	files, _, err := parseDir(filepath.Join(repo, "pkg/server"))
	if err != nil {
		return nil, err
	}
	methods := map[string]sgMeth{}
	for _, f := range files {
		for _, d := range f.Decls {
			fd, ok := d.(*ast.FuncDecl)
			if !ok || fd.Recv == nil || len(fd.Recv.List) != 1 || fd.Body == nil {
				continue
			}
			st, ok := fd.Recv.List[0].Type.(*ast.StarExpr)
			if !ok {
				continue
			}
			id, ok := st.X.(*ast.Ident)
			if !ok || id.Name != "ImmuServer" {
				continue
			}
			rn := ""
			if len(fd.Recv.List[0].Names) == 1 {
				rn = fd.Recv.List[0].Names[0].Name
			}
			methods[fd.Name.Name] = sgMeth{fd, rn}
		}
	}
	return methods, nil
}

type sgEvent struct {
	kind string // recv | send | gate | loop{ | }loop
	lit  string
	cond int // depth of enclosing if / switch / select / closure / defer / go bodies
	loop int // depth of enclosing for bodies
}

// sgScope: names of one function body that stand for the stream
type sgScope struct {
	recv    string
	tainted map[string]bool // the stream parameter and receivers / senders built from it
	sendFn  map[string]bool // func-typed names bound to a Send method value of the stream
}

type sgWalker struct {
	methods map[string]sgMeth
	events  []sgEvent
	cond    int
	loop    int
	active  map[string]bool
	depth   int
}

func (w *sgWalker) emit(kind, lit string) {
	w.events = append(w.events, sgEvent{kind, lit, w.cond, w.loop})
}

func sgIsRecvName(n string) bool {
	return strings.HasPrefix(n, "Recv") || strings.HasPrefix(n, "Read") || n == "Next"
}
func sgIsSendName(n string) bool { return strings.HasPrefix(n, "Send") }

// mentionsTainted: e refers to a tainted name other than through `<name>.Context()`.
func (sc *sgScope) mentionsTainted(e ast.Node) bool {
	found := false
	ast.Inspect(e, func(n ast.Node) bool {
		if found {
			return false
		}
		switch x := n.(type) {
		case *ast.CallExpr:
			if se, ok := x.Fun.(*ast.SelectorExpr); ok && se.Sel.Name == "Context" {
				if id, ok := se.X.(*ast.Ident); ok && sc.tainted[id.Name] {
					return false
				}
			}
		case *ast.Ident:
			if sc.tainted[x.Name] {
				found = true
			}
		}
		return true
	})
	return found
}

// taint: names assigned from a call that takes the stream (or something derived from it) as an argument.
func (sc *sgScope) taint(body *ast.BlockStmt) {
	for pass := 0; pass < 4; pass++ {
		changed := false
		mark := func(lhs []ast.Expr, rhs []ast.Expr) {
			hit := false
			for _, r := range rhs {
				ce, ok := r.(*ast.CallExpr)
				if !ok {
					if id, ok := r.(*ast.Ident); ok && sc.tainted[id.Name] {
						hit = true // alias
					}
					continue
				}
				for _, a := range ce.Args {
					if sc.mentionsTainted(a) {
						hit = true
					}
				}
			}
			if !hit {
				return
			}
			for i, l := range lhs {
				id, ok := l.(*ast.Ident)
				if !ok || id.Name == "_" || id.Name == "err" || id.Name == "ok" {
					continue
				}
				if len(rhs) == 1 && i > 0 {
					// multi-value call: only the first result is taken for a stream-like object
					continue
				}
				if !sc.tainted[id.Name] {
					sc.tainted[id.Name] = true
					changed = true
				}
			}
		}
		ast.Inspect(body, func(n ast.Node) bool {
			switch x := n.(type) {
			case *ast.AssignStmt:
				mark(x.Lhs, x.Rhs)
			case *ast.ValueSpec:
				var lhs []ast.Expr
				for _, nm := range x.Names {
					lhs = append(lhs, nm)
				}
				mark(lhs, x.Values)
			}
			return true
		})
		if !changed {
			break
		}
	}
}

func (w *sgWalker) isSendValue(e ast.Expr, sc *sgScope) bool {
	se, ok := e.(*ast.SelectorExpr)
	if !ok {
		return false
	}
	id, ok := se.X.(*ast.Ident)
	return ok && sc.tainted[id.Name] && sgIsSendName(se.Sel.Name)
}

// inline walks the body of the same-receiver method nm with the given arguments.
func (w *sgWalker) inline(nm string, args []ast.Expr, sc *sgScope) {
	m, ok := w.methods[nm]
	if !ok || w.active[nm] || w.depth >= 4 {
		return
	}
	sub := &sgScope{recv: m.recv, tainted: map[string]bool{}, sendFn: map[string]bool{}}
	var params []string
	for _, f := range m.decl.Type.Params.List {
		if len(f.Names) == 0 {
			params = append(params, "_")
		}
		for _, n := range f.Names {
			params = append(params, n.Name)
		}
	}
	for i, a := range args {
		if i >= len(params) {
			break
		}
		switch {
		case w.isSendValue(a, sc):
			sub.sendFn[params[i]] = true
		default:
			if id, ok := a.(*ast.Ident); ok && (sc.tainted[id.Name] || sc.sendFn[id.Name]) {
				if sc.sendFn[id.Name] {
					sub.sendFn[params[i]] = true
				} else {
					sub.tainted[params[i]] = true
				}
			}
		}
	}
	sub.taint(m.decl.Body)
	w.active[nm] = true
	w.depth++
	w.block(m.decl.Body.List, sub)
	w.depth--
	delete(w.active, nm)
}

// expr records the events of everything evaluated by n (arguments before the call itself).
func (w *sgWalker) expr(n ast.Node, sc *sgScope) {
	if n == nil {
		return
	}
	ast.Inspect(n, func(x ast.Node) bool {
		switch c := x.(type) {
		case *ast.FuncLit:
			w.cond++
			w.block(c.Body.List, sc)
			w.cond--
			return false
		case *ast.CallExpr:
			se, isSel := c.Fun.(*ast.SelectorExpr)
			var selfCall bool
			if isSel {
				if id, ok := se.X.(*ast.Ident); ok && id.Name == sc.recv && sc.recv != "" {
					selfCall = true
				}
			}
			for _, a := range c.Args {
				if selfCall && w.isSendValue(a, sc) {
					continue // bound to the helper's parameter, counted where the helper calls it
				}
				w.expr(a, sc)
			}
			switch {
			case isSel && selfCall && se.Sel.Name == "getDBFromCtx":
				lit := "<dynamic>"
				if len(c.Args) == 2 {
					if bl, ok := c.Args[1].(*ast.BasicLit); ok && bl.Kind == token.STRING {
						lit, _ = strconv.Unquote(bl.Value)
					}
				}
				w.emit("gate", lit)
			case isSel && selfCall:
				w.inline(se.Sel.Name, c.Args, sc)
			case isSel:
				if id, ok := se.X.(*ast.Ident); ok && sc.tainted[id.Name] {
					switch {
					case sgIsRecvName(se.Sel.Name):
						w.emit("recv", id.Name+"."+se.Sel.Name)
					case sgIsSendName(se.Sel.Name):
						w.emit("send", id.Name+"."+se.Sel.Name)
					}
				} else {
					w.expr(se.X, sc)
				}
			default:
				if id, ok := c.Fun.(*ast.Ident); ok && sc.sendFn[id.Name] {
					w.emit("send", id.Name)
				} else {
					w.expr(c.Fun, sc)
				}
			}
			return false
		case *ast.SelectorExpr:
			// a Send method value that escapes (passed to a foreign function, stored): whoever holds it may send
			if w.isSendValue(c, sc) {
				w.emit("send", "value:"+c.Sel.Name)
				return false
			}
		}
		return true
	})
}

func (w *sgWalker) block(stmts []ast.Stmt, sc *sgScope) {
	for _, s := range stmts {
		w.stmt(s, sc)
	}
}

func (w *sgWalker) stmt(s ast.Stmt, sc *sgScope) {
	switch x := s.(type) {
	case nil:
	case *ast.BlockStmt:
		w.block(x.List, sc)
	case *ast.LabeledStmt:
		w.stmt(x.Stmt, sc)
	case *ast.IfStmt:
		if x.Init != nil {
			w.stmt(x.Init, sc)
		}
		w.expr(x.Cond, sc)
		w.cond++
		w.block(x.Body.List, sc)
		if x.Else != nil {
			w.stmt(x.Else, sc)
		}
		w.cond--
	case *ast.ForStmt:
		if x.Init != nil {
			w.stmt(x.Init, sc)
		}
		w.emit("loop{", "")
		w.loop++
		if x.Cond != nil {
			w.expr(x.Cond, sc)
		}
		w.block(x.Body.List, sc)
		if x.Post != nil {
			w.stmt(x.Post, sc)
		}
		w.loop--
		w.emit("}loop", "")
	case *ast.RangeStmt:
		w.expr(x.X, sc)
		w.emit("loop{", "")
		w.loop++
		w.block(x.Body.List, sc)
		w.loop--
		w.emit("}loop", "")
	case *ast.SwitchStmt:
		if x.Init != nil {
			w.stmt(x.Init, sc)
		}
		if x.Tag != nil {
			w.expr(x.Tag, sc)
		}
		w.cond++
		for _, c := range x.Body.List {
			cc := c.(*ast.CaseClause)
			for _, e := range cc.List {
				w.expr(e, sc)
			}
			w.block(cc.Body, sc)
		}
		w.cond--
	case *ast.TypeSwitchStmt:
		if x.Init != nil {
			w.stmt(x.Init, sc)
		}
		w.stmt(x.Assign, sc)
		w.cond++
		for _, c := range x.Body.List {
			w.block(c.(*ast.CaseClause).Body, sc)
		}
		w.cond--
	case *ast.SelectStmt:
		w.cond++
		for _, c := range x.Body.List {
			cc := c.(*ast.CommClause)
			if cc.Comm != nil {
				w.stmt(cc.Comm, sc)
			}
			w.block(cc.Body, sc)
		}
		w.cond--
	case *ast.GoStmt:
		w.cond++
		w.expr(x.Call, sc)
		w.cond--
	case *ast.DeferStmt:
		w.cond++
		w.expr(x.Call, sc)
		w.cond--
	default:
		w.expr(s, sc)
	}
}

type streamFacts struct {
	handler               string
	cli, srv              bool
	recvLoop, replyInLoop bool
	loopGates, entryGates []string
	trace                 string
}

func sgAnalyse(events []sgEvent) (recvLoop, reply bool, loopGates, entryGates []string) {
	// entry: unconditional gates before the first receive / send / loop
	for _, e := range events {
		if e.kind == "recv" || e.kind == "send" || e.kind == "loop{" {
			break
		}
		if e.kind == "gate" && e.cond == 0 && e.loop == 0 {
			entryGates = append(entryGates, e.lit)
		}
	}
	// outermost loops that receive
	type seg struct{ i, j int }
	var segs []seg
	var stack []int
	for i, e := range events {
		switch e.kind {
		case "loop{":
			stack = append(stack, i)
		case "}loop":
			if len(stack) == 0 {
				continue
			}
			st := stack[len(stack)-1]
			stack = stack[:len(stack)-1]
			has := false
			for k := st; k < i; k++ {
				if events[k].kind == "recv" {
					has = true
				}
			}
			if !has {
				continue
			}
			// drop inner receive loops recorded before: keep the outermost only
			var keep []seg
			for _, s := range segs {
				if !(s.i > st && s.j < i) {
					keep = append(keep, s)
				}
			}
			segs = append(keep, seg{st, i})
		}
	}
	if len(segs) == 0 {
		return false, false, nil, entryGates
	}
	recvLoop = true
	type res struct {
		reply bool
		gates []string
	}
	var rs []res
	for _, s := range segs {
		l := events[s.i]
		phase := 0
		var r res
		for k := s.i + 1; k < s.j; k++ {
			e := events[k]
			switch e.kind {
			case "recv":
				if phase == 0 {
					phase = 1
				}
			case "send":
				phase = 2
				r.reply = true
			case "gate":
				if phase == 1 && e.cond == l.cond && e.loop == l.loop+1 {
					r.gates = append(r.gates, e.lit)
				}
			}
		}
		rs = append(rs, r)
	}
	var pick []res
	for _, r := range rs {
		if r.reply {
			reply = true
			pick = append(pick, r)
		}
	}
	if len(pick) == 0 {
		pick = rs
	}
	loopGates = pick[0].gates
	for _, r := range pick[1:] { // every such loop must gate: intersection
		var both []string
		for _, g := range loopGates {
			for _, h := range r.gates {
				if g == h {
					both = append(both, g)
					break
				}
			}
		}
		loopGates = both
	}
	return
}

func genStreams(repo string) (string, string, error) {
	name := "Streams.lean"
	rpcs, _, err := allRpcs(repo)
	if err != nil {
		return name, "", err
	}
	flags := map[string][2]bool{}
	paths := []string{filepath.Join(repo, "pkg/api/schema/schema_grpc.pb.go")}
	more, _ := filepath.Glob(filepath.Join(repo, "pkg/api/protomodel/*_grpc.pb.go"))
	paths = append(paths, more...)
	for _, p := range paths {
		fl, err := streamFlags(p)
		if err != nil {
			return name, "", err
		}
		for k, v := range fl {
			flags[k] = v
		}
	}
	methods, err := immuServerMethods(repo)
	if err != nil {
		return name, "", err
	}
	var rows []streamFacts
	for _, r := range rpcs {
		if !r.stream {
			continue
		}
		fl, ok := flags[r.service+"/"+r.wire]
		if !ok {
			return name, "", fmt.Errorf("stream %s/%s: no grpc.StreamDesc literal found", r.service, r.wire)
		}
		sf := streamFacts{handler: r.handler, cli: fl[0], srv: fl[1]}
		if m, ok := methods[r.handler]; ok {
			w := &sgWalker{methods: methods, active: map[string]bool{r.handler: true}}
			sc := &sgScope{recv: m.recv, tainted: map[string]bool{}, sendFn: map[string]bool{}}
			// the stream parameter: the parameter whose type is the generated `<Service>_<Rpc>Server` interface
			for _, f := range m.decl.Type.Params.List {
				tn := ""
				switch t := f.Type.(type) {
				case *ast.SelectorExpr:
					tn = t.Sel.Name
				case *ast.Ident:
					tn = t.Name
				}
				if strings.HasSuffix(tn, "Server") && strings.Contains(tn, "_") {
					for _, n := range f.Names {
						sc.tainted[n.Name] = true
					}
				}
			}
			sc.taint(m.decl.Body)
			w.block(m.decl.Body.List, sc)
			sf.recvLoop, sf.replyInLoop, sf.loopGates, sf.entryGates = sgAnalyse(w.events)
			var tr []string
			for _, e := range w.events {
				t := e.kind
				if e.kind == "gate" {
					t += "(" + e.lit + ")"
				}
				if e.cond > 0 && e.kind != "loop{" && e.kind != "}loop" {
					t += "?"
				}
				tr = append(tr, t)
			}
			sf.trace = strings.Join(tr, " ")
		} else {
			sf.trace = "no implementation on *ImmuServer"
		}
		rows = append(rows, sf)
	}
	var sb strings.Builder
	sb.WriteString(genHeader + "namespace ImmuModel.Gen\n\n")
	sb.WriteString("/-- Where a streaming handler `func (s *ImmuServer) <handler>` evaluates `s.getDBFromCtx` (pkg/server, non-test files;\n")
	sb.WriteString("same-receiver helpers inlined, depth ≤ 4). `clientStreams`/`serverStreams`: flags of the `grpc.StreamDesc` literal.\n")
	sb.WriteString("`recvLoop`: a `for` loop receives from the stream; `replyInLoop`: that loop also sends on the stream.\n")
	sb.WriteString("`loopGates`: literals passed to `getDBFromCtx` on the UNCONDITIONAL path of every iteration of that loop, after the\n")
	sb.WriteString("receive and before the first send (not under `if`/`switch`/`select`, not in a nested loop, closure, `defer` or `go`).\n")
	sb.WriteString("`entryGates`: literals passed to `getDBFromCtx` unconditionally before the first receive, send or loop.\n")
	sb.WriteString("The comment after each row is the event trace it was derived from (`?` = conditional). -/\n")
	sb.WriteString("structure StreamGate where\n  handler : String\n  clientStreams : Bool\n  serverStreams : Bool\n  recvLoop : Bool\n  replyInLoop : Bool\n  loopGates : List String\n  entryGates : List String\n  deriving DecidableEq, Repr\n\n")
	sb.WriteString("def streamGates : List StreamGate := [\n")
	for i, sf := range rows {
		sep := ","
		if i == len(rows)-1 {
			sep = ""
		}
		sb.WriteString(fmt.Sprintf("  ⟨%s, %v, %v, %v, %v, %s, %s⟩%s  -- %s\n", leanStr(sf.handler), sf.cli, sf.srv, sf.recvLoop, sf.replyInLoop,
			leanStrList(sf.loopGates), leanStrList(sf.entryGates), sep, sf.trace))
	}
	sb.WriteString("]\n\nend ImmuModel.Gen\n")
	return name, sb.String(), nil
}
