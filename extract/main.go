// extract: regenerates lean/ImmuModel/Gen/*.lean from /repo's working tree (go/parser, offline).
// It is the "translator" half of the tie: constants, tables and wiring facts that the Lean
// theorems depend on are re-read from the source on every run; a changed fact changes the
// generated Lean file and the dependent proofs are re-checked by `lake build`.
package main

import (
	"flag"
	"fmt"
	"go/ast"
	"go/parser"
	"go/token"
	"os"
	"path/filepath"
	"sort"
	"strconv"
	"strings"
)

type pkgConsts struct {
	vals map[string]int64
	strs map[string]string
}

var known = map[string]int64{"sha256.Size": 32, "math.MaxUint32": 1<<32 - 1, "math.MaxInt32": 1<<31 - 1, "math.MaxUint16": 1<<16 - 1, "math.MaxInt64": 1<<63 - 1}

func parseDir(dir string) ([]*ast.File, *token.FileSet, error) {
	fset := token.NewFileSet()
	ents, err := os.ReadDir(dir)
	if err != nil {
		return nil, nil, err
	}
	var files []*ast.File
	for _, e := range ents {
		n := e.Name()
		if e.IsDir() || !strings.HasSuffix(n, ".go") || strings.HasSuffix(n, "_test.go") {
			continue
		}
		f, err := parser.ParseFile(fset, filepath.Join(dir, n), nil, 0)
		if err != nil {
			return nil, nil, err
		}
		files = append(files, f)
	}
	return files, fset, nil
}

func (pc *pkgConsts) eval(e ast.Expr, iota int64) (int64, bool) {
	switch x := e.(type) {
	case *ast.BasicLit:
		switch x.Kind {
		case token.INT:
			v, err := strconv.ParseInt(strings.ReplaceAll(x.Value, "_", ""), 0, 64)
			if err != nil {
				u, err2 := strconv.ParseUint(strings.ReplaceAll(x.Value, "_", ""), 0, 64)
				return int64(u), err2 == nil
			}
			return v, true
		case token.CHAR:
			r, _, _, err := strconv.UnquoteChar(x.Value[1:len(x.Value)-1], '\'')
			return int64(r), err == nil
		}
	case *ast.ParenExpr:
		return pc.eval(x.X, iota)
	case *ast.Ident:
		if x.Name == "iota" {
			return iota, true
		}
		v, ok := pc.vals[x.Name]
		return v, ok
	case *ast.SelectorExpr:
		if id, ok := x.X.(*ast.Ident); ok {
			v, ok := known[id.Name+"."+x.Sel.Name]
			return v, ok
		}
	case *ast.CallExpr: // conversion byte(3), uint64(x)
		if len(x.Args) == 1 {
			return pc.eval(x.Args[0], iota)
		}
	case *ast.UnaryExpr:
		v, ok := pc.eval(x.X, iota)
		if x.Op == token.SUB {
			return -v, ok
		}
		return v, ok
	case *ast.BinaryExpr:
		a, ok1 := pc.eval(x.X, iota)
		b, ok2 := pc.eval(x.Y, iota)
		if !ok1 || !ok2 {
			return 0, false
		}
		switch x.Op {
		case token.ADD:
			return a + b, true
		case token.SUB:
			return a - b, true
		case token.MUL:
			return a * b, true
		case token.QUO:
			if b == 0 {
				return 0, false
			}
			return a / b, true
		case token.SHL:
			return a << uint(b), true
		case token.SHR:
			return a >> uint(b), true
		case token.OR:
			return a | b, true
		case token.AND:
			return a & b, true
		}
	}
	return 0, false
}

func loadConsts(dir string) (*pkgConsts, []*ast.File, error) {
	files, _, err := parseDir(dir)
	if err != nil {
		return nil, nil, err
	}
	pc := &pkgConsts{vals: map[string]int64{}, strs: map[string]string{}}
	for pass := 0; pass < 4; pass++ { // resolve forward references
		for _, f := range files {
			for _, d := range f.Decls {
				gd, ok := d.(*ast.GenDecl)
				if !ok || (gd.Tok != token.CONST && gd.Tok != token.VAR) {
					continue
				}
				var last []ast.Expr
				for i, s := range gd.Specs {
					vs := s.(*ast.ValueSpec)
					vals := vs.Values
					if len(vals) == 0 && gd.Tok == token.CONST {
						vals = last
					} else {
						last = vals
					}
					for k, name := range vs.Names {
						if k >= len(vals) {
							continue
						}
						if bl, ok := vals[k].(*ast.BasicLit); ok && bl.Kind == token.STRING {
							s, _ := strconv.Unquote(bl.Value)
							pc.strs[name.Name] = s
							continue
						}
						if gd.Tok == token.VAR {
							// only `var X = byte(..)`-like scalars
							if _, isCall := vals[k].(*ast.CallExpr); !isCall {
								if _, isLit := vals[k].(*ast.BasicLit); !isLit {
									continue
								}
							}
						}
						if v, ok := pc.eval(vals[k], int64(i)); ok {
							pc.vals[name.Name] = v
						}
					}
				}
			}
		}
	}
	return pc, files, nil
}

type want struct {
	dir   string
	names []string // Go const name, optionally "goName=leanName"
	pfx   string
}

func leanIdent(pfx, n string) string {
	if pfx == "" {
		return strings.ToLower(n[:1]) + n[1:]
	}
	return pfx + strings.ToUpper(n[:1]) + n[1:]
}

func writeIfChanged(path, content string) error {
	old, err := os.ReadFile(path)
	if err == nil && string(old) == content {
		return nil
	}
	return os.WriteFile(path, []byte(content), 0o644)
}

func main() {
	repo := flag.String("repo", "/repo", "")
	out := flag.String("out", "/verif/lean/ImmuModel/Gen", "")
	flag.Parse()
	os.MkdirAll(*out, 0o755)
	wants := []want{
		{"embedded/ahtree", []string{"LeafPrefix", "NodePrefix", "cLogEntrySize", "szSize", "offsetSize"}, "ahtree"},
		{"embedded/htree", []string{"LeafPrefix", "NodePrefix"}, "htree"},
		{"embedded/store", []string{"txIDSize", "tsSize", "lszSize", "sszSize", "offsetSize", "maxTxMetadataLen", "MaxTxHeaderVersion", "cLogEntrySizeV1", "cLogEntrySizeV2", "MaxKeyLen", "MaxParallelIO", "maxKVMetadataLen", "deletedAttrCode", "expiresAtAttrCode", "nonIndexableAttrCode", "truncatedUptoTxAttrCode", "extraAttrCode", "maxExtraLen"}, "store"},
		{"embedded/sql", []string{"KeyValPrefixNull", "KeyValPrefixNotNull", "KeyValPrefixUpperBound", "EncIDLen", "EncLenLen", "MaxNumberOfColumnsInIndex"}, "sql"},
		{"pkg/database", []string{"SetKeyPrefix", "SortedSetKeyPrefix", "SQLPrefix", "DocumentPrefix", "PlainValuePrefix", "ReferenceValuePrefix"}, "db"},
		{"embedded/tbtree", []string{"InnerNodeType", "LeafNodeType", "cLogEntrySize"}, "tbtree"},
	}
	var sb strings.Builder
	sb.WriteString("-- GENERATED by /verif/extract from /repo on every check run. DO NOT EDIT.\nnamespace ImmuModel.Gen\n\n")
	for _, w := range wants {
		pc, _, err := loadConsts(filepath.Join(*repo, w.dir))
		if err != nil {
			fmt.Fprintln(os.Stderr, "extract:", err)
			os.Exit(1)
		}
		sb.WriteString("-- " + w.dir + "\n")
		for _, n := range w.names {
			v, ok := pc.vals[n]
			if !ok {
				// a constant the model depends on has disappeared / is no longer a literal: emit nothing,
				// the dependent Lean definitions fail to elaborate and the property is reported as no longer shown
				sb.WriteString(fmt.Sprintf("-- MISSING: %s.%s\n", w.dir, n))
				continue
			}
			if v < 0 {
				sb.WriteString(fmt.Sprintf("def %s : Int := %d\n", leanIdent(w.pfx, n), v))
			} else {
				sb.WriteString(fmt.Sprintf("def %s : Nat := %d\n", leanIdent(w.pfx, n), v))
			}
		}
		sb.WriteString("\n")
	}
	sb.WriteString("end ImmuModel.Gen\n")
	if err := writeIfChanged(filepath.Join(*out, "Consts.lean"), sb.String()); err != nil {
		fmt.Fprintln(os.Stderr, err)
		os.Exit(1)
	}
	for _, g := range generators {
		name, content, err := g(*repo)
		if err != nil {
			fmt.Fprintln(os.Stderr, "extract:", name, err)
			os.Exit(1)
		}
		if err := writeIfChanged(filepath.Join(*out, name), content); err != nil {
			fmt.Fprintln(os.Stderr, err)
			os.Exit(1)
		}
	}
	_ = sort.Strings
}

// further generators (permission tables, rpc lists, call-site facts) register here
var generators []func(repo string) (string, string, error)
