// C09: the ORDER and WIDTH of the fields of a tx-log record, re-read from the source on every run:
//   - the writes into s._txbs in ImmuStore.performPrecommit (immustore.go),
//   - the reads of txDataReader.readHeader / readEntry / buildAndValidateHtree (tx.go).
// Emitted as lists of (width, field id): width 8/4/2 = PutUintNN / ReadUintNN, 0 = copy / Read of a byte
// string. Field ids are assigned from the written/read expression (unknown expression = 999), so any
// reordering, added, removed or re-typed field changes Gen/TxLayout.lean and breaks the `decide` proof
// `layout_matches_source` in Props/C09.lean.
package main

import (
	"bytes"
	"fmt"
	"go/ast"
	"go/printer"
	"go/token"
	"path/filepath"
	"regexp"
	"strings"
)

func init() { generators = append(generators, genTxLayout) }

var txFieldIDs = map[string]int{
	"tx.header.ID": 1, "tx.header.Ts": 2, "tx.header.BlTxID": 3, "tx.header.BlRoot": 4, "tx.header.PrevAlh": 5,
	"tx.header.Version": 6, "tx.header.NEntries": 7, "len(txmdbs)": 8, "txmdbs": 9,
	"len(kvmdbs)": 10, "kvmdbs": 11, "txe.kLen": 12, "txe.k": 13, "txe.vLen": 14, "txe.vOff": 15, "txe.hVal": 16, "alh": 17,
	// reader side (assigned variable or destination buffer)
	"id": 1, "ts": 2, "blTxID": 3, "header.BlRoot": 4, "header.PrevAlh": 5, "version": 6, "nentries": 7,
	"mdLen": 8, "mdBs": 9, "mdbs": 11, "kLen": 12, "entry.k": 13, "vLen": 14, "vOff": 15, "entry.hVal": 16,
}

var convRe = regexp.MustCompile(`^(uint64|uint32|uint16|int64|int)\((.*)\)$`)

func normExpr(s string) string {
	s = strings.TrimSpace(s)
	for {
		m := convRe.FindStringSubmatch(s)
		if m == nil {
			break
		}
		s = m[2]
	}
	if i := strings.Index(s, "["); i >= 0 && !strings.HasPrefix(s, "len(") {
		s = s[:i]
	}
	return s
}

func exprStr(fset *token.FileSet, e ast.Expr) string {
	var b bytes.Buffer
	printer.Fprint(&b, fset, e)
	return b.String()
}

func findFunc(files []*ast.File, recv, name string) *ast.FuncDecl {
	for _, f := range files {
		for _, d := range f.Decls {
			fd, ok := d.(*ast.FuncDecl)
			if !ok || fd.Name.Name != name || fd.Recv == nil || len(fd.Recv.List) == 0 {
				continue
			}
			t := fd.Recv.List[0].Type
			if st, ok := t.(*ast.StarExpr); ok {
				t = st.X
			}
			if id, ok := t.(*ast.Ident); ok && id.Name == recv {
				return fd
			}
		}
	}
	return nil
}

type layoutItem struct {
	width int
	id    int
	src   string
}

func widthOf(fn string) (int, bool) {
	switch {
	case strings.HasSuffix(fn, "Uint64"):
		return 8, true
	case strings.HasSuffix(fn, "Uint32"):
		return 4, true
	case strings.HasSuffix(fn, "Uint16"):
		return 2, true
	}
	return 0, false
}

// writes into s._txbs[...] in source order
func precommitWrites(fset *token.FileSet, fd *ast.FuncDecl) []layoutItem {
	var out []layoutItem
	ast.Inspect(fd.Body, func(n ast.Node) bool {
		ce, ok := n.(*ast.CallExpr)
		if !ok || len(ce.Args) != 2 {
			return true
		}
		dst := exprStr(fset, ce.Args[0])
		if !strings.HasPrefix(dst, "s._txbs[") {
			return true
		}
		fn := exprStr(fset, ce.Fun)
		src := exprStr(fset, ce.Args[1])
		w := 0
		if fn != "copy" {
			var ok bool
			if w, ok = widthOf(fn); !ok {
				w = 99
			}
		}
		id, ok := txFieldIDs[normExpr(src)]
		if !ok {
			id = 999
		}
		out = append(out, layoutItem{w, id, fn + " " + src})
		return true
	})
	return out
}

// reads through t.r in source order: `x, err := t.r.ReadUintNN()` and `_, err = t.r.Read(buf)`
func readerReads(fset *token.FileSet, fd *ast.FuncDecl, override map[string]int) []layoutItem {
	var out []layoutItem
	lookup := func(k string) (int, bool) {
		if v, ok := override[k]; ok {
			return v, true
		}
		v, ok := txFieldIDs[k]
		return v, ok
	}
	ast.Inspect(fd.Body, func(n ast.Node) bool {
		as, ok := n.(*ast.AssignStmt)
		if !ok || len(as.Rhs) != 1 {
			return true
		}
		ce, ok := as.Rhs[0].(*ast.CallExpr)
		if !ok {
			return true
		}
		fn := exprStr(fset, ce.Fun)
		if !strings.HasPrefix(fn, "t.r.Read") {
			return true
		}
		var it layoutItem
		if fn == "t.r.Read" && len(ce.Args) == 1 {
			src := exprStr(fset, ce.Args[0])
			id, ok := lookup(normExpr(src))
			if !ok {
				id = 999
			}
			it = layoutItem{0, id, fn + " " + src}
		} else {
			w, ok := widthOf(fn)
			if !ok {
				w = 99
			}
			lhs := exprStr(fset, as.Lhs[0])
			id, ok := lookup(lhs)
			if !ok {
				id = 999
			}
			it = layoutItem{w, id, fn + " -> " + lhs}
		}
		out = append(out, it)
		return true
	})
	return out
}

func leanList(name string, items []layoutItem) string {
	var sb strings.Builder
	for _, it := range items {
		sb.WriteString(fmt.Sprintf("--   %-3d %-4d %s\n", it.width, it.id, it.src))
	}
	sb.WriteString(fmt.Sprintf("def %s : List (Nat × Nat) := [", name))
	for i, it := range items {
		if i > 0 {
			sb.WriteString(", ")
		}
		sb.WriteString(fmt.Sprintf("(%d, %d)", it.width, it.id))
	}
	sb.WriteString("]\n\n")
	return sb.String()
}

func genTxLayout(repo string) (string, string, error) {
	files, fset, err := parseDir(filepath.Join(repo, "embedded/store"))
	if err != nil {
		return "TxLayout.lean", "", err
	}
	var sb strings.Builder
	sb.WriteString("-- GENERATED by /verif/extract (txlayout.go) from /repo/embedded/store on every check run. DO NOT EDIT.\n")
	sb.WriteString("-- (width, field id): width 8/4/2 = big-endian integer, 0 = byte string; ids: 1 ID 2 Ts 3 BlTxID 4 BlRoot 5 PrevAlh\n")
	sb.WriteString("-- 6 Version 7 NEntries 8 txmdLen 9 txmd 10 kvmdLen 11 kvmd 12 kLen 13 key 14 vLen 15 vOff 16 hVal 17 Alh, 999 = unknown\n")
	sb.WriteString("namespace ImmuModel.Gen\n\n")
	type want struct{ recv, fn, lean string }
	for _, w := range []want{{"ImmuStore", "performPrecommit", "txPrecommitWrites"}, {"txDataReader", "readHeader", "txReadHeaderReads"},
		{"txDataReader", "readEntry", "txReadEntryReads"}, {"txDataReader", "buildAndValidateHtree", "txTrailerReads"}} {
		fd := findFunc(files, w.recv, w.fn)
		if fd == nil || fd.Body == nil {
			sb.WriteString(fmt.Sprintf("-- MISSING: %s.%s\n", w.recv, w.fn))
			continue
		}
		var items []layoutItem
		if w.fn == "performPrecommit" {
			items = precommitWrites(fset, fd)
		} else {
			var ov map[string]int
			if w.fn == "readEntry" {
				ov = map[string]int{"mdLen": 10} // in readEntry `mdLen` is the kv-metadata length
			}
			items = readerReads(fset, fd, ov)
		}
		sb.WriteString(fmt.Sprintf("-- %s.%s\n", w.recv, w.fn))
		sb.WriteString(leanList(w.lean, items))
	}
	sb.WriteString("end ImmuModel.Gen\n")
	return "TxLayout.lean", sb.String(), nil
}
