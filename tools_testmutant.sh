#!/bin/sh
# usage: tools_testmutant.sh <id e.g. c19-a> <Cxx> <demo_pkg_dir> <TestName>
# copies /tmp/mut/m-<id>/_mutant to seeded/<id>, confirms the demo on current main, runs the check against the mutant tree
ID=$1; P=$2; PKG=$3; TN=$4; W=/tmp/mut/m-$ID
mkdir -p /verif/seeded/$ID && cp $W/_mutant/* /verif/seeded/$ID/
git -C $W checkout -q -- . ; git -C $W checkout -q --detach main
/verif/seeded/verify_mutant.sh $W /verif/seeded/$ID $PKG $TN 2>&1 | tail -2
git -C $W apply /verif/seeded/$ID/patch.diff || { echo "patch does not apply on main"; exit 1; }
cd /verif && VERIF_REPO=$W ./check $P quick 2>&1 | grep -v "KNOWN-FINDING\|^immudb" | tail -3
