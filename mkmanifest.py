#!/usr/bin/env python3
"""Regenerates MANIFEST.json from the CHECKS table below (properties not listed go to not_applicable)."""
import json, os
V = os.path.dirname(os.path.abspath(__file__))
props = [json.loads(l) for l in open(os.path.join(V, "properties.jsonl")) if l.strip()]

TB = ("Trusted: Lean 4.33 kernel; axioms propext/Classical.choice/Quot.sound only (audited by #print axioms each run); "
      "the statements in lean/ImmuModel/Props/{id}.lean and the hand-written models they are about; the extractor and the Go harness "
      "(generators, canonicalisation, oracle). The tie model<->code is regenerated facts + behavioural correspondence (a search).")

CHECKS = {
 "C18": dict(
  text="Lean theorems over the REGENERATED permission tables, gRPC descriptors and per-handler gate facts (decide over the whole tables, lifted to "
       "every caller/permission code/credential state): every RPC is classified and gated (a new RPC without entries breaks the build); an allowed "
       "data write implies RW/Admin/SysAdmin on the selected database, an allowed read implies >= R, administration implies admin rights, settings "
       "changes imply Admin on the named database, and every RPC not classified unauthenticatedOk is refused when the server does not accept the "
       "credential. 'System database not writable' is FALSE for the code: witness theorem + exact exception list (maintenanceMethods contains "
       "document writers, ReplicateTx, and SQLQuery gates session transactions). Tie: the real ImmuServer (production interceptor chain, all three "
       "services) in-process over bufconn; every unary RPC x role x selected database x credential scenario (valid token/session, none, closed, "
       "unknown, expired, deactivated, re-permissioned, also after several logins; auth-off and maintenance servers) is compared with the model's "
       "verdict; the oracle (independent of the model) checks that a changed database implies write permission, returned canary data implies read "
       "permission, systemdb only changes through administration RPCs, and refused credentials change and return nothing.",
  note=TB + " Modelled rather than verified: the caller is described by what the SERVER holds about the credential (cached user data, login counter, "
       "session snapshot) - the gap between that and the truth is covered by the oracle only (it found the outdated-login-list defect); SQL GRANT-level "
       "privileges are an input bit; request validation that precedes the gate is avoided by sending valid requests; remote-client restriction "
       "with auth disabled, mTLS and the pgsql wire server are not covered.",
  technique="Lean 4 finite-table proofs (decide + lifting lemmas) + differential gate matrix against the real server + information-flow/state-change oracle",
  design="7/C18"),
 "C15": dict(
  text="Lean theorems, unbounded in values/lengths: (1) SQL index keys (model of EncodeRawValueAsKey/DecodeValueFromKey, byte layout exact): "
       "key_roundtrip (decode(encode v ++ any tail) = v, consumed = key length, every type incl. NULL), key_width_fixed, key_injective, "
       "key_order (Compare(a,b) = bytes.Compare(key a, key b), all three outcomes, every type, NULLs first) with corollaries per type, "
       "float_total_order (no exclusions: keys realise the IEEE total order), null_first, composite_lex (concatenated column keys order like rows; "
       "per-column keys are prefix-free) and composite_roundtrip; the exact excluded points are proved as witnesses of the negation: "
       "negzero_encodes_differently, nan_order_violated, nan_compare_irreflexive, timestamp_order_violated_outside_nano_range. "
       "(2) row values (EncodeRawValue/decodeValue): value_roundtrip (timestamps to microseconds), witness nullable_empty_varchar/blob_decodes_null. "
       "(3) store: txmd_roundtrip, kvmd_roundtrip, txheader_roundtrip (v0/v1, any metadata), witness txmd_readable_extra_makes_bytes_panic. "
       "Tie: the real functions are called on boundary-biased values, pairs, rows and mutated encodings; every call is replayed on the Lean driver "
       "and compared byte for byte (encodings, decoded values, Compare results, error classes, panics); an independent oracle checks "
       "decode(encode v) = v, Go Compare = bytes.Compare of the Go keys, equal values => equal keys, row order = composite key order, "
       "plus two end-to-end SQL probes.",
  note=TB + " Modelled rather than verified: Go values are represented as byte lists / Int / IEEE bit patterns / (sec,nsec) instants; float64 "
       "comparison of non-NaN values is taken to be signed-magnitude comparison of the bit patterns (confirmed on every generated pair); "
       "mayApplyImplicitConversion is the identity on the modelled domain (raw Go type = column type), JSON values, documents, protocol "
       "conversions and ExportTx framing are not modelled; int overflow of maxLen >= 2^62 in DecodeValueFromKey is outside the model; "
       "sql.MaxKeyLen is the extracted default (1024). Known findings (11 signatures) are genuine defects of /repo, see known_findings.json.",
  technique="Lean 4 proof (lexicographic-order lemmas, bit-level arithmetic by omega, list induction) + differential correspondence against embedded/sql and embedded/store codecs",
  design="7/C15"),
 "C01": dict(
  text="Lean theorems about models that mirror store/verification.go branch by branch, over an arbitrary hash (conclusions Good ∨ explicit collision of H): "
       "linear proofs are exact; the accumulated hash commits to the whole past; an accepted DualProof binds the target's tree leaf at the trusted position to the "
       "trusted state (closes the forged-last-leaf attack found and repaired in 991a435), extends the trusted tree, links the states linearly; fork consistency between "
       "any two well-formed histories for any binary-linking lag; DualProofV2 binding; no altered entry verifies (entry digest injectivity + htree membership soundness). "
       "Tie: byte-exact Alh/innerHash/entry digests and verdict-exact verifiers on real stores (honest + mutated proofs + attack templates built with scratch hash trees); "
       "oracle = the harness's own record of the history.",
  note=TB + " Modelled rather than verified: ECDSA state signature (uninterpreted, not covered), protobuf conversion and the SDK flow in pkg/client (not yet in the model), "
       "prover-side completeness of DualProof generation is established by correspondence + the C08 completeness theorems, not yet by a store-level theorem.",
  technique="Lean 4 proof (collision-explicit soundness of the verifier models) + differential correspondence on real stores with mutation/attack streams",
  design="7/C01"),
 "C08": dict(
  text="Lean theorems over an arbitrary hash (no injectivity assumed; conclusions are Good ∨ explicit collision): inclusion and last-inclusion "
       "verifier soundness against the RFC-6962 reference tree for every size/position/adversarial proof, guard theorems, plus (as they land) root "
       "equality, completeness and consistency soundness. The models mirror ahtree/htree statement by statement and are tied to /repo by byte-exact "
       "correspondence of roots, proofs and verifier verdicts (real + mutated proofs) and by an independent reference Merkle tree oracle.",
  note=TB + " Modelled rather than verified: file layout, caches, commit-log durability of ahtree (abstracted to logical logs + an explicit 'persisted' copy).",
  technique="Lean 4 proof (induction over the reference tree) + differential correspondence against the real ahtree/htree",
  design="7/C08"),
}
NA_REASON = "check not built yet in this round (model/theorems/correspondence pending); not claimed"

man = {
 "version": 1,
 "setup_cmd": "./setup.sh",
 "hooks": {"guard": "verif",
           "enable": "harness built with `go build -tags verif` in /verif/harness (go.mod: replace github.com/codenotary/immudb => /repo)",
           "baseline_off_cmd": "cd /repo && for m in $(cat /w/out/gomods.txt); do MF=$(cd /repo/$m && . /w/out/goenv.sh && gomodflag); (cd /repo/$m && go test $MF -json -vet=off -count=1 -timeout 25m ./...); done",
           "source_commits": [], "add_only": True},
 "engines": [
  {"name": "lean-model", "path": "lean/", "serves_properties": sorted(CHECKS), "kind_free_text": "Lean 4 models + theorems (lake project; core-only driver executable)"},
  {"name": "vh", "path": "harness/", "serves_properties": sorted(CHECKS), "kind_free_text": "Go harness: real code in-process vs Lean driver (line protocol) + model-independent property oracles"},
  {"name": "extract", "path": "extract/", "serves_properties": sorted(CHECKS), "kind_free_text": "go/parser fact extractor regenerating lean/ImmuModel/Gen/*.lean on every run"}],
 "checks": [],
 "notes": "./check <id> quick|thorough [--replay file]; findings in known_findings.json; design in DESIGN.md",
 "not_applicable": [],
}
for p in props:
    i = p["id"]
    if i in CHECKS:
        c = CHECKS[i]
        man["checks"].append({
            "property_id": i,
            "quick_cmd": f"./check {i} quick",
            "thorough_cmd": f"./check {i} thorough",
            "evidence_file": f"/verif/evidence/{i}.json",
            "replay_cmd_template": f"./check {i} quick --replay {{path}}",
            "engine": "lean-model+vh",
            "level_claimed": {"category": "proof", "text": c["text"], "design_ref": c["design"]},
            "level_note": c["note"].replace("{id}", i),
            "technique": c["technique"],
        })
    else:
        man["not_applicable"].append({"property_id": i, "reason": NA_REASON})
json.dump(man, open(os.path.join(V, "MANIFEST.json"), "w"), indent=1, ensure_ascii=False)
print("checks:", [c["property_id"] for c in man["checks"]])
