#!/usr/bin/env python3
"""Regenerates MANIFEST.json from the CHECKS table below (properties not listed go to not_applicable)."""
import json, os
V = os.path.dirname(os.path.abspath(__file__))
props = [json.loads(l) for l in open(os.path.join(V, "properties.jsonl")) if l.strip()]

TB = ("Trusted: Lean 4.33 kernel; axioms propext/Classical.choice/Quot.sound only (audited by #print axioms each run); "
      "the statements in lean/ImmuModel/Props/{id}.lean and the hand-written models they are about; the extractor and the Go harness "
      "(generators, canonicalisation, oracle). The tie model<->code is regenerated facts + behavioural correspondence (a search).")

CHECKS = {
 "C06": dict(
  text="Lean theorems about pkg/database operations decomposed into the atomic steps the code performs (write: precommit with the "
       "preconditions evaluated inside the s.mutex critical section after WaitForIndexingUpto(last precommitted) ; batch commit ; wait "
       "indexed. read: c := committed ; wait idxTs >= c ; one observation of the index at any ts in [c, idxTs]; Get through a reference: two "
       "observations; GetAll: snapshot step, then ONE STEP PER KEY reading the index the code passes to d.get (extracted call-site fact "
       "Gen.dbGetAllLooksUpInSnapshot; Scan/ZScan facts likewise), return step; index compaction: the index is reopened from an older dump while the WaitForIndexingUpto watcher keeps its value), the "
       "model records call/return step numbers itself. For EVERY schedule in which no index compaction completes: precondition_iff (applied with id n <=> "
       "entry n of the log and all preconditions hold on LogView(n-1); rejected => they fail on the version observed), "
       "read_sees_completed_writes, linearizable = (R1) results are those of the sequential KV object at the operation's version, (R2) "
       "versions respect real-time order, (LP) the explicit linearization points lie inside the call intervals; multi_key_read_one_instant (whatever a read answers, incl. "
       "the decomposed GetAll with commits/indexing between its lookups, is the sequential answer on ONE version v inside its interval; "
       "getall_needs_the_snapshot: with lookups on the live index it is false). Witnesses of the negation: ref_get_torn (Get through a "
       "re-pointed reference), compaction_breaks_read_after_write and compaction_breaks_conditional_write (a completed CompactIndex throws the "
       "index back: reads miss completed writes, a conditional write is applied although its precondition is false) — all three reproduced "
       "on the real database. "
       "Tie: real database.NewDB, 3..6 goroutines issuing Set / multi-key Set / ExecAll / Delete / SetReference / ZAdd / Get (SinceTx, AtTx, "
       "AtRevision) / GetAll / Scan / ZScan / History / Count and conditional writes with flush/compaction running, logical call/return "
       "timestamps; plus group probes (writers rewrite whole groups of 40..280 keys with one transaction per round via multi-key Set / "
       "ExecAll incl. sorted-set entries / multi-key Delete / new keys in bunches; readers loop over GetAll, Scan, ZScan, Count, History over the "
       "groups); writes (with preconditions, in id order) and reads (at the version assigned by the oracle) are replayed through the Lean "
       "driver, every GetAll additionally through the step model with the index advanced between snapshot and lookups (c06 getall-steps). Oracle (model independent): exact linearizability check using the returned tx ids (version windows + greedy monotone "
       "assignment; a multi-key read is ONE operation), the atomic-snapshot oracle (every entry of a multi-key answer has the interval of tx ids at "
       "which it is the newest version, every missing key the set where it is absent, from the reference log replay: one tx id must lie in all "
       "of them and in the real-time window; an empty intersection = the answer mixes two transactions), conditional-write rule, a WGL search without ids on the small histories, seeded non-linearizable histories as self-test.",
  note=TB + " Modelled rather than verified: queries are evaluated on one index view (ZScan's two snapshots agree because ZAdd/ExecAll hold the "
       "exclusive db mutex), bound references to future txs answer not-found, Delete is checked by the oracle only (MVCC tx, C05), NoWait "
       "variants are outside the claim; the last order-theoretic step from (R1)+(R2) to an explicit total order is not formalised. Five known-finding signatures (two root causes).",
  technique="Lean 4 proof (invariant over all schedules with explicit linearization points) + recorded concurrent histories checked exactly against a sequential KV model",
  design="7/C06"),
 "C05": dict(
  text="Lean theorems about a model that mirrors embedded/store OngoingTx (lazy per-index snapshots in acquisition order, own writes, "
       "mvccReadSet recording incl. ongoingTxKeyReader's per-row records, Reset without clearing `skipped`) and checkPreconditions / precommit "
       "branch by branch (a snapshot with Ts() > LastPrecommittedTxID is skipped with `continue` - repaired, was an early `return nil` = DESIGN K8 -, expected gets / prefix gets / reader re-execution with the "
       "held-row register / prefix fingerprints), for an explicit, universally quantified schedule of atomic steps (API call of tx i with an "
       "arbitrarily stale snapshot choice, commit critical section, write-only commit, indexer progress). Proved for EVERY schedule: "
       "validation_sound_get/pget/scan/fp (validation ok => the read re-executed on LogView(last) + own writes returns the recorded result), "
       "serializable_partial (every committed tx returned, call by call, what its program returns alone on LogView(id-1)) under two decidable "
       "side conditions (for any SnapshotMustIncludeTxID and any order of snapshot acquisition), commit_validates_every_snapshot (no conflict reported => every held snapshot "
       "is taken at the last precommitted tx or validated), "
       "aborted_no_trace(+_step), closed_tx_inert, read_your_own_writes(+_set,+_scan), atomic_visibility. The full serializability statement is "
       "FALSE for the code as it is: two witness theorems (serializable_fails_scan_own_write_tail, serializable_fails_prefix_get_own_write), each reproduced on the real "
       "store; the third one (DESIGN K8) is repaired in /repo and restated as later_snapshot_validated (the two-index schedule now ends in a read conflict). "
       "Tie: real store, 1..2 indexes, 4..12 keys, 2..8 transaction programs per case in three modes (deterministic phantom/stale templates "
       "ordered through channels, seeded random interleavings with deterministic stale snapshots via SnapshotMustIncludeTxID + snapshot-root "
       "refresh, free-running goroutines with write-only committers, snapshot readers and MaxBulkSize 1); the observed scheduling facts "
       "(commit ids, snapshot ts per index read from tx.snapshots, SnapshotMustIncludeTxID values, conflict windows) are replayed through the "
       "Lean driver which must reproduce every read result and every commit verdict; `c05 solo` ties the Lean serial reference to the Go oracle. "
       "Oracle (model independent): serial replay in tx-id order on a Go map, final index content = replay of committed txs, concurrent "
       "snapshots show all or none of each tx and exactly a prefix view.",
  note=TB + " Modelled rather than verified: the index as a multi-version map over a fixed sorted key universe (C10/C04 own the B-tree; every "
       "read is replayed), sha256 prefix fingerprints idealised as injective, interleavings inside the critical sections, expiry / "
       "NonIndexable / transient entries / ReadBetween / mandatoryMVCCUpToTxID / MVCC read-set limit (not exercised), atomic_visibility is by "
       "construction in the model (the harness probes it on the real index). MaxBulkSize is forced to 1: with larger bulks the indexer "
       "key-aliasing defect F1 (C04) corrupts index keys and surfaces here as partial-tx / left-trace failures. Three known findings.",
  technique="Lean 4 proof (simulation argument over all schedules: per-call validation soundness lifted by an invariant) + schedule-recording replay against the real store",
  design="7/C05"),
 "C13": dict(
  text="Lean theorems about `step`/`run`, a mirror of SQLTx (one store transaction, counters, savepoints AS THE CODE DOES THEM: counters only, map by name, ROLLBACK TO "
       "deletes the named savepoint) and Engine.execPreparedStmts (a statement error cancels the transaction), over C12's `exec`: commit_all_or_nothing (a program without "
       "COMMIT never changes what others see), commit_publishes_pending, rollback_no_trace (ROLLBACK, failing statement, failing savepoint operation), own_writes_visible, "
       "counts_match_applied, tx_refines_spec_partial (same outcomes and committed state as the textbook interpreter Spec for programs without ROLLBACK TO/RELEASE). "
       "savepoint_refines_spec is FALSE of the code: witnesses savepoint_keeps_writes (K1) and second_rollback_to_fails. Tie: generated transaction programs (BEGIN, DML, "
       "failures, SAVEPOINT/ROLLBACK TO/RELEASE, COMMIT/ROLLBACK, abandoned sessions, autocommit) through Engine.Exec with an explicit *SQLTx and ExecPreparedStmts vs the "
       "Lean driver (per-operation outcome and counters). ORACLE (Go): reference interpreter with textbook savepoints; committed table after every COMMIT/ROLLBACK/"
       "failure/close; in-tx view through every index = snapshot + own writes; autocommit readers never see uncommitted data; counts and generated keys; 1..4 interleaved sessions. "
       "Second model Sql/CatalogCache.lean (engine-level catalog cache under schedules of several sessions: NewTx read-only/read-write, DDL, DML, COMMIT incl. empty and "
       "conflicting ones, ROLLBACK, re-open): catalog_cache_facts_match_code (extracted code fragments = what the model mirrors), cache_coherent (a cached catalog is the "
       "committed one along every schedule), new_tx_sees_committed_catalog, commit_without_ddl_keeps_schema (the COMMIT of a transaction without DDL changes nothing others "
       "see), committed_ddl_never_undone, necessity witnesses coherence_needs_unconditional_bump / _version_check / _invalidate_on_ddl, finding ro_fill_not_atomic_stale. "
       "Tie: catalog-cache schedules on the real engine vs driver ops `c13c` (generation seen by every new transaction, cache hit/miss through the sql.CatalogCache*Observer "
       "hooks, COMMIT ok/conflict). ORACLE 2 (Go, DDL schedules): 2..4 interleaved sessions over a changing schema (CREATE/DROP TABLE, ADD/DROP/RENAME COLUMN, RENAME TO, "
       "CREATE/DROP INDEX mixed with DML; open EMPTY / query-only / writing transactions of other sessions at every DDL commit; fresh engines and re-opens; observers that do "
       "not touch the cache): after EVERY commit/rollback/abort/re-open a fresh session's TABLES()/COLUMNS()/INDEXES()/rows = reference to which committed transactions are "
       "applied in commit order. "
       "Third model Sql/CatalogClone.lean (added for seeded change c13-b; heap of per-table containers, cloneTable rebuilds or shares each, DDL = in-place mutation through "
       "the transaction's clone): clone_facts_match_code + clone_rebuilds_every_container (extracted: every map/slice field of Table and of the Index objects is rebuilt "
       "by cloneTable), uncommitted_ddl_leaves_cached_catalog_untouched (any DDL sequence of an open / rolled-back transaction changes neither what the cached catalog "
       "shows nor what a later transaction's clone shows), witness shared_container_leaks_uncommitted_ddl. ORACLE 2 widened (c13_ddlx.go): every DDL kind of the grammar "
       "that works on one engine (incl. NOT NULL / CHECK in CREATE TABLE, DROP CONSTRAINT, ALTER COLUMN SET|DROP NOT NULL, TRUNCATE, views, sequences) x every ending "
       "(COMMIT, ROLLBACK, failing statement, conflict at COMMIT, closed session, ROLLBACK TO SAVEPOINT) x warm/cold catalog cache (matrix + random schedules), constraint-"
       "violating DML, and after every event BEHAVIOUR PROBES by a fresh session of the same engine and of a second engine over the same store: valid row accepted, row "
       "violating each CHECK / omitting each NOT NULL column refused, row violating a dropped constraint accepted, every view/sequence of the reference resolves and no other. "
       "Fourth model Sql/Sessions.lean (namespace Mv, built for C12; used for C13 since seeded change c13-c: concurrent SQL sessions, per-index snapshots, the read-set of the "
       "constraint checks, COMMIT = checkPreconditions + apply): overlapping_unique_writers_second_commit_conflicts, overlapping_unique_writers_never_both_commit_partial (of two "
       "open transactions that wrote one UNIQUE tuple, once one commits the other's COMMIT is a read conflict; side conditions: keys written once, no deleted entry under the "
       "prefix = R2), failed_commit_leaves_no_trace, rollback_leaves_no_trace, uncommitted_statements_invisible, committed_reads_valid_at_commit_point_partial, "
       "readset_routing_facts_match_code (extracted guards of the three read-set loops of checkPreconditions = the routing the model assumes), witnesses c13c_demo_* and "
       "isolation_needs_routing_by_probed_prefix. NOT proved: full commit-order serializability of the statement fragment. ORACLE 3 (Go, c13_ser.go, serial-order schedules): "
       "2..4 sessions over tables with UNIQUE (single/multi-column) and non-unique indexes, transactions = reads (point, key range, index equality/range, COUNT, EXISTS subquery) "
       "then writes by key, biased to conflict (same key; same UNIQUE tuple under different keys; reads of what another open session writes; write skew; forced episodes per kind): "
       "the transactions whose COMMIT was acknowledged are replayed in commit order on the Go reference table — every recorded read result and affected-row count must equal the "
       "reference's at that position, every write must be valid there, the committed table (through every index) = reference after every COMMIT "
       "(C13:commit:not-serializable-in-commit-order:<what differs>); failed COMMIT / ROLLBACK leave no trace. Tie: the write-only cases through the `c12 mv` driver ops.",
  note=TB + " Modelled rather than verified: isolation between concurrent sessions is the store's MVCC (C05); the session model Sql/Sessions.lean covers the by-key DML fragment and its constraint reads (SELECTs, range reads and write skew are exercised by the harness oracle only) (the catalog-cache model takes "
       "'a writer whose catalog read-set is stale fails with a read conflict' as given); NewTx is one step of the cache model (the two critical sections of the read-only fill are "
       "the subject of ro_fill_not_atomic_stale, not driven by the harness); the correspondence runs "
       "single-session programs on tables without secondary indexes (the in-tx index view is finding R1); pkg/server/sessions/internal/transactions is a Go internal package "
       "(not importable) and the PostgreSQL wire front-end is not driven. the clone model covers the containers of Table (the scalar fields of the Column / Index objects are copied by value: literal facts). "
       "Known signatures for root causes R1, R2, R4, R5 (K1), R6/R6b/R6c, R7, R8, R9, R14–R21, R23 (known_findings.json); R22 (DROP / TRUNCATE TABLE with a CHECK failed) and R24 (DROP INDEX left the per-column index lists of the running transaction wrong) are repaired, their signatures stay armed and both are driven by the matrix in every run.",
  technique="Lean 4 proof (case analysis on the transaction interpreter, simulation against the reference interpreter, concrete witnesses by decide) + differential correspondence + reference-interpreter oracle",
  design="7/C13"),
 "C12": dict(
  text="Lean theorems about `exec`, a mirror of UpsertIntoStmt/UpdateStmt/DeleteFromStmt.execAt + doUpsert (decision order, auto-increment maxPK rule, NOT NULL/CHECK/"
       "length tests, PK existence read incl. the store's deleted-in-same-tx behaviour, UNIQUE prefix read incl. deleted entries): exec_preserves_inv_partial (PK unique, "
       "declared lengths, auto-increment high-water mark, key bookkeeping are preserved by every successful statement), insert_enforces_not_null_partial, "
       "exec_fail_no_effect (a failing statement cancels the tx, committed state unchanged), reachable_inv_partial (every committed state reachable by any sequence of "
       "transactions/statements/failures/rollbacks/savepoints), uniqueness_reads_in_readset (the uniqueness decision depends only on the entries under the read prefix — "
       "the reads the store's MVCC records; concurrency is inherited from C05), dml_reads_only_matching_rows (UPDATE/DELETE read only table rows that satisfy their WHERE, "
       "each at most once, whatever index the plan `Sql/Plan.lean` chooses; the converse is false: witness delete_where_negzero_misses_poszero). The FULL invariant is false of the code: witnesses update_sets_null_in_not_null and "
       "unique_violated_after_delete. The error a VALUES row ends with follows the code's order (column loop, CHECK, encodedKey column by column, pkMustExist, existing key, doUpsert); UPDATE/DELETE select their rows through "
       "the model of genScanSpecs/selectINLJIndex/keyReaderSpecFrom (key-byte window, WHERE re-evaluated). Tie: statement outcomes (ok/error class, affected rows) of generated histories vs the Lean driver (autocommit, explicit tx; on "
       "indexed tables single-row statements); every run sweeps ALL pairs of simultaneous defects of one VALUES row x INSERT/UPSERT/ON CONFLICT on hand-built schemas (c12_prec.go). ORACLE (Go, model independent): after EVERY committed transaction full scans through the primary and every secondary "
       "index: same rows through every index, PK unique, UNIQUE duplicate free, NOT NULL, lengths, CHECK, equals a textbook reference interpreter; must-fail statements "
       "fail; failed statements / rolled back / conflicting transactions leave no trace; 1..4 interleaved sessions (deterministic) and real goroutines. "
       "CONCURRENT SESSIONS (c12_race.go, model Sql/Sessions.lean): theorems unique_writes_are_probed (in every schedule every unique tuple an open transaction wrote is "
       "covered by a recorded 'nothing under this prefix' read), stale_unique_lookup_conflicts (such a read is invalidated at COMMIT by any live first entry under the prefix: "
       "ErrTxReadConflict), unique_race_second_committer_fails_partial, witnesses concurrent_insert_insert_conflict / concurrent_update_insert_conflict; tie: statement outcomes, "
       "COMMIT decisions (ok / read conflict) and the committed rows of scheduled interleavings of 2-4 sessions vs the Lean model of per-index snapshots + read-set + "
       "checkPreconditions; oracle: every acknowledged transaction replayed on the reference AT ITS COMMIT POINT must be valid there (of two overlapping writers of one unique "
       "tuple / primary key at least one fails), table = replay, all constraints after every commit; goroutine rounds (barrier-released autocommit statements and racing COMMITs): "
       "at most one acknowledged writer per contended tuple, table = reference + acknowledged writes. "
       "CONSTRAINTS ADDED WHILE SESSIONS ARE ACTIVE (c12_ddl.go, model Sql/CatalogDml.lean = Sql/Dml.lean joined with the catalog-cache protocol Sql/CatalogCache.lean): theorems "
       "new_tx_checks_against_committed_schema (in every schedule of any number of sessions — empty / reader / writer transactions, DDL, COMMITs, re-open, cold or warm engine cache — "
       "the transaction NewTx opens is registered with the COMMITTED catalog generation, so its statements run `exec` under the schema that contains every committed constraint), "
       "insert_after_committed_unique_index_rejects_duplicate (then doUpsert refuses a row whose values under a committed UNIQUE index are held by a live row with another key; R2 excluded by hypothesis), "
       "insert_after_committed_not_null_enforced_partial, witnesses stale_schema_admits_duplicate (version bump skipped on a cold cache: generation 0 registered while 1 is committed, duplicate accepted) / "
       "same_schedule_code_rejects_duplicate; tie `c12 ddl …`: catalog generation and cache hit/miss of every BEGIN / autocommit statement / autocommit query and the mandatory catalog "
       "conflicts at COMMIT on schedules with CREATE TABLE (PK, AUTO_INCREMENT, NOT NULL, CHECK, VARCHAR[n]) / CREATE [UNIQUE] INDEX on empty and populated tables / DROP INDEX / ADD|DROP|RENAME COLUMN / DROP TABLE "
       "interleaved with open transactions of 2-4 sessions; ORACLE = persisted truth: after every commit a FRESH engine on the same store loads catalog and rows, every constraint that catalog "
       "declares is checked over the rows, both must equal the reference (acknowledged transactions applied at their commit points under the catalog persisted there: a statement that must fail there was not acknowledged). "
       "VALUES AS WRITTEN (c12_spell.go, model Sql/Conv.lean): every value of the sequential families may be respelled — TIMESTAMP as string / varchar parameter / CAST in every accepted layout, zone and number of fractional digits incl. SUB-MICROSECOND digits, "
       "time.Time parameters with nanoseconds, INTEGER as string / FLOAT with a fractional part, FLOAT as INTEGER / string, UUID in upper case / urn / braces / 16-byte BLOB, BOOLEAN text forms, VARCHAR from numbers, CASTs — and dedicated cases per key type make two spellings of "
       "ONE stored value meet under a PRIMARY KEY / UNIQUE index; reference and model work on the STORED value, the engine gets the text; extra oracle: the key the statement probes (EncodeRawValueAsKey of the value as written) = the key the indexer derives from the stored row, "
       "no scan / autocommit statement may block (stalled index). Theorems probe_key_is_indexer_key (a value at the stored precision has one key, all column types), timestamp_from_string_probe_key_is_indexer_key (the converter truncates to the microsecond BEFORE the key is encoded), "
       "timestamp_spellings_of_one_stored_value_probe_one_key, witness untruncated_timestamp_probe_key_differs; tie `c12 conv ts sec nsec`: probe key and indexer key of the engine's exported encoders on the text vs the model on the instant the text denotes.",
  note=TB + " Modelled rather than verified: parsing of TIMESTAMP text (time.ParseInLocation: the model starts from the instant it returns) and every conversion other than to TIMESTAMP (harness oracle only); the transient index entries of an open transaction (statements writing several rows of an indexed table are kept out of the "
       "correspondence; that behaviour is finding R1), DEFAULT values, JSON, FOREIGN KEY, ALTER TABLE, implicit INTEGER->FLOAT conversion; the concurrent-session model covers statements addressed by primary key with every row / unique tuple written once per transaction "
       "(the early `return nil` of checkPreconditions and non-default snapshot options are C05's), duplicate freedom of every reachable store is NOT proved (false in general: R2) "
       "— the harness checks it; the schema history of Sql/CatalogDml.lean is an abstract function generation -> Schema (one table; what DDL does to the catalog is the harness reference's business), "
       "the catalog-cache model is the C13 one (NewTx is one step; the read-only fill race ro_fill_not_atomic_stale is outside). Known signatures for root causes R1, R2, R3, R4, R9, R13, R18 (SET NOT NULL not persisted), R25 (UPSERT/UPDATE of an indexed column with an implicitly converted value: not comparable), R26 (CHECK evaluated on the value as written: 1.5 passes CHECK (b <> 1) and stores 1) (known_findings.json); R19 (DROP TABLE of a table with a CHECK failed) is repaired, its signature stays armed and the case is probed in every run.",
  technique="Lean 4 proof (invariant preservation by induction over the statement interpreter; concrete witnesses by kernel evaluation) + differential correspondence + invariant checking after every commit",
  design="7/C12"),
 "C11": dict(
  text="FRAGMENT model. Lean theorems (unbounded in table size, values, predicate shape) about a mirror of the single-table SELECT path of embedded/sql "
       "(predicate evaluation with the engine's two-valued comparisons and NULL-as-least, selectorRanges -> updateRangeFor/refineWith/extendWith incl. the "
       "constant-on-the-left and OR-hull quirks, keyReaderSpecFrom byte windows, index entries = key(index cols)++key(pk) from C15, OFFSET/LIMIT): "
       "range_sound_fragment (every derived range bounds every row on which the predicate is TRUE), window_sound_fragment (the row's key in ANY index lies in the "
       "key window built for it), plan_independent_fragment (range scan = unrestricted scan of the same index, as lists, any LIMIT/OFFSET/direction), "
       "plan_independent_perm_fragment (two indexes return permutations of the rows kept by the predicate), order_by_sorted_fragment, partition_fragment "
       "(P / NOT P / (P) IS NULL partition a result for two-valued P), limit_offset_fragment. PLANNER (Sql/SelectPlan.lean mirrors genScanSpecs: flagged ranges + unitary, "
       "coversOrdCols = same direction and (hasPrefix or sortableUsing), selectSortingIndex, equality-lookup (INLJ) fallback that replaces the primary index, THEN the "
       "needs-sort decision, sort step, DescOrder): rangesF_erase_fragment (flagged walk = range walk), order_by_sorted_plan_fragment (whatever index is chosen and whether or "
       "not the sort step is dropped, the output is sorted by the ORDER BY list), plan_rows_perm_fragment (the auto-chosen plan returns a permutation of the rows kept by WHERE), "
       "plan_hint_independent_fragment, plan_limit_offset_fragment. Tie: generated fragment queries `SELECT * FROM t USE INDEX ON (idx) WHERE p "
       "[ORDER BY idx0 DESC] [LIMIT] [OFFSET]` are answered by the real engine and by the Lean driver on the same rows (lists compared); for every `SELECT * ... WHERE p [ORDER BY ...]` "
       "of the fragment, unhinted and under every hint, the plan the engine CHOSE (RowReader.ScanSpecs().Index / DescOrder, presence of a sortRowReader in the reader chain) is compared "
       "with planOf (`c11 plan`) and, when the output order is determined, the row list with runPlan (`c11 pq`). Queries are also generated RELATIVE TO THE INDEXES (equality on the "
       "leading columns of an index in several spellings, range on the next column, ORDER BY / GROUP BY over PK prefix / index suffix / index prefix / other index / uncovered columns, "
       "asc/desc/mixed, LIMIT/OFFSET, bulk rows sharing the leading index values), with counters of the shapes reached. "
       "Model-free METAMORPHIC ORACLE on the engine for everything else: each generated query (comparisons with constants of another numeric type / on the left, "
       "double bounds, OR of ranges, IN, LIKE, IS NULL, NOT/AND/OR, ORDER BY 1..3 cols asc/desc, LIMIT/OFFSET, DISTINCT, GROUP BY + COUNT/SUM/MIN/MAX/AVG, HAVING, "
       "inner/left joins, IN/EXISTS/FROM subqueries, BEFORE TX) is run as is, under every USE INDEX ON hint, on a twin table without secondary indexes kept in the same "
       "transactions, inside the writing tx / after COMMIT / after reopen, with a 2-row sort buffer; ORDER BY sortedness (unhinted plan and every hint), partition, COUNT(*), group totals, no group twice, LIMIT slices and LIMIT order keys. "
       "JOIN family (c11join.go, ORACLE ONLY, no Lean model of joins): 2-3 tables with the same column names and indexes on each side (index-free twins), INNER/LEFT/self joins whose ON clause has 0-2 equi conjuncts plus "
       "inner-only / outer-only / MIXED outer-inner / constant conjuncts, the same conjuncts placed in ON vs WHERE, join order permuted, ORDER BY / GROUP BY / LIMIT over columns of either side, each query against a Go reference "
       "evaluator (nested loops over the PK scans), the twins, random forced indexes on every table and a 2-row sort buffer; the strategy of every join level (hash table vs one inner query per outer row) and the sort / streaming-group "
       "steps are observed by reflection (counters join.path.*).",
  note=TB + " Modelled rather than verified: only the fragment is in Lean (no joins, grouping, DISTINCT, subqueries, LIKE, mixed-type constants, file sort, history, "
       "GROUP BY planning); the `inclusive` flags of typedValueSemiRange are modelled for the planner only (the scan never reads them); which of several equal rows a sort step "
       "emits first is not modelled (lists compared for total orders / index order only); the reader chain is observed through reflection on unexported fields (read-only); values are the C15 "
       "representations; NaN and -0.0 are excluded from the theorems (C15 findings). The metamorphic oracle takes the engine's own semantics as given (two-valued "
       "comparisons, LIMIT 0 = no limit) and checks agreement between plans only. Joins are checked by the oracles only: no theorem is claimed for them. 42 known signatures (root causes R1, R10a/b, R11, R12a/b/c, R13 and, from the join family, R25 hash-join freezes a mixed ON conjunct, R26 index coverage ignores the table qualifier, R27 NOT IN negation lost in join conditions, R28 spilled sort panics on a repeated aggregate; known_findings.json).",
  technique="Lean 4 proof (lexicographic key-window lemmas on top of C15 key_order/composite_lex, list induction) + metamorphic differential testing of the real engine + correspondence on the fragment",
  design="7/C11"),
 "C14": dict(
  text="Lean theorems about a model that mirrors TruncateUptoTx / appendValuesInto / DiscardUpto / readValueAt / the ExportTx entry loop statement by statement, "
       "for an ARBITRARY store (any chunk size, MaxIOConcurrency, tx log, set of chunk files) where a transaction is only assumed to be what one "
       "appendValuesIntoAnyVLog call produces (one vlog, ascending from some offset, empty values at offset 0; different txs anywhere = every commit schedule): "
       "truncate_safe (every value of a committed tx >= n that was readable stays readable, whatever the truncation returns), truncate_idempotent, "
       "truncate_monotone (n <= m: what TruncateUptoTx(n) deletes, TruncateUptoTx(m) deletes), headers_untouched + current_chunk_kept (only chunk files change, only removed, never the active one), "
       "export_total, export_full_after_truncate (tx >= n exported in full, mutex free), export_releases_lock (EVERY exit of the entry loop, the two 'partially truncated' errors included, "
       "has released _valBsMux) + export_keeps_mutex_free (so no sequence of ExportTx calls blocks; the former failing histories of F4 are kept as examples), export_wholly_truncated_by_digest + export_partially_truncated_refused (an empty value is neutral for the 'all or none' guards: a tx all of whose non-empty values are gone goes out by digest, empty values included, wherever they stand; a tx whose non-empty values are partly readable is refused); a witness of the negation for the defect "
       "left in the code: truncate_unsafe_for_inflight_writer (K6: values staged before the truncation by a tx that commits after it are deleted); empty_first_value_blocks_truncation (effectiveness gap); "
       "walks_as_in_code (the loop headers of TruncateUptoTx regenerated from the source at every run are the ones the model transcribes: forward walk from minTxID to a variable defined as s.LastCommittedTxID() and written nowhere else), "
       "front_walk_ends_at_last + front_walk_covers_every_later_tx (the tombstone of a vlog is at or below the first value of EVERY committed tx n..last of that vlog, however far from n), "
       "short_front_walk_unsafe (for EVERY constant c a forward walk cut short at n+c loses a value of a committed tx >= n: a committer overtaken by c+1 others after writing its values). "
       "Tie: real stores (concurrent committers, histories replicated in shuffled order so values land out of id order, late committers through ReplicateTx started arbitrarily early so that value-log order and id order "
       "differ by MORE than MaxConcurrency (2..6; MaxActiveTransactions down to the exact minimum), a heavy committer racing light ones, every cut n, MaxIOConcurrency 1..4, FileSize 48..1000, empty values, embedded on/off, "
       "ascending/repeated/out-of-range cuts, reopen): the observed placement (vlog, offset, length per entry) and chunk files are fed to the driver; tombstones (from the store's own log lines), "
       "error class, surviving chunk files, per-entry readability and ExportTx outcome incl. lock state are compared; independent oracle = recorded values, tx log/Alh/DualProof snapshots, "
       "TryLock on _valBsMux, liveness bounds; plus pkg/database (vlog truncator with CopySQLCatalog, SQL, documents, restart). "
       "Database level (Store/TruncateDb.lean: the vlog truncator = CopySQLCatalog, `return err` on failure, store truncation; copy outcome as an input): db_truncator_as_in_code (facts regenerated from pkg/database/truncator.go: "
       "one copy, the guard after it is `if err != nil { ...; return err }` without else, no store truncation before the end of the guard, one after), db_truncate_keeps_catalog + db_truncations_keep_catalog (after any sequence of "
       "database-level truncations, writes, DDL and restarts, every copy outcome and cut, the catalog entries are readable: the copy is tx last+1 >= n), db_truncate_refused_removes_nothing, "
       "truncate_after_failed_copy_loses_catalog (witness for the counterfactual 'log and go on'). Tie/oracle: real databases whose catalog copy FAILS as well as succeeds (catalog larger than MaxTxEntries, cancelled / expiring-at-poll-k contexts, "
       "a DDL executed at poll k of the copy, a racing DDL writer): whatever the truncator answers, the reference schema, rows/documents/KV written at tx >= cut, new INSERTs and DDL work live and after restart; error => no chunk removed; "
       "`c14 dbtrunc` compares the control flow given the observed copy outcome.",
  note=TB + " Modelled rather than verified: value bytes, digests and compression are not in the model (locations only); the tx log, index, AHT are represented by 'unchanged' (checked by the oracle on the real store); "
       "Go's random map iteration order over the tombstones is modelled as list order (vlogs are independent); multiapp's LRU of open chunk files, the vlog cache (disabled in the harness) and "
       "remote storage are not modelled; concurrency is abstracted into the arbitrary placement plus the explicit two-phase commit used in the K6 witness; the SQL/document level is oracle-only (no model). "
       "the vlog lock manager (vLogsCond / fetchVLog / releaseVLog) is not modelled: the lost wake-up (repaired: Broadcast) is guarded by the oracle only (deterministic recipe + liveness bounds). "
       "At the database level the causes of a failed copy, the SQL/document engines and what a catalog entry contains are not modelled (locations only; CatalogReadable = every value resolves). "
       "Known findings left: K6 (needs a design decision); CopySQLCatalog leaks the snapshot of a failed copy (`defer tx.Cancel()` after the error return: Close answers 'snapshots not closed', refused truncations exhaust MaxActiveSnapshots); the lock leak and the lost wake-up are under 'fixed' in known_findings.json.",
  technique="Lean 4 proof (fold invariants over the two walks, filter characterisation of the discard loop, pigeonhole for the early exit of the back walk; decide for the witness and the examples) + differential correspondence on real stores",
  design="7/C14"),
 "C07": dict(
  text="Lean theorems over models that mirror the replication code (wire format of ExportTx/ReplicateTx as repaired in /repo - every length field behind its own check, proved panic-free for every byte string; the replica store: "
       "ReplicateTx -> precommit with a supplied header, every check in the code's order -> performPrecommit, sync/mayCommit, DiscardPrecommittedTxsSince, "
       "AllowCommitUpto at store and database level, close/reopen re-loading the tx log; the ack protocol of synchronous replication), abstract hash, "
       "conclusions Good ∨ explicit collision: export_parse_roundtrip (values, empty values, by-digest form, v0/v1, any metadata; trailer optional); "
       "replica_prefix (ANY schedule of deliveries drawn from a genuine primary history — out of order, duplicates, retries, with/without skipIntegrityCheck, "
       "interleaved with syncs, discards, allowances, restarts — leaves the replica with, position by position, the primary's first transactions: header, Alh, entries; full strength since the repair of performPrecommit, which left the pooled Tx's BlRoot in a tx with BlTxID=0 — the former counterexample run is rereplication_from_genesis_restores_tx1) "
       "and replica_accepts_next (completeness of the checks); replica_holds_wellformed_chain + replica_agrees_upto_matching_alh (ARBITRARY delivered bytes: the chain is always well formed, and a matching Alh at position n means the primary's headers, Alhs and entries up to n — the guarantee behind db.AllowCommitUpto(txID, alh)); replica_rejects_nonextending / _unparsable / replica_rejection_keeps_state (rejected without effect); replicateTx_parser_never_panics and the former panic inputs restated as rejected without effect (replica_rejects_malformed_trailer: trailer of one byte / of length 0; replica_rejects_cut_value_length: export cut inside vLen after kv-metadata); "
       "replica_rejects_altered_entries + entries_hash_binds_entries + value_hash_binds_value (integrity check on); accumulated_hash_binds_header; "
       "sync replication over all interleavings: primary_commit_needs_acks (committed ≥ n ⇒ syncAcks distinct replicas informed a durable precommit ≥ n), "
       "replica_commit_after_primary, primary_commit_within_allowance, reports_bounded. The unqualified sentence 'an altered export is rejected without effect' is FALSE for "
       "the code and is refuted by witness theorems: altered_ts_accepted, altered_txmd_accepted (K3), skip_integrity_ignores_eh, values_stripped_accepted_same_alh, "
       "allowance_survives_discard, buffer_full_rejection_is_reloaded; altered_header_detected_partial is the proved part (Alh differs ⇒ db.AllowCommitUpto refuses, successor rejected). "
       "Acknowledgements only cover durable state (Store/ReplicaDisk.lean: the store with its disk — which tx-log records are fsynced, the watermark wait, close/reopen, power loss): ack_covers_only_fsynced_records / ack_on_disk_preserved "
       "(on a Synced store, after ANY sequence of deliveries of arbitrary bytes, syncs, discards, allowances and power losses, the first `durable` records of the chain — what PrecommittedAlh() reports to the primary, what ReplicateTx returned for, what WaitForTx lets pass — are committed or FSYNCED live tx-log records, committed ≤ durable ≤ in-memory precommitted; a discard has to recede the watermark for this), wait_passes_iff_within_watermark, "
       "restart_after_full_sync_keeps_ack_on_disk, acked_prefix_survives_crash_partial (a power loss keeps the acknowledged prefix when no discarded record lies in the fsynced log), replica_reports_within_held (id-level protocol, all interleavings); refuted for the code as written by "
       "restart_marks_unfsynced_precommit_durable (Close flushes, Open marks everything re-loaded durable) and discarded_record_shadows_acked_after_crash (Open re-loads the discarded tx in place of the acknowledged one). "
       "Several exporters on one primary (Store/ExportConc.lean): exports_of_same_tx_equal + export_determines_tx (the writer is a function of the committed tx alone, and its bytes determine entries, VALUES, flag and header), "
       "concurrent_exports_match_sequential (any interleaving of any number of exporters with further commits: every answer = the sequential answer on the final history), "
       "scratch_buffer_export_delivers_own_values (small-step model of the entry loop of ExportTx — Lock, readValueAt into the store-wide scratch buffer _valBs, buf.Write, Unlock — any number of calls, any schedule: a call only ever writes the values of ITS transaction; mutual exclusion), "
       "refuted for the same loop with the Unlock in front of the copy by early_unlock_exports_foreign_value. "
       "Tie: two real embedded stores under random histories (tx metadata, kv metadata, empty values, many entries, v0/v1, embedded values, values truncated by TruncateUptoTx) "
       "and delivery schedules (in order, concurrent out-of-order within MaxActiveTransactions, duplicates, future ids, retries, close/reopen, discards, external allowance, Synced with "
       "explicit Sync), an alteration stream over every byte class of the export (~70 classes, flips, coherent re-encodings, cuts, trailer variants), every call replayed on the Lean "
       "driver (answer class, id, Alh, state digest, re-export bytes); pkg/database level: primary + 1..3 replica DBs, the fetch round played by hand in any replica order while a client "
       "is blocked in Set, ExportTxByID answers and the primary's commit point compared with the ack model, replica 0's store followed by the byte-level model. "
       "Oracle (model-independent): replica vs primary tx by tx (ExportTx bytes, headers, Alh, ReadTx entries, values, Get after indexing, DualProofs of the replica verified "
       "against the primary's states), rejected ⇒ state digest unchanged, accepted altered ⇒ classified, Set returns only after syncAcks replicas informed, replica committed ≤ primary committed, "
       "a copy of a Synced replica's directory re-opens with the reported precommit; "
       "acknowledgement durability (c07ack.go): families of FORKED primaries, a Synced replica on the crash-simulating file system (internal/crashfs, syncer off), ReplicateTx left pending on goroutines / Sync / AllowCommitUpto / "
       "DiscardPrecommittedTxsSince + switch of primary / Close+Open / power loss in scripted and random order; after every step every acknowledgement (PrecommittedAlh(), returned ReplicateTx calls, passing WaitForTx) must lie between committed and in-memory "
       "precommitted, name the delivered tx, have its record in the FSYNCED part of the tx log, and be held (same Alh, same export bytes) by a store opened on the power-loss image; the same steps run on the disk model (watermark value, its Alh, the wait outcome, the state after a crash). "
       "Concurrent exporters (c07cx.go): 2..12 exporter goroutines (own Tx holder, with/without skipIntegrityCheck, Gosched/sleeps drawn from the seed) export overlapping and different tx ids of ONE real primary "
       "(catch-up sweeps, windows, hot ids, random ids, newest ids) while committers append transactions with values of every size around the scratch-buffer boundary (1..4096, 4097+, empty); after TruncateUptoTx again (by-digest exports, the 'partially truncated' error exits). "
       "Oracle: the sequential export parses (own parser) to the committed header/keys/metadata/values, EVERY concurrent answer is byte-identical to the sequential one, each exporter's stream fed to a replica of its own reproduces ids, Alh, entries and values; progress watchdog (C07:ExportTx:hang); "
       "tie: the committed tx through the Lean writer (c15 xp.enc) must give every distinct byte string handed out, which the Lean parser/writer read back (c07 parse, c07 xrt). The evidence reports export_max_in_flight_per_store (1 before this part existed; inconclusive below 2). "
       "Liveness: every call of the code under test runs under a watchdog (20 s): a call that does not return is the oracle failure C07:<api>:hang with the operation trace as replay and abandons the scenario. The transient back-pressure answer ErrMaxConcurrencyLimitExceeded (Tx holder pool empty, timing dependent) is repeated by the harness and only counted: it is neither compared with the model nor a rejection.",
  note=TB + " Modelled rather than verified: aht.RootAt is replaced by its specification mth (C08 aht_root); one ReplicateTx call is one atomic step (a call that must wait for tx ID-1 is the "
       "outcome 'blocked'; concurrent deliveries are linearised by the harness); entriesByKey is keyed by key (Go: sha256(key)); stale bytes after the re-loaded chain are assumed not to parse as a chaining record; the ack protocol "
       "is modelled on ids only (Alh comparisons of ExportTxByID are in the byte model / oracle); gRPC streaming and the TxReplicator goroutines (pkg/replication) are not modelled: the harness plays "
       "fetchNextTx by hand. Crash model of the disk theorems: fsync granularity = whole tx-log records, an fsync happens only inside sync() (true for the default buffer/file sizes; the harness also runs small buffers/chunks, oracle only); value logs and the AHT are not in the disk model (the oracle reads values back from the crash image). "
       "Several exporters: model 1 takes one ExportTx call as one atomic read of the committed history (a specification; the harness compares the real concurrent answers with it), model 2 covers the scratch buffer and its mutex only (statement granularity; the value cache, the value-log handles and the Tx holder pool are exercised by the harness, not modelled). "
       "Known findings (16 signatures, all confirmed on the real code) in known_findings.json; the ReplicateTx framing panics (F3) are repaired in /repo (93a231d) and their signature stays armed.",
  technique="Lean 4 proof (invariants over operation sequences and interleavings, collision-explicit hash binding) + differential correspondence on real stores/databases with schedule and alteration streams",
  design="7/C07"),
 "C02": dict(
  text="Lean model of the commit protocol of embedded/store/immustore.go at lock granularity (own and replicated precommit with every guard in Go's order, "
       "performPrecommit, mayCommit/sync, DiscardPrecommittedTxsSince, AllowCommitUpto, SetExternalCommitAllowance, Close, Open incl. the reload of precommitted txs; tx log "
       "and commit log as physical record lists written only at precommittedTxLogSize / committedTxID, the binary-linking tree with its never-truncated files). Theorems for an "
       "arbitrary hash, unbounded op sequences: step_committed_prefix / reachable_committed_mono (the committed list only grows at the end: ids dense, never re-assigned, records "
       "never change, across failing commits, discards, replication, close/reopen), committed_history_wellformed (PrevAlh chain, reported state = Alh of the last committed tx), "
       "discard_never_touches_committed, replicated_precommit_preserves_inv, step_preserves_inv_partial + open_preserves_inv_quiescent (BlRoot_k = reference Merkle root over the first "
       "BlTxID_k accumulated hashes; tie to C01's Hist), interleave_eq_serial (any interleaving of committers = serial run in id order, atomicity of the critical section stated as "
       "the assumption s.mutex provides), and the NEGATIVE result open_breaks_binary_linking (witness run) for the defect found; what Open reloads: precommitted_history_wellformed / open_reloaded_txs_chain (every "
       "reloaded pre-committed tx has the next id and chains by PrevAlh to its predecessor, whatever stale records lie behind the live tail), reload_takes_longest_chaining_prefix, "
       "reload_rejects_nonchaining_record, stale_record_with_next_id_reachable (witness: the id test alone is not enough). Tie: every op of random sequential sequences, scripted "
       "scenarios and concurrent runs on the real store.Open (configs crossed: synced/unsynced, embedded values, prealloc, header v0/v1, IO concurrency, tiny file sizes, small "
       "MaxActiveTransactions, external allowance, tree sync threshold) is sent to the Lean driver; assigned id, Alh, error class, committed/precommitted ids and hashes must agree "
       "step by step. Oracle (model-independent): record at ack / first sight, whole history re-read after every step through ReadTx, ReadTxHeader, ExportTx, ReadValue, TxReader "
       "asc/desc, CommittedAlh against independent reference Alh / entries-root / Merkle-root computations; after every reopen a reference log of every tx ever written (bytes + parent) "
       "judges what Open reloaded, committed and pre-committed: ids, PrevAlh chain, provenance, parent, liveness; branch histories over several lives of one store with same-size "
       "txs (in-place overwrites leaving aligned stale records behind the live tail) are generated for it. VALUES under maintenance (Store/TruncateRun.lean: committers in two phases — "
       "values staged in a value log, id assigned later, any order — interleaved with TruncateUptoTx = C14's statement-by-statement model, index maintenance, restarts; unbounded): "
       "committed_values_survive_maintenance / acked_values_survive_maintenance (a value readable when its tx was acknowledged stays readable, same location, after every op sequence whose "
       "cuts are <= its id), maintenance_keeps_tx_log, reachable_values_placed, and the negative results inflight_values_not_covered (known finding, C14's K6) and walk_must_reach_last_committed. "
       "Harness: inversion episodes (parked CommitWith + queued committers; ReplicateTx started ahead of its predecessors) with TruncateUptoTx at / below / inside the episode's ids, "
       "FlushIndexes, CompactIndexes, index reopen and restarts as ordinary ops of sequential, replica and concurrent histories; truncation outcome, surviving chunk files and per-entry "
       "readability are compared with the model through the driver's c14 ops; the re-read oracle covers the values (ReadValue, ExportTx: below the largest cut only io.EOF / digests / "
       "'partially truncated').",
  note=TB + " Modelled rather than verified: atomicity of critical sections (lock granularity; goroutine interleavings below that and the watcher hubs are only sampled by the "
       "concurrent runs), tx-log/commit-log at record granularity (byte layout, chunk rotation and flush timing are exercised by the harness, not modelled; a tx-log write is in place and keeps "
       "the records behind it iff the serialized sizes agree, otherwise they are treated as lost; the flush-dependent fate of a record written by a failed cLogBuf.put is avoided by the harness), the KV index (precondition verdicts are supplied by the harness); "
       "in the value-log part: the placement of staged values is observed (tx log + chunk files on disk), not predicted, and index maintenance / restart are "
       "no-ops on tx log and value logs by definition of the model (exercised by the harness). Five signatures of genuine defects are registered as known findings (the stale BlRoot of a tx with BlTxID = 0 is repaired: own_commit_empty_tree_zero_blroot, replicated_bltxid_zero_stores_zero_blroot).",
  technique="Lean 4 proof (invariant + induction over op lists) + step-by-step differential correspondence + full-history re-read oracle on the real store",
  design="7/C02"),
 "C19": dict(
  text="Lean theorems about a model of the document layer that mirrors embedded/document (typed view computed at upsert time by "
       "structValueFromFieldPath/structValueToSqlValue incl. the amd64 float->int64 conversion, NULL as smallest value, DNF filters, ORDER BY/OFFSET/LIMIT, "
       "count, audit, replace- and delete-by-query), unbounded in documents, schemas, histories and queries of the fragment: insert_get_roundtrip (get returns "
       "exactly the stored document + _id; the stored row is the typed view), search_exact and search_sound (a document is returned iff it is live and its stored "
       "typed view satisfies the filter; nothing else for any paging), search_sorted (adjacent results in ORDER BY order, NaN-free data), paging_partition + "
       "search_nodup (pages concatenate to the unpaged result, no duplicates), count_eq_length, audit_lists_all_revisions_in_order, replace_adds_revision, "
       "delete_removes_from_search_not_from_audit, witness typed_view_integer_conversion (2.7 -> 2, 1e308 -> -2^63). "
       "Tie: the real document.Engine and the pkg/database document API run generated schemas (fields/indexes added and removed), documents (nested, null/missing, "
       "numeric edge values, unicode, long strings), insert/replace/delete histories and queries on a collection with indexes and its index-free twin; every operation of "
       "the fragment is replayed on the Lean driver (same ids, same id lists modulo ties, same revisions, same error classes). Model-independent oracle: in-memory "
       "document list + Go interpreter of the query language on the explicitly stated typed view (get/search/order/paging/count/twin/unique/audit/reopen) and "
       "ProofDocument + VerifyDocument accept genuine and reject 15 kinds of altered documents/proofs/states. Document proofs: a model of pkg/verification.VerifyDocument "
       "(entry loop, entries digest, header binding by id AND Alh on both ends of the dual proof, known-state checks, VerifyDualProofV2) with verifyDocument_sound "
       "(an accepted proof: the shipped tx header has the id and the Alh of the proven end, one entry carries the key and H(EncodedDocument), entries hash to eH, known state "
       "is an end, the dual proof verified, new state = target), verifyDocument_entry_in_tx (if the proof header with that id is the genuine header of the tx then "
       "(md, document key, H(EncodedDocument)) is one of the tx's entries, or a collision of H) , bound_requires_alh and verifyDocument_short_row_rejected (an EncodedDocument shorter than a slice offset is refused with ErrInvalidProof - the former panic, repaired in /repo); tied by `c19 vdoc` on every proof round: genuine "
       "proofs for every relation known-state/document-tx (none, older, equal, newer) and ~20 kinds of coherent forgeries (payload+hValue+eH rebuilt, headers moved between "
       "the ends, another tx under the proved id, same id other Alh, entries added/removed, cut rows), judged by a ground-truth oracle (stored revisions + genuine Alh per tx). "
       "Secondary indexes (since seeded change c19-c): Doc/SqlBridge.lean translates a compiled document query into the single-table SELECT embedded/document issues (column order, "
       "left-nested AND/OR, constants, ORDER BY) and runs it through the C11 planner model (index choice, key window of keyReaderSpecFrom, sort step, OFFSET/LIMIT) over ANY list of "
       "secondary indexes: search_through_any_index (the ids returned through whatever plan are, as a multiset, those of the index-free specification `search`), "
       "search_through_any_index_sorted, search_through_any_index_paged, translated_filter_faithful, compiled_query_typed; tied by `c19 ixsearch` on every fragment query (id lists, "
       "the collection's real index list). The harness shapes queries RELATIVE to the indexes (bound class of the leading field x bound class of the next field x ORDER BY covered "
       "asc/desc/continued/not covered x OR groups x LIMIT/pages, also for replace/delete) over dense data, and sweeps all 25 x 2 combinations deterministically.",
  note=TB + " Modelled rather than verified / outside the Lean fragment (oracle only): UUID fields, LIKE/NOT_LIKE, unique-index enforcement; the planner bridge assumes NaN/-0.0-free data and constants that fit their columns (the two excluded cases are known findings: +-0 through an index, constant longer than an indexed STRING field), "
       "field-name validation, id generation, the protobuf payload encoding (for document proofs the outcome of decode+proto.Equal is an input of the model; the state signature is a predicate). Ties (equal sort keys) are compared "
       "modulo order because the engine sorts with the unstable sort.Slice. float->int64 is modelled as amd64 CVTTSD2SI. Known findings (32 signatures, 10 root causes; the VerifyDocument slice panic is repaired and its signature stays armed) "
       "are genuine defects of /repo, see known_findings.json.",
  technique="Lean 4 proof (list induction over a small executable spec) + differential correspondence against embedded/document and pkg/database + model-independent oracle with classified quirks",
  design="7/C19"),
 "C04": dict(
  text="Lean theorems (unbounded histories, any index spec, any grouping of the log into bulks the indexer can form: BulksOf = non-empty bulks of at most MaxBulkSize "
       "transactions, ONE transaction for an injective index as indexSince caps it): index_refines_log — the model of indexer.indexSince/doIndexing "
       "(source-prefix filter, non-indexable skip, source/target mappers, injective-mapping tombstone = previous metadata + deleted, IncreaseTs/BulkInsert on a multi-version map mirroring "
       "tbtree's insert rules) never fails and leaves, for every key, exactly the versions LogView prescribes, where LogView is a comprehension over the committed "
       "entries that knows nothing of bulks, buffers or trees; bulk_partition_independent (any two MaxBulkSize settings) / indexBulk_append; on any tree that refines the log: get_latest, "
       "get_absent/deleted/expired_notfound, getBetween_exact, history_consecutive_revisions (+history_errors), snapshot_history_consecutive_revisions (Snapshot.History's own arithmetic), "
       "scan_exact_sorted (sorted, exact membership, offset), prefix_lookup_exact, logview_latest; one_live_mapped_key_per_row_partial for injective secondary indexes (previous versions with any metadata); "
       "kvs_never_overflows (the pre-allocated idx._kvs of 2*MaxTxEntries*MaxBulkSize slots holds every bulk the indexer can gather: no index-out-of-range panic) + indexBulkCap_eq_of_room; "
       "read_filters_match_code and indexer_facts_match_code (filter lists; key copied into the KVT, _kvs length, lookup bound, one-tx cap for injective indexes — regenerated from the tree). "
       "The model is the code as it stands after the repairs of the five indexer/reader defects this check found (see known_findings.json 'fixed'); the former failing inputs are kept as examples. "
       "Tie: real embedded/store with IndexOptions crossed (MaxBulkSize 1..16, adaptive bulks, flush/sync thresholds, node size at the "
       "minimum, cache 1.., buffered-data limits, 1..4 indexes incl. SQL-shaped two-level injective mappers) over histories with overwrites, logical deletes, expirations, "
       "non-indexable entries, empty values, up to MaxTxEntries keys per tx (injective layouts too), long shared prefixes and max-length keys, three commit modes (synchronous; indexers closed during a batch so that "
       "the bulk partition is known exactly; concurrent AsyncCommit writers), interleaved flush/compaction/close+reopen; after WaitForIndexingUpto every key is read through "
       "Get, GetBetween, GetWithPrefix, History (offsets/limits/orders), Snapshot.Get/History, KeyReader (ranges, prefixes, filters, offsets, history) and, in a second stage, "
       "through pkg/database Get/Get-at-revision/GetAll/Scan/History/Count; every answer is compared with the Lean driver (which runs the indexer model in the same bulk partition) "
       "and with an independent Go replay of the acknowledged commits (index content = log, each read API = function of the index content). Deterministic probes of every repaired defect run at "
       "each check and report it under its old signature should it return (the driver then answers unsupported-variant as well). "
       "Compaction INTERLEAVED with writers (added for seeded c04-b): compaction_restart_preserves_refinement (index restarted from the dump of a snapshot root with the ts fullDump claims = snap.Ts(), "
       "then any bulks over pending(ts, log): the whole log again, whatever the live tree had indexed during the dump), restart_preserves_refinement_of_claim_le, restart_with_overclaimed_ts_loses_transactions "
       "(claimed ts c > dump ts: the result holds the log WITHOUT the txs in (dump ts, c] — not the log as soon as one of them is indexable), compaction_facts_match_code (Compact snapshots t.root, "
       "fullDump writes snap.Ts() into TIMESTAMP<snap.Ts()>, OpenWith raises the root ts to the file's value, doIndexing resumes at Ts()+1 — regenerated from the tree). Harness stage c04compact.go: the store is "
       "opened with an appendable factory whose history/node logs call back from inside TBtree.fullDump, so every dump is held (gate schedule: until the harness has committed k txs and seen them indexed by the "
       "live tree; free schedule: a writer goroutine commits while {FlushIndexes; CompactIndexes} loops and every dump sleeps a few ms); repeated compactions, all seven index layouts, reopen; op `c04 compact i s` "
       "(model: compactRestart of the re-built dump; implementation: content of TIMESTAMP<s>); the content/read oracle runs at QUIESCENT points only (writers joined, compaction returned, every index POLLED up to "
       "the last tx via SnapshotMustIncludeTxID — not via the wait hub) and again after Close/Open.",
  note=TB + " Compaction stage: which transactions fall into a dump window is scheduled by the harness (gate) or by timing (free); three genuine races of restartIndex with the indexing goroutines are "
       "recognised by their cause (goroutine census per indexer; stale-lookup fingerprint) and reported as known findings, everything else at a quiescent point is a new failure. "
       "Modelled rather than verified: the B-tree itself (nodes, cache, flush, history log, compaction, recovery) is abstracted to a sorted multi-version map — C10's subject; "
       "value offsets and tx metadata are not part of the compared answers; mappers are total functions; time is an injected `now` (the code uses time.Now(), the harness keeps expirations "
       "10^6 s away from it); which index serves a key (getIndexerFor iterates a Go map: nested target prefixes would make it order dependent) is fixed by using non-nested prefixes; "
       "the asynchronous interleaving of indexer and writers is sampled (burst mode), not enumerated — no hook exists in /repo; when the bulk partition is unknown (burst) and a defect "
       "made the content partition dependent the Lean comparison of that case is skipped and counted (oracle still applies). one_live_mapped_key_per_row is proved for a target mapper over a "
       "plain source index (no source mapper). Known findings left: db.Count counts deleted/expired keys (a maintainer decision); restartIndex does not wait for the indexing goroutine (two goroutines per index, lost txs); an injective indexer's goroutine "
       "returns when its source index is restarted during its lookup (index stops for good); stale source lookup during the post-compaction regress (two live mapped keys). Six repaired ones are listed under 'fixed' in known_findings.json.",
  technique="Lean 4 proof (refinement of a log comprehension by a bulk indexer on a sorted multi-version association list; list induction) + differential correspondence against the real embedded/store and pkg/database",
  design="7/C04"),
 "C03": dict(
  text="Lean theorems about a record-granularity model of the commit/sync/recovery protocol (micro-steps in the code's order: value-log append, tx-log "
       "SetOffset+Append, sync() = vlog sync, tx-log sync, commit-log SetOffset/Append/Sync, acknowledgement; external commit allowance; buffer-full "
       "auto-syncs of any single log at any time; any number of crash+restart cycles; logs with durable/volatile/stale cells). For EVERY reachable state and "
       "EVERY crash image (per log any prefix of the un-fsynced cells, torn next cell, stale tail): recover_total (OpenWith never fails), recover_acked_prefix "
       "(acked <= recovered committed, acked records identical), recover_extends(+_prefix) (nothing invented), recover_chain (dense ids, PrevAlh chain), "
       "recover_idempotent (crash during/after recovery), acked_values_durable_partial (one epoch); witnesses swapped_order_loses_acked, "
       "early_ack_loses_acked (necessity of the write ordering), unlocked_vlog_sync_loses_acked_values (necessity of fsyncing the value logs INSIDE the commit lock: "
       "a tx record appended between the value-log fsync and the tx-log fsync of one sync() is acknowledged without durable values) and autosync_recovers_tx_without_values (finding K7 as a theorem about the code's protocol). "
       "Tie: the real store runs on a crash-simulating Appendable (crashfs, differentially validated against the real multiapp every run); the recorded "
       "storage-op trace is replayed through the model and the model must predict the real store.Open's (committedTxID, precommittedTxID) / error class on "
       "every enumerated crash image. Independent oracle on the reopened real store: Open succeeds, acked txs present and byte-identical, chain + BlRoot "
       "recomputed, nothing invented, DualProof(acked -> recovered) verifies, Get vs log after WaitForIndexingUpto, fresh commit; plus second crashes during "
       "recovery and after recovery+commit, and deterministic attack templates. Concurrent committers are interleaved with the durability round DETERMINISTICALLY through "
       "the storage layer (a crashfs hook starts late committers before the Flush / after the Sync of every log of the round, MaxIOConcurrency 1..3); the crash point right "
       "after every acknowledgement is always evaluated (values of every acked tx read back); a crash-independent ordering oracle on the trace checks that the tx record and "
       "every referenced value range are fsynced when a commit-log entry becomes durable / a commit is acknowledged; the trace is fed to the model with the round's begin at "
       "its real position, so a precommit inside a round is answered 'disabled' by the model. "
       "INDEX recovery (tbtree OpenWith): Lean model of the backwards walk over the index commit log (IndexRecover.walk, per entry: synced flag + outcome of the "
       "checksum validation) and of the three index logs under flushTree micro-steps with crash images and restarts (IndexStore: incremental snapshots = node range "
       "+ history range + commit entry, ideal checksums). For EVERY entry list: index_walk_keeps_fsynced, index_walk_kept_valid (an invalid snapshot invalidates every "
       "newer one: the kept entries above the newest valid fsynced one form a valid prefix), index_walk_maximal (the longest one); index_recover_kept_validate (on every "
       "image the kept snapshots have their own ranges on disk); index_recover_one_life_partial (one life, every crash image: the selected snapshot is a snapshot of the "
       "flush history, the kept commit log a prefix of the logical one, both data logs below its ends unchanged: no lost data referenced); witnesses "
       "index_keep_newest_references_lost_data (keeping the newest valid snapshot above an invalid one loads a root over stale history: seeded change c03-d), "
       "index_stale_entry_revalidates and index_spliced_entry_validates (findings 6 and 5: the full multi-life statement is FALSE of the code). Tie: for every opened "
       "image the harness validates the index commit entries itself and `c03 idxwalk` must select the number of snapshots the real OpenWith selected (read off its "
       "SetOffset ops). Enumeration: per index LOG survival choices (one log loses all / keeps all alone / keeps a proper prefix, independent random prefixes, torn), "
       "index-flush-heavy workloads (several un-fsynced snapshots with and without history append between fsyncs, secondary indexes), trees of lives of one directory "
       "with up to 3 crashes (the next life starts from a crash image with long stale tails), TIMESTAMP side files tracked. Oracle on every index: Get, History (both "
       "directions, tx ids, revisions, values resolved) of every key and a full history scan = comprehension of the recovered tx log (the reference of C04).",
  note=TB + " Modelled rather than verified: ideal (injective) Alh, one cell per record (byte-level tearing only as 'torn cell'), the two volatile levels "
       "(buffered / written) merged, committers serialised in the model, hash tree (aht) recovery is NOT in the Lean model (covered by the "
       "crash-image enumeration + oracle only); index model: one cell per node / history record / commit entry, ideal checksums, a torn commit entry never validates "
       "(false of the code: finding 5, shown separately), one chunk per log, no compaction / DiscardUpto, the content of nodes (B-tree structure, ts) is not modelled: "
       "'consistent' = the logs below the ends of the snapshot hold what they held when it was written; the multi-life theorem is stated _partial (one life) because the "
       "full statement is false (findings 5, 6); the TIMESTAMP file (finding 7) is outside the Lean model. Preallocated files and compressed value logs not covered, "
       "fsync assumed to reach the platter. acked_values is proved for one epoch only (false across restarts: K7).",
  technique="Lean 4 proof (invariant over micro-step sequences and crash images) + crash-image enumeration of the real store on an in-memory Appendable + trace correspondence",
  design="7/C03"),
 "C10": dict(
  text="Lean theorems about the specification MVMap (sorted association list key -> versions newest first, the exact functions the driver runs): "
       "insert/get laws, strict key order and strictly decreasing version timestamps for every reachable map, History = window of the full version list in "
       "either direction, readers return EXACTLY the keys in the declarative range (seek/end/prefix, both directions, offset) in order, flush changes no read, "
       "GetBetween equals 'newest version <= t2 with ts >= t1' over the key's own versions for every map, key and range (and is unchanged by a flush), snapshots are immutable under every later "
       "operation list and never older than the requested ts; plus regression statements of two REPAIRED defects on their original inputs (GetBetween returning another key's version; "
       "rejected insert after reopen emptying the tree). The implementation model BTree.lean (functional B+tree with the code's serialized-size formulas, "
       "splitIndex, per-child grouping, root growth) is PROVED to refine the spec for single-entry inserts (any node size, depth, shape; splits at all levels) and for get; "
       "multi-entry bulks are carried by the tie only (tree depth after every BulkInsert equals tbtree's depth gauge; abs(tree)=map asserted by the driver after every op). Tie: the real tbtree (MaxNodeSize at the minimum, cache off/tiny, flush thresholds 1.., small files, "
       "cleanup 0..100, compaction, close/reopen, open snapshots re-read after later mutations; plus small-tree copy-on-write cases: root leaf / shallow trees with the default and the minimum node size, "
       "flush -> snapshot kept open -> IncreaseTs / reopen with the ts file ahead / rejected insert -> updates of existing keys, every open snapshot fully re-read after every mutating op) is compared call by call with the Lean driver and with an "
       "independent Go reference map.",
  note=TB + " Modelled rather than verified: node/file format, cache, nodeRef lazy loading, hLog byte layout (abstracted to per-key block lists); wall-clock snapshot renewal (RenewSnapRootAfter=0), Snapshot.Set, SyncSnapshot, HistoryReader and Reader.Reset on history readers are not exercised; "
       "that the Go code never mutates a pinned tree is checked by re-reading open snapshots (a search). Three findings repaired in the repository ('fixed' lines of known_findings.json; the probes stay); one known, low-severity finding: Ts() is not preserved by Close/Open after a rollback to the loaded root (stale TIMESTAMP file applied again; Lean witness reopen_after_rollback_restores_stale_ts).",
  technique="Lean 4 proof (induction over sorted lists / operation lists, refinement) + differential correspondence against the real tbtree + reference-map oracle",
  design="7/C10"),
 "C09": dict(
  text="Lean theorems about a statement-by-statement model of the on-disk tx record (performPrecommit layout, txDataReader.readHeader/readEntry/"
       "buildAndValidateHtree, KV/Tx metadata parsers, ReadValue/readValueAt/fetchVLog, TxReader chaining) over an ARBITRARY hash (conclusions Good ∨ explicit collision): "
       "round trip parse∘serialize; acceptance implies stored Alh = Alh(parsed header) and Eh = RFC-6962 root of the version-dependent entry digests; ANY alteration of the bytes "
       "(any number of bits, any offsets) that keeps the Alh known for the tx leaves id, ts, version, tx metadata, nentries, BlTxID, BlRoot, PrevAlh and per entry key, kv metadata, hVal unchanged or "
       "exhibits a collision (flip_detected_partial); a value returned for a non-zero stored length has the entry's hash and length (value_authentic_partial); a full ascending scan ending in a known Alh "
       "binds every record of the range (scan_binds_partial); the parser and the value reads never panic (parse_never_panics, value_read_never_panics) and a stored vLen above MaxValueLen is rejected before allocating "
       "(value_len_bounded) - full statements since the repairs of extraAttribute.deserialize, fetchVLog and the value-length check in /repo. The limits of the code are theorems too: vLen=0 is served unvalidated, "
       "a consistent rewrite of record+Alh is accepted by single-record reads (K2). Tie: field order/widths of the record re-extracted from performPrecommit/readHeader/readEntry on every run and proved equal to the model's by decide; "
       "real store directories (plain / embedded / 3 vlogs / compressed, tiny chunk files, header v0+v1, kv+tx metadata) are copied and altered at every field of every record "
       "(boundary bits, every length/offset/count := 0/1/max/±1, vlog-id variants, metadata overruns, value bytes) plus seeded random single/multi-bit flips; ReadTx outcome (canonical record | error class | panic), "
       "ReadValue outcome and TxReader steps are compared with the Lean driver; pristine records are compared byte for byte with serializeTx. Model-independent oracle: every call of Open/ReadTx/ReadTxHeader/"
       "ReadTxEntry/ReadValue/ExportTx/TxReader/DualProof/Get returns an error or exactly the pristine content; panic, hang, >128 MiB allocation or different content = failure. "
       "Every altered (and unaltered) copy is opened with a value-log cache size in {0,1,4,64} x tx-log cache size {default,1} and read through one of 11 read SEQUENCES that interpose lenient accesses "
       "(ExportTx/ReadTx/ReadTxHeader/ReadTxEntry with skipIntegrityCheck=true: all at once, per tx, or sandwiched between two checked passes) and permute the checked phases (export first, Get first), "
       "so that a cache filled by a lenient or by another checked path is then consumed by a checked one; lenient answers are not judged, ReadValue of an entry handed out by a lenient read must be self-authentic "
       "(digest and length of that entry). Lean: readValueAt with the value cache as explicit state and the skip flag (Tx/ValueCache.lean): a checked read is authentic for EVERY cache content and in every read sequence "
       "(cached_value_authentic_partial, cached_reads_authentic), the cache is transparent on unchanged logs unless an offset is cached with another length (cached_read_transparent), and TruncateUptoTx evicts the values it made unreadable so that they are read from disk again (VCache.evictUpto: truncated_values_not_served_from_cache, truncation_eviction_keeps_the_rest; tied by C07's twin-store probe, not by the c09 driver); the repeated reads of the sandwich "
       "sequences are compared with the model run through the cached bytes (c09 rvc). "
       "Structure-aware alterations: committed records of BOTH header versions (version 0 = legacy digest TxEntryDigest_v1_1) are re-serialised with one grammar element "
       "(kv-metadata attribute sets incl. non-canonical encodings, key bytes, whole entries, tx metadata, header version) inserted / removed / replaced, every length and count field consistent, "
       "no hash recomputed, the record shrinking or growing over what follows; the harness chooses the committed content so that for every other tx the Alh ends with the byte that follows the record, "
       "so that one-byte insertions stay strictly inside the committed extent. Oracle compares kv metadata attribute by attribute and the ground truth with what was handed to Set/Commit. "
       "Lean (Tx/EntryDigest.lean): the digest functions with their refusals (v1_1 refuses metadata, v1_2 covers it, TxHeader.TxEntryDigest dispatch); legacy_digest_accepts_iff_no_attribute, "
       "digest_binds_entry / eh_binds_entries (equal digest / equal Eh => equal kv metadata, key, value hash of every entry, or a collision), parse_eh_checked, "
       "legacy_metadata_insertion_rejected (a version-0 record re-serialised with any non-empty kv metadata in any entry is answered ErrMetadataUnsupported); the REAL digest function of the altered "
       "header version is evaluated on the altered entries and compared with the model (c09 dg).",
  note=TB + " Modelled rather than verified: the appendable layer (chunk files, compression, caches) is abstracted to logical byte logs (compressed value logs are exercised by the oracle only, not by the model); "
       "the tx-log cache (filled on commit only, so empty in every probe), the indexer and DualProof are exercised by the oracle only; the value cache is modelled without capacity/eviction (theorems hold for every content); 'partial' = the full property is false for the current code: the known finding signatures of known_findings.json (vLen=0, ExportTx hang / truncated export, compressed-log allocation) incl. the documented limit K2.",
  technique="Lean 4 proof (parser inversion + collision-explicit hash-chain injectivity) + differential correspondence on systematically corrupted real store directories",
  design="7/C09"),
 "C16": dict(
  text="Go slice semantics are modelled explicitly (outcome = value | error class | PANIC, plus an allocation observable) and the binary decoders of "
       "embedded/store (TxMetadata.ReadFrom and attribute deserialisers, KVMetadata.unsafeReadFrom, TxHeader.ReadFrom, valueRefFrom, the framing part of "
       "ReplicateTx), embedded/appendable (Metadata.ReadFrom/readField over bufio, as repaired: io.ReadFull + io.ReadAll(io.LimitReader)) and embedded/sql (DecodeValueLength/DecodeValue) are transliterated "
       "statement by statement. Lean theorems for EVERY byte string: never-panics for the code as it stands - every modelled decoder (KVMetadata, SQL value decoders, attribute "
       "deserialisers and, since the repairs of extraAttribute.deserialize / TxHeader.ReadFrom / ReplicateTx / appendable.Metadata.ReadFrom+readField in /repo, TxMetadata.ReadFrom, "
       "TxHeader.ReadFrom, valueRefFrom, the ReplicateTx framing and appendable.Metadata.ReadFrom: the former panic witnesses are restated as rejected inputs together with "
       "*_guard_needed / *_guard_necessary theorems - the model without the guard panics on exactly that input, and for appendable metadata the unguarded code differs from the guarded "
       "one ONLY by panicking where the guard returns an error - and each is replayed on the real code); what ReadFrom accepts can be serialised again and accepted headers "
       "carry complete Eh/BlTxID/BlRoot; for every flag set the guarded code never panics (*_fixed_noPanic); allocation bounds from length fields (appendable.Metadata.ReadFrom never "
       "holds more bytes than the input has, whatever lengths and count it declares: the former unboundedness witness ff ff ff ff is now io.ErrUnexpectedEOF with 0 bytes allocated); loop bounds "
       "never reached (termination); ReplicateTx touches the store only after the whole input parsed. Tie: every decoder is called on valid encodings built "
       "by the repo's own encoders/real stores and on a structure-aware mutation stream; outcome class and decoded fields are compared with the model line by line.",
  note=TB + " Modelled rather than verified: the decoders' callers beyond the framing (precommit is a parameter of the ReplicateTx model), json.Unmarshal, "
       "bufio/bytes.Buffer semantics (modelled from their source), cap>len slices (inputs are passed with cap=len). Search-only (no model, labelled search-only "
       "in the evidence): SQL text parser, pgsql frontend messages, pkg/stream receivers/parsers, singleapp.Open header (their 7 panics/allocations found by the search are repaired "
       "in /repo; the signatures stay armed); bounded time is argued by the loop "
       "measure, memory by the allocation observable and a process-wide heap counter with a 48 MiB noise floor. Attribute deserialisers are reached only through "
       "ReadFrom (go:linkname to methods of unexported types breaks Go type identity).",
  technique="Lean 4 proof over a Go-slice DSL (panic as an outcome) + differential correspondence and panic/hang/allocation oracle against the real decoders under recover()",
  design="7/C16"),
 "C17": dict(
  text="Lean refinement theorems from mirror models of singleapp.AppendableFile and multiapp.MultiFileAppendable (uncompressed format, incl. the SIEVE "
       "handle cache) to a growable byte array, for ALL operation sequences (induction over op lists with an invariant relating write buffer, "
       "flushed offset and physical file / chunk files): Append returns the previous size and adds exactly its bytes across buffer flushes and any "
       "number of chunk rotations; SetOffset truncates; Flush/Sync (also a failing fsync with retryable sync)/SwitchToReadOnly/Copy keep the content; "
       "DiscardUpto keeps every byte at or after the offset; ReadAt and close+reopen refine under the exact side conditions ReadSafe/CurSafe and "
       "NoStaleTail/NoStale (theorems *_partial). The negation of the unconditional ReadAt/reopen statements is PROVED by witnesses on the mirror "
       "(readAt_stale_witness, reopen_stale_tail_witness, multi_*_witness) and reproduced on the real code (known findings). The in-memory rewind is "
       "characterised exactly (setOffset_inMemory_exact: the flushed-but-unsynced prefix held by retryable sync stays in the buffer; reachable by "
       "setOffset_flushedPrefix_witness). Tie: every 4-letter word over {append 1/3, flush, sync, setOffset(size-1/-3)} on a small write buffer plus random op "
       "sequences (35 % in a 'buffer tail' profile: Flush without Sync, appends that stay buffered, rewinds into the buffered tail) on real singleapp/multiapp instances x options vs the Lean driver (offset, n, bytes, error class, size; exact incl. stale "
       "behaviour and cache eviction order) and a model-independent []byte oracle; compressed formats by the oracle only. "
       "Fault paths (after seeded change c17-b): syncFail_refines (a Sync whose fsync fails returns the error and is the identity on the byte log: "
       "Offset/Size/next Append offset unchanged; retryable mode field by field: fileOffset goes back by the flushed count of BEFORE its reset, "
       "fileOffset + len(buffer) = Offset), syncFail_retry_reopen (failed Sync, successful Sync, Close, Open: same bytes, no stale tail), "
       "writeFail_unchanged (a write that fails with n=0), multi_syncFail_refines, multi_writeFail_unchanged, syncFail_rollback_witness. The harness INJECTS "
       "these faults into the real code as ordinary ops of the histories (fsync: /dev/null dup3-ed over the descriptor of the writing file for the one call; "
       "write: RLIMIT_FSIZE), incl. every 3-letter word over {append 1/3, flush, sync, setOffset(size-1), syncfail, flushfail}; short writes and faults inside Append "
       "against the oracle only.",
  note=TB + " Modelled rather than verified: seek/close I/O errors; write errors other than n=0 (short writes and faults inside Append are injected but compared with the oracle only), kernel page cache / "
       "fsync durability, compressed formats (oracle stream only: entries addressed by returned offsets), negative offsets on multiapp, the "
       "prefetch goroutines (off for local files), concurrency (one mutex; a concurrent-reader oracle stream runs but is not modelled). "
       "readAt_after_failed_sync_witness is reproduced on the real code by fault injection (known finding misplaced-bytes-after-failed-sync).",
  technique="Lean 4 refinement proof (invariant + induction over operation lists) + differential correspondence against the real singleapp/multiapp",
  design="7/C17"),
 "C18": dict(
  text="Lean theorems over the REGENERATED permission tables, gRPC descriptors and per-handler gate facts (decide over the whole tables, lifted to "
       "every caller/permission code/credential state): every RPC is classified and gated (a new RPC without entries breaks the build); an allowed "
       "data write implies RW/Admin/SysAdmin on the selected database, an allowed read implies >= R, administration implies admin rights, settings "
       "changes imply Admin on the named database, and every RPC not classified unauthenticatedOk is refused when the server does not accept the "
       "credential. 'System database not writable' is FALSE for the code: witness theorem + exact exception list (maintenanceMethods contains "
       "document writers, ReplicateTx, and SQLQuery gates session transactions). Tie: the real ImmuServer (production interceptor chain, all three "
       "services) in-process over bufconn; every unary RPC x role x selected database x credential scenario (valid token/session, none, closed, "
       "unknown, expired, deactivated, re-permissioned, also after several logins; auth-off and maintenance servers) is compared with the model's "
       "verdict; the oracle (independent of the model) checks that a changed database implies write permission, returned canary data implies read "
       "permission, systemdb only changes through administration RPCs, and refused credentials change and return nothing. "
       "Long-lived streams: the extractor records for every streaming handler whether getDBFromCtx lies on the unconditional path of every iteration "
       "of its receive loop or only before it (Gen/Streams.lean); theorems: every handler that takes more than one request per stream gates every "
       "request, and a further request on an open stream is allowed only for what the server holds about the credential NOW. The harness opens every "
       "streaming RPC of the descriptors, gets one unit served, withdraws access (deactivate, revoke, lower, close/expire session, logout) and "
       "continues the SAME stream: a request answered although a fresh call is refused is an oracle failure.",
  note=TB + " Modelled rather than verified: the caller is described by what the SERVER holds about the credential (cached user data, login counter, "
       "session snapshot) - the gap between that and the truth is covered by the oracle only (it found the outdated-login-list defect); SQL GRANT-level "
       "privileges are an input bit; request validation that precedes the gate is avoided by sending valid requests; remote-client restriction "
       "with auth disabled, mTLS and the pgsql wire server are not covered.",
  technique="Lean 4 finite-table proofs (decide + lifting lemmas) + differential gate matrix against the real server + information-flow/state-change oracle",
  design="7/C18"),
 "C15": dict(
  text="Lean theorems, unbounded in values/lengths: (1) SQL index keys (model of EncodeRawValueAsKey/DecodeValueFromKey, byte layout exact): "
       "key_roundtrip (decode(encode v ++ any tail) = v, consumed = key length, every type incl. NULL), key_width_fixed, key_injective, "
       "key_order (Compare(a,b) = bytes.Compare(key a, key b), all three outcomes, every type, NULLs first) with corollaries per type, "
       "float_total_order (no exclusions: keys realise the IEEE total order), null_first, composite_lex (concatenated column keys order like rows; "
       "per-column keys are prefix-free) and composite_roundtrip; the exact excluded points are proved as witnesses of the negation: "
       "negzero_encodes_differently, nan_order_violated, nan_compare_irreflexive, timestamp_order_violated_outside_nano_range. "
       "(2) row values (EncodeRawValue/decodeValue): value_roundtrip (timestamps to microseconds), witness nullable_empty_varchar/blob_decodes_null. "
       "(3) store: txmd_roundtrip, kvmd_roundtrip, txheader_roundtrip (v0/v1, any metadata), txmd_readFrom_no_panic, txheader_readFrom_no_panic, "
       "txmd_readable_is_serializable (what ReadFrom accepts is within the API limits and round-trips; the former panic witness is repaired in /repo). "
       "(4) exported transactions (ExportTx writer / parsing part of ReplicateTx, Tx/Export.lean): export_roundtrip, export_entries_roundtrip "
       "(every entry list, each entry with its own optional KV metadata, any tail), export_entry_frames_independent, export_entries_preserved, "
       "export_injective, witness export_empty_metadata_reads_back_absent. "
       "Tie: the real functions are called on boundary-biased values, pairs, rows and mutated encodings; every call is replayed on the Lean driver "
       "and compared byte for byte (encodings, decoded values, Compare results, error classes, panics); an independent oracle checks "
       "decode(encode v) = v, Go Compare = bytes.Compare of the Go keys, equal values => equal keys, row order = composite key order, "
       "plus two end-to-end SQL probes. Export part: real stores (header v0/v1, embedded values / value logs / truncated value logs) with "
       "transactions of 1..MaxTxEntries entries whose entries draw metadata (none, empty, deleted, expirable, non-indexable, combinations) and "
       "value size independently; ExportTx bytes are parsed by the harness's own frame parser and compared with the committed inputs (header, key, "
       "metadata bytes exactly, value or digest), replicated into an empty replica (same Alh, entries, values, re-export) and compared byte for byte "
       "with the Lean exportTx / parseExported (ops xp.enc / xp.dec).",
  note=TB + " Modelled rather than verified: Go values are represented as byte lists / Int / IEEE bit patterns / (sec,nsec) instants; float64 "
       "comparison of non-NaN values is taken to be signed-magnitude comparison of the bit patterns (confirmed on every generated pair); "
       "mayApplyImplicitConversion is the identity on the modelled domain (raw Go type = column type), JSON values, documents, protocol "
       "conversions are not modelled; of ExportTx the framing is modelled (reading the values from the value logs, the 'partially truncated' exit and "
       "skipIntegrityCheck - which exports Eh = 0 - are observed by the harness only); int overflow of maxLen >= 2^62 in DecodeValueFromKey is outside the model; "
       "sql.MaxKeyLen is the extracted default (1024). Known findings (12 signatures) are genuine defects of /repo, see known_findings.json.",
  technique="Lean 4 proof (lexicographic-order lemmas, bit-level arithmetic by omega, list induction) + differential correspondence against embedded/sql and embedded/store codecs",
  design="7/C15"),
 "C01": dict(
  text="Lean theorems about models that mirror store/verification.go branch by branch, over an arbitrary hash (conclusions Good ∨ explicit collision of H): "
       "linear proofs are exact; the accumulated hash commits to the whole past; an accepted DualProof binds the target's tree leaf at the trusted position to the "
       "trusted state (closes the forged-last-leaf attack found and repaired in 991a435), extends the trusted tree, links the states linearly; fork consistency between "
       "any two well-formed histories for any binary-linking lag; DualProofV2 binding; no altered entry verifies (entry digest injectivity + htree membership soundness). "
       "Tie: byte-exact Alh/innerHash/entry digests and verdict-exact verifiers on real stores (honest + mutated proofs + attack templates built with scratch hash trees); "
       "oracle = the harness's own record of the history. SQL side (added for seeded change c01-e): pkg/client VerifyRow (decodeRow + verifyRowAgainst + proof flow) is modelled; an accepted "
       "VerifyRow means the presented row equals the decoded proven row column by column, a NULL claim only for a column the proven row has no value for (client_verifyRow_* theorems + the "
       "early-NULL-shortcut witness); tie `vrow`: the real client over bufconn on tables of every column type with tampered rows and tampered VerifiableSQLEntry responses; oracle: success "
       "iff the presented row is what the harness committed, trusted state advances only on success.",
  note=TB + " Modelled rather than verified: ECDSA state signature (uninterpreted, not covered), protobuf conversion, the primary-key encoding inside VerifyRow (input of the model; C15), JSON columns, "
       "prover-side completeness of DualProof generation is established by correspondence + the C08 completeness theorems, not yet by a store-level theorem. "
       "Known: the catalog part of VerifiableSQLEntry (column ids/types/pk ids) is not covered by any proof (known findings catalog-metadata-unauthenticated).",
  technique="Lean 4 proof (collision-explicit soundness of the verifier models) + differential correspondence on real stores with mutation/attack streams",
  design="7/C01"),
 "C08": dict(
  text="Lean theorems over an arbitrary hash (no injectivity assumed; conclusions are Good ∨ explicit collision): inclusion and last-inclusion "
       "verifier soundness against the RFC-6962 reference tree for every size/position/adversarial proof, guard theorems, plus (as they land) root "
       "equality, completeness and consistency soundness. The models mirror ahtree/htree statement by statement and are tied to /repo by byte-exact "
       "correspondence of roots, proofs and verifier verdicts (real + mutated proofs) and by an independent reference Merkle tree oracle. "
       "Histories include FAILING operations: the ahtree runs on its real multiapp files behind a fault-injecting wrapper (one Sync/Flush/Append/SetOffset/ReadAt/Size "
       "call of the payload, digest or commit log fails once inside Append/ResetSize/Sync/DataAt/RootAt/proofs; sync thresholds 1..4; deterministic sweep over the fault "
       "points of Append + random lives); oracle: an operation that returned an error leaves Size/Root/RootAt/DataAt/proofs equal to the reference tree over the "
       "surviving payloads, later appends get the next index, Close/Open preserves it. Lean: aht_history_with_failures / aht_history_roots / ahtfile_history_roots "
       "(failed steps are the identity of the tree model; any interleaving yields the reference tree of the survivors).",
  note=TB + " Modelled rather than verified: file layout, caches, commit-log durability of ahtree (abstracted to logical logs + an explicit 'persisted' copy); "
       "that a failed Append/ResetSize/Sync is the identity on the model state is read off the Go error paths and tied by the driver ops aht.appendfail/resetfail/syncfail/readfail.",
  technique="Lean 4 proof (induction over the reference tree) + differential correspondence against the real ahtree/htree",
  design="7/C08"),
}
NA_REASON = "check not built yet in this round (model/theorems/correspondence pending); not claimed"

man = {
 "version": 1,
 "setup_cmd": "./setup.sh",
 "hooks": {"guard": "verif",
           "enable": "harness built with `go build -tags verif` in /verif/harness (go.mod: replace github.com/codenotary/immudb => /repo)",
           "baseline_off_cmd": "cd /repo && for m in $(cat /w/out/gomods.txt); do MF=$(cd /repo/$m && . /w/out/goenv.sh && gomodflag); (cd /repo/$m && go test $MF -json -vet=off -count=1 -timeout 25m ./...); done",
           "source_commits": [], "add_only": True},
 "engines": [
  {"name": "lean-model", "path": "lean/", "serves_properties": sorted(CHECKS), "kind_free_text": "Lean 4 models + theorems (lake project; core-only driver executable)"},
  {"name": "vh", "path": "harness/", "serves_properties": sorted(CHECKS), "kind_free_text": "Go harness: real code in-process vs Lean driver (line protocol) + model-independent property oracles"},
  {"name": "extract", "path": "extract/", "serves_properties": sorted(CHECKS), "kind_free_text": "go/parser fact extractor regenerating lean/ImmuModel/Gen/*.lean on every run"}],
 "checks": [],
 "notes": "./check <id> quick|thorough [--replay file]; findings in known_findings.json; design in DESIGN.md",
 "not_applicable": [],
}
for p in props:
    i = p["id"]
    if i in CHECKS:
        c = CHECKS[i]
        man["checks"].append({
            "property_id": i,
            "quick_cmd": f"./check {i} quick",
            "thorough_cmd": f"./check {i} thorough",
            "evidence_file": f"/verif/evidence/{i}.json",
            "replay_cmd_template": f"./check {i} quick --replay {{path}}",
            "engine": "lean-model+vh",
            "level_claimed": {"category": "proof", "text": c["text"], "design_ref": c["design"]},
            "level_note": c["note"].replace("{id}", i),
            "technique": c["technique"],
        })
    else:
        man["not_applicable"].append({"property_id": i, "reason": NA_REASON})
json.dump(man, open(os.path.join(V, "MANIFEST.json"), "w"), indent=1, ensure_ascii=False)
print("checks:", [c["property_id"] for c in man["checks"]])
