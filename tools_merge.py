#!/usr/bin/env python3
"""tools_merge.py <agent-verif-dir> <P1,P2,…> <file> [<file>…]
Copies the listed files from the agent copy, and for each property Pi: replaces the '### Pi — as built' section of DESIGN.md
and the Pi entry of mkmanifest.py by the agent's, and synchronises known_findings.json for Pi (known entries of Pi := agent's;
'fixed' lines of the agent that are new are appended; a literal <commit> is resolved by matching the commit subject quoted in the
line against `git -C /repo log`)."""
import sys, os, re, json, shutil, subprocess
A=sys.argv[1].rstrip('/'); props=sys.argv[2].split(','); files=sys.argv[3:]
V='/verif'
BASE=os.environ.get('MERGE_BASE')
for f in files:
    src=os.path.join(A,f); dst=os.path.join(V,f)
    if not os.path.exists(src): print('MISSING',f); continue
    os.makedirs(os.path.dirname(dst),exist_ok=True)
    if os.path.isdir(src):
        shutil.copytree(src,dst,dirs_exist_ok=True)
        print('copied',f); continue
    base=None
    if BASE and os.path.exists(dst):
        r=subprocess.run(['git','-C',V,'show',BASE+':'+f],capture_output=True)
        if r.returncode==0: base=r.stdout
    if base is not None and open(dst,'rb').read()!=base and open(src,'rb').read()!=base:
        # both sides changed since the base: 3-way merge
        bp='/tmp/_merge_base'; open(bp,'wb').write(base)
        r=subprocess.run(['git','merge-file','-p',dst,bp,src],capture_output=True)
        open(dst,'wb').write(r.stdout)
        print('merged3',f,'CONFLICTS=%d'%r.returncode if r.returncode else '')
    elif base is not None and open(src,'rb').read()==base:
        print('unchanged-by-agent',f)
    else:
        shutil.copy2(src,dst); print('copied',f)
def section(s,pid):
    i=s.find('### %s — as built'%pid)
    if i<0: return None,None
    # the section ends at the next as-built heading OR at the next '#'/'##' heading (C15's section sits before '# AS BUILT')
    m=re.search(r'\n(### C\d\d — as built|# |## )', s[i+10:]); j=i+10+m.start() if m else len(s)
    return i,j
ad=open(A+'/DESIGN.md').read(); vd=open(V+'/DESIGN.md').read()
am=open(A+'/mkmanifest.py').read(); vm=open(V+'/mkmanifest.py').read()
ak=json.load(open(A+'/known_findings.json')); vk=json.load(open(V+'/known_findings.json'))
log=subprocess.run(['git','-C','/repo','log','--format=%h %s','-60'],capture_output=True,text=True).stdout.strip().split('\n')
for pid in props:
    ai,aj=section(ad,pid); vi,vj=section(vd,pid)
    if ai is not None:
        if vi is not None: vd=vd[:vi]+ad[ai:aj].rstrip()+'\n'+vd[vj:]
        else: vd=vd.rstrip()+'\n\n'+ad[ai:aj].rstrip()+'\n'
        print('design',pid)
    pat=r'^ "%s": dict\((?:.|\n)*?\n  design="[^"]*"\),\n'%pid
    ma=re.search(pat,am,re.M); mv=re.search(pat,vm,re.M)
    if ma:
        vm=vm.replace(mv.group(0),ma.group(0)) if mv else vm.replace('CHECKS = {\n','CHECKS = {\n'+ma.group(0),1)
        print('manifest',pid)
    before={k['signature'] for k in vk['known'] if k['property']==pid}
    keep=[]
    if BASE:
        bk=json.loads(subprocess.run(['git','-C',V,'show',BASE+':known_findings.json'],capture_output=True,text=True).stdout)
        bs={k['signature'] for k in bk['known'] if k['property']==pid}; asg={k['signature'] for k in ak['known'] if k['property']==pid}
        keep=[k for k in vk['known'] if k['property']==pid and k['signature'] not in bs and k['signature'] not in asg]  # added in /verif since the base
    vk['known']=[k for k in vk['known'] if k['property']!=pid]+[k for k in ak['known'] if k['property']==pid]+keep
    after={k['signature'] for k in vk['known'] if k['property']==pid}
    print('known',pid,'removed',sorted(before-after),'added',sorted(after-before))
    for line in ak['fixed']:
        if ('property=%s '%pid) in line and line not in vk['fixed']:
            if '<commit>' in line:
                h=None
                for l in log:
                    hh,subj=l.split(' ',1)
                    if subj[:40] in line or subj.replace('fix: ','')[:40] in line: h=hh;break
                if h is None: print('  UNRESOLVED <commit>:',line[:140])
                else: line=line.replace('<commit>',h)
            if line not in vk['fixed']: vk['fixed'].append(line); print('  fixed+',line[:110])
open(V+'/DESIGN.md','w').write(vd); open(V+'/mkmanifest.py','w').write(vm)
json.dump(vk,open(V+'/known_findings.json','w'),indent=1,ensure_ascii=False)
