#!/bin/sh
# usage: tools_intake.sh <id> <Cxx>  — takes /tmp/mut/m-<id>/_mutant into seeded/<id>, confirms the demo both ways, runs the check (tools_mt.sh)
ID=$1; P=$2; W=/tmp/mut/m-$ID
mkdir -p /verif/seeded/$ID && cp $W/_mutant/patch.diff $W/_mutant/meta.json /verif/seeded/$ID/ && cp $W/_mutant/*.go /verif/seeded/$ID/ 2>/dev/null
PKG=$(python3 -c "import json;print(json.load(open('/verif/seeded/$ID/meta.json'))['demo_pkg_dir'])"); TN=$(python3 -c "import json;print(json.load(open('/verif/seeded/$ID/meta.json'))['demo_test_name'])")
git -C $W checkout -q -- . ; git -C $W clean -fdq -e _mutant; git -C $W checkout -q --detach main
/verif/seeded/verify_mutant.sh $W /verif/seeded/$ID $PKG $TN 2>&1 | tail -2
/verif/tools_mt.sh $ID $P ${3:-1}
