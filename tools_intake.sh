#!/bin/sh
# usage: tools_intake.sh <id> <Cxx> [seed] — takes /tmp/mut/m-<id>/_mutant into seeded/<id>, confirms the demo both ways, runs the check (tools_mt.sh)
ID=$1; P=$2; W=/tmp/mut/m-$ID
mkdir -p /verif/seeded/$ID && cp $W/_mutant/patch.diff $W/_mutant/meta.json /verif/seeded/$ID/ && cp $W/_mutant/*.go /verif/seeded/$ID/ 2>/dev/null
PKG=$(python3 -c "import json;print(json.load(open('/verif/seeded/$ID/meta.json'))['demo_pkg_dir'])"); TN=$(python3 -c "import json;print(json.load(open('/verif/seeded/$ID/meta.json'))['demo_test_name'])")
git -C $W checkout -q -- . ; git -C $W clean -fdq -e _mutant; git -C $W checkout -q --detach main
export GOFLAGS=-mod=mod GOPROXY=off
cd $W && git apply /verif/seeded/$ID/patch.diff || { echo "$ID: patch does not apply"; exit 2; }
cp /verif/seeded/$ID/demo_test.go $PKG/zz_demo_test.go
go test -count=1 -vet=off -run "$TN" "./$PKG/" > /tmp/vm_$ID.with.log 2>&1; A=$?
git apply -R /verif/seeded/$ID/patch.diff
go test -count=1 -vet=off -run "$TN" "./$PKG/" > /tmp/vm_$ID.without.log 2>&1; B=$?
rm -f $PKG/zz_demo_test.go
if [ $A -ne 0 ] && [ $B -eq 0 ]; then echo "$ID demo CONFIRMED (with rc=$A, without rc=$B)"; else echo "$ID demo NOT-CONFIRMED (with rc=$A, without rc=$B)"; fi
cd /verif && /verif/tools_mt.sh $ID $P ${3:-1}
