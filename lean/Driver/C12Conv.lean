import Driver.Util
import Driver.C15
import ImmuModel.Sql.Conv
/-!
C12 — value conversions (`ImmuModel/Sql/Conv.lean`): for a TIMESTAMP written as text denoting the instant
`(sec, nsec)` the key the statement probes and the key of the entry the indexer derives from the stored row.
`conv ts <sec> <nsec>` → `<hex probe key> <hex indexer key>`
-/
namespace Driver.C12Conv
open ImmuModel ImmuModel.Sql ImmuModel.Sql.Conv

def showKey : Except Err (Bytes × Nat) → String
  | .ok (b, _) => Bytes.toHex b
  | .error e => Driver.C15.errStr e

def step : List String → String
  | ["ts", a, b] =>
    match a.toInt?, b.toNat? with
    | some sec, some nsec =>
      let v := strToTs sec nsec
      showKey (probeKey v .timestamp 8) ++ " " ++ showKey (indexerKey v .timestamp 0 8)
    | _, _ => "parse-error"
  | _ => "unknown-op"

end Driver.C12Conv
