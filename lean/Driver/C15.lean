import Driver.Util
import ImmuModel.Sql.KeyEnc
import ImmuModel.Sql.ValueCodec
import ImmuModel.Tx.Metadata
import ImmuModel.Tx.HeaderCodec
import ImmuModel.Tx.Export
namespace Driver.C15
open ImmuModel ImmuModel.GoInt ImmuModel.Sql ImmuModel.Tx

structure St where
  dummy : Unit := ()

def parseTy : String → Option SqlType
  | "varchar" => some .varchar
  | "integer" => some .integer
  | "boolean" => some .boolean
  | "blob" => some .blob
  | "uuid" => some .uuid
  | "timestamp" => some .timestamp
  | "float64" => some .float64
  | "json" => some .json
  | _ => none

def hexOpt (s : String) : Option Bytes :=
  if s.isEmpty then some [] else Bytes.ofHex s

/-- value tokens: N | s:hex | i:dec | b:0/1 | x:hex | u:hex | t:sec:nsec | f:hex16 -/
def parseVal (s : String) : Option Val :=
  match s.splitOn ":" with
  | ["N"] => some .null
  | ["s", h] => (hexOpt h).map .str
  | ["i", d] => d.toInt?.map .int
  | ["b", "0"] => some (.bool false)
  | ["b", "1"] => some (.bool true)
  | ["x", h] => (hexOpt h).map .blob
  | ["u", h] => (hexOpt h).map .uuid
  | ["t", a, b] => match a.toInt?, b.toNat? with
    | some a, some b => some (.ts a b)
    | _, _ => none
  | ["f", h] => (Bytes.ofHex h).map (fun b => .float (beVal b))
  | _ => none

def fmtVal : Val → String
  | .null => "N"
  | .str s => "s:" ++ Bytes.toHex s
  | .int i => "i:" ++ toString i
  | .bool b => if b then "b:1" else "b:0"
  | .blob s => "x:" ++ Bytes.toHex s
  | .uuid u => "u:" ++ Bytes.toHex u
  | .ts a b => "t:" ++ toString a ++ ":" ++ toString b
  | .float bits => "f:" ++ Bytes.toHex (be64 bits)

def errStr : Err → String
  | .invalidValue => "err:invalid"
  | .maxKeyLenExceeded => "err:maxkeylen"
  | .maxLenExceeded => "err:maxlen"
  | .corrupted => "err:corrupted"
  | .notComparable => "err:notcomparable"
  | .outOfModel => "err:outofmodel"

def faultStr : Fault → String
  | .corrupted => "err:corrupted"
  | .illegal => "err:illegal"
  | .newerVersion => "err:newer"
  | .mdUnsupported => "err:mdunsupported"
  | .unsupportedVersion => "err:version"
  | .panic => "panic"

/-- parse k groups of (ty maxLen [val]) -/
def parseCols (withVal : Bool) : Nat → List String → Option (List (Col × Val) × List String)
  | 0, rest => some ([], rest)
  | k + 1, ty :: ml :: rest =>
    match parseTy ty, ml.toInt? with
    | some ty, some ml =>
      if withVal then
        match rest with
        | v :: rest' =>
          match parseVal v, parseCols withVal k rest' with
          | some v, some (cs, r) => some ((⟨ty, ml⟩, v) :: cs, r)
          | _, _ => none
        | [] => none
      else
        match parseCols withVal k rest with
        | some (cs, r) => some ((⟨ty, ml⟩, Val.null) :: cs, r)
        | none => none
    | _, _ => none
  | _, _ => none

def fmtTxMd (md : TxMd) : String :=
  (match md.trunc with | none => "-" | some t => toString t) ++ " " ++
  (match md.extra with | none => "none" | some e => Bytes.toHexTok e)

def parseTxMd (t e : String) : Option TxMd :=
  let tr : Option (Option Nat) := if t == "-" then some none else t.toNat?.map some
  let ex : Option (Option Bytes) := if e == "none" then some none else (Bytes.ofHex e).map some
  match tr, ex with
  | some tr, some ex => some { trunc := tr, extra := ex }
  | _, _ => none

def b01 (b : Bool) : String := if b then "1" else "0"

def fmtHdr (h : TxHdr) : String :=
  s!"{h.id} {h.ts} {h.blTxID} {Bytes.toHexTok h.blRoot} {Bytes.toHexTok h.prevAlh} {h.version} " ++
  (match h.md with | none => "nil" | some md => "md " ++ fmtTxMd md) ++
  s!" {h.nentries} {Bytes.toHexTok h.eh}"

/-- kv-metadata token of an exported entry: `-` = no metadata (`e.md == nil`), else `d:x:ni` with
`d`,`ni` ∈ {0,1} and `x` = `-` or the unix seconds of `expiresAt` (`0:-:0` = non-nil, no attribute). -/
def parseKvmdTok (s : String) : Option (Option KVMd) :=
  if s == "-" then some none
  else match s.splitOn ":" with
    | [d, x, ni] =>
      let ex : Option (Option Int) := if x == "-" then some none else x.toInt?.map some
      ex.map (fun ex => some { deleted := d == "1", expiresAt := ex, nonIndexable := ni == "1" })
    | _ => none

def fmtKvmdTok : Option KVMd → String
  | none => "-"
  | some md => s!"{b01 md.deleted}:" ++ (match md.expiresAt with | none => "-" | some t => toString t) ++ s!":{b01 md.nonIndexable}"

/-- `k` groups of `key kvmd payload`. -/
def parsePEntries : Nat → List String → Option (List PEntry × List String)
  | 0, rest => some ([], rest)
  | k + 1, key :: md :: pl :: rest =>
    match Bytes.ofHex key, parseKvmdTok md, Bytes.ofHex pl, parsePEntries k rest with
    | some key, some md, some pl, some (es, r) => some ({ key := key, md := md, payload := pl } :: es, r)
    | _, _, _, _ => none
  | _, _ => none

def fmtPEntry (e : PEntry) : String :=
  s!"{Bytes.toHexTok e.key} {fmtKvmdTok e.md} {Bytes.toHexTok e.payload}"

def xerrStr : XErr → String
  | .illegal => "err:illegal"
  | .corrupted => "err:corrupted"
  | .newerVersion => "err:newer"
  | .illegalTruncation => "err:illegaltruncation"
  | .mdUnsupported => "err:mdunsupported"
  | .panic => "panic"
  | _ => "err:other"

def step (s : St) : List String → St × String
  | ["kenc", ty, ml, v] =>
    match parseTy ty, ml.toInt?, parseVal v with
    | some ty, some ml, some v =>
      (s, match encodeKey v ty ml with
        | .ok (e, n) => s!"ok {Bytes.toHexTok e} {n}"
        | .error e => errStr e)
    | _, _, _ => (s, "bad-op")
  | ["kdec", ty, ml, h] =>
    match parseTy ty, ml.toInt?, Bytes.ofHex h with
    | some ty, some ml, some b =>
      (s, match decodeKey b ty ml with
        | .ok (v, n) => s!"ok {fmtVal v} {n}"
        | .error e => errStr e)
    | _, _, _ => (s, "bad-op")
  | ["cmp", a, b] =>
    match parseVal a, parseVal b with
    | some a, some b => (s, match sqlCompare a b with | .ok c => toString c | .error e => errStr e)
    | _, _ => (s, "bad-op")
  | ["bcmp", a, b] =>
    match Bytes.ofHex a, Bytes.ofHex b with
    | some a, some b => (s, toString (bytesCompare a b))
    | _, _ => (s, "bad-op")
  | "tenc" :: k :: rest =>
    match k.toNat? with
    | none => (s, "bad-op")
    | some k =>
      match parseCols true k rest with
      | some (cvs, []) =>
        (s, match encodeTuple (cvs.map (·.1)) (cvs.map (·.2)) with
          | .ok e => s!"ok {Bytes.toHexTok e}"
          | .error e => errStr e)
      | _ => (s, "bad-op")
  | "tdec" :: k :: rest =>
    match k.toNat? with
    | none => (s, "bad-op")
    | some k =>
      match parseCols false k rest with
      | some (cvs, [h]) =>
        match Bytes.ofHex h with
        | none => (s, "bad-op")
        | some b =>
          (s, match decodeTuple (cvs.map (·.1)) b with
            | .ok vs => "ok " ++ ",".intercalate (vs.map fmtVal)
            | .error e => errStr e)
      | _ => (s, "bad-op")
  | "tcmp" :: k :: rest =>
    match k.toNat? with
    | none => (s, "bad-op")
    | some k =>
      match (rest.take k).mapM parseVal, (rest.drop k).mapM parseVal with
      | some as, some bs =>
        (s, match tupleCompare as bs with | .ok c => toString c | .error e => errStr e)
      | _, _ => (s, "bad-op")
  | ["venc", ty, ml, nl, v] =>
    match parseTy ty, ml.toInt?, parseVal v with
    | some ty, some ml, some v =>
      (s, match encodeValue v ty ml (nl == "1") with
        | .ok e => s!"ok {Bytes.toHexTok e}"
        | .error e => errStr e)
    | _, _, _ => (s, "bad-op")
  | ["vdec", ty, nl, h] =>
    match parseTy ty, Bytes.ofHex h with
    | some ty, some b =>
      (s, match decodeValue b ty (nl == "1") with
        | .ok (v, n) => s!"ok {fmtVal v} {n}"
        | .error e => errStr e)
    | _, _ => (s, "bad-op")
  | ["txmd.enc", t, e] =>
    match parseTxMd t e with
    | some md => (s, match txmdBytes md with | .ok b => s!"ok {Bytes.toHexTok b}" | .error f => faultStr f)
    | none => (s, "bad-op")
  | ["txmd.dec", h] =>
    match Bytes.ofHex h with
    | some b => (s, match txmdReadFrom b with | .ok md => "ok " ++ fmtTxMd md | .error f => faultStr f)
    | none => (s, "bad-op")
  | ["kvmd.enc", d, x, ni] =>
    let ex : Option (Option Int) := if x == "-" then some none else x.toInt?.map some
    match ex with
    | some ex => (s, "ok " ++ Bytes.toHexTok (kvmdBytes { deleted := d == "1", expiresAt := ex, nonIndexable := ni == "1" }))
    | none => (s, "bad-op")
  | ["kvmd.dec", h] =>
    match Bytes.ofHex h with
    | some b =>
      (s, match kvmdReadFrom b with
        | .ok md => s!"ok {b01 md.deleted} " ++ (match md.expiresAt with | none => "-" | some t => toString t) ++ s!" {b01 md.nonIndexable}"
        | .error f => faultStr f)
    | none => (s, "bad-op")
  | ["hdr.enc", id, ts, bl, blRoot, prevAlh, ver, mdk, mt, me, n, eh] =>
    match id.toNat?, ts.toInt?, bl.toNat?, Bytes.ofHex blRoot, Bytes.ofHex prevAlh, ver.toInt?, n.toInt?, Bytes.ofHex eh with
    | some id, some ts, some bl, some blRoot, some prevAlh, some ver, some n, some eh =>
      let md : Option (Option TxMd) := if mdk == "nil" then some none else (parseTxMd mt me).map some
      match md with
      | some md =>
        let h : TxHdr := { id := id, ts := ts, blTxID := bl, blRoot := blRoot, prevAlh := prevAlh, version := ver, md := md, nentries := n, eh := eh }
        (s, match hdrBytes h with | .ok b => s!"ok {Bytes.toHexTok b}" | .error f => faultStr f)
      | none => (s, "bad-op")
    | _, _, _, _, _, _, _, _ => (s, "bad-op")
  | ["hdr.dec", h] =>
    match Bytes.ofHex h with
    | some b => (s, match hdrReadFrom b with | .ok hd => "ok " ++ fmtHdr hd | .error f => faultStr f)
    | none => (s, "bad-op")
  -- ExportTx framing: header (as for hdr.enc), truncation flag, k entries `key kvmd payload`
  | "xp.enc" :: id :: ts :: bl :: blRoot :: prevAlh :: ver :: mdk :: mt :: me :: n :: eh :: tr :: k :: rest =>
    match id.toNat?, ts.toInt?, bl.toNat?, Bytes.ofHex blRoot, Bytes.ofHex prevAlh, ver.toInt?, n.toInt?, Bytes.ofHex eh with
    | some id, some ts, some bl, some blRoot, some prevAlh, some ver, some n, some eh =>
      let md : Option (Option TxMd) := if mdk == "nil" then some none else (parseTxMd mt me).map some
      match md, k.toNat? with
      | some md, some k =>
        match parsePEntries k rest with
        | some (es, []) =>
          let h : TxHdr := { id := id, ts := ts, blTxID := bl, blRoot := blRoot, prevAlh := prevAlh, version := ver, md := md, nentries := n, eh := eh }
          (s, match exportTx { hdr := h, entries := es, truncated := tr == "1" } with
            | .ok b => s!"ok {Bytes.toHexTok b}"
            | .error f => faultStr f)
        | _ => (s, "bad-op")
      | _, _ => (s, "bad-op")
    | _, _, _, _, _, _, _, _ => (s, "bad-op")
  -- the parsing part of ReplicateTx
  | ["xp.dec", h] =>
    match Bytes.ofHex h with
    | some b =>
      (s, match parseExported b with
        | .ok p => s!"ok {fmtHdr p.hdr} {b01 p.truncated} {p.entries.length}" ++ String.join (p.entries.map (fun e => " " ++ fmtPEntry e))
        | .error e => xerrStr e)
    | none => (s, "bad-op")
  | _ => (s, "bad-op")

end Driver.C15
