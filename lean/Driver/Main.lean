import Driver.C08
import Driver.C06
import Driver.C05
import Driver.C11
import Driver.SqlTx
import Driver.SqlMv
import Driver.C13Cache
import Driver.C12Ddl
import Driver.C12Conv
import Driver.C14
import Driver.C07
import Driver.C02
import Driver.C19
import Driver.C04
import Driver.C03
import Driver.C10
import Driver.C09
import Driver.C16
import Driver.C17
import Driver.C18
import Driver.C15
import Driver.C01
import Driver.C01Sql
open ImmuModel

namespace Driver

structure State where
  c08 : C08.St := {}
  c06 : C06.St := {}
  c05 : C05.St := {}
  c13 : SqlTx.St := {}
  c13c : C13Cache.St := {}
  c12 : SqlTx.St := {}
  c12mv : SqlMv.St := {}
  c12ddl : C12Ddl.St := {}
  c11 : C11.St := {}
  c14 : C14.St := {}
  c07 : C07.St := {}
  c02 : C02.St := {}
  c19 : C19.St := {}
  c04 : C04.St := {}
  c03 : C03.St := {}
  c10 : C10.St := {}
  c16 : C16.St := {}
  c17 : C17.St := {}
  c18 : C18.St := {}
  c15 : C15.St := {}
  c01 : C01.St := {}

def step (st : State) (line : String) : State × String :=
  match toks line with
  | "c08" :: rest => let (s, o) := C08.step st.c08 rest; ({ st with c08 := s }, o)
  | "c01" :: "hist.new" :: rest => let (s, o) := C01.stepSt st.c01 ("hist.new" :: rest); ({ st with c01 := s }, o)
  | "c01" :: "hist.add" :: rest => let (s, o) := C01.stepSt st.c01 ("hist.add" :: rest); ({ st with c01 := s }, o)
  | "c01" :: "dproof" :: rest => let (s, o) := C01.stepSt st.c01 ("dproof" :: rest); ({ st with c01 := s }, o)
  | "c01" :: "vrow" :: rest => (st, C01Sql.vrow rest)
  | "c01" :: rest => (st, C01.step rest)
  | "c15" :: rest => let (s, o) := C15.step st.c15 rest; ({ st with c15 := s }, o)
  | "c18" :: rest => let (s, o) := C18.step st.c18 rest; ({ st with c18 := s }, o)
  | "c17" :: rest => let (s, o) := C17.step st.c17 rest; ({ st with c17 := s }, o)
  | "c16" :: rest => let (s, o) := C16.step st.c16 rest; ({ st with c16 := s }, o)
  | "c09" :: rest => (st, C09.step rest)
  | "c10" :: rest => let (s, o) := C10.step st.c10 rest; ({ st with c10 := s }, o)
  | "c03" :: rest => let (s, o) := C03.step st.c03 rest; ({ st with c03 := s }, o)
  | "c04" :: rest => let (s, o) := C04.step st.c04 rest; ({ st with c04 := s }, o)
  | "c19" :: rest => let (s, o) := C19.step st.c19 rest; ({ st with c19 := s }, o)
  | "c02" :: rest => let (s, o) := C02.step st.c02 rest; ({ st with c02 := s }, o)
  | "c07" :: rest => let (s, o) := C07.step st.c07 rest; ({ st with c07 := s }, o)
  | "c14" :: rest => let (s, o) := C14.step st.c14 rest; ({ st with c14 := s }, o)
  | "c11" :: rest => let (s, o) := C11.step st.c11 rest; ({ st with c11 := s }, o)
  | "c12" :: "conv" :: rest => (st, C12Conv.step rest)
  | "c12" :: "ddl" :: rest => let (s, o) := C12Ddl.step st.c12ddl rest; ({ st with c12ddl := s }, o)
  | "c12" :: "mv" :: rest => let (s, o) := SqlMv.step st.c12mv rest; ({ st with c12mv := s }, o)
  | "c12" :: rest => let (s, o) := SqlTx.step' true st.c12 rest; ({ st with c12 := s }, o)
  | "c13c" :: rest => let (s, o) := C13Cache.step st.c13c rest; ({ st with c13c := s }, o)
  | "c13" :: rest => let (s, o) := SqlTx.step' false st.c13 rest; ({ st with c13 := s }, o)
  | "c05" :: rest => let (s, o) := C05.step st.c05 rest; ({ st with c05 := s }, o)
  | "c06" :: rest => let (s, o) := C06.step st.c06 rest; ({ st with c06 := s }, o)
  | ["sha", h] => (st, match Bytes.ofHex h with | some b => Bytes.toHex (Sha256.sum b) | none => "bad-op")
  | _ => (st, "bad-op")

partial def loop (hin hout : IO.FS.Stream) (st : State) : IO Unit := do
  let line ← hin.getLine
  if line.isEmpty then return ()
  let (st', out) := step st line.trimAscii.toString
  hout.putStrLn out
  loop hin hout st'

end Driver

def main : IO Unit := do
  let hin ← IO.getStdin
  let hout ← IO.getStdout
  Driver.loop hin hout {}
  hout.flush
