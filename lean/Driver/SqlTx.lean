import Driver.SqlParse
import ImmuModel.Sql.TxProg
/-! C12 / C13 drivers: schema, statements and transaction operations evaluated by
`ImmuModel.Sql.step` (the mirror of `SQLTx` + `execPreparedStmts`). -/
namespace Driver.SqlTx
open ImmuModel ImmuModel.Sql Driver.SqlParse

structure St where
  sc : Schema := { cols := [], pk := [], idx := [], check := none }
  sess : Sess := {}

/-- `ty:keylen:notnull:autoinc` -/
def parseColSpec (s : String) : Option ColSpec :=
  match s.splitOn ":" with
  | [ty, ml, nn, ai] => match C15.parseTy ty, ml.toInt? with
    | some ty, some ml => some { col := ⟨ty, ml⟩, notNull := nn == "1", autoInc := ai == "1" }
    | _, _ => none
  | _ => none

def parseColSpecs : Nat → List String → Option (List ColSpec × List String)
  | 0, rest => some ([], rest)
  | n + 1, t :: rest =>
    match parseColSpec t, parseColSpecs n rest with
    | some c, some (cs, r) => some (c :: cs, r)
    | _, _ => none
  | _, _ => none

def parseIdxs : Nat → List String → Option (List (Bool × List Nat) × List String)
  | 0, rest => some ([], rest)
  | n + 1, u :: k :: rest =>
    match k.toNat? with
    | some k =>
      match parseNats k rest with
      | some (cs, r) =>
        match parseIdxs n r with
        | some (more, r') => some ((u == "1", cs) :: more, r')
        | none => none
      | none => none
    | none => none
  | _, _ => none

/-- `<ncols> <colspec>… pk <n> <cols…> idx <k> (<unique> <n> <cols…>)… (check <pred> | nocheck)` -/
def parseSchema (toks : List String) : Option Schema :=
  match toks with
  | n :: rest =>
    match n.toNat? with
    | some n =>
      match parseColSpecs n rest with
      | some (cols, "pk" :: k :: r) =>
        match k.toNat? with
        | some k =>
          match parseNats k r with
          | some (pk, "idx" :: m :: r2) =>
            match m.toNat? with
            | some m =>
              match parseIdxs m r2 with
              | some (idx, ["nocheck"]) => some { cols := cols, pk := pk, idx := idx, check := none }
              | some (idx, "check" :: ptoks) =>
                match parsePred (ptoks.length + 1) ptoks with
                | some (p, []) => some { cols := cols, pk := pk, idx := idx, check := some p }
                | _ => none
              | _ => none
            | none => none
          | _ => none
        | none => none
      | _ => none
    | none => none
  | [] => none

def parseWhere (toks : List String) : Option (Option Pred) :=
  match toks with
  | ["nowhere"] => some none
  | _ => match parsePred (toks.length + 1) toks with
    | some (p, []) => some (some p)
    | _ => none

def parseRows (ncols : Nat) : Nat → List String → Option (List (List Val) × List String)
  | 0, rest => some ([], rest)
  | n + 1, rest =>
    match parseVals ncols rest with
    | some (vs, r) =>
      match parseRows ncols n r with
      | some (more, r') => some (vs :: more, r')
      | none => none
    | none => none

def parseSets : Nat → List String → Option (List SetItem × List String)
  | 0, rest => some ([], rest)
  | n + 1, c :: i :: v :: rest =>
    match c.toNat?, C15.parseVal v, parseSets n rest with
    | some c, some v, some (more, r) => some ({ col := c, incr := i == "1", v := v } :: more, r)
    | _, _, _ => none
  | _, _ => none

def parseStmt (toks : List String) : Option Stmt :=
  match toks with
  | "ins" :: kind :: n :: rest =>
    let k : Option InsKind := match kind with
      | "insert" => some .insert | "upsert" => some .upsert | "insert-ocn" => some .ocn | _ => none
    match k, n.toNat? with
    | some k, some n =>
      match parseNats n rest with
      | some (cols, m :: r) =>
        match m.toNat? with
        | some m =>
          match parseRows n m r with
          | some (rows, []) => some (.ins k cols rows)
          | _ => none
        | none => none
      | _ => none
    | _, _ => none
  | "upd" :: n :: rest =>
    match n.toNat? with
    | some n =>
      match parseSets n rest with
      | some (sets, wt) => (parseWhere wt).map (fun w => .upd sets w)
      | none => none
    | none => none
  | "del" :: wt => (parseWhere wt).map (fun w => .del w)
  | _ => none

def errStr : DmlErr → String
  | .notNull => "err:not-null"
  | .pkNull => "err:pk-null"
  | .pkUpdate => "err:pk-update"
  | .maxLen => "err:max-len"
  | .check => "err:check"
  | .dupKey => "err:dup-key"
  | .invalidValue => "err:invalid-value"
  | .keyNotFound => "err:key-not-found"
  | .eval e => evalErrStr e
  | .noTx => "err:no-ongoing-tx"
  | .noSavepoint => "err:no-savepoint"
  | .outOfModel => "err:out-of-model"

def updatedOf (s : Sess) : Nat :=
  match s.tx with
  | some t => t.db.updated
  | none => 0

/-- `plain` (C12): BEGIN / COMMIT / ROLLBACK answer "ok"; otherwise "ok <n>" -/
def doOp (plain : Bool) (st : St) (op : Op) : St × String :=
  let before := updatedOf st.sess
  let (s', out) := step st.sc st.sess op
  let ans := match out with
    | .error e => errStr e
    | .ok n =>
      match op with
      | .stmt _ => s!"ok {n - before}"
      | .commit => if plain then "ok" else s!"ok {n}"
      | _ => if plain then "ok" else "ok 0"
  ({ st with sess := s' }, ans)

def step' (plain : Bool) (st : St) : List String → St × String
  | "tbl" :: rest =>
    match parseSchema rest with
    | some sc => ({ sc := sc, sess := {} }, "ok")
    | none => (st, "bad-op")
  | "tbl-idx" :: rest =>
    match parseSchema rest with
    | some sc => ({ st with sc := sc }, "ok")
    | none => (st, "bad-op")
  | ["begin"] => doOp plain st .begin
  | ["commit"] => doOp plain st .commit
  | ["rollback"] => doOp plain st .rollback
  | ["savepoint", n] => doOp plain st (.savepoint n)
  | ["rollbackto", n] => doOp plain st (.rollbackTo n)
  | ["release", n] => doOp plain st (.release n)
  | "stmt" :: rest =>
    match parseStmt rest with
    | some s => doOp plain st (.stmt s)
    | none => (st, "bad-op")
  | "auto" :: rest =>
    -- autocommit statement = BEGIN; stmt; COMMIT
    match parseStmt rest with
    | some s =>
      let (st1, a1) := doOp plain st .begin
      if a1.startsWith "err" then (st1, a1)
      else
        let (st2, a2) := doOp plain st1 (.stmt s)
        if a2.startsWith "err" then (st2, a2)
        else
          let (st3, _) := doOp plain st2 .commit
          (st3, a2)
    | none => (st, "bad-op")
  | ["scan"] => (st, "rows " ++ fmtRows st.sess.visible)
  | _ => (st, "bad-op")

end Driver.SqlTx
