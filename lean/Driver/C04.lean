import Driver.Util
import ImmuModel.Index.Indexer
import ImmuModel.Index.Compaction
/-!
Driver for C04.  One model store per driver process (`c04 new` resets it): declared indexes, the
committed log, and one multi-version tree per index.  `c04 index owned <B> [cap]` runs the model of the
indexer loop over the not yet indexed transactions in bulks of `sp.maxBulk B` (one tx for an injective
index, `B` otherwise — what `indexSince` gathers from a backlog).  `c04 quirks <a> <b>` is the harness telling
which variant of the injective branch its start-of-run probes observed: the model has the repaired code only
(`0 0`); any other variant, and `index aliased`, is answered `unsupported-variant` (a mismatch).
`c04 compact <i> <s>`: index `i` was compacted while the indexer went on — `CompactIndex` restarted it from the
dump of the snapshot root at ts `s`.  The model rebuilds that dump (the content of the index as of `s`: every
index re-indexed from scratch over the transactions `≤ s`, one per bulk — `bulk_partition_independent`), applies
`compactRestart` and answers with the ts the dump claims (`dumpTsFile`); the next `c04 index` re-indexes what the
restarted tree lacks.
-/
namespace Driver.C04
open ImmuModel ImmuModel.Index.L

structure IdxSt where
  sp : Spec
  tr : Tree IVal := {}

structure St where
  idxs : Array IdxSt := #[]
  logRev : List Tx := []

def parseMapper (s : String) : Option (Option Mapper) :=
  if s == "none" then some none
  else match s.splitOn ":" with
    | ["pv", p] => (Bytes.ofHex p).map fun p => some (fun k v => p ++ [v.headD 0] ++ k)
    | ["pk", p] => (Bytes.ofHex p).map fun p => some (fun k _ => p ++ k)
    | _ => none

def parseOptNat (s : String) : Option (Option Nat) :=
  if s == "-" then some none else s.toNat?.map some

def parseEntry (s : String) : Option Entry :=
  match s.splitOn ":" with
  | [k, v, h, f, e] => do
    let k ← Bytes.ofHex k
    let v ← Bytes.ofHex v
    let h ← Bytes.ofHex h
    let f ← f.toNat?
    let e ← parseOptNat e
    pure { key := k, value := v, hval := h, md := { deleted := f % 2 == 1, nonIndexable := (f / 2) % 2 == 1, expiresAt := e } }
  | _ => none

def b2n (b : Bool) : Nat := if b then 1 else 0

def fmtMd (md : KVMd) : String :=
  s!"{b2n md.deleted + 2 * b2n md.nonIndexable}" ++ ":" ++ (match md.expiresAt with | none => "-" | some t => toString t)

def fmtRef (r : Ref) : String :=
  s!"{r.tx}:{r.hc}:{r.v.vlen}:{Bytes.toHexTok r.v.hval}:{fmtMd r.v.md}"

def fmtStErr : StErr → String
  | .notFound => "err:notfound"
  | .expired => "err:expired"
  | .illegal => "err:illegal"
  | .noMoreEntries => "err:nomore"
  | .offsetOutOfRange => "err:offset"

def fmtIdxErr : IdxErr → String
  | .badTargetPrefix => "err:badtargetprefix"
  | .readTxEntry => "err:readtxentry"
  | .insert => "err:insert"
  | .panic => "panic"

def fmtList (xs : List String) : String := if xs.isEmpty then "_" else ",".intercalate xs

def mkEnv (s : St) : Env :=
  { srcPrev := fun b sk =>
      match s.idxs.toList.find? (fun d => hasPrefix sk d.sp.tgtPrefix) with
      | none => none
      | some d =>
        match getBetween d.tr.m sk 1 b with
        | .ok (_, t, _) => some t
        | .error _ => none
    readEntry := fun p k =>
      match s.logRev.find? (fun tx => tx.id == p) with
      | none => none
      | some tx => tx.entries.find? (fun e => e.key == k) }

/-- the indexer loop of index `i`: bulks of `sp.maxBulk B` from `ts+1` until the log is exhausted -/
def runIndex (B : Nat) (cap : Option Nat) (i : Nat) : Nat → St → Except IdxErr St
  | 0, s => .ok s
  | fuel + 1, s =>
    match s.idxs[i]? with
    | none => .ok s
    | some d =>
      let pending := (s.logRev.reverse.filter (fun tx => d.tr.ts < tx.id)).take (d.sp.maxBulk B)
      if pending.isEmpty then .ok s
      else
        let env := mkEnv s
        match (match cap with | some c => indexBulkCap c d.sp env d.tr pending | none => indexBulk d.sp env d.tr pending) with
        | .error x => .error x
        | .ok tr => runIndex B cap i fuel { s with idxs := s.idxs.set! i { d with tr := tr } }

def runAll (B : Nat) (cap : Option Nat) (s : St) : Except (Nat × IdxErr) St :=
  (List.range s.idxs.size).foldl (fun acc i =>
    match acc with
    | .error x => .error x
    | .ok s =>
      match runIndex B cap i (s.logRev.length + 1) s with
      | .error x => .error (i, x)
      | .ok s' => .ok s') (.ok s)

/-- all indexes as of transaction `upto`: indexed from scratch, one transaction per bulk -/
def stateAt (s : St) (upto : Nat) : Except (Nat × IdxErr) St :=
  runAll 1 none { idxs := s.idxs.map (fun d => { d with tr := {} }),
                  logRev := s.logRev.filter (fun tx => decide (tx.id ≤ upto)) }

def parseBool (s : String) : Option Bool :=
  if s == "1" then some true else if s == "0" then some false else none

def parseFilters (s : String) : Option (List Filter) :=
  s.toList.mapM fun c => if c == 'd' then some Filter.ignoreDeleted else if c == 'e' then some Filter.ignoreExpired else if c == '-' then none else none

def withIdx (s : St) (i : String) (f : IdxSt → String) : String :=
  match i.toNat? with
  | none => "bad-op"
  | some i => match s.idxs[i]? with
    | none => "bad-op"
    | some d => f d

def step (s : St) : List String → St × String
  | ["new"] => ({}, "ok")
  | ["quirks", a, b] =>
    match parseBool a, parseBool b with
    | some a, some b => (s, if a || b then "unsupported-variant" else "ok")
    | _, _ => (s, "bad-op")
  | ["idx", sp, tp, sm, tm, inj] =>
    match Bytes.ofHex sp, Bytes.ofHex tp, parseMapper sm, parseMapper tm, parseBool inj with
    | some sp, some tp, some sm, some tm, some inj =>
      ({ s with idxs := s.idxs.push { sp := { srcPrefix := sp, tgtPrefix := tp, smap := sm, tmap := tm, injective := inj } } },
        toString s.idxs.size)
    | _, _, _, _, _ => (s, "bad-op")
  | "tx" :: id :: es =>
    match id.toNat?, es.mapM parseEntry with
    | some id, some es => ({ s with logRev := { id := id, entries := es } :: s.logRev }, s!"ok {es.length}")
    | _, _ => (s, "bad-op")
  | ["index", mode, b] =>
    match b.toNat? with
    | none => (s, "bad-op")
    | some b =>
      if b = 0 ∨ (mode ≠ "owned" ∧ mode ≠ "aliased") then (s, "bad-op")
      else if mode == "aliased" then (s, "unsupported-variant")
      else match runAll b none s with
        | .error (i, x) => (s, s!"{fmtIdxErr x}@{i}")
        | .ok s' => (s', "ok " ++ fmtList (s'.idxs.toList.map fun d => toString d.tr.ts))
  | ["index", mode, b, cap] =>
    match b.toNat?, cap.toNat? with
    | some b, some cap =>
      if b = 0 ∨ mode ≠ "owned" then (s, "bad-op")
      else match runAll b (some cap) s with
        | .error (i, x) => (s, s!"{fmtIdxErr x}@{i}")
        | .ok s' => (s', "ok " ++ fmtList (s'.idxs.toList.map fun d => toString d.tr.ts))
    | _, _ => (s, "bad-op")
  | ["compact", i, ts] =>
    match i.toNat?, ts.toNat? with
    | some i, some ts =>
      match s.idxs[i]? with
      | none => (s, "bad-op")
      | some d =>
        match stateAt s ts with
        | .error (j, x) => (s, s!"{fmtIdxErr x}@{j}")
        | .ok s1 =>
          match s1.idxs[i]? with
          | none => (s, "bad-op")
          | some dd =>
            if dd.tr.ts ≠ ts then (s, s!"err:no-snapshot-at-ts {dd.tr.ts}")
            else
              ({ s with idxs := s.idxs.set! i { d with tr := compactRestart dd.tr d.tr.ts } },
                s!"ok {dumpTsFile dd.tr.ts d.tr.ts}")
    | _, _ => (s, "bad-op")
  | ["get", i, now, k] =>
    (s, withIdx s i fun d => match now.toNat?, Bytes.ofHex k with
      | some now, some k => (match storeGet d.tr.m now k with | .ok r => fmtRef r | .error e => fmtStErr e)
      | _, _ => "bad-op")
  | ["getb", i, k, a, b] =>
    (s, withIdx s i fun d => match Bytes.ofHex k, a.toNat?, b.toNat? with
      | some k, some a, some b => (match storeGetBetween d.tr.m k a b with | .ok r => fmtRef r | .error e => fmtStErr e)
      | _, _, _ => "bad-op")
  | ["gwp", i, now, p, neq] =>
    (s, withIdx s i fun d => match now.toNat?, Bytes.ofHex p, Bytes.ofHex neq with
      | some now, some p, some neq =>
        (match storeGetWithPrefix d.tr.m now p neq with | .ok (k, r) => Bytes.toHexTok k ++ " " ++ fmtRef r | .error e => fmtStErr e)
      | _, _, _ => "bad-op")
  | ["hist", i, k, off, desc, lim] =>
    (s, withIdx s i fun d => match Bytes.ofHex k, off.toNat?, parseBool desc, lim.toNat? with
      | some k, some off, some desc, some lim =>
        (match storeHistory d.tr.m k off desc lim with
         | .ok (rs, hc) => s!"{hc} " ++ fmtList (rs.map fmtRef)
         | .error e => fmtStErr e)
      | _, _, _, _ => "bad-op")
  | ["shist", i, k, off, desc, lim] =>
    (s, withIdx s i fun d => match Bytes.ofHex k, off.toNat?, parseBool desc, lim.toNat? with
      | some k, some off, some desc, some lim =>
        (match (versions d.tr.m k).snapHistory off desc lim with
         | .ok (rs, hc) => s!"{hc} " ++ fmtList (rs.map fmtRef)
         | .error e => fmtStErr e)
      | _, _, _, _ => "bad-op")
  | ["scan", i, now, seek, endK, pfx, iS, iE, desc, fs, off, hist] =>
    (s, withIdx s i fun d =>
      match now.toNat?, Bytes.ofHex seek, Bytes.ofHex endK, Bytes.ofHex pfx, parseBool iS, parseBool iE, parseBool desc,
            (if fs == "-" then some [] else parseFilters fs), off.toNat?, parseBool hist with
      | some now, some seek, some endK, some pfx, some iS, some iE, some desc, some fs, some off, some hist =>
        let r : Range := { seek := seek, endK := endK, pfx := pfx, inclSeek := iS, inclEnd := iE, desc := desc }
        let out := if hist then storeScanHistory d.tr.m r off else storeScan d.tr.m now r fs off
        fmtList (out.map fun kr => Bytes.toHexTok kr.1 ++ "=" ++ fmtRef kr.2)
      | _, _, _, _, _, _, _, _, _, _ => "bad-op")
  | ["dbhist", i, now, k, off, desc, lim] =>
    (s, withIdx s i fun d => match now.toNat?, Bytes.ofHex k, off.toNat?, parseBool desc, lim.toNat? with
      | some now, some k, some off, some desc, some lim =>
        (match storeHistory d.tr.m k off desc lim with
         | .ok (rs, _) => fmtList (rs.map fun r =>
             if r.v.md.expiredAt now then s!"{r.tx}:{r.hc}:x:x:{fmtMd r.v.md}" else fmtRef r)
         | .error e => fmtStErr e)
      | _, _, _, _, _ => "bad-op")
  | ["getall", i, now, ks] =>
    (s, withIdx s i fun d => match now.toNat?, parseCsv ks with
      | some now, some ks =>
        fmtList (ks.filterMap fun k => match storeGet d.tr.m now k with
          | .ok r => some (Bytes.toHexTok k ++ "=" ++ fmtRef r)
          | .error _ => none)
      | _, _ => "bad-op")
  | ["count", i, now, pfx, fs] =>
    (s, withIdx s i fun d => match now.toNat?, Bytes.ofHex pfx, (if fs == "-" then some [] else parseFilters fs) with
      | some now, some pfx, some fs => toString (storeScan d.tr.m now { pfx := pfx } fs 0).length
      | _, _, _ => "bad-op")
  | ["scan", i, now, seek, endK, pfx, iS, iE, desc, fs, off, hist, lim] =>
    (s, withIdx s i fun d =>
      match now.toNat?, Bytes.ofHex seek, Bytes.ofHex endK, Bytes.ofHex pfx, parseBool iS, parseBool iE, parseBool desc,
            (if fs == "-" then some [] else parseFilters fs), off.toNat?, parseBool hist, lim.toNat? with
      | some now, some seek, some endK, some pfx, some iS, some iE, some desc, some fs, some off, some hist, some lim =>
        let r : Range := { seek := seek, endK := endK, pfx := pfx, inclSeek := iS, inclEnd := iE, desc := desc }
        let out := if hist then storeScanHistory d.tr.m r off else storeScan d.tr.m now r fs off
        let out := if lim = 0 then out else out.take lim
        fmtList (out.map fun kr => Bytes.toHexTok kr.1 ++ "=" ++ fmtRef kr.2)
      | _, _, _, _, _, _, _, _, _, _, _ => "bad-op")
  | ["ts", i] => (s, withIdx s i fun d => toString d.tr.ts)
  | _ => (s, "bad-op")

end Driver.C04
