import Driver.Util
import ImmuModel.Tx.Concrete
import ImmuModel.Store.Replica
import ImmuModel.Store.ReplicaDisk
import ImmuModel.Store.SyncRepl
namespace Driver.C07
open ImmuModel ImmuModel.Tx ImmuModel.Replica ImmuModel.SyncRepl

abbrev RS := RSt Digest
/-- store + disk (`Store/ReplicaDisk.lean`): which tx-log records are fsynced -/
abbrev DS := DSt Digest

structure St where
  stores : List (String × DS) := []
  prims : List (String × Prim) := []

def getS (st : St) (n : String) : Option DS := (st.stores.find? (·.1 == n)).map (·.2)
def putS (st : St) (n : String) (s : DS) : St :=
  { st with stores := (n, s) :: st.stores.filter (·.1 != n) }

/-- an operation of `Store/Replica.lean` that is not wrapped in `ReplicaDisk.lean` (database-level allowance, switching
the external allowance): records only leave the FRONT of the log (commit), the fsynced count follows -/
def DSt.withSt (d : DS) (s : RS) : DS := { d with st := s, fs := d.fs - (d.st.log.length - s.log.length) }
def getP (st : St) (n : String) : Option Prim := (st.prims.find? (·.1 == n)).map (·.2)
def putP (st : St) (n : String) (p : Prim) : St :=
  { st with prims := (n, p) :: st.prims.filter (·.1 != n) }

def errName : XErr → String
  | .illegal => "illegal"
  | .corrupted => "corrupted"
  | .newerVersion => "newer-version"
  | .illegalTruncation => "illegal-truncation"
  | .nullKey => "null-key"
  | .maxKeyLen => "max-key-len"
  | .maxValueLen => "max-value-len"
  | .maxTxEntries => "max-tx-entries"
  | .noEntries => "no-entries"
  | .mdUnsupported => "md-unsupported"
  | .alreadyCommitted => "already-committed"
  | .maxActive => "max-active"
  | .wrongOrder => "wrong-order"
  | .blocked => "blocked"
  | .illegalState => "illegal-state"
  | .bufferConsumed => "buffer-consumed"
  | .bufferFull => "buffer-full"
  | .ahtRange => "aht-range"
  | .notFound => "not-found"
  | .panic => "panic"   -- only behind the parser (`precommit`); `parseExported_never_panics`

def fmtErr (e : XErr) : String := if e == .panic then "panic" else "err:" ++ errName e

def hexD (d : Digest) : String := Bytes.toHex d.val
def b? (s : String) : Option Bool := if s == "1" then some true else if s == "0" then some false else none

def fmtState (s : RS) : String :=
  let (did, dalh) := s.durableAlh shaHs
  s!"{s.committed.length} {hexD (s.committedAlh shaHs)} {did} {hexD dalh} {s.lastPre} {hexD (s.preAlh shaHs)}"

def fmtKvmd : Option KVMd → String
  | none => "-"
  | some md => Bytes.toHexTok (kvmdBytes md)

def fmtParsed (p : Parsed) : String :=
  let es := p.entries.map (fun e => s!"{Bytes.toHexTok e.key}/{fmtKvmd e.md}/{e.payload.length}")
  let hb := match hdrBytes p.hdr with | .ok b => Bytes.toHex b | .error _ => "unserialisable"
  s!"ok {hb} {if p.truncated then 1 else 0} {if es.isEmpty then "_" else ",".intercalate es}"

def withStore (st : St) (n : String) (f : DS → St × String) : St × String :=
  match getS st n with
  | some s => f s
  | none => (st, "bad-op:no-store")

def step (st : St) : List String → St × String
  | ["new", n, ma, mk, mv, me, sy, ex] =>
    match ma.toNat?, mk.toNat?, mv.toNat?, me.toNat?, b? sy, b? ex with
    | some ma, some mk, some mv, some me, some sy, some ex =>
      (putS st n { st := { cfg := { maxActive := ma, maxKeyLen := mk, maxValueLen := mv, maxTxEntries := me, synced := sy, extAllowance := ex } } }, "ok")
    | _, _, _, _, _, _ => (st, "bad-op")
  | ["rep", n, hex, sk] =>
    match Bytes.ofHex hex, b? sk with
    | some b, some sk => withStore st n fun s =>
      let r := replicate shaHs s.st b sk
      (putS st n (s.replicate shaHs b sk), match r.out with
        | .ok rc => s!"ok {rc.hdr.id} {hexD rc.alh}"
        | .error e => fmtErr e)
    | _, _ => (st, "bad-op")
  | ["sync", n] => withStore st n fun s =>
      let r := sync s.st
      (putS st n s.sync, match r.out with | .ok _ => "ok" | .error e => fmtErr e)
  | ["discard", n, id] =>
    match id.toNat? with
    | some id => withStore st n fun s =>
      let r := discardSince s.st id
      (putS st n (s.discard id), match r.out with | .ok k => s!"ok {k}" | .error e => fmtErr e)
    | none => (st, "bad-op")
  | ["allow", n, id] =>
    match id.toNat? with
    | some id => withStore st n fun s =>
      let r := allowCommitUpto s.st id
      (putS st n (s.allow id), match r.out with | .ok _ => "ok" | .error e => fmtErr e)
    | none => (st, "bad-op")
  | ["dballow", n, id, alh] =>
    match id.toNat?, Bytes.ofHex alh with
    | some id, some alh => withStore st n fun s =>
      let r := dbAllowCommitUpto shaHs s.st id alh
      (putS st n (DSt.withSt s r.st), match r.out with | .ok _ => "ok" | .error e => fmtErr e)
    | _, _ => (st, "bad-op")
  | ["setext", n, e] =>
    match b? e with
    | some e => withStore st n fun s => (putS st n (DSt.withSt s (setExtAllowance s.st e)), "ok")
    | none => (st, "bad-op")
  | ["restart", n] => withStore st n fun s => (putS st n (s.restart shaHs), "ok")
  -- power loss + Open: only the fsynced records of the tx log are left
  | ["crash", n] => withStore st n fun s => (putS st n (s.crash shaHs), "ok")
  | ["state", n] => withStore st n fun s => (st, fmtState s.st)
  -- the watermark wait of ReplicateTx / WaitForTx(id, allowPrecommitted), asked without waiting
  | ["wait", n, id] =>
    match id.toNat? with
    | some id => withStore st n fun s => (st, if s.st.durableReached id then "ok" else "waiting")
    | none => (st, "bad-op")
  | ["export", n, id, sk] =>
    match id.toNat?, b? sk with
    | some id, some sk => withStore st n fun s =>
      if id = 0 then (st, "err:illegal") else
      match s.st.chain[id - 1]? with
      | none => (st, "err:not-found")
      | some rc => (st, match exportRec shaHs sk rc with | .ok b => Bytes.toHexTok b | .error e => fmtErr e)
    | _, _ => (st, "bad-op")
  | ["parse", hex] =>
    match Bytes.ofHex hex with
    | some b => (st, match parseExported b with | .ok p => fmtParsed p | .error e => fmtErr e)
    | none => (st, "bad-op")
  | ["xrt", hex] =>   -- parse, then write again
    match Bytes.ofHex hex with
    | some b => (st, match parseExported b with
        | .ok p => (match exportTx p with | .ok b2 => Bytes.toHexTok b2 | .error _ => "err:export")
        | .error e => fmtErr e)
    | none => (st, "bad-op")
  -- ---- primary side (ack protocol, ids only)
  | ["p.new", n, acks, c0, pre] =>
    match acks.toNat?, c0.toNat?, pre.toNat? with
    | some a, some c, some p => (putP st n { syncAcks := a, pre := p, committed := c, allowed := c }, "ok")
    | _, _, _ => (st, "bad-op")
  | ["p.pre", n, pre] =>
    match pre.toNat?, getP st n with
    | some p, some pr => (putP st n { pr with pre := p }, "ok")
    | _, _ => (st, "bad-op")
  | ["p.fetch", n, uuid, rc, rp] =>   -- ExportTxByID's state handling on an unsynced primary store
    match rc.toNat?, rp.toNat?, getP st n with
    | some rc, some rp, some pr =>
      match pr.mayCommitFor rc rp with
      | none => (st, s!"diverged {pr.committed}")
      | some may =>
        let (p1, ok) := pr.report uuid rp
        -- unsynced store: AllowCommitUpto runs mayCommit at once
        let p2 := { p1 with committed := if p1.allowed > p1.committed then p1.allowed else p1.committed }
        (putP st n p2, s!"{if ok then "ok" else "err:illegal"} {may} {p2.committed}")
    | _, _, _ => (st, "bad-op")
  | _ => (st, "bad-op")

end Driver.C07
