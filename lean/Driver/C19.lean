import Driver.Util
import ImmuModel.Doc.Doc
import ImmuModel.Doc.SqlBridge
import Driver.C19Verify
/-!
Driver ops for C19 (document collections).  Wire format of documents (no spaces):
  n | t | f | d<16 hex IEEE bits> | s<hex utf8>; | [v*] | {(<hex key>:v)*}
Queries: `*` or expressions separated by `|`, comparisons by `&`, each `field~OP~value`.
Order: `*` or `field:a,field:d`.  Ids are hex.
Secondary indexes (`ixsearch`): `*` or indexes separated by `,` in creation order, each the field names in
index-column order separated by `+`, e.g. `n1+s1,b1`.
-/
namespace Driver.C19
open ImmuModel ImmuModel.Doc

structure St where
  colls : List (String × Coll) := []

def getColl (s : St) (n : String) : Option Coll := (s.colls.find? (·.1 == n)).map (·.2)

def setColl (s : St) (n : String) (c : Coll) : St :=
  if s.colls.any (·.1 == n) then { colls := s.colls.map (fun p => if p.1 == n then (n, c) else p) }
  else { colls := s.colls ++ [(n, c)] }

def errStr : Err → String
  | .unexpectedValue => "err:unexpected-value"
  | .fieldNotFound => "err:field-not-found"
  | .columnNotFound => "err:column-not-found"
  | .illegal => "err:illegal"
  | .reserved => "err:reserved"
  | .hex => "err:hex"
  | .maxLength => "err:max-length"
  | .fieldExists => "err:field-exists"
  | .noCollection => "err:no-collection"
  | .docNotFound => "err:doc-not-found"
  | .noMoreEntries => "err:no-more-entries"

def strBytes (s : String) : Bytes := s.toUTF8.toList

-- ---------------------------------------------------------------- parsing

def isHexChar (c : Char) : Bool := (Bytes.hexVal c).isSome

def spanHex : List Char → List Char × List Char
  | [] => ([], [])
  | c :: cs => if isHexChar c then let (a, b) := spanHex cs; (c :: a, b) else ([], c :: cs)

def hexNat (cs : List Char) : Option Nat :=
  cs.foldlM (fun acc c => (Bytes.hexVal c).map (fun v => acc * 16 + v)) 0

mutual
  partial def parseVal : List Char → Option (JVal × List Char)
    | 'n' :: r => some (.null, r)
    | 't' :: r => some (.bool true, r)
    | 'f' :: r => some (.bool false, r)
    | 'd' :: r =>
      let h := r.take 16
      if h.length = 16 then (hexNat h).map (fun n => (.num n, r.drop 16)) else none
    | 's' :: r =>
      let (h, rest) := spanHex r
      match rest with
      | ';' :: rest' => (Bytes.ofHexChars h).map (fun b => (.str b, rest'))
      | _ => none
    | '[' :: r => (parseList r []).map (fun (xs, rest) => (.list xs, rest))
    | '{' :: r => (parseObj r []).map (fun (kvs, rest) => (.obj kvs, rest))
    | _ => none
  partial def parseList : List Char → List JVal → Option (List JVal × List Char)
    | ']' :: r, acc => some (acc.reverse, r)
    | cs, acc => match parseVal cs with
      | some (v, rest) => parseList rest (v :: acc)
      | none => none
  partial def parseObj : List Char → List (Bytes × JVal) → Option (List (Bytes × JVal) × List Char)
    | '}' :: r, acc => some (acc.reverse, r)
    | cs, acc =>
      let (h, rest) := spanHex cs
      match rest with
      | ':' :: rest' =>
        match Bytes.ofHexChars h, parseVal rest' with
        | some k, some (v, rest'') => parseObj rest'' ((k, v) :: acc)
        | _, _ => none
      | _ => none
end

def parseValTok (s : String) : Option JVal :=
  match parseVal s.toList with
  | some (v, []) => some v
  | _ => none

def parseDoc (s : String) : Option JObj :=
  match parseValTok s with
  | some (.obj kvs) => some kvs
  | _ => none

def parseOp : String → Option Op
  | "EQ" => some .eq | "NE" => some .ne | "LT" => some .lt
  | "LE" => some .le | "GT" => some .gt | "GE" => some .ge
  | _ => none

def parseCmp (s : String) : Option Cmp :=
  match s.splitOn "~" with
  | [f, o, v] => do
    let op ← parseOp o
    let val ← parseValTok v
    pure { field := strBytes f, op := op, val := val }
  | _ => none

def parseExprs (s : String) : Option (List (List Cmp)) :=
  if s == "*" then some []
  else (s.splitOn "|").mapM (fun e => if e == "!" then some [] else (e.splitOn "&").mapM parseCmp)

def parseOrder (s : String) : Option (List (Bytes × Bool)) :=
  if s == "*" then some []
  else (s.splitOn ",").mapM (fun o => match o.splitOn ":" with
    | [f, "a"] => some (strBytes f, false)
    | [f, "d"] => some (strBytes f, true)
    | _ => none)

def parseQuery (q o l : String) : Option Query := do
  let es ← parseExprs q
  let ord ← parseOrder o
  let lim ← l.toNat?
  pure { exprs := es, order := ord, limit := lim }

def parseType : String → Option CType
  | "S" => some .str | "B" => some .bool | "I" => some .int | "D" => some .f64
  | _ => none

def parseField (s : String) : Option Field :=
  match s.splitOn ":" with
  | [n, t] => (parseType t).map (fun ty => { name := strBytes n, ty := ty })
  | _ => none

def parseFields (s : String) : Option (List Field) :=
  if s == "*" then some [] else (s.splitOn ",").mapM parseField

def parseIds (s : String) : Option (List Bytes) :=
  if s == "-" then some [] else (s.splitOn ",").mapM Bytes.ofHex

-- ---------------------------------------------------------------- printing (keys sorted bytewise)

def insertKey (kv : Bytes × JVal) : List (Bytes × JVal) → List (Bytes × JVal)
  | [] => [kv]
  | x :: xs => if lexLt kv.1 x.1 then kv :: x :: xs else x :: insertKey kv xs

def sortKeys (kvs : List (Bytes × JVal)) : List (Bytes × JVal) := kvs.foldl (fun acc kv => insertKey kv acc) []

def hex16 (n : Nat) : String :=
  String.ofList ((List.range 16).reverse.map (fun i => Bytes.hexDigit (n / 16 ^ i % 16)))

mutual
  partial def tokVal : JVal → String
    | .null => "n"
    | .bool true => "t"
    | .bool false => "f"
    | .num b => "d" ++ hex16 b
    | .str s => "s" ++ Bytes.toHex s ++ ";"
    | .list xs => "[" ++ String.join (xs.map tokVal) ++ "]"
    | .obj kvs => tokObj kvs
  partial def tokObj (kvs : List (Bytes × JVal)) : String :=
    "{" ++ String.join ((sortKeys kvs).map (fun kv => Bytes.toHex kv.1 ++ ":" ++ tokVal kv.2)) ++ "}"
end

def fmtIds (ids : List Bytes) : String :=
  if ids.isEmpty then "-" else ",".intercalate (ids.map Bytes.toHex)

def sortIds (ids : List Bytes) : List Bytes := isort (fun a b => !lexLt b a) ids  -- a ≤ b

def fmtRev (r : Nat × Option JObj) : String :=
  match r.2 with
  | none => s!"{r.1}:D"
  | some j => s!"{r.1}:" ++ tokObj j


-- ---------------------------------------------------------------- searches through the SQL planner model

def parseSecs (s : String) : List (List Bytes) :=
  if s == "*" then [] else (s.splitOn ",").map (fun ix => (ix.splitOn "+").map strBytes)

/-- typed view of the live document with this id (the empty row if there is none: not reached) -/
def rowOfId (c : Coll) (id : Bytes) : Row :=
  match (liveHits c).find? (fun h => h.id == id) with
  | some h => h.row
  | none => []

/-- maximal runs of ADJACENT elements related by `eq` (each element is compared with its successor) -/
def splitRuns (eq : Bytes → Bytes → Bool) : List Bytes → List (List Bytes)
  | [] => []
  | x :: xs =>
    match splitRuns eq xs with
    | (y :: run) :: rest => if eq x y then (x :: y :: run) :: rest else [x] :: (y :: run) :: rest
    | rest => [x] :: rest

/-- the engine leaves the order of ORDER BY ties unspecified (it depends on the index scanned and on `sort.Slice`):
within every maximal run of adjacent results whose rows compare equal under `ordCmp order` the ids are sorted
bytewise; the runs stay in place -/
def canonTies (c : Coll) (order : List (Bytes × Bool)) (ids : List Bytes) : List Bytes :=
  (splitRuns (fun a b => ordCmp order (rowOfId c a) (rowOfId c b) == 0) ids).flatMap sortIds

-- ---------------------------------------------------------------- ops

def withColl (s : St) (n : String) (k : Coll → St × String) : St × String :=
  match getColl s n with
  | none => (s, "err:no-collection")
  | some c => k c

def step (s : St) : List String → St × String
  | ["new"] => ({}, "ok")
  | "vdoc" :: rest => (s, C19V.vdoc rest)
  | ["coll", n, fs] =>
    match parseFields fs with
    | some fields => (setColl s n { fields := fields, docs := [] }, "ok")
    | none => (s, "bad-op")
  | ["addfield", n, f] =>
    match parseField f with
    | none => (s, "bad-op")
    | some fld => withColl s n fun c =>
      match addField c fld with
      | .ok c' => (setColl s n c', "ok")
      | .error e => (s, errStr e)
  | ["rmfield", n, f] => withColl s n fun c =>
      match removeField c (strBytes f) with
      | .ok c' => (setColl s n c', "ok")
      | .error e => (s, errStr e)
  | ["insb", n, ids, docs] =>
    match (docs.splitOn ",").mapM parseDoc with
    | none => (s, "bad-op")
    | some ds => withColl s n fun c =>
      if ids == "-" then
        -- a batch the engine refused: the ids were never generated; placeholders, state discarded
        let items := (List.range ds.length).zip ds |>.map (fun p => ([UInt8.ofNat (p.1 + 1)], p.2))
        match insertBatch c items with
        | .ok _ => (s, "ok")
        | .error e => (s, errStr e)
      else match parseIds ids with
        | none => (s, "bad-op")
        | some is =>
          if is.length ≠ ds.length then (s, "bad-op")
          else match insertBatch c (is.zip ds) with
            | .ok c' => (setColl s n c', "ok")
            | .error e => (s, errStr e)
  | ["repl", n, id, doc] =>
    match Bytes.ofHex id, parseDoc doc with
    | some i, some d => withColl s n fun c =>
      match replaceOne c i d with
      | .ok c' => (setColl s n c', s!"ok {revCount c' i}")
      | .error e => (s, errStr e)
    | _, _ => (s, "bad-op")
  | ["del", n, id] =>
    match Bytes.ofHex id with
    | some i => withColl s n fun c => (setColl s n (deleteOne c i), "ok")
    | none => (s, "bad-op")
  | ["replq", n, q, o, l, doc] =>
    match parseQuery q o l, parseDoc doc with
    | some qy, some d => withColl s n fun c =>
      match replaceQ c qy d with
      | .error e => (s, errStr e)
      | .ok (c', rs) =>
        let items := isort (fun (a b : Bytes × Nat) => !lexLt b.1 a.1) rs
        let out := if items.isEmpty then "-" else ",".intercalate (items.map (fun p => s!"{Bytes.toHex p.1}:{p.2}"))
        (setColl s n c', "ok " ++ out)
    | _, _ => (s, "bad-op")
  | ["delq", n, q, o, l] =>
    match parseQuery q o l with
    | some qy => withColl s n fun c =>
      match deleteQ c qy with
      | .error e => (s, errStr e)
      | .ok (c', ids) => (setColl s n c', "ok " ++ fmtIds (sortIds ids))
    | none => (s, "bad-op")
  | ["search", n, q, o, off, l] =>
    match parseQuery q o l, off.toNat? with
    | some qy, some offset => withColl s n fun c =>
      match compile c.fields qy with
      | .error e => (s, errStr e)
      | .ok cq =>
        let ids := search c cq offset
        -- without ORDER BY and paging the correspondence compares sets (the engine may scan another index)
        let ids := if qy.order.isEmpty && offset == 0 && qy.limit == 0 then sortIds ids else ids
        (s, fmtIds ids)
    | _, _ => (s, "bad-op")
  | ["ixsearch", n, secs, q, o, off, l] =>
    match parseQuery q o l, off.toNat? with
    | some qy, some offset => withColl s n fun c =>
      match compile c.fields qy with
      | .error e => (s, errStr e)
      | .ok cq =>
        match ixSearch c (parseSecs secs) cq offset with
        | .error _ => (s, "err:eval")
        | .ok (_, ids) =>
          let ids :=
            if qy.order.isEmpty then (if offset == 0 && qy.limit == 0 then sortIds ids else ids)
            else canonTies c cq.order ids
          (s, fmtIds ids)
    | _, _ => (s, "bad-op")
  | ["count", n, q, o, off, l] =>
    match parseQuery q o l, off.toNat? with
    | some qy, some offset => withColl s n fun c =>
      match compile c.fields qy with
      | .error e => (s, errStr e)
      | .ok cq => (s, toString (count c cq offset))
    | _, _ => (s, "bad-op")
  | ["get", n, id] =>
    match Bytes.ofHex id with
    | some i => withColl s n fun c =>
      match get c i with
      | some d => (s, tokObj d)
      | none => (s, "none")
    | none => (s, "bad-op")
  | ["audit", n, id, desc, off, lim] =>
    match Bytes.ofHex id, off.toNat?, lim.toNat? with
    | some i, some o, some l => withColl s n fun c =>
      match audit c i (desc == "1") o l with
      | .error e => (s, errStr e)
      | .ok rs => (s, if rs.isEmpty then "-" else ",".intercalate (rs.map fmtRev))
    | _, _, _ => (s, "bad-op")
  | _ => (s, "bad-op")

end Driver.C19
