import Driver.SqlTx
import ImmuModel.Sql.Sessions
/-! C12 driver for concurrent sessions (`ImmuModel.Sql.Mv.step`): ops
`c12 mv tbl <schema>` · `mv begin <i>` · `mv stmt <i> <stmt>` · `mv commit <i>` · `mv rollback <i>` ·
`mv scan` (live rows in primary-key order). -/
namespace Driver.SqlMv
open ImmuModel ImmuModel.Sql ImmuModel.Sql.Mv Driver.SqlParse Driver.SqlTx

structure St where
  sc : Schema := { cols := [], pk := [], idx := [], check := none }
  w : World := {}

def outStr (commit : Bool) : Out → String
  | .ok n => if commit then "ok" else s!"ok {n}"
  | .err (.dml e) => errStr e
  | .err .readConflict => "err:read-conflict"
  | .err .closed => "err:closed"

def ev (st : St) (e : Ev) (commit : Bool) : St × String :=
  let (w, o) := Mv.step st.sc st.w e
  ({ st with w := w }, outStr commit o)

def step (st : St) : List String → St × String
  | "tbl" :: rest =>
    match parseSchema rest with
    | some sc => ({ sc := sc, w := {} }, "ok")
    | none => (st, "bad-op")
  | ["begin", i] =>
    match i.toNat? with
    | some i => let (s, _) := ev st (.begin i) true; (s, "ok")
    | none => (st, "bad-op")
  | ["commit", i] =>
    match i.toNat? with
    | some i => ev st (.commit i) true
    | none => (st, "bad-op")
  | ["rollback", i] =>
    match i.toNat? with
    | some i => let (s, _) := ev st (.rollback i) true; (s, "ok")
    | none => (st, "bad-op")
  | "stmt" :: i :: rest =>
    match i.toNat?, parseStmt rest with
    | some i, some s => ev st (.stmt i s) false
    | _, _ => (st, "bad-op")
  | ["scan"] =>
    let rows := st.w.st.rows
    (st, s!"rows {rows.length} " ++ fmtRows rows)
  | _ => (st, "bad-op")

end Driver.SqlMv
