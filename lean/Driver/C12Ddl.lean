import Driver.Util
import ImmuModel.Sql.CatalogCache
/-!
Driver ops for the C12 DDL schedules (prefix tokens `c12 ddl`, harness/cmd/vh/c12_ddl.go), stateful (one
engine).  The model is the catalog-cache protocol of `ImmuModel/Sql/CatalogCache.lean` (the one C13 proves
coherent and `Props/C12.lean` builds its schema-visibility corollaries on); the C12 schedules differ from the
C13 cache schedules in that their DML is real DML on contended rows: a COMMIT can also fail with a DATA
read conflict (uniqueness / primary-key lookups, C05/C12 `Mv`), which the cache model does not decide.  The
harness therefore passes the observed COMMIT decision, and the driver answers
  * `conflict` whenever the MODEL demands one (a transaction with entries whose catalog rows changed since
    its BEGIN must not be acknowledged) — a mismatch when the engine acknowledged it;
  * the observed decision otherwise (a data conflict erases the transaction and publishes nothing).
What is compared on every line: the catalog GENERATION every new transaction works with, cache hit / miss,
and the mandatory catalog conflicts.

  c12 ddl reset                              → ok
  c12 ddl newtx <sid> rw                     → gen=<n> hit|miss | busy          (BEGIN TRANSACTION)
  c12 ddl peek <sid>                         → hit|miss | busy                  (autocommit query: read-only tx, cancelled)
  c12 ddl ddl <sid> | dml <sid>              → ok | notx | readonly             (statement with entries inside the open tx)
  c12 ddl commit <sid> ok|conflict           → ok | conflict | notx
  c12 ddl cancel <sid>                       → ok | notx                        (ROLLBACK, aborted statement, closed session)
  c12 ddl auto <sid> ddl|dml|nop ok|conflict|fail → hit|miss ok|conflict|fail   (autocommit statement: NewTx, statement, Commit;
                                                                                 `nop` = no entries, `fail` = statement error, tx cancelled)
  c12 ddl reopen                             → ok
-/
namespace Driver.C12Ddl
open ImmuModel.Sql.CatCache

structure St where
  e : Eng := {}

def hm (hit : Bool) : String := if hit then "hit" else "miss"

/-- COMMIT with the observed decision: the model's catalog conflict wins; an observed (data) conflict where the
model sees none erases the transaction exactly like a conflict does (`Commit` returns before it touches the cache) -/
def commitObs (e : Eng) (sid : Nat) (obs : String) : Eng × String :=
  match findTx sid e.txs with
  | none => (e, "notx")
  | some _ =>
    let (e1, a) := ImmuModel.Sql.CatCache.step codeCfg e (.commit sid)
    match a with
    | .conflict => (e1, "conflict")
    | .ok => if obs == "conflict" then ({ e with txs := eraseTx sid e.txs }, "conflict") else (e1, "ok")
    | .readOnly => (e1, "readonly")
    | _ => (e1, "notx")

def step (s : St) (ts : List String) : St × String :=
  match ts with
  | ["reset"] => ({}, "ok")
  | ["newtx", sid, "rw"] =>
    match sid.toNat? with
    | none => (s, "bad-op")
    | some n =>
      match ImmuModel.Sql.CatCache.step codeCfg s.e (.newTx n false) with
      | (e, .opened c hit) => ({ e := e }, s!"gen={c} " ++ hm hit)
      | (e, _) => ({ e := e }, "busy")
  | ["peek", sid] =>
    match sid.toNat? with
    | none => (s, "bad-op")
    | some n =>
      match ImmuModel.Sql.CatCache.step codeCfg s.e (.newTx n true) with
      | (e, .opened _ hit) =>
        let (e2, _) := ImmuModel.Sql.CatCache.step codeCfg e (.cancel n)
        ({ e := e2 }, hm hit)
      | (e, _) => ({ e := e }, "busy")
  | [op, sid] =>
    match sid.toNat?, (if op == "ddl" then some Op.ddl else if op == "dml" then some Op.dml
        else if op == "cancel" then some Op.cancel else none) with
    | some n, some mk =>
      let (e, a) := ImmuModel.Sql.CatCache.step codeCfg s.e (mk n)
      ({ e := e }, match a with | .ok => "ok" | .noTx => "notx" | .readOnly => "readonly" | _ => "bad-op")
    | _, _ => (s, "bad-op")
  | ["reopen"] =>
    let (e, _) := ImmuModel.Sql.CatCache.step codeCfg s.e .reopen
    ({ e := e }, "ok")
  | ["commit", sid, obs] =>
    match sid.toNat? with
    | none => (s, "bad-op")
    | some n => let (e, a) := commitObs s.e n obs; ({ e := e }, a)
  | ["auto", sid, kind, obs] =>
    match sid.toNat? with
    | none => (s, "bad-op")
    | some n =>
      match ImmuModel.Sql.CatCache.step codeCfg s.e (.newTx n false) with
      | (e, .opened _ hit) =>
        if obs == "fail" then
          let (e2, _) := ImmuModel.Sql.CatCache.step codeCfg e (.cancel n)
          ({ e := e2 }, hm hit ++ " fail")
        else
          let e1 := if kind == "ddl" then (ImmuModel.Sql.CatCache.step codeCfg e (.ddl n)).1
                    else if kind == "dml" then (ImmuModel.Sql.CatCache.step codeCfg e (.dml n)).1 else e
          let (e2, a) := commitObs e1 n obs
          ({ e := e2 }, hm hit ++ " " ++ a)
      | (e, _) => ({ e := e }, "busy")
  | _ => (s, "bad-op")

end Driver.C12Ddl
