import ImmuModel.Base.Bytes
import Driver.Util
import ImmuModel.Log.SingleApp
import ImmuModel.Log.MultiApp
import ImmuModel.Log.Faults
namespace Driver.C17
open ImmuModel ImmuModel.Log

structure St where
  s : SingleApp := SingleApp.create { cap := 1, retryableSync := false, autoSync := false, readOnly := false } 0 []
  m : MultiApp := MultiApp.create { fileSize := 1, cap := 1, maxOpenedFiles := 1, retryableSync := false,
                                     autoSync := false, readOnly := false, prealloc := false } []

def errS : Option Err → String
  | none => "ok"
  | some .alreadyClosed => "err:closed"
  | some .readOnly => "err:readonly"
  | some .illegalArguments => "err:illegal"
  | some .negativeOffset => "err:negative"
  | some .bufferFull => "err:bufferfull"
  | some .eof => "err:eof"
  | some .syncFailed => "err:sync"
  | some .hang => "err:hang"

/-- answer of a call made under the write fault -/
def wS : WOut → String
  | .writeFailed => "err:write"
  | .ret e => errS e

def b? (s : String) : Option Bool := if s == "1" then some true else if s == "0" then some false else none

def sizeS : Except Err Nat → String
  | .ok n => toString n
  | .error e => errS (some e)

def step (st : St) : List String → St × String
  -- ---------------- singleapp ----------------
  | ["s.new", cap, retry, auto, prealloc, md] =>
    match cap.toNat?, b? retry, b? auto, prealloc.toNat?, Bytes.ofHex md with
    | some cap, some r, some a, some p, some md =>
      let s := SingleApp.create { cap := cap, retryableSync := r, autoSync := a, readOnly := false } p md
      ({ st with s := s }, sizeS s.size)
    | _, _, _, _, _ => (st, "bad-op")
  | ["s.append", d] =>
    match Bytes.ofHex d with
    | none => (st, "bad-op")
    | some d =>
      let (s, off, n, e) := st.s.append d
      ({ st with s := s }, s!"{off} {n} {errS e}")
  | ["s.read", n, off] =>
    match (if n == "nil" then some none else n.toNat?.map some), off.toInt? with
    | some n, some off =>
      let (d, e) := st.s.readAt n off
      (st, s!"{d.length} {Bytes.toHexTok d} {errS e}")
    | _, _ => (st, "bad-op")
  | ["s.setoff", off] =>
    match off.toInt? with
    | none => (st, "bad-op")
    | some off => let (s, e) := st.s.setOffset off; ({ st with s := s }, errS e)
  | ["s.discard", off] =>
    match off.toInt? with
    | none => (st, "bad-op")
    | some off => let (s, e) := st.s.discardUpto off; ({ st with s := s }, errS e)
  | ["s.flush"] => let (s, e) := st.s.apiFlush; ({ st with s := s }, errS e)
  | ["s.sync"] => let (s, e) := st.s.apiSync; ({ st with s := s }, errS e)
  | ["s.ro"] => let (s, e) := st.s.switchRO; ({ st with s := s }, errS e)
  -- fault injection: fsync fails (after an un-faulted Flush) / every content write fails with n = 0
  | ["s.syncfail"] => let (s, e) := st.s.apiSync false; ({ st with s := s }, errS e)
  | ["s.rofail"] => let (s, e) := st.s.switchRO false; ({ st with s := s }, errS e)
  | ["s.flushfail"] => let (s, e) := st.s.apiFlushW0; ({ st with s := s }, wS e)
  | ["s.syncwfail"] => let (s, e) := st.s.apiSyncW0 true; ({ st with s := s }, wS e)
  | ["s.size"] => (st, sizeS st.s.size)
  | ["s.offset"] => (st, toString st.s.offset)
  | ["s.meta"] => (st, Bytes.toHexTok st.s.mdata)
  | ["s.close"] => let (s, e) := st.s.close; ({ st with s := s }, errS e)
  | ["s.reopen", cap, retry, auto, ro] =>
    match cap.toNat?, b? retry, b? auto, b? ro with
    | some cap, some r, some a, some ro =>
      let s := st.s.reopen { cap := cap, retryableSync := r, autoSync := a, readOnly := ro }
      ({ st with s := s }, sizeS s.size)
    | _, _, _, _ => (st, "bad-op")
  | ["s.copy"] =>
    match st.s.copy with
    | (s, .error e) => ({ st with s := s }, errS (some e))
    | (s, .ok f) => ({ st with s := s }, s!"ok {f.length} {Bytes.toHexTok f}")
  -- ---------------- multiapp ----------------
  | ["m.new", fs, cap, mo, retry, auto, prealloc, md] =>
    match fs.toNat?, cap.toNat?, mo.toNat?, b? retry, b? auto, b? prealloc, Bytes.ofHex md with
    | some fs, some cap, some mo, some r, some a, some p, some md =>
      let m := MultiApp.create { fileSize := fs, cap := cap, maxOpenedFiles := mo, retryableSync := r,
                                 autoSync := a, readOnly := false, prealloc := p } md
      ({ st with m := m }, sizeS m.size)
    | _, _, _, _, _, _, _ => (st, "bad-op")
  | ["m.append", d] =>
    match Bytes.ofHex d with
    | none => (st, "bad-op")
    | some d =>
      let (m, off, n, e) := st.m.append d
      ({ st with m := m }, s!"{off} {n} {errS e}")
  | ["m.read", n, off] =>
    match n.toNat?, off.toNat? with
    | some n, some off =>
      let (m, d, e) := st.m.readAt n off
      ({ st with m := m }, s!"{d.length} {Bytes.toHexTok d} {errS e}")
    | _, _ => (st, "bad-op")
  | ["m.setoff", off] =>
    match off.toNat? with
    | none => (st, "bad-op")
    | some off => let (m, e) := st.m.setOffset off; ({ st with m := m }, errS e)
  | ["m.discard", off] =>
    match off.toNat? with
    | none => (st, "bad-op")
    | some off => let (m, e) := st.m.discardUpto off; ({ st with m := m }, errS e)
  | ["m.flush"] => let (m, e) := st.m.flush; ({ st with m := m }, errS e)
  | ["m.sync"] => let (m, e) := st.m.sync; ({ st with m := m }, errS e)
  | ["m.ro"] => let (m, e) := st.m.switchRO; ({ st with m := m }, errS e)
  | ["m.syncfail"] => let (m, e) := st.m.sync false; ({ st with m := m }, errS e)
  | ["m.rofail"] => let (m, e) := st.m.switchRO false; ({ st with m := m }, errS e)
  | ["m.flushfail"] => let (m, e) := st.m.flushW0; ({ st with m := m }, wS e)
  | ["m.syncwfail"] => let (m, e) := st.m.syncW0 true; ({ st with m := m }, wS e)
  | ["m.size"] => (st, sizeS st.m.size)
  | ["m.offset"] => (st, toString st.m.offset)
  | ["m.meta"] => (st, Bytes.toHexTok st.m.mdata)
  | ["m.close"] => let (m, e) := st.m.close; ({ st with m := m }, errS e)
  | ["m.reopen", cap, mo, retry, auto, ro] =>
    match cap.toNat?, mo.toNat?, b? retry, b? auto, b? ro with
    | some cap, some mo, some r, some a, some ro =>
      let m := st.m.reopen { fileSize := st.m.fileSize, cap := cap, maxOpenedFiles := mo, retryableSync := r,
                             autoSync := a, readOnly := ro, prealloc := st.m.prealloc }
      ({ st with m := m }, sizeS m.size)
    | _, _, _, _, _ => (st, "bad-op")
  | ["m.copy", floor] =>
    -- the copy is opened with the same options; answer: its size and its content from `floor`
    match floor.toNat? with
    | none => (st, "bad-op")
    | some floor =>
      match st.m.copy with
      | (m, .error e) => ({ st with m := m }, errS (some e))
      | (m, .ok (disk, top)) =>
        let c := MultiApp.openDir disk top { fileSize := m.fileSize, cap := (if m.cap = 0 then 1 else m.cap), maxOpenedFiles := m.cache.max,
                                             retryableSync := m.retryableSync, autoSync := m.autoSync,
                                             readOnly := false, prealloc := m.prealloc } m.mdata
        match c.size with
        | .error e => ({ st with m := m }, errS (some e))
        | .ok sz =>
          let (_, d, e) := c.readAt (sz - floor) floor
          ({ st with m := m }, s!"ok {sz} {Bytes.toHexTok d} {errS e}")
  | _ => (st, "bad-op")

end Driver.C17
