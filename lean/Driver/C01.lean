import Driver.Util
import ImmuModel.Tx.Concrete
import ImmuModel.Tx.Entry
import ImmuModel.Store.Proofs
import ImmuModel.Store.Prover
import ImmuModel.Client.Flow
namespace Driver.C01
open ImmuModel ImmuModel.Tx ImmuModel.Store

def dg? (s : String) : Option Digest := (Bytes.ofHex s).map Digest.ofBytes
def dgs? (s : String) : Option (List Digest) := (parseCsv s).map (·.map Digest.ofBytes)
def hexD (d : Digest) : String := Bytes.toHex d.val

/-- header token: id:ts:blTxID:blRoot:prevAlh:version:md:nentries:eh  ("nil" = nil pointer) -/
def hdr? (s : String) : Option (Option (TxHeader Digest)) :=
  if s == "nil" then some none else
  match s.splitOn ":" with
  | [id, ts, bl, blRoot, prev, ver, md, ne, eh] =>
    match id.toNat?, ts.toNat?, bl.toNat?, dg? blRoot, dg? prev, ver.toNat?, Bytes.ofHex md, ne.toNat?, dg? eh with
    | some id, some ts, some bl, some blRoot, some prev, some ver, some md, some ne, some eh =>
      some (some ⟨id, ts, bl, blRoot, prev, ver, md, ne, eh⟩)
    | _, _, _, _, _, _, _, _, _ => none
  | _ => none

/-- linear proof token: src:tgt:csv | nil -/
def lp? (s : String) : Option (Option (LinearProof Digest)) :=
  if s == "nil" then some none else
  match s.splitOn ":" with
  | [a, b, ts] => match a.toNat?, b.toNat?, dgs? ts with
    | some a, some b, some ts => some (some ⟨a, b, ts⟩)
    | _, _, _ => none
  | _ => none

/-- linear advance proof token: csvTerms:proof1;proof2;… | nil   ("." = no inclusion proofs) -/
def lap? (s : String) : Option (Option (LinearAdvanceProof Digest)) :=
  if s == "nil" then some none else
  match s.splitOn ":" with
  | [ts, ips] =>
    let ipl := if ips == "." then some [] else (ips.splitOn ";").mapM dgs?
    match dgs? ts, ipl with
    | some ts, some ipl => some (some ⟨ts, ipl⟩)
    | _, _ => none
  | _ => none

def b2s (b : Bool) : String := if b then "true" else "false"

def fmtD (ds : List Digest) : String := fmtCsv (ds.map (·.val))

def fmtHdr : Option (TxHeader Digest) → String
  | none => "nil"
  | some h => s!"{h.id}:{h.ts}:{h.blTxID}:{hexD h.blRoot}:{hexD h.prevAlh}:{h.version}:{Bytes.toHexTok h.md}:{h.nentries}:{hexD h.eh}"

def fmtLp : Option (LinearProof Digest) → String
  | none => "nil"
  | some p => s!"{p.sourceTxID}:{p.targetTxID}:{fmtD p.terms}"

def fmtLap : Option (LinearAdvanceProof Digest) → String
  | none => "nil"
  | some p =>
    let ips := if p.inclusionProofs.isEmpty then "." else ";".intercalate (p.inclusionProofs.map fmtD)
    s!"{fmtD p.linearProofTerms}:{ips}"

/-- stateful part: the history the real store has built (prover-side correspondence) -/
structure St where
  ps : ProverState Digest := ⟨[], [], Merkle.AHT.empty⟩

def stepSt (st : St) : List String → St × String
  | ["hist.new"] => ({ ps := ⟨[], [], Merkle.AHT.empty⟩ }, "ok")
  | ["hist.add", h] => match hdr? h with
    | some (some h) => match alh shaHs h with
      | some a => match Merkle.AHT.append shaHs.mh st.ps.aht (shaHs.enc a) with
        | some t => ({ ps := ⟨st.ps.hdrs ++ [h], st.ps.alhs ++ [a], t⟩ }, hexD a)
        | none => (st, "err:internal")
      | none => (st, "panic")
    | _ => (st, "bad-op")
  | ["dproof", s, t] => match s.toNat?, t.toNat? with
    | some s, some t => match dualProof shaHs st.ps s t with
      | some p => (st, s!"{fmtHdr p.sourceTxHeader} {fmtHdr p.targetTxHeader} {fmtD p.inclusionProof} {fmtD p.consistencyProof} {hexD p.targetBlTxAlh} {fmtD p.lastInclusionProof} {fmtLp p.linearProof} {fmtLap p.linearAdvanceProof}")
      | none => (st, "err")
    | _, _ => (st, "bad-op")
  | _ => (st, "bad-op")

def ref? (s : String) : Option (Option Client.RefBy) :=
  if s == "nil" then some none else
  match s.splitOn ":" with
  | [tx, atx, md] => match tx.toNat?, atx.toNat?, Bytes.ofHex md with
    | some tx, some atx, some md => some (some ⟨tx, atx, md⟩)
    | _, _, _ => none
  | _ => none

def incl? (s : String) : Option (Merkle.HProof Digest) :=
  match s.splitOn ":" with
  | [l, w, ts] => match l.toInt?, w.toInt?, dgs? ts with
    | some l, some w, some ts => some ⟨l, w, ts⟩
    | _, _, _ => none
  | _ => none

def cget : List String → String
  | [stTx, stHash, reqKey, atTx, eKey, eVal, eMd, eTx, ref, ver, incl, sh, th, ip, cp, tbl, lip, lp, lap] =>
    match stTx.toNat?, dg? stHash, Bytes.ofHex reqKey, atTx.toNat?, Bytes.ofHex eKey, Bytes.ofHex eVal, Bytes.ofHex eMd,
          eTx.toNat?, ref? ref, ver.toNat?, incl? incl with
    | some stTx, some stHash, some reqKey, some atTx, some eKey, some eVal, some eMd, some eTx, some ref, some ver, some incl =>
      match hdr? sh, hdr? th, dgs? ip, dgs? cp, dg? tbl, dgs? lip, lp? lp, lap? lap with
      | some sh, some th, some ip, some cp, some tbl, some lip, some lp, some lap =>
        let r : Client.GetResp Digest := ⟨⟨eKey, eVal, eMd, eTx, ref⟩, ver, incl, ⟨sh, th, ip, cp, tbl, lip, lp, lap⟩⟩
        match Client.verifiedGet shaHs (fun _ => true) ⟨stTx, stHash⟩ reqKey atTx r with
        | none => "panic"
        | some (.ok ns) => s!"ok {ns.txId} {hexD ns.txHash}"
        | some (.error .corrupted) => "err:corrupted"
        | some (.error .unsupportedVersion) => "err:version"
        | some (.error .signature) => "err:signature"
      | _, _, _, _, _, _, _, _ => "bad-op"
    | _, _, _, _, _, _, _, _, _, _, _ => "bad-op"
  | _ => "bad-op"

def step : List String → String
  | "cget" :: rest => cget rest
  | ["alh", h] => match hdr? h with
    | some (some h) => match alh shaHs h with | some a => hexD a | none => "panic"
    | _ => "bad-op"
  | ["inner", h] => match hdr? h with
    | some (some h) => match innerHash shaHs h with | some a => hexD a | none => "panic"
    | _ => "bad-op"
  | ["ed0", key, hv] => match Bytes.ofHex key, dg? hv with
    | some k, some hv => hexD (entryDigestV0 shaHs k hv)
    | _, _ => "bad-op"
  | ["ed1", md, key, hv] => match Bytes.ofHex md, Bytes.ofHex key, dg? hv with
    | some md, some k, some hv => hexD (entryDigestV1 shaHs md k hv)
    | _, _, _ => "bad-op"
  | ["vlin", lp, s, t, sa, ta] => match lp? lp, s.toNat?, t.toNat?, dg? sa, dg? ta with
    | some lp, some s, some t, some sa, some ta => b2s (verifyLinearProof shaHs lp s t sa ta)
    | _, _, _, _, _ => "bad-op"
  | ["vdual", sh, th, ip, cp, tbl, lip, lp, lap, s, t, sa, ta] =>
    match hdr? sh, hdr? th, dgs? ip, dgs? cp, dg? tbl, dgs? lip, lp? lp, lap? lap, s.toNat?, t.toNat?, dg? sa, dg? ta with
    | some sh, some th, some ip, some cp, some tbl, some lip, some lp, some lap, some s, some t, some sa, some ta =>
      match verifyDualProof shaHs (some ⟨sh, th, ip, cp, tbl, lip, lp, lap⟩) s t sa ta with
      | some b => b2s b
      | none => "panic"
    | _, _, _, _, _, _, _, _, _, _, _, _ => "bad-op"
  | ["vdual2", sh, th, ip, cp, s, t, sa, ta] =>
    match hdr? sh, hdr? th, dgs? ip, dgs? cp, s.toNat?, t.toNat?, dg? sa, dg? ta with
    | some sh, some th, some ip, some cp, some s, some t, some sa, some ta =>
      match verifyDualProofV2 shaHs (some ⟨sh, th, ip, cp⟩) s t sa ta with
      | some (.ok _) => "ok"
      | some (.error .illegalArguments) => "err:illegal"
      | some (.error .sourceNewer) => "err:source-newer"
      | some (.error .unexpectedLinking) => "err:linking"
      | some (.error .inclusion) => "err:inclusion"
      | some (.error .consistency) => "err:consistency"
      | none => "panic"
    | _, _, _, _, _, _, _, _ => "bad-op"
  | _ => "bad-op"

end Driver.C01
