import Driver.Util
import ImmuModel.Base.Sha256
import ImmuModel.Decode.TxMetadata
import ImmuModel.Decode.KVMetadata
import ImmuModel.Decode.TxHeader
import ImmuModel.Decode.ValueRef
import ImmuModel.Decode.ReplicateTx
import ImmuModel.Decode.AppMetadata
import ImmuModel.Decode.SqlValue
namespace Driver.C16
open ImmuModel ImmuModel.Go ImmuModel.Decode

/-- outcome class + canonical rendering of the decoded value -/
def render (m : M α) (f : α → String) : String :=
  match m.res with
  | .ok a => "ok " ++ f a
  | .err e => "err:" ++ e.toString
  | .panic => "panic"

def optNat : Option Nat → String
  | none => "none"
  | some n => toString n

def txmdCanon (md : TxMetadata) : String :=
  "t=" ++ optNat md.truncatedUptoTx ++ ";x=" ++ (match md.extra with | none => "none" | some e => Bytes.toHexTok e)

def optTxmd : Option TxMetadata → String
  | none => "none"
  | some md => "[" ++ txmdCanon md ++ "]"

def b01 (b : Bool) : String := if b then "1" else "0"

def kvmdCanon (md : KVMetadata) : String :=
  "d=" ++ b01 md.deleted ++ ";e=" ++ optNat md.expiresAt ++ ";n=" ++ b01 md.nonIndexable

def optKvmd : Option KVMetadata → String
  | none => "none"
  | some md => "[" ++ kvmdCanon md ++ "]"

def txAttrCanon : TxAttr × Nat → String
  | (.truncatedUptoTx t, n) => s!"n={n} t={t}"
  | (.extra e, n) => s!"n={n} x={Bytes.toHexTok e}"

def kvAttrCanon : KVAttr × Nat → String
  | (.deleted, n) => s!"n={n} d"
  | (.expiresAt t, n) => s!"n={n} e={t}"
  | (.nonIndexable, n) => s!"n={n} ni"

def hdrCanon (h : TxHeader) : String :=
  s!"id={h.id} ts={h.ts} ver={h.version} md={optTxmd h.metadata} n={h.nentries} eh={Bytes.toHex h.eh} bl={h.blTxID} blroot={Bytes.toHex h.blRoot} prev={Bytes.toHex h.prevAlh}"

def valrefCanon (v : ValueRef) : String :=
  s!"vlen={v.valLen} voff={v.vOff} hval={Bytes.toHex v.hVal} txmd={optTxmd v.txmd} kvmd={optKvmd v.kvmd}"

def entryCanon (e : EntrySpec) : String :=
  Bytes.toHexTok e.key ++ ":" ++ optKvmd e.metadata ++ ":" ++ Bytes.toHex (Sha256.sum e.value)

def recCanon (t : ExportedTx) : String :=
  s!"n={t.hdr.nentries}" ++ String.join (t.entries.map fun e => " " ++ entryCanon e)

/-- strip trailing zero bytes -/
def stripZeros (b : Bytes) : Bytes := (b.reverse.dropWhile (· == 0)).reverse

def fieldCanon (f : Bytes) : String :=
  Bytes.toHexTok (stripZeros f) ++ "/" ++ toString f.length

/-- the Go map keeps the LAST value stored under a key; rendering sorted by (key canon) -/
def kvsCanon (kvs : List (Bytes × Bytes)) : String :=
  let step (acc : List (String × String)) (kv : Bytes × Bytes) : List (String × String) :=
    let k := fieldCanon kv.1
    (acc.filter (fun p => p.1 ≠ k)) ++ [(k, fieldCanon kv.2)]
  let m := kvs.foldl step []
  let sorted := m.toArray.qsort (fun a b => a.1 < b.1) |>.toList
  " ".intercalate (sorted.map fun p => p.1 ++ "=" ++ p.2)

def sqlType? : String → Option SqlType
  | "VARCHAR" => some .varchar
  | "INTEGER" => some .integer
  | "BOOLEAN" => some .boolean
  | "BLOB" => some .blob
  | "JSON" => some .json
  | "UUID" => some .uuid
  | "TIMESTAMP" => some .timestamp
  | "FLOAT" => some .float64
  | "ANY" => some .other
  | _ => none

def sqlValCanon : SqlVal × Nat → String
  | (.null, n) => s!"null n={n}"
  | (.varchar v, n) => s!"varchar:{Bytes.toHexTok v} n={n}"
  | (.integer u, n) => s!"integer:{u} n={n}"
  | (.bool v, n) => s!"bool:{b01 v} n={n}"
  | (.blob v, n) => s!"blob:{Bytes.toHexTok v} n={n}"
  | (.json v, n) => s!"json:{Bytes.toHexTok v} n={n}"
  | (.uuid v, n) => s!"uuid:{Bytes.toHexTok v} n={n}"
  | (.timestamp u, n) => s!"timestamp:{u} n={n}"
  | (.float64 u, n) => s!"float:{u} n={n}"

/-- The flag set describing the code that currently exists in /repo: `Fix.current`
(ImmuModel/Base/GoSlice.lean).  Flip a flag THERE when the corresponding guard has been added to (or
removed from) the Go source; the property theorems of Props/C16.lean are stated for the same flag set. -/
def currentCode : Fix := Fix.current

def withHex (h : String) (f : Bytes → String) : String :=
  match Bytes.ofHex h with
  | some b => f b
  | none => "bad-op"

structure St where
  dummy : Unit := ()

def step (s : St) : List String → St × String
  | ["txmd", h] => (s, withHex h fun b => render (TxMetadata.readFrom currentCode b) txmdCanon)
  | ["txmd.bytes", h] => (s, withHex h fun b =>
      render (do let md ← TxMetadata.readFrom currentCode b; md.bytes) Bytes.toHexTok)
  | ["trunc.de", h] => (s, withHex h fun b => render (truncatedUptoTxAttr_deserialize b) txAttrCanon)
  | ["extra.de", h] => (s, withHex h fun b => render (extraAttr_deserialize currentCode b) txAttrCanon)
  | ["kvmd", h] => (s, withHex h fun b => render (KVMetadata.unsafeReadFrom b) kvmdCanon)
  | ["expires.de", h] => (s, withHex h fun b => render (expiresAtAttr_deserialize b) kvAttrCanon)
  | ["txhdr", h] => (s, withHex h fun b => render (TxHeader.readFrom currentCode b) hdrCanon)
  | ["valref", h] => (s, withHex h fun b => render (valueRefFrom currentCode b) valrefCanon)
  | ["replicate", h] => (s, withHex h fun b =>
      match (replicateTxFraming currentCode b).res with
      | .ok _ => "framed"
      | .err e => "err:" ++ e.toString
      | .panic => "panic")
  | ["replicate.rec", h] => (s, withHex h fun b => render (replicateTxFraming currentCode b) recCanon)
  | ["appmd", h] => (s, withHex h fun b =>
      render (appMetadataReadFrom currentCode b) fun (n, kvs) => s!"n={n} " ++ kvsCanon kvs)
  | ["sqlvlen", h] => (s, withHex h fun b => render (decodeValueLength b) fun (l, o) => s!"vlen={l} off={o}")
  | ["sqlval", t, nullable, h] =>
    match sqlType? t with
    | none => (s, "bad-op")
    | some ty => (s, withHex h fun b => render (decodeValue b ty (nullable == "1")) sqlValCanon)
  | _ => (s, "bad-op")

end Driver.C16
