import Driver.Util
import ImmuModel.Tx.Concrete
import ImmuModel.Store.Commit
namespace Driver.C02
open ImmuModel ImmuModel.Tx ImmuModel.Store ImmuModel.Store.Commit

/-- One model store per harness case (`c02 new …` starts a new one). -/
structure St where
  s : Option (Commit.St Digest) := none

def zero : Digest := Digest.ofBytes []

def hexD (d : Digest) : String := Bytes.toHex d.val

def dg? (s : String) : Option Digest := (Bytes.ofHex s).map Digest.ofBytes

/-- header token: id:ts:blTxID:blRoot:prevAlh:version:md:nentries:eh -/
def hdr? (s : String) : Option (TxHeader Digest) :=
  match s.splitOn ":" with
  | [id, ts, bl, blRoot, prev, ver, md, ne, eh] =>
    match id.toNat?, ts.toNat?, bl.toNat?, dg? blRoot, dg? prev, ver.toNat?, Bytes.ofHex md, ne.toNat?, dg? eh with
    | some id, some ts, some bl, some blRoot, some prev, some ver, some md, some ne, some eh =>
      some ⟨id, ts, bl, blRoot, prev, ver, md, ne, eh⟩
    | _, _, _, _, _, _, _, _, _ => none
  | _ => none

def bool? (s : String) : Option Bool :=
  if s == "1" then some true else if s == "0" then some false else none

/-- cfg token: embedded:synced:maxActive:version:maxTxEntries:ahtSyncThld -/
def cfg? (s : String) : Option Cfg :=
  match s.splitOn ":" with
  | [em, sy, ma, v, me, th] =>
    match bool? em, bool? sy, ma.toNat?, v.toNat?, me.toNat?, th.toNat? with
    | some em, some sy, some ma, some v, some me, some th => some ⟨em, sy, ma, v, me, th⟩
    | _, _, _, _, _, _ => none
  | _ => none

/-- entry token: key:md:vlen:hval ; entries joined by ';' ; "_" = no entries -/
def entry? (s : String) : Option (Entry Digest) :=
  match s.splitOn ":" with
  | [k, md, vl, hv] =>
    match Bytes.ofHex k, Bytes.ofHex md, vl.toNat?, dg? hv with
    | some k, some md, some vl, some hv => some ⟨k, md, vl, hv⟩
    | _, _, _, _ => none
  | _ => none

def entries? (s : String) : Option (List (Entry Digest)) :=
  if s == "_" then some [] else (s.splitOn ";").mapM entry?

def errStr : Err → String
  | .alreadyClosed => "err:closed"
  | .noEntries => "err:no-entries"
  | .maxTxEntries => "err:max-entries"
  | .mdUnsupported => "err:md-unsupported"
  | .badVersion => "err:bad-version"
  | .illegalArgs => "err:illegal"
  | .ehMismatch => "err:illegal"
  | .blRootMismatch => "err:illegal"
  | .prevAlhMismatch => "err:illegal"
  | .alreadyCommitted => "err:already-committed"
  | .maxActive => "err:max-active"
  | .blocked => "err:blocked"
  | .ahtError => "err:aht"
  | .wrongOrder => "err:unexpected"
  | .precondition => "err:precondition"
  | .linking => "err:linking"
  | .bufferFull => "err:buffer-full"
  | .notEnoughData => "err:not-enough-data"
  | .unexpected => "err:unexpected"
  | .illegalState => "err:illegal-state"
  | .corrupted => "err:corrupted"
  | .notClosed => "err:not-closed"

def outStr : Out Digest → String
  | .ok => "ok"
  | .okTx id a => s!"tx {id} {hexD a}"
  | .okN n => s!"n {n}"
  | .err e => errStr e
  | .panic => "panic"

def stateStr (s : Commit.St Digest) : String :=
  if s.closed then s!"c={s.committed} ca={hexD s.comAlh} closed=1"
  else s!"c={s.committed} p={s.preID} ca={hexD s.comAlh} pa={hexD s.preAlh} closed=0"

def apply (st : St) (op : Op Digest) : St × String :=
  match st.s with
  | none => (st, "no-store")
  | some s => let (s', o) := Commit.step shaHs zero s op; ({ s := some s' }, outStr o)

def step (st : St) : List String → St × String
  | ["new", cfg, ext] =>
    match cfg? cfg, bool? ext with
    | some cfg, some ext => ({ s := some (Commit.init shaHs cfg ext) }, "ok")
    | _, _ => (st, "bad-op")
  | ["own", ts, md, es, hasPre, preOk] =>
    match ts.toNat?, Bytes.ofHex md, entries? es, bool? hasPre, bool? preOk with
    | some ts, some md, some es, some hp, some po => apply st (.own ⟨ts, md, es, hp, po⟩)
    | _, _, _, _, _ => (st, "bad-op")
  | ["rep", hdr, es, skip] =>
    match hdr? hdr, entries? es, bool? skip with
    | some h, some es, some sk => apply st (.rep ⟨h, es, sk⟩)
    | _, _, _ => (st, "bad-op")
  | ["sync"] => apply st .sync
  | ["discard", t] => match t.toNat? with | some t => apply st (.discard t) | none => (st, "bad-op")
  | ["allow", t] => match t.toNat? with | some t => apply st (.allow t) | none => (st, "bad-op")
  | ["setext", b] => match bool? b with | some b => apply st (.setExt b) | none => (st, "bad-op")
  | ["close"] => apply st .close
  | ["open", cfg, ext] =>
    match cfg? cfg, bool? ext with
    | some cfg, some ext => apply st (.open_ cfg ext)
    | _, _ => (st, "bad-op")
  | ["state"] => (st, match st.s with | some s => stateStr s | none => "no-store")
  | _ => (st, "bad-op")

end Driver.C02
