import Driver.Util
import ImmuModel.Mvcc.Model
import ImmuModel.Mvcc.Linearize
/-
Line protocol for C05 (MVCC transactions on the store) and C06 (database-level operations).

c05 new <idx prefixes csv> <key universe csv> <ntx>
c05 wcommit <entries>                       -> <id>
c05 index <j> <n>                           -> ok
c05 op <i> <mi|d> <choice> <op …>           -> result   (one API call of tx i; mi = SnapshotMustIncludeTxID value)
      get <k> <ignDel> | pget <p> <neq> <ignDel> | scan <seek> <end> <pfx> <iS> <iE> <desc> <off> <ignDel> <segs csv>
      mark <seek> <end> <pfx> <iS> <iE> <desc> | set <k> <v> | del <k> | commit | cancel
c05 verdict <i> <lo> <hi>                   -> conflict | ok   (checkPreconditions on LogView m for some m in [lo,hi])
c05 solo <i> <n>                            -> trace of tx i's program run alone on LogView n
c05 snaps <i>                               -> pfx:base:wrote,…

entries: k:v:d,k:v:d   (hex, "-" = empty, d in 0/1) ; "_" = none
-/
namespace Driver.C05
open ImmuModel ImmuModel.Mvcc

structure St where
  cfg : Cfg := { idxs := [], U := [] }
  sys : Sys := { idx := [], txs := [] }
  progs : List (List Op) := []

def b? (s : String) : Option Bool := if s == "1" then some true else if s == "0" then some false else none
def b2s (b : Bool) : String := if b then "1" else "0"

def entry? (s : String) : Option Entry :=
  match s.splitOn ":" with
  | [k, v, d] => match Bytes.ofHex k, Bytes.ofHex v, b? d with
    | some k, some v, some d => some ⟨k, v, d⟩
    | _, _, _ => none
  | _ => none

def entries? (s : String) : Option WriteSet :=
  if s == "_" then some [] else (s.splitOn ",").mapM entry?

def nats? (s : String) : Option (List Nat) :=
  if s == "_" then some [] else (s.splitOn ",").mapM (·.toNat?)

def fmtVer (k : Bytes) (v : Ver) : String :=
  s!"{Bytes.toHexTok k}:{v.tx}:{Bytes.toHexTok v.val}:{b2s v.del}"

def fmtRows (rows : List (Bytes × Ver)) : String :=
  if rows.isEmpty then "_" else ";".intercalate (rows.map fun r => fmtVer r.1 r.2)

def fmtRes : Res → String
  | .found k v => s!"f {fmtVer k v}"
  | .notFound => "nf"
  | .rows segs => "rows " ++ (if segs.isEmpty then "." else "|".intercalate (segs.map fmtRows))
  | .ok => "ok"
  | .committed id => s!"committed {id}"
  | .conflict => "conflict"
  | .cancelled => "cancelled"
  | .closed => "closed"
  | .noEntries => "noentries"
  | .noIndex => "noindex"

def spec? : List String → Option ScanSpec
  | [seek, endK, pfx, iS, iE, desc, off, ign] =>
    match Bytes.ofHex seek, Bytes.ofHex endK, Bytes.ofHex pfx, b? iS, b? iE, b? desc, off.toNat?, b? ign with
    | some seek, some endK, some pfx, some iS, some iE, some desc, some off, some ign =>
      some { seek := seek, endK := endK, pfx := pfx, inclSeek := iS, inclEnd := iE, desc := desc, offset := off, ignDel := ign }
    | _, _, _, _, _, _, _, _ => none
  | _ => none

def op? : List String → Option Op
  | ["get", k, ign] => do let k ← Bytes.ofHex k; let i ← b? ign; pure (.get k i)
  | ["pget", p, neq, ign] => do let p ← Bytes.ofHex p; let n ← Bytes.ofHex neq; let i ← b? ign; pure (.getPrefix p n i)
  | ["scan", seek, endK, pfx, iS, iE, desc, off, ign, segs] => do
      let s ← spec? [seek, endK, pfx, iS, iE, desc, off, ign]
      let g ← nats? segs
      pure (.scan s g)
  | ["mark", seek, endK, pfx, iS, iE, desc] => do
      let s ← spec? [seek, endK, pfx, iS, iE, desc, "0", "1"]
      pure (.markPrefix s)
  | ["set", k, v] => do let k ← Bytes.ofHex k; let v ← Bytes.ofHex v; pure (.set k v)
  | ["del", k] => do let k ← Bytes.ofHex k; pure (.delete k)
  | ["commit"] => some .commit
  | ["cancel"] => some .cancel
  | _ => none

def lastRes (s : Sys) (i : Nat) : String :=
  match s.txs[i]? with
  | some tx => match tx.trace.getLast? with
    | some r => fmtRes r
    | none => "none"
  | none => "no-tx"

def step (st : St) : List String → St × String
  | ["new", idxs, u, ntx] =>
    match parseCsv idxs, parseCsv u, ntx.toNat? with
    | some idxs, some u, some ntx =>
      let cfg : Cfg := { idxs := idxs, U := u }
      ({ cfg := cfg, sys := initSys cfg (List.replicate ntx ([], none)), progs := List.replicate ntx [] }, "ok")
    | _, _, _ => (st, "bad-op")
  | ["wcommit", es] =>
    match entries? es with
    | some ws =>
      let s := Mvcc.step st.cfg st.sys (.wcommit ws)
      ({ st with sys := s }, toString s.log.length)
    | none => (st, "bad-op")
  | ["index", j, n] =>
    match j.toNat?, n.toNat? with
    | some j, some n => ({ st with sys := Mvcc.step st.cfg st.sys (.index j n) }, "ok")
    | _, _ => (st, "bad-op")
  | "op" :: i :: mi :: choice :: rest =>
    match i.toNat?, choice.toNat?, op? rest with
    | some i, some choice, some op =>
      match st.sys.txs[i]? with
      | none => (st, "no-tx")
      | some tx =>
        let mi' : Option Nat := if mi == "d" then none else mi.toNat?
        let tx := { tx with prog := [op], mustIncl := mi' }
        let s0 := { st.sys with txs := st.sys.txs.set i tx }
        let s := Mvcc.step st.cfg s0 (.op i choice)
        let progs := st.progs.set i ((st.progs.getD i []) ++ [op])
        ({ st with sys := s, progs := progs }, lastRes s i)
    | _, _, _ => (st, "bad-op")
  | ["verdict", i, lo, hi] =>
    match i.toNat?, lo.toNat?, hi.toNat? with
    | some i, some lo, some hi =>
      match st.sys.txs[i]? with
      | none => (st, "no-tx")
      | some tx =>
        let ms := (List.range (hi + 1 - lo)).map (· + lo)
        let conflict := ms.any fun m => !(tx.rs.isEmpty || checkPreconditions st.cfg (st.sys.log.take m) tx)
        let tx' := { tx with status := if conflict then .conflict else tx.status, prog := [] }
        ({ st with sys := { st.sys with txs := st.sys.txs.set i tx' } }, if conflict then "conflict" else "ok")
    | _, _, _ => (st, "bad-op")
  | ["solo", i, n] =>
    match i.toNat?, n.toNat? with
    | some i, some n =>
      let prog := st.progs.getD i []
      (st, " / ".intercalate ((soloTrace st.cfg st.sys.log n prog).map fmtRes))
    | _, _ => (st, "bad-op")
  | ["snaps", i] =>
    match i.toNat? with
    | some i =>
      match st.sys.txs[i]? with
      | some tx => (st, if tx.snaps.isEmpty then "_" else
          ",".intercalate (tx.snaps.map fun s => s!"{Bytes.toHexTok s.pfx}:{s.base}:{b2s s.wrote}"))
      | none => (st, "no-tx")
    | none => (st, "bad-op")
  | _ => (st, "bad-op")

end Driver.C05
