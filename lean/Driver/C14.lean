import Driver.Util
import ImmuModel.Store.Truncate
import ImmuModel.Store.TruncateDb
namespace Driver.C14
open ImmuModel.Store.Truncate

structure St where
  s : Store := { F := 1, maxIO := 1 }

def parseNats (sep : String) (s : String) : Option (List Nat) :=
  if s == "_" then some [] else (s.splitOn sep).mapM (·.toNat?)

def parseEnt (s : String) : Option Ent :=
  match s.splitOn ":" with
  | [a, b, c] =>
    match a.toNat?, b.toNat?, c.toNat? with
    | some a, some b, some c => some ⟨a, b, c⟩
    | _, _, _ => none
  | _ => none

def parseTx (s : String) : Option TxEnts :=
  if s == "_" then some [] else (s.splitOn ",").mapM parseEnt

def fmtNats (xs : List Nat) : String :=
  if xs.isEmpty then "_" else ",".intercalate (xs.map toString)

def errStr : Err → String
  | .illegalArguments => "illegal"
  | .txNotFound => "txnotfound"
  | .indexOutOfRange => "indexoutofrange"
  | .unexpected => "unexpected"

def insertSorted (x : Nat × Nat) : List (Nat × Nat) → List (Nat × Nat)
  | [] => [x]
  | y :: ys => if x.1 ≤ y.1 then x :: y :: ys else y :: insertSorted x ys

def sortTomb (t : Tomb) : Tomb := t.foldl (fun acc x => insertSorted x acc) []

def insertSortedN (x : Nat) : List Nat → List Nat
  | [] => [x]
  | y :: ys => if x ≤ y then x :: y :: ys else y :: insertSortedN x ys

def sortNats (t : List Nat) : List Nat := t.foldl (fun acc x => insertSortedN x acc) []

def insertSortedS (x : String) : List String → List String
  | [] => [x]
  | y :: ys => if x ≤ y then x :: y :: ys else y :: insertSortedS x ys

def fmtOutcome : Outcome → String
  | .ok => "ok"
  | .panic => "panic"
  | .err es => "err:" ++ "+".intercalate ((es.map errStr).foldl (fun acc x => insertSortedS x acc) [])

def expStr : ExpOut → String
  | .values => "values"
  | .digests => "digests"
  | .errPartial => "err:partial"
  | .errRead => "err:read"
  | .errTx => "err:tx"
  | .blocked => "blocked"

def step (st : St) : List String → St × String
  | ["new", f, io, emb] =>
    match f.toNat?, io.toNat? with
    | some f, some io => ({ s := { F := f, maxIO := io, embedded := emb == "1" } }, "ok")
    | _, _ => (st, "bad-op")
  | ["vlog", v, cur, off, pres] =>
    match v.toNat?, cur.toNat?, off.toNat?, parseNats "," pres with
    | some v, some cur, some off, some pres =>
      ({ s := st.s.setVLog v { cur := cur, offset := off, present := pres } }, "ok")
    | _, _, _, _ => (st, "bad-op")
  | ["tx", ents] =>
    match parseTx ents with
    | some tx => let s := st.s.commitTx tx; ({ s := s }, toString s.last)
    | none => (st, "bad-op")
  | ["tomb", n] =>
    match n.toNat? with
    | none => (st, "bad-op")
    | some n =>
      if st.s.embedded then (st, "-") else
      match tombstones st.s n with
      | .error e => (st, "err:" ++ errStr e)
      | .ok t => (st, if t.isEmpty then "_" else ",".intercalate ((sortTomb t).map (fun p => s!"{p.1}:{p.2}")))
  | ["trunc", n] =>
    match n.toNat? with
    | none => (st, "bad-op")
    | some n => let r := truncateUpto st.s n; ({ s := r.store }, fmtOutcome r.out)
  | ["chunks", v] =>
    match v.toNat? with
    | none => (st, "bad-op")
    | some v => (st, fmtNats (sortNats (st.s.vlogs v).present))
  | ["readable", id] =>
    match id.toNat? with
    | none => (st, "bad-op")
    | some id =>
      if id = 0 ∨ st.s.last < id then (st, "err:tx") else
      match st.s.txs[id - 1]? with
      | none => (st, "err:tx")
      | some tx => (st, if tx.isEmpty then "_" else
          String.join (tx.map (fun e => if st.s.readValue e == .ok then "1" else "0")))
  | ["export", id] =>
    match id.toNat? with
    | none => (st, "bad-op")
    | some id =>
      let (s', o) := st.s.exportTx id
      ({ s := s' }, expStr o ++ (if s'.valBsLocked then " locked=1" else " locked=0"))
  | ["dbtrunc", cp] =>
    -- control flow of pkg/database vlogTruncator.TruncateUptoTx given the outcome of CopySQLCatalog
    (st, if ImmuModel.Store.TruncateDb.truncationRuns (cp == "ok") then "truncated" else "refused")
  | ["unlock"] => ({ s := { st.s with valBsLocked := false } }, "ok")
  | _ => (st, "bad-op")

end Driver.C14
