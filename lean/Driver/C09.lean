import Driver.Util
import ImmuModel.Tx.Concrete
import ImmuModel.Tx.ConcreteD
import ImmuModel.Tx.Scan
import ImmuModel.Tx.ValueCache
import ImmuModel.Tx.EntryDigest
namespace Driver.C09
open ImmuModel ImmuModel.Tx ImmuModel.Tx.Rec

def hexD (d : Digest) : String := Bytes.toHex d.val
def dg? (s : String) : Option Digest := (Bytes.ofHex s).map Digest.ofBytes

def errTok : Err → String
  | .eof => "err:txdata"
  | .alhMismatch => "err:txdata"
  | .corruptedData => "err:data"
  | .unknownVersion => "err:version"
  | .maxEntries => "err:maxentries"
  | .maxKeyLen => "err:maxkeylen"
  | .mdUnsupported => "err:mdunsupported"
  | .unexpected => "err:unexpected"
  | .panic => "panic"

/-- Value reads: every appendable-level failure (EOF, negative offset, missing chunk) is one class. -/
def errTokV : Err → String
  | .eof => "err:io"
  | e => errTok e

def fmtEntry (e : Entry Digest) : String :=
  s!"{Bytes.toHexTok e.md},{Bytes.toHexTok e.key},{e.vLen},{e.vOff},{hexD e.hVal}"

def fmtRecord (r : Record Digest) : String :=
  let h := r.hdr
  let hs := s!"{h.id}:{h.ts}:{h.blTxID}:{hexD h.blRoot}:{hexD h.prevAlh}:{h.version}:{Bytes.toHexTok h.md}:{h.nentries}:{hexD h.eh}"
  let es := if r.entries.isEmpty then "_" else ";".intercalate (r.entries.map fmtEntry)
  s!"{hs}|{es}|{hexD r.storedAlh}"

def entry? (s : String) : Option (Entry Digest) :=
  match s.splitOn "," with
  | [md, key, vLen, vOff, hVal] =>
    match Bytes.ofHex md, Bytes.ofHex key, vLen.toNat?, vOff.toNat?, dg? hVal with
    | some md, some key, some vLen, some vOff, some hVal => some ⟨md, key, vLen, vOff, hVal⟩
    | _, _, _, _, _ => none
  | _ => none

def record? (s : String) : Option (Record Digest) :=
  match s.splitOn "|" with
  | [h, es, a] =>
    match h.splitOn ":" with
    | [id, ts, bl, blRoot, prev, ver, md, ne, eh] =>
      match id.toNat?, ts.toNat?, bl.toNat?, dg? blRoot, dg? prev, ver.toNat?, Bytes.ofHex md, ne.toNat?, dg? eh,
            (if es == "_" then some [] else (es.splitOn ";").mapM entry?), dg? a with
      | some id, some ts, some bl, some blRoot, some prev, some ver, some md, some ne, some eh, some es, some a =>
        some ⟨⟨id, ts, bl, blRoot, prev, ver, md, ne, eh⟩, es, a⟩
      | _, _, _, _, _, _, _, _, _, _, _ => none
    | _ => none
  | _ => none

def step : List String → String
  | ["parse", me, mk, hex] =>
    match me.toNat?, mk.toNat?, Bytes.ofHex hex with
    | some me, some mk, some bs =>
      match parseTx shaHsD ⟨me, mk⟩ bs with
      | .ok r => "ok " ++ fmtRecord r
      | .error e => errTok e
    | _, _, _ => "bad-op"
  | ["step", dir, me, mk, cur, hex] =>
    let cur? : Option (Option Digest) := if cur == "none" then some none else (dg? cur).map some
    match me.toNat?, mk.toNat?, cur?, Bytes.ofHex hex with
    | some me, some mk, some cur, some bs =>
      let res := if dir == "desc" then scanStepDesc shaHsD ⟨me, mk⟩ cur bs else scanStepAsc shaHsD ⟨me, mk⟩ cur bs
      match res with
      | .ok (_, c) => "ok " ++ hexD c
      | .error e => errTok e
    | _, _, _, _ => "bad-op"
  | ["ser", rec] =>
    match record? rec with
    | some r => match serializeTx shaHsD r with
      | some b => Bytes.toHexTok b
      | none => "panic"
    | none => "bad-op"
  | ["rv", emb, maxIO, maxVal, vLen, vOff, hVal, logs, txLog] =>
    match maxIO.toNat?, maxVal.toNat?, vLen.toNat?, vOff.toNat?, dg? hVal, parseCsv logs, Bytes.ofHex txLog with
    | some maxIO, some maxVal, some vLen, some vOff, some hVal, some logs, some txLog =>
      match readValue shaHs ⟨emb == "1", maxIO, maxVal⟩ logs txLog ⟨[], [], vLen, vOff, hVal⟩ with
      | .ok v => "ok " ++ Bytes.toHexTok v
      | .error e => errTokV e
    | _, _, _, _, _, _, _ => "bad-op"
  -- value read through the value-log cache: <cached> = off (no cache) | none (nothing cached at vOff) | hex (the cached bytes)
  | ["rvc", emb, maxIO, maxVal, vLen, vOff, hVal, logs, txLog, cached] =>
    match maxIO.toNat?, maxVal.toNat?, vLen.toNat?, vOff.toNat?, dg? hVal, parseCsv logs, Bytes.ofHex txLog with
    | some maxIO, some maxVal, some vLen, some vOff, some hVal, some logs, some txLog =>
      let cache? : Option (Option VCache) :=
        if cached == "off" then some none
        else if cached == "none" then some (some [])
        else (Bytes.ofHex cached).map (fun b => some [(vOff, b)])
      match cache? with
      | some cache =>
        match (readValueC shaHs ⟨emb == "1", maxIO, maxVal⟩ logs txLog cache ⟨[], [], vLen, vOff, hVal⟩).2 with
        | .ok v => "ok " ++ Bytes.toHexTok v
        | .error e => errTokV e
      | none => "bad-op"
    | _, _, _, _, _, _, _ => "bad-op"
  -- the entry digest function selected by the header version, evaluated on a list of entries
  -- (refusals included) and the entry-tree root on top: `ok <digest>,…|<Eh>` | error class
  | ["dg", ver, es] =>
    match ver.toNat?, (es.splitOn ";").mapM entry? with
    | some ver, some es =>
      match digestsOf shaHsD ver es, ehChecked shaHsD ver es with
      | .ok ds, .ok eh => "ok " ++ ",".intercalate (ds.map hexD) ++ "|" ++ hexD eh
      | .error e, _ => errTok e
      | _, .error e => errTok e
    | _, _ => "bad-op"
  | _ => "bad-op"

end Driver.C09
