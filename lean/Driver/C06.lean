import Driver.Util
import Driver.C05
import ImmuModel.Mvcc.Linearize
/-
c06 new <key universe csv>
c06 write <entries> <pres>        -> applied <id> | rejected <ver>      pres: e:<k>,n:<k>,m:<k>:<tx> | _
c06 getall-steps <t> <hi> <ks csv>  -> the answer of GetAll run through the STEP model: snapshot at ts t, index advanced to hi, one step per key, return
c06 read <t> get <k> | getall <ks csv> | scan <seek> <end> <pfx> <iS> <iE> <desc> <off> <limit> | history <k> | count <pfx>
-/
namespace Driver.C06
open ImmuModel ImmuModel.Mvcc Driver.C05

structure St where
  cfg : Cfg := { idxs := [[]], U := [] }
  log : Log := []

def pre? (s : String) : Option Pre :=
  match s.splitOn ":" with
  | ["e", k] => (Bytes.ofHex k).map .mustExist
  | ["n", k] => (Bytes.ofHex k).map .mustNotExist
  | ["m", k, t] => match Bytes.ofHex k, t.toNat? with
    | some k, some t => some (.notModifiedAfter k t)
    | _, _ => none
  | _ => none

def pres? (s : String) : Option (List Pre) :=
  if s == "_" then some [] else (s.splitOn ",").mapM pre?

def fmtQ : QRes → String
  | .entry k v refTx => s!"e {fmtVer k v} {refTx}"
  | .notFound => "nf"
  | .entries es => s!"es {fmtRows es}"
  | .num n => s!"n {n}"

def query? : List String → Option Query
  | ["get", k] => (Bytes.ofHex k).map .get
  | ["getall", ks] => (parseCsv ks).map .getAll
  | ["scan", seek, endK, pfx, iS, iE, desc, off, limit] => do
      let s ← spec? [seek, endK, pfx, iS, iE, desc, off, "1"]
      let l ← limit.toNat?
      pure (.scan s l)
  | ["history", k] => (Bytes.ofHex k).map .history
  | ["count", p] => (Bytes.ofHex p).map .count
  | _ => none

def step (st : St) : List String → St × String
  | ["new", u] =>
    match parseCsv u with
    | some u => ({ cfg := { idxs := [[]], U := u }, log := [] }, "ok")
    | none => (st, "bad-op")
  | ["write", es, ps] =>
    match entries? es, pres? ps with
    | some ws, some pre =>
      let last := st.log.length
      if presHold st.log last pre then ({ st with log := st.log ++ [ws] }, s!"applied {last + 1}")
      else (st, s!"rejected {last}")
    | _, _ => (st, "bad-op")
  | ["getall-steps", t, hi, ks] =>
    match t.toNat?, hi.toNat?, parseCsv ks with
    | some t, some hi, some ks =>
      -- the database after tx t was committed and indexed, all later transactions already precommitted
      let d0 : Db := { log := st.log, committed := t, idx := t, hub := t, clients := [{}] }
      let sched : List DbStep :=
        [.invoke 0 (.read (.getAll ks)), .rdone 0 0, .sync hi, .index hi] ++ List.replicate (ks.length + 1) (.rdone 0 0)
      match (dbRun st.cfg d0 sched).hist.getLast? with
      | some r => match r.out with
        | .answer _ res => (st, fmtQ res)
        | _ => (st, "no-answer")
      | none => (st, "unfinished")
    | _, _, _ => (st, "bad-op")
  | "read" :: t :: q =>
    match t.toNat?, query? q with
    | some t, some q => (st, fmtQ (evalQuery st.cfg st.log t q))
    | _, _ => (st, "bad-op")
  | _ => (st, "bad-op")

end Driver.C06
