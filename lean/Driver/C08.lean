import Driver.Util
import ImmuModel.Merkle.Concrete
import ImmuModel.Merkle.AHTree
import ImmuModel.Merkle.HTree
import ImmuModel.Merkle.Verify
namespace Driver.C08
open ImmuModel ImmuModel.Merkle

structure St where
  f : AHTFile Bytes := AHTFile.new 1
  ht : HTree.T Bytes := HTree.build shaMHh id []

def errStr : AHT.Err → String
  | .illegalArguments => "err:illegal"
  | .emptyTree => "err:empty"
  | .unexistentData => "err:unexistent"
  | .internal => "err:internal"

def b2s (b : Bool) : String := if b then "true" else "false"

/-- `Size()` and `Root()` of the current tree -/
def sizeRoot (f : AHTFile Bytes) : String :=
  let t := f.cur
  if t.size = 0 then "0 err:empty"
  else
    let r := match AHT.rootAt t t.size with | .ok r => Bytes.toHex r | .error e => errStr e
    s!"{t.size} {r}"

def step (s : St) : List String → St × String
  | ["aht.new", n] =>
    match n.toNat? with
    | none => (s, "bad-op")
    | some n => ({ s with f := AHTFile.new n }, "ok")
  | ["aht.sync"] => ({ s with f := s.f.sync }, "ok")
  | ["aht.reopen", n] =>
    match n.toNat? with
    | none => (s, "bad-op")
    | some n => let f := s.f.reopen n; ({ s with f := f }, toString f.cur.size)
  | ["aht.append", d] =>
    match Bytes.ofHex d with
    | none => (s, "bad-op")
    | some d =>
      match AHTFile.append shaMH s.f d with
      | none => (s, "err:internal")
      | some f =>
        let t := f.cur
        let r := match AHT.rootAt t t.size with | .ok r => Bytes.toHex r | .error e => errStr e
        ({ s with f := f }, s!"{t.size} {r}")
  | ["aht.reset", n] =>
    match n.toNat? with
    | none => (s, "bad-op")
    | some n => match AHTFile.resetSize s.f n with
      | none => (s, "err:larger")
      | some f => ({ s with f := f }, "ok")
  -- operations that returned an error because a call on an underlying log failed (fault histories):
  -- the model state after the step, answered as "<size> <root>"
  | ["aht.appendfail", d] =>
    match Bytes.ofHex d with
    | none => (s, "bad-op")
    | some d => let f := s.f.appendFail d; ({ s with f := f }, sizeRoot f)
  | ["aht.syncfail"] => let f := s.f.syncFail; ({ s with f := f }, sizeRoot f)
  | ["aht.resetfail", m, sy] =>
    match m.toNat? with
    | none => (s, "bad-op")
    | some m => let f := s.f.resetFail m (sy == "1"); ({ s with f := f }, sizeRoot f)
  | ["aht.readfail"] => (s, sizeRoot s.f)
  | ["aht.size"] => (s, toString s.f.cur.size)
  | ["aht.root", n] =>
    match n.toNat? with
    | none => (s, "bad-op")
    | some n => (s, match AHT.rootAt s.f.cur n with | .ok r => Bytes.toHex r | .error e => errStr e)
  | ["aht.data", n] =>
    match n.toNat? with
    | none => (s, "bad-op")
    | some n => (s, match AHT.dataAt s.f.cur n with | .ok r => Bytes.toHexTok r | .error e => errStr e)
  | ["aht.iproof", i, j] =>
    match i.toNat?, j.toNat? with
    | some i, some j => (s, match AHT.inclusionProofAPI s.f.cur i j with | .ok p => fmtCsv p | .error e => errStr e)
    | _, _ => (s, "bad-op")
  | ["aht.cproof", i, j] =>
    match i.toNat?, j.toNat? with
    | some i, some j => (s, match AHT.consistencyProofAPI s.f.cur i j with | .ok p => fmtCsv p | .error e => errStr e)
    | _, _ => (s, "bad-op")
  | ["vincl", p, i, j, leaf, root] =>
    match parseCsv p, i.toNat?, j.toNat?, Bytes.ofHex leaf, Bytes.ofHex root with
    | some p, some i, some j, some leaf, some root => (s, b2s (verifyInclusion shaMH p i j leaf root))
    | _, _, _, _, _ => (s, "bad-op")
  | ["vcons", p, i, j, r1, r2] =>
    match parseCsv p, i.toNat?, j.toNat?, Bytes.ofHex r1, Bytes.ofHex r2 with
    | some p, some i, some j, some r1, some r2 => (s, b2s (verifyConsistency shaMH p i j r1 r2))
    | _, _, _, _, _ => (s, "bad-op")
  | ["vlast", p, i, leaf, root] =>
    match parseCsv p, i.toNat?, Bytes.ofHex leaf, Bytes.ofHex root with
    | some p, some i, some leaf, some root => (s, b2s (verifyLastInclusion shaMH p i leaf root))
    | _, _, _, _ => (s, "bad-op")
  | ["ht.build", ds] =>
    match parseCsv ds with
    | none => (s, "bad-op")
    | some ds =>
      let t := HTree.build shaMHh id ds
      ({ s with ht := t }, Bytes.toHex t.root)
  | ["ht.proof", i] =>
    match i.toNat? with
    | none => (s, "bad-op")
    | some i => (s, match HTree.inclusionProof s.ht i with
        | none => "err:illegal"
        | some p => s!"{p.leaf} {p.width} {fmtCsv p.terms}")
  | ["ht.verify", leaf, width, terms, dg, root] =>
    match leaf.toInt?, width.toInt?, parseCsv terms, Bytes.ofHex dg, Bytes.ofHex root with
    | some l, some w, some ts, some dg, some root =>
      (s, b2s (hVerifyInclusion shaMHh id ⟨l, w, ts⟩ dg root))
    | _, _, _, _, _ => (s, "bad-op")
  | _ => (s, "bad-op")

end Driver.C08
