import Driver.Util
import ImmuModel.Index.MVMap
import ImmuModel.Index.Snapshot
import ImmuModel.Index.BTree
namespace Driver.C10
open ImmuModel ImmuModel.Index

/-- Driver state: the logical state machine plus the B+tree implementation model run in parallel
(same flush / rollback / reopen decisions, read off the logical state). The tree is used for two
things: its depth is part of the answer to `ins` (compared with tbtree's depth gauge), and after every
operation its abstraction must equal the logical map (else the answer carries `TREE-DIVERGED`). -/
structure St where
  s : TState := {}
  maxNodeSize : Nat := 4096
  tree : Node := Node.empty
  lastTree : Option Node := none
  dumpTrees : List (Nat × Node) := []

/-- Follow the logical transition `s → s'` (already containing the op's own tree update in `tree`). -/
def follow (st : St) (s' : TState) (tree : Node) : St :=
  let tree := if !s'.mutated then tree.flushT else tree
  let lastTree := if s'.lastSnap.isNone then none else if !s'.mutated then some tree else st.lastTree
  { st with s := s', tree := tree, lastTree := lastTree }

def diverged (st : St) : String :=
  if st.tree.abs == st.s.cur.entries then "" else " TREE-DIVERGED"

def errStr : Err → String
  | .illegal => "err:illegal"
  | .keyNotFound => "err:notfound"
  | .noMoreEntries => "err:nomore"
  | .offsetOutOfRange => "err:offset"
  | .maxKeySize => "err:maxkey"
  | .maxValueSize => "err:maxval"
  | .closed => "err:closed"
  | .tooManySnapshots => "err:toomanysnaps"
  | .snapshotsNotClosed => "err:snapsopen"
  | .thresholdNotReached => "err:threshold"
  | .other => "err:other"

def unitStr : Except Err Unit → String
  | .ok _ => "ok"
  | .error e => errStr e

def b? (s : String) : Option Bool := if s == "1" then some true else if s == "0" then some false else none

/-- `k:v:t,k:v:t,…` -/
def parseKvts (s : String) : Option (List (Bytes × Bytes × Nat)) :=
  if s == "_" then some [] else
  (s.splitOn ",").mapM fun tok =>
    match tok.splitOn ":" with
    | [k, v, t] => do
      let k ← Bytes.ofHex k
      let v ← Bytes.ofHex v
      let t ← t.toNat?
      pure (k, v, t)
    | _ => none

def fmtRow (r : MVMap.Row) : String :=
  s!"{Bytes.toHexTok r.1}:{Bytes.toHexTok r.2.1}:{r.2.2.1}:{r.2.2.2}"

def fmtRows (rs : List MVMap.Row) : String :=
  if rs.isEmpty then "_" else ",".intercalate (rs.map fmtRow)

def fmtTvs (tvs : List TV) : String :=
  if tvs.isEmpty then "_" else ",".intercalate (tvs.map fun tv => s!"{Bytes.toHexTok tv.value}:{tv.ts}")

/-- `t` = the live tree, otherwise the name (number) of an open snapshot. -/
def target (s : TState) (tok : String) : Option MVMap :=
  if tok == "t" then (if s.closed then none else some s.cur)
  else tok.toNat?.bind s.snapOf

def fmt3 : Except Err (Bytes × Nat × Nat) → String
  | .ok (v, ts, hc) => s!"{Bytes.toHexTok v} {ts} {hc}"
  | .error e => errStr e

/-- `ins`: the logical transition, plus the same bulk through the B+tree model. -/
def doIns (st : St) (kvts : List (Bytes × Bytes × Nat)) : St × String :=
  let s := st.s
  let (s', r) := s.bulkInsert kvts
  match r with
  | .ok _ =>
    -- the entries the tree receives are the validated ones (T = 0 resolved)
    let s1 := s.preFlush (TState.estimateSize kvts)
    let st1 := follow st s1 st.tree
    match TState.validate s1.cfg s1.cur.ts kvts with
    | .ok vs =>
      match Node.insertRoot st.maxNodeSize st1.tree vs with
      | .ok tree' =>
        let st' := follow { st1 with s := s' } s' tree'
        (st', s!"ok {tree'.depth}{diverged st'}")
      | .error _ => ({ st1 with s := s' }, "ok TREE-INSERT-FAILED")
    | .error _ => ({ st1 with s := s' }, "ok TREE-VALIDATE-FAILED")
  | .error e =>
    if s.closed || kvts.isEmpty then (st, errStr e) else
    let s1 := s.preFlush (TState.estimateSize kvts)
    let st1 := follow st s1 st.tree
    -- rollback: a failing root.insert (not a validation error) with a mutated root
    let rolled := s1.mutated && (match TState.validate s1.cfg s1.cur.ts kvts with | .ok _ => true | .error _ => false)
    let tree := if rolled then (match st1.lastTree with | some t => t | none => Node.empty) else st1.tree
    let st' := follow { st1 with s := s' } s' tree
    (st', errStr e ++ diverged st')

def step (st : St) : List String → St × String
  | ["open", flushThld, maxBuf, cleanup, maxActive, maxKey, maxVal, compThld, maxNode] =>
    match flushThld.toNat?, maxBuf.toNat?, b? cleanup, maxActive.toNat?, maxKey.toNat?, maxVal.toNat?, compThld.toNat?, maxNode.toNat? with
    | some a, some b, some c, some d, some e, some f, some g, some h =>
      ({ s := { cfg := { flushThld := a, maxBuffered := b, cleanupNonzero := c, maxActive := d, maxKeySize := e,
                         maxValueSize := f, compactionThld := g } }, maxNodeSize := h }, "ok")
    | _, _, _, _, _, _, _, _ => (st, "bad-op")
  | ["ins", kvts] =>
    match parseKvts kvts with
    | none => (st, "bad-op")
    | some kvts => doIns st kvts
  | ["incts", n] =>
    match n.toNat? with
    | none => (st, "bad-op")
    | some n => let (s', r) := st.s.increaseTs n; let st' := follow st s' st.tree; (st', unitStr r ++ diverged st')
  | ["flush", valid, nonzero, _, _] =>
    match b? valid, b? nonzero with
    | some v, some nz => let (s', r) := st.s.flushWith v nz; let st' := follow st s' st.tree; (st', unitStr r ++ diverged st')
    | _, _ => (st, "bad-op")
  | ["sync"] => let (s', r) := st.s.sync; let st' := follow st s' st.tree; (st', unitStr r ++ diverged st')
  | ["ts"] => (st, toString st.s.cur.ts)
  | ["snap", name, ts] =>
    match name.toNat?, ts.toNat? with
    | some name, some ts =>
      let (s', r) := st.s.snapshot name ts
      let st' := follow st s' st.tree
      (st', (match r with | .ok t => s!"ok {t}" | .error e => errStr e) ++ diverged st')
    | _, _ => (st, "bad-op")
  | ["sclose", name] =>
    match name.toNat? with
    | none => (st, "bad-op")
    | some name => let (s', r) := st.s.closeSnapshot name; ({ st with s := s' }, unitStr r)
  | ["compact"] =>
    let (s', r) := st.s.compact
    let st' := follow st s' st.tree
    match r with
    | .ok t => ({ st' with dumpTrees := (t, st'.tree) :: st'.dumpTrees }, s!"ok {t}{diverged st'}")
    | .error e => (st', errStr e ++ diverged st')
  | ["close"] => let (s', r) := st.s.close; let st' := follow st s' st.tree; (st', unitStr r ++ diverged st')
  | ["reopen"] =>
    let s' := st.s.reopen
    let tree := if s'.loadedId != st.s.loadedId then
        (match st.dumpTrees.find? (fun p => p.1 == s'.loadedId) with | some p => p.2 | none => st.tree)
      else st.tree
    -- the loaded root is `lastSnapRoot` (what a failing insert rolls back to)
    let st' : St := if !st.s.closed then st else
      { st with s := s', tree := tree, lastTree := some tree, dumpTrees := [] }
    (st', s!"ok {s'.cur.ts}{diverged st'}")
  | ["get", tg, k] =>
    match target st.s tg, Bytes.ofHex k with
    | some m, some k =>
      -- on the live tree the B+tree model's descent must agree with the map
      let a := fmt3 (m.get k)
      if tg == "t" && fmt3 (st.tree.get k) != a then (st, a ++ " TREE-GET-DIVERGED") else (st, a)
    | _, _ => (st, "bad-op")
  | ["getbetween", tg, k, t1, t2] =>
    match target st.s tg, Bytes.ofHex k, t1.toNat?, t2.toNat? with
    | some m, some k, some t1, some t2 => (st, fmt3 (m.getBetween k t1 t2))
    | _, _, _, _ => (st, "bad-op")
  | ["hist", tg, k, off, desc, limit] =>
    match target st.s tg, Bytes.ofHex k, off.toNat?, b? desc, limit.toInt? with
    | some m, some k, some off, some desc, some limit =>
      (st, match m.history k off desc limit with
          | .ok (tvs, n) => s!"{fmtTvs tvs} {n}"
          | .error e => errStr e)
    | _, _, _, _, _ => (st, "bad-op")
  | ["gwp", tg, pfx, neq] =>
    match target st.s tg, Bytes.ofHex pfx, Bytes.ofHex neq with
    | some m, some pfx, some neq =>
      (st, match m.getWithPrefix pfx neq with
          | .ok (k, v, ts, hc) => s!"{Bytes.toHexTok k} {Bytes.toHexTok v} {ts} {hc}"
          | .error e => errStr e)
    | _, _, _ => (st, "bad-op")
  | ["scan", tg, seek, endk, pfx, iseek, iend, hist, desc, off] =>
    match target st.s tg, Bytes.ofHex seek, Bytes.ofHex endk, Bytes.ofHex pfx, b? iseek, b? iend, b? hist, b? desc, off.toNat? with
    | some m, some seek, some endk, some pfx, some iseek, some iend, some hist, some desc, some off =>
      (st, match m.scan st.s.cfg.maxKeySize ⟨seek, endk, pfx, iseek, iend, hist, desc, off⟩ with
          | .ok rows => fmtRows rows
          | .error e => errStr e)
    | _, _, _, _, _, _, _, _, _ => (st, "bad-op")
  | ["scanb", tg, seek, endk, pfx, iseek, iend, desc, off, t1, t2] =>
    match target st.s tg, Bytes.ofHex seek, Bytes.ofHex endk, Bytes.ofHex pfx, b? iseek, b? iend, b? desc, off.toNat?, t1.toNat?, t2.toNat? with
    | some m, some seek, some endk, some pfx, some iseek, some iend, some desc, some off, some t1, some t2 =>
      (st, match m.scanBetween st.s.cfg.maxKeySize ⟨seek, endk, pfx, iseek, iend, false, desc, off⟩ t1 t2 with
          | .ok rows => fmtRows rows
          | .error e => errStr e)
    | _, _, _, _, _, _, _, _, _, _ => (st, "bad-op")
  | _ => (st, "bad-op")

end Driver.C10
