import Driver.SqlParse
import ImmuModel.Sql.SelectPlan
/-! C11 driver: `tbl`, `row`, `q` (fragment query evaluated by `ImmuModel.Sql.runIndex`),
`plan` / `pq` (query planned by `ImmuModel.Sql.planOf` and executed by `runPlan`). -/
namespace Driver.C11
open ImmuModel ImmuModel.Sql Driver.SqlParse

structure St where
  tbl : Table := { cols := [], pk := [], rows := [] }

/-- `ty:keylen` -/
def parseCol (s : String) : Option Col :=
  match s.splitOn ":" with
  | [ty, ml] => match C15.parseTy ty, ml.toInt? with
    | some ty, some ml => some ⟨ty, ml⟩
    | _, _ => none
  | _ => none

def parseCols : Nat → List String → Option (List Col × List String)
  | 0, rest => some ([], rest)
  | n + 1, t :: rest =>
    match parseCol t, parseCols n rest with
    | some c, some (cs, r) => some (c :: cs, r)
    | _, _ => none
  | _, _ => none

/-- `n` lists, each `<len> c₁ … c_len` -/
def parseNatLists : Nat → List String → Option (List (List Nat) × List String)
  | 0, rest => some ([], rest)
  | n + 1, k :: rest =>
    match k.toNat? with
    | some k =>
      match parseNats k rest with
      | some (l, r) =>
        match parseNatLists n r with
        | some (ls, r') => some (l :: ls, r')
        | none => none
      | none => none
    | none => none
  | _, _ => none

/-- `n` pairs `col desc01` -/
def parseOrd : Nat → List String → Option (List OrdCol × List String)
  | 0, rest => some ([], rest)
  | n + 1, c :: d :: rest =>
    match c.toNat?, parseOrd n rest with
    | some c, some (os, r) => some (⟨c, d == "1"⟩ :: os, r)
    | _, _ => none
  | _, _ => none

/-- `<nsec> {<len> c…}… <hintLen | -1> {c…} <nord> {col desc}… <limit> <offset> <pred…>` -/
def parsePQ (toks : List String) : Option (List (List Nat) × PQuery) :=
  match toks with
  | n :: rest =>
    match n.toNat? with
    | some n =>
      match parseNatLists n rest with
      | some (secs, h :: r1) =>
        let hint : Option (Option (List Nat) × List String) :=
          if h == "-1" then some (none, r1)
          else match h.toNat? with
            | some k => match parseNats k r1 with
              | some (l, r) => some (some l, r)
              | none => none
            | none => none
        match hint with
        | some (hint, no :: r2) =>
          match no.toNat? with
          | some no =>
            match parseOrd no r2 with
            | some (ord, lim :: off :: ptoks) =>
              match lim.toInt?, off.toInt?, parsePred (ptoks.length + 1) ptoks with
              | some lim, some off, some (p, []) =>
                some (secs, { hint := hint, order := ord, limit := if lim < 0 then 0 else lim.toNat,
                              offset := if off < 0 then 0 else off.toNat, where_ := p })
              | _, _, _ => none
            | _ => none
          | none => none
        | _ => none
      | _ => none
    | none => none
  | [] => none

def fmtPlan (pl : Plan) : String :=
  "idx=" ++ ",".intercalate (pl.idx.map toString) ++ " desc=" ++ (if pl.desc then "1" else "0") ++
    " sort=" ++ (if pl.sort then "1" else "0")

def step (s : St) : List String → St × String
  | "tbl" :: n :: rest =>
    match n.toNat? with
    | some n =>
      match parseCols n rest with
      | some (cols, "pk" :: k :: r) =>
        match k.toNat? with
        | some k =>
          match parseNats k r with
          | some (pk, []) => ({ tbl := { cols := cols, pk := pk, rows := [] } }, "ok")
          | _ => (s, "bad-op")
        | none => (s, "bad-op")
      | _ => (s, "bad-op")
    | none => (s, "bad-op")
  | "row" :: rest =>
    match rest.mapM C15.parseVal with
    | some vs => ({ tbl := { s.tbl with rows := s.tbl.rows ++ [vs] } }, "ok")
    | none => (s, "bad-op")
  | "q" :: n :: rest =>
    match n.toNat? with
    | some n =>
      match parseNats n rest with
      | some (idx, desc :: lim :: off :: ptoks) =>
        match lim.toInt?, off.toInt?, parsePred (ptoks.length + 1) ptoks with
        | some lim, some off, some (p, []) =>
          let q : Query := { idx := idx, desc := desc == "1", limit := if lim < 0 then 0 else lim.toNat,
                             offset := if off < 0 then 0 else off.toNat, where_ := p }
          (s, match runIndex s.tbl q with
            | .ok rows => "rows " ++ fmtRows rows
            | .error e => evalErrStr e)
        | _, _, _ => (s, "bad-op")
      | _ => (s, "bad-op")
    | none => (s, "bad-op")
  | "plan" :: rest =>
    match parsePQ rest with
    | some (secs, q) =>
      (s, match q.where_.rangesF [] with
        | .ok mF => fmtPlan (planOf s.tbl.pk secs q.hint q.order mF)
        | .error e => evalErrStr e)
    | none => (s, "bad-op")
  | "pq" :: rest =>
    match parsePQ rest with
    | some (secs, q) =>
      (s, match runPlan s.tbl secs q with
        | .ok (_, rows) => "rows " ++ fmtRows rows
        | .error e => evalErrStr e)
    | none => (s, "bad-op")
  | _ => (s, "bad-op")

end Driver.C11
