import Driver.SqlParse
/-! C11 driver: `tbl`, `row`, `q` (fragment query evaluated by `ImmuModel.Sql.runIndex`). -/
namespace Driver.C11
open ImmuModel ImmuModel.Sql Driver.SqlParse

structure St where
  tbl : Table := { cols := [], pk := [], rows := [] }

/-- `ty:keylen` -/
def parseCol (s : String) : Option Col :=
  match s.splitOn ":" with
  | [ty, ml] => match C15.parseTy ty, ml.toInt? with
    | some ty, some ml => some ⟨ty, ml⟩
    | _, _ => none
  | _ => none

def parseCols : Nat → List String → Option (List Col × List String)
  | 0, rest => some ([], rest)
  | n + 1, t :: rest =>
    match parseCol t, parseCols n rest with
    | some c, some (cs, r) => some (c :: cs, r)
    | _, _ => none
  | _, _ => none

def step (s : St) : List String → St × String
  | "tbl" :: n :: rest =>
    match n.toNat? with
    | some n =>
      match parseCols n rest with
      | some (cols, "pk" :: k :: r) =>
        match k.toNat? with
        | some k =>
          match parseNats k r with
          | some (pk, []) => ({ tbl := { cols := cols, pk := pk, rows := [] } }, "ok")
          | _ => (s, "bad-op")
        | none => (s, "bad-op")
      | _ => (s, "bad-op")
    | none => (s, "bad-op")
  | "row" :: rest =>
    match rest.mapM C15.parseVal with
    | some vs => ({ tbl := { s.tbl with rows := s.tbl.rows ++ [vs] } }, "ok")
    | none => (s, "bad-op")
  | "q" :: n :: rest =>
    match n.toNat? with
    | some n =>
      match parseNats n rest with
      | some (idx, desc :: lim :: off :: ptoks) =>
        match lim.toInt?, off.toInt?, parsePred (ptoks.length + 1) ptoks with
        | some lim, some off, some (p, []) =>
          let q : Query := { idx := idx, desc := desc == "1", limit := if lim < 0 then 0 else lim.toNat,
                             offset := if off < 0 then 0 else off.toNat, where_ := p }
          (s, match runIndex s.tbl q with
            | .ok rows => "rows " ++ fmtRows rows
            | .error e => evalErrStr e)
        | _, _, _ => (s, "bad-op")
      | _ => (s, "bad-op")
    | none => (s, "bad-op")
  | _ => (s, "bad-op")

end Driver.C11
