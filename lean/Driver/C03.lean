import Driver.Util
import ImmuModel.Store.Recover
import ImmuModel.Store.IndexRecover
namespace Driver.C03
open ImmuModel ImmuModel.Store.Crash

abbrev St := ImmuModel.Store.Crash.St

def b? (s : String) : Option Bool := if s == "1" then some true else if s == "0" then some false else none

def choice? : List String → Option Choice
  | [kv, kt, kc, tv, tt, tc] =>
    match kv.toNat?, kt.toNat?, kc.toNat?, b? tv, b? tt, b? tc with
    | some kv, some kt, some kc, some tv, some tt, some tc => some { kv, kt, kc, tv, tt, tc }
    | _, _, _, _, _, _ => none
  | _ => none

/-- one index commit-log entry as the harness describes it: "<synced><valid>", e.g. "01" -/
def ent? (s : String) : Option ImmuModel.Store.IndexRecover.Ent :=
  match s.toList with
  | [a, b] => match b? (String.singleton a), b? (String.singleton b) with
    | some a, some b => some { synced := a, valid := b }
    | _, _ => none
  | _ => none

def ents? : List String → Option (List ImmuModel.Store.IndexRecover.Ent)
  | [] => some []
  | x :: xs => match ent? x, ents? xs with
    | some e, some es => some (e :: es)
    | _, _ => none

def errTok : Err → String
  | .txLogTooSmall => "err:too-small"
  | .lastTxUnreadable => "err:unreadable"
  | .digestMismatch => "err:digest"

def doStep (st : St) (x : Step) (out : St → String) : St × String :=
  match ImmuModel.Store.Crash.step .code st x with
  | some s' => (s', out s')
  | none => (st, "disabled")

def step (st : St) : List String → St × String
  | ["reset", a, e] =>
    match b? a, b? e with
    | some a, some e => ({ allow := if a then some 0 else none, embedded := e }, "ok")
    | _, _ => (st, "bad-op")
  | ["val"] => doStep st .valAppend fun _ => "ok"
  | ["pre"] => doStep st (.txAppend st.pre) fun s => toString s.pre
  | ["syncbegin"] => doStep st .syncBegin fun _ => "ok"
  | ["synctx"] => doStep st .syncTx fun _ => "ok"
  | ["closet"] => doStep st .clSetOffset fun _ => "ok"
  | ["clapp"] => doStep st .clAppend fun s => toString (s.cl.volatile.length - st.cl.volatile.length)
  | ["clsync"] => doStep st .clSync fun _ => "ok"
  | ["ack"] => doStep st .ack fun s => toString s.committed
  | ["isacked", n] => match n.toNat? with
    | some n => (st, if n ≤ st.acked then "true" else "false")
    | none => (st, "bad-op")
  | ["allow", n] => match n.toNat? with
    | some n => doStep st (.allowUpto n) fun s => match s.allow with | some a => toString a | none => "none"
    | none => (st, "bad-op")
  | ["autosync", w] =>
    match w with
    | "tx" => doStep st (.autoSync .tx) fun _ => "ok"
    | "cl" => doStep st (.autoSync .cl) fun _ => "ok"
    | "vl" => doStep st (.autoSync .vl) fun _ => "ok"
    | _ => (st, "bad-op")
  | "crash" :: rest =>
    match choice? rest with
    | some c => match recover (crashImage st c) with
      | .ok r => (st, s!"{r.committed},{r.pre}")
      | .error e => (st, errTok e)
    | none => (st, "bad-op")
  | "restart" :: rest =>
    match choice? rest with
    | some c => match restart st c with
      | .ok s' => (s', s!"{s'.committed},{s'.pre}")
      | .error e => (st, errTok e)
    | none => (st, "bad-op")
  | "idxwalk" :: rest =>
    match ents? rest with
    | some es => (st, toString (ImmuModel.Store.IndexRecover.walk es))
    | none => (st, "bad-op")
  | ["state"] => (st, s!"{st.committed} {st.pre} tx={st.tx.durable.length}+{st.tx.volatile.length}+{st.tx.stale.length} cl={st.cl.durable.length}+{st.cl.volatile.length}+{st.cl.stale.length} acked={st.acked}")
  | _ => (st, "bad-op")

end Driver.C03
