import Driver.C01
import ImmuModel.Client.SqlFlow
/-!
`c01 vrow …`: the verdict of the model of pkg/client `VerifyRow` (`Client.verifyRow`) on the exchange
the real client saw (response after tampering + the row handed to `VerifyRow`).

  c01 vrow stTx stHash pkCountOk pkKey version value entryTx coltypes maxColId colids row
           incl srcHdr tgtHdr inclProof consProof targetBlTxAlh lastIncl linear linearAdvance

* pkKey    : hex | err:<class>          (class: corrupted | pkenc)
* coltypes : "." | id:TYPE,id:TYPE…     (TYPE = the server's type string; unknown strings allowed)
* colids   : "." | hexname:id,…
* row      : "." | hexname=VAL,…  VAL = nil | null | n:<int> | s:<hex> | b:0|1 | bs:<hex> | ts:<int> | f:<float64 bits>
-/
namespace Driver.C01Sql
open ImmuModel ImmuModel.Tx ImmuModel.Store ImmuModel.Client Driver.C01

def list? {α : Type} (s : String) (f : String → Option α) : Option (List α) :=
  if s == "." then some [] else (s.splitOn ",").mapM f

def sqlType? (s : String) : Option Sql.SqlType :=
  match s with
  | "VARCHAR" => some .varchar
  | "INTEGER" => some .integer
  | "BOOLEAN" => some .boolean
  | "BLOB" => some .blob
  | "UUID" => some .uuid
  | "TIMESTAMP" => some .timestamp
  | "FLOAT" => some .float64
  | "JSON" => some .json
  | _ => none

def colType? (s : String) : Option (Nat × Option Sql.SqlType) :=
  match s.splitOn ":" with
  | [id, ty] => id.toNat?.map (fun i => (i, sqlType? ty))
  | _ => none

def colId? (s : String) : Option (Bytes × Nat) :=
  match s.splitOn ":" with
  | [nm, id] => match Bytes.ofHex nm, id.toNat? with
    | some nm, some id => some (nm, id)
    | _, _ => none
  | _ => none

def rowVal? (s : String) : Option (Option RowVal) :=
  if s == "nil" then some none
  else if s == "null" then some (some .null)
  else match s.splitOn ":" with
    | ["n", v] => v.toInt?.map (fun i => some (.n i))
    | ["s", v] => (Bytes.ofHex v).map (fun x => some (.s x))
    | ["b", v] => if v == "1" then some (some (.b true)) else if v == "0" then some (some (.b false)) else none
    | ["bs", v] => (Bytes.ofHex v).map (fun x => some (.bs x))
    | ["ts", v] => v.toInt?.map (fun i => some (.ts i))
    | ["f", v] => v.toNat?.map (fun i => some (.f i))
    | _ => none

def rowCol? (s : String) : Option (Bytes × Option RowVal) :=
  match s.splitOn "=" with
  | [nm, v] => match Bytes.ofHex nm, rowVal? v with
    | some nm, some v => some (nm, v)
    | _, _ => none
  | _ => none

def pkKey? (s : String) : Option (Except RowErr Bytes) :=
  if s == "err:corrupted" then some (.error .corrupted)
  else if s == "err:pkenc" then some (.error .pkEncoding)
  else (Bytes.ofHex s).map .ok

def fmtErr : RowErr → String
  | .illegalArguments => "err:illegal"
  | .unsupportedVersion => "err:version"
  | .corrupted => "err:corrupted"
  | .columnDoesNotExist => "err:nocolumn"
  | .notComparable => "err:notcomparable"
  | .signature => "err:signature"
  | .pkEncoding => "err:pkenc"
  | .outOfModel => "out-of-model"

def vrow : List String → String
  | [stTx, stHash, pkOk, pkKey, ver, value, eTx, colTypes, maxCol, colIds, row, incl, sh, th, ip, cp, tbl, lip, lp, lap] =>
    match stTx.toNat?, dg? stHash, pkKey? pkKey, ver.toNat?, Bytes.ofHex value, eTx.toNat?,
          list? colTypes colType?, maxCol.toNat?, list? colIds colId?, list? row rowCol?, incl? incl with
    | some stTx, some stHash, some pkKey, some ver, some value, some eTx, some colTypes, some maxCol, some colIds, some row, some incl =>
      match hdr? sh, hdr? th, dgs? ip, dgs? cp, dg? tbl, dgs? lip, lp? lp, lap? lap with
      | some sh, some th, some ip, some cp, some tbl, some lip, some lp, some lap =>
        let r : SqlGetResp Digest := ⟨value, eTx, ver, colTypes, maxCol, colIds, incl, ⟨sh, th, ip, cp, tbl, lip, lp, lap⟩⟩
        match verifyRow shaHs (fun _ => true) ⟨stTx, stHash⟩ (pkOk == "1") pkKey row r with
        | none => "panic"
        | some (.ok ns) => s!"ok {ns.txId} {hexD ns.txHash}"
        | some (.error e) => fmtErr e
      | _, _, _, _, _, _, _, _ => "bad-op"
    | _, _, _, _, _, _, _, _, _, _, _ => "bad-op"
  | _ => "bad-op"

end Driver.C01Sql
