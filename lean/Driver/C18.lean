import Driver.Util
import ImmuModel.Auth.Matrix
import ImmuModel.Auth.Streams
/-!
Driver ops for C18 (prefix token `c18`), stateless:
  c18 gate <service> <wire> <handler> <stream01> <cfg: auth multidb maint as 3 bits> <kind> <state> <db>
           <sysadmin01> <permSel> <permNamed> <anyAdmin01> <tx01> <multiLogin01> <sqlPriv01>           → verdict
  c18 snext <handler> <cfg> <kind> <state> <db> <sysadmin01> <permSel> <permNamed> <anyAdmin01> <tx01> <multiLogin01> <sqlPriv01>
           → verdict for a FURTHER message on an already open stream of <handler> | no-stream-facts
  c18 sfacts <handler>          → multi01 recvLoop01 replyInLoop01 loopGates(,) entryGates(,) | no-stream-facts
  c18 perm <method> <code>      → true|false      (auth.HasPermissionForMethod)
  c18 maint <method>            → true|false      (auth.IsMaintenanceMethod)
  c18 effect <handler>          → effect name | unclassified
-/
namespace Driver.C18
open ImmuModel ImmuModel.Auth

structure St where
  dummy : Unit := ()

def bit? : String → Option Bool
  | "0" => some false
  | "1" => some true
  | _ => none

def cfg? (s : String) : Option Config :=
  match s.toList with
  | [a, b, c] =>
    match bit? a.toString, bit? b.toString, bit? c.toString with
    | some a, some b, some c => some ⟨a, b, c⟩
    | _, _, _ => none
  | _ => none

def kind? : String → Option AuthKind
  | "none" => some .none | "token" => some .token | "session" => some .session | _ => none

def state? : String → Option CredState
  | "valid" => some .valid | "stale" => some .stale | "expired-token" => some .expiredToken | _ => none

def db? : String → Option DbSel
  | "none" => some .none | "system" => some .system | "user" => some .user | "missing" => some .missing | _ => none

def effStr : Effect → String
  | .readsData => "readsData" | .writesData => "writesData" | .changesSettings => "changesSettings"
  | .admin => "admin" | .sessionOnly => "sessionOnly" | .unauthenticatedOk => "unauthenticatedOk"

def b2s (b : Bool) : String := if b then "true" else "false"

def step (s : St) : List String → St × String
  | ["gate", svc, wire, h, st, cfg, kind, state, db, sa, ps, pn, aa, tx, ml, sp] =>
    match bit? st, cfg? cfg, kind? kind, state? state, db? db, bit? sa, ps.toNat?, pn.toNat?, bit? aa, bit? tx, bit? ml, bit? sp with
    | some st, some cfg, some kind, some state, some db, some sa, some ps, some pn, some aa, some tx, some ml, some sp =>
      let c : Caller := { kind := kind, state := state, db := db, sysadmin := sa, permSel := ps, permNamed := pn, anyAdmin := aa, tx := tx, multiLogin := ml, sqlPriv := sp }
      (s, (rpcGate cfg c ⟨svc, wire, h, st⟩).toString)
    | _, _, _, _, _, _, _, _, _, _, _, _ => (s, "bad-op")
  | ["snext", h, cfg, kind, state, db, sa, ps, pn, aa, tx, ml, sp] =>
    match cfg? cfg, kind? kind, state? state, db? db, bit? sa, ps.toNat?, pn.toNat?, bit? aa, bit? tx, bit? ml, bit? sp with
    | some cfg, some kind, some state, some db, some sa, some ps, some pn, some aa, some tx, some ml, some sp =>
      let c : Caller := { kind := kind, state := state, db := db, sysadmin := sa, permSel := ps, permNamed := pn, anyAdmin := aa, tx := tx, multiLogin := ml, sqlPriv := sp }
      match streamGate? h with
      | some g => (s, (streamNextGate cfg c g).toString)
      | none => (s, "no-stream-facts")
    | _, _, _, _, _, _, _, _, _, _, _ => (s, "bad-op")
  | ["sfacts", h] =>
    match streamGate? h with
    | some g =>
      let b (x : Bool) : String := if x then "1" else "0"
      let l (xs : List String) : String := if xs.isEmpty then "-" else ",".intercalate xs
      (s, s!"{b (multiRequest g)} {b g.recvLoop} {b g.replyInLoop} {l g.loopGates} {l g.entryGates}")
    | none => (s, "no-stream-facts")
  | ["perm", m, p] =>
    match p.toNat? with
    | some p => (s, b2s (hasPermissionForMethod p m))
    | none => (s, "bad-op")
  | ["maint", m] => (s, b2s (isMaintenanceMethod m))
  | ["effect", h] => (s, match effect? h with | some e => effStr e | none => "unclassified")
  | _ => (s, "bad-op")

end Driver.C18
