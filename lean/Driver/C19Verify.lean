import Driver.Util
import Driver.C01
import ImmuModel.Tx.Concrete
import ImmuModel.Doc.Verify
/-!
Driver op for C19 (g): `c19 vdoc <knownTx> <knownHash> <encKey> <same|differs|undecodable|out-of-range> <encDoc> <entries> <txHdr> <sourceHdr>
<targetHdr> <inclusionProof> <consistencyProof>`; entries = `key:md:hvalue;…` (hex, "-" = empty); headers as in `c01`.
Answer: `ok <txId> <txHash>` | `err:<class>` | `panic`.
-/
namespace Driver.C19V
open ImmuModel ImmuModel.Tx ImmuModel.Store ImmuModel.DocVerify
open Driver.C01 (hdr? dgs? dg? hexD)

def entry? (s : String) : Option (TxEntry Digest) :=
  match s.splitOn ":" with
  | [k, md, hv] => match Bytes.ofHex k, Bytes.ofHex md, dg? hv with
    | some k, some md, some hv => some ⟨k, md, hv⟩
    | _, _, _ => none
  | _ => none

def entries? (s : String) : Option (List (TxEntry Digest)) :=
  if s == "_" then some [] else (s.splitOn ";").mapM entry?

def dc? : String → Option DocCheck
  | "same" => some .same
  | "differs" => some .differs
  | "undecodable" => some .undecodable
  | "out-of-range" => some .outOfRange
  | _ => none

def v2ErrStr : V2Err → String
  | .illegalArguments => "illegal"
  | .sourceNewer => "source-newer"
  | .unexpectedLinking => "linking"
  | .inclusion => "inclusion"
  | .consistency => "consistency"

def vdoc : List String → String
  | [kTx, kHash, encKey, dc, encDoc, ents, xh, sh, th, ip, cp] =>
    match kTx.toNat?, dg? kHash, Bytes.ofHex encKey, dc? dc, Bytes.ofHex encDoc, entries? ents with
    | some kTx, some kHash, some encKey, some dc, some encDoc, some ents =>
      match hdr? xh, hdr? sh, hdr? th, dgs? ip, dgs? cp with
      | some (some xh), some sh, some th, some ip, some cp =>
        match verifyDocument shaHs (fun _ => true) encKey dc ⟨kTx, kHash⟩ ⟨encDoc, ents, xh, ⟨sh, th, ip, cp⟩⟩ with
        | none => "panic"
        | some (.ok ns) => s!"ok {ns.txId} {hexD ns.txHash}"
        | some (.error .invalidProof) => "err:invalid-proof"
        | some (.error .decode) => "err:decode"
        | some (.error .version) => "err:version"
        | some (.error (.dual e)) => "err:dual:" ++ v2ErrStr e
        | some (.error .signature) => "err:signature"
      | _, _, _, _, _ => "bad-op"
    | _, _, _, _, _, _ => "bad-op"
  | _ => "bad-op"

end Driver.C19V
