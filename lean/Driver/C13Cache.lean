import Driver.Util
import ImmuModel.Sql.CatalogCache
/-!
Driver ops for the C13 catalog-cache schedules (prefix token `c13c`), stateful (one engine):
  c13c reset                 → ok            (fresh engine over an empty store)
  c13c newtx <sid> ro|rw     → gen=<n> hit|miss | busy
  c13c ddl <sid>             → ok | notx | readonly
  c13c dml <sid>             → ok | notx | readonly
  c13c commit <sid>          → ok | conflict | notx | readonly
  c13c cancel <sid>          → ok | notx
  c13c reopen                → ok
-/
namespace Driver.C13Cache
open ImmuModel.Sql.CatCache

structure St where
  e : Eng := {}

def ansStr : Ans → String
  | .opened c hit => s!"gen={c} " ++ (if hit then "hit" else "miss")
  | .ok => "ok"
  | .conflict => "conflict"
  | .noTx => "notx"
  | .busy => "busy"
  | .readOnly => "readonly"

def op? : List String → Option Op
  | ["newtx", sid, "ro"] => sid.toNat?.map (fun n => .newTx n true)
  | ["newtx", sid, "rw"] => sid.toNat?.map (fun n => .newTx n false)
  | ["ddl", sid] => sid.toNat?.map .ddl
  | ["dml", sid] => sid.toNat?.map .dml
  | ["commit", sid] => sid.toNat?.map .commit
  | ["cancel", sid] => sid.toNat?.map .cancel
  | ["reopen"] => some .reopen
  | _ => none

def step (s : St) (ts : List String) : St × String :=
  match ts with
  | ["reset"] => ({}, "ok")
  | _ =>
    match op? ts with
    | none => (s, "bad-op")
    | some o =>
      let (e, a) := ImmuModel.Sql.CatCache.step codeCfg s.e o
      ({ e := e }, ansStr a)

end Driver.C13Cache
