import ImmuModel.Base.Bytes
namespace Driver
open ImmuModel

def parseCsv (s : String) : Option (List Bytes) :=
  if s == "_" then some [] else (s.splitOn ",").mapM Bytes.ofHex

def fmtCsv (xs : List Bytes) : String :=
  if xs.isEmpty then "_" else ",".intercalate (xs.map Bytes.toHexTok)

def toks (line : String) : List String :=
  (line.splitOn " ").filter (· ≠ "")

end Driver
