import Driver.Util
import Driver.C15
import ImmuModel.Sql.Query
/-! Token parsers shared by the C11 / C12 / C13 drivers (predicates in prefix notation, column specs). -/
namespace Driver.SqlParse
open ImmuModel ImmuModel.Sql

def parseOp : String → Option CmpOp
  | "eq" => some .eq | "ne" => some .ne | "lt" => some .lt
  | "le" => some .le | "gt" => some .gt | "ge" => some .ge
  | _ => none

def parseVals : Nat → List String → Option (List Val × List String)
  | 0, rest => some ([], rest)
  | n + 1, t :: rest =>
    match C15.parseVal t, parseVals n rest with
    | some v, some (vs, r) => some (v :: vs, r)
    | _, _ => none
  | _, _ => none

/-- prefix notation; fuel bounds the recursion (token count) -/
def parsePred : Nat → List String → Option (Pred × List String)
  | 0, _ => none
  | fuel + 1, toks =>
    match toks with
    | "cmp" :: c :: op :: side :: v :: rest =>
      match c.toNat?, parseOp op, C15.parseVal v with
      | some c, some op, some v => some (.cmp c op (side == "l") v, rest)
      | _, _, _ => none
    | "in" :: c :: neg :: n :: rest =>
      match c.toNat?, n.toNat? with
      | some c, some n =>
        match parseVals n rest with
        | some (vs, r) => some (.inList c (neg == "1") vs, r)
        | none => none
      | _, _ => none
    | "isnull" :: c :: rest => c.toNat?.map (fun c => (Pred.isNull c, rest))
    | "notnull" :: c :: rest => c.toNat?.map (fun c => (Pred.notNull c, rest))
    | "boolcol" :: c :: rest => c.toNat?.map (fun c => (Pred.boolCol c, rest))
    | "const" :: b :: rest => some (.const (b == "1"), rest)
    | "not" :: rest =>
      match parsePred fuel rest with
      | some (p, r) => some (.not p, r)
      | none => none
    | "and" :: rest =>
      match parsePred fuel rest with
      | some (p, r) =>
        match parsePred fuel r with
        | some (q, r') => some (.and p q, r')
        | none => none
      | none => none
    | "or" :: rest =>
      match parsePred fuel rest with
      | some (p, r) =>
        match parsePred fuel r with
        | some (q, r') => some (.or p q, r')
        | none => none
      | none => none
    | _ => none

def parseNats : Nat → List String → Option (List Nat × List String)
  | 0, rest => some ([], rest)
  | n + 1, t :: rest =>
    match t.toNat?, parseNats n rest with
    | some v, some (vs, r) => some (v :: vs, r)
    | _, _ => none
  | _, _ => none

def fmtRow (r : Row) : String := ",".intercalate (r.map C15.fmtVal)

def fmtRows (rs : List Row) : String := ";".intercalate (rs.map fmtRow)

def evalErrStr : EvalErr → String
  | .notComparable => "err:not-comparable"
  | .invalidCondition => "err:invalid-condition"
  | .invalidValue => "err:invalid-value"
  | .noColumn => "err:no-column"
  | .maxLen => "err:max-len"
  | .keyEnc => "err:key-enc"

end Driver.SqlParse
