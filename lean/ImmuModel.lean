import ImmuModel.Base.Bytes
import ImmuModel.Base.Sha256
