import ImmuModel.Merkle.Mth
namespace ImmuModel.Merkle
variable {D : Type}

@[simp] theorem mth_nil (mh : MH D) : mth mh [] = mh.emptyH := by rw [mth]
@[simp] theorem mth_single (mh : MH D) (a : D) : mth mh [a] = a := by rw [mth]

theorem mth_pair (mh : MH D) (a b : D) : mth mh [a, b] = mh.nodeH a b := by
  have h2 : pow2lt (([] : List D).length + 2) = 1 := by show pow2lt 2 = 1; decide
  rw [mth, h2]; simp

theorem mth_triple (mh : MH D) (a b c : D) : mth mh [a, b, c] = mh.nodeH (mh.nodeH a b) c := by
  have h3 : pow2lt ([c].length + 2) = 2 := by show pow2lt 3 = 2; decide
  rw [mth, h3]; simp [mth_pair]

end ImmuModel.Merkle
