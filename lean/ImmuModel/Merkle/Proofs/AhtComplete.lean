/-
Completeness of the ahtree provers (`inclusionProof`, `consistencyProof`) with respect to
the verifiers of verification.go, for an arbitrary hash: on every reachable tree the proof
returned by the prover is accepted against the reference roots `mth`.
-/
import ImmuModel.Merkle.Verify
import ImmuModel.Merkle.AHTree
import ImmuModel.Merkle.MthLemmas
import ImmuModel.Merkle.Proofs.Roots
import ImmuModel.Merkle.Proofs.InclSound
import ImmuModel.Merkle.Proofs.ConsSound

namespace ImmuModel.Merkle.AhtComplete
open ImmuModel.Merkle
variable {D : Type}

/-! ### counting set bits below a position (the index used by `highestNode`) -/

/-- number of set bits of `x` strictly below bit `d` (exactly the fold of `highestNode`) -/
def cnt (x d : Nat) : Nat :=
  (List.range d).foldl (fun acc r => if x / 2 ^ r % 2 = 1 then acc + 1 else acc) 0

theorem cnt_zero (x : Nat) : cnt x 0 = 0 := rfl

theorem cnt_succ (x d : Nat) :
    cnt x (d + 1) = if x / 2 ^ d % 2 = 1 then cnt x d + 1 else cnt x d := by
  unfold cnt
  rw [List.range_succ, List.foldl_append]
  rfl

theorem highestNode_eq (t : AHT D) (i d : Nat) : t.highestNode i d = t.node i (cnt (i - 1) d) := rfl

theorem cnt_small (x l : Nat) (hx : x < 2 ^ l) : ∀ d, l ≤ d → cnt x d = cnt x l := by
  intro d hd
  induction d with
  | zero =>
    have : l = 0 := by omega
    subst this; rfl
  | succ d ih =>
    by_cases h : l = d + 1
    · subst h; rfl
    · have hld : l ≤ d := by omega
      rw [cnt_succ, ih hld]
      have : x / 2 ^ d = 0 := by
        apply Nat.div_eq_of_lt
        exact Nat.lt_of_lt_of_le hx (Nat.pow_le_pow_right (by decide) hld)
      rw [this]
      simp

theorem div_small (x l d : Nat) (hx : x < 2 ^ l) (hd : l ≤ d) : x / 2 ^ d = 0 :=
  Nat.div_eq_of_lt (Nat.lt_of_lt_of_le hx (Nat.pow_le_pow_right (by decide) hd))

/-- `q/2 · 2P` is `q·P` with the lowest bit of `q` cleared. -/
theorem half_block (q P : Nat) : q / 2 * (P * 2) = if q % 2 = 1 then q * P - P else q * P := by
  have hq : q = 2 * (q / 2) + q % 2 := by omega
  generalize q / 2 = m at hq
  by_cases h : q % 2 = 1
  · rw [if_pos h]
    rw [h] at hq
    subst hq
    rw [Nat.add_mul, Nat.one_mul, Nat.add_sub_cancel, Nat.mul_comm P 2, ← Nat.mul_assoc,
      Nat.mul_comm m 2]
  · rw [if_neg h]
    have h0 : q % 2 = 0 := by omega
    rw [h0] at hq
    subst hq
    rw [Nat.add_zero, Nat.mul_comm P 2, ← Nat.mul_assoc, Nat.mul_comm m 2]

theorem div_succ_pow (x h : Nat) : x / 2 ^ (h + 1) = x / 2 ^ h / 2 := by
  rw [Nat.div_div_eq_div_mul, Nat.pow_succ]

/-! ### the append loop: full characterisation of the written group -/

theorem appendLoop_high (mh : MH D) (t : AHT D) (L : List D) (n : Nat) (hn : L.length = n)
    (hnode : ∀ k l, 1 ≤ k → k < n → 2 ^ l ∣ k →
      t.node k l = some (mth mh ((L.take k).drop (k - 2 ^ l)))) :
    ∀ (fuel w l k : Nat) (h : D) (acc : List D) (r : Nat),
      w ≤ fuel → r < 2 ^ l → n = w * 2 ^ l + r + 1 → k = w * 2 ^ l →
      h = mth mh (L.drop k) → acc.length = cnt (n - 1) l + 1 →
      (∀ d, d ≤ l → acc[cnt (n - 1) d]? = some (mth mh (L.drop ((n - 1) / 2 ^ d * 2 ^ d)))) →
      ∀ acc', AHT.appendLoop mh t fuel w l k h acc = some acc' →
        ∀ d, acc'[cnt (n - 1) d]? = some (mth mh (L.drop ((n - 1) / 2 ^ d * 2 ^ d))) := by
  have done : ∀ (l : Nat) (acc : List D) (r : Nat),
      r < 2 ^ l → n = 0 * 2 ^ l + r + 1 →
      (∀ d, d ≤ l → acc[cnt (n - 1) d]? = some (mth mh (L.drop ((n - 1) / 2 ^ d * 2 ^ d)))) →
      ∀ d, acc[cnt (n - 1) d]? = some (mth mh (L.drop ((n - 1) / 2 ^ d * 2 ^ d))) := by
    intro l acc r hr hnr hacc d
    by_cases hd : d ≤ l
    · exact hacc d hd
    · have hx : n - 1 < 2 ^ l := by omega
      rw [cnt_small (n - 1) l hx d (by omega), div_small (n - 1) l d hx (by omega)]
      have := hacc l (Nat.le_refl l)
      rw [div_small (n - 1) l l hx (Nat.le_refl l)] at this
      simpa using this
  intro fuel
  induction fuel with
  | zero =>
    intro w l k h acc r hw hr hnr hk hh hlen hacc acc' hrun
    have hw0 : w = 0 := by omega
    subst hw0
    simp only [AHT.appendLoop, Option.some.injEq] at hrun
    subst hrun
    exact done l acc r hr hnr hacc
  | succ f ih =>
    intro w l k h acc r hw hr hnr hk hh hlen hacc acc' hrun
    by_cases hw0 : w = 0
    · subst hw0
      simp only [AHT.appendLoop, if_true, Option.some.injEq] at hrun
      subst hrun
      exact done l acc r hr hnr hacc
    · have hp : 0 < 2 ^ l := Nat.pow_pos (by decide)
      have hps : 2 ^ (l + 1) = 2 ^ l * 2 := Nat.pow_succ 2 l
      have hkdiv : k / 2 ^ l = w := by rw [hk]; exact Nat.mul_div_cancel w hp
      have hndiv : (n - 1) / 2 ^ l = w := by
        apply Nat.div_eq_of_lt_le
        · omega
        · rw [Nat.add_mul]; omega
      have hndiv1 : (n - 1) / 2 ^ (l + 1) = w / 2 := by rw [div_succ_pow, hndiv]
      rw [AHT.appendLoop] at hrun
      simp only [if_neg hw0, hkdiv] at hrun
      have hhb := half_block w (2 ^ l)
      by_cases hodd : w % 2 = 1
      · simp only [if_pos hodd] at hrun hhb
        have hk1 : 1 ≤ k := by
          have : 1 ≤ w := by omega
          have := Nat.mul_le_mul_right (2 ^ l) this
          omega
        have hkn : k < n := by omega
        have hkp : 2 ^ l ≤ k := by
          have : 1 ≤ w := by omega
          have := Nat.mul_le_mul_right (2 ^ l) this
          omega
        have hdvd : 2 ^ l ∣ k := by rw [hk]; exact Nat.dvd_mul_left (2 ^ l) w
        rw [hnode k l hk1 hkn hdvd] at hrun
        simp only at hrun
        have hh' : mh.nodeH (mth mh ((L.take k).drop (k - (2 ^ l)))) h
            = mth mh (L.drop (k - (2 ^ l))) := by
          rw [mth_node mh (L.drop (k - (2 ^ l))) l (by rw [List.length_drop]; omega)
            (by rw [List.length_drop, hps]; omega)]
          rw [List.take_drop, List.drop_drop, hh]
          have : k - (2 ^ l) + (2 ^ l) = k := by omega
          rw [this]
        rw [hh'] at hrun
        have hc1 : cnt (n - 1) (l + 1) = cnt (n - 1) l + 1 := by
          rw [cnt_succ, hndiv, if_pos hodd]
        refine ih (w / 2) (l + 1) (k - 2 ^ l) _ _ (2 ^ l + r) (by omega) (by omega)
          (by rw [hps, hhb, ← hk]; omega) (by rw [hps, hhb, ← hk]) rfl
          (by rw [hc1]; simp [hlen]) ?_ acc' hrun
        intro d hd
        by_cases hdl : d ≤ l
        · exact getElem?_append_some _ _ _ _ (hacc d hdl)
        · have hd1 : d = l + 1 := by omega
          subst hd1
          rw [hc1, ← hlen, List.getElem?_append_right (Nat.le_refl _), Nat.sub_self, hndiv1,
            hps, hhb, ← hk]
          rfl
      · simp only [if_neg hodd] at hrun hhb
        have hc1 : cnt (n - 1) (l + 1) = cnt (n - 1) l := by
          rw [cnt_succ, hndiv, if_neg hodd]
        refine ih (w / 2) (l + 1) k h acc r (by omega) (by omega)
          (by rw [hps, hhb]; omega) (by rw [hps, hhb]; omega) hh
          (by rw [hc1]; exact hlen) ?_ acc' hrun
        intro d hd
        by_cases hdl : d ≤ l
        · exact hacc d hdl
        · have hd1 : d = l + 1 := by omega
          subst hd1
          have := hacc l (Nat.le_refl l)
          rw [hc1, hndiv1, hps, hhb, ← hndiv]
          exact this

/-! ### the strengthened reachable-state invariant -/

/-- Everything the provers read from the digest log, as reference hashes of blocks of `L`. -/
structure Full (mh : MH D) (t : AHT D) (L : List D) : Prop where
  size : t.size = L.length
  node : ∀ k l, 1 ≤ k → k ≤ L.length → 2 ^ l ∣ k →
    t.node k l = some (mth mh ((L.take k).drop (k - 2 ^ l)))
  high : ∀ n d, 1 ≤ n → n ≤ L.length →
    t.highestNode n d = some (mth mh ((L.take n).drop ((n - 1) / 2 ^ d * 2 ^ d)))

def HighInv (mh : MH D) (t : AHT D) (ds : List Bytes) : Prop :=
  ∀ n d, 1 ≤ n → n ≤ ds.length →
    t.highestNode n d = some (mth mh (((ds.map mh.leafH).take n).drop ((n - 1) / 2 ^ d * 2 ^ d)))

theorem append_high (mh : MH D) (t t' : AHT D) (ds : List Bytes) (d : Bytes)
    (inv : AHTInv mh t ds) (hi : HighInv mh t ds) (happ : AHT.append mh t d = some t') :
    HighInv mh t' (ds ++ [d]) := by
  obtain ⟨pay, glen, nodes, _⟩ := inv
  have hL : (ds ++ [d]).map mh.leafH = ds.map mh.leafH ++ [mh.leafH d] := by simp
  have hLlen : ((ds ++ [d]).map mh.leafH).length = ds.length + 1 := by simp
  have htake : ∀ k, k ≤ ds.length →
      ((ds ++ [d]).map mh.leafH).take k = (ds.map mh.leafH).take k := by
    intro k hk
    rw [hL, List.take_append_of_le_length (by simp; exact hk)]
  have hdropn : ((ds ++ [d]).map mh.leafH).drop ds.length = [mh.leafH d] := by
    rw [hL]; exact List.drop_left' (by simp)
  unfold AHT.append AHT.size at happ
  simp only [pay, Nat.add_sub_cancel] at happ
  split at happ
  · exact absurd happ (by simp)
  · rename_i g hg
    simp only [Option.some.injEq] at happ
    subst happ
    have hspec := appendLoop_high mh t ((ds ++ [d]).map mh.leafH) (ds.length + 1) hLlen
      (by
        intro k l hk1 hk2 hdvd
        rw [nodes k l hk1 (by omega) hdvd, htake k (by omega)])
      (ds.length + 1 + 1) ds.length 0 ds.length (mh.leafH d) [mh.leafH d] 0
      (by omega) (by simp) (by simp) (by simp) (by rw [hdropn]; simp) (by simp [cnt_zero])
      (by
        intro d' hd'
        have : d' = 0 := by omega
        subst this
        simp only [cnt_zero, Nat.add_sub_cancel, Nat.pow_zero, Nat.div_one, Nat.mul_one]
        rw [hdropn]; simp)
      g hg
    intro n d' hn1 hn2
    rw [highestNode_eq]
    by_cases hk : n ≤ ds.length
    · rw [aht_node_append_old t g _ n _ hn1 (by omega), ← highestNode_eq, hi n d' hn1 hk,
        htake n hk]
    · have hk' : n = t.groups.length + 1 := by simp at hn2; omega
      subst hk'
      rw [aht_node_append_new, glen, Nat.add_sub_cancel]
      have := hspec d'
      rw [Nat.add_sub_cancel] at this
      rw [this, List.take_of_length_le (by rw [hLlen]; omega)]

theorem appendAll_high (mh : MH D) (t : AHT D) (xs ys : List Bytes) (inv : AHTInv mh t xs)
    (hi : HighInv mh t xs) :
    ∃ t', AHT.appendAll mh t ys = some t' ∧ AHTInv mh t' (xs ++ ys) ∧ HighInv mh t' (xs ++ ys) := by
  induction ys generalizing t xs with
  | nil => exact ⟨t, rfl, by simpa using inv, by simpa using hi⟩
  | cons d ys ih =>
    obtain ⟨t1, h1, inv1⟩ := aht_append_inv mh t xs d inv
    have hi1 := append_high mh t t1 xs d inv hi h1
    obtain ⟨t2, h2, inv2, hi2⟩ := ih t1 (xs ++ [d]) inv1 hi1
    refine ⟨t2, ?_, by simpa using inv2, by simpa using hi2⟩
    simp only [AHT.appendAll, h1, Option.bind_some, h2]

theorem full_of_appendAll (mh : MH D) (ds : List Bytes) (t : AHT D)
    (ht : AHT.appendAll mh AHT.empty ds = some t) : Full mh t (ds.map mh.leafH) := by
  obtain ⟨t', h, inv, hi⟩ := appendAll_high mh AHT.empty [] ds (AHTInv_empty mh)
    (by intro n d h1 h2; simp at h2; omega)
  rw [ht] at h
  cases h
  simp only [List.nil_append] at inv hi
  refine ⟨?_, ?_, ?_⟩
  · unfold AHT.size; rw [inv.pay]; simp
  · intro k l h1 h2 h3
    exact inv.nodes k l h1 (by simpa using h2) h3
  · intro n d h1 h2
    exact hi n d h1 (by simpa using h2)

/-! ### blocks of leaves -/

/-- reference hash of the leaves `a+1 .. b` (0-based `[a, b)`) -/
def blk (mh : MH D) (L : List D) (a b : Nat) : D := mth mh ((L.take b).drop a)

theorem blk_split (mh : MH D) (L : List D) (a k c h : Nat) (hk : k = a + 2 ^ h) (hkc : k < c)
    (hc : c ≤ a + 2 ^ (h + 1)) (hcl : c ≤ L.length) :
    blk mh L a c = mh.nodeH (blk mh L a k) (blk mh L k c) := by
  unfold blk
  have hlen : ((L.take c).drop a).length = c - a := by
    rw [List.length_drop, List.length_take]; omega
  rw [mth_node mh ((L.take c).drop a) h (by rw [hlen]; omega) (by rw [hlen]; omega)]
  rw [List.take_drop, List.take_take, List.drop_drop, ← hk]
  have : min k c = k := by omega
  rw [this]

theorem blk_single (mh : MH D) (L : List D) (i : Nat) (x : D) (h1 : 1 ≤ i)
    (hx : L[i - 1]? = some x) : blk mh L (i - 1) i = x := by
  unfold blk
  obtain ⟨hlt, hget⟩ := List.getElem?_eq_some_iff.mp hx
  rw [List.drop_take, List.drop_eq_getElem_cons hlt, hget]
  have : i - (i - 1) = 1 := by omega
  rw [this]
  simp

/-! ### inclusion proofs -/

theorem incl_spec (mh : MH D) (t : AHT D) (L : List D) (F : Full mh t L) :
    ∀ (h i j : Nat) (acc : List D) (leaf : D),
      (j - 1) / 2 ^ h * 2 ^ h < i → i ≤ j → j ≤ L.length → L[i - 1]? = some leaf →
      ∃ path, AHT.inclusionProof t i j h acc = some (path ++ acc) ∧
        path.length = inclLenAux h (i - 1 - (j - 1) / 2 ^ h * 2 ^ h) (j - 1 - (j - 1) / 2 ^ h * 2 ^ h) ∧
        evalInclAux mh path (i - 1 - (j - 1) / 2 ^ h * 2 ^ h) (j - 1 - (j - 1) / 2 ^ h * 2 ^ h) leaf
          = blk mh L ((j - 1) / 2 ^ h * 2 ^ h) j := by
  intro h
  induction h with
  | zero =>
    intro i j acc leaf hb hij hj hleaf
    simp only [Nat.pow_zero, Nat.div_one, Nat.mul_one] at hb ⊢
    have hi : i = j := by omega
    subst hi
    refine ⟨[], by simp [AHT.inclusionProof], by simp [inclLenAux, popcount_zero], ?_⟩
    simp only [evalInclAux]
    exact (blk_single mh L i leaf (by omega) hleaf).symm
  | succ h ih =>
    intro i j acc leaf hb hij hj hleaf
    have hp : 0 < 2 ^ h := Nat.pow_pos (by decide)
    have hps : 2 ^ (h + 1) = 2 ^ h * 2 := Nat.pow_succ 2 h
    have hlo := div_lo (j - 1) (2 ^ h)
    have hhi := div_hi (j - 1) hp
    rw [Nat.add_mul, Nat.one_mul] at hhi
    have hhb := half_block ((j - 1) / 2 ^ h) (2 ^ h)
    rw [div_succ_pow, hps] at hb ⊢
    rw [AHT.inclusionProof]
    by_cases hbit : (j - 1) / 2 ^ h % 2 = 1
    · simp only [if_pos hbit] at hhb ⊢
      have hq1 : 1 ≤ (j - 1) / 2 ^ h := by
        rcases Nat.eq_zero_or_pos ((j - 1) / 2 ^ h) with h0 | h0
        · rw [h0] at hbit; omega
        · exact h0
      have hBP : 2 ^ h ≤ (j - 1) / 2 ^ h * 2 ^ h := by
        have := Nat.mul_le_mul_right (2 ^ h) hq1
        omega
      have hdvd : 2 ^ h ∣ (j - 1) / 2 ^ h * 2 ^ h := Nat.dvd_mul_left _ _
      have hnode := F.node ((j - 1) / 2 ^ h * 2 ^ h) h (by omega) (by omega) hdvd
      have hhigh := F.high j h (by omega) hj
      -- (B - 1) / P * P = B - P
      have hBm : ((j - 1) / 2 ^ h * 2 ^ h - 1) / 2 ^ h = (j - 1) / 2 ^ h - 1 := by
        apply Nat.div_eq_of_lt_le
        · rw [Nat.sub_mul, Nat.one_mul]; omega
        · rw [Nat.sub_add_cancel hq1]; omega
      have hBm2 : ((j - 1) / 2 ^ h * 2 ^ h - 1) / 2 ^ h * 2 ^ h = (j - 1) / 2 ^ h * 2 ^ h - 2 ^ h := by
        rw [hBm, Nat.sub_mul, Nat.one_mul]
      generalize hB : (j - 1) / 2 ^ h * 2 ^ h = B at *
      rw [hhb] at hb ⊢
      by_cases hik : i ≤ B
      · -- leaf in the complete left subtree
        simp only [if_pos hik, hhigh]
        obtain ⟨qp, hq1, hq2, hq3⟩ := ih i B [] leaf (by rw [hBm2]; exact hb) hik (by omega) hleaf
        rw [hBm2] at hq2 hq3
        rw [hq1]
        simp only
        refine ⟨qp ++ [mth mh ((L.take j).drop B)], by simp, ?_, ?_⟩
        · have e1 : B - 1 - (B - 2 ^ h) = 2 ^ h - 1 := by omega
          rw [e1, inclLenAux_complete h h _ (Nat.le_refl _) (by omega)] at hq2
          rw [List.length_append, hq2]
          rw [inclLenAux_left h (h + 1) _ _ (by omega) (by omega) (by omega) (by rw [hps]; omega)]
          rfl
        · have e1 : B - 1 - (B - 2 ^ h) = 2 ^ h - 1 := by omega
          rw [e1] at hq2 hq3
          have hql : qp.length = h := by
            rw [hq2, inclLenAux_complete h h _ (Nat.le_refl _) (by omega)]
          rw [evalInclAux_append, hql,
            evalInclAux_left mh qp h _ (j - 1 - (B - 2 ^ h)) leaf hql (by omega) (by omega), hq3]
          have d1 : (i - 1 - (B - 2 ^ h)) / 2 ^ h = 0 := Nat.div_eq_of_lt (by omega)
          have d2 : (j - 1 - (B - 2 ^ h)) / 2 ^ h = 1 := by
            apply Nat.div_eq_of_lt_le <;> omega
          rw [d1, d2]
          simp only [evalInclAux]
          rw [blk_split mh L (B - 2 ^ h) B j h (by omega) (by omega) (by rw [hps]; omega) hj]
          simp [blk]
      · -- leaf in the right part
        simp only [if_neg hik, hnode]
        obtain ⟨qp, hq1, hq2, hq3⟩ := ih i j (mth mh ((L.take B).drop (B - 2 ^ h)) :: acc) leaf
          (by rw [hB]; omega) hij hj hleaf
        rw [hB] at hq2 hq3
        rw [hq1]
        have ea : i - 1 - (B - 2 ^ h) = 2 ^ h + (i - 1 - B) := by omega
        have ec : j - 1 - (B - 2 ^ h) = 2 ^ h + (j - 1 - B) := by omega
        rw [ea, ec]
        generalize i - 1 - B = a at *
        generalize hc : j - 1 - B = c at *
        have hac : a ≤ c := by omega
        have hcP : c < 2 ^ h := by omega
        refine ⟨qp ++ [mth mh ((L.take B).drop (B - 2 ^ h))], by simp, ?_, ?_⟩
        · rw [List.length_append, hq2, inclLenAux_right h (h + 1) a c (by omega) hac hcP]
          simp; omega
        · have hqm : qp.length ≤ h := by rw [hq2]; exact inclLenAux_le h h a c hac hcP
          rw [evalInclAux_append, evalInclAux_right mh qp h a c leaf hqm hac hcP, hq3]
          have hdiv : a / 2 ^ qp.length = c / 2 ^ qp.length := by
            rw [hq2]; exact inclLenAux_div_eq h a c hac hcP
          have hdiv2 : (2 ^ h + a) / 2 ^ qp.length = (2 ^ h + c) / 2 ^ qp.length := by
            obtain ⟨d, hd⟩ : ∃ d, h = qp.length + d := ⟨h - qp.length, by omega⟩
            have hpow : 2 ^ h = 2 ^ qp.length * 2 ^ d := by
              conv => lhs; rw [hd, Nat.pow_add]
            have hpos : 0 < 2 ^ qp.length := Nat.pow_pos (by decide)
            rw [hpow, Nat.mul_add_div hpos, Nat.mul_add_div hpos, hdiv]
          rw [hdiv2]
          simp only [evalInclAux, ne_eq, not_true_eq_false, and_false, if_false]
          rw [blk_split mh L (B - 2 ^ h) B j h (by omega) (by omega) (by rw [hps]; omega) hj]
          rfl
    · simp only [if_neg hbit] at hhb ⊢
      rw [hhb] at hb ⊢
      obtain ⟨qp, hq1, hq2, hq3⟩ := ih i j acc leaf hb hij hj hleaf
      refine ⟨qp, hq1, ?_, hq3⟩
      rw [hq2]
      exact inclLenAux_fuel h (h + 1) _ _ (by omega) (by omega) (by rw [hps]; omega)

theorem lt_pow_bitLen (x : Nat) : x < 2 ^ AHT.bitLen x := by
  unfold AHT.bitLen
  split
  · omega
  · exact Nat.lt_log2_self

/-- what the API wrapper returns, in evaluator form -/
theorem incl_api (mh : MH D) (ds : List Bytes) (t : AHT D) (i j : Nat)
    (ht : AHT.appendAll mh AHT.empty ds = some t) (h1 : 1 ≤ i) (h2 : i ≤ j) (h3 : j ≤ ds.length) :
    ∃ p, AHT.inclusionProofAPI t i j = .ok p ∧
      p.length = inclLenAux (j + 1) (i - 1) (j - 1) ∧
      evalInclAux mh p (i - 1) (j - 1) (mh.leafH (ds[i - 1]'(by omega)))
        = mth mh ((ds.take j).map mh.leafH) := by
  have F := full_of_appendAll mh ds t ht
  have hx := lt_pow_bitLen (j - 1)
  have hb : (j - 1) / 2 ^ AHT.bitLen (j - 1) * 2 ^ AHT.bitLen (j - 1) = 0 := by
    rw [Nat.div_eq_of_lt hx, Nat.zero_mul]
  have hleaf : (ds.map mh.leafH)[i - 1]? = some (mh.leafH (ds[i - 1]'(by omega))) := by
    rw [List.getElem?_map, List.getElem?_eq_getElem (by omega)]
    rfl
  obtain ⟨p, hp1, hp2, hp3⟩ := incl_spec mh t (ds.map mh.leafH) F (AHT.bitLen (j - 1)) i j []
    (mh.leafH (ds[i - 1]'(by omega))) (by rw [hb]; omega) h2 (by simpa using h3) hleaf
  rw [hb] at hp2 hp3
  simp only [Nat.sub_zero, List.append_nil] at hp1 hp2 hp3
  refine ⟨p, ?_, ?_, ?_⟩
  · unfold AHT.inclusionProofAPI
    rw [F.size, if_neg (by omega), if_neg (by simp; omega), if_neg (by omega), hp1]
  · rw [hp2]
    exact inclLenAux_fuel _ _ _ _ (by omega) hx
      (Nat.lt_of_le_of_lt (by omega) (Nat.lt_two_pow_self (n := j + 1)))
  · rw [hp3]
    unfold blk
    rw [List.drop_zero, List.map_take]

/-! ### consistency proofs: the reference list of terms -/

/-- the (at most one) proof term contributed by level `l` -/
def levelTerm (mh : MH D) (ys : List D) (i j l : Nat) : List D :=
  if (i - 1) / 2 ^ l % 2 = 1 then [nodeAt mh ys l ((i - 1) / 2 ^ l - 1)]
  else if (i - 1) / 2 ^ l = (j - 1) / 2 ^ l then []
  else [nodeAt mh ys l ((i - 1) / 2 ^ l + 1)]

/-- terms of the levels `lo, lo+1, …, lo+c-1`, bottom-up -/
def terms (mh : MH D) (ys : List D) (i j : Nat) : Nat → Nat → List D
  | _, 0 => []
  | lo, c + 1 => levelTerm mh ys i j lo ++ terms mh ys i j (lo + 1) c

theorem terms_snoc (mh : MH D) (ys : List D) (i j : Nat) : ∀ c lo,
    terms mh ys i j lo (c + 1) = terms mh ys i j lo c ++ levelTerm mh ys i j (lo + c) := by
  intro c
  induction c with
  | zero => intro lo; simp [terms]
  | succ c ih =>
    intro lo
    rw [terms, ih (lo + 1), terms, List.append_assoc]
    have : lo + 1 + c = lo + (c + 1) := by omega
    rw [this]

theorem terms_congr (mh : MH D) (ys ys' : List D) (i j j' : Nat) : ∀ c lo,
    (∀ l, lo ≤ l → l < lo + c → levelTerm mh ys i j l = levelTerm mh ys' i j' l) →
    terms mh ys i j lo c = terms mh ys' i j' lo c := by
  intro c
  induction c with
  | zero => intro lo _; rfl
  | succ c ih =>
    intro lo hl
    rw [terms, terms, hl lo (Nat.le_refl _) (by omega), ih (lo + 1) (fun l h1 h2 => hl l (by omega) (by omega))]

theorem stripZeros_fuel : ∀ (f g fn sn : Nat), fn < f → fn < g →
    stripZeros f fn sn = stripZeros g fn sn := by
  intro f
  induction f with
  | zero => intro g fn sn h; omega
  | succ f ih =>
    intro g fn sn hf hg
    cases g with
    | zero => omega
    | succ g =>
      unfold stripZeros
      split
      · exact ih g _ _ (by omega) (by omega)
      · rfl

theorem evalConsAux_even_diag (mh : MH D) (p : List D) (a : Nat) (ci cj : D) (ok : Bool)
    (ha : a % 2 = 0) :
    evalConsAux mh p a a ci cj ok = evalConsAux mh p (a / 2) (a / 2) ci cj ok := by
  have hbz : (a == 0) = (a / 2 == 0) := by
    by_cases h0 : a = 0
    · subst h0; rfl
    · have h1 : a / 2 ≠ 0 := by omega
      rw [beq_eq_false_iff_ne.mpr h0, beq_eq_false_iff_ne.mpr h1]
  cases p with
  | nil => rw [evalConsAux_nil, evalConsAux_nil, hbz]
  | cons h p =>
    rw [evalConsAux_both mh h p a a ci cj ok (Or.inr rfl),
      evalConsAux_both mh h p (a / 2) (a / 2) ci cj ok (Or.inr rfl)]
    have hbn : (a != 0) = (a / 2 != 0) := by simp only [bne, hbz]
    rw [hbn]
    by_cases h0 : a = 0
    · subst h0; rfl
    · have hs : stripZeros (a + 1) a a = stripZeros (a / 2 + 1) (a / 2) (a / 2) := by
        conv => lhs; unfold stripZeros
        rw [if_pos ⟨ha, h0⟩]
        exact stripZeros_fuel _ _ _ _ (by omega) (by omega)
      rw [hs]

/-- forward run of the verifier loop over the reference terms -/
theorem evalCons_terms (mh : MH D) (ys : List D) (i j : Nat) (hlen : ys.length = j)
    (hi : 1 ≤ i) (hij : i ≤ j) :
    ∀ (c l fn sn : Nat) (ci cj : D), fn = (i - 1) / 2 ^ l → sn = (j - 1) / 2 ^ l →
      ci = nodeAt mh (ys.take i) l fn → cj = nodeAt mh ys l fn → j - 1 < 2 ^ (l + c) →
      evalConsAux mh (terms mh ys i j l c) fn sn ci cj true = (mth mh (ys.take i), mth mh ys, true) := by
  have hl : (ys.take i).length = i := by rw [List.length_take]; omega
  intro c
  induction c with
  | zero =>
    intro l fn sn ci cj hfn hsn hci hcj hb
    rw [Nat.add_zero] at hb
    have hsn0 : sn = 0 := by rw [hsn]; exact Nat.div_eq_of_lt hb
    have hfn0 : fn = 0 := by rw [hfn]; exact Nat.div_eq_of_lt (by omega)
    subst hsn0; subst hfn0
    rw [terms, evalConsAux_nil, hci, hcj, nodeAt_top mh ys l (by omega),
      nodeAt_top mh (ys.take i) l (by omega)]
    rfl
  | succ c ih =>
    intro l fn sn ci cj hfn hsn hci hcj hb
    have hp : 0 < 2 ^ l := Nat.pow_pos (by decide)
    have hle : fn ≤ sn := by rw [hfn, hsn]; exact Nat.div_le_div_right (by omega)
    have hilo : fn * 2 ^ l ≤ i - 1 := by rw [hfn]; exact div_lo _ _
    have hihi : i - 1 < (fn + 1) * 2 ^ l := by rw [hfn]; exact div_hi _ hp
    have hjlo : sn * 2 ^ l ≤ j - 1 := by rw [hsn]; exact div_lo _ _
    have hjhi : j - 1 < (sn + 1) * 2 ^ l := by rw [hsn]; exact div_hi _ hp
    have hfn1 : fn / 2 = (i - 1) / 2 ^ (l + 1) := by rw [hfn, div_succ_pow]
    have hsn1 : sn / 2 = (j - 1) / 2 ^ (l + 1) := by rw [hsn, div_succ_pow]
    have hb' : j - 1 < 2 ^ (l + 1 + c) := by
      have : l + 1 + c = l + (c + 1) := by omega
      rw [this]; exact hb
    rw [terms]
    unfold levelTerm
    rw [← hfn, ← hsn]
    by_cases hodd : fn % 2 = 1
    · rw [if_pos hodd, List.singleton_append, evalConsAux_both mh _ _ fn sn ci cj true (Or.inl hodd),
        stripZeros_odd _ _ _ hodd]
      have hok : (true && sn != 0) = true := by
        have : sn ≠ 0 := by omega
        simp [this]
      rw [hok]
      apply ih (l + 1) (fn / 2) (sn / 2) _ _ hfn1 hsn1 _ _ hb'
      · rw [nodeAt_split_odd mh (ys.take i) l fn hodd (by omega), hci,
          nodeAt_take mh ys i l (fn - 1) (by rw [Nat.sub_add_cancel (by omega)]; omega)]
      · rw [nodeAt_split_odd mh ys l fn hodd (by omega), hcj]
    · rw [if_neg hodd]
      have heven : fn % 2 = 0 := by omega
      by_cases hfs : fn = sn
      · rw [if_pos hfs, List.nil_append, ← hfs, evalConsAux_even_diag mh _ fn ci cj true heven]
        have hsn1' : fn / 2 = (j - 1) / 2 ^ (l + 1) := by rw [hfs]; exact hsn1
        apply ih (l + 1) (fn / 2) (fn / 2) _ _ hfn1 hsn1' _ _ hb'
        · rw [nodeAt_promote mh _ l fn heven (by omega)]; exact hci
        · rw [nodeAt_promote mh _ l fn heven (by rw [hfs]; omega)]; exact hcj
      · rw [if_neg hfs, List.singleton_append,
          evalConsAux_right mh _ _ fn sn ci cj true (by omega)]
        have hok : (true && sn != 0) = true := by
          have : sn ≠ 0 := by omega
          simp [this]
        rw [hok]
        have hmul : (fn + 1) * 2 ^ l ≤ sn * 2 ^ l := Nat.mul_le_mul_right _ (by omega)
        apply ih (l + 1) (fn / 2) (sn / 2) _ _ hfn1 hsn1 _ _ hb'
        · rw [nodeAt_promote mh _ l fn heven (by omega)]; exact hci
        · rw [nodeAt_split mh ys l fn heven (by omega), hcj]

/-! ### consistency proofs: arithmetic of the seed level -/

theorem odd_pow_unique : ∀ (s t a b : Nat), a % 2 = 1 → b % 2 = 1 → a * 2 ^ s = b * 2 ^ t →
    s = t ∧ a = b := by
  intro s
  induction s with
  | zero =>
    intro t a b ha hb h
    cases t with
    | zero => simpa using h
    | succ t =>
      rw [Nat.pow_succ, ← Nat.mul_assoc] at h
      simp only [Nat.pow_zero, Nat.mul_one] at h
      omega
  | succ s ih =>
    intro t a b ha hb h
    cases t with
    | zero =>
      rw [Nat.pow_succ, ← Nat.mul_assoc] at h
      simp only [Nat.pow_zero, Nat.mul_one] at h
      omega
    | succ t =>
      rw [Nat.pow_succ, Nat.pow_succ, ← Nat.mul_assoc, ← Nat.mul_assoc] at h
      have := Nat.eq_of_mul_eq_mul_right (by decide : 0 < 2) h
      obtain ⟨h1, h2⟩ := ih t a b ha hb this
      exact ⟨by omega, h2⟩

theorem tz_lt (h B i x tz : Nat) (hB : 2 ^ h ∣ B) (h1 : B < i) (h2 : i < B + 2 ^ h)
    (hi : i = x * 2 ^ tz) : tz < h := by
  apply Nat.lt_of_not_le
  intro hge
  have d1 : 2 ^ h ∣ i := by
    rw [hi]
    exact Nat.dvd_trans (Nat.pow_dvd_pow 2 hge) (Nat.dvd_mul_left _ _)
  have d2 : 2 ^ h ∣ i - B := Nat.dvd_sub d1 hB
  have := Nat.le_of_dvd (by omega) d2
  omega

theorem nodeAt_eq_blk (mh : MH D) (L : List D) (l x a : Nat) (ha : a = x * 2 ^ l) :
    nodeAt mh L l x = blk mh L a (a + 2 ^ l) := by
  unfold nodeAt blk
  rw [List.drop_take, ← ha, Nat.add_sub_cancel_left]

/-- a node reaching the end of the (truncated) list -/
theorem nodeAt_take_last (mh : MH D) (L : List D) (j l x a : Nat) (ha : a = x * 2 ^ l)
    (hj : j ≤ a + 2 ^ l) : nodeAt mh (L.take j) l x = blk mh L a j := by
  rw [nodeAt_last mh (L.take j) l x (by
    rw [List.length_take, Nat.add_mul, ← ha]; omega)]
  unfold blk
  rw [ha]

/-! ### consistency proofs: the level terms seen by the recursive prover -/

/-- below the split level the terms for `(i, B)` and `(i, j)` coincide (`i < B < j`,
`B` a multiple of `2^h`) -/
theorem levelTerm_left (mh : MH D) (L : List D) (i B j h l : Nat) (hB : 2 ^ h ∣ B) (hl : l < h)
    (hi : 1 ≤ i) (h1 : i < B) (h2 : B < j) :
    levelTerm mh (L.take B) i B l = levelTerm mh (L.take j) i j l := by
  have hp : 0 < 2 ^ l := Nat.pow_pos (by decide)
  obtain ⟨m', hm'⟩ := Nat.dvd_trans (Nat.pow_dvd_pow 2 (show l + 1 ≤ h by omega)) hB
  have hBM : B = (2 * m') * 2 ^ l := by
    rw [hm', Nat.pow_succ, Nat.mul_comm (2 ^ l) 2, Nat.mul_assoc, Nat.mul_comm (2 ^ l) m',
      ← Nat.mul_assoc]
  have hm1 : 1 ≤ m' := by
    rcases Nat.eq_zero_or_pos m' with h0 | h0
    · rw [h0] at hBM; simp at hBM; omega
    · exact h0
  generalize hM : 2 * m' = M at hBM
  have hBdiv : (B - 1) / 2 ^ l = M - 1 := by
    apply Nat.div_eq_of_lt_le
    · rw [Nat.sub_mul, Nat.one_mul, ← hBM]; omega
    · rw [Nat.sub_add_cancel (by omega), ← hBM]; omega
  have hfn : (i - 1) / 2 ^ l ≤ M - 1 := by
    rw [← hBdiv]; exact Nat.div_le_div_right (by omega)
  have hsj : M ≤ (j - 1) / 2 ^ l := by
    have : B / 2 ^ l = M := by rw [hBM]; exact Nat.mul_div_cancel M hp
    rw [← this]; exact Nat.div_le_div_right (by omega)
  have hlo := div_lo (i - 1) (2 ^ l)
  unfold levelTerm
  rw [hBdiv]
  generalize (i - 1) / 2 ^ l = fn at *
  by_cases hodd : fn % 2 = 1
  · rw [if_pos hodd, if_pos hodd]
    have e : fn - 1 + 1 = fn := by omega
    rw [nodeAt_take mh L B l (fn - 1) (by rw [e]; omega),
      nodeAt_take mh L j l (fn - 1) (by rw [e]; omega)]
  · rw [if_neg hodd, if_neg hodd, if_neg (by omega), if_neg (by omega)]
    have hle : (fn + 1 + 1) * 2 ^ l ≤ B := by
      rw [hBM]; exact Nat.mul_le_mul_right _ (by omega)
    rw [nodeAt_take mh L B l (fn + 1) hle, nodeAt_take mh L j l (fn + 1) (by omega)]

theorem levelTerm_right_sib (mh : MH D) (L : List D) (i j h q B : Nat) (hB : B = q * 2 ^ h)
    (hq : q % 2 = 1) (hi : (i - 1) / 2 ^ h = q - 1) (hj : (j - 1) / 2 ^ h = q) :
    levelTerm mh (L.take j) i j h = [blk mh L B j] := by
  have hp : 0 < 2 ^ h := Nat.pow_pos (by decide)
  have hhi := div_hi (j - 1) hp
  rw [hj, Nat.add_mul, Nat.one_mul, ← hB] at hhi
  unfold levelTerm
  rw [hi, hj, if_neg (by omega), if_neg (by omega), Nat.sub_add_cancel (by omega),
    nodeAt_take_last mh L j h q B hB (by omega)]

theorem levelTerm_left_sib (mh : MH D) (L : List D) (i j h q B : Nat) (hB : B = q * 2 ^ h)
    (hq : q % 2 = 1) (hi : (i - 1) / 2 ^ h = q) (hj : (j - 1) / 2 ^ h = q) :
    levelTerm mh (L.take j) i j h = [blk mh L (B - 2 ^ h) B] := by
  have hp : 0 < 2 ^ h := Nat.pow_pos (by decide)
  have hlo := div_lo (j - 1) (2 ^ h)
  rw [hj, ← hB] at hlo
  have hq1 : 1 ≤ q := by omega
  have hBP : 2 ^ h ≤ B := by
    have := Nat.mul_le_mul_right (2 ^ h) hq1
    omega
  have e : (q - 1) * 2 ^ h = B - 2 ^ h := by rw [Nat.sub_mul, Nat.one_mul, hB]
  unfold levelTerm
  rw [hi, if_pos hq, nodeAt_take mh L j h (q - 1) (by rw [Nat.sub_add_cancel hq1, ← hB]; omega),
    nodeAt_eq_blk mh L h (q - 1) (B - 2 ^ h) e.symm, Nat.sub_add_cancel hBP]

theorem levelTerm_none (mh : MH D) (ys : List D) (i j h q : Nat)
    (hq : ¬ q % 2 = 1) (hi : (i - 1) / 2 ^ h = q) (hj : (j - 1) / 2 ^ h = q) :
    levelTerm mh ys i j h = [] := by
  unfold levelTerm
  rw [hi, hj, if_neg hq, if_pos rfl]

/-! ### consistency proofs: what the recursive prover returns -/

theorem cons_spec (mh : MH D) (tr : AHT D) (L : List D) (F : Full mh tr L) :
    ∀ (h i j : Nat) (acc : List D) (tz x : Nat),
      (j - 1) / 2 ^ h * 2 ^ h < i → i < j → j ≤ L.length → i = (x + 1) * 2 ^ tz → x % 2 = 0 →
      AHT.consistencyProof tr i j h acc =
        some (nodeAt mh L tz x :: terms mh (L.take j) i j tz (h - tz) ++ acc) := by
  intro h
  induction h with
  | zero =>
    intro i j acc tz x hb hij hj hi hx
    simp only [Nat.pow_zero, Nat.div_one, Nat.mul_one] at hb
    omega
  | succ h ih =>
    intro i j acc tz x hb hij hj hi hx
    have hp : 0 < 2 ^ h := Nat.pow_pos (by decide)
    have hps : 2 ^ (h + 1) = 2 ^ h * 2 := Nat.pow_succ 2 h
    have hlo := div_lo (j - 1) (2 ^ h)
    have hhi := div_hi (j - 1) hp
    rw [Nat.add_mul, Nat.one_mul] at hhi
    have hhb := half_block ((j - 1) / 2 ^ h) (2 ^ h)
    rw [div_succ_pow, hps] at hb
    have hdvd : 2 ^ h ∣ (j - 1) / 2 ^ h * 2 ^ h := Nat.dvd_mul_left _ _
    rw [AHT.consistencyProof]
    by_cases hbit : (j - 1) / 2 ^ h % 2 = 1
    · simp only [if_pos hbit] at hhb ⊢
      have hq1 : 1 ≤ (j - 1) / 2 ^ h := by
        rcases Nat.eq_zero_or_pos ((j - 1) / 2 ^ h) with h0 | h0
        · rw [h0] at hbit; omega
        · exact h0
      have hBP : 2 ^ h ≤ (j - 1) / 2 ^ h * 2 ^ h := by
        have := Nat.mul_le_mul_right (2 ^ h) hq1
        omega
      have hnode := F.node ((j - 1) / 2 ^ h * 2 ^ h) h (by omega) (by omega) hdvd
      have hhigh := F.high j h (by omega) hj
      have hhighB := F.high ((j - 1) / 2 ^ h * 2 ^ h) h (by omega) (by omega)
      have hBm : ((j - 1) / 2 ^ h * 2 ^ h - 1) / 2 ^ h = (j - 1) / 2 ^ h - 1 := by
        apply Nat.div_eq_of_lt_le
        · rw [Nat.sub_mul, Nat.one_mul]; omega
        · rw [Nat.sub_add_cancel hq1]; omega
      have hBm2 : ((j - 1) / 2 ^ h * 2 ^ h - 1) / 2 ^ h * 2 ^ h = (j - 1) / 2 ^ h * 2 ^ h - 2 ^ h := by
        rw [hBm, Nat.sub_mul, Nat.one_mul]
      have hsub : ((j - 1) / 2 ^ h - 1) * 2 ^ h = (j - 1) / 2 ^ h * 2 ^ h - 2 ^ h := by
        rw [Nat.sub_mul, Nat.one_mul]
      rw [hBm2] at hhighB
      rw [hhb] at hb
      generalize hq : (j - 1) / 2 ^ h = q at *
      generalize hB : q * 2 ^ h = B at *
      by_cases hik : i ≤ B
      · have hfi : (i - 1) / 2 ^ h = q - 1 := by
          apply Nat.div_eq_of_lt_le
          · rw [hsub]; omega
          · rw [Nat.sub_add_cancel hq1, hB]; omega
        have hlt := levelTerm_right_sib mh L i j h q B hB.symm hbit hfi hq
        simp only [if_pos hik, hhigh]
        by_cases hiB : i < B
        · have hdvd' : 2 ^ h ∣ B - 2 ^ h := Nat.dvd_sub hdvd (Nat.dvd_refl _)
          have htz := tz_lt h (B - 2 ^ h) i (x + 1) tz hdvd' hb (by omega) hi
          have IH := ih i B [] tz x (by rw [hBm2]; exact hb) hiB (by omega) hi hx
          simp only [if_pos hiB, IH]
          have e : h + 1 - tz = (h - tz) + 1 := by omega
          have e2 : tz + (h - tz) = h := by omega
          rw [e, terms_snoc, e2, hlt]
          rw [terms_congr mh (L.take B) (L.take j) i B j (h - tz) tz
            (fun l _ hl2 => levelTerm_left mh L i B j h l hdvd (by omega) (by omega) hiB (by omega))]
          simp [blk]
        · have hiB' : i = B := by omega
          simp only [if_neg hiB]
          rw [hiB', hhighB]
          simp only
          have hu := odd_pow_unique tz h (x + 1) q (by omega) hbit (by rw [← hi, hB, hiB'])
          obtain ⟨hu1, hu2⟩ := hu
          subst hu1
          have e : tz + 1 - tz = 1 := by omega
          rw [e, terms, terms, ← hiB', hlt, hiB',
            nodeAt_eq_blk mh L tz x (B - 2 ^ tz) (by rw [← hsub, ← hu2]; simp),
            Nat.sub_add_cancel hBP]
          simp [blk]
      · have hiB : B < i := by omega
        have hne : ¬ i = j := by omega
        have hfi : (i - 1) / 2 ^ h = q := by
          apply Nat.div_eq_of_lt_le
          · rw [hB]; omega
          · rw [Nat.add_mul, Nat.one_mul, hB]; omega
        have hlt := levelTerm_left_sib mh L i j h q B hB.symm hbit hfi hq
        have htz := tz_lt h B i (x + 1) tz hdvd hiB (by omega) hi
        have IH := ih i j (mth mh ((L.take B).drop (B - 2 ^ h)) :: acc) tz x (by rw [hq, hB]; exact hiB) hij hj hi hx
        simp only [if_neg hik, hnode, if_neg hne, IH]
        have e : h + 1 - tz = (h - tz) + 1 := by omega
        have e2 : tz + (h - tz) = h := by omega
        rw [e, terms_snoc, e2, hlt]
        simp [blk]
    · simp only [if_neg hbit] at hhb ⊢
      rw [hhb] at hb
      generalize hq : (j - 1) / 2 ^ h = q at *
      generalize hB : q * 2 ^ h = B at *
      have hfi : (i - 1) / 2 ^ h = q := by
        apply Nat.div_eq_of_lt_le
        · rw [hB]; omega
        · rw [Nat.add_mul, Nat.one_mul, hB]; omega
      have hlt := levelTerm_none mh (L.take j) i j h q hbit hfi hq
      have htz := tz_lt h B i (x + 1) tz hdvd hb (by omega) hi
      have IH := ih i j acc tz x (by rw [hq, hB]; exact hb) hij hj hi hx
      rw [IH]
      have e : h + 1 - tz = (h - tz) + 1 := by omega
      have e2 : tz + (h - tz) = h := by omega
      rw [e, terms_snoc, e2, hlt]
      simp

/-! ### consistency proofs: the API wrapper against the verifier -/

section
variable [DecidableEq D]

theorem cons_lt (mh : MH D) (ds : List Bytes) (t : AHT D) (i j : Nat)
    (ht : AHT.appendAll mh AHT.empty ds = some t) (h1 : 1 ≤ i) (h2 : i < j) (h3 : j ≤ ds.length) :
    ∃ p, AHT.consistencyProofAPI t i j = .ok p ∧
      verifyConsistency mh p i j (mth mh ((ds.take i).map mh.leafH))
        (mth mh ((ds.take j).map mh.leafH)) = true := by
  have F := full_of_appendAll mh ds t ht
  have hx := lt_pow_bitLen (j - 1)
  have hb : (j - 1) / 2 ^ AHT.bitLen (j - 1) * 2 ^ AHT.bitLen (j - 1) = 0 := by
    rw [Nat.div_eq_of_lt hx, Nat.zero_mul]
  obtain ⟨t0, ht1, ht2, ht3⟩ := stripOnes_spec (i + 1) (i - 1) (j - 1) (by omega)
  rcases hst : stripOnes (i + 1) (i - 1) (j - 1) with ⟨fn, sn⟩
  rw [hst] at ht1 ht2 ht3
  simp only at ht1 ht2 ht3
  have hp : 0 < 2 ^ t0 := Nat.pow_pos (by decide)
  have hi' : i = (fn + 1) * 2 ^ t0 := by omega
  have hfn : fn = (i - 1) / 2 ^ t0 := by
    symm
    apply Nat.div_eq_of_lt_le
    · rw [hi', Nat.add_mul]; omega
    · rw [hi', Nat.add_mul]; omega
  have hjl : j ≤ (ds.map mh.leafH).length := by simpa using h3
  have hspec := cons_spec mh t (ds.map mh.leafH) F (AHT.bitLen (j - 1)) i j [] t0 fn
    (by rw [hb]; omega) h2 hjl hi' ht2
  have ht0 : t0 < AHT.bitLen (j - 1) := by
    have h2t : 2 ^ t0 ≤ i := by rw [hi']; exact Nat.le_mul_of_pos_left _ (by omega)
    have : 2 ^ t0 < 2 ^ AHT.bitLen (j - 1) := by omega
    exact (Nat.pow_lt_pow_iff_right (by decide)).mp this
  rw [List.append_nil] at hspec
  refine ⟨nodeAt mh (ds.map mh.leafH) t0 fn ::
    terms mh ((ds.map mh.leafH).take j) i j t0 (AHT.bitLen (j - 1) - t0), ?_, ?_⟩
  · unfold AHT.consistencyProofAPI
    rw [F.size, if_neg (by omega), if_neg (by omega), if_neg (by omega), hspec]
  · have hlen : ((ds.map mh.leafH).take j).length = j := by
      rw [List.length_take]; omega
    have hle : (fn + 1) * 2 ^ t0 ≤ i := by omega
    have hev := evalCons_terms mh ((ds.map mh.leafH).take j) i j hlen h1 (by omega)
      (AHT.bitLen (j - 1) - t0) t0 fn sn (nodeAt mh (ds.map mh.leafH) t0 fn)
      (nodeAt mh (ds.map mh.leafH) t0 fn) hfn ht3
      (by rw [nodeAt_take mh _ i t0 fn hle, nodeAt_take mh _ j t0 fn (by omega)])
      (by rw [nodeAt_take mh _ j t0 fn (by omega)])
      (by
        have : t0 + (AHT.bitLen (j - 1) - t0) = AHT.bitLen (j - 1) := by omega
        rw [this]; exact hx)
    unfold verifyConsistency
    rw [if_neg (by simp; omega), if_neg (by omega), evalConsistency_cons, hst]
    simp only
    rw [hev]
    have e1 : ((ds.map mh.leafH).take j).take i = (ds.take i).map mh.leafH := by
      rw [List.take_take, List.map_take]
      have : min i j = i := by omega
      rw [this]
    rw [e1, List.map_take]
    simp

theorem bitLen_pos (x : Nat) (hx : x ≠ 0) : AHT.bitLen x = Nat.log2 x + 1 := by
  unfold AHT.bitLen
  rw [if_neg hx]

theorem cons_eq (mh : MH D) (ds : List Bytes) (t : AHT D) (j : Nat)
    (ht : AHT.appendAll mh AHT.empty ds = some t) (h1 : 1 ≤ j) (h3 : j ≤ ds.length) :
    ∃ p, AHT.consistencyProofAPI t j j = .ok p ∧
      verifyConsistency mh p j j (mth mh ((ds.take j).map mh.leafH))
        (mth mh ((ds.take j).map mh.leafH)) = true := by
  have F := full_of_appendAll mh ds t ht
  have hjl : j ≤ (ds.map mh.leafH).length := by simpa using h3
  by_cases hj1 : j = 1
  · subst hj1
    refine ⟨[], ?_, ?_⟩
    · unfold AHT.consistencyProofAPI
      rw [F.size, if_neg (by omega), if_neg (by omega), if_neg (by omega)]
      rfl
    · unfold verifyConsistency
      simp
  · have hx0 : j - 1 ≠ 0 := by omega
    have hlo : 2 ^ Nat.log2 (j - 1) ≤ j - 1 := Nat.log2_self_le hx0
    have hhi : j - 1 < 2 ^ (Nat.log2 (j - 1) + 1) := Nat.lt_log2_self
    generalize hh : Nat.log2 (j - 1) = h at hlo hhi
    have hp : 0 < 2 ^ h := Nat.pow_pos (by decide)
    rw [Nat.pow_succ] at hhi
    have hq : (j - 1) / 2 ^ h = 1 := by
      apply Nat.div_eq_of_lt_le <;> omega
    have hnode := F.node (2 ^ h) h (by omega) (by omega) (Nat.dvd_refl _)
    have hhigh := F.high j h (by omega) hjl
    rw [hq, Nat.one_mul] at hhigh
    rw [Nat.sub_self, List.drop_zero] at hnode
    refine ⟨[mth mh (((ds.map mh.leafH).take j).drop (2 ^ h)), mth mh ((ds.map mh.leafH).take (2 ^ h))],
      ?_, ?_⟩
    · unfold AHT.consistencyProofAPI
      rw [F.size, if_neg (by omega), if_neg (by omega), if_neg (by omega), bitLen_pos _ hx0, hh,
        AHT.consistencyProof]
      simp only [hq, Nat.one_mul, if_true, if_neg (show ¬ j ≤ 2 ^ h by omega), hnode, hhigh]
    · unfold verifyConsistency
      rw [if_neg (by simp; omega), if_neg (by simp), evalConsistency_cons,
        evalConsAux_both mh _ _ _ _ _ _ _ (Or.inr (stripOnes_diag _ _)), evalConsAux_nil]
      have hs := blk_split mh (ds.map mh.leafH) 0 (2 ^ h) j h (by omega) (by omega)
        (by rw [Nat.pow_succ]; omega) hjl
      unfold blk at hs
      rw [List.drop_zero, List.drop_zero] at hs
      rw [List.map_take, ← hs]
      simp

end

end ImmuModel.Merkle.AhtComplete

namespace ImmuModel.Merkle
open AhtComplete
variable {D : Type} [DecidableEq D]

/-- (A) inclusion-proof completeness for every 1 ≤ i ≤ j ≤ n -/
theorem aht_inclusion_complete (mh : MH D) (ds : List Bytes) (t : AHT D) (i j : Nat)
    (ht : AHT.appendAll mh AHT.empty ds = some t) (h1 : 1 ≤ i) (h2 : i ≤ j) (h3 : j ≤ ds.length) :
    ∃ p, AHT.inclusionProofAPI t i j = .ok p ∧
      verifyInclusion mh p i j (mh.leafH (ds[i-1]'(by omega))) (mth mh ((ds.take j).map mh.leafH)) = true := by
  obtain ⟨p, hp1, hp2, hp3⟩ := incl_api mh ds t i j ht h1 h2 h3
  refine ⟨p, hp1, ?_⟩
  unfold verifyInclusion inclusionProofLen evalInclusion
  have hne : ¬ (i > j ∨ i = 0 ∨ (i < j ∧ p.length = 0)) := by
    intro h
    rcases h with h | h | ⟨h, h0⟩
    · omega
    · omega
    · rw [hp2, inclLenAux] at h0
      rw [if_neg (by omega)] at h0
      omega
  rw [if_neg hne, if_neg (by rw [hp2]; simp), hp3]
  simp

/-- (B) last-inclusion: the proof for (j, j) is accepted by verifyLastInclusion -/
theorem aht_lastInclusion_complete (mh : MH D) (ds : List Bytes) (t : AHT D) (j : Nat)
    (ht : AHT.appendAll mh AHT.empty ds = some t) (h1 : 1 ≤ j) (h3 : j ≤ ds.length) :
    ∃ p, AHT.inclusionProofAPI t j j = .ok p ∧
      verifyLastInclusion mh p j (mh.leafH (ds[j-1]'(by omega))) (mth mh ((ds.take j).map mh.leafH)) = true := by
  obtain ⟨p, hp1, hp2, hp3⟩ := incl_api mh ds t j j ht h1 (Nat.le_refl j) h3
  refine ⟨p, hp1, ?_⟩
  rw [inclLenAux_self] at hp2
  rw [evalInclAux_self] at hp3
  unfold verifyLastInclusion
  rw [if_neg (by rw [hp2]; simp; omega), hp3]
  simp

/-- (C) consistency-proof completeness for every 1 ≤ i ≤ j ≤ n -/
theorem aht_consistency_complete (mh : MH D) (ds : List Bytes) (t : AHT D) (i j : Nat)
    (ht : AHT.appendAll mh AHT.empty ds = some t) (h1 : 1 ≤ i) (h2 : i ≤ j) (h3 : j ≤ ds.length) :
    ∃ p, AHT.consistencyProofAPI t i j = .ok p ∧
      verifyConsistency mh p i j (mth mh ((ds.take i).map mh.leafH)) (mth mh ((ds.take j).map mh.leafH)) = true := by
  by_cases hij : i = j
  · subst hij
    exact cons_eq mh ds t i ht h1 h3
  · exact cons_lt mh ds t i j ht h1 (by omega) h3

end ImmuModel.Merkle
