/-
Soundness of `verifyConsistency` (RFC 6962/9162 iterative consistency verifier as
implemented in immudb's ahtree/verification.go) against the reference tree `mth`,
for an arbitrary hash: accept ⇒ correct ∨ explicit `nodeH` collision.
-/
import ImmuModel.Merkle.Verify

namespace ImmuModel.Merkle
variable {D : Type}

/-! ### Arithmetic helpers -/

theorem pow2lt_eq_c {n l : Nat} (h1 : 2 ^ l < n) (h2 : n ≤ 2 ^ (l + 1)) : pow2lt n = 2 ^ l := by
  unfold pow2lt
  have hp : 0 < 2 ^ l := Nat.pow_pos (by decide)
  have hn : n - 1 ≠ 0 := by omega
  have : Nat.log2 (n - 1) = l := (Nat.log2_eq_iff hn).2 ⟨by omega, by omega⟩
  rw [this]

theorem div_lo (a P : Nat) : a / P * P ≤ a := Nat.div_mul_le_self a P

theorem div_hi (a : Nat) {P : Nat} (hP : 0 < P) : a < (a / P + 1) * P := by
  have := Nat.lt_mul_div_succ a hP
  rwa [Nat.mul_comm] at this

/-! ### Nodes of the reference tree, addressed by (level, index) -/

theorem mth_split_c (mh : MH D) (xs : List D) (l : Nat) (h1 : 2 ^ l < xs.length)
    (h2 : xs.length ≤ 2 ^ (l + 1)) :
    mth mh xs = mh.nodeH (mth mh (xs.take (2 ^ l))) (mth mh (xs.drop (2 ^ l))) := by
  have hp : 0 < 2 ^ l := Nat.pow_pos (by decide)
  match xs, h1, h2 with
  | [], h1, _ => simp at h1
  | [x], h1, _ => simp at h1
  | x :: y :: r, h1, h2 =>
    have hk : pow2lt (r.length + 2) = 2 ^ l := pow2lt_eq_c (by simpa using h1) (by simpa using h2)
    rw [mth, hk]

/-- Hash of the node at level `l`, index `x` of the reference tree over `xs`:
the leaves `[x·2^l, min |xs| ((x+1)·2^l))`. -/
def nodeAt (mh : MH D) (xs : List D) (l x : Nat) : D :=
  mth mh ((xs.drop (x * 2 ^ l)).take (2 ^ l))

theorem nodeAt_split (mh : MH D) (xs : List D) (l x : Nat) (hx : x % 2 = 0)
    (h : (x + 1) * 2 ^ l < xs.length) :
    nodeAt mh xs (l + 1) (x / 2) = mh.nodeH (nodeAt mh xs l x) (nodeAt mh xs l (x + 1)) := by
  have hp : 0 < 2 ^ l := Nat.pow_pos (by decide)
  have ha : x / 2 * 2 ^ (l + 1) = x * 2 ^ l := by
    rw [Nat.pow_succ, Nat.mul_comm (2 ^ l) 2, ← Nat.mul_assoc]
    congr 1; omega
  have hb : (x + 1) * 2 ^ l = x * 2 ^ l + 2 ^ l := by rw [Nat.add_mul]; omega
  have h22 : 2 ^ (l + 1) = 2 ^ l + 2 ^ l := by rw [Nat.pow_succ]; omega
  unfold nodeAt
  rw [ha]
  rw [mth_split_c mh _ l (by simp only [List.length_take, List.length_drop]; omega)
        (by simp only [List.length_take, List.length_drop]; omega)]
  rw [List.take_take, List.drop_take, List.drop_drop, hb]
  congr 3
  · omega
  · omega

theorem nodeAt_split_odd (mh : MH D) (xs : List D) (l x : Nat) (hx : x % 2 = 1)
    (h : x * 2 ^ l < xs.length) :
    nodeAt mh xs (l + 1) (x / 2) = mh.nodeH (nodeAt mh xs l (x - 1)) (nodeAt mh xs l x) := by
  have := nodeAt_split mh xs l (x - 1) (by omega) (by rw [show x - 1 + 1 = x by omega]; exact h)
  rw [show x - 1 + 1 = x by omega, show (x - 1) / 2 = x / 2 by omega] at this
  exact this

/-- A node whose range reaches the end of the list is just `mth` of the remaining suffix. -/
theorem nodeAt_last (mh : MH D) (xs : List D) (l x : Nat) (h : xs.length ≤ (x + 1) * 2 ^ l) :
    nodeAt mh xs l x = mth mh (xs.drop (x * 2 ^ l)) := by
  unfold nodeAt
  rw [List.take_of_length_le]
  rw [List.length_drop, Nat.add_mul] at *
  omega

theorem nodeAt_promote (mh : MH D) (xs : List D) (l x : Nat) (hx : x % 2 = 0)
    (h : xs.length ≤ (x + 1) * 2 ^ l) :
    nodeAt mh xs (l + 1) (x / 2) = nodeAt mh xs l x := by
  have hp : 0 < 2 ^ l := Nat.pow_pos (by decide)
  have ha : x / 2 * 2 ^ (l + 1) = x * 2 ^ l := by
    rw [Nat.pow_succ, Nat.mul_comm (2 ^ l) 2, ← Nat.mul_assoc]
    congr 1; omega
  rw [nodeAt_last mh xs l x h, nodeAt_last mh xs (l + 1) (x / 2), ha]
  rw [Nat.add_mul, ha, Nat.pow_succ]
  rw [Nat.add_mul] at h
  omega

theorem nodeAt_top (mh : MH D) (xs : List D) (l : Nat) (h : xs.length ≤ 2 ^ l) :
    nodeAt mh xs l 0 = mth mh xs := by
  rw [nodeAt_last mh xs l 0 (by simpa using h)]
  simp

/-- Complete-enough nodes of the old tree (prefix) coincide with those of the new tree. -/
theorem nodeAt_take (mh : MH D) (ys : List D) (i l x : Nat) (h : (x + 1) * 2 ^ l ≤ i) :
    nodeAt mh (ys.take i) l x = nodeAt mh ys l x := by
  unfold nodeAt
  rw [List.drop_take, List.take_take]
  congr 2
  rw [Nat.add_mul] at h
  omega


/-! ### Specifications of the index-stripping loops -/

theorem stripOnes_spec (fuel fn0 sn0 : Nat) (h : fn0 < fuel) :
    ∃ t, fn0 + 1 = ((stripOnes fuel fn0 sn0).1 + 1) * 2 ^ t ∧
      (stripOnes fuel fn0 sn0).1 % 2 = 0 ∧ (stripOnes fuel fn0 sn0).2 = sn0 / 2 ^ t := by
  induction fuel generalizing fn0 sn0 with
  | zero => omega
  | succ fuel ih =>
    unfold stripOnes
    split
    · obtain ⟨t, h1, h2, h3⟩ := ih (fn0 / 2) (sn0 / 2) (by omega)
      refine ⟨t + 1, ?_, h2, ?_⟩
      · rw [Nat.pow_succ, ← Nat.mul_assoc, ← h1]; omega
      · rw [h3, Nat.div_div_eq_div_mul, Nat.pow_succ, Nat.mul_comm]
    · exact ⟨0, by simp, by simp; omega, by simp⟩

theorem stripOnes_diag (fuel a : Nat) : (stripOnes fuel a a).1 = (stripOnes fuel a a).2 := by
  induction fuel generalizing a with
  | zero => rfl
  | succ fuel ih =>
    unfold stripOnes
    split
    · exact ih _
    · rfl

theorem stripZeros_spec (fuel fn sn : Nat) (h : fn < fuel) (h0 : fn ≠ 0) :
    ∃ z, fn = (stripZeros fuel fn sn).1 * 2 ^ z ∧ (stripZeros fuel fn sn).1 % 2 = 1 ∧
      (stripZeros fuel fn sn).1 = fn / 2 ^ z ∧ (stripZeros fuel fn sn).2 = sn / 2 ^ z := by
  induction fuel generalizing fn sn with
  | zero => omega
  | succ fuel ih =>
    unfold stripZeros
    split
    · obtain ⟨z, h1, h2, h3, h4⟩ := ih (fn / 2) (sn / 2) (by omega) (by omega)
      refine ⟨z + 1, ?_, h2, ?_, ?_⟩
      · rw [Nat.pow_succ, ← Nat.mul_assoc, ← h1]; omega
      · rw [h3, Nat.div_div_eq_div_mul, Nat.pow_succ, Nat.mul_comm]
      · rw [h4, Nat.div_div_eq_div_mul, Nat.pow_succ, Nat.mul_comm]
    · exact ⟨0, by simp, by simp; omega, by simp, by simp⟩

theorem stripZeros_odd (fuel fn sn : Nat) (h : fn % 2 = 1) :
    stripZeros fuel fn sn = (fn, sn) := by
  cases fuel with
  | zero => rfl
  | succ fuel => unfold stripZeros; rw [if_neg (by omega)]

theorem stripZeros_diag (fuel a : Nat) : (stripZeros fuel a a).1 = (stripZeros fuel a a).2 := by
  induction fuel generalizing a with
  | zero => rfl
  | succ fuel ih =>
    unfold stripZeros
    split
    · exact ih _
    · rfl

/-! ### Unfolding lemmas for `evalConsAux` -/

theorem evalConsAux_nil (mh : MH D) (fn sn : Nat) (ci cj : D) (ok : Bool) :
    evalConsAux mh [] fn sn ci cj ok = (ci, cj, ok && sn == 0) := by
  simp [evalConsAux]

theorem evalConsAux_both (mh : MH D) (h : D) (p : List D) (fn sn : Nat) (ci cj : D) (ok : Bool)
    (hc : fn % 2 = 1 ∨ fn = sn) :
    evalConsAux mh (h :: p) fn sn ci cj ok =
      evalConsAux mh p ((stripZeros (fn + 1) fn sn).1 / 2) ((stripZeros (fn + 1) fn sn).2 / 2)
        (mh.nodeH h ci) (mh.nodeH h cj) (ok && sn != 0) := by
  rw [evalConsAux]
  simp only [if_pos hc]

theorem evalConsAux_right (mh : MH D) (h : D) (p : List D) (fn sn : Nat) (ci cj : D) (ok : Bool)
    (hc : ¬ (fn % 2 = 1 ∨ fn = sn)) :
    evalConsAux mh (h :: p) fn sn ci cj ok =
      evalConsAux mh p (fn / 2) (sn / 2) ci (mh.nodeH cj h) (ok && sn != 0) := by
  rw [evalConsAux]
  simp only [if_neg hc]

theorem evalConsAux_false (mh : MH D) (p : List D) (fn sn : Nat) (ci cj : D) :
    (evalConsAux mh p fn sn ci cj false).2.2 = false := by
  induction p generalizing fn sn ci cj with
  | nil => simp [evalConsAux_nil]
  | cons h p ih =>
    by_cases hc : fn % 2 = 1 ∨ fn = sn
    · rw [evalConsAux_both mh h p fn sn ci cj false hc]; exact ih _ _ _ _
    · rw [evalConsAux_right mh h p fn sn ci cj false hc]; exact ih _ _ _ _

/-! ### The backward invariant -/

theorem nodeH_inj (mh : MH D) {a b c d : D} (h : mh.nodeH a b = mh.nodeH c d) :
    (a = c ∧ b = d) ∨ Coll mh := by
  by_cases e : (a, b) = (c, d)
  · left; simpa using e
  · right; left; exact ⟨a, b, c, d, e, h⟩

theorem nodeAt_last_eq (mh : MH D) (xs : List D) (l x l' x' : Nat)
    (h : xs.length ≤ (x + 1) * 2 ^ l) (h' : xs.length ≤ (x' + 1) * 2 ^ l')
    (he : x * 2 ^ l = x' * 2 ^ l') : nodeAt mh xs l x = nodeAt mh xs l' x' := by
  rw [nodeAt_last mh xs l x h, nodeAt_last mh xs l' x' h', he]

/-- One "odd index" step read backwards: the term `h` must be the left sibling, common
to the old and the new tree. -/
theorem step_odd (mh : MH D) (ys : List D) (i m x : Nat) (G : Prop) (h ci cj : D)
    (hx : x % 2 = 1) (hxi : x * 2 ^ m < i) (hi : i ≤ ys.length)
    (h1 : mh.nodeH h cj = nodeAt mh ys (m + 1) (x / 2))
    (h2 : mh.nodeH h ci = nodeAt mh (ys.take i) (m + 1) (x / 2) → G) :
    Coll mh ∨ (cj = nodeAt mh ys m x ∧ (ci = nodeAt mh (ys.take i) m x → G)) := by
  rw [nodeAt_split_odd mh ys m x hx (by omega)] at h1
  rcases nodeH_inj mh h1 with ⟨e1, e2⟩ | hc
  · right
    refine ⟨e2, fun hci => h2 ?_⟩
    have hl : (ys.take i).length = i := by rw [List.length_take]; omega
    rw [nodeAt_split_odd mh (ys.take i) m x hx (by omega), nodeAt_take, e1, hci]
    rw [show x - 1 + 1 = x by omega]; omega
  · left; exact hc

theorem evalConsAux_sound (mh : MH D) (ys : List D) (i j : Nat) (hlen : ys.length = j)
    (hi : 1 ≤ i) (hij : i ≤ j) (p : List D) :
    ∀ (l fn sn : Nat) (ci cj cif cjf : D), fn = (i - 1) / 2 ^ l → sn = (j - 1) / 2 ^ l →
      evalConsAux mh p fn sn ci cj true = (cif, cjf, true) → cjf = mth mh ys →
      Coll mh ∨ (cj = nodeAt mh ys l fn ∧
        (ci = nodeAt mh (ys.take i) l fn → cif = mth mh (ys.take i))) := by
  have hl : (ys.take i).length = i := by rw [List.length_take]; omega
  induction p with
  | nil =>
    intro l fn sn ci cj cif cjf hfn hsn hev hroot
    have hp : 0 < 2 ^ l := Nat.pow_pos (by decide)
    rw [evalConsAux_nil] at hev
    simp only [Prod.mk.injEq, Bool.true_and, beq_iff_eq] at hev
    obtain ⟨e1, e2, e3⟩ := hev
    have hj := div_hi (j - 1) hp
    rw [← hsn, e3] at hj
    have hle : fn ≤ sn := by rw [hfn, hsn]; exact Nat.div_le_div_right (by omega)
    have hfn0 : fn = 0 := by omega
    right
    subst hfn0
    refine ⟨?_, fun hci => ?_⟩
    · rw [nodeAt_top mh ys l (by omega), e2, hroot]
    · rw [← e1, hci, nodeAt_top mh _ l (by omega)]
  | cons h p ih =>
    intro l fn sn ci cj cif cjf hfn hsn hev hroot
    have hp : 0 < 2 ^ l := Nat.pow_pos (by decide)
    have hle : fn ≤ sn := by rw [hfn, hsn]; exact Nat.div_le_div_right (by omega)
    have hilo : fn * 2 ^ l ≤ i - 1 := by rw [hfn]; exact div_lo _ _
    have hihi : i - 1 < (fn + 1) * 2 ^ l := by rw [hfn]; exact div_hi _ hp
    have hjlo : sn * 2 ^ l ≤ j - 1 := by rw [hsn]; exact div_lo _ _
    have hjhi : j - 1 < (sn + 1) * 2 ^ l := by rw [hsn]; exact div_hi _ hp
    have hfn1 : fn / 2 = (i - 1) / 2 ^ (l + 1) := by
      rw [hfn, Nat.div_div_eq_div_mul, Nat.pow_succ]
    have hsn1 : sn / 2 = (j - 1) / 2 ^ (l + 1) := by
      rw [hsn, Nat.div_div_eq_div_mul, Nat.pow_succ]
    -- `complete` forces sn ≠ 0 whenever a term is consumed
    have hsn0 : sn ≠ 0 := by
      intro h0
      have hf : (evalConsAux mh (h :: p) fn sn ci cj true).2.2 = false := by
        by_cases hc : fn % 2 = 1 ∨ fn = sn
        · rw [evalConsAux_both mh h p fn sn ci cj true hc, h0]; exact evalConsAux_false _ _ _ _ _ _
        · rw [evalConsAux_right mh h p fn sn ci cj true hc, h0]; exact evalConsAux_false _ _ _ _ _ _
      rw [hev] at hf; simp at hf
    have hok : (true && sn != 0) = true := by simp; exact hsn0
    by_cases hc : fn % 2 = 1 ∨ fn = sn
    · rw [evalConsAux_both mh h p fn sn ci cj true hc, hok] at hev
      by_cases hodd : fn % 2 = 1
      · rw [stripZeros_odd _ _ _ hodd] at hev
        rcases ih (l + 1) (fn / 2) (sn / 2) _ _ cif cjf hfn1 hsn1 hev hroot with hcoll | ⟨h1, h2⟩
        · left; exact hcoll
        · exact step_odd mh ys i l fn _ h ci cj hodd (by omega) (by omega) h1 h2
      · have hfs : fn = sn := by rcases hc with hc | hc; exact absurd hc hodd; exact hc
        have hspec := stripZeros_spec (fn + 1) fn sn (by omega) (by omega)
        rcases hst : stripZeros (fn + 1) fn sn with ⟨f', s'⟩
        rw [hst] at hspec hev
        obtain ⟨z, hz1, hz2, hz3, hz4⟩ := hspec
        simp only at hz1 hz2 hz3 hz4 hev
        have hq : f' * 2 ^ (l + z) = fn * 2 ^ l := by
          rw [hz1, Nat.pow_add, Nat.mul_comm (2 ^ l), Nat.mul_assoc]
        have hf'i : f' = (i - 1) / 2 ^ (l + z) := by
          rw [hz3, hfn, Nat.div_div_eq_div_mul, Nat.pow_add]
        have hf'j : f' = (j - 1) / 2 ^ (l + z) := by
          rw [hz3, hfs, hsn, Nat.div_div_eq_div_mul, Nat.pow_add]
        have hs'j : s' = (j - 1) / 2 ^ (l + z) := by
          rw [hz4, hsn, Nat.div_div_eq_div_mul, Nat.pow_add]
        have hpz : 0 < 2 ^ (l + z) := Nat.pow_pos (by decide)
        have hfn2 : f' / 2 = (i - 1) / 2 ^ (l + z + 1) := by
          rw [hf'i, Nat.div_div_eq_div_mul, Nat.pow_succ]
        have hsn2 : s' / 2 = (j - 1) / 2 ^ (l + z + 1) := by
          rw [hs'j, Nat.div_div_eq_div_mul, Nat.pow_succ]
        have hihi' : i - 1 < (f' + 1) * 2 ^ (l + z) := by rw [hf'i]; exact div_hi _ hpz
        have hjhi' : j - 1 < (f' + 1) * 2 ^ (l + z) := by rw [hf'j]; exact div_hi _ hpz
        have hjhi2 : j - 1 < (fn + 1) * 2 ^ l := by rw [hfs]; exact hjhi
        rcases ih (l + z + 1) (f' / 2) (s' / 2) _ _ cif cjf hfn2 hsn2 hev hroot with hcoll | ⟨h1, h2⟩
        · left; exact hcoll
        · have := step_odd mh ys i (l + z) f' _ h ci cj hz2 (by omega) (by omega) h1 h2
          rw [nodeAt_last_eq mh ys (l + z) f' l fn (by omega) (by omega) hq,
            nodeAt_last_eq mh (ys.take i) (l + z) f' l fn (by omega) (by omega) hq] at this
          exact this
    · rw [evalConsAux_right mh h p fn sn ci cj true hc, hok] at hev
      have heven : fn % 2 = 0 := by omega
      have hlt : fn + 1 ≤ sn := by omega
      have hmul : (fn + 1) * 2 ^ l ≤ sn * 2 ^ l := Nat.mul_le_mul_right _ hlt
      rcases ih (l + 1) (fn / 2) (sn / 2) _ _ cif cjf hfn1 hsn1 hev hroot with hcoll | ⟨h1, h2⟩
      · left; exact hcoll
      · rw [nodeAt_split mh ys l fn heven (by omega)] at h1
        rcases nodeH_inj mh h1 with ⟨e1, _⟩ | hcoll
        · right
          refine ⟨e1, fun hci => h2 ?_⟩
          rw [nodeAt_promote mh _ l fn heven (by omega)]; exact hci
        · left; exact hcoll

/-! ### The `i = j` case: both running hashes stay equal -/

theorem evalConsAux_diag (mh : MH D) (p : List D) (a : Nat) (c : D) (ok : Bool) :
    (evalConsAux mh p a a c c ok).1 = (evalConsAux mh p a a c c ok).2.1 := by
  induction p generalizing a c ok with
  | nil => simp [evalConsAux_nil]
  | cons h p ih =>
    rw [evalConsAux_both mh h p a a c c ok (Or.inr rfl), ← stripZeros_diag]
    exact ih _ _ _

theorem evalConsistency_cons (mh : MH D) (h0 : D) (rest : List D) (i j : Nat) :
    evalConsistency mh (h0 :: rest) i j =
      some (evalConsAux mh rest (stripOnes (i + 1) (i - 1) (j - 1)).1
        (stripOnes (i + 1) (i - 1) (j - 1)).2 h0 h0 true) := rfl

variable [DecidableEq D]

/-- The `i = j` case of soundness (no collision alternative needed). -/
theorem verifyConsistency_sound_eq (mh : MH D) (p : List D) (i : Nat) (r1 r2 : D)
    (hv : verifyConsistency mh p i i r1 r2 = true) : r1 = r2 := by
  unfold verifyConsistency at hv
  split at hv
  · exact absurd hv (by simp)
  · split at hv
    · simpa using hv
    · cases p with
      | nil => simp [evalConsistency] at hv
      | cons h0 rest =>
        rw [evalConsistency_cons] at hv
        simp only [Bool.and_eq_true, beq_iff_eq] at hv
        obtain ⟨⟨_, e1⟩, e2⟩ := hv
        rw [e1, e2, ← stripOnes_diag]
        exact evalConsAux_diag mh rest _ h0 true

/-- Soundness of consistency verification against the reference tree, arbitrary hash:
if the verifier accepts (i, j, r1, r2) and r2 really is the root of the j leaves `ys`,
then r1 is the root of the first i of them — or an explicit nodeH collision exists. -/
theorem verifyConsistency_sound (mh : MH D) (p : List D) (i j : Nat) (r1 : D) (ys : List D)
    (hlen : ys.length = j)
    (hv : verifyConsistency mh p i j r1 (mth mh ys) = true) :
    r1 = mth mh (ys.take i) ∨ Coll mh := by
  by_cases hij : i = j
  · subst hij
    left
    rw [List.take_of_length_le (by omega)]
    exact verifyConsistency_sound_eq mh p _ r1 _ hv
  · unfold verifyConsistency at hv
    split at hv
    · exact absurd hv (by simp)
    · rename_i hg
      have hi : 1 ≤ i := by omega
      have hle : i ≤ j := by omega
      rw [if_neg (by omega)] at hv
      cases p with
      | nil => simp [evalConsistency] at hv
      | cons h0 rest =>
        rw [evalConsistency_cons] at hv
        obtain ⟨t, ht1, ht2, ht3⟩ := stripOnes_spec (i + 1) (i - 1) (j - 1) (by omega)
        rcases hst : stripOnes (i + 1) (i - 1) (j - 1) with ⟨fn, sn⟩
        rw [hst] at hv ht1 ht2 ht3
        simp only at hv ht1 ht2 ht3
        rcases hres : evalConsAux mh rest fn sn h0 h0 true with ⟨cif, cjf, okf⟩
        rw [hres] at hv
        simp only [Bool.and_eq_true, beq_iff_eq, Bool.or_eq_true] at hv
        obtain ⟨⟨hcomp, e1⟩, e2⟩ := hv
        have hokf : okf = true := by
          rcases hcomp with h | h
          · exact absurd h hij
          · exact h
        subst hokf
        have hp : 0 < 2 ^ t := Nat.pow_pos (by decide)
        have hi' : i = (fn + 1) * 2 ^ t := by omega
        have hfn : fn = (i - 1) / 2 ^ t := by
          symm
          apply Nat.div_eq_of_lt_le
          · rw [hi', Nat.add_mul]; omega
          · rw [hi', Nat.add_mul]; omega
        rcases evalConsAux_sound mh ys i j hlen hi hle rest t fn sn h0 h0 cif cjf hfn ht3 hres e2.symm
          with hcoll | ⟨h1, h2⟩
        · right; exact hcoll
        · left
          rw [e1]
          apply h2
          rw [nodeAt_take mh ys i t fn (by omega)]
          exact h1

end ImmuModel.Merkle
