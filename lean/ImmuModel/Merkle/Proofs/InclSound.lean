/-
Soundness of `verifyInclusion` / `verifyLastInclusion` against the reference tree `mth`,
for an arbitrary hash (conclusion: `Good ∨ Coll mh`).
-/
import ImmuModel.Merkle.Verify

namespace ImmuModel.Merkle
variable {D : Type}

/-! ### popcount -/

theorem popcount_zero : popcount 0 = 0 := by
  rw [popcount]

theorem popcount_eq (n : Nat) : popcount n = n % 2 + popcount (n / 2) := by
  cases n with
  | zero => simp [popcount_zero]
  | succ n => rw [popcount]

theorem popcount_two_pow_add (m : Nat) :
    ∀ x, x < 2 ^ m → popcount (2 ^ m + x) = 1 + popcount x := by
  induction m with
  | zero =>
    intro x hx
    have : x = 0 := by omega
    subst this
    rw [popcount_eq]
  | succ m ih =>
    intro x hx
    rw [Nat.pow_succ] at hx
    rw [popcount_eq (2 ^ (m + 1) + x), popcount_eq x]
    have h1 : (2 ^ (m + 1) + x) % 2 = x % 2 := by rw [Nat.pow_succ]; omega
    have h2 : (2 ^ (m + 1) + x) / 2 = 2 ^ m + x / 2 := by rw [Nat.pow_succ]; omega
    rw [h1, h2, ih (x / 2) (by omega)]
    omega

theorem popcount_two_pow_sub_one (m : Nat) : popcount (2 ^ m - 1) = m := by
  induction m with
  | zero => simp [popcount_zero]
  | succ m ih =>
    have hp : 0 < 2 ^ m := Nat.pow_pos (by decide)
    rw [popcount_eq]
    have h1 : (2 ^ (m + 1) - 1) % 2 = 1 := by rw [Nat.pow_succ]; omega
    have h2 : (2 ^ (m + 1) - 1) / 2 = 2 ^ m - 1 := by rw [Nat.pow_succ]; omega
    rw [h1, h2, ih]
    omega

theorem popcount_le (m : Nat) : ∀ x, x < 2 ^ m → popcount x ≤ m := by
  induction m with
  | zero =>
    intro x hx
    have : x = 0 := by omega
    subst this
    simp [popcount_zero]
  | succ m ih =>
    intro x hx
    rw [Nat.pow_succ] at hx
    rw [popcount_eq]
    have := ih (x / 2) (by omega)
    omega

/-! ### inclLenAux -/

theorem inclLenAux_self (f a : Nat) : inclLenAux f a a = popcount a := by
  cases f with
  | zero => rfl
  | succ f => simp [inclLenAux]

/-- Fuel independence. -/
theorem inclLenAux_fuel (f : Nat) : ∀ g i1 j1, i1 ≤ j1 → j1 < 2 ^ f → j1 < 2 ^ g →
    inclLenAux f i1 j1 = inclLenAux g i1 j1 := by
  induction f with
  | zero =>
    intro g i1 j1 hij hf _
    have hj : j1 = 0 := by simpa using hf
    have hi : i1 = 0 := by omega
    subst hj; subst hi
    rw [inclLenAux_self, inclLenAux_self]
  | succ f ih =>
    intro g i1 j1 hij hf hg
    cases g with
    | zero =>
      have hj : j1 = 0 := by simpa using hg
      have hi : i1 = 0 := by omega
      subst hj; subst hi
      rw [inclLenAux_self, inclLenAux_self]
    | succ g =>
      rw [Nat.pow_succ] at hf hg
      simp only [inclLenAux]
      by_cases h : i1 = j1
      · simp [h]
      · simp only [h, if_false]
        rw [ih g (i1 / 2) (j1 / 2) (by omega) (by omega) (by omega)]

/-- Left case: `i1 < 2^m ≤ j1 < 2^(m+1)` needs exactly `m+1` terms. -/
theorem inclLenAux_left (m : Nat) : ∀ f i1 j1, m < f → i1 < 2 ^ m → 2 ^ m ≤ j1 → j1 < 2 ^ (m + 1) →
    inclLenAux f i1 j1 = m + 1 := by
  induction m with
  | zero =>
    intro f i1 j1 hf hi hj1 hj2
    have hi0 : i1 = 0 := by omega
    have hj : j1 = 1 := by simp at hj1 hj2; omega
    subst hi0; subst hj
    cases f with
    | zero => omega
    | succ f =>
      simp only [inclLenAux]
      simp [inclLenAux_self, popcount_zero]
  | succ m ih =>
    intro f i1 j1 hf hi hj1 hj2
    cases f with
    | zero => omega
    | succ f =>
      rw [Nat.pow_succ] at hi hj1 hj2
      have hne : i1 ≠ j1 := by omega
      simp only [inclLenAux, hne, if_false]
      rw [ih f (i1 / 2) (j1 / 2) (by omega) (by omega) (by omega) (by rw [Nat.pow_succ]; omega)]
      omega

/-- Complete tree of size `2^m`: every position needs `m` terms. -/
theorem inclLenAux_complete (m : Nat) : ∀ f i1, m ≤ f → i1 ≤ 2 ^ m - 1 →
    inclLenAux f i1 (2 ^ m - 1) = m := by
  induction m with
  | zero =>
    intro f i1 _ hi
    have hi0 : i1 = 0 := by simpa using hi
    subst hi0
    simp [inclLenAux_self, popcount_zero]
  | succ m ih =>
    intro f i1 hf hi
    cases f with
    | zero => omega
    | succ f =>
      have hp : 0 < 2 ^ m := Nat.pow_pos (by decide)
      simp only [inclLenAux]
      by_cases h : i1 = 2 ^ (m + 1) - 1
      · simp only [h, if_true]
        exact popcount_two_pow_sub_one (m + 1)
      · simp only [h, if_false]
        have h2 : (2 ^ (m + 1) - 1) / 2 = 2 ^ m - 1 := by rw [Nat.pow_succ]; omega
        rw [h2, ih f (i1 / 2) (by omega) (by rw [Nat.pow_succ] at hi; omega)]
        omega

/-- Right case: both indices in the right subtree. -/
theorem inclLenAux_right (m : Nat) : ∀ f a b, m < f → a ≤ b → b < 2 ^ m →
    inclLenAux f (2 ^ m + a) (2 ^ m + b) = 1 + inclLenAux m a b := by
  induction m with
  | zero =>
    intro f a b hf hab hb
    have hb0 : b = 0 := by simpa using hb
    have ha0 : a = 0 := by omega
    subst hb0; subst ha0
    rw [inclLenAux_self, inclLenAux_self]
    exact popcount_two_pow_add 0 0 (by simp)
  | succ m ih =>
    intro f a b hf hab hb
    cases f with
    | zero => omega
    | succ f =>
      by_cases h : a = b
      · subst h
        rw [inclLenAux_self, inclLenAux_self]
        exact popcount_two_pow_add (m + 1) a hb
      · have hne : 2 ^ (m + 1) + a ≠ 2 ^ (m + 1) + b := by omega
        simp only [inclLenAux, hne, h, if_false]
        have h1 : (2 ^ (m + 1) + a) / 2 = 2 ^ m + a / 2 := by rw [Nat.pow_succ]; omega
        have h2 : (2 ^ (m + 1) + b) / 2 = 2 ^ m + b / 2 := by rw [Nat.pow_succ]; omega
        rw [Nat.pow_succ] at hb
        rw [h1, h2, ih f (a / 2) (b / 2) (by omega) (by omega) (by omega)]

theorem inclLenAux_le (m : Nat) : ∀ f a b, a ≤ b → b < 2 ^ m → inclLenAux f a b ≤ m := by
  induction m with
  | zero =>
    intro f a b hab hb
    have hb0 : b = 0 := by simpa using hb
    have ha0 : a = 0 := by omega
    subst hb0; subst ha0
    simp [inclLenAux_self, popcount_zero]
  | succ m ih =>
    intro f a b hab hb
    cases f with
    | zero => exact popcount_le (m + 1) b hb
    | succ f =>
      simp only [inclLenAux]
      by_cases h : a = b
      · simp only [h, if_true]; exact popcount_le (m + 1) b hb
      · simp only [h, if_false]
        rw [Nat.pow_succ] at hb
        have := ih f (a / 2) (b / 2) (by omega) (by omega)
        omega

/-- After a full-length proof the two shifted indices coincide. -/
theorem inclLenAux_div_eq (f : Nat) : ∀ a b, a ≤ b → b < 2 ^ f →
    a / 2 ^ inclLenAux f a b = b / 2 ^ inclLenAux f a b := by
  induction f with
  | zero =>
    intro a b hab hb
    have hb0 : b = 0 := by simpa using hb
    have ha0 : a = 0 := by omega
    subst hb0; subst ha0; rfl
  | succ f ih =>
    intro a b hab hb
    simp only [inclLenAux]
    by_cases h : a = b
    · simp [h]
    · simp only [h, if_false]
      rw [Nat.pow_succ] at hb
      have := ih (a / 2) (b / 2) (by omega) (by omega)
      rw [Nat.pow_add, Nat.pow_one, ← Nat.div_div_eq_div_mul, ← Nat.div_div_eq_div_mul]
      exact this

/-! ### evalInclAux -/

theorem evalInclAux_append (mh : MH D) (q : List D) : ∀ (r : List D) (i1 j1 : Nat) (c : D),
    evalInclAux mh (q ++ r) i1 j1 c =
      evalInclAux mh r (i1 / 2 ^ q.length) (j1 / 2 ^ q.length) (evalInclAux mh q i1 j1 c) := by
  induction q with
  | nil => intro r i1 j1 c; simp [evalInclAux]
  | cons h q ih =>
    intro r i1 j1 c
    simp only [List.cons_append, evalInclAux, List.length_cons]
    rw [ih]
    rw [Nat.pow_succ, Nat.mul_comm, ← Nat.div_div_eq_div_mul, ← Nat.div_div_eq_div_mul]

theorem evalInclAux_self (mh : MH D) (p : List D) : ∀ (a : Nat) (c : D),
    evalInclAux mh p a a c = evalLastInclusion mh p c := by
  induction p with
  | nil => intro a c; rfl
  | cons h p ih =>
    intro a c
    simp only [evalInclAux, evalLastInclusion, List.foldl_cons]
    simp only [ne_eq, not_true_eq_false, and_false, if_false]
    rw [ih]; rfl

/-- Left case: the first `m` steps do not depend on the tree size. -/
theorem evalInclAux_left (mh : MH D) (q : List D) : ∀ (m i1 j1 : Nat) (c : D),
    q.length = m → i1 < 2 ^ m → 2 ^ m ≤ j1 →
    evalInclAux mh q i1 j1 c = evalInclAux mh q i1 (2 ^ m - 1) c := by
  induction q with
  | nil => intro m i1 j1 c _ _ _; rfl
  | cons h q ih =>
    intro m i1 j1 c hm hi hj
    cases m with
    | zero => simp at hm
    | succ m =>
      have hp : 0 < 2 ^ m := Nat.pow_pos (by decide)
      rw [Nat.pow_succ] at hi hj
      have hne : i1 ≠ j1 := by omega
      have h2 : (2 ^ (m + 1) - 1) / 2 = 2 ^ m - 1 := by rw [Nat.pow_succ]; omega
      have hdir : (i1 % 2 = 0 ∧ i1 ≠ j1) ↔ (i1 % 2 = 0 ∧ i1 ≠ 2 ^ (m + 1) - 1) := by
        rw [Nat.pow_succ]; omega
      simp only [evalInclAux, h2]
      rw [ih m (i1 / 2) (j1 / 2) _ (by simpa using hm) (by omega) (by omega)]
      simp only [hdir]

/-- Right case: the first `≤ m` steps coincide with those in the right subtree. -/
theorem evalInclAux_right (mh : MH D) (q : List D) : ∀ (m a b : Nat) (c : D),
    q.length ≤ m → a ≤ b → b < 2 ^ m →
    evalInclAux mh q (2 ^ m + a) (2 ^ m + b) c = evalInclAux mh q a b c := by
  induction q with
  | nil => intro m a b c _ _ _; rfl
  | cons h q ih =>
    intro m a b c hm hab hb
    cases m with
    | zero => simp at hm
    | succ m =>
      rw [Nat.pow_succ] at hb
      have h1 : (2 ^ (m + 1) + a) / 2 = 2 ^ m + a / 2 := by rw [Nat.pow_succ]; omega
      have h2 : (2 ^ (m + 1) + b) / 2 = 2 ^ m + b / 2 := by rw [Nat.pow_succ]; omega
      have hdir : ((2 ^ (m + 1) + a) % 2 = 0 ∧ 2 ^ (m + 1) + a ≠ 2 ^ (m + 1) + b) ↔
          (a % 2 = 0 ∧ a ≠ b) := by
        rw [Nat.pow_succ]; omega
      simp only [evalInclAux, h1, h2]
      rw [ih m (a / 2) (b / 2) _ (by simpa using hm) (by omega) (by omega)]
      simp only [hdir]

/-! ### mth -/

theorem mth_split (mh : MH D) (xs : List D) (h : 2 ≤ xs.length) :
    mth mh xs = mh.nodeH (mth mh (xs.take (pow2lt xs.length))) (mth mh (xs.drop (pow2lt xs.length))) := by
  match xs, h with
  | x :: y :: r, _ =>
    rw [mth]
    simp only [List.length_cons]

theorem pow2lt_le_pred (n : Nat) (h : 2 ≤ n) : 2 ^ Nat.log2 (n - 1) ≤ n - 1 :=
  Nat.log2_self_le (by omega)

theorem nodeH_inj_or_coll (mh : MH D) {a b c d : D} (h : mh.nodeH a b = mh.nodeH c d) :
    (a = c ∧ b = d) ∨ Coll mh := by
  by_cases hne : (a, b) = (c, d)
  · left; exact ⟨congrArg Prod.fst hne, congrArg Prod.snd hne⟩
  · right; left; exact ⟨a, b, c, d, hne, h⟩

theorem list_split_last (p : List D) (n : Nat) (h : p.length = n + 1) :
    ∃ q x, p = q ++ [x] ∧ q.length = n := by
  have hne : p ≠ [] := by intro h0; subst h0; simp at h
  refine ⟨p.dropLast, p.getLast hne, (List.dropLast_concat_getLast hne).symm, ?_⟩
  simp [h]

/-! ### Core soundness, 0-based, arbitrary sufficient fuel -/

theorem incl_core (mh : MH D) (n : Nat) : ∀ (xs p : List D) (i1 f : Nat) (leaf : D),
    xs.length = n → i1 < n → n - 1 < 2 ^ f →
    p.length = inclLenAux f i1 (n - 1) →
    mth mh xs = evalInclAux mh p i1 (n - 1) leaf →
    xs[i1]? = some leaf ∨ Coll mh := by
  induction n using Nat.strongRecOn with
  | _ n IH =>
    intro xs p i1 f leaf hlen hi hf hp hev
    by_cases h1 : n = 1
    · subst h1
      have hi0 : i1 = 0 := by omega
      subst hi0
      rw [show (1 - 1 : Nat) = 0 from rfl, inclLenAux_self, popcount_zero] at hp
      have hpn : p = [] := List.eq_nil_of_length_eq_zero hp
      subst hpn
      match xs, hlen with
      | [x], _ =>
        left
        simp only [evalInclAux] at hev
        rw [mth] at hev
        simp [hev]
    · have hn2 : 2 ≤ n := by omega
      -- shape of the reference tree
      have hsplit := mth_split mh xs (by omega)
      rw [hlen] at hsplit
      have hk1 : 2 ^ Nat.log2 (n - 1) ≤ n - 1 := pow2lt_le_pred n hn2
      have hk2 : n - 1 < 2 ^ (Nat.log2 (n - 1) + 1) := Nat.lt_log2_self
      unfold pow2lt at hsplit
      generalize hm : Nat.log2 (n - 1) = m at hsplit hk1 hk2
      have hmf : m < f := by
        have : 2 ^ m < 2 ^ f := Nat.lt_of_le_of_lt hk1 hf
        exact (Nat.pow_lt_pow_iff_right (by decide)).mp this
      have hk2' : n - 1 < 2 * 2 ^ m := by rw [Nat.pow_succ] at hk2; omega
      by_cases hik : i1 < 2 ^ m
      · -- left subtree
        have hL := inclLenAux_left m f i1 (n - 1) hmf hik hk1 hk2
        rw [hL] at hp
        obtain ⟨q, h, rfl, hq⟩ := list_split_last p m hp
        rw [evalInclAux_append, hq] at hev
        have hi0 : i1 / 2 ^ m = 0 := Nat.div_eq_of_lt hik
        have hj1 : (n - 1) / 2 ^ m = 1 := by
          apply Nat.div_eq_of_lt_le
          · omega
          · omega
        rw [hi0, hj1, evalInclAux_left mh q m i1 (n - 1) leaf hq hik hk1, hsplit] at hev
        simp only [evalInclAux] at hev
        have hev' : mh.nodeH (mth mh (xs.take (2 ^ m))) (mth mh (xs.drop (2 ^ m))) =
            mh.nodeH (evalInclAux mh q i1 (2 ^ m - 1) leaf) h := by simpa using hev
        rcases nodeH_inj_or_coll mh hev' with ⟨hl, _⟩ | hc
        · have hlenL : (xs.take (2 ^ m)).length = 2 ^ m := by
            rw [List.length_take]; omega
          have := IH (2 ^ m) (by omega) (xs.take (2 ^ m)) q i1 m leaf hlenL hik
            (by have : 0 < 2 ^ m := Nat.pow_pos (by decide); omega)
            (by rw [inclLenAux_complete m m i1 (Nat.le_refl _) (by omega)]; exact hq) hl
          rcases this with h | h
          · left
            rw [List.getElem?_take] at h
            simpa [hik] using h
          · right; exact h
        · right; exact hc
      · -- right subtree
        have hik' : 2 ^ m ≤ i1 := by omega
        obtain ⟨a, ha⟩ : ∃ a, i1 = 2 ^ m + a := ⟨i1 - 2 ^ m, by omega⟩
        obtain ⟨b, hb⟩ : ∃ b, n - 1 = 2 ^ m + b := ⟨n - 1 - 2 ^ m, by omega⟩
        have hab : a ≤ b := by omega
        have hbk : b < 2 ^ m := by omega
        rw [hb] at hp hev
        subst ha
        have hR := inclLenAux_right m f a b hmf hab hbk
        rw [hR, Nat.add_comm] at hp
        obtain ⟨q, h, rfl, hq⟩ := list_split_last p _ hp
        have hqm : q.length ≤ m := by rw [hq]; exact inclLenAux_le m m a b hab hbk
        rw [evalInclAux_append, evalInclAux_right mh q m a b leaf hqm hab hbk] at hev
        have hdiv : a / 2 ^ q.length = b / 2 ^ q.length := by
          rw [hq]; exact inclLenAux_div_eq m a b hab hbk
        have hdiv2 : (2 ^ m + a) / 2 ^ q.length = (2 ^ m + b) / 2 ^ q.length := by
          obtain ⟨d, hd⟩ : ∃ d, m = q.length + d := ⟨m - q.length, by omega⟩
          have hpow : 2 ^ m = 2 ^ q.length * 2 ^ d := by rw [hd, Nat.pow_add]
          have hpos : 0 < 2 ^ q.length := Nat.pow_pos (by decide)
          rw [hpow, Nat.mul_add_div hpos, Nat.mul_add_div hpos, hdiv]
        rw [hdiv2, evalInclAux_self, hsplit] at hev
        have hev' : mh.nodeH (mth mh (xs.take (2 ^ m))) (mth mh (xs.drop (2 ^ m))) =
            mh.nodeH h (evalInclAux mh q a b leaf) := by
          simpa [evalLastInclusion] using hev
        rcases nodeH_inj_or_coll mh hev' with ⟨_, hr⟩ | hc
        · have hlenR : (xs.drop (2 ^ m)).length = n - 2 ^ m := by
            rw [List.length_drop, hlen]
          have hpos : 0 < 2 ^ m := Nat.pow_pos (by decide)
          have hbn : n - 2 ^ m - 1 = b := by omega
          have := IH (n - 2 ^ m) (by omega) (xs.drop (2 ^ m)) q a m leaf hlenR (by omega)
            (by rw [hbn]; exact hbk) (by rw [hbn]; exact hq) (by rw [hbn]; exact hr)
          rcases this with h | h
          · left
            rw [List.getElem?_drop] at h
            exact h
          · right; exact h
        · right; exact hc

/-! ### Final theorems -/

variable [DecidableEq D]

/-- Soundness of inclusion verification against the reference tree, for an arbitrary hash. -/
theorem verifyInclusion_sound (mh : MH D) (p : List D) (i j : Nat) (leaf : D) (xs : List D)
    (hlen : xs.length = j)
    (hv : verifyInclusion mh p i j leaf (mth mh xs) = true) :
    xs[i - 1]? = some leaf ∨ Coll mh := by
  unfold verifyInclusion at hv
  split at hv
  · exact absurd hv (by simp)
  · rename_i hc
    split at hv
    · exact absurd hv (by simp)
    · rename_i hl
      have hl' : p.length = inclusionProofLen i j := by
        by_cases h : p.length = inclusionProofLen i j
        · exact h
        · exact absurd h hl
      have hroot : mth mh xs = evalInclusion mh p i j leaf := by simpa using hv
      have hij : ¬ i > j := fun h => hc (Or.inl h)
      have hi0 : ¬ i = 0 := fun h => hc (Or.inr (Or.inl h))
      unfold inclusionProofLen at hl'
      unfold evalInclusion at hroot
      have hfuel : j - 1 < 2 ^ (j + 1) :=
        Nat.lt_of_le_of_lt (by omega) (Nat.lt_two_pow_self (n := j + 1))
      exact incl_core mh j xs p (i - 1) (j + 1) leaf hlen (by omega) hfuel hl' hroot

/-- Soundness of last-leaf inclusion verification. -/
theorem verifyLastInclusion_sound (mh : MH D) (p : List D) (i : Nat) (leaf : D) (xs : List D)
    (hlen : xs.length = i)
    (hv : verifyLastInclusion mh p i leaf (mth mh xs) = true) :
    xs.getLast? = some leaf ∨ Coll mh := by
  unfold verifyLastInclusion at hv
  split at hv
  · exact absurd hv (by simp)
  · rename_i hc
    have hroot : mth mh xs = evalLastInclusion mh p leaf := by simpa using hv
    have hi0 : ¬ i = 0 := fun h => hc (Or.inl h)
    have hl : p.length = popcount (i - 1) := by
      by_cases h : p.length = popcount (i - 1)
      · exact h
      · exact absurd (Or.inr h) hc
    have hfuel : i - 1 < 2 ^ (i + 1) :=
      Nat.lt_of_le_of_lt (by omega) (Nat.lt_two_pow_self (n := i + 1))
    have := incl_core mh i xs p (i - 1) (i + 1) leaf hlen (by omega) hfuel
      (by rw [inclLenAux_self]; exact hl) (by rw [evalInclAux_self]; exact hroot)
    rcases this with h | h
    · left
      rw [List.getLast?_eq_getElem?, hlen]
      exact h
    · right; exact h

end ImmuModel.Merkle
