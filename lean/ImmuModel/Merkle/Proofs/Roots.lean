import ImmuModel.Merkle.AHTree
import ImmuModel.Merkle.HTree

namespace ImmuModel.Merkle
variable {D : Type}

/-! ## pow2lt -/

theorem pow2lt_unique (n a : Nat) (h1 : 2 ^ a < n) (h2 : n ≤ 2 ^ (a + 1)) : pow2lt n = 2 ^ a := by
  unfold pow2lt
  have hp : 0 < 2 ^ a := Nat.pow_pos (by decide)
  have hn : n - 1 ≠ 0 := by omega
  have : Nat.log2 (n - 1) = a := by
    rw [Nat.log2_eq_iff hn]
    omega
  rw [this]

theorem pow2lt_spec (n : Nat) (h : 2 ≤ n) : ∃ a, pow2lt n = 2 ^ a ∧ 2 ^ a < n ∧ n ≤ 2 ^ (a + 1) := by
  refine ⟨Nat.log2 (n - 1), rfl, ?_, ?_⟩
  · exact pow2lt_lt n h
  · have := lt_two_pow2lt n h
    unfold pow2lt at this
    rw [Nat.pow_succ]; omega

theorem pow2lt_half (n : Nat) (h : 2 < n) :
    pow2lt ((n + 1) / 2) = pow2lt n / 2 ∧ pow2lt n % 2 = 0 := by
  obtain ⟨a, ha, h1, h2⟩ := pow2lt_spec n (by omega)
  cases a with
  | zero => simp at h1 h2; omega
  | succ a =>
    have e1 : 2 ^ (a + 1) = 2 * 2 ^ a := by rw [Nat.pow_succ]; omega
    have e2 : 2 ^ (a + 1 + 1) = 2 * 2 ^ (a + 1) := by rw [Nat.pow_succ]; omega
    rw [ha, pow2lt_unique ((n + 1) / 2) a (by omega) (by omega)]
    omega

/-! ## mth unfolding -/

theorem mth_split_r (mh : MH D) (xs : List D) (h : 2 ≤ xs.length) :
    mth mh xs = mh.nodeH (mth mh (xs.take (pow2lt xs.length))) (mth mh (xs.drop (pow2lt xs.length))) := by
  match xs, h with
  | x :: y :: r, _ => rw [mth]; rfl

theorem mth_node (mh : MH D) (xs : List D) (a : Nat) (h1 : 2 ^ a < xs.length)
    (h2 : xs.length ≤ 2 ^ (a + 1)) :
    mth mh xs = mh.nodeH (mth mh (xs.take (2 ^ a))) (mth mh (xs.drop (2 ^ a))) := by
  have hp : 0 < 2 ^ a := Nat.pow_pos (by decide)
  rw [mth_split_r mh xs (by omega), pow2lt_unique _ a h1 h2]

/-! ## pairUp -/

theorem pairUp_append_even (mh : MH D) (xs ys : List D) (h : xs.length % 2 = 0) :
    pairUp mh (xs ++ ys) = pairUp mh xs ++ pairUp mh ys := by
  fun_induction pairUp mh xs with
  | case1 a b r ih =>
    simp only [List.length_cons] at h
    simp only [List.cons_append, pairUp]
    rw [ih (by omega)]
  | case2 a => simp at h
  | case3 => simp

theorem mth_pairUp (mh : MH D) (xs : List D) : mth mh (pairUp mh xs) = mth mh xs := by
  induction hn : xs.length using Nat.strongRecOn generalizing xs with
  | ind n ih =>
    match xs, hn with
    | [], _ => rfl
    | [a], _ => simp [pairUp]
    | [a, b], _ =>
      simp only [pairUp]
      rw [mth_split_r mh [a, b] (by simp)]
      have : pow2lt 2 = 1 := pow2lt_unique 2 0 (by decide) (by decide)
      simp [this, mth]
    | a :: b :: c :: r, hn =>
      generalize hxs : a :: b :: c :: r = xs at hn
      subst hn
      have hlen : 2 < xs.length := by rw [← hxs]; simp
      obtain ⟨hh, hev⟩ := pow2lt_half xs.length hlen
      have hk := pow2lt_lt xs.length (by omega)
      have hk0 := pow2lt_pos xs.length
      rw [mth_split_r mh xs (by omega)]
      rw [mth_split_r mh (pairUp mh xs) (by rw [pairUp_length]; omega)]
      rw [pairUp_length, hh]
      have hsplit : pairUp mh xs = pairUp mh (xs.take (pow2lt xs.length)) ++ pairUp mh (xs.drop (pow2lt xs.length)) := by
        rw [← pairUp_append_even, List.take_append_drop]
        rw [List.length_take]; omega
      have hl : (pairUp mh (xs.take (pow2lt xs.length))).length = pow2lt xs.length / 2 := by
        rw [pairUp_length, List.length_take]; omega
      have ht : (pairUp mh xs).take (pow2lt xs.length / 2) = pairUp mh (xs.take (pow2lt xs.length)) := by
        rw [hsplit, List.take_left' hl]
      have hd : (pairUp mh xs).drop (pow2lt xs.length / 2) = pairUp mh (xs.drop (pow2lt xs.length)) := by
        rw [hsplit, List.drop_left' hl]
      rw [ht, hd]
      rw [ih _ _ _ rfl, ih _ _ _ rfl]
      · rw [List.length_drop]; omega
      · rw [List.length_take]; omega

/-- bottom-up level-by-level root = top-down reference tree -/
theorem buRoot_eq_mth (mh : MH D) (xs : List D) : buRoot mh xs = mth mh xs := by
  fun_induction buRoot mh xs with
  | case1 => simp [mth]
  | case2 x => simp [mth]
  | case3 x y r ih => rw [ih, mth_pairUp]

/-! ## htree -/

theorem levelsFrom_ne_nil (mh : MH D) (fuel : Nat) (xs : List D) :
    HTree.levelsFrom mh fuel xs ≠ [] := by
  cases fuel with
  | zero => simp [HTree.levelsFrom]
  | succ f => simp only [HTree.levelsFrom]; split <;> simp

theorem levelsFrom_getLast (mh : MH D) (fuel : Nat) (xs : List D) (hne : xs ≠ [])
    (hf : xs.length ≤ fuel) :
    (HTree.levelsFrom mh fuel xs).getLast? = some [buRoot mh xs] := by
  induction fuel generalizing xs with
  | zero =>
    match xs, hne, hf with
    | x :: r, _, hf => simp at hf
  | succ f ih =>
    simp only [HTree.levelsFrom]
    split
    · match xs, hne with
      | [x], _ => simp [buRoot]
      | x :: y :: r, _ => rename_i h; simp at h
    · rename_i h
      match xs, hne, h, hf with
      | [x], _, h, _ => simp at h
      | x :: y :: r, _, h, hf =>
        rw [List.getLast?_cons_of_ne_nil (levelsFrom_ne_nil _ _ _)]
        rw [ih _ _ _, buRoot]
        · simp [pairUp]
        · rw [pairUp_length]; simp only [List.length_cons] at hf ⊢; omega

/-- htree.BuildWith computes the reference root over the leaf-wrapped digests -/
theorem htree_root_eq_mth (mh : MH D) (enc : D → Bytes) (ds : List D) :
    (HTree.build mh enc ds).root = mth mh (ds.map (fun d => mh.leafH (enc d))) := by
  unfold HTree.build
  simp only
  cases ds with
  | nil => simp [mth]
  | cons d r =>
    rw [levelsFrom_getLast mh _ _ (by simp) (by simp)]
    simp [buRoot_eq_mth]

/-! ## ahtree: structural facts (append only appends at the end) -/

theorem aht_append_some (mh : MH D) (t t' : AHT D) (d : Bytes) (h : AHT.append mh t d = some t') :
    t'.payloads = t.payloads ++ [d] ∧ ∃ g, t'.groups = t.groups ++ [g] := by
  unfold AHT.append at h
  simp only at h
  split at h
  · simp at h
  · rename_i g _
    cases h
    exact ⟨rfl, g, rfl⟩

theorem aht_appendAll_some (mh : MH D) (t t' : AHT D) (ds : List Bytes)
    (h : AHT.appendAll mh t ds = some t') :
    t'.payloads = t.payloads ++ ds ∧ ∃ gs, t'.groups = t.groups ++ gs ∧ gs.length = ds.length := by
  induction ds generalizing t with
  | nil =>
    simp only [AHT.appendAll, Option.some.injEq] at h
    subst h
    exact ⟨by simp, [], by simp, rfl⟩
  | cons d ds ih =>
    simp only [AHT.appendAll] at h
    cases h1 : AHT.append mh t d with
    | none => simp [h1] at h
    | some t1 =>
      rw [h1] at h
      simp only [Option.bind_some] at h
      obtain ⟨hp, gs, hg, hl⟩ := ih t1 h
      obtain ⟨hp1, g, hg1⟩ := aht_append_some mh t t1 d h1
      refine ⟨by rw [hp, hp1]; simp, g :: gs, by rw [hg, hg1]; simp, by simp [hl]⟩

theorem aht_appendAll_append (mh : MH D) (t : AHT D) (a b : List Bytes) :
    AHT.appendAll mh t (a ++ b) = (AHT.appendAll mh t a).bind (AHT.appendAll mh · b) := by
  induction a generalizing t with
  | nil => simp [AHT.appendAll]
  | cons d a ih =>
    simp only [List.cons_append, AHT.appendAll]
    cases AHT.append mh t d with
    | none => simp
    | some t1 => simp [ih]

/-- rolling back to a smaller size and re-appending equals building from scratch -/
theorem aht_reset_append (mh : MH D) (xs ys : List Bytes) (t t' : AHT D) (m : Nat)
    (ht : AHT.appendAll mh AHT.empty xs = some t) (hm : m ≤ xs.length)
    (hr : AHT.resetSize t m = some t') :
    AHT.appendAll mh t' ys = AHT.appendAll mh AHT.empty (xs.take m ++ ys) := by
  have hx : AHT.appendAll mh AHT.empty (xs.take m ++ xs.drop m) = some t := by
    rw [List.take_append_drop]; exact ht
  rw [aht_appendAll_append] at hx
  cases h1 : AHT.appendAll mh AHT.empty (xs.take m) with
  | none => simp [h1] at hx
  | some t1 =>
    rw [h1] at hx
    simp only [Option.bind_some] at hx
    obtain ⟨hp1, gs1, hg1, hl1⟩ := aht_appendAll_some mh _ _ _ h1
    obtain ⟨hp2, gs2, hg2, hl2⟩ := aht_appendAll_some mh _ _ _ hx
    obtain ⟨hp, _⟩ := aht_appendAll_some mh _ _ _ ht
    have ht' : t' = t1 := by
      unfold AHT.resetSize at hr
      split at hr
      · simp at hr
      · simp only [Option.some.injEq] at hr
        subst hr
        have e1 : t.payloads.take m = t1.payloads := by
          rw [hp, hp1]; simp [AHT.empty]
        have e2 : t.groups.take m = t1.groups := by
          rw [hg2]
          apply List.take_left'
          rw [hg1]; simp [AHT.empty, hl1]; omega
        rw [e1, e2]
    rw [aht_appendAll_append, h1, ht']
    rfl

/-! ## ahtree: the append loop computes reference hashes -/

theorem levelsAt_go_zero (fuel c : Nat) : AHT.levelsAt.go fuel 0 c = c := by
  cases fuel <;> simp [AHT.levelsAt.go]

theorem getElem?_append_some {α : Type} (xs ys : List α) (j : Nat) (x : α)
    (h : xs[j]? = some x) : (xs ++ ys)[j]? = some x := by
  obtain ⟨hlt, _⟩ := List.getElem?_eq_some_iff.mp h
  rw [List.getElem?_append_left hlt, h]

theorem appendLoop_spec (mh : MH D) (t : AHT D) (L : List D) (n : Nat) (hn : L.length = n)
    (hnode : ∀ k l, 1 ≤ k → k < n → 2 ^ l ∣ k →
      t.node k l = some (mth mh ((L.take k).drop (k - 2 ^ l)))) :
    ∀ (fuel w l k : Nat) (h : D) (acc : List D) (r c : Nat),
      w ≤ fuel → r < 2 ^ l → n = w * 2 ^ l + r + 1 → k = w * 2 ^ l →
      h = mth mh (L.drop k) → acc.getLast? = some h → acc.length = c + 1 →
      (r + 1 = 2 ^ l → c = l) →
      (∀ j, j ≤ l → 2 ^ j ∣ n → acc[j]? = some (mth mh (L.drop (n - 2 ^ j)))) →
      ∃ acc', AHT.appendLoop mh t fuel w l k h acc = some acc' ∧
        (∀ fuel', w ≤ fuel' → acc'.length = AHT.levelsAt.go fuel' w c + 1) ∧
        acc'.getLast? = some (mth mh L) ∧
        ∀ j, 2 ^ j ∣ n → acc'[j]? = some (mth mh (L.drop (n - 2 ^ j))) := by
  -- the exit case, shared by `fuel = 0` and `w = 0`
  have done : ∀ (l k : Nat) (h : D) (acc : List D) (r c : Nat),
      r < 2 ^ l → n = 0 * 2 ^ l + r + 1 → k = 0 * 2 ^ l →
      h = mth mh (L.drop k) → acc.getLast? = some h → acc.length = c + 1 →
      (∀ j, j ≤ l → 2 ^ j ∣ n → acc[j]? = some (mth mh (L.drop (n - 2 ^ j)))) →
      (∀ fuel', 0 ≤ fuel' → acc.length = AHT.levelsAt.go fuel' 0 c + 1) ∧
        acc.getLast? = some (mth mh L) ∧
        ∀ j, 2 ^ j ∣ n → acc[j]? = some (mth mh (L.drop (n - 2 ^ j))) := by
    intro l k h acc r c hr hnr hk hh hlast hlen hacc
    simp only [Nat.zero_mul, Nat.zero_add] at hnr hk
    subst hk
    refine ⟨?_, ?_, ?_⟩
    · intro f _; rw [levelsAt_go_zero, hlen]
    · rw [hlast, hh]; simp
    · intro j hj
      apply hacc j _ hj
      have h1 : 2 ^ j ≤ n := Nat.le_of_dvd (by omega) hj
      have h2 : 2 ^ j ≤ 2 ^ l := by omega
      exact (Nat.pow_le_pow_iff_right (by decide)).mp h2
  intro fuel
  induction fuel with
  | zero =>
    intro w l k h acc r c hw hr hnr hk hh hlast hlen hc hacc
    have hw0 : w = 0 := by omega
    subst hw0
    exact ⟨acc, by simp [AHT.appendLoop], done l k h acc r c hr hnr hk hh hlast hlen hacc⟩
  | succ f ih =>
    intro w l k h acc r c hw hr hnr hk hh hlast hlen hc hacc
    by_cases hw0 : w = 0
    · subst hw0
      exact ⟨acc, by simp [AHT.appendLoop], done l k h acc r c hr hnr hk hh hlast hlen hacc⟩
    · have hp : 0 < 2 ^ l := Nat.pow_pos (by decide)
      have hps : 2 ^ (l + 1) = 2 ^ l * 2 := Nat.pow_succ 2 l
      have hkdiv : k / 2 ^ l = w := by rw [hk]; exact Nat.mul_div_cancel w hp
      rw [AHT.appendLoop]
      simp only [if_neg hw0, hkdiv]
      by_cases hodd : w % 2 = 1
      · -- bit `l` of `n-1` is set: combine with the complete subtree on the left
        simp only [if_pos hodd]
        have hwq : w * (2 ^ l) = (w / 2) * ((2 ^ l) * 2) + (2 ^ l) := by
          have : w = 2 * (w / 2) + 1 := by omega
          generalize w / 2 = q at *
          subst this
          grind
        have hk1 : 1 ≤ k := by omega
        have hkn : k < n := by omega
        have hdvd : 2 ^ l ∣ k := by rw [hk]; exact Nat.dvd_mul_left (2 ^ l) w
        rw [hnode k l hk1 hkn hdvd]
        simp only
        have hh' : mh.nodeH (mth mh ((L.take k).drop (k - (2 ^ l)))) h = mth mh (L.drop (k - (2 ^ l))) := by
          rw [mth_node mh (L.drop (k - (2 ^ l))) l (by rw [List.length_drop]; omega)
            (by rw [List.length_drop, hps]; omega)]
          rw [List.take_drop, List.drop_drop, hh]
          have : k - (2 ^ l) + (2 ^ l) = k := by omega
          rw [this]
        rw [hh']
        obtain ⟨acc', h1, h2, h3, h4⟩ :=
          ih (w / 2) (l + 1) (k - (2 ^ l)) (mth mh (L.drop (k - (2 ^ l))))
            (acc ++ [mth mh (L.drop (k - (2 ^ l)))]) ((2 ^ l) + r) (c + 1)
            (by omega) (by omega) (by rw [hps]; omega) (by rw [hps]; omega) rfl
            (by simp) (by simp [hlen])
            (by intro e; have := hc (by omega); omega)
            (by
              intro j hj hjn
              by_cases hjl : j ≤ l
              · exact getElem?_append_some _ _ _ _ (hacc j hjl hjn)
              · have hj1 : j = l + 1 := by omega
                subst hj1
                rw [hps] at hjn ⊢
                have hd1 : (2 ^ l) * 2 ∣ (2 ^ l) + r + 1 := by
                  have : n = (w / 2) * ((2 ^ l) * 2) + ((2 ^ l) + r + 1) := by omega
                  rw [this] at hjn
                  exact (Nat.dvd_add_right (Nat.dvd_mul_left _ _)).mp hjn
                have hle := Nat.le_of_dvd (by omega) hd1
                have hcl := hc (by omega)
                rw [List.getElem?_append_right (by omega)]
                have : l + 1 - acc.length = 0 := by omega
                rw [this]
                have : n - (2 ^ l) * 2 = k - (2 ^ l) := by omega
                rw [this]
                rfl)
        refine ⟨acc', h1, ?_, h3, h4⟩
        intro fuel' hf'
        cases fuel' with
        | zero => omega
        | succ f' =>
          rw [AHT.levelsAt.go]
          simp only [if_neg hw0, if_pos hodd]
          exact h2 f' (by omega)
      · -- bit clear
        simp only [if_neg hodd]
        have hwq : w * (2 ^ l) = (w / 2) * ((2 ^ l) * 2) := by
          have : w = 2 * (w / 2) := by omega
          generalize w / 2 = q at *
          subst this
          grind
        obtain ⟨acc', h1, h2, h3, h4⟩ :=
          ih (w / 2) (l + 1) k h acc r c
            (by omega) (by omega) (by rw [hps]; omega) (by rw [hps]; omega) hh hlast hlen
            (by intro e; omega)
            (by
              intro j hj hjn
              by_cases hjl : j ≤ l
              · exact hacc j hjl hjn
              · have hj1 : j = l + 1 := by omega
                subst hj1
                rw [hps] at hjn
                have hd1 : (2 ^ l) * 2 ∣ r + 1 := by
                  have : n = (w / 2) * ((2 ^ l) * 2) + (r + 1) := by omega
                  rw [this] at hjn
                  exact (Nat.dvd_add_right (Nat.dvd_mul_left _ _)).mp hjn
                have hle := Nat.le_of_dvd (by omega) hd1
                omega)
        refine ⟨acc', h1, ?_, h3, h4⟩
        intro fuel' hf'
        cases fuel' with
        | zero => omega
        | succ f' =>
          rw [AHT.levelsAt.go]
          simp only [if_neg hw0, if_neg hodd]
          exact h2 f' (by omega)

/-- Reachable-state invariant: every complete-subtree node and every historical root stored
in the digest log is the reference hash of the corresponding block of leaves. -/
structure AHTInv (mh : MH D) (t : AHT D) (ds : List Bytes) : Prop where
  pay : t.payloads = ds
  glen : t.groups.length = ds.length
  nodes : ∀ k l, 1 ≤ k → k ≤ ds.length → 2 ^ l ∣ k →
    t.node k l = some (mth mh (((ds.map mh.leafH).take k).drop (k - 2 ^ l)))
  roots : ∀ n, 1 ≤ n → n ≤ ds.length →
    t.node n (AHT.levelsAt n) = some (mth mh ((ds.map mh.leafH).take n))

theorem AHTInv_empty (mh : MH D) : AHTInv mh (AHT.empty : AHT D) [] :=
  ⟨rfl, rfl, fun k l h1 h2 _ => by simp at h2; omega, fun n h1 h2 => by simp at h2; omega⟩

theorem aht_node_append_old (t : AHT D) (g : List D) (p : List Bytes) (k l : Nat)
    (h1 : 1 ≤ k) (h2 : k ≤ t.groups.length) :
    (AHT.mk p (t.groups ++ [g])).node k l = t.node k l := by
  unfold AHT.node
  have : k ≠ 0 := by omega
  simp only [if_neg this]
  rw [List.getElem?_append_left (by omega)]

theorem aht_node_append_new (t : AHT D) (g : List D) (p : List Bytes) (l : Nat) :
    (AHT.mk p (t.groups ++ [g])).node (t.groups.length + 1) l = g[l]? := by
  unfold AHT.node
  simp

theorem aht_append_inv (mh : MH D) (t : AHT D) (ds : List Bytes) (d : Bytes)
    (inv : AHTInv mh t ds) : ∃ t', AHT.append mh t d = some t' ∧ AHTInv mh t' (ds ++ [d]) := by
  obtain ⟨pay, glen, nodes, roots⟩ := inv
  have hL : (ds ++ [d]).map mh.leafH = ds.map mh.leafH ++ [mh.leafH d] := by simp
  have hLlen : ((ds ++ [d]).map mh.leafH).length = ds.length + 1 := by simp
  have htake : ∀ k, k ≤ ds.length →
      ((ds ++ [d]).map mh.leafH).take k = (ds.map mh.leafH).take k := by
    intro k hk
    rw [hL, List.take_append_of_le_length (by simp; exact hk)]
  have hdropn : ((ds ++ [d]).map mh.leafH).drop ds.length = [mh.leafH d] := by
    rw [hL]; exact List.drop_left' (by simp)
  obtain ⟨acc', h1, h2, h3, h4⟩ :=
    appendLoop_spec mh t ((ds ++ [d]).map mh.leafH) (ds.length + 1) hLlen
      (by
        intro k l hk1 hk2 hdvd
        rw [nodes k l hk1 (by omega) hdvd, htake k (by omega)])
      (ds.length + 1 + 1) ds.length 0 ds.length (mh.leafH d) [mh.leafH d] 0 0
      (by omega) (by simp) (by simp) (by simp) (by rw [hdropn]; simp [mth]) (by simp) (by simp)
      (by intro _; rfl)
      (by
        intro j hj _
        have : j = 0 := by omega
        subst this
        simp only [Nat.pow_zero, Nat.add_sub_cancel]
        rw [hdropn]; simp [mth])
  refine ⟨⟨ds ++ [d], t.groups ++ [acc']⟩, ?_, ?_⟩
  · unfold AHT.append AHT.size
    simp only [pay, Nat.add_sub_cancel]
    rw [h1]
  · refine ⟨rfl, by simp [glen], ?_, ?_⟩
    · intro k l hk1 hk2 hdvd
      by_cases hk : k ≤ ds.length
      · rw [aht_node_append_old t acc' _ k l hk1 (by omega), nodes k l hk1 hk hdvd, htake k hk]
      · have hk' : k = t.groups.length + 1 := by simp at hk2; omega
        subst hk'
        rw [aht_node_append_new, glen, h4 l (by rw [← glen]; exact hdvd)]
        rw [List.take_of_length_le (by rw [hLlen]; omega)]
    · intro n hn1 hn2
      by_cases hk : n ≤ ds.length
      · rw [aht_node_append_old t acc' _ n _ hn1 (by omega), roots n hn1 hk, htake n hk]
      · have hk' : n = t.groups.length + 1 := by simp at hn2; omega
        subst hk'
        rw [aht_node_append_new, List.take_of_length_le (by rw [hLlen]; omega), ← h3,
          List.getLast?_eq_getElem?]
        have := h2 (t.groups.length + 1) (by omega)
        unfold AHT.levelsAt
        simp only [Nat.add_sub_cancel]
        rw [glen] at this ⊢
        rw [this]
        simp

theorem aht_appendAll_inv (mh : MH D) (t : AHT D) (xs ys : List Bytes) (inv : AHTInv mh t xs) :
    ∃ t', AHT.appendAll mh t ys = some t' ∧ AHTInv mh t' (xs ++ ys) := by
  induction ys generalizing t xs with
  | nil => exact ⟨t, rfl, by simpa using inv⟩
  | cons d ys ih =>
    obtain ⟨t1, h1, inv1⟩ := aht_append_inv mh t xs d inv
    obtain ⟨t2, h2, inv2⟩ := ih t1 (xs ++ [d]) inv1
    refine ⟨t2, ?_, by simpa using inv2⟩
    simp only [AHT.appendAll, h1, Option.bind_some, h2]

/-- appending never fails from the empty tree -/
theorem aht_appendAll_total (mh : MH D) (ds : List Bytes) :
    ∃ t, AHT.appendAll mh AHT.empty ds = some t ∧ t.payloads = ds := by
  obtain ⟨t, h, inv⟩ := aht_appendAll_inv mh AHT.empty [] ds (AHTInv_empty mh)
  exact ⟨t, h, by simpa using inv.pay⟩

/-- every historical root equals the reference tree over the first n leaves -/
theorem aht_rootAt_eq_mth (mh : MH D) (ds : List Bytes) (t : AHT D) (n : Nat)
    (ht : AHT.appendAll mh AHT.empty ds = some t) (h1 : 1 ≤ n) (h2 : n ≤ ds.length) :
    AHT.rootAt t n = .ok (mth mh ((ds.take n).map mh.leafH)) := by
  obtain ⟨t', h, inv⟩ := aht_appendAll_inv mh AHT.empty [] ds (AHTInv_empty mh)
  rw [ht] at h
  cases h
  simp only [List.nil_append] at inv
  unfold AHT.rootAt AHT.size
  rw [inv.pay, inv.roots n h1 h2, List.map_take]
  have hn0 : n ≠ 0 := by omega
  have hd0 : ds.length ≠ 0 := by omega
  have hgt : ¬ n > ds.length := by omega
  simp only [if_neg hn0, if_neg hd0, if_neg hgt]

end ImmuModel.Merkle
