/-
Extra facts about the Merkle models:

(A) `hVerifyInclusion_position_sound`: POSITION binding of `htree.VerifyInclusion` when the
    claimed width is the true width and `0 ≤ leaf < width` (the verifier does not check the
    number of terms – it is not needed: the `i == r` test after the loop pins the position).
    Both range hypotheses are necessary (brute force: `w = 3, leaf = 3, terms = [H(l0,l1)]`
    accepts leaf 2's digest; `w = 2, leaf = -1, terms = [l0]` accepts leaf 1's digest).

(B) `nodesUpto_closed`, `nodesUpto_succ`, `levelsAt_eq_popcount`: the flat digest-log offset
    arithmetic of the Go code equals the grouped model's sizes.
-/
import ImmuModel.Merkle.AHTree
import ImmuModel.Merkle.Proofs.InclSound
import ImmuModel.Merkle.Proofs.HTreeProofs

namespace ImmuModel.Merkle.ExtraAux
open ImmuModel.Merkle

/-! ## (B) `nodesUpto` -/

/-- Number of `k < n` whose bit `l` is set, in the shape computed by Go's `nodesUpto`. -/
def cnt (n l : Nat) : Nat :=
  n / 2 ^ (l + 1) * 2 ^ l + (if n / 2 ^ l % 2 = 1 then n % 2 ^ l else 0)

/-- Sum of `cnt n l'` for `l ≤ l' < l + f`. -/
def T (n : Nat) : Nat → Nat → Nat
  | _, 0 => 0
  | l, f+1 => cnt n l + T n (l + 1) f

/-- Sum of the bits `l ≤ l' < l + f` of `n`. -/
def bitsum (n : Nat) : Nat → Nat → Nat
  | _, 0 => 0
  | l, f+1 => n / 2 ^ l % 2 + bitsum n (l + 1) f

theorem cnt_zero_of_lt (n l : Nat) (h : n < 2 ^ l) : cnt n l = 0 := by
  unfold cnt
  have h1 : n / 2 ^ l = 0 := Nat.div_eq_of_lt h
  have h2 : n / 2 ^ (l + 1) = 0 := by
    apply Nat.div_eq_of_lt
    rw [Nat.pow_succ]; omega
  rw [h1, h2]
  simp

theorem T_zero_of_lt (n : Nat) : ∀ (f l : Nat), n < 2 ^ l → T n l f = 0 := by
  intro f
  induction f with
  | zero => intro l _; rfl
  | succ f ih =>
    intro l h
    simp only [T]
    rw [cnt_zero_of_lt n l h, ih (l + 1) (by rw [Nat.pow_succ]; omega)]

theorem go_eq (n : Nat) : ∀ (f l o : Nat), AHT.nodesUpto.go n f l o = o + T n l f := by
  intro f
  induction f with
  | zero => intro l o; rfl
  | succ f ih =>
    intro l o
    rw [AHT.nodesUpto.go]
    by_cases h : n < 2 ^ l
    · rw [if_pos h, T_zero_of_lt n _ l h]; rfl
    · rw [if_neg h]
      simp only
      rw [ih]
      simp only [T, cnt]
      split <;> omega

theorem nodesUpto_eq_T (n : Nat) : AHT.nodesUpto n = n + T n 0 (n + 1) := by
  unfold AHT.nodesUpto
  exact go_eq n (n + 1) 0 n

theorem T_snoc (n : Nat) : ∀ (f l : Nat), T n l (f + 1) = T n l f + cnt n (l + f) := by
  intro f
  induction f with
  | zero => intro l; simp [T]
  | succ f ih =>
    intro l
    rw [T, ih (l + 1)]
    simp only [T]
    have : l + 1 + f = l + (f + 1) := by omega
    rw [this]; omega

/-- One more leaf: bit `l` of `n` is what `cnt · l` gains. -/
theorem cnt_succ (n l : Nat) : cnt (n + 1) l = cnt n l + n / 2 ^ l % 2 := by
  unfold cnt
  have hP : 0 < 2 ^ l := Nat.two_pow_pos l
  have e2 : 2 ^ (l + 1) = 2 ^ l * 2 := by rw [Nat.pow_succ]
  rw [e2, ← Nat.div_div_eq_div_mul, ← Nat.div_div_eq_div_mul]
  generalize 2 ^ l = P at hP
  have hn := Nat.div_add_mod n P
  have hb := Nat.mod_lt n hP
  generalize ha : n / P = a at hn
  generalize hbb : n % P = b at hn hb
  by_cases hc : b + 1 < P
  · have := (Nat.div_mod_unique (a := n + 1) (d := a) (c := b + 1) hP).2 ⟨by omega, hc⟩
    rw [this.1, this.2]
    split <;> omega
  · have hmul : P * (a + 1) = P * a + P := Nat.mul_succ P a
    have := (Nat.div_mod_unique (a := n + 1) (d := a + 1) (c := 0) hP).2 ⟨by omega, hP⟩
    rw [this.1, this.2]
    by_cases hodd : a % 2 = 1
    · have h1 : (a + 1) / 2 = a / 2 + 1 := by omega
      have h2 : (a / 2 + 1) * P = a / 2 * P + P := Nat.succ_mul _ _
      rw [h1, h2, if_pos hodd, if_neg (by omega)]
      omega
    · have h1 : (a + 1) / 2 = a / 2 := by omega
      rw [h1, if_neg hodd]
      split <;> omega

theorem T_succ (n : Nat) : ∀ (f l : Nat), T (n + 1) l f = T n l f + bitsum n l f := by
  intro f
  induction f with
  | zero => intro l; rfl
  | succ f ih =>
    intro l
    simp only [T, bitsum]
    rw [ih (l + 1), cnt_succ]
    omega

theorem bitsum_eq_popcount (n : Nat) : ∀ (f l : Nat), n / 2 ^ l < 2 ^ f →
    bitsum n l f = popcount (n / 2 ^ l) := by
  intro f
  induction f with
  | zero =>
    intro l h
    have : n / 2 ^ l = 0 := by simpa using h
    rw [this, popcount_zero]; rfl
  | succ f ih =>
    intro l h
    have e : n / 2 ^ (l + 1) = n / 2 ^ l / 2 := by
      rw [Nat.pow_succ, Nat.div_div_eq_div_mul]
    simp only [bitsum]
    rw [ih (l + 1) (by rw [e]; rw [Nat.pow_succ] at h; omega), e, ← popcount_eq]

theorem levelsAt_go_eq : ∀ (fuel w l : Nat), w ≤ fuel →
    AHT.levelsAt.go fuel w l = l + popcount w := by
  intro fuel
  induction fuel with
  | zero =>
    intro w l h
    have : w = 0 := by omega
    subst this
    rw [popcount_zero]; rfl
  | succ f ih =>
    intro w l h
    rw [AHT.levelsAt.go]
    by_cases hw : w = 0
    · rw [if_pos hw, hw, popcount_zero]; rfl
    · rw [if_neg hw, ih _ _ (by omega), popcount_eq w]
      split <;> omega


/-! ## (A) position binding of `hVerifyInclusion` -/

section A
variable {D : Type}

theorem nEval_idx (mh : MH D) (ts : List D) : ∀ (i r : Nat) (c : D),
    (nEval mh ts i r c).1 = i / 2 ^ ts.length ∧ (nEval mh ts i r c).2.1 = r / 2 ^ ts.length := by
  induction ts with
  | nil => intro i r c; simp [nEval]
  | cons t p ih =>
    intro i r c
    simp only [nEval, List.length_cons]
    have e : ∀ x : Nat, x / 2 ^ (p.length + 1) = x / 2 / 2 ^ p.length := by
      intro x; rw [Nat.pow_succ, Nat.mul_comm, Nat.div_div_eq_div_mul]
    rw [e i, e r]
    exact ih _ _ _

/-- Hash component after one more (last) term. -/
theorem nEval_snoc (mh : MH D) (ts : List D) (t : D) (i r : Nat) (c : D) :
    (nEval mh (ts ++ [t]) i r c).2.2 =
      if i / 2 ^ ts.length % 2 = 0 ∧ i / 2 ^ ts.length ≠ r / 2 ^ ts.length
      then mh.nodeH (nEval mh ts i r c).2.2 t else mh.nodeH t (nEval mh ts i r c).2.2 := by
  rw [nEval_append]
  simp only [nEval]
  rw [(nEval_idx mh ts i r c).1, (nEval_idx mh ts i r c).2]

theorem div_pow_succ (x L : Nat) : x / 2 ^ (L + 1) = x / 2 ^ L / 2 := by
  rw [Nat.pow_succ, Nat.div_div_eq_div_mul]

theorem leaf_node_coll (mh : MH D) {c a b : D} (hc : ∃ x, c = mh.leafH x) (h : c = mh.nodeH a b) :
    Coll mh := by
  obtain ⟨x, hx⟩ := hc
  right; left
  exact ⟨x, a, b, by rw [← hx, h]⟩

/-- A perfect block: while the running index differs from the right-edge index, the
directions are the bits of `i`, and only the leaf at `i % 2^j` with exactly `j` terms
evaluates to the block's root. -/
theorem perf (mh : MH D) (j : Nat) : ∀ (xs ts : List D) (i r : Nat) (c : D),
    xs.length = 2 ^ j → (∀ x ∈ xs, ∃ b, x = mh.leafH b) → (∃ b, c = mh.leafH b) →
    i / 2 ^ ts.length ≠ r / 2 ^ ts.length →
    (nEval mh ts i r c).2.2 = mth mh xs →
    (ts.length = j ∧ xs[i % 2 ^ j]? = some c) ∨ Coll mh := by
  induction j with
  | zero =>
    intro xs ts i r c hlen hl hc hne hev
    match xs, hlen with
    | [x], _ =>
      rw [mth_singleton] at hev
      rcases List.eq_nil_or_concat ts with h | ⟨ts', t, h⟩
      · subst h
        left
        simp only [nEval] at hev
        refine ⟨rfl, ?_⟩
        rw [Nat.pow_zero, Nat.mod_one, hev]; rfl
      · right
        rw [List.concat_eq_append] at h
        subst h
        rw [nEval_snoc] at hev
        have hx := hl x (by simp)
        split at hev
        · exact leaf_node_coll mh hx hev.symm
        · exact leaf_node_coll mh hx hev.symm
  | succ j ih =>
    intro xs ts i r c hlen hl hc hne hev
    have hp := Nat.two_pow_pos j
    have e2 : 2 ^ (j + 1) = 2 * 2 ^ j := by rw [Nat.pow_succ, Nat.mul_comm]
    rw [e2] at hlen
    rw [mth_block mh j xs (by omega) (by omega)] at hev
    rcases List.eq_nil_or_concat ts with h | ⟨ts', t, h⟩
    · subst h
      right
      simp only [nEval] at hev
      exact leaf_node_coll mh hc hev
    · rw [List.concat_eq_append] at h
      subst h
      rw [nEval_snoc] at hev
      simp only [List.length_append, List.length_cons, List.length_nil, Nat.zero_add] at hne ⊢
      rw [div_pow_succ i, div_pow_succ r] at hne
      have hne' : i / 2 ^ ts'.length ≠ r / 2 ^ ts'.length := by
        intro h0; rw [h0] at hne; exact hne rfl
      have hmod : i % (2 ^ j * 2) = i % 2 ^ j + 2 ^ j * (i / 2 ^ j % 2) := Nat.mod_mul
      rw [Nat.pow_succ, hmod]
      by_cases hd : i / 2 ^ ts'.length % 2 = 0
      · rw [if_pos ⟨hd, hne'⟩] at hev
        rcases nodeH_inj_or_coll mh hev with ⟨h1, _⟩ | hcoll
        · rcases ih (xs.take (2 ^ j)) ts' i r c (by simp; omega)
            (fun x hx => hl x (List.mem_of_mem_take hx)) hc hne' h1 with ⟨hL, hget⟩ | hcoll
          · left
            rw [hL] at hd
            refine ⟨by omega, ?_⟩
            rw [hd, Nat.mul_zero, Nat.add_zero]
            rw [List.getElem?_take, if_pos (Nat.mod_lt _ hp)] at hget
            exact hget
          · exact Or.inr hcoll
        · exact Or.inr hcoll
      · rw [if_neg (by intro h0; exact hd h0.1)] at hev
        rcases nodeH_inj_or_coll mh hev with ⟨_, h1⟩ | hcoll
        · rcases ih (xs.drop (2 ^ j)) ts' i r c (by simp; omega)
            (fun x hx => hl x (List.mem_of_mem_drop hx)) hc hne' h1 with ⟨hL, hget⟩ | hcoll
          · left
            rw [hL] at hd
            refine ⟨by omega, ?_⟩
            have h1 : i / 2 ^ j % 2 = 1 := by omega
            rw [h1, Nat.mul_one]
            rw [List.getElem?_drop] at hget
            rw [← hget]; congr 1; omega
          · exact Or.inr hcoll
        · exact Or.inr hcoll

/-- A right-edge block `[o, o + |xs|)` (aligned at `2^clog |xs|`), right index `r = o+|xs|-1`:
if the indexes meet after the terms and the value is the block's root, then `i` lies in
the block and the start value is the leaf at `i`. -/
theorem edge (mh : MH D) (fuel : Nat) : ∀ (xs ts : List D) (o i : Nat) (c : D),
    1 ≤ xs.length → xs.length ≤ fuel → (∀ x ∈ xs, ∃ b, x = mh.leafH b) → (∃ b, c = mh.leafH b) →
    2 ^ clog xs.length ∣ o → i ≤ o + xs.length - 1 →
    i / 2 ^ ts.length = (o + xs.length - 1) / 2 ^ ts.length →
    (nEval mh ts i (o + xs.length - 1) c).2.2 = mth mh xs →
    (o ≤ i ∧ xs[i - o]? = some c) ∨ Coll mh := by
  induction fuel with
  | zero => intro xs ts o i c h1 h2; omega
  | succ f ih =>
    intro xs ts o i c h1 hfuel hl hc hdvd hir hidx hev
    by_cases hn : xs.length ≤ 1
    · match xs, h1, hn with
      | [x], _, _ =>
        rw [mth_singleton] at hev
        rcases List.eq_nil_or_concat ts with h | ⟨ts', t, h⟩
        · subst h
          left
          simp only [nEval] at hev
          simp only [List.length_nil, Nat.pow_zero, Nat.div_one, List.length_cons] at hidx
          have : i - o = 0 := by omega
          rw [this, hev]
          exact ⟨by omega, rfl⟩
        · right
          rw [List.concat_eq_append] at h
          subst h
          rw [nEval_snoc] at hev
          have hx := hl x (by simp)
          split at hev
          · exact leaf_node_coll mh hx hev.symm
          · exact leaf_node_coll mh hx hev.symm
    · have hn2 : 2 ≤ xs.length := by omega
      have hk1 := pow2lt_pos xs.length
      have hk2 := pow2lt_lt xs.length hn2
      have hk3 := lt_two_pow2lt xs.length hn2
      have hkj : pow2lt xs.length = 2 ^ (clog xs.length - 1) := pow2lt_eq_clog _ hn2
      rw [mth_ge_two mh xs hn2] at hev
      rcases List.eq_nil_or_concat ts with h | ⟨ts', t, h⟩
      · subst h
        right
        simp only [nEval] at hev
        exact leaf_node_coll mh hc hev
      · rw [List.concat_eq_append] at h
        subst h
        rw [nEval_snoc] at hev
        simp only [List.length_append, List.length_cons, List.length_nil, Nat.zero_add] at hidx
        rw [div_pow_succ i, div_pow_succ] at hidx
        have hle : i / 2 ^ ts'.length ≤ (o + xs.length - 1) / 2 ^ ts'.length :=
          Nat.div_le_div_right hir
        by_cases hd : i / 2 ^ ts'.length % 2 = 0 ∧
            i / 2 ^ ts'.length ≠ (o + xs.length - 1) / 2 ^ ts'.length
        · rw [if_pos hd] at hev
          rcases nodeH_inj_or_coll mh hev with ⟨h1', _⟩ | hcoll
          · have hal := hdvd
            rw [two_pow_clog_of_ge_two _ hn2] at hal
            obtain ⟨q, hq⟩ := hal
            generalize hk : pow2lt xs.length = k at *
            rcases perf mh (clog xs.length - 1) (xs.take k) ts' i (o + xs.length - 1) c
              (by simp; omega) (fun x hx => hl x (List.mem_of_mem_take hx)) hc hd.2 h1'
              with ⟨hL, hget⟩ | hcoll
            · left
              rw [hL, ← hkj] at hd hidx
              rw [← hkj] at hget
              have ho : o = (2 * q) * k := by rw [hq]; ac_rfl
              have hprod : (2 * q + 1) * k = 2 * q * k + k := by rw [Nat.add_mul, Nat.one_mul]
              have hprod2 : (2 * q + 1 + 1) * k = 2 * q * k + k + k := by
                rw [Nat.add_mul, Nat.one_mul, hprod]
              have hr : (o + xs.length - 1) / k = 2 * q + 1 :=
                Nat.div_eq_of_lt_le (by omega) (by omega)
              rw [hr] at hd hidx
              have hi1 : i / k = 2 * q := by omega
              have hdm := Nat.div_add_mod i k
              rw [hi1] at hdm
              have hml := Nat.mod_lt i hk1
              have hcomm : k * (2 * q) = 2 * q * k := Nat.mul_comm _ _
              have hmod : i % k = i - o := by omega
              rw [hmod, List.getElem?_take, if_pos (by omega)] at hget
              exact ⟨by omega, hget⟩
            · exact Or.inr hcoll
          · exact Or.inr hcoll
        · rw [if_neg hd] at hev
          have heq : i / 2 ^ ts'.length = (o + xs.length - 1) / 2 ^ ts'.length := by
            by_cases h0 : i / 2 ^ ts'.length = (o + xs.length - 1) / 2 ^ ts'.length
            · exact h0
            · exfalso; apply hd; constructor <;> omega
          rcases nodeH_inj_or_coll mh hev with ⟨_, h1'⟩ | hcoll
          · have hal := (Al_right (o + xs.length) o xs.length hn2 ⟨hdvd, Or.inr rfl⟩).1
            generalize hk : pow2lt xs.length = k at *
            have e2 : o + k + (xs.drop k).length - 1 = o + xs.length - 1 := by simp; omega
            rcases ih (xs.drop k) ts' (o + k) i c (by simp; omega) (by simp; omega)
              (fun x hx => hl x (List.mem_of_mem_drop hx)) hc (by simpa using hal)
              (by rw [e2]; exact hir) (by rw [e2]; exact heq) (by rw [e2]; exact h1')
              with ⟨hoi, hget⟩ | hcoll
            · left
              refine ⟨by omega, ?_⟩
              rw [List.getElem?_drop] at hget
              rw [← hget]; congr 1; omega
            · exact Or.inr hcoll
          · exact Or.inr hcoll

end A

end ImmuModel.Merkle.ExtraAux

namespace ImmuModel.Merkle
open ExtraAux

/-- `levelsAt(n+1) = popcount n`: the append of leaf `n+1` writes `1 + popcount n` digests. -/
theorem levelsAt_eq_popcount (n : Nat) : AHT.levelsAt (n + 1) = popcount n := by
  unfold AHT.levelsAt
  rw [Nat.add_sub_cancel, levelsAt_go_eq (n + 1) n 0 (by omega)]
  omega

/-- The tie between Go's flat dLog offsets and the model's groups: the group of leaf `n+1`
starts at `nodesUpto n` and holds `1 + popcount n` digests. -/
theorem nodesUpto_succ (n : Nat) : AHT.nodesUpto (n + 1) = AHT.nodesUpto n + 1 + popcount n := by
  rw [nodesUpto_eq_T, nodesUpto_eq_T, T_succ, T_snoc n (n + 1) 0]
  have hlt : n < 2 ^ (n + 1) := by
    have := Nat.lt_two_pow_self (n := n)
    rw [Nat.pow_succ]; omega
  rw [cnt_zero_of_lt n (0 + (n + 1)) (by rw [Nat.zero_add]; exact hlt)]
  rw [bitsum_eq_popcount n (n + 1 + 1) 0 (by
    rw [Nat.pow_zero, Nat.div_one, Nat.pow_succ]; omega)]
  rw [Nat.pow_zero, Nat.div_one]
  omega

theorem nodesUpto_succ_levelsAt (n : Nat) :
    AHT.nodesUpto (n + 1) = AHT.nodesUpto n + 1 + AHT.levelsAt (n + 1) := by
  rw [levelsAt_eq_popcount, nodesUpto_succ]

theorem nodesUpto_closed (n : Nat) : AHT.nodesUpto n = n + ((List.range n).map popcount).sum := by
  induction n with
  | zero => rfl
  | succ n ih =>
    rw [nodesUpto_succ, ih, List.range_succ, List.map_append, List.sum_append]
    simp only [List.map_cons, List.map_nil, List.sum_cons, List.sum_nil]
    omega

/-! ## (A) -/

section A
variable {D : Type} [DecidableEq D]

/-- POSITION binding of `htree.VerifyInclusion` for the true width: an accepted proof for
`(leaf, digest)` against the reference root of `ds` means `ds[leaf] = digest` (or exhibits
a collision).  The number of terms need not be checked. -/
theorem hVerifyInclusion_position_sound (mh : MH D) (enc : D → Bytes) (henc : Function.Injective enc)
    (pr : HProof D) (dg : D) (ds : List D) (hne : ds ≠ [])
    (hw : pr.width = (ds.length : Int)) (hl0 : 0 ≤ pr.leaf) (hl1 : pr.leaf < pr.width)
    (hv : hVerifyInclusion mh enc pr dg (mth mh (ds.map (fun d => mh.leafH (enc d)))) = true) :
    ds[pr.leaf.toNat]? = some dg ∨ Coll mh := by
  unfold hVerifyInclusion at hv
  generalize hxs : ds.map (fun d => mh.leafH (enc d)) = xs at hv
  have hlen : xs.length = ds.length := by rw [← hxs]; simp
  have hpos : 1 ≤ ds.length := List.length_pos_iff.2 hne
  have hl : ∀ x ∈ xs, ∃ b, x = mh.leafH b := by
    intro x hx
    rw [← hxs] at hx
    obtain ⟨d, _, hd⟩ := List.mem_map.1 hx
    exact ⟨enc d, hd.symm⟩
  have hleaf : pr.leaf = ((pr.leaf.toNat : Nat) : Int) := (Int.toNat_of_nonneg hl0).symm
  have hcast : pr.width - 1 = ((ds.length - 1 : Nat) : Int) := by omega
  generalize pr.leaf.toNat = i at hleaf ⊢
  simp only at hv
  rw [hleaf, hcast, hEvalAux_nat] at hv
  simp only [Bool.and_eq_true, beq_iff_eq] at hv
  obtain ⟨hidx, hroot⟩ := hv
  have hidx' := Int.ofNat.inj hidx
  rw [(nEval_idx mh pr.terms i (ds.length - 1) _).1, (nEval_idx mh pr.terms i (ds.length - 1) _).2]
    at hidx'
  have hr : 0 + xs.length - 1 = ds.length - 1 := by omega
  rcases edge mh xs.length xs pr.terms 0 i (mh.leafH (enc dg)) (by omega) (Nat.le_refl _) hl
    ⟨_, rfl⟩ (Nat.dvd_zero _) (by omega) (by rw [hr]; exact hidx') (by rw [hr]; exact hroot.symm)
    with ⟨_, hget⟩ | hcoll
  · rw [Nat.sub_zero, ← hxs, List.getElem?_map] at hget
    cases hd : ds[i]? with
    | none => rw [hd] at hget; simp at hget
    | some d =>
      rw [hd] at hget
      simp only [Option.map_some, Option.some.injEq] at hget
      by_cases he : enc d = enc dg
      · left; rw [henc he]
      · right; right; right; exact ⟨_, _, he, hget⟩
  · exact Or.inr hcoll

end A

end ImmuModel.Merkle
