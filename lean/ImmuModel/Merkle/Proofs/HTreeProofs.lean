import ImmuModel.Merkle.HTree
namespace ImmuModel.Merkle
variable {D : Type}

/-! ## Unfolding `mth` -/

theorem mth_singleton (mh : MH D) (x : D) : mth mh [x] = x := by
  rw [mth]

theorem mth_ge_two (mh : MH D) (xs : List D) (h : 2 ≤ xs.length) :
    mth mh xs = mh.nodeH (mth mh (xs.take (pow2lt xs.length))) (mth mh (xs.drop (pow2lt xs.length))) := by
  match xs, h with
  | x :: y :: r, _ =>
    rw [mth]
    simp only [List.length_cons]

/-! ## (A) soundness -/

/-- `Sub mh xs c`: `c` is the `mth` of a block that appears as a subtree in the recursive
`mth` decomposition of `xs`. -/
inductive Sub (mh : MH D) : List D → D → Prop
  | root (xs : List D) : xs ≠ [] → Sub mh xs (mth mh xs)
  | left (xs : List D) (c : D) : 2 ≤ xs.length → Sub mh (xs.take (pow2lt xs.length)) c → Sub mh xs c
  | right (xs : List D) (c : D) : 2 ≤ xs.length → Sub mh (xs.drop (pow2lt xs.length)) c → Sub mh xs c

theorem Sub.node_inv (mh : MH D) {xs : List D} {c : D} (hs : Sub mh xs c)
    (hl : ∀ x ∈ xs, ∃ b, x = mh.leafH b) :
    ∀ a b, c = mh.nodeH a b → (Sub mh xs a ∧ Sub mh xs b) ∨ Coll mh := by
  induction hs with
  | root xs hne =>
    intro a b hc
    by_cases h2 : 2 ≤ xs.length
    · rw [mth_ge_two mh xs h2] at hc
      by_cases heq : (mth mh (xs.take (pow2lt xs.length)), mth mh (xs.drop (pow2lt xs.length))) = (a, b)
      · left
        have ha : mth mh (xs.take (pow2lt xs.length)) = a := congrArg Prod.fst heq
        have hb : mth mh (xs.drop (pow2lt xs.length)) = b := congrArg Prod.snd heq
        have hp := pow2lt_pos xs.length
        have hlt := pow2lt_lt xs.length h2
        constructor
        · rw [← ha]
          apply Sub.left _ _ h2
          apply Sub.root
          intro h0
          have := congrArg List.length h0
          simp only [List.length_take, List.length_nil] at this
          omega
        · rw [← hb]
          apply Sub.right _ _ h2
          apply Sub.root
          intro h0
          have := congrArg List.length h0
          simp only [List.length_drop, List.length_nil] at this
          omega
      · right; left
        exact ⟨_, _, _, _, heq, hc⟩
    · match xs, hne, h2 with
      | [x], _, _ =>
        rw [mth_singleton] at hc
        obtain ⟨y, hy⟩ := hl x (by simp)
        right; right; left
        exact ⟨y, a, b, by rw [← hy, hc]⟩
      | [], hne, _ => exact absurd rfl hne
      | _ :: _ :: _, _, h2 => simp at h2
  | left xs c h2 _ ih =>
    intro a b hc
    rcases ih (fun x hx => hl x (List.mem_of_mem_take hx)) a b hc with ⟨h1, h3⟩ | h
    · exact Or.inl ⟨Sub.left _ _ h2 h1, Sub.left _ _ h2 h3⟩
    · exact Or.inr h
  | right xs c h2 _ ih =>
    intro a b hc
    rcases ih (fun x hx => hl x (List.mem_of_mem_drop hx)) a b hc with ⟨h1, h3⟩ | h
    · exact Or.inl ⟨Sub.right _ _ h2 h1, Sub.right _ _ h2 h3⟩
    · exact Or.inr h

theorem Sub.mem_or_node (mh : MH D) {xs : List D} {c : D} (hs : Sub mh xs c) :
    c ∈ xs ∨ ∃ a b, c = mh.nodeH a b := by
  induction hs with
  | root xs hne =>
    by_cases h2 : 2 ≤ xs.length
    · right; exact ⟨_, _, mth_ge_two mh xs h2⟩
    · match xs, hne, h2 with
      | [x], _, _ => left; rw [mth_singleton]; simp
      | [], hne, _ => exact absurd rfl hne
      | _ :: _ :: _, _, h2 => simp at h2
  | left xs c h2 _ ih =>
    rcases ih with h | h
    · exact Or.inl (List.mem_of_mem_take h)
    · exact Or.inr h
  | right xs c h2 _ ih =>
    rcases ih with h | h
    · exact Or.inl (List.mem_of_mem_drop h)
    · exact Or.inr h

theorem hEvalAux_sub (mh : MH D) (xs : List D) (hl : ∀ x ∈ xs, ∃ b, x = mh.leafH b) :
    ∀ (ts : List D) (i r : Int) (c : D), Sub mh xs (hEvalAux mh ts i r c).2.2 → Sub mh xs c ∨ Coll mh := by
  intro ts
  induction ts with
  | nil => intro i r c h; exact Or.inl h
  | cons t p ih =>
    intro i r c h
    simp only [hEvalAux] at h
    rcases ih _ _ _ h with h' | h'
    · split at h'
      · rcases Sub.node_inv mh h' hl _ _ rfl with ⟨h1, _⟩ | hc
        · exact Or.inl h1
        · exact Or.inr hc
      · rcases Sub.node_inv mh h' hl _ _ rfl with ⟨_, h1⟩ | hc
        · exact Or.inl h1
        · exact Or.inr hc
    · exact Or.inr h'

variable [DecidableEq D]

/-- (A) SOUNDNESS (membership). -/
theorem hVerifyInclusion_sound (mh : MH D) (enc : D → Bytes) (henc : Function.Injective enc)
    (pr : HProof D) (dg : D) (ds : List D) (hne : ds ≠ [])
    (hv : hVerifyInclusion mh enc pr dg (mth mh (ds.map (fun d => mh.leafH (enc d)))) = true) :
    dg ∈ ds ∨ Coll mh := by
  unfold hVerifyInclusion at hv
  generalize hxs : ds.map (fun d => mh.leafH (enc d)) = xs at hv
  have hl : ∀ x ∈ xs, ∃ b, x = mh.leafH b := by
    intro x hx
    rw [← hxs] at hx
    obtain ⟨d, _, hd⟩ := List.mem_map.1 hx
    exact ⟨enc d, hd.symm⟩
  have hxne : xs ≠ [] := by
    rw [← hxs]; simpa using hne
  have hroot : mth mh xs = (hEvalAux mh pr.terms pr.leaf (pr.width - 1) (mh.leafH (enc dg))).2.2 := by
    simp only [Bool.and_eq_true, beq_iff_eq] at hv
    exact hv.2
  have hsub : Sub mh xs (hEvalAux mh pr.terms pr.leaf (pr.width - 1) (mh.leafH (enc dg))).2.2 := by
    rw [← hroot]; exact Sub.root xs hxne
  rcases hEvalAux_sub mh xs hl _ _ _ _ hsub with h | h
  · rcases Sub.mem_or_node mh h with hm | ⟨a, b, hab⟩
    · rw [← hxs] at hm
      obtain ⟨d, hd, hdeq⟩ := List.mem_map.1 hm
      by_cases he : enc d = enc dg
      · left; rw [← henc he]; exact hd
      · right; right; right; exact ⟨_, _, he, hdeq⟩
    · right; right; left; exact ⟨_, _, _, hab⟩
  · exact Or.inr h

/-! ## (B) completeness -/

omit [DecidableEq D]

/-! ### arithmetic -/

/-- bit length of `n - 1` (the `d` / `layer` expression of `InclusionProof`). -/
def clog (n : Nat) : Nat := if n - 1 = 0 then 0 else Nat.log2 (n - 1) + 1

theorem le_two_pow_clog (n : Nat) : n ≤ 2 ^ clog n := by
  unfold clog
  split
  · simp; omega
  · have := Nat.lt_log2_self (n := n - 1); omega

theorem two_pow_clog_of_ge_two (n : Nat) (h : 2 ≤ n) : 2 ^ clog n = 2 * pow2lt n := by
  unfold clog pow2lt
  rw [if_neg (by omega), Nat.pow_succ, Nat.mul_comm]

theorem clog_le_of_le_two_pow (a j : Nat) (h : a ≤ 2 ^ j) : clog a ≤ j := by
  unfold clog
  split
  · omega
  · rename_i h1
    have := (Nat.log2_lt (n := a - 1) (k := j) h1).2 (by omega)
    omega

theorem two_pow_clog_dvd (a j : Nat) (h : a ≤ 2 ^ j) : 2 ^ clog a ∣ 2 ^ j :=
  Nat.pow_dvd_pow 2 (clog_le_of_le_two_pow a j h)

theorem pow2lt_eq (n L : Nat) (h1 : 2 ^ L < n) (h2 : n ≤ 2 * 2 ^ L) : pow2lt n = 2 ^ L := by
  unfold pow2lt
  have hne : n - 1 ≠ 0 := by have := Nat.two_pow_pos L; omega
  have : Nat.log2 (n - 1) = L := by
    rw [Nat.log2_eq_iff hne, Nat.pow_succ]; omega
  rw [this]

theorem mth_block (mh : MH D) (L : Nat) (blk : List D) (h1 : 2 ^ L < blk.length)
    (h2 : blk.length ≤ 2 * 2 ^ L) :
    mth mh blk = mh.nodeH (mth mh (blk.take (2 ^ L))) (mth mh (blk.drop (2 ^ L))) := by
  have := Nat.two_pow_pos L
  rw [mth_ge_two mh blk (by omega), pow2lt_eq _ L h1 h2]

/-! ### levels -/

/-- Level `L` of the tree: `pairUp` iterated `L` times. -/
def lvl (mh : MH D) : Nat → List D → List D
  | 0, xs => xs
  | L+1, xs => pairUp mh (lvl mh L xs)

theorem lvl_pairUp (mh : MH D) (L : Nat) (xs : List D) : lvl mh L (pairUp mh xs) = lvl mh (L+1) xs := by
  induction L with
  | zero => rfl
  | succ L ih => simp only [lvl] at ih ⊢; rw [ih]

theorem pairUp_get (mh : MH D) (ys : List D) (x : Nat) :
    (pairUp mh ys)[x]? =
      match ys[2*x]?, ys[2*x+1]? with
      | none, _ => none
      | some a, none => some a
      | some a, some b => some (mh.nodeH a b) := by
  induction x generalizing ys with
  | zero =>
    match ys with
    | [] => simp [pairUp]
    | [a] => simp [pairUp]
    | a :: b :: r => simp [pairUp]
  | succ x ih =>
    match ys with
    | [] => simp [pairUp]
    | [a] => simp [pairUp]
    | a :: b :: r =>
      have e1 : 2 * (x + 1) = (2 * x + 1) + 1 := by omega
      have e2 : 2 * (x + 1) + 1 = (2 * x + 1 + 1) + 1 := by omega
      rw [e2, e1]
      simp only [pairUp, List.getElem?_cons_succ]
      exact ih r

def chunk (L : Nat) (xs : List D) (x : Nat) : List D := (xs.drop (x * 2 ^ L)).take (2 ^ L)

theorem lvl_get (mh : MH D) (L : Nat) (xs : List D) (x : Nat) :
    (lvl mh L xs)[x]? = if x * 2 ^ L < xs.length then some (mth mh (chunk L xs x)) else none := by
  induction L generalizing x with
  | zero =>
    simp only [lvl, chunk, Nat.pow_zero, Nat.mul_one]
    split
    · rename_i h
      rw [List.drop_eq_getElem_cons h, List.take_succ_cons, List.take_zero, mth_singleton,
        List.getElem?_eq_getElem h]
    · rename_i h
      simp at h ⊢; omega
  | succ L ih =>
    simp only [lvl]
    rw [pairUp_get, ih, ih]
    have hp : 0 < 2 ^ L := Nat.two_pow_pos L
    have e0 : x * 2 ^ (L + 1) = 2 * x * 2 ^ L := by rw [Nat.pow_succ]; ac_rfl
    have e1 : (2 * x + 1) * 2 ^ L = 2 * x * 2 ^ L + 2 ^ L := by rw [Nat.add_mul, Nat.one_mul]
    have e2 : 2 ^ (L + 1) = 2 * 2 ^ L := by rw [Nat.pow_succ, Nat.mul_comm]
    rw [e0, e1]
    generalize ho : 2 * x * 2 ^ L = o
    by_cases h1 : o < xs.length
    · by_cases h2 : o + 2 ^ L < xs.length
      · simp only [h1, h2, if_true]
        congr 1
        unfold chunk
        rw [e0, e1, e2, ho]
        have hlen : ((xs.drop o).take (2 * 2 ^ L)).length = min (2 * 2 ^ L) (xs.length - o) := by
          simp
        rw [mth_block mh L ((xs.drop o).take (2 * 2 ^ L)) (by rw [hlen]; omega) (by rw [hlen]; omega)]
        rw [List.take_take, List.drop_take, List.drop_drop]
        have e3 : min (2 ^ L) (2 * 2 ^ L) = 2 ^ L := by omega
        have e4 : 2 * 2 ^ L - 2 ^ L = 2 ^ L := by omega
        rw [e3, e4]
      · simp only [h1, h2, if_true, if_false]
        congr 1
        unfold chunk
        rw [e0, e2, ho]
        rw [List.take_of_length_le (by simp; omega), List.take_of_length_le (by simp; omega)]
    · simp only [h1, if_false]

theorem levelsFrom_get (mh : MH D) (fuel : Nat) : ∀ (xs : List D) (L : Nat), L ≤ fuel →
    (L = 0 ∨ 2 ^ (L - 1) < xs.length) →
    (HTree.levelsFrom mh fuel xs)[L]? = some (lvl mh L xs) := by
  induction fuel with
  | zero =>
    intro xs L hL _
    have : L = 0 := by omega
    subst this
    simp [HTree.levelsFrom, lvl]
  | succ f ih =>
    intro xs L hL hlt
    cases L with
    | zero =>
      simp only [HTree.levelsFrom, lvl]
      split <;> simp
    | succ L' =>
      have hlt' : 2 ^ L' < xs.length := by simpa using hlt
      have hp := Nat.two_pow_pos L'
      simp only [HTree.levelsFrom]
      rw [if_neg (by omega), List.getElem?_cons_succ, ih _ L' (by omega), lvl_pairUp]
      cases L' with
      | zero => left; rfl
      | succ L'' =>
        right
        rw [pairUp_length]
        simp only [Nat.add_sub_cancel]
        rw [Nat.pow_succ] at hlt'
        omega

theorem levelsFrom_getLast_h (mh : MH D) (fuel : Nat) : ∀ (xs : List D), xs.length ≤ fuel →
    ∃ L, (HTree.levelsFrom mh fuel xs).getLast? = some (lvl mh L xs) ∧ (lvl mh L xs).length ≤ 1 := by
  induction fuel with
  | zero =>
    intro xs h
    exact ⟨0, by simp [HTree.levelsFrom, lvl], by simp only [lvl]; omega⟩
  | succ f ih =>
    intro xs h
    simp only [HTree.levelsFrom]
    split
    · rename_i h1
      exact ⟨0, by simp [lvl], by simpa [lvl] using h1⟩
    · rename_i h1
      obtain ⟨L, hL1, hL2⟩ := ih (pairUp mh xs) (by rw [pairUp_length]; omega)
      refine ⟨L + 1, ?_, ?_⟩
      · rw [← lvl_pairUp, ← hL1]
        cases hlf : HTree.levelsFrom mh f (pairUp mh xs) with
        | nil => rw [hlf] at hL1; simp at hL1
        | cons a l => rw [List.getLast?_cons_cons]
      · rw [← lvl_pairUp]; exact hL2

theorem build_root (mh : MH D) (enc : D → Bytes) (ds : List D) (hne : ds ≠ []) :
    (HTree.build mh enc ds).root = mth mh (ds.map (fun d => mh.leafH (enc d))) := by
  unfold HTree.build
  simp only
  generalize hxs : ds.map (fun d => mh.leafH (enc d)) = xs
  have hlen : xs.length = ds.length := by rw [← hxs]; simp
  have hpos : 0 < xs.length := by
    rw [hlen]; exact List.length_pos_iff.2 hne
  rw [if_neg (by simpa using hne)]
  obtain ⟨L, hL1, hL2⟩ := levelsFrom_getLast_h mh ds.length xs (by omega)
  rw [hL1]
  have h0 := lvl_get mh L xs 0
  have h1 := lvl_get mh L xs 1
  rw [Nat.zero_mul, if_pos hpos] at h0
  rw [Nat.one_mul] at h1
  have hn : ¬ (2 ^ L < xs.length) := by
    intro hc
    rw [if_pos hc] at h1
    have := (List.getElem?_eq_some_iff.1 h1).1
    omega
  have hch : chunk L xs 0 = xs := by
    unfold chunk
    rw [Nat.zero_mul, List.drop_zero, List.take_of_length_le (by omega)]
  rw [hch] at h0
  match hl : lvl mh L xs with
  | [] => rw [hl] at h0; simp at h0
  | r :: _ =>
    rw [hl] at h0
    simp at h0
    simp [h0]

/-! ### the prover loop -/

theorem proofLoop_k (n : Nat) (hn : 2 ≤ n) :
    2 ^ ((if n - 1 = 0 then 0 else Nat.log2 (n - 1) + 1) - 1) = pow2lt n := by
  rw [if_neg (by omega), Nat.add_sub_cancel]; rfl

theorem proofLoop_left (t : HTree.T D) (fuel m n o : Nat) (acc : List D) (hn : 2 ≤ n)
    (hm : m < pow2lt n) :
    HTree.proofLoop t (fuel+1) m n o acc =
      match (t.levels[clog (n - pow2lt n)]?).bind (·[(o + pow2lt n) / 2 ^ clog (n - pow2lt n)]?) with
      | none => none
      | some term =>
        if pow2lt n < 1 ∨ (pow2lt n = 1 ∧ m = 0) then some (term :: acc)
        else HTree.proofLoop t fuel m (pow2lt n) o (term :: acc) := by
  rw [HTree.proofLoop]
  simp only [proofLoop_k n hn, hm, if_true]
  have : o + n - 1 - (o + pow2lt n) = n - pow2lt n - 1 := by omega
  rw [this]
  rfl

theorem proofLoop_right (t : HTree.T D) (fuel m n o : Nat) (acc : List D) (hn : 2 ≤ n)
    (hm : ¬ m < pow2lt n) :
    HTree.proofLoop t (fuel+1) m n o acc =
      match (t.levels[clog (pow2lt n)]?).bind (·[o / 2 ^ clog (pow2lt n)]?) with
      | none => none
      | some term =>
        if n - pow2lt n < 1 ∨ (n - pow2lt n = 1 ∧ m - pow2lt n = 0) then some (term :: acc)
        else HTree.proofLoop t fuel (m - pow2lt n) (n - pow2lt n) (o + pow2lt n) (term :: acc) := by
  rw [HTree.proofLoop]
  simp only [proofLoop_k n hn, hm, if_false]
  have : o + pow2lt n - 1 - o = pow2lt n - 1 := by omega
  rw [this]
  rfl

/-- Block `[o, o+n)` of a width-`w` tree is a subtree: aligned, and either perfect or on the right edge. -/
def Al (w o n : Nat) : Prop := 2 ^ clog n ∣ o ∧ (n = 2 ^ clog n ∨ o + n = w)

theorem clog_of_ge_two (n : Nat) (h : 2 ≤ n) : clog n = Nat.log2 (n - 1) + 1 := by
  unfold clog; rw [if_neg (by omega)]

theorem pow2lt_eq_clog (n : Nat) (h : 2 ≤ n) : pow2lt n = 2 ^ (clog n - 1) := by
  rw [clog_of_ge_two n h]; rfl

theorem Al_left (w o n : Nat) (hn : 2 ≤ n) (h : Al w o n) : Al w o (pow2lt n) := by
  obtain ⟨h1, _⟩ := h
  rw [two_pow_clog_of_ge_two n hn] at h1
  have hk : pow2lt n = 2 ^ (clog n - 1) := pow2lt_eq_clog n hn
  have hd : 2 ^ clog (pow2lt n) ∣ pow2lt n := by
    have := two_pow_clog_dvd (pow2lt n) (clog n - 1) (by omega)
    rw [← hk] at this; exact this
  have hle := le_two_pow_clog (pow2lt n)
  have hle2 := Nat.le_of_dvd (pow2lt_pos n) hd
  refine ⟨?_, Or.inl (by omega)⟩
  exact Nat.dvd_trans hd (Nat.dvd_trans (Nat.dvd_mul_left _ 2) h1)

theorem Al_right (w o n : Nat) (hn : 2 ≤ n) (h : Al w o n) : Al w (o + pow2lt n) (n - pow2lt n) := by
  obtain ⟨h1, h2⟩ := h
  have hP := two_pow_clog_of_ge_two n hn
  rw [hP] at h1
  have hk : pow2lt n = 2 ^ (clog n - 1) := pow2lt_eq_clog n hn
  have hlt := pow2lt_lt n hn
  have h2k := lt_two_pow2lt n hn
  have hd : 2 ^ clog (n - pow2lt n) ∣ pow2lt n := by
    have := two_pow_clog_dvd (n - pow2lt n) (clog n - 1) (by omega)
    rw [← hk] at this; exact this
  have hko : pow2lt n ∣ o := Nat.dvd_trans (Nat.dvd_mul_left _ 2) h1
  refine ⟨Nat.dvd_add (Nat.dvd_trans hd hko) hd, ?_⟩
  rcases h2 with h2 | h2
  · left
    have hle := le_two_pow_clog (n - pow2lt n)
    have hle2 := Nat.le_of_dvd (pow2lt_pos n) hd
    omega
  · right; omega

theorem levels_lookup (mh : MH D) (xs : List D) (o n : Nat) (hn : 1 ≤ n) (hle : o + n ≤ xs.length)
    (h : Al xs.length o n) :
    ((HTree.levelsFrom mh xs.length xs)[clog n]?).bind (·[o / 2 ^ clog n]?) =
      some (mth mh ((xs.drop o).take n)) := by
  have hL : clog n ≤ xs.length ∧ (clog n = 0 ∨ 2 ^ (clog n - 1) < xs.length) := by
    by_cases h2 : 2 ≤ n
    · have h3 := pow2lt_lt n h2
      rw [pow2lt_eq_clog n h2] at h3
      have h4 := Nat.lt_two_pow_self (n := clog n - 1)
      constructor
      · omega
      · right; omega
    · have : clog n = 0 := by unfold clog; rw [if_pos (by omega)]
      constructor
      · omega
      · left; exact this
  rw [levelsFrom_get mh xs.length xs (clog n) hL.1 hL.2]
  simp only [Option.bind_some]
  rw [lvl_get, Nat.div_mul_cancel h.1, if_pos (by omega)]
  congr 2
  unfold chunk
  rw [Nat.div_mul_cancel h.1]
  rcases h.2 with h2 | h2
  · rw [← h2]
  · have hP := le_two_pow_clog n
    rw [List.take_of_length_le (by simp; omega), List.take_of_length_le (by simp; omega)]

/-- The specification of the audit path of leaf `m` in block `xs`, deepest sibling first. -/
def path (mh : MH D) : Nat → List D → Nat → List D
  | 0, _, _ => []
  | f+1, xs, m =>
    if xs.length ≤ 1 then []
    else if m < pow2lt xs.length then
      path mh f (xs.take (pow2lt xs.length)) m ++ [mth mh (xs.drop (pow2lt xs.length))]
    else
      path mh f (xs.drop (pow2lt xs.length)) (m - pow2lt xs.length) ++ [mth mh (xs.take (pow2lt xs.length))]

theorem path_short (mh : MH D) (f : Nat) (xs : List D) (m : Nat) (h : xs.length ≤ 1) :
    path mh f xs m = [] := by
  cases f with
  | zero => rfl
  | succ f => simp only [path]; rw [if_pos h]

theorem proofLoop_path (mh : MH D) (enc : D → Bytes) (ds : List D) (fuel : Nat) :
    ∀ (m n o : Nat) (acc : List D), 2 ≤ n → m < n → o + n ≤ ds.length → Al ds.length o n →
      HTree.proofLoop (HTree.build mh enc ds) fuel m n o acc =
        some (path mh fuel (((ds.map (fun d => mh.leafH (enc d))).drop o).take n) m ++ acc) := by
  generalize hxs : ds.map (fun d => mh.leafH (enc d)) = xs
  have hlen : xs.length = ds.length := by rw [← hxs]; simp
  have hlv : (HTree.build mh enc ds).levels = HTree.levelsFrom mh xs.length xs := by
    unfold HTree.build; simp only; rw [hxs, hlen]
  rw [← hlen]
  induction fuel with
  | zero => intro m n o acc _ _ _ _; rfl
  | succ f ih =>
    intro m n o acc hn hm hle hal
    have hblk : ((xs.drop o).take n).length = n := by simp; omega
    have hk1 := pow2lt_pos n
    have hk2 := pow2lt_lt n hn
    simp only [path]
    rw [hblk, if_neg (by omega)]
    by_cases hmk : m < pow2lt n
    · rw [proofLoop_left _ _ _ _ _ _ hn hmk, if_pos hmk, hlv]
      rw [levels_lookup mh xs (o + pow2lt n) (n - pow2lt n) (by omega) (by omega) (Al_right _ _ _ hn hal)]
      simp only
      rw [List.take_take, List.drop_take, List.drop_drop]
      have e1 : min (pow2lt n) n = pow2lt n := by omega
      rw [e1]
      split
      · rw [path_short _ _ _ _ (by simp; omega)]
        simp
      · rw [ih _ _ _ _ (by omega) hmk (by omega) (Al_left _ _ _ hn hal)]
        simp
    · rw [proofLoop_right _ _ _ _ _ _ hn hmk, if_neg hmk, hlv]
      rw [levels_lookup mh xs o (pow2lt n) (by omega) (by omega) (Al_left _ _ _ hn hal)]
      simp only
      rw [List.take_take, List.drop_take, List.drop_drop]
      have e1 : min (pow2lt n) n = pow2lt n := by omega
      rw [e1]
      split
      · rw [path_short _ _ _ _ (by simp; omega)]
        simp
      · rw [ih _ _ _ _ (by omega) (by omega) (by omega) (Al_right _ _ _ hn hal)]
        simp

/-! ### the verifier loop -/

/-- `hEvalAux` over naturals. -/
def nEval (mh : MH D) : List D → Nat → Nat → D → Nat × Nat × D
  | [], i, r, c => (i, r, c)
  | t :: p, i, r, c =>
    nEval mh p (i / 2) (r / 2) (if i % 2 = 0 ∧ i ≠ r then mh.nodeH c t else mh.nodeH t c)

theorem nEval_append (mh : MH D) (p q : List D) : ∀ (i r : Nat) (c : D),
    nEval mh (p ++ q) i r c =
      nEval mh q (nEval mh p i r c).1 (nEval mh p i r c).2.1 (nEval mh p i r c).2.2 := by
  induction p with
  | nil => intro i r c; rfl
  | cons t p ih => intro i r c; simp only [List.cons_append, nEval]; rw [ih]

theorem hEvalAux_nat (mh : MH D) (p : List D) : ∀ (i r : Nat) (c : D),
    hEvalAux mh p (i : Int) (r : Int) c =
      (((nEval mh p i r c).1 : Int), ((nEval mh p i r c).2.1 : Int), (nEval mh p i r c).2.2) := by
  induction p with
  | nil => intro i r c; rfl
  | cons t p ih =>
    intro i r c
    have hc : (Int.tmod (i : Int) 2 = 0 ∧ (i : Int) ≠ (r : Int)) ↔ (i % 2 = 0 ∧ i ≠ r) := by
      rw [show Int.tmod (i : Int) 2 = ((i % 2 : Nat) : Int) from rfl]
      constructor
      · intro ⟨h1, h2⟩; constructor <;> omega
      · intro ⟨h1, h2⟩; constructor <;> omega
    simp only [hEvalAux, nEval, hc]
    exact ih (i / 2) (r / 2) _

theorem nEval_perfect (mh : MH D) (j : Nat) : ∀ (fuel : Nat) (xs : List D) (q m r : Nat) (c : D),
    xs.length = 2 ^ j → 2 ^ j ≤ fuel → m < 2 ^ j → xs[m]? = some c → r / 2 ^ j ≠ q →
    nEval mh (path mh fuel xs m) (q * 2 ^ j + m) r c = (q, r / 2 ^ j, mth mh xs) := by
  induction j with
  | zero =>
    intro fuel xs q m r c hlen _ hm hc _
    rw [path_short mh fuel xs m (by rw [hlen]; simp)]
    have hm0 : m = 0 := by simpa using hm
    subst hm0
    match xs, hlen with
    | [x], _ =>
      simp at hc
      simp [nEval, mth_singleton, hc]
  | succ j ih =>
    intro fuel xs q m r c hlen hfuel hm hc hr
    have hp := Nat.two_pow_pos j
    have e2 : 2 ^ (j + 1) = 2 * 2 ^ j := by rw [Nat.pow_succ, Nat.mul_comm]
    rw [e2] at hlen hfuel hm
    have hk : pow2lt xs.length = 2 ^ j := pow2lt_eq _ j (by omega) (by omega)
    have hrr : r / 2 ^ (j + 1) = r / 2 ^ j / 2 := by
      rw [Nat.pow_succ, Nat.div_div_eq_div_mul]
    rw [hrr] at hr ⊢
    have hmth : mth mh xs = mh.nodeH (mth mh (xs.take (2 ^ j))) (mth mh (xs.drop (2 ^ j))) :=
      mth_block mh j xs (by omega) (by omega)
    match fuel, hfuel with
    | 0, hfuel => omega
    | f + 1, hfuel =>
      simp only [path]
      rw [if_neg (by omega), hk]
      by_cases hmk : m < 2 ^ j
      · rw [if_pos hmk, nEval_append]
        have e3 : q * 2 ^ (j + 1) + m = (2 * q) * 2 ^ j + m := by
          rw [e2]; congr 1; ac_rfl
        rw [e3, ih f (xs.take (2 ^ j)) (2 * q) m r c (by simp; omega) (by omega) hmk
          (by rw [List.getElem?_take, if_pos hmk]; exact hc) (by omega)]
        simp only [nEval]
        rw [if_pos ⟨by omega, by omega⟩, hmth]
        congr 1
        omega
      · rw [if_neg hmk, nEval_append]
        have e3 : q * 2 ^ (j + 1) + m = (2 * q + 1) * 2 ^ j + (m - 2 ^ j) := by
          rw [e2, Nat.add_mul, Nat.one_mul]
          have : q * (2 * 2 ^ j) = 2 * q * 2 ^ j := by ac_rfl
          omega
        rw [e3, ih f (xs.drop (2 ^ j)) (2 * q + 1) (m - 2 ^ j) r c (by simp; omega) (by omega) (by omega)
          (by rw [List.getElem?_drop, ← hc]; congr 1; omega) (by omega)]
        simp only [nEval]
        rw [if_neg (by omega), hmth]
        congr 1
        omega

theorem nEval_edge (mh : MH D) (fuel : Nat) : ∀ (xs : List D) (o m : Nat) (c : D),
    1 ≤ xs.length → xs.length ≤ fuel → m < xs.length → xs[m]? = some c → 2 ^ clog xs.length ∣ o →
    ∃ i', nEval mh (path mh fuel xs m) (o + m) (o + xs.length - 1) c = (i', i', mth mh xs) := by
  induction fuel with
  | zero => intro xs o m c h1 h2; omega
  | succ f ih =>
    intro xs o m c h1 hfuel hm hc hdvd
    by_cases hn : xs.length ≤ 1
    · rw [path_short mh _ xs m hn]
      have hm0 : m = 0 := by omega
      subst hm0
      match xs, h1, hn with
      | [x], _, _ =>
        simp at hc
        refine ⟨o, ?_⟩
        simp [nEval, mth_singleton, hc]
    · have hn2 : 2 ≤ xs.length := by omega
      have hk1 := pow2lt_pos xs.length
      have hk2 := pow2lt_lt xs.length hn2
      have hk3 := lt_two_pow2lt xs.length hn2
      have hkj : pow2lt xs.length = 2 ^ (clog xs.length - 1) := pow2lt_eq_clog _ hn2
      have hmth := mth_ge_two mh xs hn2
      simp only [path]
      rw [if_neg hn]
      by_cases hmk : m < pow2lt xs.length
      · rw [if_pos hmk, nEval_append]
        rw [two_pow_clog_of_ge_two _ hn2] at hdvd
        obtain ⟨c', hc'⟩ := hdvd
        generalize hk : pow2lt xs.length = k at *
        have ho : o = (2 * c') * k := by rw [hc']; ac_rfl
        have hprod : (2 * c' + 1) * k = 2 * c' * k + k := by rw [Nat.add_mul, Nat.one_mul]
        have hprod2 : (2 * c' + 1 + 1) * k = 2 * c' * k + k + k := by
          rw [Nat.add_mul, Nat.one_mul, hprod]
        have hr : (o + xs.length - 1) / k = 2 * c' + 1 :=
          Nat.div_eq_of_lt_le (by omega) (by omega)
        have hpf := nEval_perfect mh (clog xs.length - 1) f (xs.take k) (2 * c') m (o + xs.length - 1) c
          (by simp; omega) (by omega) (by omega)
          (by rw [List.getElem?_take, if_pos hmk]; exact hc) (by rw [← hkj, hr]; omega)
        rw [← hkj, hr, ← ho] at hpf
        rw [hpf]
        refine ⟨c', ?_⟩
        simp only [nEval]
        rw [if_pos ⟨by omega, by omega⟩, hmth]
        congr 1
        · omega
        · congr 1; omega
      · rw [if_neg hmk, nEval_append]
        have hal := (Al_right (o + xs.length) o xs.length hn2 ⟨hdvd, Or.inr rfl⟩).1
        generalize hk : pow2lt xs.length = k at *
        obtain ⟨i', hi'⟩ := ih (xs.drop k) (o + k) (m - k) c (by simp; omega) (by simp; omega)
          (by simp; omega) (by rw [List.getElem?_drop, ← hc]; congr 1; omega)
          (by simpa using hal)
        have e1 : o + k + (m - k) = o + m := by omega
        have e2 : o + k + (xs.drop k).length - 1 = o + xs.length - 1 := by simp; omega
        rw [e1, e2] at hi'
        rw [hi']
        refine ⟨i' / 2, ?_⟩
        simp only [nEval]
        rw [if_neg (by omega), hmth]

variable [DecidableEq D]

/-- (B) COMPLETENESS. -/
theorem hInclusionProof_complete (mh : MH D) (enc : D → Bytes) (ds : List D) (i : Nat) (hi : i < ds.length) :
    ∃ pr, HTree.inclusionProof (HTree.build mh enc ds) i = some pr ∧
      pr.leaf = i ∧ pr.width = ds.length ∧
      hVerifyInclusion mh enc pr (ds[i]) (HTree.build mh enc ds).root = true := by
  have hne : ds ≠ [] := by intro h; subst h; simp at hi
  generalize hxs : ds.map (fun d => mh.leafH (enc d)) = xs
  have hlen : xs.length = ds.length := by rw [← hxs]; simp
  have hxi : xs[i]? = some (mh.leafH (enc ds[i])) := by
    rw [← hxs]; simp [hi]
  have hw : (HTree.build mh enc ds).width = ds.length := rfl
  -- the proof object
  have hproof : HTree.inclusionProof (HTree.build mh enc ds) i =
      some ⟨i, ds.length, path mh ds.length xs i⟩ := by
    unfold HTree.inclusionProof
    rw [hw, if_neg (by omega)]
    by_cases h1 : ds.length = 1
    · rw [if_pos h1, path_short mh _ xs i (by omega)]
    · rw [if_neg h1]
      have hal : Al ds.length 0 ds.length :=
        ⟨Nat.dvd_zero _, Or.inr (by omega)⟩
      rw [proofLoop_path mh enc ds ds.length i ds.length 0 [] (by omega) hi (by omega) hal, hxs]
      simp only [List.drop_zero, List.append_nil]
      rw [List.take_of_length_le (by omega)]
  refine ⟨_, hproof, rfl, rfl, ?_⟩
  unfold hVerifyInclusion
  simp only
  have hcast : ((ds.length : Nat) : Int) - 1 = ((ds.length - 1 : Nat) : Int) := by omega
  rw [hcast, hEvalAux_nat]
  obtain ⟨i', hi'⟩ := nEval_edge mh ds.length xs 0 i (mh.leafH (enc ds[i])) (by omega) (by omega)
    (by omega) hxi (Nat.dvd_zero _)
  rw [Nat.zero_add, Nat.zero_add, hlen] at hi'
  rw [hi', build_root mh enc ds hne, hxs]
  simp

end ImmuModel.Merkle
