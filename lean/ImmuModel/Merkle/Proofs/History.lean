/-
Histories of an ahtree in which operations may FAIL (an underlying log refused a flush / fsync / write /
set-offset / read): `AHT.run` / `AHTFile.runF` (ImmuModel/Merkle/AHTree.lean) against the abstract list of
surviving payloads `AHT.survivors`.  Everything follows from the existing facts about `appendAll` and
`resetSize` (Proofs/Roots.lean): a failed operation is the identity on the tree model.
-/
import ImmuModel.Merkle.AHTree
import ImmuModel.Merkle.Proofs.Roots

namespace ImmuModel.Merkle
variable {D : Type}

namespace HistoryAux

theorem size_of_appendAll (mh : MH D) (xs : List Bytes) (t : AHT D)
    (h0 : AHT.appendAll mh AHT.empty xs = some t) : t.size = xs.length := by
  obtain ⟨hp, _⟩ := aht_appendAll_some mh _ _ _ h0
  simp [AHT.size, hp, AHT.empty]

theorem append_step (mh : MH D) (xs : List Bytes) (t : AHT D) (d : Bytes)
    (h0 : AHT.appendAll mh AHT.empty xs = some t) :
    AHT.append mh t d = AHT.appendAll mh AHT.empty (xs ++ [d]) := by
  rw [aht_appendAll_append, h0]
  simp only [Option.bind_some, AHT.appendAll]
  cases AHT.append mh t d <;> rfl

theorem reset_step (mh : MH D) (xs : List Bytes) (t : AHT D) (m : Nat)
    (h0 : AHT.appendAll mh AHT.empty xs = some t) :
    AHT.resetSize t m = if xs.length < m then none else AHT.appendAll mh AHT.empty (xs.take m) := by
  have hs := size_of_appendAll mh xs t h0
  by_cases hm : xs.length < m
  · simp [AHT.resetSize, hs, hm]
  · rw [if_neg hm]
    have hr : AHT.resetSize t m = some ⟨t.payloads.take m, t.groups.take m⟩ := by
      simp [AHT.resetSize, hs, hm]
    have h := aht_reset_append mh xs [] t _ m h0 (by omega) hr
    simp only [AHT.appendAll, List.append_nil] at h
    rw [hr, h]

/-- one step: the tree model and the abstract list of leaves move together -/
theorem stepOp_eq (mh : MH D) (xs : List Bytes) (t : AHT D)
    (h0 : AHT.appendAll mh AHT.empty xs = some t) (o : AHT.Op) :
    AHT.stepOp mh t o = (AHT.survStep xs o).bind (AHT.appendAll mh AHT.empty) := by
  cases o with
  | append d => simp [AHT.stepOp, AHT.survStep, append_step mh xs t d h0]
  | appendFail d => simp [AHT.stepOp, AHT.survStep, h0]
  | reset m =>
    simp only [AHT.stepOp, AHT.survStep, reset_step mh xs t m h0]
    split <;> simp
  | resetFail m => simp [AHT.stepOp, AHT.survStep, h0]
  | syncFail => simp [AHT.stepOp, AHT.survStep, h0]

theorem run_eq (mh : MH D) (ops : List AHT.Op) : ∀ (xs : List Bytes) (t : AHT D),
    AHT.appendAll mh AHT.empty xs = some t →
    AHT.run mh t ops = (AHT.survivors xs ops).bind (AHT.appendAll mh AHT.empty) := by
  induction ops with
  | nil => intro xs t h0; simp [AHT.run, AHT.survivors, h0]
  | cons o os ih =>
    intro xs t h0
    simp only [AHT.run, AHT.survivors, stepOp_eq mh xs t h0 o]
    cases hs : AHT.survStep xs o with
    | none => simp
    | some ys =>
      obtain ⟨t1, h1, _⟩ := aht_appendAll_total mh ys
      simp only [Option.bind_some, h1]
      exact ih ys t1 h1

theorem sync_cur (f : AHTFile D) : f.sync.cur = f.cur := by
  unfold AHTFile.sync; split <;> rfl

/-- a file-level step is the tree-level step on `cur` (`sync` leaves `cur` alone) -/
theorem stepF_cur (mh : MH D) (xs : List Bytes) (f : AHTFile D)
    (h0 : AHT.appendAll mh AHT.empty xs = some f.cur) (o : AHTFile.FOp) :
    (AHTFile.stepF mh f o).map (·.cur) =
      match o.toOp with
      | none => some f.cur
      | some op => AHT.stepOp mh f.cur op := by
  cases o with
  | append d =>
    simp only [AHTFile.stepF, AHTFile.FOp.toOp, AHT.stepOp, AHTFile.append]
    cases AHT.append mh f.cur d with
    | none => simp
    | some t =>
      simp only [Option.map_some]
      split <;> simp [sync_cur]
  | appendFail d => simp [AHTFile.stepF, AHTFile.FOp.toOp, AHT.stepOp, AHTFile.appendFail]
  | reset m =>
    simp only [AHTFile.stepF, AHTFile.FOp.toOp, AHT.stepOp, AHTFile.resetSize]
    have hs := size_of_appendAll mh xs f.cur h0
    by_cases h1 : f.cur.size < m
    · simp [h1, AHT.resetSize]
    · by_cases h2 : f.cur.size = m
      · rw [if_neg h1, if_pos h2, reset_step mh xs f.cur m h0, if_neg (by omega)]
        have ht : xs.take m = xs := List.take_of_length_le (by omega)
        rw [ht, h0]; rfl
      · rw [if_neg h1, if_neg h2]
        simp only [sync_cur]
        cases AHT.resetSize f.cur m <;> simp
  | resetFail m s =>
    simp only [AHTFile.stepF, AHTFile.FOp.toOp, AHT.stepOp, AHTFile.resetFail, Option.map_some]
    split <;> simp [sync_cur]
  | sync => simp [AHTFile.stepF, AHTFile.FOp.toOp, sync_cur]
  | syncFail => simp [AHTFile.stepF, AHTFile.FOp.toOp, AHT.stepOp, AHTFile.syncFail]

theorem runF_cur (mh : MH D) (fops : List AHTFile.FOp) : ∀ (xs : List Bytes) (f : AHTFile D),
    AHT.appendAll mh AHT.empty xs = some f.cur →
    (AHTFile.runF mh f fops).map (·.cur) = AHT.run mh f.cur (fops.filterMap AHTFile.FOp.toOp) := by
  induction fops with
  | nil => intro xs f _; simp [AHTFile.runF, AHT.run]
  | cons o os ih =>
    intro xs f h0
    have hstep := stepF_cur mh xs f h0 o
    simp only [AHTFile.runF, List.filterMap_cons]
    cases hf : AHTFile.stepF mh f o with
    | none =>
      rw [hf] at hstep
      cases ho : o.toOp with
      | none => rw [ho] at hstep; simp at hstep
      | some op =>
        rw [ho] at hstep
        dsimp only at hstep
        simp only [Option.map_none] at hstep
        dsimp only
        simp [AHT.run, ← hstep]
    | some f' =>
      rw [hf] at hstep
      simp only [Option.map_some] at hstep
      cases ho : o.toOp with
      | none =>
        rw [ho] at hstep
        dsimp only at hstep
        simp only [Option.some.injEq] at hstep
        dsimp only
        simp only [Option.bind_some]
        rw [ih xs f' (by rw [hstep]; exact h0), hstep]
      | some op =>
        rw [ho] at hstep
        dsimp only at hstep
        have he := stepOp_eq mh xs f.cur h0 op
        rw [← hstep] at he
        cases hs : AHT.survStep xs op with
        | none => rw [hs] at he; simp at he
        | some ys =>
          rw [hs] at he
          simp only [Option.bind_some] at he
          dsimp only
          simp only [Option.bind_some, AHT.run, ← hstep]
          exact ih ys f' he.symm

end HistoryAux

/-- **Histories with failed operations (tree level).**  Running any history of successful appends, failed
appends, resets, failed resets and failed syncs from the empty tree succeeds exactly when every reset is
within the current size, and then yields the tree built from scratch over the surviving payloads. -/
theorem aht_run_eq_survivors (mh : MH D) (ops : List AHT.Op) :
    AHT.run mh AHT.empty ops = (AHT.survivors [] ops).bind (AHT.appendAll mh AHT.empty) :=
  HistoryAux.run_eq mh ops [] AHT.empty rfl

/-- **Histories with failed operations (file level, what the driver executes).**  The current tree after any
history of `append / appendFail / reset / resetFail / sync / syncFail` is the tree-level run of the
projected history. -/
theorem ahtfile_run_cur (mh : MH D) (thld : Nat) (fops : List AHTFile.FOp) :
    (AHTFile.runF mh (AHTFile.new thld : AHTFile D) fops).map (·.cur) =
      AHT.run mh AHT.empty (fops.filterMap AHTFile.FOp.toOp) :=
  HistoryAux.runF_cur mh fops [] (AHTFile.new thld) rfl

/-- … hence every historical root of the resulting tree is the reference Merkle root of the surviving
payloads (and, `appendAll` being exposed, all completeness theorems apply to it). -/
theorem aht_history_roots (mh : MH D) (ops : List AHT.Op) (ys : List Bytes)
    (hs : AHT.survivors [] ops = some ys) :
    ∃ t, AHT.run mh AHT.empty ops = some t ∧ AHT.appendAll mh AHT.empty ys = some t ∧ t.payloads = ys ∧
      ∀ n, 1 ≤ n → n ≤ ys.length → AHT.rootAt t n = .ok (mth mh ((ys.take n).map mh.leafH)) := by
  obtain ⟨t, ht, hp⟩ := aht_appendAll_total mh ys
  refine ⟨t, ?_, ht, hp, fun n h1 h2 => aht_rootAt_eq_mth mh ys t n ht h1 h2⟩
  rw [aht_run_eq_survivors, hs]
  exact ht

theorem ahtfile_history_roots (mh : MH D) (thld : Nat) (fops : List AHTFile.FOp) (f : AHTFile D)
    (hf : AHTFile.runF mh (AHTFile.new thld) fops = some f) :
    ∃ ys, AHT.survivors [] (fops.filterMap AHTFile.FOp.toOp) = some ys ∧
      AHT.appendAll mh AHT.empty ys = some f.cur ∧
      ∀ n, 1 ≤ n → n ≤ ys.length → AHT.rootAt f.cur n = .ok (mth mh ((ys.take n).map mh.leafH)) := by
  have h := ahtfile_run_cur mh thld fops
  rw [hf, aht_run_eq_survivors] at h
  simp only [Option.map_some] at h
  cases hs : AHT.survivors [] (fops.filterMap AHTFile.FOp.toOp) with
  | none => rw [hs] at h; simp at h
  | some ys =>
    rw [hs] at h
    simp only [Option.bind_some] at h
    exact ⟨ys, rfl, h.symm, fun n h1 h2 => aht_rootAt_eq_mth mh ys f.cur n h.symm h1 h2⟩

end ImmuModel.Merkle
