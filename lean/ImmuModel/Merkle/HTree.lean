/-
Model of embedded/htree/htree.go: `BuildWith` (bottom-up levels), `InclusionProof`.
-/
import ImmuModel.Merkle.Verify

namespace ImmuModel.Merkle
variable {D : Type}

namespace HTree

/-- All levels, bottom first: level 0 = leaf hashes, each next level = `pairUp`. -/
def levelsFrom (mh : MH D) : Nat → List D → List (List D)
  | 0, xs => [xs]
  | fuel+1, xs => if xs.length ≤ 1 then [xs] else xs :: levelsFrom mh fuel (pairUp mh xs)

structure T (D : Type) where
  width : Nat
  levels : List (List D)
  root : D

/-- `BuildWith(digests)` (the maxWidth check is a configuration limit handled by the caller). -/
def build (mh : MH D) (enc : D → Bytes) (ds : List D) : T D :=
  let leaves := ds.map (fun d => mh.leafH (enc d))
  let lv := levelsFrom mh ds.length leaves
  { width := ds.length
    levels := lv
    root := if ds.isEmpty then mh.emptyH
            else match lv.getLast? with
              | some (r :: _) => r
              | _ => mh.emptyH }

/-- The `for { … }` loop of `InclusionProof`; terms are prepended as in Go. -/
def proofLoop (t : T D) : Nat → Nat → Nat → Nat → List D → Option (List D)
  | 0, _, _, _, acc => some acc
  | fuel+1, m, n, offset, acc =>
    let d := if n - 1 = 0 then 0 else Nat.log2 (n - 1) + 1
    let k := 2 ^ (d - 1)
    let (l, r, m', n', offset') :=
      if m < k then (offset + k, offset + n - 1, m, k, offset)
      else (offset, offset + k - 1, m - k, n - k, offset + k)
    let layer := if r - l = 0 then 0 else Nat.log2 (r - l) + 1
    let index := l / 2 ^ layer
    match (t.levels[layer]?).bind (·[index]?) with
    | none => none
    | some term =>
      let acc' := term :: acc
      if n' < 1 ∨ (n' = 1 ∧ m' = 0) then some acc' else proofLoop t fuel m' n' offset' acc'

/-- `InclusionProof(i)`; `none` = ErrIllegalArguments. -/
def inclusionProof (t : T D) (i : Nat) : Option (HProof D) :=
  if i ≥ t.width then none
  else if t.width = 1 then some ⟨i, t.width, []⟩
  else match proofLoop t t.width i t.width 0 [] with
    | some terms => some ⟨i, t.width, terms⟩
    | none => none

end HTree
end ImmuModel.Merkle
