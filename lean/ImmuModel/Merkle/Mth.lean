/-
Reference Merkle tree (RFC 6962 shape with the unbalanced right edge), for an
ARBITRARY hash.  `mth` is the specification C08 refers to.

  mth []      = H("")
  mth [x]     = x                       (x is already a leaf hash  H(0x00 ‖ payload))
  mth xs      = nodeH (mth (take k xs)) (mth (drop k xs)),  k = largest power of two < |xs|

`MH D` packages the three hash shapes actually used by the code
(ahtree.go / htree.go): leafH b = H(LeafPrefix ‖ b), nodeH l r = H(NodePrefix ‖ l ‖ r),
emptyH = H("").  Theorems never assume injectivity: see `Coll`.
-/
import ImmuModel.Base.Bytes

namespace ImmuModel.Merkle

structure MH (D : Type) where
  leafH : Bytes → D
  nodeH : D → D → D
  emptyH : D

variable {D : Type}

/-- An explicit collision among the hash shapes used by the trees.  Every soundness
theorem concludes `Good ∨ Coll mh`; with `nodeH l r = H(0x01‖l‖r)`, `leafH b = H(0x00‖b)`
over fixed-width digests any `Coll` is a collision of `H` (see `Merkle/Concrete.lean`). -/
def Coll (mh : MH D) : Prop :=
  (∃ a b c d, (a, b) ≠ (c, d) ∧ mh.nodeH a b = mh.nodeH c d) ∨
  (∃ x a b, mh.leafH x = mh.nodeH a b) ∨
  (∃ x y, x ≠ y ∧ mh.leafH x = mh.leafH y)

/-- Largest power of two strictly below `n` (for `n ≥ 2`).  Go: `1 << (bits.Len(n-1) - 1)`. -/
def pow2lt (n : Nat) : Nat := 2 ^ Nat.log2 (n - 1)

theorem pow2lt_pos (n : Nat) : 0 < pow2lt n := Nat.pow_pos (by decide)

theorem pow2lt_lt (n : Nat) (h : 2 ≤ n) : pow2lt n < n := by
  unfold pow2lt
  have h1 : n - 1 ≠ 0 := by omega
  have := Nat.log2_self_le h1
  omega

theorem lt_two_pow2lt (n : Nat) (h : 2 ≤ n) : n ≤ 2 * pow2lt n := by
  unfold pow2lt
  have := Nat.lt_log2_self (n := n - 1)
  rw [Nat.pow_succ] at this
  omega

def mth (mh : MH D) : List D → D
  | [] => mh.emptyH
  | [x] => x
  | x :: y :: r =>
    mh.nodeH (mth mh ((x :: y :: r).take (pow2lt (r.length + 2))))
             (mth mh ((x :: y :: r).drop (pow2lt (r.length + 2))))
termination_by xs => xs.length
decreasing_by
  · have := pow2lt_lt (r.length + 2) (by omega)
    simp only [List.length_take, List.length_cons]; omega
  · have := pow2lt_pos (r.length + 2)
    simp only [List.length_drop, List.length_cons]; omega

/-- Bottom-up pairing of one level (htree.BuildWith inner loop): adjacent pairs are
combined, an odd last node is promoted unchanged. -/
def pairUp (mh : MH D) : List D → List D
  | a :: b :: r => mh.nodeH a b :: pairUp mh r
  | [a] => [a]
  | [] => []

theorem pairUp_length (mh : MH D) (xs : List D) : (pairUp mh xs).length = (xs.length + 1) / 2 := by
  fun_induction pairUp mh xs <;> simp_all <;> omega

/-- Root computed level by level (htree.BuildWith outer loop). -/
def buRoot (mh : MH D) : List D → D
  | [] => mh.emptyH
  | [x] => x
  | x :: y :: r => buRoot mh (pairUp mh (x :: y :: r))
termination_by xs => xs.length
decreasing_by
  simp only [pairUp_length, List.length_cons]; omega

end ImmuModel.Merkle
