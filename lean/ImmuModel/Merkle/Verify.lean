/-
Mirrors embedded/ahtree/verification.go and htree.VerifyInclusion, statement by statement.
Indices are `Nat`; the only place where Go's uint64 could wrap (`i-1` at `i = 0`) is
guarded exactly as in Go (`i == 0 → false`) before the subtraction is evaluated.
-/
import ImmuModel.Merkle.Mth

namespace ImmuModel.Merkle
variable {D : Type}

/-- `EvalInclusion` loop body state: (i1, j1, ciRoot). -/
def evalInclAux (mh : MH D) : List D → Nat → Nat → D → D
  | [], _, _, c => c
  | h :: p, i1, j1, c =>
    let c' := if i1 % 2 = 0 ∧ i1 ≠ j1 then mh.nodeH c h else mh.nodeH h c
    evalInclAux mh p (i1 / 2) (j1 / 2) c'

def evalInclusion (mh : MH D) (p : List D) (i j : Nat) (leaf : D) : D :=
  evalInclAux mh p (i - 1) (j - 1) leaf

/-- popcount (`bits.OnesCount64`). -/
def popcount : Nat → Nat
  | 0 => 0
  | n+1 => (n+1) % 2 + popcount ((n+1) / 2)

/-- `inclusionProofLen`'s loop: `for i1 != j1 { i1 >>= 1; j1 >>= 1; l++ }; return l + OnesCount(j1)`. -/
def inclLenAux : Nat → Nat → Nat → Nat
  | 0, _, j1 => popcount j1
  | fuel+1, i1, j1 => if i1 = j1 then popcount j1 else 1 + inclLenAux fuel (i1 / 2) (j1 / 2)

def inclusionProofLen (i j : Nat) : Nat := inclLenAux (j + 1) (i - 1) (j - 1)

def verifyInclusion [DecidableEq D] (mh : MH D) (p : List D) (i j : Nat) (iLeaf jRoot : D) : Bool :=
  if i > j ∨ i = 0 ∨ (i < j ∧ p.length = 0) then false
  else if p.length ≠ inclusionProofLen i j then false
  else jRoot == evalInclusion mh p i j iLeaf

def evalLastInclusion (mh : MH D) (p : List D) (leaf : D) : D :=
  p.foldl (fun r h => mh.nodeH h r) leaf

def verifyLastInclusion [DecidableEq D] (mh : MH D) (p : List D) (i : Nat) (leaf root : D) : Bool :=
  if i = 0 ∨ p.length ≠ popcount (i - 1) then false else root == evalLastInclusion mh p leaf

/-- `for fn%2 == 1 { fn >>= 1; sn >>= 1 }` -/
def stripOnes : Nat → Nat → Nat → Nat × Nat
  | 0, fn, sn => (fn, sn)
  | fuel+1, fn, sn => if fn % 2 = 1 then stripOnes fuel (fn / 2) (sn / 2) else (fn, sn)

/-- `for fn%2 == 0 && fn != 0 { fn >>= 1; sn >>= 1 }` -/
def stripZeros : Nat → Nat → Nat → Nat × Nat
  | 0, fn, sn => (fn, sn)
  | fuel+1, fn, sn => if fn % 2 = 0 ∧ fn ≠ 0 then stripZeros fuel (fn / 2) (sn / 2) else (fn, sn)

/-- The `for _, h := range cproof[1:]` loop of `evalConsistency`; the Boolean is Go's
`complete` flag (no term consumed after `sn` reached 0), conjoined with `sn == 0` at the end. -/
def evalConsAux (mh : MH D) : List D → Nat → Nat → D → D → Bool → D × D × Bool
  | [], _, sn, ci, cj, ok => (ci, cj, ok && sn == 0)
  | h :: p, fn, sn, ci, cj, ok =>
    let ok' := ok && sn != 0
    if fn % 2 = 1 ∨ fn = sn then
      let ci' := mh.nodeH h ci
      let cj' := mh.nodeH h cj
      let (fn', sn') := stripZeros (fn + 1) fn sn
      evalConsAux mh p (fn' / 2) (sn' / 2) ci' cj' ok'
    else
      evalConsAux mh p (fn / 2) (sn / 2) ci (mh.nodeH cj h) ok'

/-- `EvalConsistency`; Go indexes `cproof[0]` unconditionally – callers guarantee
a non-empty proof (VerifyConsistency checks it); `none` models the panic. -/
def evalConsistency (mh : MH D) (p : List D) (i j : Nat) : Option (D × D × Bool) :=
  match p with
  | [] => none
  | h0 :: rest =>
    let (fn, sn) := stripOnes (i + 1) (i - 1) (j - 1)
    some (evalConsAux mh rest fn sn h0 h0 true)

def verifyConsistency [DecidableEq D] (mh : MH D) (p : List D) (i j : Nat) (iRoot jRoot : D) : Bool :=
  if i > j ∨ i = 0 ∨ (i < j ∧ p.length = 0) then false
  else if i = j ∧ p.length = 0 then iRoot == jRoot
  else match evalConsistency mh p i j with
    | none => false   -- unreachable: p is non-empty here
    | some (ci, cj, complete) => (i == j || complete) && iRoot == ci && jRoot == cj

/-- htree.InclusionProof (value, not pointer). `leaf`/`width` are Go `int`s that reach
the verifier from an int32 protobuf field, so they may be zero or negative: the model
keeps them as `Int` with Go's truncating `/` and `%`. -/
structure HProof (D : Type) where
  leaf : Int
  width : Int
  terms : List D

def hEvalAux (mh : MH D) : List D → Int → Int → D → Int × Int × D
  | [], i, r, c => (i, r, c)
  | t :: p, i, r, c =>
    let c' := if Int.tmod i 2 = 0 ∧ i ≠ r then mh.nodeH c t else mh.nodeH t c
    hEvalAux mh p (Int.tdiv i 2) (Int.tdiv r 2) c'

/-- htree.VerifyInclusion (the nil-pointer reject is handled by the caller of the model). -/
def hVerifyInclusion [DecidableEq D] (mh : MH D) (enc : D → Bytes) (p : HProof D) (digest root : D) : Bool :=
  let (i, r, c) := hEvalAux mh p.terms p.leaf (p.width - 1) (mh.leafH (enc digest))
  i == r && root == c

end ImmuModel.Merkle
