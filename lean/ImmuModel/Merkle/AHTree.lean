/-
Model of embedded/ahtree/ahtree.go at the level of its logical logs.

State: `payloads` (pLog entries, leaf n at index n-1) and `groups` (dLog): the digests
written by the append of leaf n, in order – Go stores them flat at offsets
`nodesUntil(n) + l`; the model keeps them grouped by leaf, `node n l = groups[n-1][l]`.
The flat offset arithmetic (`nodesUpto`) is mirrored separately (`nodesUpto`) and tied
by `nodesUpto_eq` to the group sizes.  Files, caches and the commit log are not
modelled (covered by the correspondence run with tiny caches / chunk sizes, and C17).
-/
import ImmuModel.Merkle.Mth

namespace ImmuModel.Merkle
variable {D : Type}

structure AHT (D : Type) where
  payloads : List Bytes
  groups : List (List D)

namespace AHT

def empty : AHT D := ⟨[], []⟩

def size (t : AHT D) : Nat := t.payloads.length

/-- `t.node(n, l)`; `none` = read outside the digest log (never happens on reachable
states for the calls the code makes – part of `Inv`). -/
def node (t : AHT D) (n l : Nat) : Option D :=
  if n = 0 then none else (t.groups[n - 1]?).bind (·[l]?)

/-- The `for w > 0` loop of `Append`: returns the digests to write (after the leaf digest).
`k &^ (1<<l)` clears bit `l` of `k`. -/
def appendLoop (mh : MH D) (t : AHT D) : Nat → Nat → Nat → Nat → D → List D → Option (List D)
  | 0, _, _, _, _, acc => some acc
  | fuel+1, w, l, k, h, acc =>
    if w = 0 then some acc
    else
      let k' := if k / 2 ^ l % 2 = 1 then k - 2 ^ l else k
      if w % 2 = 1 then
        match t.node k l with
        | none => none
        | some hkl =>
          let h' := mh.nodeH hkl h
          appendLoop mh t fuel (w / 2) (l + 1) k' h' (acc ++ [h'])
      else appendLoop mh t fuel (w / 2) (l + 1) k' h acc

/-- `Append(d)`: returns the new tree, the new size and the new root-side digest. -/
def append (mh : MH D) (t : AHT D) (d : Bytes) : Option (AHT D) :=
  let n := t.size + 1
  let h := mh.leafH d
  match appendLoop mh t (n + 1) (n - 1) 0 (n - 1) h [h] with
  | none => none
  | some ds => some ⟨t.payloads ++ [d], t.groups ++ [ds]⟩

def appendAll (mh : MH D) (t : AHT D) : List Bytes → Option (AHT D)
  | [] => some t
  | d :: ds => (append mh t d).bind (appendAll mh · ds)

/-- `ResetSize(newSize)`; `none` = ErrCannotResetToLargerSize. -/
def resetSize (t : AHT D) (m : Nat) : Option (AHT D) :=
  if t.size < m then none else some ⟨t.payloads.take m, t.groups.take m⟩

/-- `levelsAt(n)` = popcount(n-1). -/
def levelsAt (n : Nat) : Nat :=
  let rec go : Nat → Nat → Nat → Nat
    | 0, _, l => l
    | fuel+1, w, l => if w = 0 then l else go fuel (w / 2) (if w % 2 = 1 then l + 1 else l)
  go n (n - 1) 0

/-- `rootAt(n)`: error classes as in Go. -/
inductive Err | illegalArguments | emptyTree | unexistentData | internal
  deriving DecidableEq, Repr

def rootAt (t : AHT D) (n : Nat) : Except Err D :=
  if n = 0 then .error .illegalArguments
  else if t.size = 0 then .error .emptyTree
  else if n > t.size then .error .unexistentData
  else match t.node n (levelsAt n) with
    | some d => .ok d
    | none => .error .internal

/-- `highestNode(i, d)`: l = number of set bits of (i-1) below bit d. -/
def highestNode (t : AHT D) (i d : Nat) : Option D :=
  let l := (List.range d).foldl (fun acc r => if (i - 1) / 2 ^ r % 2 = 1 then acc + 1 else acc) 0
  t.node i l

/-- `inclusionProof(i, j, height)`.  Go recursion on `height` with an inner descending
loop over `h`; here: one structural recursion on `h` carrying the accumulated suffix. -/
def inclusionProof (t : AHT D) (i j : Nat) : Nat → List D → Option (List D)
  | 0, acc => some acc
  | h+1, acc =>
    if (j - 1) / 2 ^ h % 2 = 1 then
      let k := (j - 1) / 2 ^ h * 2 ^ h
      if i ≤ k then
        match t.highestNode j h with
        | none => none
        | some hn =>
          -- proof = inclusionProof(i,k,h) ++ [hNode] ++ acc
          match inclusionProof t i k h [] with
          | none => none
          | some p => some (p ++ hn :: acc)
      else
        match t.node k h with
        | none => none
        | some n => inclusionProof t i j h (n :: acc)
    else inclusionProof t i j h acc

/-- bits.Len64 -/
def bitLen (n : Nat) : Nat := if n = 0 then 0 else Nat.log2 n + 1

def inclusionProofAPI (t : AHT D) (i j : Nat) : Except Err (List D) :=
  if i > j then .error .illegalArguments
  else if j > t.size then .error .unexistentData
  else if i = 0 then .error .illegalArguments  -- Go: does not terminate for i=0 (see DESIGN §9); model refuses
  else match inclusionProof t i j (bitLen (j - 1)) [] with
    | some p => .ok p
    | none => .error .internal

/-- `consistencyProof(i, j, height)`. -/
def consistencyProof (t : AHT D) (i j : Nat) : Nat → List D → Option (List D)
  | 0, acc => some acc
  | h+1, acc =>
    if (j - 1) / 2 ^ h % 2 = 1 then
      let k := (j - 1) / 2 ^ h * 2 ^ h
      if i ≤ k then
        match t.highestNode j h with
        | none => none
        | some hn =>
          let acc1 := hn :: acc
          if i < k then
            match consistencyProof t i k h [] with
            | none => none
            | some p => some (p ++ acc1)
          else -- i = k
            match t.highestNode i h with
            | none => none
            | some hi => some (hi :: acc1)
      else
        match t.node k h with
        | none => none
        | some n =>
          let acc1 := n :: acc
          if i = j then
            match t.highestNode i h with
            | none => none
            | some hi => some (hi :: acc1)
          else consistencyProof t i j h acc1
    else consistencyProof t i j h acc

def consistencyProofAPI (t : AHT D) (i j : Nat) : Except Err (List D) :=
  if i > j then .error .illegalArguments
  else if j > t.size then .error .unexistentData
  else if i = 0 then .error .illegalArguments
  else match consistencyProof t i j (bitLen (j - 1)) [] with
    | some p => .ok p
    | none => .error .internal

def dataAt (t : AHT D) (n : Nat) : Except Err Bytes :=
  if n < 1 then .error .illegalArguments
  else if n > t.size then .error .unexistentData
  else match t.payloads[n - 1]? with
    | some b => .ok b
    | none => .error .internal

/-- Mirror of Go `nodesUpto` (flat dLog offset after `n` leaves). -/
def nodesUpto (n : Nat) : Nat :=
  let rec go : Nat → Nat → Nat → Nat
    | 0, _, o => o
    | fuel+1, l, o =>
      if n < 2 ^ l then o
      else
        let o1 := o + n / 2 ^ (l + 1) * 2 ^ l
        let o2 := if n / 2 ^ l % 2 = 1 then o1 + n % 2 ^ l else o1
        go fuel (l + 1) o2
  go (n + 1) 0 n

end AHT

/-- The tree together with what its commit log durably holds.  `ResetSize` only shrinks the
in-memory sizes: the commit log is rewritten by the next effective `sync` (one with buffered
entries).  Hence close/reopen right after a reset brings the *old* size back – measured on
the real code, and exactly what `OpenWith` computes from the commit-log size. -/
structure AHTFile (D : Type) where
  cur : AHT D
  persisted : AHT D
  bufCount : Nat
  syncThld : Nat

namespace AHTFile
variable {D : Type}

def new (syncThld : Nat) : AHTFile D := ⟨AHT.empty, AHT.empty, 0, syncThld⟩

def sync (f : AHTFile D) : AHTFile D :=
  if f.bufCount = 0 then f else { f with persisted := f.cur, bufCount := 0 }

def append (mh : MH D) (f : AHTFile D) (d : Bytes) : Option (AHTFile D) :=
  match AHT.append mh f.cur d with
  | none => none
  | some t =>
    let f' := { f with cur := t, bufCount := f.bufCount + 1 }
    some (if f'.bufCount = f'.syncThld then f'.sync else f')

def resetSize (f : AHTFile D) (m : Nat) : Option (AHTFile D) :=
  if f.cur.size < m then none
  else if f.cur.size = m then some f
  else
    let f' := f.sync
    match AHT.resetSize f'.cur m with
    | none => none
    | some t => some { f' with cur := t }

/-- Close (which syncs) followed by Open with a possibly different sync threshold. -/
def reopen (f : AHTFile D) (syncThld : Nat) : AHTFile D :=
  let f' := f.sync
  ⟨f'.persisted, f'.persisted, 0, syncThld⟩

/-! Operations that RETURN AN ERROR because a call on one of the underlying logs failed (fsync / flush /
write / set-offset / read error).  Mirrors of the error paths of the Go code:

* `Append`: every `return` on an error lies before the three size updates at the end of the function
  (`pLogSize`, `dLogSize`, `cLogSize` += …); the only other field touched on the failing path,
  `cLogBufCount`, is decremented again when the threshold-triggered `sync()` fails.  `latestSyncedNode`
  is advanced only at the very end of a successful `sync()`.  So a failed `Append` is the identity on
  this model's state (bytes written beyond `pLogSize`/`dLogSize` are overwritten by the next `Append`,
  which starts with `SetOffset` – below the abstraction of this model).
* `Sync`: `latestSyncedNode`/`cLogBufCount` change only on success: identity.
* `ResetSize`: fails either in its own `sync()` (identity) or afterwards (`cLog.ReadAt`, `pLog.Size`,
  `dLog.Size`, corrupted-size checks), all before the sizes are assigned: the tree is unchanged, the
  buffered entries have been synced (`synced = true`). -/
def appendFail (f : AHTFile D) (_d : Bytes) : AHTFile D := f

def syncFail (f : AHTFile D) : AHTFile D := f

def resetFail (f : AHTFile D) (_m : Nat) (synced : Bool) : AHTFile D :=
  if synced then f.sync else f

end AHTFile

/-! ### Histories with failing operations

`AHT.Op` is one step of a tree's life as its caller sees it; `AHT.run` executes a history on the tree
model, `AHT.survivors` on the abstract list of leaves (the specification: a failed operation leaves the
list as it was, a reset keeps a prefix). -/
namespace AHT
variable {D : Type}

inductive Op
  | append (d : Bytes)
  | appendFail (d : Bytes)
  | reset (m : Nat)
  | resetFail (m : Nat)
  | syncFail
  deriving Repr

/-- one step on the tree model; `none` = the model's append is stuck (never: `aht_history`) or the reset
is refused (`ErrCannotResetToLargerSize`). -/
def stepOp (mh : MH D) (t : AHT D) : Op → Option (AHT D)
  | .append d => append mh t d
  | .appendFail _ => some t
  | .reset m => resetSize t m
  | .resetFail _ => some t
  | .syncFail => some t

def run (mh : MH D) (t : AHT D) : List Op → Option (AHT D)
  | [] => some t
  | o :: os => (stepOp mh t o).bind (run mh · os)

/-- the same step on the abstract list of successfully appended, not rolled-back payloads -/
def survStep (xs : List Bytes) : Op → Option (List Bytes)
  | .append d => some (xs ++ [d])
  | .appendFail _ => some xs
  | .reset m => if xs.length < m then none else some (xs.take m)
  | .resetFail _ => some xs
  | .syncFail => some xs

def survivors (xs : List Bytes) : List Op → Option (List Bytes)
  | [] => some xs
  | o :: os => (survStep xs o).bind (survivors · os)

end AHT

/-- The file-level operations (what the driver executes), with the projection to `AHT.Op`. -/
inductive AHTFile.FOp
  | append (d : Bytes)
  | appendFail (d : Bytes)
  | reset (m : Nat)
  | resetFail (m : Nat) (synced : Bool)
  | sync
  | syncFail

namespace AHTFile
variable {D : Type}

def stepF (mh : MH D) (f : AHTFile D) : FOp → Option (AHTFile D)
  | .append d => f.append mh d
  | .appendFail d => some (f.appendFail d)
  | .reset m => f.resetSize m
  | .resetFail m s => some (f.resetFail m s)
  | .sync => some f.sync
  | .syncFail => some f.syncFail

def runF (mh : MH D) (f : AHTFile D) : List FOp → Option (AHTFile D)
  | [] => some f
  | o :: os => (stepF mh f o).bind (runF mh · os)

/-- what the operation is for the tree itself (`sync` does not touch it) -/
def FOp.toOp : FOp → Option AHT.Op
  | .append d => some (.append d)
  | .appendFail d => some (.appendFail d)
  | .reset m => some (.reset m)
  | .resetFail m _ => some (.resetFail m)
  | .sync => none
  | .syncFail => some .syncFail

end AHTFile
end ImmuModel.Merkle
