/-
Concrete instance used by the executable driver: digests are byte strings, the hash is
the Lean SHA-256 (validated against crypto/sha256 on every run).  Prefix bytes come from
the REGENERATED `Gen/Consts.lean`.
-/
import ImmuModel.Merkle.Mth
import ImmuModel.Base.Sha256
import ImmuModel.Gen.Consts

namespace ImmuModel.Merkle

/-- ahtree instance (ahtree.LeafPrefix / ahtree.NodePrefix). -/
def shaMH : MH Bytes where
  leafH b := Sha256.sum (UInt8.ofNat Gen.ahtreeLeafPrefix :: b)
  nodeH l r := Sha256.sum (UInt8.ofNat Gen.ahtreeNodePrefix :: (l ++ r))
  emptyH := Sha256.sum []

/-- htree instance (htree.LeafPrefix / htree.NodePrefix). -/
def shaMHh : MH Bytes where
  leafH b := Sha256.sum (UInt8.ofNat Gen.htreeLeafPrefix :: b)
  nodeH l r := Sha256.sum (UInt8.ofNat Gen.htreeNodePrefix :: (l ++ r))
  emptyH := Sha256.sum []

end ImmuModel.Merkle
