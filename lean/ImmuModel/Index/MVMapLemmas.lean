/-
C10 — lemmas about the specification `MVMap` (proof file; the property theorems are in Props/C10.lean).
-/
import ImmuModel.Index.MVMap
namespace ImmuModel.Index
open ImmuModel

theorem bcmp_refl (a : Bytes) : bcmp a a = .eq := by
  induction a with
  | nil => rfl
  | cons x xs ih => simp [bcmp, ih, UInt8.lt_irrefl]

theorem bcmp_eq_iff (a b : Bytes) : bcmp a b = .eq ↔ a = b := by
  constructor
  · induction a generalizing b with
    | nil => cases b <;> simp [bcmp]
    | cons x xs ih =>
      cases b with
      | nil => simp [bcmp]
      | cons y ys =>
        simp only [bcmp]
        split
        · simp
        · split
          · simp
          · intro h
            have : x = y := by
              rename_i h1 h2
              exact UInt8.le_antisymm (UInt8.not_lt.mp h2) (UInt8.not_lt.mp h1)
            rw [this, ih ys h]
  · intro h; rw [h]; exact bcmp_refl b

theorem bcmp_swap (a b : Bytes) : bcmp a b = .lt ↔ bcmp b a = .gt := by
  induction a generalizing b with
  | nil => cases b <;> simp [bcmp]
  | cons x xs ih =>
    cases b with
    | nil => simp [bcmp]
    | cons y ys =>
      simp only [bcmp]
      by_cases h1 : x < y
      · have h2 : ¬ y < x := UInt8.lt_asymm h1
        simp [h1, h2]
      · by_cases h2 : y < x
        · simp [h1, h2]
        · simp [h1, h2, ih]

theorem bcmp_lt_trans {a b c : Bytes} (h1 : bcmp a b = .lt) (h2 : bcmp b c = .lt) : bcmp a c = .lt := by
  induction a generalizing b c with
  | nil =>
    cases c with
    | nil => cases b <;> simp [bcmp] at h1 h2
    | cons z zs => simp [bcmp]
  | cons x xs ih =>
    cases b with
    | nil => simp [bcmp] at h1
    | cons y ys =>
      cases c with
      | nil => simp [bcmp] at h2
      | cons z zs =>
        simp only [bcmp] at h1 h2 ⊢
        by_cases hxy : x < y
        · by_cases hyz : y < z
          · simp [UInt8.lt_trans hxy hyz]
          · by_cases hzy : z < y
            · simp [hyz, hzy] at h2
            · have : y = z := UInt8.le_antisymm (UInt8.not_lt.mp hzy) (UInt8.not_lt.mp hyz)
              subst this; simp [hxy]
        · by_cases hyx : y < x
          · simp [hxy, hyx] at h1
          · have : x = y := UInt8.le_antisymm (UInt8.not_lt.mp hyx) (UInt8.not_lt.mp hxy)
            subst this
            simp only [hxy, if_false] at h1
            by_cases hxz : x < z
            · simp [hxz]
            · by_cases hzx : z < x
              · simp [hxz, hzx] at h2
              · simp only [hxz, hzx, if_false] at h2 ⊢
                exact ih h1 h2

theorem bcmp_gt_iff (a b : Bytes) : bcmp a b = .gt ↔ bcmp b a = .lt := (bcmp_swap b a).symm
theorem bcmp_lt_irrefl (a : Bytes) : bcmp a a ≠ .lt := by rw [bcmp_refl]; simp

namespace MVMap

def Sorted (es : List Entry) : Prop := es.Pairwise (fun a b => bcmp a.key b.key = .lt)

def VersionsDec (es : List Entry) : Prop := ∀ e ∈ es, e.versions.Pairwise (fun a b => a.ts > b.ts)

/-- The entry `insert` leaves for key `k` given what was there before. -/
def upd (k v : Bytes) (t : Nat) : Option Entry → Entry
  | none => { key := k, cur := ⟨v, t⟩ }
  | some e => if e.cur.ts < t then { e with cur := ⟨v, t⟩, inNode := e.cur :: e.inNode } else e

theorem insertEntries_mem {k v : Bytes} {t : Nat} {es r : List Entry}
    (h : insertEntries k v t es = .ok r) : ∀ x ∈ r, x.key = k ∨ x ∈ es := by
  induction es generalizing r with
  | nil =>
    simp [insertEntries] at h; subst h; intro x hx; simp at hx; subst hx; simp
  | cons e rest ih =>
    unfold insertEntries at h
    split at h
    · simp at h; subst h
      intro x hx
      simp at hx
      rcases hx with rfl | rfl | hx
      · simp
      · simp
      · right; simp [hx]
    · rename_i heq
      have hk : k = e.key := (bcmp_eq_iff _ _).mp heq
      split at h
      · simp at h
      · split at h
        · simp at h; subst h
          intro x hx
          simp at hx
          rcases hx with rfl | hx
          · left; simp [hk]
          · right; simp [hx]
        · simp at h; subst h; intro x hx; right; exact hx
    · split at h
      · rename_i r' hr'
        simp at h; subst h
        intro x hx
        simp at hx
        rcases hx with rfl | hx
        · right; simp
        · rcases ih hr' x hx with h1 | h1
          · left; exact h1
          · right; simp [h1]
      · simp at h

theorem insertEntries_sorted {k v : Bytes} {t : Nat} {es r : List Entry}
    (hs : Sorted es) (h : insertEntries k v t es = .ok r) : Sorted r := by
  induction es generalizing r with
  | nil => simp [insertEntries] at h; subst h; simp [Sorted]
  | cons e rest ih =>
    have hs' := List.pairwise_cons.mp hs
    unfold insertEntries at h
    split at h
    · rename_i hlt
      simp at h; subst h
      refine List.pairwise_cons.mpr ⟨?_, hs⟩
      intro y hy
      simp at hy
      rcases hy with rfl | hy
      · exact hlt
      · exact bcmp_lt_trans hlt (hs'.1 y hy)
    · split at h
      · simp at h
      · split at h
        · simp at h; subst h
          exact List.pairwise_cons.mpr ⟨fun y hy => hs'.1 y hy, hs'.2⟩
        · simp at h; subst h; exact hs
    · rename_i hgt
      split at h
      · rename_i r' hr'
        simp at h; subst h
        refine List.pairwise_cons.mpr ⟨?_, ih hs'.2 hr'⟩
        intro y hy
        rcases insertEntries_mem hr' y hy with h1 | h1
        · rw [h1]; exact (bcmp_gt_iff _ _).mp hgt
        · exact hs'.1 y h1
      · simp at h



def findE (k : Bytes) (es : List Entry) : Option Entry := es.find? (fun e => decide (e.key = k))

theorem findE_none_of_lt {k : Bytes} {es : List Entry} (h : ∀ y ∈ es, bcmp k y.key = .lt) : findE k es = none := by
  unfold findE
  rw [List.find?_eq_none]
  intro y hy
  simp
  intro heq
  have := h y hy
  rw [heq, bcmp_refl] at this
  simp at this

theorem insertEntries_find_self {k v : Bytes} {t : Nat} {es r : List Entry}
    (hs : Sorted es) (h : insertEntries k v t es = .ok r) :
    findE k r = some (upd k v t (findE k es)) := by
  induction es generalizing r with
  | nil => simp [insertEntries] at h; subst h; simp [findE, upd]
  | cons e rest ih =>
    have hs' := List.pairwise_cons.mp hs
    unfold insertEntries at h
    split at h
    · rename_i hlt
      simp at h; subst h
      have hnone : findE k (e :: rest) = none := by
        apply findE_none_of_lt
        intro y hy
        simp at hy
        rcases hy with rfl | hy
        · exact hlt
        · exact bcmp_lt_trans hlt (hs'.1 y hy)
      rw [hnone]
      simp [findE, upd]
    · rename_i heq
      have hk : k = e.key := (bcmp_eq_iff _ _).mp heq
      have hfe : findE k (e :: rest) = some e := by simp [findE, hk]
      rw [hfe]
      split at h
      · simp at h
      · split at h
        · rename_i hlt
          simp at h; subst h
          simp [findE, upd, hlt, hk]
        · rename_i hnlt
          simp at h; subst h
          simp [upd, hnlt, hfe]
    · rename_i hgt
      have hne : e.key ≠ k := by
        intro he
        rw [← he, bcmp_refl] at hgt
        simp at hgt
      split at h
      · rename_i r' hr'
        simp at h; subst h
        have := ih hs'.2 hr'
        simp only [findE] at this ⊢
        rw [List.find?_cons_of_neg (by simpa using hne), List.find?_cons_of_neg (by simpa using hne)]
        exact this
      · simp at h

theorem insertEntries_find_other {k v k' : Bytes} {t : Nat} {es r : List Entry}
    (hne : k' ≠ k) (h : insertEntries k v t es = .ok r) : findE k' r = findE k' es := by
  induction es generalizing r with
  | nil => simp [insertEntries] at h; subst h; simp [findE, Ne.symm hne]
  | cons e rest ih =>
    unfold insertEntries at h
    split at h
    · simp at h; subst h
      simp only [findE]
      rw [List.find?_cons_of_neg (by simpa using Ne.symm hne)]
    · rename_i heq
      have hk : k = e.key := (bcmp_eq_iff _ _).mp heq
      split at h
      · simp at h
      · split at h
        · simp at h; subst h
          have hne' : ¬ e.key = k' := by rw [← hk]; exact Ne.symm hne
          simp only [findE]
          rw [List.find?_cons_of_neg (by simpa using hne'), List.find?_cons_of_neg (by simpa using hne')]
        · simp at h; subst h; rfl
    · split at h
      · rename_i r' hr'
        simp at h; subst h
        have := ih hr'
        simp only [findE] at this ⊢
        by_cases hek : e.key = k'
        · rw [List.find?_cons_of_pos (by simpa using hek), List.find?_cons_of_pos (by simpa using hek)]
        · rw [List.find?_cons_of_neg (by simpa using hek), List.find?_cons_of_neg (by simpa using hek)]
          exact this
      · simp at h



theorem versionsDec_push {e : Entry} {v : Bytes} {t : Nat} (hd : e.versions.Pairwise (fun a b => a.ts > b.ts))
    (hlt : e.cur.ts < t) :
    ({ e with cur := ⟨v, t⟩, inNode := e.cur :: e.inNode } : Entry).versions.Pairwise (fun a b => a.ts > b.ts) := by
  have : ({ e with cur := ⟨v, t⟩, inNode := e.cur :: e.inNode } : Entry).versions = ⟨v, t⟩ :: e.versions := by
    simp [Entry.versions, Entry.older]
  rw [this]
  refine List.pairwise_cons.mpr ⟨?_, hd⟩
  intro y hy
  simp only [Entry.versions, List.mem_cons] at hy
  rcases hy with rfl | hy
  · exact hlt
  · have := (List.pairwise_cons.mp hd).1 y hy
    simp at this ⊢
    omega

theorem insertEntries_versionsDec {k v : Bytes} {t : Nat} {es r : List Entry}
    (hd : VersionsDec es) (h : insertEntries k v t es = .ok r) : VersionsDec r := by
  induction es generalizing r with
  | nil =>
    simp [insertEntries] at h; subst h
    intro e he; simp at he; subst he; simp [Entry.versions, Entry.older]
  | cons e rest ih =>
    have hde : e.versions.Pairwise (fun a b => a.ts > b.ts) := hd e (by simp)
    have hdr : VersionsDec rest := fun x hx => hd x (by simp [hx])
    unfold insertEntries at h
    split at h
    · simp at h; subst h
      intro x hx
      simp at hx
      rcases hx with rfl | rfl | hx
      · simp [Entry.versions, Entry.older]
      · exact hde
      · exact hdr x hx
    · split at h
      · simp at h
      · split at h
        · rename_i hlt
          simp at h; subst h
          intro x hx
          simp at hx
          rcases hx with rfl | hx
          · exact versionsDec_push hde hlt
          · exact hdr x hx
        · simp at h; subst h; exact hd
    · split at h
      · rename_i r' hr'
        simp at h; subst h
        intro x hx
        simp at hx
        rcases hx with rfl | hx
        · exact hde
        · exact ih hdr hr' x hx
      · simp at h

/-! ### history -/

theorem historyOf_spec (vs : List TV) (off : Nat) (desc : Bool) (limit : Nat) (rows : List TV) (n : Nat)
    (h : historyOf vs off desc limit = .ok (rows, n)) :
    n = vs.length ∧ off < vs.length ∧
    rows = (((if desc then vs else vs.reverse).drop off).take limit) := by
  unfold historyOf at h
  simp only at h
  split at h
  · simp at h
  · split at h
    · simp at h
    · rename_i h1 h2
      have hoff : off < vs.length := by omega
      by_cases hd : desc = true
      · simp only [hd, if_true] at h ⊢
        simp only [Except.ok.injEq, Prod.mk.injEq] at h
        obtain ⟨hr, hn⟩ := h
        refine ⟨hn.symm, hoff, ?_⟩
        rw [← hr]
        split
        · rw [List.take_of_length_le (by simp), List.take_of_length_le (by simp; omega)]
        · rfl
      · simp only [hd] at h ⊢
        simp only [Except.ok.injEq, Prod.mk.injEq, Bool.false_eq_true, if_false] at h ⊢
        obtain ⟨hr, hn⟩ := h
        refine ⟨hn.symm, hoff, ?_⟩
        rw [← hr]
        -- window arithmetic
        generalize hlen : (if limit > vs.length - off then vs.length - off else limit) = len
        have hlen_le : len ≤ vs.length - off := by
          rw [← hlen]; split <;> omega
        have htake : ((vs.reverse.drop off).take limit) = ((vs.reverse.drop off).take len) := by
          rw [← hlen]
          split
          · rw [List.take_of_length_le (by simp; omega), List.take_of_length_le (by simp)]
          · rfl
        rw [htake, List.drop_reverse, List.take_reverse]
        congr 1
        simp only [List.length_take]
        have : min (vs.length - off) vs.length = vs.length - off := by omega
        rw [this, List.drop_take]
        congr 1
        omega



/-! ### readers -/

/-- travel order of a reader -/
def Travel (desc : Bool) (L : List Entry) : Prop :=
  L.Pairwise (fun a b => if desc then bcmp b.key a.key = .lt else bcmp a.key b.key = .lt)

/-- entries before the reader's start position -/
def beforeStart (r : ReaderSpec) (e : Entry) : Bool :=
  if r.descOrder then bcmp e.key r.seekKey == .gt else bcmp r.seekKey e.key == .gt

/-- the key-level filter of `scanLoop` as one predicate -/
def keep (r : ReaderSpec) (e : Entry) : Bool :=
  !(!r.inclusiveSeek && decide (r.seekKey = e.key)) && !endHit r e.key && !(!r.pfx.isEmpty && !hasPrefix r.pfx e.key)

theorem endHit_mono {r : ReaderSpec} {a b : Entry}
    (hab : if r.descOrder then bcmp b.key a.key = .lt else bcmp a.key b.key = .lt)
    (h : endHit r a.key = true) : endHit r b.key = true := by
  unfold endHit at h ⊢
  by_cases he : r.endKey.isEmpty = true
  · simp [he] at h
  · simp only [he] at h ⊢
    by_cases hd : r.descOrder = true
    · simp only [hd, if_true] at hab
      -- b < a ≤ end-ish
      cases hc : bcmp r.endKey a.key with
      | lt => simp [hc, hd] at h
      | gt =>
        have h1 : bcmp a.key r.endKey = .lt := (bcmp_gt_iff _ _).mp hc
        have h2 : bcmp b.key r.endKey = .lt := bcmp_lt_trans hab h1
        have h3 : bcmp r.endKey b.key = .gt := (bcmp_swap _ _).mp h2
        simp [h3, hd]
      | eq =>
        have h1 : r.endKey = a.key := (bcmp_eq_iff _ _).mp hc
        have h3 : bcmp r.endKey b.key = .gt := by rw [h1]; exact (bcmp_swap _ _).mp hab
        simp [h3, hd]
    · simp only [hd] at hab
      simp only [Bool.false_eq_true, if_false] at hab
      cases hc : bcmp r.endKey a.key with
      | gt => simp [hc, hd] at h
      | lt =>
        have h2 : bcmp r.endKey b.key = .lt := bcmp_lt_trans hc hab
        simp [h2, hd]
      | eq =>
        have h1 : r.endKey = a.key := (bcmp_eq_iff _ _).mp hc
        have h3 : bcmp r.endKey b.key = .lt := by rw [h1]; exact hab
        simp [h3, hd]

theorem scanLoop_eq (r : ReaderSpec) (L : List Entry) (sk : Nat) (ht : Travel r.descOrder L) (hsk : sk ≤ r.offset) :
    scanLoop r L sk = (L.filter (keep r)).drop (r.offset - sk) := by
  induction L generalizing sk with
  | nil => simp [scanLoop]
  | cons e es ih =>
    have ht' := List.pairwise_cons.mp ht
    unfold scanLoop
    by_cases h1 : (!r.inclusiveSeek && decide (r.seekKey = e.key)) = true
    · rw [if_pos h1, ih sk ht'.2 hsk]
      have : keep r e = false := by simp [keep, h1]
      rw [List.filter_cons_of_neg (by simp [this])]
    · rw [if_neg h1]
      by_cases h2 : endHit r e.key = true
      · rw [if_pos h2]
        have hall : ∀ y ∈ e :: es, ¬ keep r y = true := by
          intro y hy
          simp at hy
          rcases hy with rfl | hy
          · simp [keep, h2]
          · have := endHit_mono (ht'.1 y hy) h2
            simp [keep, this]
        rw [List.filter_eq_nil_iff.mpr hall]
        simp
      · rw [if_neg h2]
        by_cases h3 : (!r.pfx.isEmpty && !hasPrefix r.pfx e.key) = true
        · rw [if_pos h3, ih sk ht'.2 hsk]
          have : keep r e = false := by simp [keep, h3]
          rw [List.filter_cons_of_neg (by simp [this])]
        · rw [if_neg h3]
          have hk : keep r e = true := by
            simp only [keep]
            simp only [Bool.not_eq_true] at h1 h2 h3
            simp [h1, h2, h3]
          rw [List.filter_cons_of_pos hk]
          by_cases h4 : sk < r.offset
          · rw [if_pos h4, ih (sk + 1) ht'.2 (by omega)]
            have : r.offset - sk = (r.offset - (sk + 1)) + 1 := by omega
            rw [this, List.drop_succ_cons]
          · rw [if_neg h4, ih sk ht'.2 hsk]
            have : r.offset - sk = 0 := by omega
            rw [this]; simp

theorem beforeStart_closed {r : ReaderSpec} {a b : Entry}
    (hab : if r.descOrder then bcmp b.key a.key = .lt else bcmp a.key b.key = .lt)
    (h : beforeStart r a = false) : beforeStart r b = false := by
  unfold beforeStart at h ⊢
  by_cases hd : r.descOrder = true
  · simp only [hd, if_true] at hab h ⊢
    -- b < a, a ≤ seek  ⇒  b ≤ seek
    cases hc : bcmp b.key r.seekKey with
    | lt => simp
    | eq => simp
    | gt =>
      exfalso
      have h1 : bcmp r.seekKey b.key = .lt := (bcmp_gt_iff _ _).mp hc
      have h2 : bcmp r.seekKey a.key = .lt := bcmp_lt_trans h1 hab
      have h3 : bcmp a.key r.seekKey = .gt := (bcmp_swap _ _).mp h2
      simp [h3] at h
  · simp only [hd] at hab h ⊢
    simp only [Bool.false_eq_true, if_false] at hab h ⊢
    cases hc : bcmp r.seekKey b.key with
    | lt => simp
    | eq => simp
    | gt =>
      exfalso
      have h1 : bcmp b.key r.seekKey = .lt := (bcmp_gt_iff _ _).mp hc
      have h2 : bcmp a.key r.seekKey = .lt := bcmp_lt_trans hab h1
      have h3 : bcmp r.seekKey a.key = .gt := (bcmp_swap _ _).mp h2
      simp [h3] at h

theorem dropWhile_filter (r : ReaderSpec) (q : Entry → Bool) (L : List Entry) (ht : Travel r.descOrder L) :
    (L.dropWhile (beforeStart r)).filter q = L.filter (fun e => !beforeStart r e && q e) := by
  induction L with
  | nil => simp
  | cons e es ih =>
    have ht' := List.pairwise_cons.mp ht
    by_cases hb : beforeStart r e = true
    · rw [List.dropWhile_cons_of_pos hb, ih ht'.2, List.filter_cons_of_neg (by simp [hb])]
    · rw [List.dropWhile_cons_of_neg hb]
      apply List.filter_congr
      intro y hy
      have hby : beforeStart r y = false := by
        simp at hy
        rcases hy with rfl | hy
        · simpa using hb
        · exact beforeStart_closed (ht'.1 y hy) (by simpa using hb)
      simp [hby]

theorem travel_of_sorted {es : List Entry} (hs : Sorted es) (desc : Bool) :
    Travel desc (if desc then es.reverse else es) := by
  cases desc with
  | false => simpa [Travel, Sorted] using hs
  | true =>
    simp only [Travel, if_true]
    rw [List.pairwise_reverse]
    exact hs

theorem travel_dropWhile {desc : Bool} {L : List Entry} (p : Entry → Bool) (h : Travel desc L) : Travel desc (L.dropWhile p) :=
  List.Pairwise.sublist (List.dropWhile_sublist p) h

theorem startList_eq (r : ReaderSpec) (es : List Entry) :
    startList r es = (if r.descOrder then es.reverse else es).dropWhile (beforeStart r) := by
  unfold startList beforeStart
  by_cases hd : r.descOrder = true
  · simp [hd]
  · simp [hd]

theorem selected_eq (m : MVMap) (r : ReaderSpec) (hs : Sorted m.entries) :
    selected m r = (((if r.descOrder then m.entries.reverse else m.entries).filter
        (fun e => !beforeStart r e && keep r e))).drop r.offset := by
  unfold selected
  have ht := travel_of_sorted hs r.descOrder
  rw [startList_eq, scanLoop_eq r _ 0 (travel_dropWhile _ ht) (Nat.zero_le _), dropWhile_filter r _ _ ht]
  simp



/-! ### declarative range predicate -/

def seekOK (r : ReaderSpec) (k : Bytes) : Bool :=
  (if r.descOrder then bcmp k r.seekKey == .lt else bcmp r.seekKey k == .lt) || (r.inclusiveSeek && decide (k = r.seekKey))

def endOK (r : ReaderSpec) (k : Bytes) : Bool :=
  r.endKey.isEmpty || (if r.descOrder then bcmp r.endKey k == .lt else bcmp k r.endKey == .lt) ||
    (r.inclusiveEnd && decide (k = r.endKey))

/-- The keys a reader (already adjusted by `newReader`) must return. -/
def inRange (r : ReaderSpec) (e : Entry) : Bool := seekOK r e.key && endOK r e.key && hasPrefix r.pfx e.key

theorem hasPrefix_nil (k : Bytes) : hasPrefix [] k = true := by cases k <;> rfl

theorem keep_beforeStart_eq_inRange (r : ReaderSpec) (e : Entry) :
    (!beforeStart r e && keep r e) = inRange r e := by
  have hpfx : (!(!r.pfx.isEmpty && !hasPrefix r.pfx e.key)) = hasPrefix r.pfx e.key := by
    cases hp : r.pfx with
    | nil => simp [hasPrefix_nil]
    | cons a as => simp
  have hseek : (!beforeStart r e && !(!r.inclusiveSeek && decide (r.seekKey = e.key))) = seekOK r e.key := by
    unfold beforeStart seekOK
    by_cases hd : r.descOrder = true
    · simp only [hd, if_true]
      cases hc : bcmp e.key r.seekKey with
      | lt =>
        have hne : r.seekKey ≠ e.key := by
          intro h; rw [h, bcmp_refl] at hc; simp at hc
        simp [hne]
      | eq =>
        have : e.key = r.seekKey := (bcmp_eq_iff _ _).mp hc
        simp [this]
      | gt => 
        have hne : e.key ≠ r.seekKey := by
          intro h; rw [h, bcmp_refl] at hc; simp at hc
        simp [hne]
    · simp only [hd]
      simp only [Bool.false_eq_true, if_false]
      cases hc : bcmp r.seekKey e.key with
      | lt =>
        have hne : r.seekKey ≠ e.key := by
          intro h; rw [h, bcmp_refl] at hc; simp at hc
        simp [hne]
      | eq =>
        have : r.seekKey = e.key := (bcmp_eq_iff _ _).mp hc
        simp [this]
      | gt =>
        have hne : e.key ≠ r.seekKey := by
          intro h; rw [h, bcmp_refl] at hc; simp at hc
        simp [hne]
  have hend : (!endHit r e.key) = endOK r e.key := by
    unfold endHit endOK
    by_cases he : r.endKey.isEmpty = true
    · simp [he]
    · simp only [he]
      by_cases hd : r.descOrder = true
      · simp only [hd, if_true]
        cases hc : bcmp r.endKey e.key with
        | lt => simp
        | eq =>
          have : r.endKey = e.key := (bcmp_eq_iff _ _).mp hc
          simp [this]
        | gt =>
          have hne : e.key ≠ r.endKey := by
            intro h; rw [h, bcmp_refl] at hc; simp at hc
          simp [hne]
      · simp only [hd]
        simp only [Bool.false_eq_true, if_false]
        cases hc : bcmp r.endKey e.key with
        | lt =>
          have h2 : bcmp e.key r.endKey = .gt := (bcmp_swap _ _).mp hc
          have hne : e.key ≠ r.endKey := by
            intro h; rw [h, bcmp_refl] at hc; simp at hc
          simp [h2, hne]
        | eq =>
          have : r.endKey = e.key := (bcmp_eq_iff _ _).mp hc
          simp [this, bcmp_refl]
        | gt =>
          have h2 : bcmp e.key r.endKey = .lt := (bcmp_gt_iff _ _).mp hc
          simp [h2]
  unfold keep inRange
  rw [← hseek, ← hend, ← hpfx]
  cases beforeStart r e <;> cases (!r.inclusiveSeek && decide (r.seekKey = e.key)) <;> simp



/-! ### getBetween -/

theorem betweenBlock_append (t1 t2 n : Nat) (b1 b2 : List TV) (sk : Nat) :
    betweenBlock t1 t2 n (b1 ++ b2) sk =
      match betweenBlock t1 t2 n b1 sk with
      | .inl r => .inl r
      | .inr sk' => betweenBlock t1 t2 n b2 sk' := by
  induction b1 generalizing sk with
  | nil => simp [betweenBlock]
  | cons tv rest ih =>
    simp only [List.cons_append, betweenBlock]
    split
    · rfl
    · split
      · rfl
      · exact ih (sk + 1)

/-- The chain loop consumes the key's blocks one after the other: it is the block loop over their
concatenation, and it ends with "key not found" when no version of the chain decides. -/
theorem betweenChain_flatten (t1 t2 n : Nat) (blocks : List (List TV)) (sk : Nat) :
    betweenChain t1 t2 n blocks sk =
      match betweenBlock t1 t2 n blocks.flatten sk with
      | .inl r => r
      | .inr _ => .error .keyNotFound := by
  induction blocks generalizing sk with
  | nil => simp [betweenChain, betweenBlock]
  | cons b bs ih =>
    simp only [betweenChain, List.flatten_cons]
    rw [betweenBlock_append]
    cases hb : betweenBlock t1 t2 n b sk with
    | inl r => rfl
    | inr sk' =>
      simp only
      exact ih sk'

/-- The history-log part agrees with the specification. -/
theorem betweenBlock_spec (t1 t2 n : Nat) (ht2 : t2 ≠ 0) (ys : List TV) (sk : Nat)
    (hsk : sk + ys.length = n) :
    (∀ r, betweenBlock t1 t2 n ys sk = .inl r → betweenAux t1 t2 ys = r) ∧
    (∀ sk', betweenBlock t1 t2 n ys sk = .inr sk' →
        betweenAux t1 t2 ys = .error .keyNotFound ∧ sk' = n ∧ ∀ tv ∈ ys, ¬ tv.ts < t1 ∧ ¬ tv.ts ≤ t2) := by
  induction ys generalizing sk with
  | nil =>
    constructor
    · intro r h; simp [betweenBlock] at h
    · intro sk' h
      simp [betweenBlock] at h
      simp at hsk
      simp [betweenAux]; omega
  | cons tv rest ih =>
    simp only [List.length_cons] at hsk
    have ih' := ih (sk + 1) (by omega)
    constructor
    · intro r h
      simp only [betweenBlock] at h
      simp only [betweenAux]
      split at h
      · rename_i h1; simp [h1] at h ⊢; exact h
      · rename_i h1
        split at h
        · rename_i h2
          simp only [h1, if_false, h2, or_true, if_true]
          simp at h
          rw [← h]
          have : n - sk = rest.length + 1 := by omega
          rw [this]
        · rename_i h2
          have : ¬ (t2 = 0 ∨ tv.ts ≤ t2) := by simp [ht2, h2]
          simp only [h1, if_false, this]
          exact ih'.1 r h
    · intro sk' h
      simp only [betweenBlock] at h
      split at h
      · simp at h
      · rename_i h1
        split at h
        · simp at h
        · rename_i h2
          have hno : ¬ (t2 = 0 ∨ tv.ts ≤ t2) := by simp [ht2, h2]
          obtain ⟨ha, hb, hc⟩ := ih'.2 sk' h
          refine ⟨?_, hb, ?_⟩
          · simp only [betweenAux, h1, if_false, hno]; exact ha
          · intro x hx
            simp at hx
            rcases hx with rfl | hx
            · exact ⟨h1, h2⟩
            · exact hc x hx

theorem betweenInNode_spec (t1 t2 hcount : Nat) (xs ys : List TV) (i : Nat) (hi : i + (xs ++ ys).length = hcount) :
    (∀ r, betweenInNode t1 t2 hcount xs i = some r → betweenAux t1 t2 (xs ++ ys) = r) ∧
    (betweenInNode t1 t2 hcount xs i = none →
        betweenAux t1 t2 (xs ++ ys) = betweenAux t1 t2 ys ∧ (xs ≠ [] → t2 ≠ 0) ∧ ∀ tv ∈ xs, ¬ tv.ts < t1 ∧ ¬ tv.ts ≤ t2) := by
  induction xs generalizing i with
  | nil =>
    constructor
    · intro r h; simp [betweenInNode] at h
    · intro _; simp
  | cons tv rest ih =>
    simp only [List.cons_append, List.length_cons] at hi
    have ih' := ih (i + 1) (by simp only [List.length_append] at hi ⊢; omega)
    constructor
    · intro r h
      simp only [betweenInNode] at h
      simp only [List.cons_append, betweenAux]
      split at h
      · rename_i h1; simp [h1] at h ⊢; exact h
      · rename_i h1
        split at h
        · rename_i h2
          simp only [h1, if_false, h2, if_true]
          simp at h
          rw [← h]
          have : hcount - i = (rest ++ ys).length + 1 := by omega
          rw [this]
        · rename_i h2
          simp only [h1, if_false, h2]
          exact ih'.1 r h
    · intro h
      simp only [betweenInNode] at h
      split at h
      · simp at h
      · rename_i h1
        split at h
        · simp at h
        · rename_i h2
          obtain ⟨ha, hb, hc⟩ := ih'.2 h
          refine ⟨?_, ?_, ?_⟩
          · simp only [List.cons_append, betweenAux, h1, if_false, h2]; exact ha
          · intro _ h0; exact h2 (Or.inl h0)
          · intro x hx
            simp at hx
            rcases hx with rfl | hx
            · exact ⟨h1, fun hle => h2 (Or.inr hle)⟩
            · exact hc x hx

theorem betweenAux_exhausted (t1 t2 : Nat) (vs : List TV) (h : ∀ tv ∈ vs, ¬ tv.ts < t1 ∧ ¬ (t2 = 0 ∨ tv.ts ≤ t2)) :
    betweenAux t1 t2 vs = .error .keyNotFound := by
  induction vs with
  | nil => rfl
  | cons tv rest ih =>
    have h0 := h tv (by simp)
    simp only [betweenAux, h0.1, if_false, h0.2]
    exact ih (fun x hx => h x (by simp [hx]))

/-- `lastUpdateBetween` computes the specification: the walk over ALL versions of the key, newest first
(in-node versions, then the key's own history-log chain, and nothing else). -/
theorem lastUpdateBetween_eq_spec (e : Entry) (t1 t2 : Nat) :
    lastUpdateBetween e t1 t2 = if t1 > t2 then .error .illegal else betweenAux t1 t2 e.versions := by
  unfold lastUpdateBetween
  by_cases hill : t1 > t2
  · simp [hill]
  · simp only [hill, if_false]
    have hvers : e.versions = (e.cur :: e.inNode) ++ e.blocks.flatten := by
      simp [Entry.versions, Entry.older]
    have hcnt : 0 + ((e.cur :: e.inNode) ++ e.blocks.flatten).length = e.hcount := by
      simp [Entry.hcount, Entry.older]
    have hin := betweenInNode_spec t1 t2 e.hcount (e.cur :: e.inNode) e.blocks.flatten 0 hcnt
    cases hc : betweenInNode t1 t2 e.hcount (e.cur :: e.inNode) 0 with
    | some r => simp only; rw [hvers]; exact (hin.1 r hc).symm
    | none =>
      simp only
      obtain ⟨ha, hb, _⟩ := hin.2 hc
      have ht2 : t2 ≠ 0 := hb (by simp)
      rw [hvers, ha, betweenChain_flatten]
      have hflat := betweenBlock_spec t1 t2 e.hLogCount ht2 e.blocks.flatten 0 (by simp [Entry.hLogCount])
      cases hbk : betweenBlock t1 t2 e.hLogCount e.blocks.flatten 0 with
      | inl r => simp only; exact (hflat.1 r hbk).symm
      | inr sk' => simp only; exact (hflat.2 sk' hbk).1.symm

/-- A successful search returns one of the versions it was given. -/
theorem betweenAux_mem (t1 t2 : Nat) (vs : List TV) (v : Bytes) (ts hc : Nat)
    (h : betweenAux t1 t2 vs = .ok (v, ts, hc)) : (⟨v, ts⟩ : TV) ∈ vs := by
  induction vs with
  | nil => simp [betweenAux] at h
  | cons tv rest ih =>
    simp only [betweenAux] at h
    split at h
    · simp at h
    · split at h
      · simp only [Except.ok.injEq, Prod.mk.injEq] at h
        obtain ⟨hv, hts, _⟩ := h
        subst hv hts
        simp
      · exact List.mem_cons_of_mem _ (ih h)

/-- What the specification search returns (versions strictly decreasing in ts). -/
theorem betweenAux_ok (t1 t2 : Nat) (vs : List TV) (hd : vs.Pairwise (fun a b => a.ts > b.ts))
    (v : Bytes) (ts hc : Nat) (h : betweenAux t1 t2 vs = .ok (v, ts, hc)) :
    (⟨v, ts⟩ : TV) ∈ vs ∧ t1 ≤ ts ∧ (t2 = 0 ∨ ts ≤ t2) ∧
    (∀ tv ∈ vs, tv.ts > ts → ¬ (t2 = 0 ∨ tv.ts ≤ t2)) ∧
    hc = (vs.filter (fun tv => decide (tv.ts ≤ ts))).length := by
  induction vs with
  | nil => simp [betweenAux] at h
  | cons tv rest ih =>
    have hd' := List.pairwise_cons.mp hd
    simp only [betweenAux] at h
    split at h
    · simp at h
    · rename_i h1
      split at h
      · rename_i h2
        simp only [Except.ok.injEq, Prod.mk.injEq] at h
        obtain ⟨hv, hts, hhc⟩ := h
        subst hv hts
        refine ⟨by simp, by omega, h2, ?_, ?_⟩
        · intro x hx hgt
          simp at hx
          rcases hx with rfl | hx
          · omega
          · have := hd'.1 x hx
            simp at this
            omega
        · rw [← hhc]
          have : (rest.filter (fun x => decide (x.ts ≤ tv.ts))) = rest := by
            rw [List.filter_eq_self]
            intro x hx
            have := hd'.1 x hx
            simp at this ⊢
            omega
          simp [List.filter_cons, this]
      · rename_i h2
        obtain ⟨ha, hb, hc', hd'', he⟩ := ih hd'.2 h
        refine ⟨by simp [ha], hb, hc', ?_, ?_⟩
        · intro x hx hgt
          simp at hx
          rcases hx with rfl | hx
          · exact h2
          · exact hd'' x hx hgt
        · have hgt : ¬ tv.ts ≤ ts := by
            have := hd'.1 ⟨v, ts⟩ ha
            simp at this
            omega
          rw [he]
          simp [List.filter_cons, hgt]

theorem betweenAux_notFound (t1 t2 : Nat) (vs : List TV) (hd : vs.Pairwise (fun a b => a.ts > b.ts))
    (x : Err) (h : betweenAux t1 t2 vs = .error x) :
    x = .keyNotFound ∧ ∀ tv ∈ vs, ¬ (t1 ≤ tv.ts ∧ (t2 = 0 ∨ tv.ts ≤ t2)) := by
  induction vs with
  | nil => simp [betweenAux] at h; simp [h]
  | cons tv rest ih =>
    have hd' := List.pairwise_cons.mp hd
    simp only [betweenAux] at h
    split at h
    · rename_i h1
      simp at h
      refine ⟨h.symm, ?_⟩
      intro y hy
      simp at hy
      rcases hy with rfl | hy
      · omega
      · have := hd'.1 y hy
        simp at this
        omega
    · rename_i h1
      split at h
      · simp at h
      · rename_i h2
        obtain ⟨ha, hb⟩ := ih hd'.2 h
        refine ⟨ha, ?_⟩
        intro y hy
        simp at hy
        rcases hy with rfl | hy
        · intro hc; exact h2 hc.2
        · exact hb y hy

/-! ### flush keeps every key's versions -/

theorem flushEntry_versions (e : Entry) : (flushEntry e).versions = e.versions := by
  unfold flushEntry
  split
  · rfl
  · simp [Entry.versions, Entry.older]

theorem flushEntry_key (e : Entry) : (flushEntry e).key = e.key := by
  unfold flushEntry; split <;> rfl

theorem flushEntry_cur (e : Entry) : (flushEntry e).cur = e.cur := by
  unfold flushEntry; split <;> rfl

theorem flushEntry_hcount (e : Entry) : (flushEntry e).hcount = e.hcount := by
  have := flushEntry_versions e
  simp only [Entry.versions] at this
  simp only [Entry.hcount]
  have h2 := congrArg List.length this
  simp at h2
  omega

theorem flush_find (m : MVMap) (k : Bytes) : m.flush.find k = (m.find k).map flushEntry := by
  unfold find flush
  simp only
  induction m.entries with
  | nil => simp
  | cons e rest ih =>
    simp only [List.map_cons, List.find?_cons, flushEntry_key]
    split
    · simp
    · exact ih

theorem flush_sorted {m : MVMap} (h : Sorted m.entries) : Sorted m.flush.entries := by
  unfold flush Sorted
  simp only
  rw [List.pairwise_map]
  simp only [flushEntry_key]
  exact h

theorem flush_versionsDec {m : MVMap} (h : VersionsDec m.entries) : VersionsDec m.flush.entries := by
  intro e he
  simp only [flush, List.mem_map] at he
  obtain ⟨e0, he0, rfl⟩ := he
  rw [flushEntry_versions]
  exact h e0 he0

/-- every history-log block of every key is non-empty -/
def BlocksNonempty (es : List Entry) : Prop := ∀ e ∈ es, ∀ b ∈ e.blocks, b ≠ []

theorem flush_blocksNonempty {m : MVMap} (h : BlocksNonempty m.entries) : BlocksNonempty m.flush.entries := by
  intro e he b hb
  simp only [flush, List.mem_map] at he
  obtain ⟨e0, he0, rfl⟩ := he
  unfold flushEntry at hb
  split at hb
  · exact h e0 he0 b hb
  · rename_i hne
    simp at hb
    rcases hb with rfl | hb
    · intro h0; simp [h0] at hne
    · exact h e0 he0 b hb

theorem insertEntries_blocksNonempty {k v : Bytes} {t : Nat} {es r : List Entry}
    (hd : BlocksNonempty es) (h : insertEntries k v t es = .ok r) : BlocksNonempty r := by
  induction es generalizing r with
  | nil =>
    simp [insertEntries] at h; subst h
    intro e he; simp at he; subst he; simp
  | cons e rest ih =>
    have hde := hd e (by simp)
    have hdr : BlocksNonempty rest := fun x hx => hd x (by simp [hx])
    unfold insertEntries at h
    split at h
    · simp at h; subst h
      intro x hx
      simp at hx
      rcases hx with rfl | rfl | hx
      · simp
      · exact hde
      · exact hdr x hx
    · split at h
      · simp at h
      · split at h
        · simp at h; subst h
          intro x hx
          simp at hx
          rcases hx with rfl | hx
          · exact hde
          · exact hdr x hx
        · simp at h; subst h; exact hd
    · split at h
      · rename_i r' hr'
        simp at h; subst h
        intro x hx
        simp at hx
        rcases hx with rfl | hx
        · exact hde
        · exact ih hdr hr' x hx
      · simp at h

/-! ### reachable maps -/

/-- Maps reachable from the empty tree by the mutating operations. -/
inductive Reachable : MVMap → Prop
  | empty : Reachable {}
  | insert {m m' : MVMap} {k v : Bytes} {t : Nat} : Reachable m → m.insert k v t = .ok m' → Reachable m'
  | increaseTs {m m' : MVMap} {t : Nat} : Reachable m → m.increaseTs t = .ok m' → Reachable m'
  | flush {m : MVMap} : Reachable m → Reachable m.flush

/-- The invariant of the specification. -/
structure WF (m : MVMap) : Prop where
  sorted : Sorted m.entries
  versionsDec : VersionsDec m.entries
  blocksNonempty : BlocksNonempty m.entries

theorem insert_wf {m m' : MVMap} {k v : Bytes} {t : Nat} (h : WF m) (hi : m.insert k v t = .ok m') : WF m' := by
  unfold insert at hi
  split at hi
  · rename_i es hes
    simp at hi; subst hi
    exact ⟨insertEntries_sorted h.sorted hes, insertEntries_versionsDec h.versionsDec hes,
      insertEntries_blocksNonempty h.blocksNonempty hes⟩
  · simp at hi

theorem bulkInsert_wf {m m' : MVMap} {kvts : List (Bytes × Bytes × Nat)} (h : WF m) (hi : m.bulkInsert kvts = .ok m') : WF m' := by
  induction kvts generalizing m with
  | nil => simp [bulkInsert] at hi; subst hi; exact h
  | cons kvt rest ih =>
    obtain ⟨k, v, t⟩ := kvt
    simp only [bulkInsert] at hi
    split at hi
    · rename_i m1 hm1
      exact ih (insert_wf h hm1) hi
    · simp at hi

theorem reachable_wf {m : MVMap} (h : Reachable m) : WF m := by
  induction h with
  | empty => exact ⟨by simp [Sorted], by intro e he; simp at he, by intro e he; simp at he⟩
  | insert _ hi ih => exact insert_wf ih hi
  | increaseTs _ hi ih =>
    unfold increaseTs at hi
    split at hi
    · simp at hi
    · simp at hi; subst hi; exact ⟨ih.sorted, ih.versionsDec, ih.blocksNonempty⟩
  | flush _ ih => exact ⟨flush_sorted ih.sorted, flush_versionsDec ih.versionsDec, flush_blocksNonempty ih.blocksNonempty⟩

theorem bulkInsert_reachable {m m' : MVMap} {kvts : List (Bytes × Bytes × Nat)} (h : Reachable m)
    (hi : m.bulkInsert kvts = .ok m') : Reachable m' := by
  induction kvts generalizing m with
  | nil => simp [bulkInsert] at hi; subst hi; exact h
  | cons kvt rest ih =>
    obtain ⟨k, v, t⟩ := kvt
    simp only [bulkInsert] at hi
    split at hi
    · rename_i m1 hm1
      exact ih (Reachable.insert h hm1) hi
    · simp at hi

/-- Mutating operations on the map, for statements over operation lists. -/
inductive MOp
  | ins (kvts : List (Bytes × Bytes × Nat))
  | incTs (ts : Nat)
  | flush

def runOps (m : MVMap) : List MOp → Except Err MVMap
  | [] => .ok m
  | .ins kvts :: rest => match m.bulkInsert kvts with
    | .ok m' => runOps m' rest
    | .error x => .error x
  | .incTs ts :: rest => match m.increaseTs ts with
    | .ok m' => runOps m' rest
    | .error x => .error x
  | .flush :: rest => runOps m.flush rest

theorem runOps_reachable {m m' : MVMap} {ops : List MOp} (h : Reachable m) (hr : runOps m ops = .ok m') : Reachable m' := by
  induction ops generalizing m with
  | nil => simp [runOps] at hr; subst hr; exact h
  | cons op rest ih =>
    cases op with
    | ins kvts =>
      simp only [runOps] at hr
      split at hr
      · rename_i m1 h1; exact ih (bulkInsert_reachable h h1) hr
      · simp at hr
    | incTs ts =>
      simp only [runOps] at hr
      split at hr
      · rename_i m1 h1; exact ih (Reachable.increaseTs h h1) hr
      · simp at hr
    | flush =>
      simp only [runOps] at hr
      exact ih (Reachable.flush h) hr

end MVMap
end ImmuModel.Index
