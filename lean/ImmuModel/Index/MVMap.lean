/-
C10 SPEC — the timed B-tree seen as a multi-version ordered map.

`MVMap` = association list sorted by key (`bytes.Compare` order), each key with its full list of
versions `(value, ts)` newest first (`leafValue.timedValues ++ hLog chain` in the code; the newest
version always exists, as `timedValues[0]` does), plus the logical time of the tree (`root.ts()`).

Every function mirrors the observable behaviour of the corresponding method in
embedded/tbtree/{tbtree.go,snapshot.go,reader.go}: same guards in the same order, same error
classes.  What is below this abstraction (nodes, splits, hLog chain, cache, files) is the
implementation model's business (`Index/BTree.lean`) and the correspondence check's.
Core Lean only (the driver links this file).
-/
import ImmuModel.Base.Bytes

namespace ImmuModel.Index
open ImmuModel

/-- `bytes.Compare`. -/
def bcmp : Bytes → Bytes → Ordering
  | [], [] => .eq
  | [], _ :: _ => .lt
  | _ :: _, [] => .gt
  | a :: as, b :: bs => if a < b then .lt else if b < a then .gt else bcmp as bs

/-- `len(k) >= len(p) && bytes.Equal(p, k[:len(p)])`. -/
def hasPrefix : Bytes → Bytes → Bool
  | [], _ => true
  | _ :: _, [] => false
  | a :: as, b :: bs => a == b && hasPrefix as bs

/-- Error classes (Go sentinels, matched by `errors.Is` in the harness). -/
inductive Err
  | illegal            -- ErrIllegalArguments
  | keyNotFound        -- ErrKeyNotFound
  | noMoreEntries      -- ErrNoMoreEntries
  | offsetOutOfRange   -- ErrOffsetOutOfRange
  | maxKeySize         -- ErrorMaxKeySizeExceeded
  | maxValueSize       -- ErrorMaxValueSizeExceeded
  | closed             -- ErrAlreadyClosed
  | tooManySnapshots   -- ErrorToManyActiveSnapshots
  | snapshotsNotClosed -- ErrSnapshotsNotClosed
  | thresholdNotReached -- ErrCompactionThresholdNotReached
  | other              -- anything else (e.g. the %v-wrapped ErrTargetPathAlreadyExists of Compact)
deriving DecidableEq, Repr

/-- `TimedValue`. -/
structure TV where
  value : Bytes
  ts : Nat
deriving DecidableEq, Repr

/-- One key with all its versions, newest first: `cur :: inNode` = `leafValue.timedValues` (the
versions not yet moved to the history log), `blocks` = the chain of history-log blocks reachable
from `hOff` (newest block first, each block newest first; one block is written per key per flush
and holds ALL versions that flush moved out of the node). -/
structure Entry where
  key : Bytes
  cur : TV
  inNode : List TV := []
  blocks : List (List TV) := []
deriving DecidableEq, Repr

/-- Versions older than the current one. -/
def Entry.older (e : Entry) : List TV := e.inNode ++ e.blocks.flatten

def Entry.versions (e : Entry) : List TV := e.cur :: e.older

/-- `leafValue.hCount`: number of versions in the history log. -/
def Entry.hLogCount (e : Entry) : Nat := e.blocks.flatten.length

/-- `leafValue.historyCount()`. -/
def Entry.hcount (e : Entry) : Nat := e.older.length + 1

/-- The map: entries sorted by key plus the logical time of the tree (`root.ts()`). -/
structure MVMap where
  entries : List Entry := []
  ts : Nat := 0
deriving DecidableEq, Repr

namespace MVMap

def empty : MVMap := {}

/-! ### insert (`leafNode.updateOnInsert` seen from outside) -/

/-- Insert one `(k, v, t)`.  Existing key: `t` smaller than the newest version's ts is an error,
equal ts is IGNORED (value not replaced), greater ts pushes a new newest version. -/
def insertEntries (k v : Bytes) (t : Nat) : List Entry → Except Err (List Entry)
  | [] => .ok [{ key := k, cur := ⟨v, t⟩ }]
  | e :: rest =>
    match bcmp k e.key with
    | .lt => .ok ({ key := k, cur := ⟨v, t⟩ } :: e :: rest)
    | .eq =>
      if t < e.cur.ts then .error .illegal
      else if e.cur.ts < t then .ok ({ e with cur := ⟨v, t⟩, inNode := e.cur :: e.inNode } :: rest)
      else .ok (e :: rest)
    | .gt =>
      match insertEntries k v t rest with
      | .ok r => .ok (e :: r)
      | .error x => .error x

/-- `l._ts < kvt.T ⇒ l._ts = kvt.T` at every level: the tree time becomes `max ts t`. -/
def insert (m : MVMap) (k v : Bytes) (t : Nat) : Except Err MVMap :=
  match insertEntries k v t m.entries with
  | .ok es => .ok { m with entries := es, ts := max m.ts t }
  | .error x => .error x

/-- A bulk is applied entry by entry in the given order (entries of one key reach the same leaf
in their original order; entries of different keys do not interact). -/
def bulkInsert (m : MVMap) : List (Bytes × Bytes × Nat) → Except Err MVMap
  | [] => .ok m
  | (k, v, t) :: rest =>
    match m.insert k v t with
    | .ok m' => bulkInsert m' rest
    | .error x => .error x

/-- `setTs`: the time must strictly grow. -/
def increaseTs (m : MVMap) (ts : Nat) : Except Err MVMap :=
  if m.ts ≥ ts then .error .illegal else .ok { m with ts := ts }

/-! ### point reads -/

def find (m : MVMap) (k : Bytes) : Option Entry := m.entries.find? (fun e => decide (e.key = k))

/-- `Get`: newest value, its ts, number of versions. -/
def get (m : MVMap) (k : Bytes) : Except Err (Bytes × Nat × Nat) :=
  match m.find k with
  | none => .error .keyNotFound
  | some e => .ok (e.cur.value, e.cur.ts, e.hcount)

abbrev Hit := Bytes × Nat × Nat

/-- First loop of `leafValue.lastUpdateBetween`: the in-node versions; the counter returned is
`historyCount() - i`. `none` = no in-node version decided, go on with the history log. -/
def betweenInNode (t1 t2 hcount : Nat) : List TV → Nat → Option (Except Err Hit)
  | [], _ => none
  | tv :: rest, i =>
    if tv.ts < t1 then some (.error .keyNotFound)
    else if t2 = 0 ∨ tv.ts ≤ t2 then some (.ok (tv.value, tv.ts, hcount - i))
    else betweenInNode t1 t2 hcount rest (i + 1)

/-- One history-log block (`for j < hc`): a decision, or the new `skippedUpdates`. The counter is
`lv.hCount - skippedUpdates` (uint64 in the code; `skippedUpdates ≤ hCount` throughout the walk, so the
subtraction never wraps). -/
def betweenBlock (t1 t2 hLogCount : Nat) : List TV → Nat → Except Err Hit ⊕ Nat
  | [], sk => .inr sk
  | tv :: rest, sk =>
    if tv.ts < t1 then .inl (.error .keyNotFound)
    else if tv.ts ≤ t2 then .inl (.ok (tv.value, tv.ts, hLogCount - sk))
    else betweenBlock t1 t2 hLogCount rest (sk + 1)

/-- Second loop of `lastUpdateBetween`: `for skippedUpdates < lv.hCount` reads one BLOCK per iteration
and follows `prevOff` to the previous block of the key. `hCount` is the number of versions in the
key's chain (`Entry.hLogCount = blocks.flatten.length`), so the loop condition fails exactly when the
last block of the chain has been consumed: the walk never leaves the key's own blocks. -/
def betweenChain (t1 t2 hLogCount : Nat) : List (List TV) → Nat → Except Err Hit
  | [], _ => .error .keyNotFound
  | b :: bs, sk =>
    match betweenBlock t1 t2 hLogCount b sk with
    | .inl r => r
    | .inr sk' => betweenChain t1 t2 hLogCount bs sk'

/-- `leafValue.lastUpdateBetween`. -/
def lastUpdateBetween (e : Entry) (t1 t2 : Nat) : Except Err Hit :=
  if t1 > t2 then .error .illegal
  else match betweenInNode t1 t2 e.hcount (e.cur :: e.inNode) 0 with
    | some r => r
    | none => betweenChain t1 t2 e.hLogCount e.blocks 0

/-- What `lastUpdateBetween` computes (`Props.C10.getBetween_spec`): walk ALL versions newest first. -/
def betweenAux (t1 t2 : Nat) : List TV → Except Err Hit
  | [] => .error .keyNotFound
  | tv :: rest =>
    if tv.ts < t1 then .error .keyNotFound
    else if t2 = 0 ∨ tv.ts ≤ t2 then .ok (tv.value, tv.ts, rest.length + 1)
    else betweenAux t1 t2 rest

def getBetween (m : MVMap) (k : Bytes) (t1 t2 : Nat) : Except Err (Bytes × Nat × Nat) :=
  match m.find k with
  | none => .error .keyNotFound
  | some e => lastUpdateBetween e t1 t2

/-- `leafValue.history`: window arithmetic exactly as in the code (`initAt`, reversed fill for
ascending order). -/
def historyOf (vs : List TV) (offset : Nat) (desc : Bool) (limit : Nat) : Except Err (List TV × Nat) :=
  let n := vs.length
  if offset = n then .error .noMoreEntries
  else if offset > n then .error .offsetOutOfRange
  else
    let len := if limit > n - offset then n - offset else limit
    if desc then .ok ((vs.drop offset).take len, n)
    else .ok (((vs.drop (n - offset - len)).take len).reverse, n)

/-- `History` (API level: `limit < 1` is illegal; `limit` is a Go `int`). -/
def history (m : MVMap) (k : Bytes) (offset : Nat) (desc : Bool) (limit : Int) : Except Err (List TV × Nat) :=
  if limit < 1 then .error .illegal
  else match m.find k with
    | none => .error .keyNotFound
    | some e => historyOf e.versions offset desc limit.toNat

/-- `GetWithPrefix(prefix, neq)`: `findLeafNode(prefix, …, neq, asc)` = first key `≥ prefix` that is
`> neq` (when `neq` is non-empty); THEN the prefix test on that single key. -/
def getWithPrefix (m : MVMap) (pfx neq : Bytes) : Except Err (Bytes × Bytes × Nat × Nat) :=
  match m.entries.find? (fun e => (neq.isEmpty || bcmp e.key neq == .gt) && bcmp pfx e.key != .gt) with
  | none => .error .keyNotFound
  | some e =>
    if hasPrefix pfx e.key then .ok (e.key, e.cur.value, e.cur.ts, e.hcount)
    else .error .keyNotFound

/-! ### readers -/

structure ReaderSpec where
  seekKey : Bytes
  endKey : Bytes
  pfx : Bytes
  inclusiveSeek : Bool
  inclusiveEnd : Bool
  includeHistory : Bool
  descOrder : Bool
  offset : Nat
deriving Repr

/-- `greatestKeyOfSize(maxKeySize)` overwritten with the prefix. -/
def greatestKey (maxKeySize : Nat) (pfx : Bytes) : Bytes :=
  pfx ++ List.replicate (maxKeySize - pfx.length) (0xFF : UInt8)

/-- `Snapshot.NewReader`: argument check and seek/end adjustment by the prefix. -/
def newReader (maxKeySize : Nat) (s : ReaderSpec) : Except Err ReaderSpec :=
  if s.seekKey.length > maxKeySize ∨ s.pfx.length > maxKeySize then .error .illegal
  else
    let g := greatestKey maxKeySize s.pfx
    let (seekKey, inclSeek) :=
      if s.descOrder then
        if s.seekKey.isEmpty || bcmp s.seekKey g == .gt then (g, true) else (s.seekKey, s.inclusiveSeek)
      else
        if bcmp s.seekKey s.pfx == .lt then (s.pfx, true) else (s.seekKey, s.inclusiveSeek)
    let (endKey, inclEnd) :=
      if s.descOrder then
        if bcmp s.endKey s.pfx == .lt then (s.pfx, true) else (s.endKey, s.inclusiveEnd)
      else
        if s.endKey.isEmpty || bcmp s.endKey g == .gt then (g, true) else (s.endKey, s.inclusiveEnd)
    .ok { s with seekKey := seekKey, inclusiveSeek := inclSeek, endKey := endKey, inclusiveEnd := inclEnd }

/-- Entries in the order the reader visits them, starting where `findLeafNode(seekKey)` lands:
ascending from the first key `≥ seekKey`, descending from the last key `≤ seekKey`. -/
def startList (r : ReaderSpec) (es : List Entry) : List Entry :=
  if r.descOrder then es.reverse.dropWhile (fun e => bcmp e.key r.seekKey == .gt)
  else es.dropWhile (fun e => bcmp r.seekKey e.key == .gt)

/-- The end-key test of `Read` (true = `ErrNoMoreEntries`). -/
def endHit (r : ReaderSpec) (k : Bytes) : Bool :=
  if r.endKey.isEmpty then false
  else match bcmp r.endKey k with
    | .gt => r.descOrder
    | .lt => !r.descOrder
    | .eq => !r.inclusiveEnd

/-- The key-level filter of `Read`/`ReadBetween`, in the code's order: exclusive seek key is
skipped, end key stops, prefix mismatch is skipped (NOT a stop), then `offset` keys are skipped. -/
def scanLoop (r : ReaderSpec) : List Entry → Nat → List Entry
  | [], _ => []
  | e :: es, skipped =>
    if !r.inclusiveSeek && decide (r.seekKey = e.key) then scanLoop r es skipped
    else if endHit r e.key then []
    else if !r.pfx.isEmpty && !hasPrefix r.pfx e.key then scanLoop r es skipped
    else if skipped < r.offset then scanLoop r es (skipped + 1)
    else e :: scanLoop r es skipped

/-- Keys a reader selects, in reading order (`r` already adjusted by `newReader`). -/
def selected (m : MVMap) (r : ReaderSpec) : List Entry := scanLoop r (startList r m.entries) 0

abbrev Row := Bytes × Bytes × Nat × Nat

/-- History rows of one key, newest first; the counter is `hc - hoff + 1`. -/
def rowsDesc (k : Bytes) : List TV → List Row
  | [] => []
  | tv :: rest => (k, tv.value, tv.ts, rest.length + 1) :: rowsDesc k rest

def entryRows (includeHistory desc : Bool) (e : Entry) : List Row :=
  if !includeHistory then [(e.key, e.cur.value, e.cur.ts, e.hcount)]
  else if desc then rowsDesc e.key e.versions
  else (rowsDesc e.key e.versions).reverse

/-- All rows successive `Read()` calls return until `ErrNoMoreEntries`. -/
def scan (m : MVMap) (maxKeySize : Nat) (s : ReaderSpec) : Except Err (List Row) :=
  match newReader maxKeySize s with
  | .error x => .error x
  | .ok r => .ok ((selected m r).flatMap (entryRows r.includeHistory r.descOrder))

/-- All rows successive `ReadBetween(t1, t2)` calls return: keys whose `lastUpdateBetween` fails
(any error, including `t1 > t2`) are skipped. -/
def scanBetween (m : MVMap) (maxKeySize : Nat) (s : ReaderSpec) (t1 t2 : Nat) : Except Err (List Row) :=
  match newReader maxKeySize s with
  | .error x => .error x
  | .ok r => .ok ((selected m r).filterMap (fun e =>
      match lastUpdateBetween e t1 t2 with
      | .ok (v, ts, hc) => some (e.key, v, ts, hc)
      | .error _ => none))

/-- What a flush does to the representation (`leafNode.writeTo` with `commitLog`): every key with
more than one in-node version gets ONE new history-log block holding all but the newest, chained to
the key's previous block. The versions of every key are unchanged. -/
def flushEntry (e : Entry) : Entry :=
  if e.inNode.isEmpty then e else { e with inNode := [], blocks := e.inNode :: e.blocks }

def flush (m : MVMap) : MVMap := { m with entries := m.entries.map flushEntry }

/-- `tsMutated()` of the root: every key's newest ts is below the tree time. -/
def tsMutated (m : MVMap) : Bool := m.entries.all (fun e => decide (e.cur.ts < m.ts))

/-- Root ts as recomputed from a stored tree (`readLeafNodeFrom`/`readInnerNodeFrom`). -/
def contentTs (m : MVMap) : Nat := m.entries.foldl (fun a e => max a e.cur.ts) 0

end MVMap
end ImmuModel.Index
