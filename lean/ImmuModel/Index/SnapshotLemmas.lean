/-
C10 — lemmas about the logical tree state machine `TState` (proof file).
-/
import ImmuModel.Index.Snapshot
import ImmuModel.Index.MVMapLemmas

namespace ImmuModel.Index
namespace TState
open MVMap

theorem flushTree_snaps (s : TState) (a b : Bool) : (s.flushTree a b).snaps = s.snaps := by
  unfold flushTree
  simp only
  split <;> split <;> rfl

theorem preFlush_snaps (s : TState) (n : Nat) : (s.preFlush n).snaps = s.snaps := by
  unfold preFlush; split
  · exact flushTree_snaps _ _ _
  · rfl

theorem postFlush_snaps (s : TState) : s.postFlush.snaps = s.snaps := by
  unfold postFlush; split
  · exact flushTree_snaps _ _ _
  · rfl

theorem rollback_snaps (s : TState) : s.rollback.snaps = s.snaps := by
  unfold rollback; split
  · split <;> rfl
  · rfl

theorem bulkInsert_snaps (s : TState) (kvts : List (Bytes × Bytes × Nat)) : (s.bulkInsert kvts).1.snaps = s.snaps := by
  unfold bulkInsert
  split
  · rfl
  · split
    · rfl
    · simp only
      split
      · simp [preFlush_snaps]
      · split
        · simp [rollback_snaps, preFlush_snaps]
        · simp [postFlush_snaps, preFlush_snaps]

theorem increaseTs_snaps (s : TState) (ts : Nat) : (s.increaseTs ts).1.snaps = s.snaps := by
  unfold increaseTs
  split
  · rfl
  · split
    · rfl
    · simp [postFlush_snaps]

theorem flushWith_snaps (s : TState) (a b : Bool) : (s.flushWith a b).1.snaps = s.snaps := by
  unfold flushWith
  split
  · rfl
  · split
    · rfl
    · exact flushTree_snaps _ _ _

theorem sync_snaps (s : TState) : s.sync.1.snaps = s.snaps := by
  unfold sync
  split
  · rfl
  · exact flushTree_snaps _ _ _

theorem compact_snaps (s : TState) : s.compact.1.snaps = s.snaps := by
  unfold compact
  split
  · rfl
  · split
    · rfl
    · simp only
      split <;> simp [flushTree_snaps]

theorem close_snaps (s : TState) : s.close.1.snaps = s.snaps := by
  unfold close
  split
  · rfl
  · split
    · rfl
    · simp only
      split <;> simp [flushTree_snaps]

theorem reopen_snaps (s : TState) : s.reopen.snaps = s.snaps := by
  unfold reopen
  split
  · rfl
  · rfl

theorem renewRoot_snaps (s : TState) (ts : Nat) : (s.renewRoot ts).snaps = s.snaps := by
  unfold renewRoot
  split
  · exact flushTree_snaps _ _ _
  · rfl

theorem adoptRoot_snaps (s : TState) : s.adoptRoot.snaps = s.snaps := by
  unfold adoptRoot
  split <;> rfl

theorem prepareSnap_snaps (s : TState) (ts : Nat) : (s.prepareSnap ts).snaps = s.snaps := by
  unfold prepareSnap
  rw [adoptRoot_snaps, renewRoot_snaps]

/-- A snapshot under another name does not touch the one under `name`. -/
theorem snapshot_snapOf (s : TState) (name name' ts : Nat) (hne : name' ≠ name) :
    (s.snapshot name' ts).1.snapOf name = s.snapOf name := by
  unfold snapshot
  split
  · rfl
  · split
    · rfl
    · split
      · rfl
      · simp only
        split
        · simp [snapOf, prepareSnap_snaps]
        · simp only [snapOf]
          rw [List.find?_cons_of_neg (by simpa using hne), prepareSnap_snaps]

theorem closeSnapshot_snapOf (s : TState) (name name' : Nat) (hne : name' ≠ name) :
    (s.closeSnapshot name').1.snapOf name = s.snapOf name := by
  unfold closeSnapshot
  split
  · rfl
  · simp only [snapOf]
    congr 1
    induction s.snaps with
    | nil => rfl
    | cons p rest ih =>
      simp only [List.filter_cons, List.find?_cons]
      by_cases hp : p.1 = name'
      · have hpn : ¬ p.1 = name := by rw [hp]; exact hne
        simp only [hp, bne_self_eq_false, Bool.false_eq_true, if_false]
        have : (name' == name) = false := by simpa using hne
        rw [this]
        exact ih
      · have h1 : (p.1 != name') = true := by simpa using hp
        simp only [h1, if_true, List.find?_cons]
        split
        · rfl
        · exact ih

/-- One operation that neither closes `name` nor re-uses it leaves the snapshot `name` as it is. -/
theorem apply_snapOf (s : TState) (op : Op) (name : Nat)
    (h1 : op ≠ .sclose name) (h2 : ∀ ts, op ≠ .snap name ts) :
    (s.apply op).snapOf name = s.snapOf name := by
  cases op with
  | ins kvts => simp [apply, snapOf, bulkInsert_snaps]
  | incTs ts => simp [apply, snapOf, increaseTs_snaps]
  | flush a b => simp [apply, snapOf, flushWith_snaps]
  | sync => simp [apply, snapOf, sync_snaps]
  | snap n ts =>
    have : n ≠ name := by intro h; exact h2 ts (by rw [h])
    exact snapshot_snapOf s name n ts this
  | sclose n =>
    have : n ≠ name := by intro h; exact h1 (by rw [h])
    exact closeSnapshot_snapOf s name n this
  | compact => simp [apply, snapOf, compact_snaps]
  | close => simp [apply, snapOf, close_snaps]
  | reopen => simp [apply, snapOf, reopen_snaps]

theorem run_snapOf (s : TState) (ops : List Op) (name : Nat)
    (h : ∀ op ∈ ops, op ≠ .sclose name ∧ ∀ ts, op ≠ .snap name ts) :
    (s.run ops).snapOf name = s.snapOf name := by
  induction ops generalizing s with
  | nil => rfl
  | cons op rest ih =>
    simp only [run, List.foldl_cons]
    have := ih (s.apply op) (fun o ho => h o (by simp [ho]))
    simp only [run] at this
    rw [this]
    exact apply_snapOf s op name (h op (by simp)).1 (h op (by simp)).2

theorem flushTree_mutated_spec (s : TState) (a : Bool) (hm : s.mutated = true) :
    (s.flushTree a false).mutated = false ∧ (s.flushTree a false).cur = s.cur.flush := by
  unfold flushTree
  simp only [hm]
  split <;> simp

theorem prepareSnap_lastSnap_ts (s : TState) (ts : Nat) (m : MVMap) (hts : ts ≤ s.cur.ts)
    (hm : (s.prepareSnap ts).lastSnap = some m) : ts ≤ m.ts := by
  unfold prepareSnap renewRoot at hm
  by_cases hr : s.needsRenewal ts = true
  · rw [if_pos hr] at hm
    have hmut : s.mutated = true := by
      unfold needsRenewal at hr
      simp only [Bool.and_eq_true] at hr
      exact hr.1
    obtain ⟨h1, h2⟩ := flushTree_mutated_spec s s.cfg.cleanupNonzero hmut
    unfold adoptRoot at hm
    simp only [h1, Bool.not_false, if_true] at hm
    simp only [Option.some.injEq] at hm
    rw [← hm, h2]
    exact hts
  · rw [if_neg hr] at hm
    unfold adoptRoot at hm
    by_cases hmut : s.mutated = true
    · simp only [hmut, Bool.not_true, Bool.false_eq_true, if_false] at hm
      unfold needsRenewal at hr
      rw [hm] at hr
      simp only [hmut, Bool.true_and, Bool.and_eq_true, decide_eq_true_eq, not_and] at hr
      omega
    · have : s.mutated = false := by simpa using hmut
      simp only [this, Bool.not_false, if_true, Option.some.injEq] at hm
      rw [← hm]; exact hts

/-- The snapshot returned for `ts` is not older than `ts`. -/
theorem snapshot_includes_ts (s s' : TState) (name ts t : Nat) (h : s.snapshot name ts = (s', .ok t)) :
    ts ≤ t ∧ s'.snapOf name = (s'.snaps.head?.map (·.2)) ∧ ∃ m, s'.snapOf name = some m ∧ m.ts = t := by
  unfold snapshot at h
  split at h
  · simp at h
  · split at h
    · simp at h
    · rename_i hts
      split at h
      · simp at h
      · simp only at h
        split at h
        · simp at h
        · rename_i m hm
          simp only [Prod.mk.injEq, Except.ok.injEq] at h
          obtain ⟨hs', ht⟩ := h
          subst hs'
          refine ⟨?_, by simp [snapOf], ⟨m, by simp [snapOf], ht⟩⟩
          rw [← ht]
          have hts' : ts ≤ s.cur.ts := by omega
          exact prepareSnap_lastSnap_ts s ts m hts' hm

end TState
end ImmuModel.Index
