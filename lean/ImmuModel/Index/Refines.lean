/-
C04 — the predicates the property theorems are stated with (definitions only, core Lean).
-/
import ImmuModel.Index.Indexer
namespace ImmuModel.Index.L

/-- keys strictly increasing (`bytes.Compare`) -/
def Sorted {V : Type} (m : MVMap V) : Prop := m.Pairwise (fun a b => lexLt a.1 b.1 = true)

/-- transaction ids strictly increasing and above `lo` (ids `1..n` in particular) -/
def IdsAbove : Nat → List Tx → Prop
  | _, [] => True
  | lo, tx :: rest => lo < tx.id ∧ IdsAbove tx.id rest

/-- A grouping of the log the indexer loop can produce with `IndexOptions.MaxBulkSize = B`: every call of
`indexSince` gathers at least one and at most `sp.maxBulk B` transactions (how many of the allowed ones
depends on timing: `AdaptiveBulkSize`, `BulkPreparationTimeout`, the memory semaphore). -/
def BulksOf (sp : Spec) (B : Nat) (bulks : List (List Tx)) : Prop :=
  ∀ b ∈ bulks, b ≠ [] ∧ b.length ≤ sp.maxBulk B

/-- A transaction the indexer can digest (what `indexSince` needs in order not to fail, and what
`BulkInsert` needs in order not to drop a version):
 * every produced key is non-empty and carries the target prefix (the mapper honours `TargetPrefix`);
 * within the transaction no two produced KVTs hit the same target key
   (tbtree ignores a second value of a key with the same ts);
 * `ReadTxEntry(prevTxID, key)` succeeds whenever the injective branch needs it. -/
def TxOk (sp : Spec) (env : Env) (tx : Tx) : Prop :=
  (∀ kv ∈ txEvents sp env tx, kv.k ≠ [] ∧ hasPrefix kv.k sp.tgtPrefix = true) ∧
  ((txEvents sp env tx).map (fun kv => kv.k)).Nodup ∧
  (sp.injective = true → ∀ e ∈ tx.entries, ∀ p,
      env.srcPrev (tx.id - 1) (mapKey sp.smap e.key e.value) = some p → (env.readEntry p e.key).isSome = true)

/-- the tree holds exactly what the log says (and is a proper sorted map) -/
structure Refines (tr : Tree IVal) (sp : Spec) (env : Env) (txs : List Tx) : Prop where
  sorted : Sorted tr.m
  view : ∀ k, versions tr.m k = LogView sp env txs k
  keys : ∀ kv ∈ tr.m, kv.2 ≠ []

/-- newest version exists and is not a logical delete -/
def Live (vs : Vers IVal) : Prop := ∃ t v older, vs = (t, v) :: older ∧ v.md.deleted = false

/-! ### the environment of a secondary index whose source is the plain index over the same rows -/

/-- is `e` visible in the plain (identity) index over `srcPrefix`? -/
def Entry.inSource (srcPrefix : Bytes) (e : Entry) : Bool :=
  !e.md.nonIndexable && hasPrefix e.key srcPrefix

/-- newest tx `<= b` holding an indexable entry for row `r` -/
def prevTxOf (srcPrefix : Bytes) (txs : List Tx) (b : Nat) (r : Bytes) : Option Nat :=
  (((txs.filter (fun tx => decide (tx.id ≤ b) && tx.entries.any (fun e => e.inSource srcPrefix && e.key == r))).map
    (fun tx => tx.id)).getLast?)

def entryOf (txs : List Tx) (p : Nat) (k : Bytes) : Option Entry :=
  match txs.find? (fun tx => tx.id == p) with
  | none => none
  | some tx => tx.entries.find? (fun e => e.key == k)

/-- `srcPrev`/`readEntry` answered from the log itself: the source index is the identity index on `srcPrefix`
(already proven to agree with the log by `index_refines_log`). -/
def envOfLog (srcPrefix : Bytes) (txs : List Tx) : Env :=
  { srcPrev := prevTxOf srcPrefix txs, readEntry := entryOf txs }

end ImmuModel.Index.L
