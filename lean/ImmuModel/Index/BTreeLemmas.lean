/-
C10 — refinement lemmas: the B+tree model (`Index/BTree.lean`) against the specification (`MVMap`).
Proof file.
-/
import ImmuModel.Index.BTree
import ImmuModel.Index.MVMapLemmas

namespace ImmuModel.Index
namespace Node
open MVMap

/-! ### lists: insertEntries / findE across a concatenation -/

theorem insertEntries_append_left {k v : Bytes} {t : Nat} (A R : List Entry)
    (hA : ∀ x ∈ A, bcmp x.key k = .lt) :
    insertEntries k v t (A ++ R) = (match insertEntries k v t R with
      | .ok r => .ok (A ++ r)
      | .error x => .error x) := by
  induction A with
  | nil => simp; cases insertEntries k v t R <;> rfl
  | cons a rest ih =>
    have ha : bcmp k a.key = .gt := (bcmp_swap _ _).mp (hA a (by simp))
    have ih' := ih (fun x hx => hA x (by simp [hx]))
    simp only [List.cons_append, insertEntries, ha, ih']
    cases insertEntries k v t R <;> rfl

theorem insertEntries_append_right {k v : Bytes} {t : Nat} (A R : List Entry)
    (hR : ∀ x ∈ R, bcmp k x.key = .lt) :
    insertEntries k v t (A ++ R) = (match insertEntries k v t A with
      | .ok r => .ok (r ++ R)
      | .error x => .error x) := by
  induction A with
  | nil =>
    cases R with
    | nil => simp [insertEntries]
    | cons r rest =>
      have := hR r (by simp)
      simp [insertEntries, this]
  | cons a rest ih =>
    simp only [List.cons_append, insertEntries]
    cases hc : bcmp k a.key with
    | lt => simp
    | eq =>
      simp only
      split
      · rfl
      · split <;> simp
    | gt =>
      simp only [ih]
      cases insertEntries k v t rest <;> rfl

theorem findE_append_left {k : Bytes} (A R : List Entry) (hA : ∀ x ∈ A, bcmp x.key k = .lt) :
    findE k (A ++ R) = findE k R := by
  induction A with
  | nil => rfl
  | cons a rest ih =>
    have hne : ¬ a.key = k := by
      intro h
      have := hA a (by simp)
      rw [h, bcmp_refl] at this
      simp at this
    simp only [findE, List.cons_append]
    rw [List.find?_cons_of_neg (by simpa using hne)]
    exact ih (fun x hx => hA x (by simp [hx]))

theorem findE_append_right {k : Bytes} (A R : List Entry) (hR : ∀ x ∈ R, bcmp k x.key = .lt) :
    findE k (A ++ R) = findE k A := by
  have hnone : findE k R = none := findE_none_of_lt hR
  unfold findE at hnone ⊢
  rw [List.find?_append, hnone]
  simp

/-! ### structure of the tree -/

theorem absList_append (a b : List Node) : absList (a ++ b) = absList a ++ absList b := by
  induction a with
  | nil => simp [absList]
  | cons c cs ih => simp [absList, ih]

mutual
/-- Every inner node has a child and no child is empty. -/
def Kids : Node → Prop
  | .leaf _ _ => True
  | .inner cs _ => cs ≠ [] ∧ KidsList cs
def KidsList : List Node → Prop
  | [] => True
  | c :: cs => c.abs ≠ [] ∧ Kids c ∧ KidsList cs
end

/-- The invariant of the implementation model. -/
def Inv (n : Node) : Prop := Sorted n.abs ∧ Kids n

theorem kidsList_append (a b : List Node) : KidsList (a ++ b) ↔ KidsList a ∧ KidsList b := by
  induction a with
  | nil => simp [KidsList]
  | cons c cs ih => simp [KidsList, ih, and_assoc]

theorem kidsList_absList_ne (cs : List Node) (h : KidsList cs) (hne : cs ≠ []) : absList cs ≠ [] := by
  cases cs with
  | nil => exact absurd rfl hne
  | cons c rest =>
    simp only [KidsList] at h
    simp only [absList]
    intro h0
    exact h.1 (List.append_eq_nil_iff.mp h0).1

mutual
theorem minKey_eq_head (n : Node) (hk : Kids n) (hne : n.abs ≠ []) :
    ∃ e rest, n.abs = e :: rest ∧ n.minKey = e.key := by
  cases n with
  | leaf vs t =>
    cases vs with
    | nil => simp [abs] at hne
    | cons e rest => exact ⟨e, rest, rfl, rfl⟩
  | inner cs t =>
    simp only [Kids] at hk
    simp only [abs, minKey] at hne ⊢
    exact minKeyList_eq_head cs hk.2 hk.1
theorem minKeyList_eq_head (cs : List Node) (hk : KidsList cs) (hne : cs ≠ []) :
    ∃ e rest, absList cs = e :: rest ∧ minKeyList cs = e.key := by
  cases cs with
  | nil => exact absurd rfl hne
  | cons c rest =>
    simp only [KidsList] at hk
    obtain ⟨e, r, h1, h2⟩ := minKey_eq_head c hk.2.1 hk.1
    exact ⟨e, r ++ absList rest, by simp [absList, h1], by simp [minKeyList, h2]⟩
end

/-! ### splits keep the content -/

theorem splitIndex_bounds (n : Nat) (h : 2 ≤ n) : 1 ≤ splitIndex n ∧ splitIndex n < n := by
  unfold splitIndex
  split <;> omega

theorem splitParts_singleton_none {α : Type} (size : List α → Nat) (tsOf : List α → Nat) (max : Nat)
    (x : α) (hbig : ¬ size [x] ≤ max) (fuel ts : Nat) : splitParts size tsOf max fuel [x] ts = none := by
  induction fuel generalizing ts with
  | zero => unfold splitParts; simp [hbig]
  | succ f ih =>
    unfold splitParts
    simp only [hbig, if_false]
    have : splitIndex [x].length = 1 := by simp [splitIndex]
    simp only [this, List.take_succ_cons, List.take_zero, ih]

theorem splitParts_spec {α : Type} (size : List α → Nat) (tsOf : List α → Nat) (max : Nat)
    (fuel : Nat) (xs : List α) (ts : Nat) (ps : List (List α × Nat))
    (h : splitParts size tsOf max fuel xs ts = some ps) :
    (ps.map (·.1)).flatten = xs ∧ (xs ≠ [] → ∀ p ∈ ps, p.1 ≠ []) := by
  induction fuel generalizing xs ts ps with
  | zero =>
    unfold splitParts at h
    split at h
    · simp at h; subst h; simp
    · simp at h
  | succ f ih =>
    unfold splitParts at h
    split at h
    · simp at h; subst h; simp
    · rename_i hbig
      simp only at h
      split at h
      · rename_i a b ha hb
        simp at h; subst h
        obtain ⟨a1, a2⟩ := ih _ _ _ ha
        obtain ⟨b1, b2⟩ := ih _ _ _ hb
        refine ⟨by simp [a1, b1], ?_⟩
        intro hne p hp
        -- both halves are non-empty: the list has at least two elements
        have hlen : 2 ≤ xs.length := by
          match xs, hne with
          | [x], _ =>
            exfalso
            have := splitParts_singleton_none size tsOf max x hbig f (tsOf (List.take (splitIndex [x].length) [x]))
            have h1 : List.take (splitIndex [x].length) [x] = [x] := by simp [splitIndex]
            rw [h1] at ha
            rw [splitParts_singleton_none size tsOf max x hbig] at ha
            simp at ha
          | _ :: _ :: _, _ => simp
        obtain ⟨i1, i2⟩ := splitIndex_bounds xs.length hlen
        have ht : xs.take (splitIndex xs.length) ≠ [] := by
          intro h0
          have := congrArg List.length h0
          rw [List.length_take, List.length_nil] at this
          omega
        have hd : xs.drop (splitIndex xs.length) ≠ [] := by
          intro h0
          have := congrArg List.length h0
          rw [List.length_drop, List.length_nil] at this
          omega
        rcases List.mem_append.mp hp with h1 | h1
        · exact a2 ht p h1
        · exact b2 hd p h1
      · simp at h

theorem absList_leaves (ps : List (List Entry × Nat)) :
    absList (ps.map (fun p => Node.leaf p.1 p.2)) = (ps.map (·.1)).flatten := by
  induction ps with
  | nil => rfl
  | cons p rest ih => simp [absList, abs, ih]

theorem absList_inners (ps : List (List Node × Nat)) :
    absList (ps.map (fun p => Node.inner p.1 p.2)) = absList (ps.map (·.1)).flatten := by
  induction ps with
  | nil => rfl
  | cons p rest ih => simp [absList, abs, ih, absList_append]

theorem kidsList_flatten (L : List (List Node)) (h : KidsList L.flatten) : ∀ p ∈ L, KidsList p := by
  induction L with
  | nil => simp
  | cons a rest ih =>
    simp only [List.flatten_cons] at h
    have := (kidsList_append _ _).mp h
    intro p hp
    simp at hp
    rcases hp with rfl | hp
    · exact this.1
    · exact ih this.2 p hp

theorem splitLeaf_spec (max fuel : Nat) (vs : List Entry) (ts : Nat) (ns : List Node)
    (h : splitLeaf max fuel vs ts = some ns) : absList ns = vs ∧ (vs ≠ [] → KidsList ns ∧ ns ≠ []) := by
  unfold splitLeaf at h
  cases hp : splitParts leafSize valsTs max fuel vs ts with
  | none => simp [hp] at h
  | some ps =>
    simp [hp] at h
    subst h
    obtain ⟨h1, h2⟩ := splitParts_spec _ _ _ _ _ _ _ hp
    refine ⟨by rw [absList_leaves, h1], ?_⟩
    intro hne
    have hall := h2 hne
    constructor
    · clear hp h1 h2
      induction ps with
      | nil => simp [KidsList]
      | cons p rest ih =>
        simp only [List.map_cons, KidsList, abs, Kids, true_and]
        exact ⟨hall p (by simp), ih (fun q hq => hall q (by simp [hq]))⟩
    · intro h0
      simp at h0
      subst h0
      simp at h1
      exact hne h1

theorem splitInner_spec (max fuel : Nat) (cs : List Node) (ts : Nat) (ns : List Node)
    (h : splitInner max fuel cs ts = some ns) :
    absList ns = absList cs ∧ (cs ≠ [] → KidsList cs → KidsList ns ∧ ns ≠ []) := by
  unfold splitInner at h
  cases hp : splitParts innerSize nodesTs max fuel cs ts with
  | none => simp [hp] at h
  | some ps =>
    simp [hp] at h
    subst h
    obtain ⟨h1, h2⟩ := splitParts_spec _ _ _ _ _ _ _ hp
    refine ⟨by rw [absList_inners, h1], ?_⟩
    intro hne hk
    have hall := h2 hne
    have hparts : ∀ p ∈ ps.map (·.1), KidsList p := kidsList_flatten _ (by rw [h1]; exact hk)
    constructor
    · clear hp h1 h2
      induction ps with
      | nil => simp [KidsList]
      | cons p rest ih =>
        have hp1 : KidsList p.1 := hparts p.1 (by simp)
        have hpne : p.1 ≠ [] := hall p (by simp)
        simp only [List.map_cons, KidsList, abs, Kids]
        refine ⟨kidsList_absList_ne p.1 hp1 hpne, ⟨hpne, hp1⟩, ?_⟩
        exact ih (fun q hq => hall q (by simp [hq])) (fun q hq => hparts q (by simp at hq ⊢; right; exact hq))
    · intro h0
      simp at h0
      subst h0
      simp at h1
      exact hne h1

/-! ### routing -/

theorem bcmp_lt_of_lt_of_le {a b c : Bytes} (h1 : bcmp a b = .lt) (h2 : bcmp b c ≠ .gt) : bcmp a c = .lt := by
  cases hc : bcmp b c with
  | lt => exact bcmp_lt_trans h1 hc
  | eq => rw [(bcmp_eq_iff _ _).mp hc] at h1; exact h1
  | gt => exact absurd hc h2

/-- In a sorted concatenation `A ++ R` whose right part starts with key `m`: everything in `A` is below `m`. -/
theorem left_lt_head {A R : List Entry} {e : Entry} {rest : List Entry} (hs : Sorted (A ++ R)) (hR : R = e :: rest) :
    ∀ x ∈ A, bcmp x.key e.key = .lt := by
  intro x hx
  have := List.pairwise_append.mp hs
  exact this.2.2 x hx e (by rw [hR]; simp)

/-- In a sorted list starting with key `m > k` every key is above `k`. -/
theorem all_gt_of_head_gt {R : List Entry} {e : Entry} {rest : List Entry} {k : Bytes} (hs : Sorted R) (hR : R = e :: rest)
    (hgt : bcmp e.key k = .gt) : ∀ x ∈ R, bcmp k x.key = .lt := by
  intro x hx
  have hke : bcmp k e.key = .lt := (bcmp_gt_iff _ _).mp hgt
  rw [hR] at hx hs
  simp at hx
  rcases hx with rfl | hx
  · exact hke
  · exact bcmp_lt_trans hke ((List.pairwise_cons.mp hs).1 x hx)

theorem sorted_append_left {A R : List Entry} (hs : Sorted (A ++ R)) : Sorted A := (List.pairwise_append.mp hs).1
theorem sorted_append_right {A R : List Entry} (hs : Sorted (A ++ R)) : Sorted R := (List.pairwise_append.mp hs).2.1

/-! ### single-entry insert refines the specification -/

theorem insertEntries_ne_nil {k v : Bytes} {t : Nat} {es r : List Entry} (h : insertEntries k v t es = .ok r) : r ≠ [] := by
  cases es with
  | nil => simp [insertEntries] at h; subst h; simp
  | cons e rest =>
    unfold insertEntries at h
    split at h
    · simp at h; subst h; simp
    · split at h
      · simp at h
      · split at h <;> (simp at h; subst h; simp)
    · split at h
      · simp at h; subst h; simp
      · simp at h

theorem insertChildren_nil (max : Nat) : ∀ cs : List Node, insertChildren max cs [] = .ok (cs, 0)
  | [] => by simp [insertChildren]
  | [c] => by simp [insertChildren]
  | c :: c1 :: cs => by
    have := insertChildren_nil max (c1 :: cs)
    simp [insertChildren, goHere, goLater, this]

/-- `r` (nodes replacing a subtree) refines `s` (the specification's result on that subtree's entries):
same entries, structure intact; an implementation error is the specification's error — or `.other`,
the split that cannot make progress. -/
def RefinesL (r : Except Err (List Node)) (s : Except Err (List Entry)) : Prop :=
  match r with
  | .ok ns => s = .ok (absList ns) ∧ KidsList ns ∧ ns ≠ []
  | .error x => x = .other ∨ s = .error x

mutual
theorem insert_refinesL (max : Nat) (n : Node) (k v : Bytes) (t : Nat) (hs : Sorted n.abs) (hk : Kids n) :
    RefinesL (n.insert max [(k, v, t)]) (insertEntries k v t n.abs) := by
  cases n with
  | leaf vs ts =>
    simp only [insert, insertAll, abs]
    cases he : insertEntries k v t vs with
    | error x => simp [RefinesL]
    | ok vs' =>
      simp only
      cases hsp : splitLeaf max vs'.length vs' _ with
      | none => simp [RefinesL]
      | some ns =>
        obtain ⟨h1, h2⟩ := splitLeaf_spec _ _ _ _ _ hsp
        obtain ⟨h3, h4⟩ := h2 (insertEntries_ne_nil he)
        simp [RefinesL, h1, h3, h4]
  | inner cs ts =>
    simp only [Kids] at hk
    simp only [abs] at hs
    have ih := insertChildren_refinesL max cs k v t hs hk.2 hk.1
    simp only [insert, abs]
    cases hc : insertChildren max cs [(k, v, t)] with
    | error x =>
      rw [hc] at ih
      simpa [RefinesL, Except.map] using ih
    | ok p =>
      obtain ⟨cs', t'⟩ := p
      rw [hc] at ih
      simp only [RefinesL, Except.map] at ih
      obtain ⟨i1, i2, i3⟩ := ih
      simp only
      cases hsp : splitInner max cs'.length cs' _ with
      | none => simp [RefinesL]
      | some ns =>
        obtain ⟨h1, h2⟩ := splitInner_spec _ _ _ _ _ hsp
        obtain ⟨h3, h4⟩ := h2 i3 i2
        simp [RefinesL, h1, h3, h4, i1]
theorem insertChildren_refinesL (max : Nat) (cs : List Node) (k v : Bytes) (t : Nat)
    (hs : Sorted (absList cs)) (hk : KidsList cs) (hne : cs ≠ []) :
    RefinesL ((insertChildren max cs [(k, v, t)]).map (·.1)) (insertEntries k v t (absList cs)) := by
  match cs, hne with
  | [c], _ =>
    simp only [KidsList] at hk
    simp only [absList, List.append_nil] at hs ⊢
    have ih := insert_refinesL max c k v t hs hk.2.1
    simp only [insertChildren, List.isEmpty_cons, Bool.false_eq_true, if_false]
    cases hc : c.insert max [(k, v, t)] with
    | error x => rw [hc] at ih; simpa [RefinesL, Except.map] using ih
    | ok ns => rw [hc] at ih; simpa [RefinesL, Except.map] using ih
  | c :: c1 :: rest, _ =>
    simp only [KidsList] at hk
    obtain ⟨hk1, hk2, hk3⟩ := hk
    have hkR : KidsList (c1 :: rest) := hk3
    simp only [absList] at hs
    have hsR : Sorted (absList (c1 :: rest)) := sorted_append_right hs
    obtain ⟨e, r', hR, hmin⟩ := minKeyList_eq_head (c1 :: rest) hkR (by simp)
    simp only [minKeyList] at hmin
    by_cases hgt : bcmp c1.minKey k = .gt
    · -- the entry goes to `c`
      have hallR : ∀ x ∈ absList (c1 :: rest), bcmp k x.key = .lt :=
        all_gt_of_head_gt hsR hR (by rw [← hmin]; exact hgt)
      have ih := insert_refinesL max c k v t (sorted_append_left hs) hk2
      have hspec := insertEntries_append_right (k := k) (v := v) (t := t) c.abs (absList (c1 :: rest)) hallR
      simp only [insertChildren, goHere, goLater, List.filter, hgt, beq_self_eq_true, bne_self_eq_false,
        List.isEmpty_cons, Bool.false_eq_true, if_false, insertChildren_nil]
      simp only [absList] at hspec ⊢
      cases hc : c.insert max [(k, v, t)] with
      | error x =>
        rw [hc] at ih
        simp only [RefinesL] at ih
        rcases ih with h | h
        · simp [RefinesL, Except.map, h]
        · simp [RefinesL, Except.map, hspec, h]
      | ok ns =>
        rw [hc] at ih
        simp only [RefinesL] at ih
        obtain ⟨i1, i2, i3⟩ := ih
        simp only [RefinesL, Except.map]
        refine ⟨?_, ?_, by simp [i3]⟩
        · rw [hspec, i1]; simp [absList_append, absList]
        · exact (kidsList_append _ _).mpr ⟨i2, hkR⟩
    · -- the entry goes further right
      have hle : bcmp c1.minKey k ≠ .gt := hgt
      have hallA : ∀ x ∈ c.abs, bcmp x.key k = .lt := by
        intro x hx
        have h1 := left_lt_head hs hR x hx
        rw [← hmin] at h1
        exact bcmp_lt_of_lt_of_le h1 hle
      have ih := insertChildren_refinesL max (c1 :: rest) k v t hsR hkR (by simp)
      have hspec := insertEntries_append_left (k := k) (v := v) (t := t) c.abs (absList (c1 :: rest)) hallA
      have hb1 : (bcmp c1.minKey k == Ordering.gt) = false := by simpa using hle
      have hb2 : (bcmp c1.minKey k != Ordering.gt) = true := by simpa using hle
      simp only [insertChildren, goHere, goLater, List.filter, hb1, hb2, List.isEmpty_nil, if_true]
      simp only [absList] at hspec ⊢
      cases hc : insertChildren max (c1 :: rest) [(k, v, t)] with
      | error x =>
        rw [hc] at ih
        simp only [RefinesL, Except.map] at ih
        rcases ih with h | h
        · simp [RefinesL, Except.map, h]
        · simp only [absList] at h
          simp [RefinesL, Except.map, hspec, h]
      | ok p =>
        obtain ⟨rest', t2⟩ := p
        rw [hc] at ih
        simp only [RefinesL, Except.map] at ih
        obtain ⟨i1, i2, i3⟩ := ih
        simp only [absList] at i1
        simp only [RefinesL, Except.map]
        refine ⟨?_, ?_, by simp⟩
        · rw [hspec, i1]; simp [absList]
        · simp only [List.singleton_append, KidsList]
          exact ⟨hk1, hk2, i2⟩
end

theorem growRoot_spec (max newTs : Nat) (fuel : Nat) (ns : List Node) (n : Node)
    (hk : KidsList ns) (hne : ns ≠ []) (h : growRoot max newTs fuel ns = some n) :
    n.abs = absList ns ∧ Kids n := by
  induction fuel generalizing ns with
  | zero =>
    match ns, hne with
    | [m], _ =>
      simp [growRoot] at h; subst h
      simp only [KidsList] at hk
      exact ⟨by simp [absList], hk.2.1⟩
    | _ :: _ :: _, _ => simp [growRoot] at h
  | succ f ih =>
    match ns, hne with
    | [m], _ =>
      simp [growRoot] at h; subst h
      simp only [KidsList] at hk
      exact ⟨by simp [absList], hk.2.1⟩
    | a :: b :: rest, _ =>
      simp only [growRoot] at h
      split at h
      · rename_i ns' hsp
        obtain ⟨h1, h2⟩ := splitInner_spec _ _ _ _ _ hsp
        obtain ⟨h3, h4⟩ := h2 (by simp) hk
        obtain ⟨g1, g2⟩ := ih ns' h3 h4 h
        exact ⟨by rw [g1, h1], g2⟩
      · simp at h

/-- **Single insert through the root (with root growth) refines the specification and keeps the invariant.** -/
theorem insertRoot_refines (max : Nat) (root : Node) (k v : Bytes) (t : Nat) (hinv : Inv root) :
    match insertRoot max root [(k, v, t)] with
    | .ok root' => insertEntries k v t root.abs = .ok root'.abs ∧ Inv root'
    | .error x => x = .other ∨ insertEntries k v t root.abs = .error x := by
  have h := insert_refinesL max root k v t hinv.1 hinv.2
  unfold insertRoot
  cases hi : root.insert max [(k, v, t)] with
  | error x => rw [hi] at h; simpa [RefinesL] using h
  | ok ns =>
    rw [hi] at h
    simp only [RefinesL] at h
    obtain ⟨h1, h2, h3⟩ := h
    simp only
    cases hg : growRoot max _ (ns.length + 1) ns with
    | none => simp
    | some n =>
      obtain ⟨g1, g2⟩ := growRoot_spec _ _ _ _ _ h2 h3 hg
      simp only
      refine ⟨by rw [h1, g1], ?_, g2⟩
      rw [g1]
      exact insertEntries_sorted hinv.1 h1

mutual
theorem find_refines (n : Node) (k : Bytes) (hs : Sorted n.abs) (hk : Kids n) : n.find k = findE k n.abs := by
  cases n with
  | leaf vs ts => simp [find, abs, findE]
  | inner cs ts =>
    simp only [Kids] at hk
    simp only [find, abs] at hs ⊢
    exact findList_refines cs k hs hk.2 hk.1
theorem findList_refines (cs : List Node) (k : Bytes) (hs : Sorted (absList cs)) (hk : KidsList cs) (hne : cs ≠ []) :
    findList k cs = findE k (absList cs) := by
  match cs, hne with
  | [c], _ =>
    simp only [KidsList] at hk
    simp only [absList, List.append_nil] at hs ⊢
    simp only [findList]
    exact find_refines c k hs hk.2.1
  | c :: c1 :: rest, _ =>
    simp only [KidsList] at hk
    obtain ⟨hk1, hk2, hk3⟩ := hk
    have hkR : KidsList (c1 :: rest) := hk3
    simp only [absList] at hs
    have hsR : Sorted (absList (c1 :: rest)) := sorted_append_right hs
    obtain ⟨e, r', hR, hmin⟩ := minKeyList_eq_head (c1 :: rest) hkR (by simp)
    simp only [minKeyList] at hmin
    simp only [findList]
    by_cases hgt : bcmp c1.minKey k = .gt
    · have hallR : ∀ x ∈ absList (c1 :: rest), bcmp k x.key = .lt :=
        all_gt_of_head_gt hsR hR (by rw [← hmin]; exact hgt)
      simp only [hgt, beq_self_eq_true, if_true]
      rw [find_refines c k (sorted_append_left hs) hk2]
      simp only [absList] at hallR ⊢
      exact (findE_append_right _ _ hallR).symm
    · have hle : bcmp c1.minKey k ≠ .gt := hgt
      have hallA : ∀ x ∈ c.abs, bcmp x.key k = .lt := by
        intro x hx
        have h1 := left_lt_head hs hR x hx
        rw [← hmin] at h1
        exact bcmp_lt_of_lt_of_le h1 hle
      have hb1 : (bcmp c1.minKey k == Ordering.gt) = false := by simpa using hle
      simp only [hb1, Bool.false_eq_true, if_false]
      rw [findList_refines (c1 :: rest) k hsR hkR (by simp)]
      simp only [absList]
      exact (findE_append_left _ _ hallA).symm
end

end Node
end ImmuModel.Index
