/-
C04 — helper lemmas and proofs: the indexer model refines the log view for every bulk partition.
-/
import ImmuModel.Index.Refines
namespace ImmuModel.Index.L.RefineAux
open ImmuModel ImmuModel.Index.L

-- ---------------------------------------------------------------- the sorted multi-version map

theorem versions_eq_nil_of_lt {V : Type} (m : MVMap V) (k : Key)
    (h : ∀ e ∈ m, lexLt k e.1 = true) : versions m k = [] := by
  induction m with
  | nil => rfl
  | cons a rest ih =>
    obtain ⟨k', vs⟩ := a
    have h1 : lexLt k k' = true := h (k', vs) (by simp)
    have hne : k' ≠ k := by intro e; subst e; simp at h1
    simp only [versions, hne, if_false]
    exact ih (fun e he => h e (by simp [he]))

theorem pushVer_of_lt {V : Type} (t : Nat) (v : V) (vs : Vers V) (h : ∀ p ∈ vs, p.1 < t) :
    pushVer t v vs = some ((t, v) :: vs) := by
  cases vs with
  | nil => rfl
  | cons p vs =>
    obtain ⟨t0, v0⟩ := p
    have h0 : t0 < t := h (t0, v0) (by simp)
    have h1 : ¬ t < t0 := by omega
    simp [pushVer, h0, h1]

theorem insert1_spec {V : Type} (k : Key) (t : Nat) (v : V) (m : MVMap V)
    (hs : Sorted m) (hlt : ∀ p ∈ versions m k, p.1 < t) :
    ∃ m', insert1 k t v m = some m' ∧ Sorted m' ∧
      versions m' k = (t, v) :: versions m k ∧
      (∀ k', k' ≠ k → versions m' k' = versions m k') ∧
      (∀ e ∈ m', e.1 = k ∨ ∃ e' ∈ m, e'.1 = e.1) ∧
      ((∀ e ∈ m, e.2 ≠ []) → ∀ e ∈ m', e.2 ≠ []) := by
  induction m with
  | nil =>
    refine ⟨[(k, [(t, v)])], rfl, ?_, ?_, ?_, ?_, ?_⟩
    · simp [Sorted]
    · simp [versions]
    · intro k' hk; simp [versions, Ne.symm hk]
    · intro e he; simp at he; simp [he]
    · intro _ e he; simp at he; simp [he]
  | cons a rest ih =>
    obtain ⟨k', vs⟩ := a
    have hs' := hs
    unfold Sorted at hs'
    rw [List.pairwise_cons] at hs'
    obtain ⟨hs1, hs2⟩ := hs'
    by_cases c1 : lexLt k k' = true
    · have hall : ∀ e ∈ (k', vs) :: rest, lexLt k e.1 = true := by
        intro e he
        rcases List.mem_cons.mp he with rfl | he
        · exact c1
        · exact lexLt_trans c1 (hs1 e he)
      refine ⟨(k, [(t, v)]) :: (k', vs) :: rest, by simp [insert1, c1], ?_, ?_, ?_, ?_, ?_⟩
      · unfold Sorted; rw [List.pairwise_cons]; exact ⟨hall, hs⟩
      · rw [versions_eq_nil_of_lt _ k hall]; simp [versions]
      · intro k'' hk
        have : ¬ k = k'' := fun e => hk e.symm
        simp [versions, this]
      · intro e he
        rcases List.mem_cons.mp he with rfl | he
        · exact Or.inl rfl
        · exact Or.inr ⟨e, he, rfl⟩
      · intro hn e he
        rcases List.mem_cons.mp he with rfl | he
        · simp
        · exact hn e he
    · have c1' : lexLt k k' = false := by simpa using c1
      by_cases c2 : lexLt k' k = true
      · have hne : k' ≠ k := by intro e; subst e; simp at c2
        have hv : versions ((k', vs) :: rest) k = versions rest k := by simp [versions, hne]
        rw [hv] at hlt
        obtain ⟨r, hr, hrs, hrv, hro, hrm, hrn⟩ := ih hs2 hlt
        refine ⟨(k', vs) :: r, by simp [insert1, c1', c2, hr], ?_, ?_, ?_, ?_, ?_⟩
        · unfold Sorted; rw [List.pairwise_cons]; refine ⟨?_, hrs⟩
          intro e he
          rcases hrm e he with h | ⟨e', he', h⟩
          · show lexLt k' e.1 = true
            rw [h]; exact c2
          · show lexLt k' e.1 = true
            rw [← h]; exact hs1 e' he'
        · rw [hv]; simp [versions, hne, hrv]
        · intro k'' hk
          by_cases c3 : k' = k''
          · simp [versions, c3]
          · simp [versions, c3, hro k'' hk]
        · intro e he
          rcases List.mem_cons.mp he with rfl | he
          · exact Or.inr ⟨_, List.mem_cons_self, rfl⟩
          · rcases hrm e he with h | ⟨e', he', h⟩
            · exact Or.inl h
            · exact Or.inr ⟨e', List.mem_cons_of_mem _ he', h⟩
        · intro hn e he
          rcases List.mem_cons.mp he with rfl | he
          · exact hn _ List.mem_cons_self
          · exact hrn (fun e he => hn e (List.mem_cons_of_mem _ he)) e he
      · have c2' : lexLt k' k = false := by simpa using c2
        have hkk : k = k' := lexLt_connex c1' c2'
        subst hkk
        have hv : versions ((k, vs) :: rest) k = vs := by simp [versions]
        rw [hv] at hlt
        refine ⟨(k, (t, v) :: vs) :: rest, by simp [insert1, pushVer_of_lt t v vs hlt], ?_, ?_, ?_, ?_, ?_⟩
        · unfold Sorted; rw [List.pairwise_cons]; exact ⟨hs1, hs2⟩
        · simp [versions]
        · intro k'' hk
          have : ¬ k = k'' := fun e => hk e.symm
          simp [versions, this]
        · intro e he
          rcases List.mem_cons.mp he with rfl | he
          · exact Or.inl rfl
          · exact Or.inr ⟨e, List.mem_cons_of_mem _ he, rfl⟩
        · intro hn e he
          rcases List.mem_cons.mp he with rfl | he
          · simp
          · exact hn e (List.mem_cons_of_mem _ he)

theorem insertAll_spec {V : Type} (E : List (KVT V)) : ∀ (m : MVMap V), Sorted m → (∀ e ∈ m, e.2 ≠ []) →
    E.Pairwise (fun a b => a.k = b.k → a.t < b.t) →
    (∀ e ∈ E, ∀ p ∈ versions m e.k, p.1 < e.t) →
    ∃ m', insertAll m E = some m' ∧ Sorted m' ∧ (∀ e ∈ m', e.2 ≠ []) ∧
      ∀ k, versions m' k =
        ((E.filter (fun kv => kv.k = k)).map (fun kv => (kv.t, kv.v))).reverse ++ versions m k := by
  induction E with
  | nil => intro m hs hn _ _; exact ⟨m, rfl, hs, hn, fun k => by simp⟩
  | cons e E ih =>
    intro m hs hn hp hlt
    rw [List.pairwise_cons] at hp
    obtain ⟨hp1, hp2⟩ := hp
    obtain ⟨m1, h1, hs1, hv1, ho1, _, hn1⟩ := insert1_spec e.k e.t e.v m hs (hlt e List.mem_cons_self)
    have hlt1 : ∀ e' ∈ E, ∀ p ∈ versions m1 e'.k, p.1 < e'.t := by
      intro e' he' p hp
      by_cases c : e'.k = e.k
      · rw [c, hv1] at hp
        rcases List.mem_cons.mp hp with rfl | hp
        · exact hp1 e' he' c.symm
        · exact hlt e' (List.mem_cons_of_mem _ he') p (c ▸ hp)
      · rw [ho1 _ c] at hp
        exact hlt e' (List.mem_cons_of_mem _ he') p hp
    obtain ⟨m', h2, hs2, hn2, hv2⟩ := ih m1 hs1 (hn1 hn) hp2 hlt1
    refine ⟨m', by simp [insertAll, h1, h2], hs2, hn2, ?_⟩
    intro k
    rw [hv2 k]
    by_cases c : e.k = k
    · subst c; simp [hv1]
    · have : k ≠ e.k := fun h => c h.symm
      simp [c, ho1 k this]

-- ---------------------------------------------------------------- model KVTs = spec events

theorem entryEvents_t (sp : Spec) (env : Env) (t asOf : Nat) (e : Entry) :
    ∀ kv ∈ entryEvents sp env t asOf e, kv.t = t := by
  intro kv hkv
  unfold entryEvents at hkv
  split at hkv
  · simp at hkv
  split at hkv
  · simp at hkv
  split at hkv
  · cases hsp : env.srcPrev asOf (mapKey sp.smap e.key e.value) with
    | none => simp [hsp] at hkv; subst hkv; rfl
    | some p =>
      cases hre : env.readEntry p e.key with
      | none => simp [hsp, hre] at hkv; subst hkv; rfl
      | some pe =>
        simp only [hsp, hre] at hkv
        split at hkv
        · simp at hkv; subst hkv; rfl
        · simp at hkv; rcases hkv with rfl | rfl <;> rfl
  · simp at hkv; subst hkv; rfl

theorem entryKVTs_eq (sp : Spec) (env : Env) (start t : Nat) (e : Entry)
    (hstart : sp.injective = false ∨ start = t)
    (hpfx : ∀ kv ∈ entryEvents sp env t (t - 1) e, hasPrefix kv.k sp.tgtPrefix = true)
    (hrd : sp.injective = true → ∀ p,
      env.srcPrev (t - 1) (mapKey sp.smap e.key e.value) = some p → (env.readEntry p e.key).isSome = true) :
    entryKVTs sp env start t e = .ok (entryEvents sp env t (t - 1) e) := by
  have hcur : sp.injective = false ∨ start = t := hstart
  unfold entryKVTs
  unfold entryEvents at hpfx ⊢
  by_cases c1 : e.md.nonIndexable = true
  · simp [c1]
  · by_cases c2 : hasPrefix e.key sp.srcPrefix = true
    · simp only [c1, c2] at hpfx ⊢
      simp only [Bool.false_eq_true, if_false, Bool.not_true] at hpfx ⊢
      rcases hcur with hinj | hc
      · simp only [hinj, Bool.false_and, Bool.false_eq_true, if_false] at hpfx ⊢
        have := hpfx _ (List.mem_singleton.mpr rfl)
        simp [this]
      · simp only [hc]
        by_cases c3 : sp.injective = true
        · by_cases c4 : 1 < t
          · have c4' : 0 < t - 1 := by omega
            simp only [c3, c4, c4', decide_true, Bool.and_self, if_true] at hpfx ⊢
            cases hsp : env.srcPrev (t - 1) (mapKey sp.smap e.key e.value) with
            | none =>
              simp only [hsp] at hpfx ⊢
              have := hpfx _ (List.mem_singleton.mpr rfl)
              simp [this]
            | some p =>
              have hr := hrd c3 p hsp
              simp only [hsp] at hpfx ⊢
              cases hre : env.readEntry p e.key with
              | none => simp [hre] at hr
              | some pe =>
                simp only [hre] at hpfx ⊢
                by_cases c5 : mapKey sp.tmap (mapKey sp.smap e.key e.value) e.value =
                    mapKey sp.tmap (mapKey sp.smap e.key e.value) pe.value
                · simp only [c5, if_true] at hpfx ⊢
                  have := hpfx _ (List.mem_singleton.mpr rfl)
                  simp [this]
                · simp only [c5, if_false] at hpfx ⊢
                  have h1 := hpfx _ List.mem_cons_self
                  have h2 := hpfx _ (List.mem_cons_of_mem _ List.mem_cons_self)
                  simp at h1 h2
                  simp [h1, h2]
          · have c4' : ¬ 0 < t - 1 := by omega
            simp only [c4, c4', decide_false, Bool.and_false, Bool.false_eq_true, if_false] at hpfx ⊢
            have := hpfx _ (List.mem_singleton.mpr rfl)
            simp [this]
        · have c3' : sp.injective = false := by simpa using c3
          simp only [c3', Bool.false_and, Bool.false_eq_true, if_false] at hpfx ⊢
          have := hpfx _ (List.mem_singleton.mpr rfl)
          simp [this]
    · simp [c1, c2]

theorem entriesKVTs_eq (sp : Spec) (env : Env) (start t : Nat) (es : List Entry)
    (hstart : sp.injective = false ∨ start = t)
    (hpfx : ∀ e ∈ es, ∀ kv ∈ entryEvents sp env t (t - 1) e, hasPrefix kv.k sp.tgtPrefix = true)
    (hrd : sp.injective = true → ∀ e ∈ es, ∀ p,
      env.srcPrev (t - 1) (mapKey sp.smap e.key e.value) = some p → (env.readEntry p e.key).isSome = true) :
    entriesKVTs sp env start t es = .ok (es.flatMap (entryEvents sp env t (t - 1))) := by
  induction es with
  | nil => rfl
  | cons e es ih =>
    have h1 := entryKVTs_eq sp env start t e hstart (hpfx e List.mem_cons_self)
      (fun hi => hrd hi e List.mem_cons_self)
    have h2 := ih (fun e' he' => hpfx e' (List.mem_cons_of_mem _ he'))
      (fun hi e' he' => hrd hi e' (List.mem_cons_of_mem _ he'))
    simp [entriesKVTs, h1, h2]

theorem txKVTs_eq (sp : Spec) (env : Env) (start : Nat) (tx : Tx)
    (hstart : sp.injective = false ∨ start = tx.id) (hok : TxOk sp env tx) :
    entriesKVTs sp env start tx.id tx.entries = .ok (txEvents sp env tx) := by
  obtain ⟨h1, _, h3⟩ := hok
  apply entriesKVTs_eq sp env start tx.id tx.entries hstart
  · intro e he kv hkv
    exact (h1 kv (List.mem_flatMap.mpr ⟨e, he, hkv⟩)).2
  · exact h3

theorem txsKVTs_eq (sp : Spec) (env : Env) (start : Nat) (b : List Tx)
    (hstart : ∀ tx ∈ b, sp.injective = false ∨ start = tx.id) (hok : ∀ tx ∈ b, TxOk sp env tx) :
    txsKVTs sp env start b = .ok (logEvents sp env b) := by
  induction b with
  | nil => rfl
  | cons tx rest ih =>
    have h1 := txKVTs_eq sp env start tx (hstart tx List.mem_cons_self) (hok tx List.mem_cons_self)
    have h2 := ih (fun x hx => hstart x (List.mem_cons_of_mem _ hx)) (fun x hx => hok x (List.mem_cons_of_mem _ hx))
    simp [txsKVTs, h1, h2, logEvents]

-- ---------------------------------------------------------------- ids

theorem txEvents_t (sp : Spec) (env : Env) (tx : Tx) : ∀ kv ∈ txEvents sp env tx, kv.t = tx.id := by
  intro kv hkv
  obtain ⟨e, _, he⟩ := List.mem_flatMap.mp hkv
  exact entryEvents_t sp env _ _ e kv he

theorem idsAbove_iff (txs : List Tx) : ∀ lo, IdsAbove lo txs ↔
    (∀ tx ∈ txs, lo < tx.id) ∧ txs.Pairwise (fun a b => a.id < b.id) := by
  induction txs with
  | nil => intro lo; simp [IdsAbove]
  | cons tx rest ih =>
    intro lo
    simp only [IdsAbove, ih, List.pairwise_cons, List.mem_cons, forall_eq_or_imp]
    constructor
    · rintro ⟨h1, h2, h3⟩
      exact ⟨⟨h1, fun x hx => Nat.lt_trans h1 (h2 x hx)⟩, h2, h3⟩
    · rintro ⟨⟨h1, _⟩, h2, h3⟩
      exact ⟨h1, h2, h3⟩

theorem lastId_cons_of_ne (x : Tx) (rest : List Tx) (h : rest ≠ []) : lastId (x :: rest) = lastId rest := by
  cases rest with
  | nil => contradiction
  | cons y r => rfl

theorem lastId_mem : ∀ txs : List Tx, txs ≠ [] → ∃ tx ∈ txs, lastId txs = tx.id := by
  intro txs
  induction txs with
  | nil => intro h; contradiction
  | cons x rest ih =>
    intro _
    by_cases h : rest = []
    · subst h; exact ⟨x, List.mem_cons_self, rfl⟩
    · obtain ⟨tx, htx, he⟩ := ih h
      exact ⟨tx, List.mem_cons_of_mem _ htx, by rw [lastId_cons_of_ne x rest h, he]⟩

theorem lastId_append (a b : List Tx) (hb : b ≠ []) : lastId (a ++ b) = lastId b := by
  induction a with
  | nil => rfl
  | cons x a ih =>
    have : a ++ b ≠ [] := by simp [hb]
    rw [List.cons_append, lastId_cons_of_ne x _ this, ih]

theorem le_lastId (txs : List Tx) (hp : txs.Pairwise (fun a b => a.id < b.id)) :
    ∀ tx ∈ txs, tx.id ≤ lastId txs := by
  induction txs with
  | nil => intro tx h; simp at h
  | cons x rest ih =>
    rw [List.pairwise_cons] at hp
    intro tx htx
    by_cases h : rest = []
    · subst h; simp at htx; subst htx; exact Nat.le_refl _
    · rw [lastId_cons_of_ne x rest h]
      rcases List.mem_cons.mp htx with rfl | htx
      · obtain ⟨y, hy, he⟩ := lastId_mem rest h
        rw [he]; exact Nat.le_of_lt (hp.1 y hy)
      · exact ih hp.2 tx htx

theorem maxT_le {V : Type} (E : List (KVT V)) (n : Nat) (h : ∀ e ∈ E, e.t ≤ n) : maxT E ≤ n := by
  induction E with
  | nil => simp [maxT]
  | cons e E ih =>
    have h1 := h e List.mem_cons_self
    have h2 := ih (fun e' he' => h e' (List.mem_cons_of_mem _ he'))
    simp only [maxT]
    omega

theorem logEvents_mem (sp : Spec) (env : Env) (txs : List Tx) :
    ∀ kv ∈ logEvents sp env txs, ∃ tx ∈ txs, kv ∈ txEvents sp env tx ∧ kv.t = tx.id := by
  intro kv hkv
  obtain ⟨tx, htx, h⟩ := List.mem_flatMap.mp hkv
  exact ⟨tx, htx, h, txEvents_t sp env tx kv h⟩

theorem logView_mem (sp : Spec) (env : Env) (txs : List Tx) (k : Key) :
    ∀ p ∈ LogView sp env txs k, ∃ tx ∈ txs, p.1 = tx.id := by
  intro p hp
  unfold LogView at hp
  rw [List.mem_reverse, List.mem_map] at hp
  obtain ⟨kv, hkv, rfl⟩ := hp
  obtain ⟨tx, htx, _, ht⟩ := logEvents_mem sp env txs kv (List.mem_filter.mp hkv).1
  exact ⟨tx, htx, ht⟩

theorem logView_append (sp : Spec) (env : Env) (a b : List Tx) (k : Key) :
    LogView sp env (a ++ b) k =
      (((logEvents sp env b).filter (fun kv => kv.k = k)).map (fun kv => (kv.t, kv.v))).reverse
        ++ LogView sp env a k := by
  simp [LogView, logEvents, List.flatMap_append]

theorem logEvents_pairwise (sp : Spec) (env : Env) (b : List Tx)
    (hp : b.Pairwise (fun a b => a.id < b.id)) (hok : ∀ tx ∈ b, TxOk sp env tx) :
    (logEvents sp env b).Pairwise (fun x y => x.k = y.k → x.t < y.t) := by
  unfold logEvents
  rw [List.pairwise_flatMap]
  constructor
  · intro tx htx
    have hnd := (hok tx htx).2.1
    rw [List.nodup_iff_pairwise_ne, List.pairwise_map] at hnd
    exact hnd.imp (fun hne heq => absurd heq hne)
  · refine hp.imp ?_
    intro t1 t2 hlt x hx y hy _
    rw [txEvents_t sp env t1 x hx, txEvents_t sp env t2 y hy]
    exact hlt

-- ---------------------------------------------------------------- one bulk

theorem indexBulk_eq (sp : Spec) (env : Env) (tr : Tree IVal) (b : List Tx) (hb : b ≠ [])
    (hok : ∀ tx ∈ b, TxOk sp env tx)
    (hpart : sp.injective = false ∨ b.length = 1) :
    indexBulk sp env tr b = applyKVTs tr (logEvents sp env b) (lastId b) := by
  cases b with
  | nil => contradiction
  | cons tx0 rest =>
    have hstart : ∀ tx ∈ tx0 :: rest,
        sp.injective = false ∨ tx0.id = tx.id := by
      intro tx htx
      rcases hpart with h | h
      · exact Or.inl h
      · have : rest = [] := by simpa using h
        subst this
        simp at htx
        subst htx
        exact Or.inr rfl
    simp only [indexBulk, txsKVTs_eq sp env tx0.id (tx0 :: rest) hstart hok]

theorem indexBulk_step (sp : Spec) (env : Env) (tr : Tree IVal) (done b : List Tx)
    (href : Refines tr sp env done) (hts : tr.ts ≤ lastId done) (hb : b ≠ [])
    (hids : IdsAbove 0 (done ++ b)) (hok : ∀ tx ∈ b, TxOk sp env tx)
    (hpart : sp.injective = false ∨ b.length = 1) :
    ∃ tr1, indexBulk sp env tr b = .ok tr1 ∧ Refines tr1 sp env (done ++ b) ∧
      tr1.ts ≤ lastId (done ++ b) := by
  rw [indexBulk_eq sp env tr b hb hok hpart, lastId_append done b hb]
  rw [idsAbove_iff] at hids
  obtain ⟨hpos, hpw⟩ := hids
  rw [List.pairwise_append] at hpw
  obtain ⟨_, hpb, hcross⟩ := hpw
  have hlast : ∀ y ∈ b, lastId done < y.id := by
    intro y hy
    by_cases hd : done = []
    · subst hd; exact hpos y (by simp [hy])
    · obtain ⟨x, hx, he⟩ := lastId_mem done hd
      rw [he]; exact hcross x hx y hy
  obtain ⟨l, hl, hle⟩ := lastId_mem b hb
  have hEt : ∀ e ∈ logEvents sp env b, tr.ts < e.t ∧ e.t ≤ lastId b ∧ e.k ≠ [] := by
    intro e he
    obtain ⟨tx, htx, hin, ht⟩ := logEvents_mem sp env b e he
    refine ⟨?_, ?_, ((hok tx htx).1 e hin).1⟩
    · rw [ht]; exact Nat.lt_of_le_of_lt hts (hlast tx htx)
    · rw [ht]; exact le_lastId b hpb tx htx
  unfold applyKVTs
  by_cases hE : (logEvents sp env b).isEmpty = true
  · have hlt : ¬ lastId b ≤ tr.ts := by
      have := hlast l hl
      omega
    have hnil : logEvents sp env b = [] := by simpa using hE
    refine ⟨{ tr with ts := lastId b }, by simp [hE, increaseTs, hlt], ?_, Nat.le_refl _⟩
    refine ⟨href.sorted, ?_, href.keys⟩
    intro k
    rw [logView_append, hnil]
    simpa using href.view k
  · have hany : (logEvents sp env b).any (fun kv => kv.k.isEmpty || decide (kv.t ≤ tr.ts)) = false := by
      rw [List.any_eq_false]
      intro e he
      obtain ⟨h1, _, h3⟩ := hEt e he
      have : ¬ e.t ≤ tr.ts := by omega
      simp [h3, this]
    have hlt : ∀ e ∈ logEvents sp env b, ∀ p ∈ versions tr.m e.k, p.1 < e.t := by
      intro e he p hp
      rw [href.view] at hp
      obtain ⟨x, hx, hpx⟩ := logView_mem sp env done e.k p hp
      obtain ⟨tx, htx, _, ht⟩ := logEvents_mem sp env b e he
      rw [hpx, ht]; exact hcross x hx tx htx
    obtain ⟨m', hm', hs', hn', hv'⟩ := insertAll_spec (logEvents sp env b) tr.m href.sorted href.keys
      (logEvents_pairwise sp env b hpb hok) hlt
    refine ⟨{ m := m', ts := maxT (logEvents sp env b) }, by simp [hE, bulkInsert, hany, hm'], ?_, ?_⟩
    · refine ⟨hs', ?_, hn'⟩
      intro k
      rw [logView_append, ← href.view k]
      exact hv' k
    · exact maxT_le _ _ (fun e he => (hEt e he).2.1)

theorem runBulks_refines (sp : Spec) (env : Env) (bulks : List (List Tx)) :
    ∀ (tr : Tree IVal) (done : List Tx),
    Refines tr sp env done → tr.ts ≤ lastId done →
    (∀ b ∈ bulks, b ≠ []) →
    IdsAbove 0 (done ++ bulks.flatten) →
    (∀ tx ∈ bulks.flatten, TxOk sp env tx) →
    (sp.injective = false ∨ ∀ b ∈ bulks, b.length = 1) →
    ∃ tr', runBulks sp env tr bulks = .ok tr' ∧ Refines tr' sp env (done ++ bulks.flatten) ∧
      tr'.ts ≤ lastId (done ++ bulks.flatten) := by
  induction bulks with
  | nil =>
    intro tr done href hts _ _ _ _
    exact ⟨tr, rfl, by simpa using href, by simpa using hts⟩
  | cons b bs ih =>
    intro tr done href hts hne hids hok hpart
    rw [List.flatten_cons, ← List.append_assoc] at hids
    have hids1 : IdsAbove 0 (done ++ b) := by
      rw [idsAbove_iff] at hids ⊢
      exact ⟨fun tx htx => hids.1 tx (List.mem_append_left _ htx), (List.pairwise_append.mp hids.2).1⟩
    obtain ⟨tr1, h1, href1, hts1⟩ := indexBulk_step sp env tr done b href hts (hne b List.mem_cons_self) hids1
      (fun tx htx => hok tx (by simp [htx]))
      (hpart.imp id (fun h => h b List.mem_cons_self))
    obtain ⟨tr', h2, href2, hts2⟩ := ih tr1 (done ++ b) href1 hts1
      (fun x hx => hne x (List.mem_cons_of_mem _ hx)) hids
      (fun tx htx => hok tx (by simp at htx ⊢; exact Or.inr htx))
      (hpart.imp id (fun h x hx => h x (List.mem_cons_of_mem _ hx)))
    refine ⟨tr', by simp [runBulks, h1, h2], ?_, ?_⟩
    · rw [List.flatten_cons, ← List.append_assoc]; exact href2
    · rw [List.flatten_cons, ← List.append_assoc]; exact hts2

theorem index_refines_log (sp : Spec) (env : Env) (bulks : List (List Tx))
    (hne : ∀ b ∈ bulks, b ≠ [])
    (hids : IdsAbove 0 bulks.flatten)
    (hok : ∀ tx ∈ bulks.flatten, TxOk sp env tx)
    (hpart : sp.injective = false ∨ ∀ b ∈ bulks, b.length = 1) :
    ∃ tr, runBulks sp env {} bulks = .ok tr ∧ Refines tr sp env bulks.flatten ∧ tr.ts ≤ lastId bulks.flatten := by
  have href0 : Refines ({} : Tree IVal) sp env [] :=
    ⟨by simp [Sorted], fun k => by simp [versions, LogView, logEvents], by simp⟩
  simpa using runBulks_refines sp env bulks {} [] href0 (Nat.le_refl _) hne (by simpa using hids) hok hpart

/-- a grouping the code can form (`BulksOf`) is a grouping the refinement proof accepts -/
theorem hpart_of_bulks {sp : Spec} {B : Nat} {bulks : List (List Tx)} (h : BulksOf sp B bulks) :
    sp.injective = false ∨ ∀ b ∈ bulks, b.length = 1 := by
  by_cases hi : sp.injective = true
  · right
    intro b hb
    obtain ⟨hne, hlen⟩ := h b hb
    have : b.length ≤ 1 := by simpa [Spec.maxBulk, hi] using hlen
    have : 0 < b.length := List.length_pos_iff.mpr hne
    omega
  · left; simpa using hi

theorem index_refines_log_bulks (sp : Spec) (env : Env) (B : Nat) (bulks : List (List Tx))
    (hb : BulksOf sp B bulks)
    (hids : IdsAbove 0 bulks.flatten)
    (hok : ∀ tx ∈ bulks.flatten, TxOk sp env tx) :
    ∃ tr, runBulks sp env {} bulks = .ok tr ∧ Refines tr sp env bulks.flatten ∧ tr.ts ≤ lastId bulks.flatten :=
  index_refines_log sp env bulks (fun b h => (hb b h).1) hids hok (hpart_of_bulks hb)

theorem bulk_partition_independent (sp : Spec) (env : Env) (B1 B2 : Nat) (b1 b2 : List (List Tx))
    (hflat : b1.flatten = b2.flatten)
    (h1 : BulksOf sp B1 b1) (h2 : BulksOf sp B2 b2)
    (hids : IdsAbove 0 b1.flatten)
    (hok : ∀ tx ∈ b1.flatten, TxOk sp env tx) :
    ∃ t1 t2, runBulks sp env {} b1 = .ok t1 ∧ runBulks sp env {} b2 = .ok t2 ∧
      ∀ k, versions t1.m k = versions t2.m k := by
  obtain ⟨t1, e1, r1, _⟩ := index_refines_log_bulks sp env B1 b1 h1 hids hok
  obtain ⟨t2, e2, r2, _⟩ := index_refines_log_bulks sp env B2 b2 h2 (hflat ▸ hids) (hflat ▸ hok)
  exact ⟨t1, t2, e1, e2, fun k => by rw [r1.view, r2.view, hflat]⟩

theorem indexBulk_append (sp : Spec) (env : Env) (a b : List Tx)
    (ha : a ≠ []) (hb : b ≠ [])
    (hids : IdsAbove 0 (a ++ b))
    (hok : ∀ tx ∈ a ++ b, TxOk sp env tx)
    (hinj : sp.injective = false) :
    ∃ t1 t2, runBulks sp env {} [a ++ b] = .ok t1 ∧ runBulks sp env {} [a, b] = .ok t2 ∧
      ∀ k, versions t1.m k = versions t2.m k := by
  apply bulk_partition_independent sp env (a ++ b).length (a ++ b).length [a ++ b] [a, b]
  · simp
  · intro x hx
    simp at hx; subst hx
    exact ⟨by simp [ha], by simp [Spec.maxBulk, hinj]⟩
  · intro x hx
    simp at hx
    rcases hx with rfl | rfl
    · exact ⟨ha, by simp [Spec.maxBulk, hinj]⟩
    · exact ⟨hb, by simp [Spec.maxBulk, hinj]⟩
  · simpa using hids
  · simpa using hok

end ImmuModel.Index.L.RefineAux
