/-
C04 — helper lemmas and proofs: the read API on a tree that refines the log view.
-/
import ImmuModel.Index.Refines
import ImmuModel.Index.Proofs.Refine
namespace ImmuModel.Index.L.ReadsAux
open ImmuModel ImmuModel.Index.L ImmuModel.Index.L.RefineAux
theorem filter_eq_append_singleton {α : Type} (p : α → Bool) (l ys : List α) (x : α)
    (h : l.filter p = ys ++ [x]) :
    ∃ pre post, l = pre ++ x :: post ∧ p x = true ∧ ∀ y ∈ post, ¬ p y = true := by
  rw [List.filter_eq_append_iff] at h
  obtain ⟨l1, l2, rfl, _, h2⟩ := h
  rw [List.filter_eq_cons_iff] at h2
  obtain ⟨a, b, rfl, _, hx, hb⟩ := h2
  refine ⟨l1 ++ a, b, by simp, hx, ?_⟩
  intro y hy hpy
  have : y ∈ b.filter p := List.mem_filter.mpr ⟨hy, hpy⟩
  rw [hb] at this
  simp at this

theorem logView_desc (sp : Spec) (env : Env) (txs : List Tx) (k : Key)
    (hids : IdsAbove 0 txs) (hok : ∀ tx ∈ txs, TxOk sp env tx) :
    (LogView sp env txs k).Pairwise (fun a b => b.1 < a.1) := by
  have hp := logEvents_pairwise sp env txs ((idsAbove_iff txs 0).mp hids).2 hok
  unfold LogView
  rw [List.pairwise_reverse, List.pairwise_map]
  refine List.Pairwise.imp_of_mem ?_ (hp.filter _)
  intro a b ha hb hab
  simp only [List.mem_filter, decide_eq_true_eq] at ha hb
  exact hab (ha.2.trans hb.2.symm)

theorem logview_latest (sp : Spec) (env : Env) (txs : List Tx) (k : Key)
    (hids : IdsAbove 0 txs) (hok : ∀ tx ∈ txs, TxOk sp env tx)
    (t : Nat) (v : IVal) (older : Vers IVal)
    (hv : LogView sp env txs k = (t, v) :: older) :
    (∃ pre post, logEvents sp env txs = pre ++ ⟨k, v, t⟩ :: post ∧ ∀ kv ∈ post, kv.k ≠ k) ∧
    ∀ x ∈ older, x.1 < t := by
  constructor
  · unfold LogView at hv
    rw [List.reverse_eq_cons_iff, List.map_eq_append_iff] at hv
    obtain ⟨l1, l2, hf, _, h2⟩ := hv
    rw [List.map_eq_singleton_iff] at h2
    obtain ⟨kv, rfl, hkv⟩ := h2
    obtain ⟨pre, post, hl, hx, hpost⟩ := filter_eq_append_singleton _ _ _ _ hf
    refine ⟨pre, post, ?_, ?_⟩
    · rw [hl]
      obtain ⟨k', v', t'⟩ := kv
      simp at hkv hx
      obtain ⟨rfl, rfl⟩ := hkv
      subst hx
      rfl
    · intro y hy
      simpa using hpost y hy
  · have := logView_desc sp env txs k hids hok
    rw [hv, List.pairwise_cons] at this
    exact this.1

theorem get_latest {tr : Tree IVal} {sp : Spec} {env : Env} {txs : List Tx}
    (h : Refines tr sp env txs) (now : Nat) (k : Key) (t : Nat) (v : IVal) (older : Vers IVal)
    (hv : LogView sp env txs k = (t, v) :: older)
    (hexp : v.md.expiredAt now = false) (hdel : v.md.deleted = false) :
    storeGet tr.m now k = .ok ⟨t, older.length + 1, v⟩ := by
  simp [storeGet, h.view k, hv, Vers.storeGet, liftRd, Vers.get, applyFilters, Filter.apply, hexp, hdel]

theorem get_absent_notfound {tr : Tree IVal} {sp : Spec} {env : Env} {txs : List Tx}
    (h : Refines tr sp env txs) (now : Nat) (k : Key) (hv : LogView sp env txs k = []) :
    storeGet tr.m now k = .error .notFound := by
  simp [storeGet, h.view k, hv, Vers.storeGet, liftRd, Vers.get, StErr.ofRd]

theorem get_deleted_notfound {tr : Tree IVal} {sp : Spec} {env : Env} {txs : List Tx}
    (h : Refines tr sp env txs) (now : Nat) (k : Key) (t : Nat) (v : IVal) (older : Vers IVal)
    (hv : LogView sp env txs k = (t, v) :: older)
    (hexp : v.md.expiredAt now = false) (hdel : v.md.deleted = true) :
    storeGet tr.m now k = .error .notFound := by
  simp [storeGet, h.view k, hv, Vers.storeGet, liftRd, Vers.get, applyFilters, Filter.apply, hexp, hdel]

theorem get_expired_notfound {tr : Tree IVal} {sp : Spec} {env : Env} {txs : List Tx}
    (h : Refines tr sp env txs) (now : Nat) (k : Key) (t : Nat) (v : IVal) (older : Vers IVal)
    (hv : LogView sp env txs k = (t, v) :: older)
    (hexp : v.md.expiredAt now = true) :
    storeGet tr.m now k = .error .expired := by
  simp [storeGet, h.view k, hv, Vers.storeGet, liftRd, Vers.get, applyFilters, Filter.apply, hexp]

theorem lastUpdateBetween_spec {V : Type} (init fin : Nat) (hfin : 0 < fin) :
    ∀ (vs : Vers V), vs.Pairwise (fun a b => b.1 < a.1) →
    (∀ v t hc, Vers.lastUpdateBetween init fin vs = .ok (v, t, hc) →
      (∃ pre tail, vs = pre ++ (t, v) :: tail ∧ hc = tail.length + 1) ∧ init ≤ t ∧ t ≤ fin ∧
        ∀ x ∈ vs, x.1 ≤ fin → x.1 ≤ t) ∧
    (∀ e, Vers.lastUpdateBetween init fin vs = .error e →
      e = .notFound ∧ ∀ x ∈ vs, ¬ (init ≤ x.1 ∧ x.1 ≤ fin)) := by
  intro vs
  induction vs with
  | nil =>
    intro _
    simp [Vers.lastUpdateBetween]
  | cons p rest ih =>
    obtain ⟨t0, v0⟩ := p
    intro hp
    rw [List.pairwise_cons] at hp
    obtain ⟨hp0, hp⟩ := hp
    obtain ⟨ih1, ih2⟩ := ih hp
    simp only [Vers.lastUpdateBetween]
    by_cases c1 : t0 < init
    · simp only [c1, if_true]
      constructor
      · intro v t hc h; cases h
      · intro e he
        cases he
        refine ⟨rfl, ?_⟩
        intro x hx
        rcases List.mem_cons.mp hx with rfl | hx
        · simp; omega
        · have := hp0 x hx; omega
    · simp only [c1, if_false]
      by_cases c2 : t0 ≤ fin
      · have c2' : fin = 0 ∨ t0 ≤ fin := Or.inr c2
        simp only [c2', if_true]
        constructor
        · intro v t hc h
          cases h
          refine ⟨⟨[], rest, rfl, rfl⟩, by omega, c2, ?_⟩
          intro x hx _
          rcases List.mem_cons.mp hx with rfl | hx
          · exact Nat.le_refl _
          · exact Nat.le_of_lt (hp0 x hx)
        · intro e he; cases he
      · have c2' : ¬ (fin = 0 ∨ t0 ≤ fin) := by omega
        simp only [c2', if_false]
        constructor
        · intro v t hc h
          obtain ⟨⟨pre, tail, hr, hhc⟩, h1, h2, h3⟩ := ih1 v t hc h
          refine ⟨⟨(t0, v0) :: pre, tail, by simp [hr], hhc⟩, h1, h2, ?_⟩
          intro x hx hxf
          rcases List.mem_cons.mp hx with rfl | hx
          · exact absurd hxf c2
          · exact h3 x hx hxf
        · intro e he
          obtain ⟨h1, h2⟩ := ih2 e he
          refine ⟨h1, ?_⟩
          intro x hx
          rcases List.mem_cons.mp hx with rfl | hx
          · simp; omega
          · exact h2 x hx

theorem getBetween_exact {tr : Tree IVal} {sp : Spec} {env : Env} {txs : List Tx}
    (h : Refines tr sp env txs) (hids : IdsAbove 0 txs) (hok : ∀ tx ∈ txs, TxOk sp env tx)
    (k : Key) (init fin : Nat) (hif : init ≤ fin) (hfin : 0 < fin) :
    match storeGetBetween tr.m k init fin with
    | .ok r =>
        (LogView sp env txs k).reverse[r.hc - 1]? = some (r.tx, r.v) ∧ 1 ≤ r.hc ∧ init ≤ r.tx ∧ r.tx ≤ fin ∧
        ∀ x ∈ LogView sp env txs k, x.1 ≤ fin → x.1 ≤ r.tx
    | .error e => e = .notFound ∧ ∀ x ∈ LogView sp env txs k, ¬ (init ≤ x.1 ∧ x.1 ≤ fin) := by
  have hd := logView_desc sp env txs k hids hok
  obtain ⟨s1, s2⟩ := lastUpdateBetween_spec init fin hfin _ hd
  unfold storeGetBetween Vers.storeGetBetween
  rw [h.view k]
  have hgb : Vers.getBetween init fin (LogView sp env txs k)
      = Vers.lastUpdateBetween init fin (LogView sp env txs k) := by
    cases LogView sp env txs k with
    | nil => rfl
    | cons p rest => simp [Vers.getBetween, Nat.not_lt.mpr hif]
  rw [hgb]
  cases hl : Vers.lastUpdateBetween init fin (LogView sp env txs k) with
  | error e =>
    obtain ⟨rfl, h2⟩ := s2 e hl
    simp only [liftRd, StErr.ofRd]
    exact ⟨by trivial, h2⟩
  | ok r =>
    obtain ⟨v, t, hc⟩ := r
    obtain ⟨⟨pre, tail, hr, hhc⟩, h1, h2, h3⟩ := s1 v t hc hl
    simp only [liftRd]
    refine ⟨?_, by omega, h1, h2, h3⟩
    rw [hr, hhc]
    simp

theorem numberRevs_length (desc : Bool) : ∀ (vs : Vers IVal) (start : Nat),
    (numberRevs desc start vs).length = vs.length := by
  intro vs
  induction vs with
  | nil => intro _; rfl
  | cons p rest ih => intro start; obtain ⟨t, v⟩ := p; simp [numberRevs, ih]

theorem numberRevs_getElem? (desc : Bool) : ∀ (vs : Vers IVal) (start i : Nat),
    (numberRevs desc start vs)[i]? =
      vs[i]?.map (fun p => (⟨p.1, if desc then start - i else start + i, p.2⟩ : Ref)) := by
  intro vs
  induction vs with
  | nil => intro _ _; rfl
  | cons p rest ih =>
    intro start i
    obtain ⟨t, v⟩ := p
    cases i with
    | zero => simp [numberRevs]
    | succ i =>
      simp only [numberRevs, List.getElem?_cons_succ, ih]
      cases desc
      · have e : start + 1 + i = start + (i + 1) := by omega
        simp [e]
      · have e : start - 1 - i = start - (i + 1) := by omega
        simp [e]

theorem history_ok {vs : Vers IVal} {offset : Nat} {desc : Bool} {limit : Nat} {refs : List Ref} {hc : Nat}
    (hres : vs.storeHistory offset desc limit = .ok (refs, hc)) :
    hc = vs.length ∧ offset < hc ∧
    refs = numberRevs desc (if desc then hc - offset else offset + 1)
      (((if desc then vs else vs.reverse).drop offset).take (min limit (hc - offset))) := by
  unfold Vers.storeHistory Vers.history at hres
  by_cases c0 : limit < 1
  · simp [c0, liftRd] at hres
  · simp only [c0, if_false] at hres
    cases vs with
    | nil => simp [liftRd] at hres
    | cons p rest =>
      simp only [] at hres
      simp only [List.length_cons] at hres ⊢
      by_cases c1 : offset = rest.length + 1
      · simp [c1, liftRd] at hres
      · by_cases c2 : rest.length + 1 < offset
        · simp [c1, c2, liftRd] at hres
        · simp only [c1, c2, if_false] at hres
          cases desc
          · simp [liftRd] at hres
            obtain ⟨h1, h2⟩ := hres
            subst h2
            refine ⟨rfl, by simp at c1 c2 ⊢; omega, ?_⟩
            rw [← h1]; simp
          · simp [liftRd] at hres
            obtain ⟨h1, h2⟩ := hres
            subst h2
            refine ⟨rfl, by simp at c1 c2 ⊢; omega, ?_⟩
            rw [← h1]; simp

theorem history_consecutive_revisions {tr : Tree IVal} {sp : Spec} {env : Env} {txs : List Tx}
    (h : Refines tr sp env txs) (k : Key) (offset : Nat) (desc : Bool) (limit : Nat)
    (refs : List Ref) (hc : Nat)
    (hres : storeHistory tr.m k offset desc limit = .ok (refs, hc)) :
    hc = (LogView sp env txs k).length ∧ refs.length = min limit (hc - offset) ∧ offset < hc ∧
    ∀ i, (hi : i < refs.length) →
      let rev := if desc then hc - offset - i else offset + 1 + i
      refs[i].hc = rev ∧ 1 ≤ rev ∧ rev ≤ hc ∧
      (LogView sp env txs k).reverse[rev - 1]? = some (refs[i].tx, refs[i].v) := by
  unfold storeHistory at hres
  rw [h.view k] at hres
  generalize LogView sp env txs k = vs at hres ⊢
  obtain ⟨h1, h2, h3⟩ := history_ok hres
  have hlen : refs.length = min limit (hc - offset) := by
    rw [h3, numberRevs_length]
    cases desc <;> simp [List.length_take, List.length_drop, ← h1] <;> omega
  refine ⟨h1, hlen, h2, ?_⟩
  intro i hi
  have hg := numberRevs_getElem? desc
    (((if desc then vs else vs.reverse).drop offset).take (min limit (hc - offset)))
    (if desc then hc - offset else offset + 1) i
  rw [← h3, List.getElem?_eq_getElem hi] at hg
  have hi' : i < min limit (hc - offset) := hlen ▸ hi
  rw [List.getElem?_take_of_lt hi', List.getElem?_drop] at hg
  cases desc
  · simp only [Bool.false_eq_true, if_false] at hg ⊢
    have hlt : offset + i < vs.reverse.length := by simp; omega
    rw [List.getElem?_eq_getElem hlt] at hg
    simp at hg
    rw [hg]
    refine ⟨rfl, by omega, by omega, ?_⟩
    simp
    rw [List.getElem?_eq_getElem hlt]
    simp
  · simp only [if_true] at hg ⊢
    have hlt : offset + i < vs.length := by omega
    rw [List.getElem?_eq_getElem hlt] at hg
    simp at hg
    rw [hg]
    refine ⟨rfl, by omega, by omega, ?_⟩
    simp
    rw [List.getElem?_reverse (by omega)]
    rw [List.getElem?_eq_getElem (by omega)]
    congr 2
    · omega

theorem history_errors {tr : Tree IVal} {sp : Spec} {env : Env} {txs : List Tx}
    (h : Refines tr sp env txs) (k : Key) (offset : Nat) (desc : Bool) (limit : Nat) (hl : 1 ≤ limit) :
    let n := (LogView sp env txs k).length
    (n = 0 → storeHistory tr.m k offset desc limit = .error .notFound) ∧
    (0 < n → offset = n → storeHistory tr.m k offset desc limit = .error .noMoreEntries) ∧
    (0 < n → n < offset → storeHistory tr.m k offset desc limit = .error .offsetOutOfRange) := by
  unfold storeHistory
  rw [h.view k]
  generalize LogView sp env txs k = vs
  have c0 : ¬ limit < 1 := by omega
  cases vs with
  | nil => simp [Vers.storeHistory, Vers.history, c0, liftRd, StErr.ofRd]
  | cons p rest =>
    refine ⟨by simp, ?_, ?_⟩
    · intro _ ho
      simp [Vers.storeHistory, Vers.history, c0, liftRd, StErr.ofRd, ho]
    · intro _ ho
      simp only [List.length_cons] at ho
      have : ¬ offset = rest.length + 1 := by omega
      simp [Vers.storeHistory, Vers.history, c0, liftRd, StErr.ofRd, ho, this]

theorem versions_of_mem {V : Type} (m : MVMap V) (hs : Sorted m) (k : Key) (vs : Vers V)
    (hm : (k, vs) ∈ m) : versions m k = vs := by
  induction m with
  | nil => simp at hm
  | cons a rest ih =>
    obtain ⟨k', vs'⟩ := a
    unfold Sorted at hs
    rw [List.pairwise_cons] at hs
    rcases List.mem_cons.mp hm with e | hm'
    · cases e
      simp [versions]
    · have hlt : lexLt k' k = true := hs.1 (k, vs) hm'
      have hne : ¬ k' = k := by
        intro e; subst e; simp at hlt
      simp only [versions, hne, if_false]
      exact ih hs.2 hm'

theorem mem_of_versions_ne_nil {V : Type} (m : MVMap V) (k : Key) (h : versions m k ≠ []) :
    (k, versions m k) ∈ m := by
  induction m with
  | nil => simp [versions] at h
  | cons a rest ih =>
    obtain ⟨k', vs'⟩ := a
    by_cases e : k' = k
    · subst e; simp [versions]
    · simp only [versions, e, if_false] at h ⊢
      exact List.mem_cons_of_mem _ (ih h)

theorem mem_scanKeys {V : Type} (m : MVMap V) (r : Range) (kv : Key × Vers V) :
    kv ∈ scanKeys m r ↔ kv ∈ m ∧ r.visits kv.1 = true := by
  unfold scanKeys
  cases r.desc <;> simp [List.mem_filter]

theorem scanKeys_pairwise {V : Type} (m : MVMap V) (hs : Sorted m) (r : Range) :
    (scanKeys m r).Pairwise
      (fun a b => if r.desc then lexLt b.1 a.1 = true else lexLt a.1 b.1 = true) := by
  unfold scanKeys
  have hf : (m.filter (fun kv => r.visits kv.1)).Pairwise (fun a b => lexLt a.1 b.1 = true) :=
    List.Pairwise.filter _ hs
  cases r.desc
  · simpa using hf
  · simp only [if_true, List.pairwise_reverse]
    exact hf

theorem scan_exact_sorted {tr : Tree IVal} {sp : Spec} {env : Env} {txs : List Tx}
    (h : Refines tr sp env txs) (now : Nat) (r : Range) (fs : List Filter) (offset : Nat) :
    let out := storeScan tr.m now r fs 0
    (out.map (fun kr => kr.1)).Pairwise (fun a b => if r.desc then lexLt b a = true else lexLt a b = true) ∧
    (∀ k ref, (k, ref) ∈ out ↔
        (r.visits k = true ∧ ∃ t v older, LogView sp env txs k = (t, v) :: older ∧
          ref = ⟨t, older.length + 1, v⟩ ∧ passes fs now ref = true)) ∧
    storeScan tr.m now r fs offset = out.drop offset := by
  refine ⟨?_, ?_, ?_⟩
  · simp only [storeScan, List.drop_zero]
    rw [List.pairwise_map, List.pairwise_filterMap]
    refine List.Pairwise.imp ?_ (scanKeys_pairwise tr.m h.sorted r)
    intro a b hab x hx y hy
    have hx1 : x.1 = a.1 := by
      split at hx
      · cases hx
      · split at hx
        · cases hx; rfl
        · cases hx
    have hy1 : y.1 = b.1 := by
      split at hy
      · cases hy
      · split at hy
        · cases hy; rfl
        · cases hy
    rw [hx1, hy1]
    exact hab
  · intro k ref
    simp only [storeScan, List.drop_zero, List.mem_filterMap, mem_scanKeys]
    constructor
    · rintro ⟨⟨k', vs⟩, ⟨hm, hvis⟩, hf⟩
      split at hf
      · cases hf
      · rename_i t v older hvs
        simp only at hvs
        subst hvs
        split at hf
        · rename_i hp
          cases hf
          refine ⟨hvis, t, v, older, ?_, rfl, hp⟩
          rw [← h.view]
          exact versions_of_mem tr.m h.sorted _ _ hm
        · cases hf
    · rintro ⟨hvis, t, v, older, hv, rfl, hp⟩
      refine ⟨(k, (t, v) :: older), ⟨?_, hvis⟩, ?_⟩
      · have := mem_of_versions_ne_nil tr.m k (by rw [h.view k, hv]; simp)
        rwa [h.view k, hv] at this
      · simp [hp]
  · simp [storeScan]

theorem hasPrefix_not_lexLt (k pfx : Bytes) (h : hasPrefix k pfx = true) : lexLt k pfx = false := by
  unfold hasPrefix at h
  simp only [Bool.and_eq_true, decide_eq_true_eq, beq_iff_eq] at h
  have e : k = pfx ++ k.drop pfx.length := by
    conv => lhs; rw [← List.take_append_drop pfx.length k]
    rw [h.2]
  have := lexLt_append_left pfx (k.drop pfx.length) []
  rw [List.append_nil, ← e] at this
  rw [this]
  simp

theorem seekAsc_spec {V : Type} (pfx neq : Bytes) (k : Key) (vs : Vers V) :
    ∀ (m : MVMap V), Sorted m → seekAsc pfx neq m = some (k, vs) →
    (k, vs) ∈ m ∧ (neq = [] ∨ lexLt neq k = true) ∧ lexLt k pfx = false ∧
    ∀ e ∈ m, (neq = [] ∨ lexLt neq e.1 = true) → lexLt e.1 pfx = false →
      e.1 = k ∨ lexLt k e.1 = true := by
  intro m
  induction m with
  | nil => intro _ h; simp [seekAsc] at h
  | cons a rest ih =>
    obtain ⟨k0, vs0⟩ := a
    intro hs h
    unfold Sorted at hs
    rw [List.pairwise_cons] at hs
    simp only [seekAsc] at h
    by_cases c1 : (!neq.isEmpty && !lexLt neq k0) = true
    · simp only [c1, if_true] at h
      obtain ⟨h1, h2, h3, h4⟩ := ih hs.2 h
      refine ⟨List.mem_cons_of_mem _ h1, h2, h3, ?_⟩
      intro e he hn hp
      rcases List.mem_cons.mp he with rfl | he
      · exfalso
        simp only [Bool.and_eq_true, Bool.not_eq_true', List.isEmpty_eq_false_iff] at c1
        rcases hn with hn | hn
        · exact c1.1 hn
        · simp at hn; rw [hn] at c1; simp at c1
      · exact h4 e he hn hp
    · simp only [c1] at h
      by_cases c2 : (!lexLt k0 pfx) = true
      · simp only [c2, if_true] at h
        simp only [Bool.false_eq_true, if_false, Option.some.injEq, Prod.mk.injEq] at h
        obtain ⟨rfl, rfl⟩ := h
        refine ⟨List.mem_cons_self, ?_, by simpa using c2, ?_⟩
        · simp only [Bool.and_eq_true, Bool.not_eq_true', List.isEmpty_eq_false_iff, not_and] at c1
          by_cases hn : neq = []
          · exact Or.inl hn
          · right
            have := c1 hn
            simpa using this
        · intro e he _ _
          rcases List.mem_cons.mp he with rfl | he
          · exact Or.inl rfl
          · exact Or.inr (hs.1 e he)
      · simp only [c2] at h
        simp only [Bool.false_eq_true, if_false] at h
        obtain ⟨h1, h2, h3, h4⟩ := ih hs.2 h
        refine ⟨List.mem_cons_of_mem _ h1, h2, h3, ?_⟩
        intro e he hn hp
        rcases List.mem_cons.mp he with rfl | he
        · exfalso
          simp at hp c2
          rw [hp] at c2; simp at c2
        · exact h4 e he hn hp

theorem applyFilters_get_ok (now : Nat) (r r' : Ref)
    (h : applyFilters [.ignoreExpired, .ignoreDeleted] now r = .ok r') :
    r' = r ∧ r.v.md.deleted = false ∧ r.v.md.expiredAt now = false := by
  simp only [applyFilters, Filter.apply] at h
  cases he : r.v.md.expiredAt now
  · cases hd : r.v.md.deleted
    · simp [he, hd] at h
      exact ⟨h.symm, rfl, rfl⟩
    · simp [he, hd] at h
  · simp [he] at h

theorem prefix_lookup_exact {tr : Tree IVal} {sp : Spec} {env : Env} {txs : List Tx}
    (h : Refines tr sp env txs) (now : Nat) (pfx neq : Bytes) (k : Key) (ref : Ref)
    (hres : storeGetWithPrefix tr.m now pfx neq = .ok (k, ref)) :
    hasPrefix k pfx = true ∧ (neq = [] ∨ lexLt neq k = true) ∧
    (∃ older, LogView sp env txs k = (ref.tx, ref.v) :: older ∧ ref.hc = older.length + 1) ∧
    ref.v.md.deleted = false ∧ ref.v.md.expiredAt now = false ∧
    ∀ k', LogView sp env txs k' ≠ [] → hasPrefix k' pfx = true → (neq = [] ∨ lexLt neq k' = true) →
      k' = k ∨ lexLt k k' = true := by
  unfold storeGetWithPrefix at hres
  cases hg : getWithPrefix tr.m pfx neq with
  | error e => simp [hg, liftRd] at hres
  | ok res =>
    obtain ⟨k1, v, t, hc⟩ := res
    simp only [hg, liftRd] at hres
    cases hf : applyFilters [.ignoreExpired, .ignoreDeleted] now ⟨t, hc, v⟩ with
    | error e => simp [hf] at hres
    | ok r' =>
      simp only [hf, Except.ok.injEq, Prod.mk.injEq] at hres
      obtain ⟨rfl, rfl⟩ := hres
      obtain ⟨rfl, hdel, hexp⟩ := applyFilters_get_ok now _ _ hf
      simp only at hdel hexp
      unfold getWithPrefix at hg
      cases hseek : seekAsc pfx neq tr.m with
      | none => simp [hseek] at hg
      | some kvs =>
        obtain ⟨k2, vs⟩ := kvs
        simp only [hseek] at hg
        by_cases cl : k2.length < pfx.length
        · simp [cl] at hg
        · simp only [cl, if_false] at hg
          by_cases cp : hasPrefix k2 pfx = true
          · simp only [cp, if_true] at hg
            cases vs with
            | nil => simp [Vers.get] at hg
            | cons p older =>
              obtain ⟨t', v'⟩ := p
              simp only [Vers.get, Except.ok.injEq, Prod.mk.injEq] at hg
              obtain ⟨rfl, rfl, rfl, rfl⟩ := hg
              obtain ⟨s1, s2, s3, s4⟩ := seekAsc_spec pfx neq _ _ tr.m h.sorted hseek
              refine ⟨cp, s2, ⟨older, ?_, rfl⟩, hdel, hexp, ?_⟩
              · rw [← h.view]
                exact versions_of_mem tr.m h.sorted _ _ s1
              · intro k' hne hp hn
                rw [← h.view k'] at hne
                have hm := mem_of_versions_ne_nil tr.m k' hne
                exact s4 _ hm hn (hasPrefix_not_lexLt k' pfx hp)
          · simp [cp] at hg

end ImmuModel.Index.L.ReadsAux
